module mutgen

go 1.18

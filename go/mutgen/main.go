// mutgen — generates first-order mutants of the library's non-test Go files (self-validation of /verif only:
// tools/automutate.py applies each mutant to a scratch worktree, keeps those that still compile and pass the pinned
// baseline, and runs the checks against them).
//
//   mutgen -repo <root> -out <dir> [-files a.go,b.go] [-max N] [-seed S]
//
// For every mutant: <out>/<id>/file (the whole mutated file), <out>/<id>/meta.json {file, line, kind, what}.
package main

import (
	"bytes"
	"encoding/json"
	"flag"
	"fmt"
	"go/ast"
	"go/format"
	"go/parser"
	"go/token"
	"math/rand"
	"os"
	"path/filepath"
	"sort"
	"strings"
)

type site struct {
	kind  string
	line  int
	what  string
	apply func()
	undo  func()
}

func main() {
	repo := flag.String("repo", "/repo", "")
	out := flag.String("out", "/tmp/mutants", "")
	filesF := flag.String("files", "", "comma separated paths relative to repo (default: core non-test files)")
	max := flag.Int("max", 200, "")
	seed := flag.Int64("seed", 1, "")
	flag.Parse()
	var files []string
	if *filesF != "" {
		files = strings.Split(*filesF, ",")
	} else {
		all, _ := filepath.Glob(filepath.Join(*repo, "*.go"))
		for _, p := range all {
			b := filepath.Base(p)
			if strings.HasSuffix(b, "_test.go") || strings.HasPrefix(b, "verif_") || b == "ro_example_test.go" {
				continue
			}
			files = append(files, b)
		}
	}
	sort.Strings(files)
	type cand struct {
		file string
		idx  int
		s    site
	}
	var cands []cand
	perFile := map[string]int{}
	for _, rel := range files {
		ss := sites(filepath.Join(*repo, rel), nil)
		for i, s := range ss {
			cands = append(cands, cand{rel, i, s})
		}
		perFile[rel] = len(ss)
	}
	r := rand.New(rand.NewSource(*seed))
	r.Shuffle(len(cands), func(i, j int) { cands[i], cands[j] = cands[j], cands[i] })
	// stratify: round-robin over (file, kind) buckets
	buckets := map[string][]cand{}
	var keys []string
	for _, c := range cands {
		k := c.file + "|" + c.s.kind
		if _, ok := buckets[k]; !ok {
			keys = append(keys, k)
		}
		buckets[k] = append(buckets[k], c)
	}
	sort.Strings(keys)
	r.Shuffle(len(keys), func(i, j int) { keys[i], keys[j] = keys[j], keys[i] })
	var chosen []cand
	for len(chosen) < *max {
		progress := false
		for _, k := range keys {
			if len(buckets[k]) > 0 && len(chosen) < *max {
				chosen = append(chosen, buckets[k][0])
				buckets[k] = buckets[k][1:]
				progress = true
			}
		}
		if !progress {
			break
		}
	}
	os.MkdirAll(*out, 0o755)
	n := 0
	for _, c := range chosen {
		// re-parse and apply the idx-th site
		var buf bytes.Buffer
		ok := false
		sites(filepath.Join(*repo, c.file), func(i int, s site, fset *token.FileSet, f *ast.File) bool {
			if i != c.idx {
				return false
			}
			s.apply()
			if err := format.Node(&buf, fset, f); err == nil {
				ok = true
			}
			return true
		})
		if !ok {
			continue
		}
		n++
		d := filepath.Join(*out, fmt.Sprintf("m%04d", n))
		os.MkdirAll(d, 0o755)
		os.WriteFile(filepath.Join(d, "file"), buf.Bytes(), 0o644)
		js, _ := json.Marshal(map[string]any{"file": c.file, "line": c.s.line, "kind": c.s.kind, "what": c.s.what})
		os.WriteFile(filepath.Join(d, "meta.json"), js, 0o644)
	}
	fmt.Printf("candidates=%d written=%d files=%d\n", len(cands), n, len(files))
}

// sites enumerates the mutation sites of a file in a deterministic order. With visit != nil the file is parsed
// afresh and visit is called for each site (apply mutates that fresh AST).
func sites(path string, visit func(i int, s site, fset *token.FileSet, f *ast.File) bool) []site {
	fset := token.NewFileSet()
	f, err := parser.ParseFile(fset, path, nil, parser.ParseComments)
	if err != nil {
		return nil
	}
	var out []site
	add := func(s site) { out = append(out, s) }
	line := func(p token.Pos) int { return fset.Position(p).Line }
	flip := map[token.Token]token.Token{token.LSS: token.LEQ, token.LEQ: token.LSS, token.GTR: token.GEQ, token.GEQ: token.GTR,
		token.EQL: token.NEQ, token.NEQ: token.EQL, token.LAND: token.LOR, token.LOR: token.LAND}
	ast.Inspect(f, func(n ast.Node) bool {
		switch x := n.(type) {
		case *ast.FuncDecl:
			if x.Body == nil {
				return false
			}
		case *ast.BinaryExpr:
			if to, ok := flip[x.Op]; ok {
				// skip comparisons with nil for ==/!= on err (mostly equivalent panics) — keep them, they are cheap
				from := x.Op
				add(site{kind: "op " + from.String() + "->" + to.String(), line: line(x.OpPos), what: fmt.Sprintf("%s becomes %s", from, to),
					apply: func() { x.Op = to }})
			}
		case *ast.BlockStmt:
			for i := range x.List {
				i := i
				blk := x
				st := blk.List[i]
				switch s := st.(type) {
				case *ast.ExprStmt:
					if c, ok := s.X.(*ast.CallExpr); ok {
						add(site{kind: "del call", line: line(s.Pos()), what: "statement removed: " + callName(c),
							apply: func() { blk.List[i] = &ast.EmptyStmt{Semicolon: s.Pos(), Implicit: true} }})
					}
				case *ast.DeferStmt:
					add(site{kind: "del defer", line: line(s.Pos()), what: "deferred call removed: " + callName(s.Call),
						apply: func() { blk.List[i] = &ast.EmptyStmt{Semicolon: s.Pos(), Implicit: true} }})
					add(site{kind: "undefer", line: line(s.Pos()), what: "defer keyword removed: " + callName(s.Call),
						apply: func() { blk.List[i] = &ast.ExprStmt{X: s.Call} }})
				case *ast.AssignStmt:
					if s.Tok == token.ASSIGN && len(s.Lhs) == 1 {
						add(site{kind: "del assign", line: line(s.Pos()), what: "assignment removed",
							apply: func() { blk.List[i] = &ast.EmptyStmt{Semicolon: s.Pos(), Implicit: true} }})
					}
				case *ast.IncDecStmt:
					add(site{kind: "del incdec", line: line(s.Pos()), what: "increment removed",
						apply: func() { blk.List[i] = &ast.EmptyStmt{Semicolon: s.Pos(), Implicit: true} }})
				case *ast.ReturnStmt:
					if len(s.Results) == 0 && i > 0 {
						add(site{kind: "del return", line: line(s.Pos()), what: "early return removed",
							apply: func() { blk.List[i] = &ast.EmptyStmt{Semicolon: s.Pos(), Implicit: true} }})
					}
				}
				// swap with the next statement when both are simple
				if i+1 < len(blk.List) && simple(blk.List[i]) && simple(blk.List[i+1]) {
					add(site{kind: "swap", line: line(st.Pos()), what: "two adjacent statements swapped",
						apply: func() { blk.List[i], blk.List[i+1] = blk.List[i+1], blk.List[i] }})
				}
			}
		case *ast.IfStmt:
			add(site{kind: "negate if", line: line(x.Pos()), what: "condition negated",
				apply: func() { x.Cond = &ast.UnaryExpr{Op: token.NOT, X: &ast.ParenExpr{X: x.Cond}} }})
		case *ast.BasicLit:
			if x.Kind == token.INT && (x.Value == "0" || x.Value == "1") {
				nv := map[string]string{"0": "1", "1": "0"}[x.Value]
				old := x.Value
				add(site{kind: "int lit", line: line(x.Pos()), what: old + " becomes " + nv, apply: func() { x.Value = nv }})
			}
		case *ast.CallExpr:
			// constructor mode
			if id, ok := x.Fun.(*ast.Ident); ok {
				swapC := map[string]string{"NewObservableWithContext": "NewUnsafeObservableWithContext", "NewUnsafeObservableWithContext": "NewObservableWithContext",
					"NewSafeObservableWithContext": "NewUnsafeObservableWithContext"}
				if to, ok := swapC[id.Name]; ok {
					from := id.Name
					add(site{kind: "ctor", line: line(x.Pos()), what: from + " becomes " + to, apply: func() { id.Name = to }})
				}
			}
			// context argument of an emission / subscription
			if se, ok := x.Fun.(*ast.SelectorExpr); ok && len(x.Args) > 0 {
				switch se.Sel.Name {
				case "NextWithContext", "ErrorWithContext", "CompleteWithContext", "SubscribeWithContext":
					if id, ok := x.Args[0].(*ast.Ident); ok {
						for _, to := range []string{"subscriberCtx", "ctx"} {
							if id.Name != to && (id.Name == "ctx" || id.Name == "subscriberCtx" || strings.HasSuffix(id.Name, "Ctx")) {
								to := to
								from := id.Name
								add(site{kind: "ctx arg", line: line(x.Pos()), what: "context argument " + from + " becomes " + to,
									apply: func() { x.Args[0] = ast.NewIdent(to) }})
							}
						}
						add(site{kind: "ctx bg", line: line(x.Pos()), what: "context argument becomes context.Background()",
							apply: func() {
								x.Args[0] = &ast.CallExpr{Fun: &ast.SelectorExpr{X: ast.NewIdent("context"), Sel: ast.NewIdent("Background")}}
							}})
					}
				}
				// swap two arguments of the same call when both are identifiers
				if len(x.Args) >= 2 {
					a, ok1 := x.Args[0].(*ast.Ident)
					b, ok2 := x.Args[1].(*ast.Ident)
					if ok1 && ok2 && a.Name != b.Name {
						add(site{kind: "swap args", line: line(x.Pos()), what: "first two arguments swapped in " + callName(x),
							apply: func() { x.Args[0], x.Args[1] = x.Args[1], x.Args[0] }})
					}
				}
			}
		}
		return true
	})
	if visit != nil {
		for i, s := range out {
			if visit(i, s, fset, f) {
				break
			}
		}
	}
	return out
}

func simple(s ast.Stmt) bool {
	switch x := s.(type) {
	case *ast.ExprStmt:
		_, ok := x.X.(*ast.CallExpr)
		return ok
	case *ast.AssignStmt:
		return x.Tok == token.ASSIGN
	case *ast.IncDecStmt:
		return true
	}
	return false
}

func callName(c *ast.CallExpr) string {
	switch f := c.Fun.(type) {
	case *ast.Ident:
		return f.Name
	case *ast.SelectorExpr:
		if id, ok := f.X.(*ast.Ident); ok {
			return id.Name + "." + f.Sel.Name
		}
		return "…." + f.Sel.Name
	}
	return "call"
}

package main

// kind=rate (property C20): the two rate limiters of plugins/ratelimit.
//
//   op=native-log  the composition native/operator.go is made of
//                   (GroupBy ; MergeMap(WindowWhen(boundary) ; Map(Take n) ; MergeAll)), built from
//                   the real core operators with a boundary the harness fires by hand (NewRateLimiter
//                   itself hard-wires ro.Interval: there is no seam for a logical tick). Output must
//                   EQUAL the Lean model `native`.
//   op=native-rt   the real roratelimit.NewRateLimiter in real time over a seeded timeline. The
//                   harness records what it emitted (in=k:v:t0:t1) and what passed (obs=k:v@ts, term=)
//                   in the case line after the run; the Lean driver evaluates the proved acceptor.
//   op=ulule       the real ulule operator over a deterministic in-memory limiter.Store whose
//                   answers are a function of the call history; output and answers must EQUAL the model.

import (
	"context"
	"fmt"
	"math/rand"
	"runtime"
	"strconv"
	"strings"
	"sync"
	"sync/atomic"
	"time"

	"github.com/samber/ro"
	rlnative "github.com/samber/ro/plugins/ratelimit/native"
	rlulule "github.com/samber/ro/plugins/ratelimit/ulule"
	"github.com/ulule/limiter/v3"
)

func init() { registerKind("rate", genRate, "rate", runRateCase) }

type rlItem struct{ K, V int }

func rlKey(i rlItem) string { return strconv.Itoa(i.K) }

// one timeline event: an item (key, value, gap in µs before it) or a tick of a key's group
type rlEv struct {
	tick bool
	k, v int
	gap  int
}

// native-log: "i0:1,t0,i1:2"; native-rt / ulule: "0:1@120,1:2@0" (gap optional)
func parseTimeline(s string) ([]rlEv, error) {
	if s == "-" || s == "" {
		return nil, nil
	}
	var out []rlEv
	for _, t := range strings.Split(s, ",") {
		if strings.HasPrefix(t, "t") {
			k, err := strconv.Atoi(t[1:])
			if err != nil {
				return nil, err
			}
			out = append(out, rlEv{tick: true, k: k})
			continue
		}
		t = strings.TrimPrefix(t, "i")
		gap := 0
		if i := strings.IndexByte(t, '@'); i >= 0 {
			g, err := strconv.Atoi(t[i+1:])
			if err != nil {
				return nil, err
			}
			gap = g
			t = t[:i]
		}
		kv := strings.Split(t, ":")
		if len(kv) != 2 {
			return nil, fmt.Errorf("bad item %q", t)
		}
		k, err1 := strconv.Atoi(kv[0])
		v, err2 := strconv.Atoi(kv[1])
		if err1 != nil || err2 != nil {
			return nil, fmt.Errorf("bad item %q", t)
		}
		out = append(out, rlEv{k: k, v: v, gap: gap})
	}
	return out, nil
}

// ---------- recording observer with timestamps ----------

type rlRec struct {
	mu    sync.Mutex
	start time.Time
	out   []string // k:v
	ts    []int64  // µs since start
	term  string   // "-", "C", "E…"
	late  int      // notifications after the terminal
	done  chan struct{}
}

func newRlRec() *rlRec { return &rlRec{term: "-", done: make(chan struct{}), start: time.Now()} }

func (r *rlRec) observer() ro.Observer[rlItem] {
	return ro.NewObserver(
		func(v rlItem) {
			t := time.Since(r.start).Microseconds()
			r.mu.Lock()
			if r.term != "-" {
				r.late++
			}
			r.out = append(r.out, strconv.Itoa(v.K)+":"+strconv.Itoa(v.V))
			r.ts = append(r.ts, t)
			r.mu.Unlock()
		},
		func(err error) { r.end("E" + renderErr(err)) },
		func() { r.end("C") },
	)
}

func (r *rlRec) end(s string) {
	r.mu.Lock()
	if r.term == "-" {
		r.term = s
		close(r.done)
	} else {
		r.late++
	}
	r.mu.Unlock()
}

func (r *rlRec) outString() string {
	r.mu.Lock()
	defer r.mu.Unlock()
	parts := append([]string{}, r.out...)
	if r.term != "-" {
		parts = append(parts, r.term)
	}
	return joinOrDash(parts)
}

// ---------- sources ----------

// a source that runs `play` inside Subscribe (sync) or lets the harness run it afterwards (hot/async)
type rlSource struct {
	sync bool
	play func(dest ro.Observer[rlItem], ctx context.Context)
	mu   sync.Mutex
	dest ro.Observer[rlItem]
	ctx  context.Context
}

func (s *rlSource) observable() ro.Observable[rlItem] {
	return ro.NewUnsafeObservableWithContext(func(ctx context.Context, dest ro.Observer[rlItem]) ro.Teardown {
		s.mu.Lock()
		s.dest, s.ctx = dest, ctx
		s.mu.Unlock()
		if s.sync {
			s.play(dest, ctx)
		}
		return nil
	})
}

func (s *rlSource) playNow() {
	s.mu.Lock()
	dest, ctx := s.dest, s.ctx
	s.mu.Unlock()
	if dest != nil {
		s.play(dest, ctx)
	}
}

func emitEnd(dest ro.Observer[rlItem], ctx context.Context, end string) {
	switch {
	case end == "C":
		dest.CompleteWithContext(ctx)
	case strings.HasPrefix(end, "E"):
		n, _ := strconv.Atoi(end[1:])
		dest.ErrorWithContext(ctx, userErr{n})
	}
}

// the boundary of the logical composition: every group's WindowWhen subscribes here, in the order
// the groups are created; the harness fires the tick of one group
type tickHub struct {
	mu    sync.Mutex
	dests []ro.Observer[int64]
	ctxs  []context.Context
}

func (h *tickHub) observable() ro.Observable[int64] {
	return ro.NewUnsafeObservableWithContext(func(ctx context.Context, dest ro.Observer[int64]) ro.Teardown {
		h.mu.Lock()
		idx := len(h.dests)
		h.dests = append(h.dests, dest)
		h.ctxs = append(h.ctxs, ctx)
		h.mu.Unlock()
		return func() {
			h.mu.Lock()
			h.dests[idx] = nil
			h.mu.Unlock()
		}
	})
}

func (h *tickHub) fire(i int) {
	h.mu.Lock()
	var d ro.Observer[int64]
	var ctx context.Context
	if i < len(h.dests) {
		d, ctx = h.dests[i], h.ctxs[i]
	}
	h.mu.Unlock()
	if d != nil {
		d.NextWithContext(ctx, 0)
	}
}

// a pass-through that calls f when its source completes, before forwarding the completion
func tapComplete[T any](src ro.Observable[T], f func()) ro.Observable[T] {
	return ro.NewUnsafeObservableWithContext(func(ctx context.Context, dest ro.Observer[T]) ro.Teardown {
		sub := src.SubscribeWithContext(ctx, ro.NewObserverWithContext(
			dest.NextWithContext,
			dest.ErrorWithContext,
			func(ctx context.Context) {
				f()
				dest.CompleteWithContext(ctx)
			},
		))
		return sub.Unsubscribe
	})
}

// ---------- running ----------

func runRateCase(c *Case) string {
	switch c.get("op", "?") {
	case "native-log":
		return runRateLog(c)
	case "native-rt":
		return runRateRT(c)
	case "ulule":
		return runRateUlule(c)
	case "native-twin":
		return runRateTwin(c)
	}
	return "res " + c.id + " unsupported"
}

// op=native-twin: ONE limiter value applied to two sources. Subscription A (first) lives on a source that emits one item and
// stays open, under a context of its own; subscription B receives k items of one key, spaced more than a window apart (so
// each falls into a window of its own and passes a quota of 1). After B's first item A goes away (how=cancel: its context is
// cancelled; how=unsub: it is unsubscribed). Nothing of that is B's business: B delivers its k items and completes.
func runRateTwin(c *Case) string {
	setRecorder(nil)
	k, _ := strconv.Atoi(c.get("k", "5"))
	w := 3 * time.Millisecond
	op := rlnative.NewRateLimiter[rlItem](1, w, rlKey)
	ctxA, cancelA := context.WithCancel(context.Background())
	defer cancelA()
	srcA := ro.NewObservableWithContext(func(ctx context.Context, dest ro.Observer[rlItem]) ro.Teardown {
		dest.NextWithContext(ctx, rlItem{0, 100})
		return nil
	})
	subA := op(srcA).SubscribeWithContext(ctxA, ro.NoopObserver[rlItem]())
	var items int32
	term := make(chan string, 2)
	ready := make(chan ro.Observer[rlItem], 1)
	srcB := ro.NewObservableWithContext(func(ctx context.Context, dest ro.Observer[rlItem]) ro.Teardown {
		ready <- dest
		return nil
	})
	subB := op(srcB).Subscribe(ro.NewObserver(func(rlItem) { atomic.AddInt32(&items, 1) },
		func(error) { term <- "E" }, func() { term <- "C" }))
	destB := <-ready
	destB.Next(rlItem{0, 1})
	time.Sleep(w + 2*time.Millisecond)
	if c.get("how", "cancel") == "cancel" {
		cancelA()
	} else {
		subA.Unsubscribe()
	}
	for i := 2; i <= k; i++ {
		time.Sleep(w + 2*time.Millisecond)
		destB.Next(rlItem{0, i})
	}
	time.Sleep(w + 2*time.Millisecond)
	destB.Complete()
	t := "-"
	select {
	case t = <-term:
	case <-time.After(time.Second):
	}
	subB.Unsubscribe()
	subA.Unsubscribe()
	return fmt.Sprintf("res %s items=%d term=%s", c.id, atomic.LoadInt32(&items), t)
}

func runRateLog(c *Case) string {
	tl, err := parseTimeline(c.get("tl", "-"))
	if err != nil {
		return "res " + c.id + " bad-script"
	}
	n, _ := strconv.Atoi(c.get("n", "1"))
	end := c.get("end", "-")
	hub := &tickHub{}
	rec := newRlRec()
	groupIdx := map[int]int{}
	src := &rlSource{sync: c.get("mode", "sync") == "sync"}
	// latetick=all: a schedule in which the tickers fire while the completion of the source is being
	// processed, between WindowWhen closing its last window and completing its destination. The two
	// steps run on the source's goroutine with no user code in between, so the tick (which in
	// production comes from the Interval goroutine) is delivered re-entrantly: every window is
	// observed through a pass-through tap whose completion callback fires the tick of every group
	// still subscribed. The tap sees the completion of a window only while the window's Take is
	// still listening (quota not used up), so the late tick is injectable for those groups.
	inEnd, busy := false, false
	lateTick := c.get("latetick", "-") == "all"
	onWindowComplete := func() {
		if lateTick && inEnd && !busy {
			busy = true
			for i := 0; i < len(groupIdx); i++ {
				hub.fire(i)
			}
			busy = false
		}
	}
	src.play = func(dest ro.Observer[rlItem], ctx context.Context) {
		for _, ev := range tl {
			if ev.tick {
				if gi, ok := groupIdx[ev.k]; ok {
					hub.fire(gi)
				}
				continue
			}
			if _, ok := groupIdx[ev.k]; !ok {
				groupIdx[ev.k] = len(groupIdx)
			}
			dest.NextWithContext(ctx, rlItem{ev.k, ev.v})
		}
		inEnd = true
		emitEnd(dest, ctx, end)
		inEnd = false
	}
	// plugins/ratelimit/native/operator.go:29-40 with the Interval replaced by the hub
	obs := ro.Pipe2(
		src.observable(),
		ro.GroupBy(rlKey),
		ro.MergeMap(
			ro.PipeOp3(
				ro.WindowWhen[rlItem](hub.observable()),
				ro.Map(func(w ro.Observable[rlItem]) ro.Observable[rlItem] {
					if lateTick {
						w = tapComplete(w, onWindowComplete)
					}
					return ro.Take[rlItem](int64(n))(w)
				}),
				ro.MergeAll[rlItem](),
			),
		),
	)
	sub := obs.Subscribe(rec.observer())
	if !src.sync {
		src.playNow()
	}
	sub.Unsubscribe()
	return fmt.Sprintf("res %s out=%s", c.id, rec.outString())
}

func waitUntil(start time.Time, targetUs int64) {
	for {
		d := targetUs - time.Since(start).Microseconds()
		if d <= 0 {
			return
		}
		if d > 4000 {
			// sleeping overshoots by about a millisecond on this kind of machine: sleep the bulk, spin the rest
			time.Sleep(time.Duration(d-3000) * time.Microsecond)
		} else {
			runtime.Gosched()
		}
	}
}

func runRateRT(c *Case) string {
	tl, err := parseTimeline(c.get("tl", "-"))
	if err != nil {
		return "res " + c.id + " bad-script"
	}
	n, _ := strconv.Atoi(c.get("n", "1"))
	w, _ := strconv.Atoi(c.get("w", "3000"))
	end := c.get("end", "-")
	rec := newRlRec()
	var in []string
	played := make(chan struct{})
	src := &rlSource{sync: c.get("mode", "sync") == "sync"}
	src.play = func(dest ro.Observer[rlItem], ctx context.Context) {
		defer close(played)
		target := time.Since(rec.start).Microseconds()
		for _, ev := range tl {
			if ev.tick {
				continue
			}
			target += int64(ev.gap)
			waitUntil(rec.start, target)
			t0 := time.Since(rec.start).Microseconds()
			dest.NextWithContext(ctx, rlItem{ev.k, ev.v})
			t1 := time.Since(rec.start).Microseconds()
			in = append(in, fmt.Sprintf("%d:%d:%d:%d", ev.k, ev.v, t0, t1))
		}
		emitEnd(dest, ctx, end)
	}
	obs := rlnative.NewRateLimiter[rlItem](int64(n), time.Duration(w)*time.Microsecond, rlKey)(src.observable())
	// a ticker like the limiter's own, observed by the harness: how far the distance between two
	// consecutive deliveries strayed from w during this run (jit=, µs) measures how much shorter than
	// w the limiter's real windows may have been; the check may grant 2*jit of slack to the bound
	monStop := make(chan struct{})
	monDone := make(chan int64, 1)
	go func() {
		tk := time.NewTicker(time.Duration(w) * time.Microsecond)
		defer tk.Stop()
		var worst int64
		last := time.Since(rec.start).Microseconds()
		for {
			select {
			case <-tk.C:
				now := time.Since(rec.start).Microseconds()
				d := now - last - int64(w)
				if d < 0 {
					d = -d
				}
				if d > worst {
					worst = d
				}
				last = now
			case <-monStop:
				monDone <- worst
				return
			}
		}
	}()
	var final ro.Observer[rlItem] = rec.observer()
	if st := c.get("stall", "-"); st != "-" {
		// a consumer hiccup: the j-th delivered item blocks its callback for `us` microseconds (several windows). The limiter's
		// clock cannot cut windows meanwhile (its ticks wait for the subscriber that is mid-delivery); what it does with the
		// ticks it missed decides how many windows open right after the consumer resumes.
		var j, us int
		fmt.Sscanf(st, "%d:%d", &j, &us)
		inner := final
		seen := 0
		final = ro.NewObserver(
			func(v rlItem) {
				inner.Next(v)
				seen++
				if seen == j {
					time.Sleep(time.Duration(us) * time.Microsecond)
				}
			},
			inner.Error, inner.Complete)
	}
	sub := obs.Subscribe(final)
	if !src.sync {
		go src.playNow()
	}
	flag := ""
	select {
	case <-played:
	case <-time.After(10 * time.Second):
		flag = " play-timeout"
	}
	if end != "-" && flag == "" {
		// the terminal of the source must come out; the deadline is a guard: no terminal within it
		// is recorded as term=- and rejected by the acceptor
		select {
		case <-rec.done:
		case <-time.After(1500 * time.Millisecond):
		}
	} else if flag == "" {
		time.Sleep(time.Duration(w/2) * time.Microsecond)
	}
	sub.Unsubscribe()
	close(monStop)
	c.set("jit", strconv.FormatInt(<-monDone, 10))
	rec.mu.Lock()
	obsParts := make([]string, len(rec.out))
	for i := range rec.out {
		obsParts[i] = rec.out[i] + "@" + strconv.FormatInt(rec.ts[i], 10)
	}
	term, late := rec.term, rec.late
	rec.mu.Unlock()
	if flag == "" {
		c.set("in", joinOrDash(in))
	}
	c.set("obs", joinOrDash(obsParts))
	c.set("term", term)
	c.set("after", strconv.Itoa(late)) // notifications that reached the recorder after the terminal
	// the implementation's side of the tie is the observation itself; the verdict is the Lean acceptor's
	return fmt.Sprintf("res %s accept=t why=-%s", c.id, flag)
}

// ---------- ulule: deterministic store ----------

// detStore answers as a function of the call history: epochs of `p` calls; within an epoch a key is
// "reached" once it was asked more than `m` times; call number failAt fails.
type detStore struct {
	mu      sync.Mutex
	m, p    int
	failAt  int
	calls   int
	epoch   int
	counts  map[string]int
	answers []string
}

func (s *detStore) Get(ctx context.Context, key string, rate limiter.Rate) (limiter.Context, error) {
	s.mu.Lock()
	defer s.mu.Unlock()
	c := s.calls
	s.calls++
	if ep := c / s.p; ep != s.epoch || s.counts == nil {
		s.epoch = ep
		s.counts = map[string]int{}
	}
	s.counts[key]++
	if c == s.failAt {
		s.answers = append(s.answers, "E"+renderErr(userErr{9}))
		return limiter.Context{}, userErr{9}
	}
	reached := s.counts[key] > s.m
	s.answers = append(s.answers, renderVal(reached))
	rem := int64(s.m - s.counts[key])
	if rem < 0 {
		rem = 0
	}
	return limiter.Context{Limit: rate.Limit, Remaining: rem, Reached: reached}, nil
}

func (s *detStore) Peek(ctx context.Context, key string, rate limiter.Rate) (limiter.Context, error) {
	return limiter.Context{}, nil
}

// Reset wipes the counter of a key: the store is shared by every stream that uses the limiter, so an operator that calls it
// (e.g. when one of its subscriptions ends) hands a fresh quota to everybody inside the current window. Recorded among the
// answers: the model's store is only ever asked, never reset.
func (s *detStore) Reset(ctx context.Context, key string, rate limiter.Rate) (limiter.Context, error) {
	s.mu.Lock()
	defer s.mu.Unlock()
	delete(s.counts, key)
	s.answers = append(s.answers, "reset:"+key)
	return limiter.Context{}, nil
}
func (s *detStore) Increment(ctx context.Context, key string, count int64, rate limiter.Rate) (limiter.Context, error) {
	return limiter.Context{}, nil
}

func runRateUlule(c *Case) string {
	tl, err := parseTimeline(c.get("tl", "-"))
	if err != nil {
		return "res " + c.id + " bad-script"
	}
	sp := parseInts(strings.ReplaceAll(c.get("store", "1/3/-1"), "/", ","))
	if len(sp) != 3 || sp[1] <= 0 {
		return "res " + c.id + " bad-store"
	}
	end := c.get("end", "-")
	store := &detStore{m: sp[0], p: sp[1], failAt: sp[2]}
	rec := newRlRec()
	src := &rlSource{sync: c.get("mode", "sync") == "sync"}
	src.play = func(dest ro.Observer[rlItem], ctx context.Context) {
		for _, ev := range tl {
			if !ev.tick {
				dest.NextWithContext(ctx, rlItem{ev.k, ev.v})
			}
		}
		emitEnd(dest, ctx, end)
	}
	lim := limiter.New(store, limiter.Rate{Period: time.Second, Limit: int64(sp[0])})
	obs := rlulule.NewRateLimiter[rlItem](lim, rlKey)(src.observable())
	sub := obs.Subscribe(rec.observer())
	if !src.sync {
		src.playNow()
	}
	sub.Unsubscribe()
	return fmt.Sprintf("res %s out=%s ans=%s", c.id, rec.outString(), joinOrDash(store.answers))
}

// ---------- generation ----------

func tlString(tl []rlEv, withGap bool) string {
	if len(tl) == 0 {
		return "-"
	}
	parts := make([]string, len(tl))
	for i, ev := range tl {
		switch {
		case ev.tick:
			parts[i] = "t" + strconv.Itoa(ev.k)
		case withGap:
			parts[i] = fmt.Sprintf("%d:%d@%d", ev.k, ev.v, ev.gap)
		default:
			parts[i] = fmt.Sprintf("i%d:%d", ev.k, ev.v)
		}
	}
	return strings.Join(parts, ",")
}

// all timelines over the alphabet up to maxLen; item values are the positions (distinct)
func allTimelines(alphabet []rlEv, maxLen int) [][]rlEv {
	out := [][]rlEv{{}}
	frontier := [][]rlEv{{}}
	for l := 1; l <= maxLen; l++ {
		var next [][]rlEv
		for _, pre := range frontier {
			for _, a := range alphabet {
				a.v = l
				next = append(next, append(append([]rlEv{}, pre...), a))
			}
		}
		out = append(out, next...)
		frontier = next
	}
	return out
}

func randomLogTimeline(r *rand.Rand, n, keys int) []rlEv {
	tl := make([]rlEv, n)
	tickP := 1 + r.Intn(4)
	for i := range tl {
		tl[i] = rlEv{k: r.Intn(keys), v: i + 1, tick: r.Intn(6) < tickP}
	}
	return tl
}

// seeded real-time timelines: bursts, steady, sparse, dense-long (many consecutive windows, more
// arrivals than the quota in each: the shape on which an over-generous limiter exceeds the bound)
func randomRTTimeline(r *rand.Rand, profile string, n, w, keys int, thorough bool) []rlEv {
	var tl []rlEv
	budget := int64(w) * int64(6+r.Intn(5)) // total duration
	if thorough {
		budget = int64(w) * int64(8+r.Intn(12))
	}
	var t int64
	id := 0
	add := func(k, gap int) {
		id++
		tl = append(tl, rlEv{k: k, v: id, gap: gap})
		t += int64(gap)
	}
	switch profile {
	case "burst":
		for t < budget && id < 160 {
			k := r.Intn(keys)
			size := 1 + r.Intn(2*n+3)
			pause := w/4 + r.Intn(2*w)
			for j := 0; j < size; j++ {
				gap := r.Intn(60)
				if j == 0 {
					gap = pause
				}
				kk := k
				if r.Intn(4) == 0 {
					kk = r.Intn(keys)
				}
				add(kk, gap)
			}
		}
	case "steady":
		base := w / (2 + r.Intn(6))
		for t < budget && id < 160 {
			add(r.Intn(keys), base/2+r.Intn(base+1))
		}
	case "sparse":
		for t < budget && id < 60 {
			add(r.Intn(keys), w/2+r.Intn(2*w))
		}
	default: // dense
		per := (n + 1) * keys * (2 + r.Intn(2)) // arrivals per window
		base := w / per
		if base < 20 {
			base = 20
		}
		for t < budget && id < 220 {
			add(r.Intn(keys), base/2+r.Intn(base+1))
		}
	}
	return tl
}

func genRate(tier string, seed int64, only string) []*Case {
	r := rand.New(rand.NewSource(seed))
	thorough := tier == "thorough"
	var cases []*Case
	id := 0
	emit := func(kv ...string) {
		id++
		cases = append(cases, newCase(id, append([]string{"kind", "rate"}, kv...)...))
	}
	ends := []string{"C", "E3", "-"}
	modes := []string{"sync", "hot"}

	if only == "" || only == "native-log" {
		alpha := []rlEv{{k: 0}, {k: 1}, {tick: true, k: 0}, {tick: true, k: 1}}
		maxLen := 4
		if thorough {
			maxLen = 6
		}
		for _, tl := range allTimelines(alpha, maxLen) {
			for _, n := range []int{0, 1, 2} {
				for _, end := range ends {
					for _, mode := range modes {
						emit("op", "native-log", "n", strconv.Itoa(n), "mode", mode, "end", end, "latetick", "-", "tl", tlString(tl, false))
						if end != "-" && len(tl) <= 3 {
							emit("op", "native-log", "n", strconv.Itoa(n), "mode", mode, "end", end, "latetick", "all", "tl", tlString(tl, false))
						}
					}
				}
			}
		}
		nr := 300
		if thorough {
			nr = 6000
		}
		for i := 0; i < nr; i++ {
			tl := randomLogTimeline(r, 5+r.Intn(40), 1+r.Intn(4))
			lt := "-"
			if r.Intn(5) == 0 {
				lt = "all"
			}
			emit("op", "native-log", "n", strconv.Itoa(r.Intn(5)), "mode", modes[r.Intn(2)], "end", ends[r.Intn(3)], "latetick", lt, "tl", tlString(tl, false))
		}
	}

	if only == "" || only == "native-twin" {
		for rep := 0; rep < 3; rep++ {
			for _, how := range []string{"cancel", "unsub"} {
				emit("op", "native-twin", "how", how, "k", "5")
			}
		}
	}
	if only == "" || only == "ulule" {
		alpha := []rlEv{{k: 0}, {k: 1}}
		maxLen := 4
		if thorough {
			maxLen = 6
		}
		for _, tl := range allTimelines(alpha, maxLen) {
			for _, m := range []int{0, 1, 2} {
				for _, p := range []int{1, 3} {
					for _, failAt := range []int{-1, 0, 2} {
						for _, end := range ends {
							for _, mode := range modes {
								emit("op", "ulule", "store", fmt.Sprintf("%d/%d/%d", m, p, failAt), "mode", mode, "end", end, "tl", tlString(tl, true))
							}
						}
					}
				}
			}
		}
		nr := 300
		if thorough {
			nr = 6000
		}
		for i := 0; i < nr; i++ {
			ln := 5 + r.Intn(40)
			keys := 1 + r.Intn(4)
			tl := make([]rlEv, ln)
			for j := range tl {
				tl[j] = rlEv{k: r.Intn(keys), v: j + 1}
			}
			failAt := -1
			if r.Intn(4) == 0 {
				failAt = r.Intn(ln + 2)
			}
			emit("op", "ulule", "store", fmt.Sprintf("%d/%d/%d", r.Intn(4), 1+r.Intn(9), failAt), "mode", modes[r.Intn(2)], "end", ends[r.Intn(3)], "tl", tlString(tl, true))
		}
	}

	if only == "" || only == "native-rt" {
		nrt := 280
		if thorough {
			nrt = 4000
		}
		profiles := []string{"burst", "steady", "sparse", "dense", "dense"}
		for i := 0; i < nrt; i++ {
			n := 1 + r.Intn(3)
			if r.Intn(12) == 0 {
				n = 0
			}
			w := 2000 + 500*r.Intn(7) // 2..5 ms
			keys := 1 + r.Intn(3)
			profile := profiles[i%len(profiles)]
			tl := randomRTTimeline(r, profile, n, w, keys, thorough)
			end := "C"
			switch r.Intn(10) {
			case 0, 1:
				end = "E3"
			case 2:
				end = "-"
			}
			mode := "sync"
			if r.Intn(2) == 0 {
				mode = "async"
			}
			emit("op", "native-rt", "profile", profile, "n", strconv.Itoa(n), "w", strconv.Itoa(w), "slack", "0", "mode", mode, "end", end, "tl", tlString(tl, true))
		}
		// a consumer that blocks for several windows in the middle of a dense single-key stream
		nst := 4
		if thorough {
			nst = 24
		}
		for i := 0; i < nst; i++ {
			// the hiccup lasts ~100 windows; the producer keeps offering items as fast as it can afterwards (the timeline is on
			// an absolute schedule, so everything due during the hiccup is offered back to back once the consumer resumes)
			w := 2000 + 500*r.Intn(3)
			var tl []rlEv
			for id := 1; id <= 3000; id++ {
				tl = append(tl, rlEv{k: 0, v: id, gap: 20 + r.Intn(20)})
			}
			mode := []string{"sync", "async"}[i%2]
			emit("op", "native-rt", "profile", "stall", "n", "1", "w", strconv.Itoa(w), "slack", "0", "mode", mode, "end", "C",
				"stall", fmt.Sprintf("%d:%d", 2+r.Intn(2), (90+r.Intn(30))*w), "tl", tlString(tl, true))
		}
	}
	return cases
}

package main

// kind=nilobs (C07 / C01): an observer built by ro.NewObserverWithContext with any of its three callbacks nil, driven
// directly with a raw script, its Next callback panicking at chosen invocations. The model is RoModel/ObsNil.lean
// (observer.go read line by line); compared with equality: what the callbacks saw, the dropped-notification hook, the
// unhandled-error hook.
//
//   case 5 kind=nilobs cbs=n-c src=N1@1,N2@2,C@3 faults=1:pe5      cbs: which callbacks are present (n, e, c / -)
//   res 5 trace=N1/7.1 drops=- unh=ob(u5)

import (
	"context"
	"fmt"
	"strconv"
	"strings"

	"github.com/samber/ro"
)

func init() { registerKind("nilobs", genNilObs, "nilobs", runNilObs) }

func genNilObs(tier string, seed int64, only string) []*Case {
	var out []*Case
	id := 0
	scripts := []string{"N1@1,N2@2,N3@3,C@4", "N1@1,N2@2,E1@3", "N1@1,E1@2,N2@3,C@4", "N1@1,C@2,N2@3,E2@4", "C@1", "E1@1", "N1@1,N2@2"}
	faults := []string{"-", "0:pe5", "1:pe5", "2:pv6", "0:pe5,1:pv6", "1:pw8"}
	for _, cbs := range []string{"nec", "n-c", "ne-", "n--", "-ec", "--c", "-e-"} {
		for _, s := range scripts {
			for _, f := range faults {
				id++
				out = append(out, newCase(id, "kind", "nilobs", "cbs", cbs, "src", s, "faults", f, "sub", "7"))
			}
		}
	}
	// the partial observers and NewObserver: the other callbacks are EMPTY, not nil
	for _, ctor := range []string{"OnNext", "OnNextWithContext", "OnError", "OnErrorWithContext", "OnComplete", "OnCompleteWithContext", "Noop", "NewObserver"} {
		for _, s := range append(scripts, "N1@1,E1@2,E2@3,C@4", "C@1,C@2,N1@3", "E0@1,N1@2") {
			for _, f := range faults {
				if f != "-" && ctor != "OnNext" && ctor != "OnNextWithContext" && ctor != "NewObserver" {
					continue
				}
				id++
				out = append(out, newCase(id, "kind", "nilobs", "ctor", ctor, "src", s, "faults", f, "sub", "7"))
			}
		}
	}
	return out
}

func runNilObs(c *Case) string {
	script, err := parseScript(c.get("src", "-"))
	if err != nil {
		return "res " + c.id + " bad-script"
	}
	plan := map[int]faultWhat{}
	if f := c.get("faults", "-"); f != "-" {
		for _, t := range strings.Split(f, ",") {
			kv := strings.SplitN(t, ":", 2)
			k, e1 := strconv.Atoi(kv[0])
			w, ok := parseFaultWhat(kv[1])
			if e1 != nil || !ok {
				return "res " + c.id + " bad-faults"
			}
			plan[k] = w
		}
	}
	rec := &Recorder{}
	setRecorder(rec)
	defer setRecorder(nil)
	cbs := c.get("cbs", "nec")
	calls := 0
	var onNext func(context.Context, int)
	var onError func(context.Context, error)
	var onComplete func(context.Context)
	if strings.Contains(cbs, "n") {
		onNext = func(ctx context.Context, v int) {
			k := calls
			calls++
			if w, ok := plan[k]; ok {
				raise(&w)
			}
			rec.add("N" + renderVal(v) + "/" + renderCtx(ctx))
		}
	}
	if strings.Contains(cbs, "e") {
		onError = func(ctx context.Context, err error) { rec.add("E" + renderErr(err) + "/" + renderCtx(ctx)) }
	}
	if strings.Contains(cbs, "c") {
		onComplete = func(ctx context.Context) { rec.add("C/" + renderCtx(ctx)) }
	}
	obs := ro.NewObserverWithContext(onNext, onError, onComplete)
	if ctor := c.get("ctor", "-"); ctor != "-" {
		next := func(v int) {
			k := calls
			calls++
			if w, ok := plan[k]; ok {
				raise(&w)
			}
			rec.add("N" + renderVal(v))
		}
		nextC := func(ctx context.Context, v int) {
			k := calls
			calls++
			if w, ok := plan[k]; ok {
				raise(&w)
			}
			rec.add("N" + renderVal(v) + "/" + renderCtx(ctx))
		}
		switch ctor {
		case "OnNext":
			obs = ro.OnNext(next)
		case "OnNextWithContext":
			obs = ro.OnNextWithContext(nextC)
		case "OnError":
			obs = ro.OnError[int](func(err error) { rec.add("E" + renderErr(err)) })
		case "OnErrorWithContext":
			obs = ro.OnErrorWithContext[int](func(ctx context.Context, err error) { rec.add("E" + renderErr(err) + "/" + renderCtx(ctx)) })
		case "OnComplete":
			obs = ro.OnComplete[int](func() { rec.add("C") })
		case "OnCompleteWithContext":
			obs = ro.OnCompleteWithContext[int](func(ctx context.Context) { rec.add("C/" + renderCtx(ctx)) })
		case "Noop":
			obs = ro.NoopObserver[int]()
		case "NewObserver":
			obs = ro.NewObserver(next, func(err error) { rec.add("E" + renderErr(err)) }, func() { rec.add("C") })
		default:
			return "res " + c.id + " unsupported"
		}
	}
	subCtx := ctxFromMarks(parseInts(strings.ReplaceAll(c.get("sub", "-"), ".", ",")))
	escaped := "-"
	func() {
		defer func() {
			if r := recover(); r != nil {
				escaped = fmt.Sprint(r)
			}
		}()
		for _, t := range script {
			emit(obs, subCtx, t)
		}
	}()
	rec.mu.Lock()
	defer rec.mu.Unlock()
	return fmt.Sprintf("res %s trace=%s drops=%s unh=%s esc=%s", c.id, joinOrDash(rec.trace), joinOrDash(rec.drops), joinOrDash(rec.unhandled), strings.ReplaceAll(escaped, " ", "_"))
}

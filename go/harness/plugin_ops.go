package main

// kind=plugin: the operator table — every exported operator of the data plugins next to the
// library function it wraps.

import (
	"bufio"
	"bytes"
	"encoding/base64"
	"encoding/csv"
	"encoding/gob"
	"encoding/hex"
	"encoding/json"
	"errors"
	htmltemplate "html/template"
	"io"
	"regexp"
	"sort"
	"strconv"
	"strings"
	texttemplate "text/template"
	"time"
	_ "time/tzdata"
	"unicode/utf8"

	"github.com/samber/ro"
	robytes "github.com/samber/ro/plugins/bytes"
	robase64 "github.com/samber/ro/plugins/encoding/base64"
	rocsv "github.com/samber/ro/plugins/encoding/csv"
	rogob "github.com/samber/ro/plugins/encoding/gob"
	rojson "github.com/samber/ro/plugins/encoding/json"
	roregexp "github.com/samber/ro/plugins/regexp"
	rosort "github.com/samber/ro/plugins/sort"
	rostdio "github.com/samber/ro/plugins/stdio"
	rostrconv "github.com/samber/ro/plugins/strconv"
	rostrings "github.com/samber/ro/plugins/strings"
	rotemplate "github.com/samber/ro/plugins/template"
	rotime "github.com/samber/ro/plugins/time"
)

func classifyErr(err error) string {
	var ne *strconv.NumError
	if errors.As(err, &ne) {
		switch ne.Err {
		case strconv.ErrSyntax:
			return "syntax"
		case strconv.ErrRange:
			return "range"
		}
		return "num"
	}
	var ce base64.CorruptInputError
	if errors.As(err, &ce) {
		return "corrupt"
	}
	return "err"
}

func params(c *Case) []string {
	p := c.get("p", "-")
	if p == "-" || p == "" {
		return nil
	}
	return strings.Split(p, ",")
}

func pInt(ps []string, i int) int {
	if i < len(ps) {
		v, _ := strconv.Atoi(ps[i])
		return v
	}
	return 0
}

func pHex(ps []string, i int) string {
	if i < len(ps) {
		if ps[i] == "e" {
			return ""
		}
		b, _ := hex.DecodeString(ps[i])
		return string(b)
	}
	return ""
}

func mustItems(c *Case) [][]byte {
	items, err := parseItems(c.get("in", "-"))
	if err != nil {
		panic("bad items: " + err.Error())
	}
	return items
}

func stringItems(c *Case) []string {
	bs := mustItems(c)
	out := make([]string, len(bs))
	for i, b := range bs {
		out[i] = string(b)
	}
	return out
}

// []byte items, each in its own backing array with `cap=` spare bytes (and 4 sentinel bytes in front)
func backedItems(c *Case) ([][]byte, [][]byte, []backed) {
	bs := mustItems(c)
	extra, _ := strconv.Atoi(c.get("cap", "0"))
	items := make([][]byte, len(bs))
	ref := make([][]byte, len(bs))
	bk := make([]backed, len(bs))
	for i, b := range bs {
		bk[i] = mkBacked(b, 4, extra)
		items[i] = bk[i].s
		r := mkBacked(b, 4, extra) // the wrapped function gets the same shape of slice, in its own array
		ref[i] = r.s
	}
	return items, ref, bk
}

// ---- helpers to register lifts ----

func keep1[A, B any](f func(A) B) func(A) (B, error, bool) {
	return func(a A) (B, error, bool) { return f(a), nil, true }
}

func keepE[A, B any](f func(A) (B, error)) func(A) (B, error, bool) {
	return func(a A) (B, error, bool) { v, err := f(a); return v, err, true }
}

func filt[A any](p func(A) bool) func(A) (A, error, bool) {
	return func(a A) (A, error, bool) { return a, nil, p(a) }
}

// string items
func regStr[B any](name string, mk func(ps []string) (func(ro.Observable[string]) ro.Observable[B], func(string) (B, error, bool)), model func(ps []string) func(B) string) {
	pluginOps[name] = func(c *Case) pRes {
		ps := params(c)
		op, direct := mk(ps)
		items := stringItems(c)
		var m func(B) string
		if model != nil {
			m = model(ps)
		}
		return runLift(c, liftSpec[string, B]{items: items, ref: append([]string(nil), items...), op: op, direct: direct, model: m})
	}
}

// []byte items
func regBytes[B any](name string, mk func(ps []string) (func(ro.Observable[[]byte]) ro.Observable[B], func([]byte) (B, error, bool)), model func(ps []string) func(B) string) {
	pluginOps[name] = func(c *Case) pRes {
		ps := params(c)
		op, direct := mk(ps)
		items, ref, bk := backedItems(c)
		var m func(B) string
		if model != nil {
			m = model(ps)
		}
		return runLift(c, liftSpec[[]byte, B]{items: items, ref: ref, snap: snapBacked(bk), op: op, direct: direct, model: m})
	}
}

// items of any other type, parsed from the hex text of each item
func regParsed[A, B any](name string, parse func(string) A, mk func(ps []string) (func(ro.Observable[A]) ro.Observable[B], func(A) (B, error, bool)), model func(ps []string) func(B) string) {
	pluginOps[name] = func(c *Case) pRes {
		ps := params(c)
		op, direct := mk(ps)
		strs := stringItems(c)
		items := make([]A, len(strs))
		ref := make([]A, len(strs))
		for i, s := range strs {
			items[i] = parse(s)
			ref[i] = parse(s)
		}
		var m func(B) string
		if model != nil {
			m = model(ps)
		}
		return runLift(c, liftSpec[A, B]{items: items, ref: ref, op: op, direct: direct, model: m})
	}
}

func noModel[B any]() func([]string) func(B) string { return nil }

func b64enc(name string) *base64.Encoding {
	switch name {
	case "url":
		return base64.URLEncoding
	case "rawstd":
		return base64.RawStdEncoding
	case "rawurl":
		return base64.RawURLEncoding
	}
	return base64.StdEncoding
}

var pluginPatterns = map[string]*regexp.Regexp{}

func pattern(src string) *regexp.Regexp {
	if r, ok := pluginPatterns[src]; ok {
		return r
	}
	r := regexp.MustCompile(src)
	pluginPatterns[src] = r
	return r
}

func parseIntItem(s string) int       { v, _ := strconv.ParseInt(s, 10, 64); return int(v) }
func parseInt64Item(s string) int64   { v, _ := strconv.ParseInt(s, 10, 64); return v }
func parseUint64Item(s string) uint64 { v, _ := strconv.ParseUint(s, 10, 64); return v }
func parseBoolItem(s string) bool     { return s == "t" }
func parseFloatItem(s string) float64 { v, _ := strconv.ParseFloat(s, 64); return v }
func parseComplexItem(s string) complex128 {
	v, _ := strconv.ParseComplex(s, 128)
	return v
}
func parseRuneItem(s string) rune { r, _ := utf8.DecodeRuneInString(s); return r }

// times: "<unixnano>@<zone>" ; zone = UTC | Local-free names | +HHMM fixed
func pluginLoc(name string) *time.Location {
	switch name {
	case "", "UTC":
		return time.UTC
	case "NY":
		l, err := time.LoadLocation("America/New_York")
		if err != nil {
			panic(err)
		}
		return l
	case "Kolkata":
		l, err := time.LoadLocation("Asia/Kolkata")
		if err != nil {
			panic(err)
		}
		return l
	case "Apia":
		l, err := time.LoadLocation("Pacific/Apia")
		if err != nil {
			panic(err)
		}
		return l
	case "plus0530":
		return time.FixedZone("X", 5*3600+1800)
	case "minus1100":
		return time.FixedZone("Y", -11*3600)
	}
	panic("unknown zone " + name)
}

func parseTimeItem(s string) time.Time {
	if s == "zero" {
		return time.Time{}
	}
	i := strings.IndexByte(s, '@')
	n, _ := strconv.ParseInt(s[:i], 10, 64)
	return time.Unix(0, n).In(pluginLoc(s[i+1:]))
}

var pluginLayouts = map[string]string{
	"rfc3339": time.RFC3339, "rfc3339nano": time.RFC3339Nano, "date": "2006-01-02", "kitchen": time.Kitchen,
	"rfc1123": time.RFC1123, "ansic": time.ANSIC, "custom": "02/01/2006 15:04:05.000 -0700 MST", "empty": "",
}

// the structured value used for JSON / gob / templates
type pDoc struct {
	N int               `json:"n"`
	S string            `json:"s"`
	B []byte            `json:"b"`
	F float64           `json:"f"`
	L []int             `json:"l"`
	M map[string]string `json:"m,omitempty"`
	P *int              `json:"p"`
}

// items for Marshal / gob.Encode / templates: a tiny description language
//
//	doc:<n>:<hex s>:<hex b>:<f>:<l0.l1…>   |  nan  |  inf
func parseDocItem(s string) pDoc {
	switch s {
	case "nan":
		return pDoc{F: nanValue()}
	case "inf":
		return pDoc{F: infValue()}
	case "zero":
		return pDoc{}
	}
	f := strings.Split(s, ":")
	d := pDoc{}
	if len(f) > 1 {
		d.N, _ = strconv.Atoi(f[1])
	}
	if len(f) > 2 {
		b, _ := hex.DecodeString(f[2])
		d.S = string(b)
	}
	if len(f) > 3 && f[3] != "nil" {
		d.B, _ = hex.DecodeString(f[3])
		if d.B == nil {
			d.B = []byte{}
		}
	}
	if len(f) > 4 {
		d.F, _ = strconv.ParseFloat(f[4], 64)
	}
	if len(f) > 5 && f[5] != "" {
		for _, t := range strings.Split(f[5], ".") {
			v, _ := strconv.Atoi(t)
			d.L = append(d.L, v)
		}
	}
	if len(f) > 6 && f[6] != "" {
		d.M = map[string]string{f[6]: "v"}
	}
	if len(f) > 7 && f[7] != "" {
		v, _ := strconv.Atoi(f[7])
		d.P = &v
	}
	return d
}

func nanValue() float64 { z := 0.0; return z / z }
func infValue() float64 { z := 0.0; return 1 / z }

func init() {
	// ---------------- strconv (plugins/strconv/operator.go) ----------------
	regStr("strconv.Atoi", func(ps []string) (func(ro.Observable[string]) ro.Observable[int], func(string) (int, error, bool)) {
		return rostrconv.Atoi[string](), keepE(strconv.Atoi)
	}, func([]string) func(int) string { return mInt })
	regStr("strconv.ParseInt", func(ps []string) (func(ro.Observable[string]) ro.Observable[int64], func(string) (int64, error, bool)) {
		base, bits := pInt(ps, 0), pInt(ps, 1)
		return rostrconv.ParseInt[string](base, bits), keepE(func(s string) (int64, error) { return strconv.ParseInt(s, base, bits) })
	}, func([]string) func(int64) string { return mInt64 })
	regStr("strconv.ParseFloat", func(ps []string) (func(ro.Observable[string]) ro.Observable[float64], func(string) (float64, error, bool)) {
		bits := pInt(ps, 0)
		return rostrconv.ParseFloat[string](bits), keepE(func(s string) (float64, error) { return strconv.ParseFloat(s, bits) })
	}, noModel[float64]())
	regStr("strconv.ParseBool", func(ps []string) (func(ro.Observable[string]) ro.Observable[bool], func(string) (bool, error, bool)) {
		return rostrconv.ParseBool[string](), keepE(strconv.ParseBool)
	}, func([]string) func(bool) string { return mBool })
	regStr("strconv.ParseUint", func(ps []string) (func(ro.Observable[string]) ro.Observable[uint64], func(string) (uint64, error, bool)) {
		base, bits := pInt(ps, 0), pInt(ps, 1)
		return rostrconv.ParseUint[string](base, bits), keepE(func(s string) (uint64, error) { return strconv.ParseUint(s, base, bits) })
	}, noModel[uint64]())
	regStr("strconv.ParseUint64", func(ps []string) (func(ro.Observable[string]) ro.Observable[uint64], func(string) (uint64, error, bool)) {
		base, bits := pInt(ps, 0), pInt(ps, 1)
		return rostrconv.ParseUint64[string](base, bits), keepE(func(s string) (uint64, error) { return strconv.ParseUint(s, base, bits) })
	}, noModel[uint64]())
	regParsed("strconv.FormatBool", parseBoolItem, func(ps []string) (func(ro.Observable[bool]) ro.Observable[string], func(bool) (string, error, bool)) {
		return rostrconv.FormatBool(), keep1(strconv.FormatBool)
	}, func([]string) func(string) string { return mString })
	regParsed("strconv.FormatFloat", parseFloatItem, func(ps []string) (func(ro.Observable[float64]) ro.Observable[string], func(float64) (string, error, bool)) {
		f, prec, bits := byte(pInt(ps, 0)), pInt(ps, 1), pInt(ps, 2)
		return rostrconv.FormatFloat(f, prec, bits), keep1(func(v float64) string { return strconv.FormatFloat(v, f, prec, bits) })
	}, noModel[string]())
	regParsed("strconv.FormatComplex", parseComplexItem, func(ps []string) (func(ro.Observable[complex128]) ro.Observable[string], func(complex128) (string, error, bool)) {
		f, prec, bits := byte(pInt(ps, 0)), pInt(ps, 1), pInt(ps, 2)
		return rostrconv.FormatComplex(f, prec, bits), keep1(func(v complex128) string { return strconv.FormatComplex(v, f, prec, bits) })
	}, noModel[string]())
	regParsed("strconv.FormatInt", parseInt64Item, func(ps []string) (func(ro.Observable[int64]) ro.Observable[string], func(int64) (string, error, bool)) {
		base := pInt(ps, 0)
		return rostrconv.FormatInt[string](base), keep1(func(v int64) string { return strconv.FormatInt(v, base) })
	}, func([]string) func(string) string { return mString })
	regParsed("strconv.FormatUint", parseUint64Item, func(ps []string) (func(ro.Observable[uint64]) ro.Observable[string], func(uint64) (string, error, bool)) {
		base := pInt(ps, 0)
		return rostrconv.FormatUint[string](base), keep1(func(v uint64) string { return strconv.FormatUint(v, base) })
	}, noModel[string]())
	regParsed("strconv.Itoa", parseIntItem, func(ps []string) (func(ro.Observable[int]) ro.Observable[string], func(int) (string, error, bool)) {
		return rostrconv.Itoa(), keep1(strconv.Itoa)
	}, func([]string) func(string) string { return mString })
	regStr("strconv.Quote", func(ps []string) (func(ro.Observable[string]) ro.Observable[string], func(string) (string, error, bool)) {
		return rostrconv.Quote(), keep1(strconv.Quote)
	}, noModel[string]())
	regParsed("strconv.QuoteRune", parseRuneItem, func(ps []string) (func(ro.Observable[rune]) ro.Observable[string], func(rune) (string, error, bool)) {
		return rostrconv.QuoteRune(), keep1(strconv.QuoteRune)
	}, noModel[string]())
	regStr("strconv.Unquote", func(ps []string) (func(ro.Observable[string]) ro.Observable[string], func(string) (string, error, bool)) {
		return rostrconv.Unquote(), keepE(strconv.Unquote)
	}, noModel[string]())

	// ---------------- regexp (plugins/regexp/operator.go); p = <hex pattern>[,n | ,hex repl] ----------------
	regBytes("regexp.Find", func(ps []string) (func(ro.Observable[[]byte]) ro.Observable[[]byte], func([]byte) ([]byte, error, bool)) {
		re := pattern(pHex(ps, 0))
		return roregexp.Find[[]byte](re), keep1(re.Find)
	}, noModel[[]byte]())
	regStr("regexp.FindString", func(ps []string) (func(ro.Observable[string]) ro.Observable[string], func(string) (string, error, bool)) {
		re := pattern(pHex(ps, 0))
		return roregexp.FindString[string](re), keep1(re.FindString)
	}, noModel[string]())
	regBytes("regexp.FindSubmatch", func(ps []string) (func(ro.Observable[[]byte]) ro.Observable[[][]byte], func([]byte) ([][]byte, error, bool)) {
		re := pattern(pHex(ps, 0))
		return roregexp.FindSubmatch[[]byte](re), keep1(re.FindSubmatch)
	}, noModel[[][]byte]())
	regStr("regexp.FindStringSubmatch", func(ps []string) (func(ro.Observable[string]) ro.Observable[[]string], func(string) ([]string, error, bool)) {
		re := pattern(pHex(ps, 0))
		return roregexp.FindStringSubmatch[string](re), keep1(re.FindStringSubmatch)
	}, noModel[[]string]())
	regBytes("regexp.FindAll", func(ps []string) (func(ro.Observable[[]byte]) ro.Observable[[][]byte], func([]byte) ([][]byte, error, bool)) {
		re, n := pattern(pHex(ps, 0)), pInt(ps, 1)
		return roregexp.FindAll[[]byte](re, n), keep1(func(b []byte) [][]byte { return re.FindAll(b, n) })
	}, noModel[[][]byte]())
	regStr("regexp.FindAllString", func(ps []string) (func(ro.Observable[string]) ro.Observable[[]string], func(string) ([]string, error, bool)) {
		re, n := pattern(pHex(ps, 0)), pInt(ps, 1)
		return roregexp.FindAllString[string](re, n), keep1(func(s string) []string { return re.FindAllString(s, n) })
	}, noModel[[]string]())
	regBytes("regexp.FindAllSubmatch", func(ps []string) (func(ro.Observable[[]byte]) ro.Observable[[][][]byte], func([]byte) ([][][]byte, error, bool)) {
		re, n := pattern(pHex(ps, 0)), pInt(ps, 1)
		return roregexp.FindAllSubmatch[[]byte](re, n), keep1(func(b []byte) [][][]byte { return re.FindAllSubmatch(b, n) })
	}, noModel[[][][]byte]())
	regStr("regexp.FindAllStringSubmatch", func(ps []string) (func(ro.Observable[string]) ro.Observable[[][]string], func(string) ([][]string, error, bool)) {
		re, n := pattern(pHex(ps, 0)), pInt(ps, 1)
		return roregexp.FindAllStringSubmatch[string](re, n), keep1(func(s string) [][]string { return re.FindAllStringSubmatch(s, n) })
	}, noModel[[][]string]())
	regBytes("regexp.Match", func(ps []string) (func(ro.Observable[[]byte]) ro.Observable[bool], func([]byte) (bool, error, bool)) {
		re := pattern(pHex(ps, 0))
		return roregexp.Match[[]byte](re), keep1(re.Match)
	}, noModel[bool]())
	regStr("regexp.MatchString", func(ps []string) (func(ro.Observable[string]) ro.Observable[bool], func(string) (bool, error, bool)) {
		re := pattern(pHex(ps, 0))
		return roregexp.MatchString[string](re), keep1(re.MatchString)
	}, noModel[bool]())
	regBytes("regexp.ReplaceAll", func(ps []string) (func(ro.Observable[[]byte]) ro.Observable[[]byte], func([]byte) ([]byte, error, bool)) {
		re, repl := pattern(pHex(ps, 0)), pHex(ps, 1)
		return roregexp.ReplaceAll[[]byte](re, []byte(repl)), keep1(func(b []byte) []byte { return re.ReplaceAll(b, []byte(repl)) })
	}, noModel[[]byte]())
	regStr("regexp.ReplaceAllString", func(ps []string) (func(ro.Observable[string]) ro.Observable[string], func(string) (string, error, bool)) {
		re, repl := pattern(pHex(ps, 0)), pHex(ps, 1)
		return roregexp.ReplaceAllString[string](re, repl), keep1(func(s string) string { return re.ReplaceAllString(s, repl) })
	}, noModel[string]())
	regBytes("regexp.FilterMatch", func(ps []string) (func(ro.Observable[[]byte]) ro.Observable[[]byte], func([]byte) ([]byte, error, bool)) {
		re := pattern(pHex(ps, 0))
		return roregexp.FilterMatch[[]byte](re), filt(re.Match)
	}, noModel[[]byte]())
	regStr("regexp.FilterMatchString", func(ps []string) (func(ro.Observable[string]) ro.Observable[string], func(string) (string, error, bool)) {
		re := pattern(pHex(ps, 0))
		return roregexp.FilterMatchString[string](re), filt(re.MatchString)
	}, noModel[string]())

	// ---------------- time (plugins/time/*.go) ----------------
	regParsed("time.Add", parseTimeItem, func(ps []string) (func(ro.Observable[time.Time]) ro.Observable[time.Time], func(time.Time) (time.Time, error, bool)) {
		d, _ := strconv.ParseInt(ps[0], 10, 64)
		return rotime.Add(time.Duration(d)), keep1(func(t time.Time) time.Time { return t.Add(time.Duration(d)) })
	}, noModel[time.Time]())
	regParsed("time.AddDate", parseTimeItem, func(ps []string) (func(ro.Observable[time.Time]) ro.Observable[time.Time], func(time.Time) (time.Time, error, bool)) {
		y, m, d := pInt(ps, 0), pInt(ps, 1), pInt(ps, 2)
		return rotime.AddDate(y, m, d), keep1(func(t time.Time) time.Time { return t.AddDate(y, m, d) })
	}, noModel[time.Time]())
	regParsed("time.Format", parseTimeItem, func(ps []string) (func(ro.Observable[time.Time]) ro.Observable[string], func(time.Time) (string, error, bool)) {
		l := pluginLayouts[ps[0]]
		return rotime.Format(l), keep1(func(t time.Time) string { return t.Format(l) })
	}, noModel[string]())
	regParsed("time.In", parseTimeItem, func(ps []string) (func(ro.Observable[time.Time]) ro.Observable[time.Time], func(time.Time) (time.Time, error, bool)) {
		loc := pluginLoc(ps[0])
		return rotime.In(loc), keep1(func(t time.Time) time.Time { return t.In(loc) })
	}, noModel[time.Time]())
	regStr("time.Parse", func(ps []string) (func(ro.Observable[string]) ro.Observable[time.Time], func(string) (time.Time, error, bool)) {
		l := pluginLayouts[ps[0]]
		return rotime.Parse[string](l), keepE(func(s string) (time.Time, error) { return time.Parse(l, s) })
	}, noModel[time.Time]())
	regStr("time.ParseInLocation", func(ps []string) (func(ro.Observable[string]) ro.Observable[time.Time], func(string) (time.Time, error, bool)) {
		l, loc := pluginLayouts[ps[0]], pluginLoc(ps[1])
		return rotime.ParseInLocation[string](l, loc), keepE(func(s string) (time.Time, error) { return time.ParseInLocation(l, s, loc) })
	}, noModel[time.Time]())
	regParsed("time.StartOfDay", parseTimeItem, func(ps []string) (func(ro.Observable[time.Time]) ro.Observable[time.Time], func(time.Time) (time.Time, error, bool)) {
		return rotime.StartOfDay(), keep1(func(t time.Time) time.Time {
			y, m, d := t.Date()
			return time.Date(y, m, d, 0, 0, 0, 0, t.Location())
		})
	}, noModel[time.Time]())

	// ---------------- template (plugins/template/operator.go); p = <hex template> ----------------
	regParsed("template.TextTemplate", parseDocItem, func(ps []string) (func(ro.Observable[pDoc]) ro.Observable[string], func(pDoc) (string, error, bool)) {
		src := pHex(ps, 0)
		tpl := texttemplate.Must(texttemplate.New(src).Parse(src))
		return rotemplate.TextTemplate[pDoc](src), keepE(func(d pDoc) (string, error) {
			var buf bytes.Buffer
			err := tpl.Execute(&buf, d)
			return buf.String(), err
		})
	}, noModel[string]())
	regParsed("template.HTMLTemplate", parseDocItem, func(ps []string) (func(ro.Observable[pDoc]) ro.Observable[string], func(pDoc) (string, error, bool)) {
		src := pHex(ps, 0)
		tpl := htmltemplate.Must(htmltemplate.New(src).Parse(src))
		return rotemplate.HTMLTemplate[pDoc](src), keepE(func(d pDoc) (string, error) {
			var buf bytes.Buffer
			err := tpl.Execute(&buf, d)
			return buf.String(), err
		})
	}, noModel[string]())

	// ---------------- encoding/base64; p = std|url|rawstd|rawurl ----------------
	regBytes("base64.Encode", func(ps []string) (func(ro.Observable[[]byte]) ro.Observable[string], func([]byte) (string, error, bool)) {
		enc := b64enc(ps[0])
		return robase64.Encode[[]byte](enc), keep1(enc.EncodeToString)
	}, func([]string) func(string) string { return mString })
	regStr("base64.Decode", func(ps []string) (func(ro.Observable[string]) ro.Observable[[]byte], func(string) ([]byte, error, bool)) {
		enc := b64enc(ps[0])
		return robase64.Decode[string](enc), keepE(enc.DecodeString)
	}, func([]string) func([]byte) string { return mBytes })

	// ---------------- encoding/json ----------------
	regParsed("json.Marshal", parseDocItem, func(ps []string) (func(ro.Observable[pDoc]) ro.Observable[[]byte], func(pDoc) ([]byte, error, bool)) {
		return rojson.Marshal[pDoc](), keepE(func(d pDoc) ([]byte, error) { return json.Marshal(d) })
	}, noModel[[]byte]())
	regBytes("json.Unmarshal", func(ps []string) (func(ro.Observable[[]byte]) ro.Observable[pDoc], func([]byte) (pDoc, error, bool)) {
		return rojson.Unmarshal[pDoc](), keepE(func(b []byte) (pDoc, error) {
			var d pDoc
			err := json.Unmarshal(b, &d)
			return d, err
		})
	}, noModel[pDoc]())
	regBytes("json.UnmarshalAny", func(ps []string) (func(ro.Observable[[]byte]) ro.Observable[any], func([]byte) (any, error, bool)) {
		return rojson.Unmarshal[any](), keepE(func(b []byte) (any, error) {
			var d any
			err := json.Unmarshal(b, &d)
			return d, err
		})
	}, noModel[any]())

	// ---------------- encoding/gob ----------------
	regParsed("gob.Encode", parseDocItem, func(ps []string) (func(ro.Observable[pDoc]) ro.Observable[[]byte], func(pDoc) ([]byte, error, bool)) {
		return rogob.Encode[pDoc](), keepE(func(d pDoc) ([]byte, error) {
			var w bytes.Buffer
			err := gob.NewEncoder(&w).Encode(d)
			return w.Bytes(), err
		})
	}, noModel[[]byte]())
	regBytes("gob.Decode", func(ps []string) (func(ro.Observable[[]byte]) ro.Observable[pDoc], func([]byte) (pDoc, error, bool)) {
		return rogob.Decode[pDoc](), keepE(func(b []byte) (pDoc, error) {
			var d pDoc
			err := gob.NewDecoder(bytes.NewBuffer(b)).Decode(&d)
			return d, err
		})
	}, noModel[pDoc]())

	// round trips through the operators themselves: decode(encode(x)) = x
	pluginOps["json.RoundTrip"] = func(c *Case) pRes {
		return roundTrip(c, ro.Pipe2(ro.Just[pDoc](), rojson.Marshal[pDoc](), rojson.Unmarshal[pDoc]()), func(src ro.Observable[pDoc]) ro.Observable[pDoc] {
			return ro.Pipe2(src, rojson.Marshal[pDoc](), rojson.Unmarshal[pDoc]())
		}, jsonNormal)
	}
	pluginOps["gob.RoundTrip"] = func(c *Case) pRes {
		return roundTrip(c, nil, func(src ro.Observable[pDoc]) ro.Observable[pDoc] {
			return ro.Pipe2(src, rogob.Encode[pDoc](), rogob.Decode[pDoc]())
		}, gobNormal)
	}
	pluginOps["base64.RoundTrip"] = func(c *Case) pRes {
		enc := b64enc(params(c)[0])
		items, ref, bk := backedItems(c)
		return runLift(c, liftSpec[[]byte, []byte]{items: items, ref: ref, snap: snapBacked(bk),
			op: func(src ro.Observable[[]byte]) ro.Observable[[]byte] {
				return ro.Pipe2(src, robase64.Encode[[]byte](enc), robase64.Decode[string](enc))
			},
			direct: func(b []byte) ([]byte, error, bool) {
				if b == nil {
					return []byte{}, nil, true
				}
				return cloneBytes(b), nil, true // the identity, as a non-nil slice
			},
			model: mBytes})
	}
	pluginOps["strconv.RoundTrip"] = func(c *Case) pRes { // Atoi ∘ Itoa
		strs := stringItems(c)
		items := make([]int, len(strs))
		for i, s := range strs {
			items[i] = parseIntItem(s)
		}
		return runLift(c, liftSpec[int, int]{items: items, ref: append([]int(nil), items...),
			op: func(src ro.Observable[int]) ro.Observable[int] {
				return ro.Pipe2(src, rostrconv.Itoa(), rostrconv.Atoi[string]())
			},
			direct: func(v int) (int, error, bool) { return v, nil, true }, model: mInt})
	}

	registerTextOps()
	registerOwnOps()
}

// JSON maps nil []byte / nil slices to null and back to nil; NaN is rejected (tested separately)
func jsonNormal(d pDoc) pDoc {
	// encoding/json writes U+FFFD for every byte that is not valid UTF-8 (documented coercion)
	var sb strings.Builder
	for i := 0; i < len(d.S); {
		r, size := utf8.DecodeRuneInString(d.S[i:])
		if r == utf8.RuneError && size == 1 {
			sb.WriteString("\uFFFD")
		} else {
			sb.WriteString(d.S[i : i+size])
		}
		i += size
	}
	d.S = sb.String()
	return d
}
func gobNormal(d pDoc) pDoc {
	// gob does not transmit empty slices / zero fields: they come back as nil / zero
	if len(d.B) == 0 {
		d.B = nil
	}
	if len(d.L) == 0 {
		d.L = nil
	}
	if len(d.M) == 0 {
		d.M = nil
	}
	if d.P != nil && *d.P == 0 {
		// a pointer to a zero value is not transmitted
		d.P = nil
	}
	return d
}

func roundTrip(c *Case, _ any, op func(ro.Observable[pDoc]) ro.Observable[pDoc], normal func(pDoc) pDoc) pRes {
	strs := stringItems(c)
	items := make([]pDoc, len(strs))
	ref := make([]pDoc, len(strs))
	for i, s := range strs {
		items[i] = parseDocItem(s)
		ref[i] = parseDocItem(s)
	}
	return runLift(c, liftSpec[pDoc, pDoc]{items: items, ref: ref, op: op,
		direct: func(d pDoc) (pDoc, error, bool) { return normal(d), nil, true }})
}

// ---------------------------------------------------------------- text helpers (strings / bytes)

type textOp struct {
	name string
	str  func(ps []string) func(ro.Observable[string]) ro.Observable[string]
	byt  func(ps []string) func(ro.Observable[[]byte]) ro.Observable[[]byte]
}

func collectStr(op func(ro.Observable[string]) ro.Observable[string], items []string) (out []string, err error) {
	vals, e := ro.Collect(op(ro.FromSlice(items)))
	return vals, e
}

func registerTextOps() {
	ops := []textOp{
		{"CamelCase", func([]string) func(ro.Observable[string]) ro.Observable[string] { return rostrings.CamelCase[string]() },
			func([]string) func(ro.Observable[[]byte]) ro.Observable[[]byte] { return robytes.CamelCase[[]byte]() }},
		{"Capitalize", func([]string) func(ro.Observable[string]) ro.Observable[string] {
			return rostrings.Capitalize[string]()
		},
			func([]string) func(ro.Observable[[]byte]) ro.Observable[[]byte] { return robytes.Capitalize[[]byte]() }},
		{"Ellipsis", func(ps []string) func(ro.Observable[string]) ro.Observable[string] {
			return rostrings.Ellipsis[string](pInt(ps, 0))
		},
			func(ps []string) func(ro.Observable[[]byte]) ro.Observable[[]byte] {
				return robytes.Ellipsis[[]byte](pInt(ps, 0))
			}},
		{"KebabCase", func([]string) func(ro.Observable[string]) ro.Observable[string] { return rostrings.KebabCase[string]() },
			func([]string) func(ro.Observable[[]byte]) ro.Observable[[]byte] { return robytes.KebabCase[[]byte]() }},
		{"PascalCase", func([]string) func(ro.Observable[string]) ro.Observable[string] {
			return rostrings.PascalCase[string]()
		},
			func([]string) func(ro.Observable[[]byte]) ro.Observable[[]byte] { return robytes.PascalCase[[]byte]() }},
		{"SnakeCase", func([]string) func(ro.Observable[string]) ro.Observable[string] { return rostrings.SnakeCase[string]() },
			func([]string) func(ro.Observable[[]byte]) ro.Observable[[]byte] { return robytes.SnakeCase[[]byte]() }},
	}
	for _, t := range ops {
		t := t
		modelled := t.name == "Ellipsis"
		// The wrapped helper is unexported: the reference is the operator applied to each item
		// alone (a lift must not depend on the neighbours), and the sibling flavour on the same text.
		pluginOps["strings."+t.name] = func(c *Case) pRes {
			ps := params(c)
			items := stringItems(c)
			single := func(s string) (string, error, bool) {
				vals, err := ro.Collect(t.str(ps)(ro.Just(s)))
				if err != nil || len(vals) != 1 {
					return "", errors.New("singleton stream failed"), true
				}
				return vals[0], nil, true
			}
			var m func(string) string
			if modelled {
				m = mString
			}
			r := runLift(c, liftSpec[string, string]{items: items, ref: append([]string(nil), items...), op: t.str(ps), direct: single, model: m})
			r.flav = flavourAgree(t, ps, mustItems(c))
			return r
		}
		pluginOps["bytes."+t.name] = func(c *Case) pRes {
			ps := params(c)
			items, ref, bk := backedItems(c)
			single := func(b []byte) ([]byte, error, bool) {
				vals, err := ro.Collect(t.byt(ps)(ro.Just(b)))
				if err != nil || len(vals) != 1 {
					return nil, errors.New("singleton stream failed"), true
				}
				return vals[0], nil, true
			}
			var m func([]byte) string
			if modelled {
				m = mBytes
			}
			r := runLift(c, liftSpec[[]byte, []byte]{items: items, ref: ref, snap: snapBacked(bk), op: t.byt(ps), direct: single, model: m})
			r.flav = flavourAgree(t, ps, mustItems(c))
			return r
		}
	}
	// Words: []T output
	pluginOps["strings.Words"] = func(c *Case) pRes {
		items := stringItems(c)
		single := func(s string) ([]string, error, bool) {
			vals, err := ro.Collect(rostrings.Words[string]()(ro.Just(s)))
			if err != nil || len(vals) != 1 {
				return nil, errors.New("singleton stream failed"), true
			}
			return vals[0], nil, true
		}
		r := runLift(c, liftSpec[string, []string]{items: items, ref: append([]string(nil), items...), op: rostrings.Words[string](), direct: single})
		r.flav = wordsAgree(mustItems(c))
		return r
	}
	pluginOps["bytes.Words"] = func(c *Case) pRes {
		items, ref, bk := backedItems(c)
		single := func(b []byte) ([][]byte, error, bool) {
			vals, err := ro.Collect(robytes.Words[[]byte]()(ro.Just(b)))
			if err != nil || len(vals) != 1 {
				return nil, errors.New("singleton stream failed"), true
			}
			return vals[0], nil, true
		}
		r := runLift(c, liftSpec[[]byte, [][]byte]{items: items, ref: ref, snap: snapBacked(bk), op: robytes.Words[[]byte](), direct: single})
		r.flav = wordsAgree(mustItems(c))
		return r
	}
	// Random: the value is random by design; oracle = size and charset
	pluginOps["strings.Random"] = func(c *Case) pRes {
		ps := params(c)
		size, charset := pInt(ps, 0), []rune(pHex(ps, 1))
		items := stringItems(c)
		subs, tears := 0, 0
		rec := pObserve(rostrings.Random[string](size, charset)(pSource(items, c.get("end", "C"), &subs, &tears)), nil)
		return randomRes(rec, len(items), size, charset, subs, tears, func(v any) []rune { return []rune(v.(string)) })
	}
	pluginOps["bytes.Random"] = func(c *Case) pRes {
		ps := params(c)
		size, charset := pInt(ps, 0), []rune(pHex(ps, 1))
		items := stringItems(c)
		subs, tears := 0, 0
		rec := pObserve(robytes.Random[string](size, charset)(pSource(items, c.get("end", "C"), &subs, &tears)), nil)
		return randomRes(rec, len(items), size, charset, subs, tears, func(v any) []rune { return []rune(string(v.([]byte))) })
	}
}

func randomRes(rec []pNotif, n, size int, charset []rune, subs, tears int, runes func(any) []rune) pRes {
	ok := "1"
	values := 0
	for _, r := range rec {
		if r.kind != 'N' {
			continue
		}
		values++
		rs := runes(r.val)
		if len(rs) != size {
			ok = "0:size"
		}
		for _, x := range rs {
			found := false
			for _, y := range charset {
				if x == y {
					found = true
				}
			}
			if !found {
				ok = "0:charset"
			}
		}
	}
	if values != n {
		ok = "0:count"
	}
	parts := make([]string, len(rec))
	for i, r := range rec {
		switch r.kind {
		case 'N':
			parts[i] = "NR" + strconv.Itoa(len(runes(r.val))) + "/" + r.ctx
		case 'E':
			parts[i] = "E" + modelErr(r.err) + "/" + r.ctx
		default:
			parts[i] = "C/" + r.ctx
		}
	}
	return pRes{out: "~" + joinOrDash(parts), same: ok, late: lateChanged(rec), flav: "-", rel: subs == 1 && tears == 1, gram: recGrammar(rec)}
}

func flavourAgree(t textOp, ps []string, texts [][]byte) string {
	strs := make([]string, len(texts))
	bys := make([][]byte, len(texts))
	for i, b := range texts {
		strs[i] = string(b)
		bys[i] = cloneBytes(b)
	}
	sv, e1 := ro.Collect(t.str(ps)(ro.FromSlice(strs)))
	bv, e2 := ro.Collect(t.byt(ps)(ro.FromSlice(bys)))
	if e1 != nil || e2 != nil || len(sv) != len(bv) {
		return "0"
	}
	for i := range sv {
		if sv[i] != string(bv[i]) {
			return "0"
		}
	}
	return "1"
}

func wordsAgree(texts [][]byte) string {
	strs := make([]string, len(texts))
	bys := make([][]byte, len(texts))
	for i, b := range texts {
		strs[i] = string(b)
		bys[i] = cloneBytes(b)
	}
	sv, e1 := ro.Collect(rostrings.Words[string]()(ro.FromSlice(strs)))
	bv, e2 := ro.Collect(robytes.Words[[]byte]()(ro.FromSlice(bys)))
	if e1 != nil || e2 != nil || len(sv) != len(bv) {
		return "0"
	}
	for i := range sv {
		if len(sv[i]) != len(bv[i]) {
			return "0"
		}
		for j := range sv[i] {
			if sv[i][j] != string(bv[i][j]) {
				return "0"
			}
		}
	}
	return "1"
}

// ---------------------------------------------------------------- operators with their own closure

// sort: items are non-negative ints `key*100+tag`; p = bykey | nat | desc
func sortCmp(name string) func(a, b int) int {
	switch name {
	case "nat":
		return func(a, b int) int { return a - b }
	case "desc":
		return func(a, b int) int { return b/100 - a/100 }
	}
	return func(a, b int) int { return a/100 - b/100 }
}

func intsOfItems(c *Case) []int {
	strs := stringItems(c)
	out := make([]int, len(strs))
	for i, s := range strs {
		out[i] = parseIntItem(s)
	}
	return out
}

func runSort(c *Case, op func(func(a, b int) int) func(ro.Observable[int]) ro.Observable[int]) pRes {
	ps := params(c)
	cmp := sortCmp(ps[0])
	items := intsOfItems(c)
	orig := append([]int(nil), items...)
	end := c.get("end", "C")
	subs, tears := 0, 0
	rec := pObserve(op(cmp)(pSource(items, end, &subs, &tears)), mInt)
	// references computed with package sort directly
	stable := append([]int(nil), orig...)
	sort.SliceStable(stable, func(i, j int) bool { return cmp(stable[i], stable[j]) < 0 })
	var got []int
	for _, r := range rec {
		if r.kind == 'N' {
			got = append(got, r.val.(int))
		}
	}
	sorted, perm, isStable := "1", "1", "1"
	same := "1"
	if end == "C" {
		for i := 1; i < len(got); i++ {
			if cmp(got[i-1], got[i]) > 0 {
				sorted = "0"
			}
		}
		a, b := append([]int(nil), got...), append([]int(nil), orig...)
		sort.Ints(a)
		sort.Ints(b)
		if len(a) != len(b) {
			perm = "0"
		} else {
			for i := range a {
				if a[i] != b[i] {
					perm = "0"
				}
			}
		}
		if len(got) != len(stable) {
			isStable = "0"
		} else {
			for i := range got {
				if got[i] != stable[i] {
					isStable = "0"
				}
			}
		}
		// terminal: Complete with the context of the source's completion; all values carry it too
		if len(rec) != len(orig)+1 || rec[len(rec)-1].kind != 'C' {
			same = "0:shape"
		}
		for _, r := range rec {
			if r.ctx != endCtx() {
				same = "0:ctx"
			}
		}
	} else {
		if len(rec) != 1 || rec[0].kind != 'E' || !errSame(rec[0].err, endExp(end)[0].err) || rec[0].ctx != endCtx() {
			same = "0:error"
		}
	}
	keys := make([]string, len(got))
	for i, v := range got {
		keys[i] = strconv.Itoa(v / 100)
	}
	bag := append([]int(nil), got...)
	sort.Ints(bag)
	bags := make([]string, len(bag))
	for i, v := range bag {
		bags[i] = strconv.Itoa(v)
	}
	mut := false
	for i := range items {
		if items[i] != orig[i] {
			mut = true
		}
	}
	return pRes{out: renderRec(rec, true), same: same, mut: mut, late: lateChanged(rec), flav: "-", rel: subs == 1 && tears == 1, gram: recGrammar(rec),
		extra: []string{"keys=" + clip(joinOrDash(keys)), "bag=" + clip(joinOrDash(bags)), "sorted=" + sorted, "perm=" + perm, "stable=" + isStable, "n=" + strconv.Itoa(len(orig))}}
}

// scripted io.Reader: chunk sizes, then the final behaviour
type scriptReader struct {
	data   []byte
	plan   []int
	fin    string // eof | dataeof | err<n> | dataerr<n>
	i      int
	closed int
}

func (r *scriptReader) finErr() error {
	f := strings.TrimPrefix(r.fin, "data")
	if f == "eof" {
		return io.EOF
	}
	n, _ := strconv.Atoi(strings.TrimPrefix(f, "err"))
	return userErr{n}
}

func (r *scriptReader) Read(p []byte) (int, error) {
	if r.i >= len(r.plan) {
		return 0, r.finErr()
	}
	n := r.plan[r.i]
	if n > len(p) {
		n = len(p)
	}
	if n > len(r.data) {
		n = len(r.data)
	}
	copy(p, r.data[:n])
	r.data = r.data[n:]
	r.i++
	if r.i == len(r.plan) && strings.HasPrefix(r.fin, "data") {
		return n, r.finErr()
	}
	return n, nil
}

func (r *scriptReader) Close() error { r.closed++; return nil }

func planOf(c *Case, total int) []int {
	p := c.get("p", "-")
	if p == "std" || p == "-" || p == "" {
		// what bytes.Reader does with a 1024-byte buffer
		var plan []int
		for total > 0 {
			n := total
			if n > rostdio.IOReaderBufferSize {
				n = rostdio.IOReaderBufferSize
			}
			plan = append(plan, n)
			total -= n
		}
		return plan
	}
	var plan []int
	for _, t := range strings.Split(p, ".") {
		v, _ := strconv.Atoi(t)
		plan = append(plan, v)
	}
	return plan
}

func registerOwnOps() {
	pluginOps["sort.Sort"] = func(c *Case) pRes { return runSort(c, rosort.Sort[int]) }
	pluginOps["sort.SortFunc"] = func(c *Case) pRes { return runSort(c, rosort.SortFunc[int]) }
	pluginOps["sort.SortStableFunc"] = func(c *Case) pRes { return runSort(c, rosort.SortStableFunc[int]) }

	// stdio.NewIOReader: in = the whole input (one item), p = std | chunk sizes a.b.c, fin = eof|dataeof|err<n>|dataerr<n>
	pluginOps["stdio.NewIOReader"] = func(c *Case) pRes {
		items := mustItems(c)
		var data []byte
		if len(items) > 0 {
			data = items[0]
		}
		fin := c.get("fin", "eof")
		var rd io.Reader
		sr := &scriptReader{data: cloneBytes(data), plan: planOf(c, len(data)), fin: fin}
		rd = sr
		if c.get("p", "-") == "std" && fin == "eof" {
			rd = bytes.NewReader(cloneBytes(data)) // a real reader: must behave like the script derived from it
		}
		rec := pObserve(rostdio.NewIOReader(rd), mBytes)
		// reference: the reader protocol applied directly to an identical reader
		ref := &scriptReader{data: cloneBytes(data), plan: planOf(c, len(data)), fin: fin}
		var exp []pExp
		var all []byte
		buf := make([]byte, rostdio.IOReaderBufferSize)
		for {
			n, err := ref.Read(buf)
			if n > 0 { // io.Reader: process the n > 0 bytes before considering the error
				exp = append(exp, pExp{kind: 'N', canon: canonAny(cloneBytes(buf[:n])), ctx: strconv.Itoa(pSubMark)})
				all = append(all, buf[:n]...)
			}
			if err == io.EOF {
				exp = append(exp, pExp{kind: 'C', ctx: strconv.Itoa(pSubMark)})
				break
			}
			if err != nil {
				exp = append(exp, pExp{kind: 'E', err: err, ctx: strconv.Itoa(pSubMark)})
				break
			}
			if n == 0 && len(exp) > 100000 {
				break
			}
		}
		var got []byte
		var lateParts []string
		for _, r := range rec {
			if r.kind == 'N' {
				b, _ := hex.DecodeString(strings.TrimPrefix(r.canon, "x"))
				got = append(got, b...)
				lateParts = append(lateParts, "N"+mBytes(r.val.([]byte))+"/"+r.ctx)
			}
		}
		concat := b01(bytes.Equal(got, all))
		// zero-length reads deliver an empty chunk in the operator and nothing in the reference: compare modulo empty chunks
		same := compareExp(dropEmpty(rec), exp)
		closed := "-"
		if rd == io.Reader(sr) {
			closed = strconv.Itoa(sr.closed)
		}
		return pRes{out: renderRec(rec, true), same: same, late: lateChanged(rec), flav: "-", rel: true, gram: recGrammar(rec),
			extra: []string{"retained=" + clip(joinOrDash(lateParts)), "concat=" + concat, "closed=" + closed}}
	}

	// stdio.NewIOReaderLine: in = the whole input
	pluginOps["stdio.NewIOReaderLine"] = func(c *Case) pRes {
		items := mustItems(c)
		var data []byte
		if len(items) > 0 {
			data = items[0]
		}
		rec := pObserve(rostdio.NewIOReaderLine(bytes.NewReader(cloneBytes(data))), nil)
		br := bufio.NewReader(bytes.NewReader(cloneBytes(data)))
		var exp []pExp
		for {
			line, _, err := br.ReadLine()
			if err != nil {
				if err == io.EOF {
					exp = append(exp, pExp{kind: 'C', ctx: strconv.Itoa(pSubMark)})
				} else {
					exp = append(exp, pExp{kind: 'E', err: err, ctx: strconv.Itoa(pSubMark)})
				}
				break
			}
			exp = append(exp, pExp{kind: 'N', canon: canonAny(cloneBytes(line)), ctx: strconv.Itoa(pSubMark)})
		}
		var got []byte
		for _, r := range rec {
			if r.kind == 'N' {
				got = append(got, r.val.([]byte)...)
			}
		}
		// concatenation of the chunks = the input without its line terminators
		want := bytes.ReplaceAll(bytes.ReplaceAll(data, []byte("\r\n"), nil), []byte("\n"), nil)
		return pRes{out: renderRec(rec, false), same: compareExp(rec, exp), late: lateChanged(rec), flav: "-", rel: true, gram: recGrammar(rec),
			extra: []string{"concat=" + b01(bytes.Equal(got, want))}}
	}

	// stdio.NewIOWriter: items are the chunks written; p = ok | fail<k> (the writer fails on its k-th Write, 1-based, after a short write)
	pluginOps["stdio.NewIOWriter"] = func(c *Case) pRes {
		items, ref, bk := backedItems(c)
		mode := c.get("p", "ok")
		end := c.get("end", "C")
		w := &scriptWriter{mode: mode}
		subs, tears := 0, 0
		rec := pObserve(rostdio.NewIOWriter(w)(pSource(items, end, &subs, &tears)), mInt)
		// reference: io.Writer used directly
		rw := &scriptWriter{mode: mode}
		count := 0
		var exp []pExp
		failed := false
		for i, b := range ref {
			n, err := rw.Write(b)
			if err != nil {
				exp = append(exp, pExp{kind: 'N', canon: canonAny(count), ctx: itemCtx(i)}, pExp{kind: 'E', err: err, ctx: itemCtx(i)})
				failed = true
				break
			}
			count += n
		}
		if !failed {
			exp = append(exp, pExp{kind: 'N', canon: canonAny(count), ctx: endCtx()})
			exp = append(exp, endExp(end)...)
		}
		// what reached the writer: exactly the reference when nothing failed; after a failed Write the
		// operator keeps consuming a synchronous source (kernel semantics: the downstream gate is closed,
		// the source is not interrupted), so the reference is then only a prefix
		written := b01(bytes.Equal(w.buf.Bytes(), rw.buf.Bytes()) || (failed && bytes.HasPrefix(w.buf.Bytes(), rw.buf.Bytes())))
		return pRes{out: renderRec(rec, false), same: compareExp(rec, exp), mut: inputsChanged(bk), late: lateChanged(rec), flav: "-",
			rel: subs == 1 && tears == 1, gram: recGrammar(rec), extra: []string{"written=" + written, "writes_after_failure=" + strconv.Itoa(w.calls-rw.calls)}}
	}

	// csv.NewCSVReader: in = the CSV text; p = comma byte (decimal) , lazyQuotes 0/1
	pluginOps["csv.NewCSVReader"] = func(c *Case) pRes {
		items := mustItems(c)
		var data []byte
		if len(items) > 0 {
			data = items[0]
		}
		ps := params(c)
		mk := func() *csv.Reader {
			r := csv.NewReader(bytes.NewReader(cloneBytes(data)))
			if len(ps) > 0 && pInt(ps, 0) != 0 {
				r.Comma = rune(pInt(ps, 0))
			}
			if len(ps) > 1 {
				r.LazyQuotes = pInt(ps, 1) == 1
			}
			if len(ps) > 2 {
				r.FieldsPerRecord = pInt(ps, 2)
			}
			return r
		}
		rec := pObserve(rocsv.NewCSVReader(mk()), nil)
		dr := mk()
		var exp []pExp
		for {
			row, err := dr.Read()
			if err != nil {
				if err == io.EOF {
					exp = append(exp, pExp{kind: 'C', ctx: strconv.Itoa(pSubMark)})
				} else {
					exp = append(exp, pExp{kind: 'E', err: err, ctx: strconv.Itoa(pSubMark)})
				}
				break
			}
			exp = append(exp, pExp{kind: 'N', canon: canonAny(row), ctx: strconv.Itoa(pSubMark)})
		}
		return pRes{out: renderRec(rec, false), same: compareExp(rec, exp), late: lateChanged(rec), flav: "-", rel: true, gram: recGrammar(rec)}
	}

	// csv.NewCSVWriter: every item is one row, fields separated by byte 0x1f; p = ok | fail<k> ; crlf 0/1
	pluginOps["csv.NewCSVWriter"] = func(c *Case) pRes {
		raw := mustItems(c)
		rows := make([][]string, len(raw))
		ref := make([][]string, len(raw))
		for i, b := range raw {
			rows[i] = strings.Split(string(b), "\x1f")
			ref[i] = strings.Split(string(b), "\x1f")
		}
		ps := params(c)
		mode := "ok"
		if len(ps) > 0 {
			mode = ps[0]
		}
		end := c.get("end", "C")
		sw := &scriptWriter{mode: mode}
		w := csv.NewWriter(sw)
		if len(ps) > 1 {
			w.UseCRLF = pInt(ps, 1) == 1
		}
		subs, tears := 0, 0
		before := canonAny(rows)
		rec := pObserve(rocsv.NewCSVWriter(w)(pSource(rows, end, &subs, &tears)), nil)
		rsw := &scriptWriter{mode: mode}
		rw := csv.NewWriter(rsw)
		rw.UseCRLF = w.UseCRLF
		count := 0
		var exp []pExp
		failed := false
		for i, row := range ref {
			if err := rw.Write(row); err != nil {
				rw.Flush()
				exp = append(exp, pExp{kind: 'N', canon: canonAny(count), ctx: itemCtx(i)}, pExp{kind: 'E', err: err, ctx: itemCtx(i)})
				failed = true
				break
			}
			count++
		}
		if !failed {
			rw.Flush()
			exp = append(exp, pExp{kind: 'N', canon: canonAny(count), ctx: endCtx()})
			exp = append(exp, endExp(end)...)
		}
		return pRes{out: renderRec(rec, false), same: compareExp(rec, exp), mut: canonAny(rows) != before, late: lateChanged(rec), flav: "-",
			rel: subs == 1 && tears == 1, gram: recGrammar(rec), extra: []string{"written=" + b01(bytes.Equal(sw.buf.Bytes(), rsw.buf.Bytes()))}}
	}
}

func dropEmpty(rec []pNotif) []pNotif {
	var out []pNotif
	for _, r := range rec {
		if r.kind == 'N' && r.canon == "x" {
			continue
		}
		out = append(out, r)
	}
	return out
}

func inputsChanged(bk []backed) bool {
	for _, b := range bk {
		for i, x := range b.arr {
			if i < 4 || i >= 4+len(b.s) {
				if x != 0xEE {
					return true
				}
			}
		}
	}
	return false
}

// scriptWriter: records what is written; mode fail<k>: the k-th Write writes half and fails
type scriptWriter struct {
	buf   bytes.Buffer
	mode  string
	calls int
}

func (w *scriptWriter) Write(p []byte) (int, error) {
	w.calls++
	if strings.HasPrefix(w.mode, "fail") {
		k, _ := strconv.Atoi(strings.TrimPrefix(w.mode, "fail"))
		if w.calls >= k {
			n := len(p) / 2
			w.buf.Write(p[:n])
			return n, userErr{5}
		}
	}
	return w.buf.Write(p)
}

package main

// kind=resub (property C15): re-subscribing operators over a scripted cold source whose n-th
// subscription plays the n-th attempt outcome (synchronously inside Subscribe, or from a goroutine),
// with a subscribe/teardown event log, subscribe/teardown counters and a live gauge.
//
//   case <id> kind=resub op=<Retry|RetryWithConfig|RepeatWith|While|DoWhile|Catch|OnErrorResumeNextWith|Concat>
//        p=<ints> var=plain|ictx cond=<t/f string>|- ct=<tag base> mode=sync|async|tdrace cut=-|<k>
//        cancel=-|pre|a<i>n<j>|a<i>t sub=<markers> srcs=<script>;<script>;…
//   res  <id> trace=… log=s1,t1,… attempts=<n> live=<max alive at once> evals=<condition evaluations>
//
// Mirrored by lean/RoModel/Resub.lean + lean/RoModel/Drivers/Resub.lean.

import (
	"context"
	"fmt"
	"math/rand"
	"runtime"
	"strconv"
	"strings"
	"sync"
	"sync/atomic"
	"time"

	"github.com/samber/ro"
)

func init() { registerKind("resub", genResub, "resub", runResubCase) }

// ---------- the scripted cold source ----------

type resubSource struct {
	mu       sync.Mutex
	outcomes [][]Tok
	async    bool
	tdslow   bool // the teardown of an attempt takes a moment (closing a resource): logged when it has FINISHED
	n        int  // subscriptions so far
	torn     int
	live     int
	maxLive  int
	log      []string
	wg       sync.WaitGroup
	// gated: an attempt's goroutine plays only when the harness opens its gate (used where the
	// operator does not block in Subscribe, so that the harness can step the attempts one by one)
	gated bool
	gates map[int]chan struct{}
	dones map[int]chan struct{}
	// tdrace: drive the schedule in which an attempt's subscriber is unsubscribed (its teardown is
	// running) at the moment the operator calls Wait — see playTdrace
	tdrace   bool
	release  chan struct{} // closes to let the pending teardown of the previous attempt finish
	finished chan struct{} // closed when that teardown has been logged
	// hook(att, j): before the j-th notification (0-based) of attempt att (1-based); j = -1: in the teardown
	hook func(att, j int)
}

func (s *resubSource) script(k int) []Tok {
	if k <= len(s.outcomes) {
		return s.outcomes[k-1]
	}
	return []Tok{{kind: 'C'}} // beyond the list every attempt completes at once
}

func (s *resubSource) Observable() ro.Observable[int] {
	return ro.NewUnsafeObservableWithContext(func(ctx context.Context, dest ro.Observer[int]) ro.Teardown {
		s.mu.Lock()
		s.n++
		k := s.n
		s.log = append(s.log, "s"+strconv.Itoa(k))
		s.live++
		if s.live > s.maxLive {
			s.maxLive = s.live
		}
		s.mu.Unlock()
		script := s.script(k)
		if s.tdrace {
			return s.playTdrace(ctx, dest, k, script)
		}
		play := func() {
			for j, t := range script {
				if s.hook != nil {
					s.hook(k, j)
				}
				emit(dest, ctx, t)
			}
		}
		if s.async {
			s.wg.Add(1)
			var gate, done chan struct{}
			if s.gated {
				gate, done = make(chan struct{}), make(chan struct{})
				s.mu.Lock()
				s.gates[k], s.dones[k] = gate, done
				s.mu.Unlock()
			}
			go func() {
				defer s.wg.Done()
				if gate != nil {
					<-gate
					defer close(done)
				}
				play()
			}()
		} else {
			play()
		}
		return func() {
			if s.hook != nil {
				s.hook(k, -1)
			}
			if s.tdslow {
				// an attempt is "over and released" when its teardown has returned: a loop that wakes up on the terminal
				// callback (or on the done flag) instead of on the end of the teardown subscribes the next attempt now
				time.Sleep(300 * time.Microsecond)
			}
			s.mu.Lock()
			s.log = append(s.log, "t"+strconv.Itoa(k))
			s.live--
			s.torn++
			s.mu.Unlock()
		}
	})
}

// playTdrace: the schedule "the attempt's goroutine delivers its terminal after the teardown has been
// registered and before the operator reaches Wait()". The window is a few instructions wide with an
// ordinary source, so it is driven explicitly: the teardown is registered on the attempt's own
// subscriber from inside the subscribe function, the attempt's goroutine plays the script, and the
// subscribe function returns only once that goroutine is inside the teardown (subscription.go:104-150:
// `done` is set, the finalizers are running). The teardown finishes (and is logged) when the harness
// lets it: at the next subscription, or after the operator's Subscribe has returned.
func (s *resubSource) playTdrace(ctx context.Context, dest ro.Observer[int], k int, script []Tok) ro.Teardown {
	s.finishPending()
	entered, release, finished := make(chan struct{}), make(chan struct{}), make(chan struct{})
	dest.(ro.Subscription).Add(func() {
		close(entered)
		select {
		case <-release:
		case <-time.After(2 * time.Second):
			// nobody went on while this teardown was running (Wait did wait): finish by ourselves
		}
		s.mu.Lock()
		s.log = append(s.log, "t"+strconv.Itoa(k))
		s.live--
		s.torn++
		s.mu.Unlock()
		close(finished)
	})
	s.wg.Add(1)
	go func() {
		defer s.wg.Done()
		for _, t := range script {
			emit(dest, ctx, t)
		}
	}()
	<-entered
	s.mu.Lock()
	s.release, s.finished = release, finished
	s.mu.Unlock()
	return nil
}

// finishPending lets the teardown that is still running (if any) complete and waits for its log entry
func (s *resubSource) finishPending() {
	s.mu.Lock()
	release, finished := s.release, s.finished
	s.release, s.finished = nil, nil
	s.mu.Unlock()
	if release != nil {
		close(release)
		<-finished
	}
}

// ---------- case execution ----------

// the error of a cancelled subscription context is printed as sentinel 100 (Lean: Resub.ctxCanceled)
func renderResubErr(err error) string {
	if err == context.Canceled {
		return "s100"
	}
	return renderErr(err)
}

func parseOutcomes(s string) ([][]Tok, bool) {
	if s == "-" || s == "" {
		return nil, true
	}
	var out [][]Tok
	for _, g := range strings.Split(s, ";") {
		toks, err := parseScript(g)
		if err != nil || len(toks) == 0 {
			return nil, false
		}
		for i, t := range toks {
			if (t.kind != 'N') != (i == len(toks)-1) {
				return nil, false // exactly one terminal, at the end
			}
		}
		out = append(out, toks)
	}
	return out, true
}

func runResubCase(c *Case) string {
	outcomes, ok := parseOutcomes(c.get("srcs", "-"))
	if !ok {
		return "res " + c.id + " bad-script"
	}
	op := c.get("op", "?")
	p := parseInts(c.get("p", "-"))
	variant := c.get("var", "plain")
	mode := c.get("mode", "sync")
	cut := 0
	if s := c.get("cut", "-"); s != "-" {
		cut, _ = strconv.Atoi(s)
		if cut <= 0 {
			return "res " + c.id + " unsupported"
		}
	}
	if op == "Catch" && mode != "sync" && cut > 0 {
		return "res " + c.id + " unsupported"
	}
	if mode == "tdrace" && (op == "Catch" || cut > 0 || c.get("cancel", "-") != "-") {
		return "res " + c.id + " unsupported"
	}
	cancelAt := c.get("cancel", "-")
	if cancelAt != "-" && op != "RetryWithConfig" && op != "Retry" {
		return "res " + c.id + " unsupported"
	}
	var conds []bool
	if s := c.get("cond", "-"); s != "-" {
		for _, ch := range s {
			conds = append(conds, ch == 't')
		}
	}
	ct, _ := strconv.Atoi(c.get("ct", "0"))

	src := &resubSource{outcomes: outcomes, async: mode == "async", gates: map[int]chan struct{}{}, dones: map[int]chan struct{}{}}
	src.tdslow = c.get("tdslow", "-") == "1"
	src.gated = src.async && op == "Catch"
	src.tdrace = mode == "tdrace"
	obs := src.Observable()

	// loop condition: the i-th evaluation (by the index the operator passes, or by call count for
	// the plain variant) returns conds[i], false beyond the list
	evals := 0
	runaway := false
	var evalMu sync.Mutex
	condAt := func(i int64) bool {
		evalMu.Lock()
		evals++
		if evals > 64 {
			runaway = true // a loop that does not end by itself: stop it and flag the case
		}
		stop := runaway
		evalMu.Unlock()
		return !stop && i >= 0 && int(i) < len(conds) && conds[i]
	}
	calls := int64(0)
	plainCond := func() bool {
		i := calls
		calls++
		return condAt(i)
	}
	ctxCond := func(ctx context.Context, i int64) (context.Context, bool) {
		if ct != 0 {
			ctx = withMark(ctx, ct+int(i))
		}
		return ctx, condAt(i)
	}

	var target ro.Observable[int]
	var opv func(ro.Observable[int]) ro.Observable[int] // the operator VALUE (decoy=1 applies it to a second upstream afterwards)
	switch op {
	case "Retry":
		if len(p) != 0 {
			return "res " + c.id + " unsupported"
		}
		opv = ro.Retry[int]()
	case "RetryWithConfig":
		if len(p) != 3 || p[0] < 0 {
			return "res " + c.id + " unsupported"
		}
		delay := time.Duration(p[1]) * 300 * time.Microsecond
		if p[1] == 2 {
			// a long delay, only together with a cancellation during the first attempt (or before):
			// the run must end at once (`prompt=1`), not after the delay
			if cancelAt != "pre" && !strings.HasPrefix(cancelAt, "a1") {
				return "res " + c.id + " unsupported"
			}
			delay = 3 * time.Second
		}
		opv = ro.RetryWithConfig[int](ro.RetryConfig{
			MaxRetries:     uint64(p[0]),
			Delay:          delay,
			ResetOnSuccess: p[2] != 0,
		})
	case "RepeatWith":
		if len(p) != 1 || p[0] < 0 {
			return "res " + c.id + " unsupported"
		}
		opv = ro.RepeatWith[int](int64(p[0]))
	case "While":
		if variant == "ictx" {
			opv = ro.WhileIWithContext[int](ctxCond)
		} else {
			opv = ro.While[int](plainCond)
		}
	case "DoWhile":
		if variant == "ictx" {
			opv = ro.DoWhileIWithContext[int](ctxCond)
		} else {
			opv = ro.DoWhile[int](plainCond)
		}
	case "Catch":
		opv = ro.Catch(func(err error) ro.Observable[int] { return obs })
	case "OnErrorResumeNextWith":
		if len(p) != 1 || p[0] < 0 {
			return "res " + c.id + " unsupported"
		}
		fb := make([]ro.Observable[int], p[0])
		for i := range fb {
			fb[i] = obs
		}
		opv = ro.OnErrorResumeNextWith(fb...)
	case "Concat":
		if len(p) != 1 || p[0] < 0 {
			return "res " + c.id + " unsupported"
		}
		srcs := make([]ro.Observable[int], p[0])
		for i := range srcs {
			srcs[i] = obs
		}
		target = ro.Concat(srcs...)
	default:
		return "res " + c.id + " unsupported"
	}
	var decoySubs int32
	if opv != nil {
		target = opv(obs)
		if c.get("decoy", "-") == "1" {
			// the same operator value applied to ANOTHER upstream after the pipeline under test was built: a pipeline is a
			// function of its own source, so the decoy is never subscribed and the run is the one without it
			_ = opv(ro.NewUnsafeObservable(func(dest ro.Observer[int]) ro.Teardown {
				atomic.AddInt32(&decoySubs, 1)
				dest.Next(900)
				dest.Complete()
				return nil
			}))
		}
	} else if c.get("decoy", "-") == "1" {
		return "res " + c.id + " unsupported"
	}

	subCtx := ctxFromMarks(parseInts(strings.ReplaceAll(c.get("sub", "-"), ".", ",")))
	runCtx := subCtx
	if cancelAt != "-" {
		var cancel context.CancelFunc
		runCtx, cancel = context.WithCancel(subCtx)
		defer cancel()
		if cancelAt == "pre" {
			cancel()
		} else {
			var ai, aj int
			if strings.HasSuffix(cancelAt, "t") {
				if _, err := fmt.Sscanf(cancelAt, "a%dt", &ai); err != nil {
					return "res " + c.id + " unsupported"
				}
				aj = -1
			} else if _, err := fmt.Sscanf(cancelAt, "a%dn%d", &ai, &aj); err != nil {
				return "res " + c.id + " unsupported"
			}
			src.hook = func(att, j int) {
				if att == ai && j == aj {
					cancel()
				}
			}
		}
	}

	// the recording endpoint; with cut=k it is a ready-made Subscriber that unsubscribes itself
	// inside its k-th value callback (downstream going away)
	var trace []string
	var tmu sync.Mutex
	add := func(s string) {
		tmu.Lock()
		trace = append(trace, s)
		tmu.Unlock()
	}
	seen := 0
	var self ro.Subscriber[int]
	var endpoint ro.Observer[int] = ro.NewObserverWithContext(
		func(ctx context.Context, v int) {
			add("N" + renderVal(v) + "/" + renderCtx(ctx))
			seen++
			if cut > 0 && seen == cut {
				self.Unsubscribe()
			}
		},
		func(ctx context.Context, err error) { add("E" + renderResubErr(err) + "/" + renderCtx(ctx)) },
		func(ctx context.Context) { add("C/" + renderCtx(ctx)) },
	)
	if cut > 0 {
		self = ro.NewSubscriber(endpoint)
		endpoint = self
	}

	setRecorder(nil)
	if src.async {
		// one P: an attempt's goroutine runs only when the subscribing goroutine blocks (in Wait or
		// at the end), so the run is deterministic without sleeping
		prev := runtime.GOMAXPROCS(1)
		defer runtime.GOMAXPROCS(prev)
	}
	started := time.Now()
	target.SubscribeWithContext(runCtx, endpoint)
	elapsed := time.Since(started)
	if src.gated {
		// attempt k+1 can only be subscribed while attempt k plays: step them in order
		for k := 1; ; k++ {
			src.mu.Lock()
			gate, done := src.gates[k], src.dones[k]
			src.mu.Unlock()
			if gate == nil {
				break
			}
			close(gate)
			<-done
		}
	}
	src.finishPending()
	src.wg.Wait()
	if runaway {
		return "res " + c.id + " harness-runaway"
	}

	src.mu.Lock()
	defer src.mu.Unlock()
	tmu.Lock()
	defer tmu.Unlock()
	res := fmt.Sprintf("res %s trace=%s log=%s attempts=%d live=%d evals=%d", c.id, joinOrDash(trace), joinOrDash(src.log), src.n, src.maxLive, evals)
	if op == "RetryWithConfig" && p[1] == 2 {
		if elapsed < 1500*time.Millisecond {
			res += " prompt=1"
		} else {
			res += " prompt=0"
		}
	}
	if c.get("decoy", "-") == "1" {
		res += fmt.Sprintf(" decoy=%d", atomic.LoadInt32(&decoySubs))
	}
	if c.get("again", "-") == "1" {
		// the SAME pipeline subscribed a second time once the first run is over (what Retry / Repeat around it, or a second
		// user, do): the scripted source starts over, so the second run must be the first one again - whatever the first run
		// ended with (a pipeline is a reusable recipe; no state survives a subscription)
		first := fmt.Sprintf("%s|%s|%d|%d", joinOrDash(trace), joinOrDash(src.log), src.n, src.maxLive)
		src.n, src.log, src.live, src.maxLive, src.torn = 0, nil, 0, 0, 0
		trace, calls, evals = nil, 0, 0
		src.mu.Unlock()
		tmu.Unlock()
		done := make(chan struct{})
		go func() { defer close(done); target.SubscribeWithContext(runCtx, endpoint2(add)) }()
		verdict := "same"
		select {
		case <-done:
		case <-time.After(2 * time.Second):
			verdict = "hung"
		}
		src.mu.Lock()
		tmu.Lock()
		if second := fmt.Sprintf("%s|%s|%d|%d", joinOrDash(trace), joinOrDash(src.log), src.n, src.maxLive); verdict == "same" && second != first {
			verdict = "differs:" + strings.ReplaceAll(second, " ", "_")
		}
		res += " again=" + verdict
	}
	return res
}

// endpoint2: a fresh recording observer for the second subscription of kind=resub again=1
func endpoint2(add func(string)) ro.Observer[int] {
	return ro.NewObserverWithContext(
		func(ctx context.Context, v int) { add("N" + renderVal(v) + "/" + renderCtx(ctx)) },
		func(ctx context.Context, err error) { add("E" + renderResubErr(err) + "/" + renderCtx(ctx)) },
		func(ctx context.Context) { add("C/" + renderCtx(ctx)) },
	)
}

// ---------- generation ----------

type shape struct {
	nv   int
	fail bool
}

func outcomeScript(att int, sh shape) string {
	parts := make([]string, 0, sh.nv+1)
	for j := 1; j <= sh.nv; j++ {
		parts = append(parts, fmt.Sprintf("N%d@%d", 10*att+j, j))
	}
	if sh.fail {
		parts = append(parts, fmt.Sprintf("E%d@%d", att, sh.nv+1))
	} else {
		parts = append(parts, fmt.Sprintf("C@%d", sh.nv+1))
	}
	return strings.Join(parts, ",")
}

func shapesString(l []shape) string {
	if len(l) == 0 {
		return "-"
	}
	parts := make([]string, len(l))
	for i, sh := range l {
		parts[i] = outcomeScript(i+1, sh)
	}
	return strings.Join(parts, ";")
}

// every list of at most maxA attempts whose outcomes have at most maxV values and end either way
func shapeLists(maxA, maxV int) [][]shape {
	var alphabet []shape
	for nv := 0; nv <= maxV; nv++ {
		alphabet = append(alphabet, shape{nv, false}, shape{nv, true})
	}
	out := [][]shape{{}}
	frontier := [][]shape{{}}
	for l := 1; l <= maxA; l++ {
		var next [][]shape
		for _, pre := range frontier {
			for _, a := range alphabet {
				next = append(next, append(append([]shape{}, pre...), a))
			}
		}
		out = append(out, next...)
		frontier = next
	}
	return out
}

func boolLists(maxLen int) []string {
	out := []string{"-"}
	frontier := []string{""}
	for l := 1; l <= maxLen; l++ {
		var next []string
		for _, pre := range frontier {
			next = append(next, pre+"t", pre+"f")
		}
		out = append(out, next...)
		frontier = next
	}
	return out
}

// cancellation points of a list of attempts: before everything, before each notification of each
// attempt (incl. the first attempt past the list, which completes at once), and in each teardown
func cancelPoints(l []shape) []string {
	out := []string{"pre"}
	for i := 1; i <= len(l)+1; i++ {
		n := 1
		if i <= len(l) {
			n = l[i-1].nv + 1
		}
		for j := 0; j < n; j++ {
			out = append(out, fmt.Sprintf("a%dn%d", i, j))
		}
		out = append(out, fmt.Sprintf("a%dt", i))
	}
	return out
}

func genResub(tier string, seed int64, only string) []*Case {
	r := rand.New(rand.NewSource(seed))
	thorough := tier == "thorough"
	maxA := 3
	if thorough {
		maxA = 4
	}
	lists := shapeLists(maxA, 2)
	nRandom := 60
	if thorough {
		nRandom = 600
	}
	for i := 0; i < nRandom; i++ {
		n := 1 + r.Intn(8)
		l := make([]shape, n)
		for j := range l {
			// biased to failures so that long retry chains occur
			l[j] = shape{r.Intn(4), r.Intn(3) != 0}
		}
		lists = append(lists, l)
	}
	conds := boolLists(3)
	counts := []int{0, 1, 2, 3}
	if thorough {
		conds = boolLists(4)
		counts = []int{0, 1, 2, 3, 4, 5}
	}
	modes := []string{"sync", "async"}
	var cases []*Case
	id := 0
	add := func(op, p, variant, cond, ct, mode, cut, cancel string, l []shape) {
		if only != "" && op != only {
			return
		}
		id++
		cases = append(cases, newCase(id, "kind", "resub", "op", op, "p", p, "var", variant, "cond", cond, "ct", ct,
			"mode", mode, "cut", cut, "cancel", cancel, "sub", "7", "srcs", shapesString(l)))
		if mode == "async" && cancel == "-" && cut == "-" && ((thorough && id%2 == 0) || (!thorough && id%3 == 0)) {
			id++
			cases = append(cases, newCase(id, "kind", "resub", "op", op, "p", p, "var", variant, "cond", cond, "ct", ct,
				"mode", mode, "cut", cut, "cancel", cancel, "sub", "7", "srcs", shapesString(l), "tdslow", "1"))
		}
		if mode == "sync" && cancel == "-" && cut == "-" && ((thorough && id%2 == 1) || (!thorough && id%4 == 1)) {
			id++
			cases = append(cases, newCase(id, "kind", "resub", "op", op, "p", p, "var", variant, "cond", cond, "ct", ct,
				"mode", mode, "cut", cut, "cancel", cancel, "sub", "7", "srcs", shapesString(l), "again", "1"))
		}
		if op != "Concat" && mode == "sync" && cancel == "-" && ((thorough && id%2 == 0) || (!thorough && id%5 == 0)) {
			id++
			cases = append(cases, newCase(id, "kind", "resub", "op", op, "p", p, "var", variant, "cond", cond, "ct", ct,
				"mode", mode, "cut", cut, "cancel", cancel, "sub", "7", "srcs", shapesString(l), "decoy", "1"))
		}
	}
	// sample(k): true for roughly one case in k in the quick tier, always in thorough
	sample := func(k int) bool { return thorough || r.Intn(k) == 0 }
	cuts := func() []string {
		out := []string{"-"}
		for _, k := range []string{"1", "2", "3"} {
			if sample(3) {
				out = append(out, k)
			}
		}
		return out
	}
	for _, l := range lists {
		if len(l) <= 2 && sample(2) {
			// the Wait window (known finding): the next attempt starts while the previous teardown runs
			add("Retry", "-", "plain", "-", "0", "tdrace", "-", "-", l)
			add("RetryWithConfig", fmt.Sprintf("%d,0,%d", 1+r.Intn(3), r.Intn(2)), "plain", "-", "0", "tdrace", "-", "-", l)
			add("RepeatWith", strconv.Itoa(1+r.Intn(3)), "plain", "-", "0", "tdrace", "-", "-", l)
			add("While", "-", "plain", conds[r.Intn(len(conds))], "0", "tdrace", "-", "-", l)
			add("DoWhile", "-", "plain", conds[r.Intn(len(conds))], "0", "tdrace", "-", "-", l)
			add("OnErrorResumeNextWith", strconv.Itoa(r.Intn(4)), "plain", "-", "0", "tdrace", "-", "-", l)
			add("Concat", strconv.Itoa(r.Intn(4)), "plain", "-", "0", "tdrace", "-", "-", l)
		}
		for _, mode := range modes {
			// Retry: unlimited
			for _, cut := range cuts() {
				add("Retry", "-", "plain", "-", "0", mode, cut, "-", l)
			}
			// RetryWithConfig
			for _, max := range counts {
				for _, reset := range []int{0, 1} {
					for _, delay := range []int{0, 1} {
						if delay == 1 && !sample(4) && len(l) > 2 {
							continue
						}
						p := fmt.Sprintf("%d,%d,%d", max, delay, reset)
						add("RetryWithConfig", p, "plain", "-", "0", mode, "-", "-", l)
						if sample(6) {
							add("RetryWithConfig", p, "plain", "-", "0", mode, strconv.Itoa(1+r.Intn(3)), "-", l)
						}
						for _, cp := range cancelPoints(l) {
							if (thorough && len(l) <= 3) || r.Intn(6) == 0 {
								add("RetryWithConfig", p, "plain", "-", "0", mode, "-", cp, l)
							}
						}
					}
				}
			}
			if len(l) >= 1 && len(l) <= 2 && l[0].fail && sample(3) {
				// cancellation while the (long) delay is pending: Retry must stop at once
				for _, cp := range []string{"pre", "a1n0", "a1t"} {
					add("RetryWithConfig", fmt.Sprintf("%d,2,%d", r.Intn(3), r.Intn(2)), "plain", "-", "0", mode, "-", cp, l)
				}
			}
			if sample(2) {
				cps := cancelPoints(l)
				add("Retry", "-", "plain", "-", "0", mode, "-", cps[r.Intn(len(cps))], l)
			}
			for _, n := range counts {
				for _, cut := range []string{"-", "1", "2", "3"} {
					add("RepeatWith", strconv.Itoa(n), "plain", "-", "0", mode, cut, "-", l)
				}
			}
			for _, cond := range conds {
				for _, op := range []string{"While", "DoWhile"} {
					add(op, "-", "plain", cond, "0", mode, "-", "-", l)
					if sample(2) {
						add(op, "-", "ictx", cond, "90", mode, "-", "-", l)
					}
					if sample(8) {
						add(op, "-", "ictx", cond, "0", mode, strconv.Itoa(1+r.Intn(3)), "-", l)
					}
				}
			}
			for _, cut := range cuts() {
				if mode == "async" && cut != "-" {
					continue
				}
				add("Catch", "-", "plain", "-", "0", mode, cut, "-", l)
			}
			for _, n := range counts {
				for _, cut := range cuts() {
					add("OnErrorResumeNextWith", strconv.Itoa(n), "plain", "-", "0", mode, cut, "-", l)
					add("Concat", strconv.Itoa(n), "plain", "-", "0", mode, cut, "-", l)
				}
			}
		}
	}
	return cases
}

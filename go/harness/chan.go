package main

// kind=chan: the channel bridges (ToChannel, FromChannel, ObserveOn / SubscribeOn, Collect) in
// runs whose result does not depend on the schedule of the goroutines involved: an eager consumer,
// a producer that waits for the consumer before every externally visible action (Unsubscribe).
// The result line is compared with EQUALITY against lean/RoModel/Drivers/Chan.lean (`run`), which
// runs the transition system of RoModel/Chan.lean under a canonical schedule.
//
// Schedule-dependent scenarios (slow / stopping consumers, racing unsubscription, abandoned
// channels, the produced-consumed bound) live in chanv.go and are checked by oracles.

import (
	"context"
	"fmt"
	"math/rand"
	"runtime"
	"strconv"
	"strings"
	"sync"
	"sync/atomic"
	"time"

	"github.com/samber/ro"
)

func init() { registerKind("chan", genChan, "chan", runChanCase) }

const chanDeadline = 5 * time.Second

// ---------- scripted source with counters ----------

type chanSource struct {
	script     []Tok
	sync       bool
	mu         sync.Mutex
	dest       ro.Observer[int]
	subCtx     context.Context
	subs       int
	subscribed chan struct{} // closed when the source has been subscribed
	finished   chan struct{} // sync: closed when the whole script has been emitted
	produced   int64         // notifications handed to the observer (incremented before the call)
	before     func(i int)   // called before notification i is emitted
	tdPanic    bool          // the source's own teardown panics (panicVal 7)
}

func newChanSource(script []Tok, sync bool) *chanSource {
	return &chanSource{script: script, sync: sync, subscribed: make(chan struct{}), finished: make(chan struct{})}
}

func (p *chanSource) emit(i int) {
	if p.before != nil {
		p.before(i)
	}
	atomic.AddInt64(&p.produced, 1)
	emit(p.dest, p.subCtx, p.script[i])
}

func (p *chanSource) Observable() ro.Observable[int] {
	return ro.NewUnsafeObservableWithContext(func(ctx context.Context, dest ro.Observer[int]) ro.Teardown {
		p.mu.Lock()
		p.subs++
		first := p.subs == 1
		p.dest, p.subCtx = dest, ctx
		p.mu.Unlock()
		if first {
			close(p.subscribed)
		}
		if p.sync {
			for i := range p.script {
				p.emit(i)
			}
			if first {
				close(p.finished)
			}
		}
		if p.tdPanic {
			return func() { panic(panicVal{7}) }
		}
		return nil
	})
}

// ---------- small helpers ----------

// guard runs f and returns the rendered panic that escaped from it ("" = none)
func guard(f func()) (escaped string) {
	defer func() {
		if r := recover(); r != nil {
			if err, ok := r.(error); ok {
				escaped = chanErr(renderErr(err))
				// the source's teardown panic (panicVal 7), wrapped by every execFinalizer it crossed
				if strings.Contains(err.Error(), "ro.Subscription: ") && strings.HasSuffix(err.Error(), "unexpected error: pv7") {
					escaped = "tdpanic"
				}
			} else {
				escaped = "panic(" + strings.ReplaceAll(fmt.Sprint(r), " ", "_") + ")"
			}
		}
	}()
	f()
	return ""
}

// the two runtime errors of channel misuse, as the model names them
func chanErr(s string) string {
	s = strings.ReplaceAll(s, "other(send_on_closed_channel)", "s90")
	s = strings.ReplaceAll(s, "other(close_of_closed_channel)", "s91")
	return s
}

func waitCh(ch <-chan struct{}) bool {
	select {
	case <-ch:
		return true
	case <-time.After(chanDeadline):
		return false
	}
}

// waitCond polls a condition that some other goroutine is about to make true
func waitCond(cond func() bool, d time.Duration) bool {
	deadline := time.Now().Add(d)
	for i := 0; !cond(); i++ {
		if time.Now().After(deadline) {
			return false
		}
		if i < 200 {
			runtime.Gosched()
		} else {
			time.Sleep(20 * time.Microsecond)
		}
	}
	return true
}

func waitSub(sub ro.Subscription) bool {
	done := make(chan struct{})
	go func() { sub.Wait(); close(done) }()
	return waitCh(done)
}

type escapes struct {
	mu sync.Mutex
	l  []string
}

func (e *escapes) run(f func()) {
	if s := guard(f); s != "" {
		e.mu.Lock()
		e.l = append(e.l, s)
		e.mu.Unlock()
	}
}

func (e *escapes) String() string {
	e.mu.Lock()
	defer e.mu.Unlock()
	return joinOrDash(e.l)
}

// gateLen(script, k): how many of the first k notifications pass a subscriber (up to and
// including the first terminal)
func gateLen(script []Tok, k int) int {
	n := 0
	for i := 0; i < k && i < len(script); i++ {
		n++
		if script[i].kind != 'N' {
			break
		}
	}
	return n
}

func terminated(script []Tok) bool {
	return gateLen(script, len(script)) > 0 && script[gateLen(script, len(script))-1].kind != 'N'
}

func recStrings(rec *Recorder) (trace, drops, unh string) {
	rec.mu.Lock()
	defer rec.mu.Unlock()
	ds := make([]string, len(rec.drops))
	for i, d := range rec.drops {
		if strings.HasPrefix(d, "N?") { // a dropped channel value renders as an address
			d = "Nch"
		}
		ds[i] = d
	}
	us := make([]string, len(rec.unhandled))
	for i, u := range rec.unhandled {
		us[i] = chanErr(u)
	}
	return joinOrDash(rec.trace), joinOrDash(ds), joinOrDash(us)
}

func closesOf(closedSeen bool, unh, esc string) int {
	if strings.Contains(unh, "s91") || strings.Contains(esc, "s91") {
		return 2
	}
	if closedSeen {
		return 1
	}
	return 0
}

// ---------- the channel reader used for ToChannel ----------

type chanReader struct {
	mu      sync.Mutex
	read    []string
	started bool
	closed  int32
	done    chan struct{}
	each    func(n int) // called after the n-th item has been received, before it counts as consumed
	count   int64       // items consumed
}

func newChanReader() *chanReader { return &chanReader{done: make(chan struct{})} }

func (r *chanReader) start(ch <-chan ro.Notification[int]) {
	r.mu.Lock()
	r.started = true
	r.mu.Unlock()
	go func() {
		n := 0
		for item := range ch {
			n++
			r.mu.Lock()
			r.read = append(r.read, renderNotification(item.Kind, item.Value, item.Err))
			r.mu.Unlock()
			if r.each != nil {
				r.each(n)
			}
			atomic.AddInt64(&r.count, 1)
		}
		atomic.StoreInt32(&r.closed, 1)
		close(r.done)
	}()
}

func (r *chanReader) wasStarted() bool {
	r.mu.Lock()
	defer r.mu.Unlock()
	return r.started
}

func (r *chanReader) readString() string {
	r.mu.Lock()
	defer r.mu.Unlock()
	return joinOrDash(r.read)
}

func chanObserver(rec *Recorder, rd *chanReader) ro.Observer[<-chan ro.Notification[int]] {
	return ro.NewObserverWithContext(
		func(ctx context.Context, ch <-chan ro.Notification[int]) {
			rec.add("Nch/" + renderCtx(ctx))
			rd.start(ch)
		},
		func(ctx context.Context, err error) { rec.add("E" + renderErr(err) + "/" + renderCtx(ctx)) },
		func(ctx context.Context) { rec.add("C/" + renderCtx(ctx)) },
	)
}

// ---------- case execution ----------

func runChanCase(c *Case) string {
	script, err := parseScript(c.get("src", "-"))
	if err != nil {
		return "res " + c.id + " bad-script"
	}
	capacity, _ := strconv.Atoi(c.get("cap", "1"))
	mode := c.get("mode", "sync")
	cut := -1
	if s := c.get("cut", "-"); s != "-" {
		cut, _ = strconv.Atoi(s)
	}
	subCtx := ctxFromMarks(parseInts(strings.ReplaceAll(c.get("sub", "-"), ".", ",")))
	if c.get("cc", "0") == "1" {
		// the subscription context is already cancelled (so is every context the source derives from it): a done context
		// does not end a stream — only ThrowOnContextCancel does — so every notification must still get through
		cctx, cancel := context.WithCancel(subCtx)
		cancel()
		subCtx = cctx
	}
	rec := &Recorder{}
	setRecorder(rec)
	defer setRecorder(nil)
	tdp := c.get("tdp", "0") == "1"
	switch c.get("op", "?") {
	case "ToChannel":
		return "res " + c.id + " " + runToChannel(rec, script, capacity, mode, cut, subCtx, tdp)
	case "ObserveOn":
		return "res " + c.id + " " + runDetach(rec, false, script, capacity, mode, cut, subCtx, tdp)
	case "SubscribeOn":
		return "res " + c.id + " " + runDetach(rec, true, script, capacity, mode, cut, subCtx, false)
	case "FromChannel":
		return "res " + c.id + " " + runFromChannel(rec, script, capacity, c.get("close", "1") == "1", cut, subCtx)
	case "FromChannelBacklog":
		return "res " + c.id + " " + runFromChannelBacklog(capacity, cut, c.get("how", "take"))
	case "Collect":
		return "res " + c.id + " " + runCollect(script, capacity, c.get("via", "-"), subCtx)
	}
	return "res " + c.id + " unsupported"
}

// drive plays a hot script: Unsubscribe() before notification `cut`, after the consumer has
// consumed everything that was let through so far (`consumed` reports its count).
func driveHot(src *chanSource, script []Tok, cut int, esc *escapes, unsub func(), consumed func() int) (timeout bool) {
	for i := range script {
		if i == cut {
			want := gateLen(script, i)
			if !waitCond(func() bool { return consumed() >= want }, chanDeadline) {
				return true
			}
			esc.run(unsub)
		}
		esc.run(func() { src.emit(i) })
	}
	return false
}

func runToChannel(rec *Recorder, script []Tok, capacity int, mode string, cut int, subCtx context.Context, tdp bool) string {
	src := newChanSource(script, mode == "sync")
	src.tdPanic = tdp
	rd := newChanReader()
	esc := &escapes{}
	var sub ro.Subscription
	goroutines := runtime.NumGoroutine()
	esc.run(func() {
		sub = ro.ToChannel[int](capacity)(src.Observable()).SubscribeWithContext(subCtx, chanObserver(rec, rd))
	})
	if sub == nil {
		return "subscribe-failed escaped=" + esc.String()
	}
	if !waitCh(src.subscribed) {
		return "harness-timeout at=subscribed"
	}
	if mode == "hot" {
		// ToChannel's goroutine registers the source's subscription only after SubscribeWithContext
		// has returned (`subscriptions.AddUnsubscribable(source.SubscribeWithContext(…))`) and then
		// ends; an Unsubscribe inside that window does not stop the source (the model's hot=false
		// regime, exercised by kind=chanv). The deterministic runs wait for the goroutine to end.
		waitCond(func() bool { return runtime.NumGoroutine() <= goroutines+1 }, 20*time.Millisecond)
	}
	if mode == "sync" {
		if !waitCh(src.finished) {
			return "harness-timeout at=finished"
		}
	} else if driveHot(src, script, cut, esc, sub.Unsubscribe, func() int { return int(atomic.LoadInt64(&rd.count)) }) {
		return "harness-timeout at=cut"
	}
	if terminated(script) && (cut < 0 || cut >= gateLen(script, len(script))) {
		// the goroutine completes the destination after closing the channel
		if !waitSub(sub) {
			return "harness-timeout at=wait"
		}
	}
	if cut >= len(script) || !sub.IsClosed() {
		esc.run(sub.Unsubscribe)
	}
	if rd.wasStarted() && !waitCh(rd.done) {
		return "harness-timeout at=reader read=" + rd.readString()
	}
	trace, drops, unh := recStrings(rec)
	closed := atomic.LoadInt32(&rd.closed) == 1
	return fmt.Sprintf("read=%s closed=%d closes=%d trace=%s drops=%s unh=%s escaped=%s", rd.readString(), b2i(closed),
		closesOf(closed, unh, esc.String()), trace, drops, unh, esc.String())
}

func b2i(b bool) int {
	if b {
		return 1
	}
	return 0
}

func runDetach(rec *Recorder, upstream bool, script []Tok, capacity int, mode string, cut int, subCtx context.Context, tdp bool) string {
	goroutines := runtime.NumGoroutine()
	src := newChanSource(script, mode == "sync")
	src.tdPanic = tdp
	esc := &escapes{}
	var obs ro.Observable[int]
	if upstream {
		obs = ro.SubscribeOn[int](capacity)(src.Observable())
	} else {
		obs = ro.ObserveOn[int](capacity)(src.Observable())
	}
	var sub ro.Subscription
	subscribe := func() { esc.run(func() { sub = obs.SubscribeWithContext(subCtx, observer[int](rec)) }) }
	if upstream {
		// SubscribeOn consumes the channel inside Subscribe: it returns when the stream has ended
		if !terminated(script) || cut >= 0 {
			return "unsupported"
		}
		returned := make(chan struct{})
		go func() { subscribe(); close(returned) }()
		if !waitCh(src.subscribed) {
			return "harness-timeout at=subscribed"
		}
		if mode == "hot" {
			for i := range script {
				esc.run(func() { src.emit(i) })
			}
		}
		if !waitCh(returned) {
			return "harness-timeout at=subscribe-return"
		}
		// the source runs on SubscribeOn's goroutine: an illegal suffix after the terminal is still
		// being refused (drop hook) when Subscribe has already returned
		if mode == "sync" && !waitCh(src.finished) {
			return "harness-timeout at=finished"
		}
	} else {
		subscribe()
		if sub == nil {
			return "subscribe-failed escaped=" + esc.String()
		}
		if mode == "hot" && driveHot(src, script, cut, esc, sub.Unsubscribe, rec.traceLen) {
			return "harness-timeout at=cut"
		}
		if terminated(script) && (cut < 0 || cut >= gateLen(script, len(script))) {
			if !waitSub(sub) {
				return "harness-timeout at=wait"
			}
		} else {
			want := gateLen(script, len(script))
			if cut >= 0 && cut < len(script) {
				want = gateLen(script, cut)
			}
			if !waitCond(func() bool { return rec.traceLen() >= want }, chanDeadline) {
				return "harness-timeout at=drain"
			}
		}
		if cut >= len(script) || !sub.IsClosed() {
			esc.run(sub.Unsubscribe)
		}
	}
	trace, drops, unh := recStrings(rec)
	if tdp {
		// the consumer goroutine ranges over the hand-off channel: it is gone iff stop() ran
		return fmt.Sprintf("trace=%s drops=%s unh=%s escaped=%s gone=%d", trace, drops, unh, esc.String(), b2i(goroutinesBackTo(goroutines)))
	}
	return fmt.Sprintf("trace=%s drops=%s unh=%s escaped=%s", trace, drops, unh, esc.String())
}

func scriptValues(script []Tok) []int {
	var vs []int
	for _, t := range script {
		if t.kind != 'N' {
			break
		}
		vs = append(vs, t.val)
	}
	return vs
}

func goroutinesBackTo(base int) bool {
	return waitCond(func() bool { return runtime.NumGoroutine() <= base }, 300*time.Millisecond)
}

// FromChannel over a buffered channel that already holds `n` values; the consumer leaves after k of them (Take(k), or an
// Unsubscribe issued from another goroutine as soon as k values were seen). What the reader had not received stays in the
// channel for whoever reads it next: the reader checks `done` before every receive. (The `select` between a ready value
// and `done` is random, so a few extra receives are legal; a drained backlog is not.)
func runFromChannelBacklog(n, k int, how string) string {
	setRecorder(nil)
	ch := make(chan int, n)
	for i := 0; i < n; i++ {
		ch <- i
	}
	var seen int64
	reached := make(chan struct{})
	var once sync.Once
	obs := ro.NewObserver(func(int) {
		if atomic.AddInt64(&seen, 1) >= int64(k) {
			once.Do(func() { close(reached) })
		}
		time.Sleep(20 * time.Microsecond)
	}, func(error) {}, func() {})
	var sub ro.Subscription
	if how == "take" {
		sub = ro.Take[int](int64(k))(ro.FromChannel[int](ch)).Subscribe(obs)
	} else {
		sub = ro.FromChannel[int](ch).Subscribe(obs)
	}
	select {
	case <-reached:
	case <-time.After(2 * time.Second):
		return "harness-timeout at=reached"
	}
	if how != "take" {
		sub.Unsubscribe()
	}
	if !waitSub(sub) {
		return "harness-timeout at=wait"
	}
	time.Sleep(3 * time.Millisecond)
	left := len(ch)
	if left >= n-k-48 {
		return "backlog=kept"
	}
	return fmt.Sprintf("backlog=drained:%d-of-%d-left-after-%d", left, n, k)
}

func runFromChannel(rec *Recorder, script []Tok, capacity int, willClose bool, cut int, subCtx context.Context) string {
	base := runtime.NumGoroutine()
	vals := scriptValues(script)
	ch := make(chan int, capacity)
	esc := &escapes{}
	var sub ro.Subscription
	esc.run(func() { sub = ro.FromChannel[int](ch).SubscribeWithContext(subCtx, observer[int](rec)) })
	if sub == nil {
		return "subscribe-failed escaped=" + esc.String()
	}
	abort := make(chan struct{})
	userDone := make(chan struct{})
	timedOut := int32(0)
	go func() {
		defer close(userDone)
		for i, v := range vals {
			if i == cut {
				if !waitCond(func() bool { return rec.traceLen() >= i }, chanDeadline) {
					atomic.StoreInt32(&timedOut, 1)
					return
				}
				esc.run(sub.Unsubscribe)
			}
			select {
			case ch <- v:
			case <-abort: // the consumer is gone and the buffer is full: the user gives up
				return
			}
		}
		if cut >= len(vals) {
			if !waitCond(func() bool { return rec.traceLen() >= len(vals) }, chanDeadline) {
				atomic.StoreInt32(&timedOut, 1)
				return
			}
			esc.run(sub.Unsubscribe)
		}
		if willClose {
			close(ch)
		}
	}()
	if cut < 0 {
		if !waitCh(userDone) {
			return "harness-timeout at=user"
		}
		if willClose {
			if !waitSub(sub) {
				return "harness-timeout at=wait"
			}
		} else {
			if !waitCond(func() bool { return rec.traceLen() >= len(vals) }, chanDeadline) {
				return "harness-timeout at=drain"
			}
			esc.run(sub.Unsubscribe)
		}
	} else {
		// after Unsubscribe nothing is delivered any more; the user may be stuck on a full buffer
		waitCond(func() bool { return sub.IsClosed() || atomic.LoadInt32(&timedOut) == 1 }, chanDeadline)
		select {
		case <-userDone:
		case <-time.After(2 * time.Millisecond):
		}
		close(abort)
		if !waitCh(userDone) {
			return "harness-timeout at=user"
		}
	}
	if atomic.LoadInt32(&timedOut) == 1 {
		return "harness-timeout at=cut"
	}
	leak := 0
	if !goroutinesBackTo(base) {
		leak = 1
	}
	trace, _, unh := recStrings(rec)
	dc := 1
	if strings.Contains(unh, "s91") || strings.Contains(esc.String(), "s91") {
		dc = 2
	}
	return fmt.Sprintf("trace=%s donecloses=%d leak=%d", trace, dc, leak)
}

func runCollect(script []Tok, capacity int, via string, subCtx context.Context) string {
	if !terminated(script) {
		return "blocks" // Collect waits for a terminal; the model says the same without running
	}
	src := newChanSource(script, true)
	obs := src.Observable()
	if via == "ObserveOn" {
		obs = ro.ObserveOn[int](capacity)(obs)
	}
	var vals []int
	var ctx context.Context
	var err error
	done := make(chan string, 1)
	go func() {
		done <- guard(func() { vals, ctx, err = ro.CollectWithContext(subCtx, obs) })
	}()
	select {
	case esc := <-done:
		if esc != "" {
			return "escaped=" + esc
		}
	case <-time.After(chanDeadline):
		return "harness-timeout at=collect"
	}
	e := "-"
	if err != nil {
		e = renderErr(err)
	}
	if vals == nil {
		return "vals=nilslice err=" + e + " ctx=" + renderCtx(ctx)
	}
	return fmt.Sprintf("vals=%s err=%s ctx=%s", renderVal(vals), e, renderCtx(ctx))
}

// ---------- generation ----------

func chanLists(tier string, r *rand.Rand) [][]int {
	lists := [][]int{{}, {1}, {1, 2}, {1, 2, 3}}
	n, maxLen := 5, 6
	if tier == "thorough" {
		lists = append(lists, []int{1, 2, 3, 4}, []int{1, 2, 3, 4, 5})
		n, maxLen = 150, 40
	}
	for i := 0; i < n; i++ {
		lists = append(lists, randomList(r, 4+r.Intn(maxLen-3)))
	}
	return lists
}

func genChan(tier string, seed int64, only string) []*Case {
	r := rand.New(rand.NewSource(seed))
	var cases []*Case
	id := 0
	add := func(kv ...string) {
		id++
		if only == "" || only == kv[3] {
			cases = append(cases, newCase(id, kv...))
		}
	}
	for _, vals := range chanLists(tier, r) {
		for _, script := range scriptsFor(vals, true) {
			s := scriptString(script)
			for capacity := 0; capacity <= 3; capacity++ {
				cs := strconv.Itoa(capacity)
				// unsubscription at every point of a hot script (and after its end)
				cuts := []string{"-"}
				if len(script) <= 6 {
					for k := 0; k <= len(script); k++ {
						cuts = append(cuts, strconv.Itoa(k))
					}
				} else {
					nc := 3
					if tier == "thorough" {
						nc = 6
					}
					for j := 0; j < nc; j++ {
						cuts = append(cuts, strconv.Itoa(r.Intn(len(script)+1)))
					}
				}
				add("kind", "chan", "op", "ToChannel", "cap", cs, "mode", "sync", "cut", "-", "sub", "7", "src", s)
				for _, k := range cuts {
					add("kind", "chan", "op", "ToChannel", "cap", cs, "mode", "hot", "cut", k, "sub", "7", "src", s)
				}
				// the source's own teardown panics: the release (close of the channel) must still happen
				if len(script) <= 4 {
					for _, k := range cuts[1:] {
						add("kind", "chan", "op", "ToChannel", "cap", cs, "mode", "hot", "cut", k, "tdp", "1", "sub", "7", "src", s)
						if capacity >= 1 {
							add("kind", "chan", "op", "ObserveOn", "cap", cs, "mode", "hot", "cut", k, "tdp", "1", "sub", "7", "src", s)
						}
					}
				}
				if len(script) <= 5 {
					// cancelled subscription context: nothing may be lost (the hand-off sends must not give up on ctx.Done())
					add("kind", "chan", "op", "ToChannel", "cap", cs, "mode", "hot", "cut", "-", "cc", "1", "sub", "7", "src", s)
					add("kind", "chan", "op", "ToChannel", "cap", cs, "mode", "sync", "cut", "-", "cc", "1", "sub", "7", "src", s)
					if capacity >= 1 {
						add("kind", "chan", "op", "ObserveOn", "cap", cs, "mode", "hot", "cut", "-", "cc", "1", "sub", "7", "src", s)
						add("kind", "chan", "op", "ObserveOn", "cap", cs, "mode", "sync", "cut", "-", "cc", "1", "sub", "7", "src", s)
						if terminated(script) {
							add("kind", "chan", "op", "SubscribeOn", "cap", cs, "mode", "sync", "cut", "-", "cc", "1", "sub", "7", "src", s)
						}
					}
				}
				if capacity >= 1 {
					add("kind", "chan", "op", "ObserveOn", "cap", cs, "mode", "sync", "cut", "-", "sub", "7", "src", s)
					for _, k := range cuts {
						add("kind", "chan", "op", "ObserveOn", "cap", cs, "mode", "hot", "cut", k, "sub", "7", "src", s)
					}
					if terminated(script) {
						add("kind", "chan", "op", "SubscribeOn", "cap", cs, "mode", "sync", "cut", "-", "sub", "7", "src", s)
						add("kind", "chan", "op", "SubscribeOn", "cap", cs, "mode", "hot", "cut", "-", "sub", "7", "src", s)
						add("kind", "chan", "op", "Collect", "via", "ObserveOn", "cap", cs, "sub", "7", "src", s)
					}
				}
			}
			add("kind", "chan", "op", "Collect", "via", "-", "cap", "0", "sub", "7", "src", s)
		}
		// FromChannel: a long backlog whose consumer leaves early
		if len(vals) == 1 {
			for _, how := range []string{"take", "unsub"} {
				for _, k := range []string{"1", "3", "20"} {
					add("kind", "chan", "op", "FromChannelBacklog", "cap", "512", "cut", k, "how", how, "sub", "7", "src", "N1")
				}
			}
		}
		// FromChannel: the values, the user closes or abandons, unsubscription at every point
		plain := make([]Tok, len(vals))
		for i, v := range vals {
			plain[i] = Tok{'N', v, 0}
		}
		s := scriptString(plain)
		for capacity := 0; capacity <= 3; capacity++ {
			for _, cl := range []string{"1", "0"} {
				add("kind", "chan", "op", "FromChannel", "cap", strconv.Itoa(capacity), "close", cl, "cut", "-", "sub", "7", "src", s)
				// cancelled subscription context: FromChannel still forwards every value until the channel is closed
				// (a done context does not end a stream, only ThrowOnContextCancel does)
				add("kind", "chan", "op", "FromChannel", "cap", strconv.Itoa(capacity), "close", cl, "cut", "-", "cc", "1", "sub", "7", "src", s)
				for k := 0; k <= len(vals) && k <= 8; k++ {
					add("kind", "chan", "op", "FromChannel", "cap", strconv.Itoa(capacity), "close", cl, "cut", strconv.Itoa(k), "sub", "7", "src", s)
				}
			}
		}
	}
	return cases
}

package main

// The single-source operators of lean/RoModel/Ops/More.lean: the context operators of
// operator_context.go, Cast, the Tap*/Do* family, DelayEach, TimeInterval/Timestamp, Average and the
// float maps Round/Abs/Floor/Ceil/Trunc. They are appended to opSpecs (ops.go), so every kind that
// walks the catalogue (ops, chains, reuse, cancel) runs them too.
//
// Also: the generator `opsmore` (kind=op cases for a chosen list of operators, including the
// extraOpSpecs), and kind=tap (the Tap*/Do* family with its callback invocations recorded).

import (
	"context"
	"fmt"
	"math"
	"math/rand"
	"strconv"
	"strings"
	"sync"
	"time"

	"github.com/samber/ro"
)

func init() {
	registerKind("opsmore", genOpsMore, "", nil)
	registerKind("taps", genTaps, "tap", runTapCase)
}

// ---------- harness-side pass-through views used around ContextWithValue ----------

type cwvKey struct{}

const upMark = 99 // mirrors Ro.Driver.upMark

func marksOf(ctx context.Context) []int {
	m, _ := ctx.Value(markKey{}).([]int)
	return m
}

// viewSource sits between the probe and ContextWithValue. It re-roots the context of every
// notification (a fresh context carrying only the harness markers), so that a key found downstream
// was added by the operator for THAT notification and not inherited from the subscription context;
// and it makes "the source was subscribed with a context carrying the key" visible by adding upMark.
func viewSource(src ro.Observable[int], key any) ro.Observable[int] {
	return ro.NewUnsafeObservableWithContext(func(ctx context.Context, dest ro.Observer[int]) ro.Teardown {
		has := ctx.Value(key) != nil
		fix := func(c context.Context) context.Context {
			n := ctxFromMarks(marksOf(c))
			if has {
				n = withMark(n, upMark)
			}
			return n
		}
		sub := src.SubscribeWithContext(ctx, ro.NewObserverWithContext(
			func(c context.Context, v int) { dest.NextWithContext(fix(c), v) },
			func(c context.Context, err error) { dest.ErrorWithContext(fix(c), err) },
			func(c context.Context) { dest.CompleteWithContext(fix(c)) },
		))
		return sub.Unsubscribe
	})
}

// keyToMark turns "ctx.Value(key) == val" into the harness marker `val` on the same notification.
func keyToMark(src ro.Observable[int], key any, val int) ro.Observable[int] {
	return ro.NewUnsafeObservableWithContext(func(ctx context.Context, dest ro.Observer[int]) ro.Teardown {
		fix := func(c context.Context) context.Context {
			if v, ok := c.Value(key).(int); ok && v == val {
				return withMark(c, val)
			}
			return c
		}
		sub := src.SubscribeWithContext(ctx, ro.NewObserverWithContext(
			func(c context.Context, v int) { dest.NextWithContext(fix(c), v) },
			func(c context.Context, err error) { dest.ErrorWithContext(fix(c), err) },
			func(c context.Context) { dest.CompleteWithContext(fix(c)) },
		))
		return sub.Unsubscribe
	})
}

// ---------- float operators: compared against Go's own math function on the same item ----------

// floatMap wraps `op` (Round, Abs, …): the i-th probe value v is fed as v/2; the i-th result must be
// Go's own f(v/2) and is then printed symbolically as name(v), the token the Lean driver prints for
// the uninterpreted function. The per-subscription state lives inside the subscribe function.
func floatMap(name string, op func(ro.Observable[float64]) ro.Observable[float64], f func(float64) float64) func(ro.Observable[int]) ro.Observable[string] {
	return func(src ro.Observable[int]) ro.Observable[string] {
		return ro.NewUnsafeObservableWithContext(func(ctx context.Context, dest ro.Observer[string]) ro.Teardown {
			var mu sync.Mutex
			var inputs []int
			pre := ro.Map(func(v int) float64 {
				mu.Lock()
				inputs = append(inputs, v)
				mu.Unlock()
				return float64(v) / 2
			})
			post := ro.MapI(func(y float64, i int64) string {
				mu.Lock()
				defer mu.Unlock()
				if int(i) < len(inputs) {
					want := f(float64(inputs[i]) / 2)
					if y == want || (math.IsNaN(y) && math.IsNaN(want)) {
						return name + "(" + strconv.Itoa(inputs[i]) + ")"
					}
				}
				return fmt.Sprintf("float!%v", y)
			})
			sub := post(op(pre(src))).SubscribeWithContext(ctx, dest)
			return sub.Unsubscribe
		})
	}
}

// averageOp: the result must be Go's own float64(sum)/float64(count) of the values that went in.
func averageOp(src ro.Observable[int]) ro.Observable[string] {
	return ro.NewUnsafeObservableWithContext(func(ctx context.Context, dest ro.Observer[string]) ro.Teardown {
		var mu sync.Mutex
		sum, count := 0, 0
		pre := ro.Map(func(v int) int {
			mu.Lock()
			sum += v
			count++
			mu.Unlock()
			return v
		})
		post := ro.Map(func(y float64) string {
			mu.Lock()
			defer mu.Unlock()
			if math.IsNaN(y) {
				return "?NaN"
			}
			if count > 0 && y == float64(sum)/float64(count) {
				return fmt.Sprintf("avg(%d:%d)", sum, count)
			}
			return fmt.Sprintf("float!%v", y)
		})
		sub := post(ro.Average[int]()(pre(src))).SubscribeWithContext(ctx, dest)
		return sub.Unsubscribe
	})
}

// ---------- registry entries ----------

var v2 = []string{"plain", "ctx"}

// twoVariants builds an operator that exists as X and XWithContext
func twoVariants[R any](plain, withCtx func() func(ro.Observable[int]) ro.Observable[R]) mkFn {
	return func(p []int, variant string, cbs []Cb) (applyFn, error) {
		if len(p) != 0 || len(cbs) != 0 {
			return nil, errArity("twoVariants")
		}
		switch variant {
		case "plain":
			return opValue(plain()), nil
		case "ctx":
			return opValue(withCtx()), nil
		}
		return nil, errArity(variant)
	}
}

func buildContextMap(p []int, variant string, cbs []Cb) (applyFn, error) {
	if len(cbs) != 1 || len(p) != 0 || cbs[0].name != "ctag" || cbs[0].tag == 0 {
		return nil, errArity("ContextMap")
	}
	t := cbs[0].tag
	switch variant {
	case "plain":
		return opValue(ro.ContextMap[int](func(ctx context.Context) context.Context { return tagCtx(ctx, t) })), nil
	case "i":
		return opValue(ro.ContextMapI[int](func(ctx context.Context, i int64) context.Context { return tagCtx(ctx, t+int(i)) })), nil
	}
	return nil, errArity(variant)
}

func moreOpSpecs() []OpSpec {
	return []OpSpec{
		// operator_context.go. ContextWithValue / ContextWithTimeout / ContextWithDeadline are not used inside
		// random chains: they derive a child context with context.With*(ctx, …), which panics on the nil
		// context that Max hands out for an empty source (known finding C09 op=Max) — a chain
		// `… |> Max |> ContextWithTimeout` then ends with Error(observer(panic)) instead of the value.
		{"ContextWithValue", v1, [][]int{{60}}, "", simple(1, func(p []int) intOp {
			return func(src ro.Observable[int]) ro.Observable[int] {
				return keyToMark(ro.ContextWithValue[int](cwvKey{}, p[0])(viewSource(src, cwvKey{})), cwvKey{}, p[0])
			}
		}), false, nil},
		{"ContextWithTimeout", v1, [][]int{{}}, "", simple(0, func(p []int) intOp { return ro.ContextWithTimeout[int](time.Hour) }), false, nil},
		{"ContextWithDeadline", v1, [][]int{{}}, "", simple(0, func(p []int) intOp { return ro.ContextWithDeadline[int](time.Now().Add(time.Hour)) }), false, nil},
		{"ContextMap", []string{"plain", "i"}, [][]int{{}}, "ctag", buildContextMap, true, nil},
		// operator_transformations.go
		{"Cast", v1, [][]int{{2}, {-1}}, "", simple(1, func(p []int) intOp {
			k := p[0]
			return func(src ro.Observable[int]) ro.Observable[int] {
				return ro.Cast[any, int]()(ro.Map(func(v int) any {
					if v == k {
						return "not-an-int"
					}
					return v
				})(src))
			}
		}), false, nil},
		// operator_utility.go: aliases and variants of Tap (callbacks that do nothing here; kind=tap records them)
		{"TapWithContext", v1, [][]int{{}}, "", simple(0, func(p []int) intOp { return ro.TapWithContext(nopCtxV, nopCtxE, nopCtx) }), true, nil},
		{"Do", v2, [][]int{{}}, "", twoVariants(
			func() intOp { return ro.Do(nopV, nopE, nop) },
			func() intOp { return ro.DoWithContext(nopCtxV, nopCtxE, nopCtx) }), true, nil},
		{"TapOnNext", v2, [][]int{{}}, "", twoVariants(
			func() intOp { return ro.TapOnNext(nopV) },
			func() intOp { return ro.TapOnNextWithContext(nopCtxV) }), true, nil},
		{"DoOnNext", v2, [][]int{{}}, "", twoVariants(
			func() intOp { return ro.DoOnNext(nopV) },
			func() intOp { return ro.DoOnNextWithContext(nopCtxV) }), true, nil},
		{"TapOnError", v2, [][]int{{}}, "", twoVariants(
			func() intOp { return ro.TapOnError[int](nopE) },
			func() intOp { return ro.TapOnErrorWithContext[int](nopCtxE) }), true, nil},
		{"DoOnError", v2, [][]int{{}}, "", twoVariants(
			func() intOp { return ro.DoOnError[int](nopE) },
			func() intOp { return ro.DoOnErrorWithContext[int](nopCtxE) }), true, nil},
		{"TapOnComplete", v2, [][]int{{}}, "", twoVariants(
			func() intOp { return ro.TapOnComplete[int](nop) },
			func() intOp { return ro.TapOnCompleteWithContext[int](nopCtx) }), true, nil},
		{"DoOnComplete", v2, [][]int{{}}, "", twoVariants(
			func() intOp { return ro.DoOnComplete[int](nop) },
			func() intOp { return ro.DoOnCompleteWithContext[int](nopCtx) }), true, nil},
		{"TapOnSubscribeWithContext", v1, [][]int{{}}, "", simple(0, func(p []int) intOp { return ro.TapOnSubscribeWithContext[int](nopCtx) }), true, nil},
		{"DoOnSubscribe", v2, [][]int{{}}, "", twoVariants(
			func() intOp { return ro.DoOnSubscribe[int](nop) },
			func() intOp { return ro.DoOnSubscribeWithContext[int](nopCtx) }), true, nil},
		{"DoOnFinalize", v1, [][]int{{}}, "", simple(0, func(p []int) intOp { return ro.DoOnFinalize[int](nop) }), true, nil},
		{"DelayEach", v1, [][]int{{}}, "", simple(0, func(p []int) intOp { return ro.DelayEach[int](time.Microsecond) }), true, nil},
		// TimeInterval / Timestamp: value preserved; the time field is projected away (and must not be negative)
		{"TimeInterval", v1, [][]int{{}}, "", simple(0, func(p []int) intOp {
			return func(src ro.Observable[int]) ro.Observable[int] {
				return ro.Map(func(iv ro.IntervalValue[int]) int {
					if iv.Interval < 0 {
						return -999
					}
					return iv.Value
				})(ro.TimeInterval[int]()(src))
			}
		}), true, nil},
		{"Timestamp", v1, [][]int{{}}, "", simple(0, func(p []int) intOp {
			return func(src ro.Observable[int]) ro.Observable[int] {
				return ro.Map(func(tv ro.TimestampValue[int]) int {
					if tv.Timestamp < 0 {
						return -999
					}
					return tv.Value
				})(ro.Timestamp[int]()(src))
			}
		}), true, nil},
		// operator_math.go: float functions are not modelled; compared against Go's own math calls
		{"Average", v1, [][]int{{}}, "", simple(0, func(p []int) func(ro.Observable[int]) ro.Observable[string] { return averageOp }), false, nil},
		{"Round", v1, [][]int{{}}, "", simple(0, func(p []int) func(ro.Observable[int]) ro.Observable[string] {
			return floatMap("round", ro.Round(), math.Round)
		}), false, nil},
		{"Abs", v1, [][]int{{}}, "", simple(0, func(p []int) func(ro.Observable[int]) ro.Observable[string] {
			return floatMap("abs", ro.Abs(), math.Abs)
		}), false, nil},
		{"Floor", v1, [][]int{{}}, "", simple(0, func(p []int) func(ro.Observable[int]) ro.Observable[string] {
			return floatMap("floor", ro.Floor(), math.Floor)
		}), false, nil},
		{"Ceil", v1, [][]int{{}}, "", simple(0, func(p []int) func(ro.Observable[int]) ro.Observable[string] {
			return floatMap("ceil", ro.Ceil(), math.Ceil)
		}), false, nil},
		{"Trunc", v1, [][]int{{}}, "", simple(0, func(p []int) func(ro.Observable[int]) ro.Observable[string] {
			return floatMap("trunc", ro.Trunc(), math.Trunc)
		}), false, nil},
	}
}

// ContextReset replaces the context (by definition not derived from the subscription context): it
// is run by name (opsmore), not by the generators shared with C09's oracle.
func moreExtraOpSpecs() []OpSpec {
	return []OpSpec{
		{"ContextReset", v1, [][]int{{5}, {}}, "", simple(-1, func(p []int) intOp {
			if len(p) == 0 {
				return ro.ContextReset[int](nil) //nolint:staticcheck // nil is documented: Background
			}
			return ro.ContextReset[int](ctxFromMarks([]int{p[0]}))
		}), false, nil},
	}
}

// names of the operators added by this file (the `opsmore` generator enumerates exactly these)
func moreNames() []string {
	var out []string
	for _, s := range moreOpSpecs() {
		out = append(out, s.name)
	}
	for _, s := range moreExtraOpSpecs() {
		out = append(out, s.name)
	}
	return out
}

// genOpsMore: kind=op cases, same enumeration as genOps, restricted to the operators of this file
// (and including the extraOpSpecs). `-only` restricts further to one operator.
func genOpsMore(tier string, seed int64, only string) []*Case {
	saved := opSpecs
	defer func() { opSpecs = saved }()
	var sel []OpSpec
	for _, n := range moreNames() {
		if only != "" && n != only {
			continue
		}
		if s := findOp(n); s != nil {
			sel = append(sel, *s)
		}
	}
	opSpecs = sel
	return genOps(tier, seed, "")
}

// ---------- kind=tap: the Tap*/Do* family with recorded side effects ----------

type fxLog struct {
	mu  sync.Mutex
	fx  []string
	fxc []string
}

func (l *fxLog) add(s string, ctx context.Context) {
	l.mu.Lock()
	l.fx = append(l.fx, s)
	if ctx != nil {
		l.fxc = append(l.fxc, renderCtx(ctx))
	}
	l.mu.Unlock()
}

// tapOps: Go function name -> operator built over a log
var tapOps = map[string]func(l *fxLog) intOp{
	"Tap": func(l *fxLog) intOp {
		return ro.Tap(func(v int) { l.add("N"+strconv.Itoa(v), nil) }, func(err error) { l.add("E"+renderErr(err), nil) }, func() { l.add("C", nil) })
	},
	"TapWithContext": func(l *fxLog) intOp {
		return ro.TapWithContext(func(c context.Context, v int) { l.add("N"+strconv.Itoa(v), c) }, func(c context.Context, err error) { l.add("E"+renderErr(err), c) }, func(c context.Context) { l.add("C", c) })
	},
	"Do": func(l *fxLog) intOp {
		return ro.Do(func(v int) { l.add("N"+strconv.Itoa(v), nil) }, func(err error) { l.add("E"+renderErr(err), nil) }, func() { l.add("C", nil) })
	},
	"DoWithContext": func(l *fxLog) intOp {
		return ro.DoWithContext(func(c context.Context, v int) { l.add("N"+strconv.Itoa(v), c) }, func(c context.Context, err error) { l.add("E"+renderErr(err), c) }, func(c context.Context) { l.add("C", c) })
	},
	"TapOnNext": func(l *fxLog) intOp { return ro.TapOnNext(func(v int) { l.add("N"+strconv.Itoa(v), nil) }) },
	"TapOnNextWithContext": func(l *fxLog) intOp {
		return ro.TapOnNextWithContext(func(c context.Context, v int) { l.add("N"+strconv.Itoa(v), c) })
	},
	"DoOnNext": func(l *fxLog) intOp { return ro.DoOnNext(func(v int) { l.add("N"+strconv.Itoa(v), nil) }) },
	"DoOnNextWithContext": func(l *fxLog) intOp {
		return ro.DoOnNextWithContext(func(c context.Context, v int) { l.add("N"+strconv.Itoa(v), c) })
	},
	"TapOnError": func(l *fxLog) intOp { return ro.TapOnError[int](func(err error) { l.add("E"+renderErr(err), nil) }) },
	"TapOnErrorWithContext": func(l *fxLog) intOp {
		return ro.TapOnErrorWithContext[int](func(c context.Context, err error) { l.add("E"+renderErr(err), c) })
	},
	"DoOnError": func(l *fxLog) intOp { return ro.DoOnError[int](func(err error) { l.add("E"+renderErr(err), nil) }) },
	"DoOnErrorWithContext": func(l *fxLog) intOp {
		return ro.DoOnErrorWithContext[int](func(c context.Context, err error) { l.add("E"+renderErr(err), c) })
	},
	"TapOnComplete": func(l *fxLog) intOp { return ro.TapOnComplete[int](func() { l.add("C", nil) }) },
	"TapOnCompleteWithContext": func(l *fxLog) intOp {
		return ro.TapOnCompleteWithContext[int](func(c context.Context) { l.add("C", c) })
	},
	"DoOnComplete": func(l *fxLog) intOp { return ro.DoOnComplete[int](func() { l.add("C", nil) }) },
	"DoOnCompleteWithContext": func(l *fxLog) intOp {
		return ro.DoOnCompleteWithContext[int](func(c context.Context) { l.add("C", c) })
	},
	"TapOnSubscribe": func(l *fxLog) intOp { return ro.TapOnSubscribe[int](func() { l.add("S", nil) }) },
	"TapOnSubscribeWithContext": func(l *fxLog) intOp {
		return ro.TapOnSubscribeWithContext[int](func(c context.Context) { l.add("S", c) })
	},
	"DoOnSubscribe": func(l *fxLog) intOp { return ro.DoOnSubscribe[int](func() { l.add("S", nil) }) },
	"DoOnSubscribeWithContext": func(l *fxLog) intOp {
		return ro.DoOnSubscribeWithContext[int](func(c context.Context) { l.add("S", c) })
	},
	"TapOnFinalize": func(l *fxLog) intOp { return ro.TapOnFinalize[int](func() { l.add("F", nil) }) },
	"DoOnFinalize":  func(l *fxLog) intOp { return ro.DoOnFinalize[int](func() { l.add("F", nil) }) },
}

func tapOpNames() []string {
	return []string{"Tap", "TapWithContext", "Do", "DoWithContext", "TapOnNext", "TapOnNextWithContext", "DoOnNext", "DoOnNextWithContext",
		"TapOnError", "TapOnErrorWithContext", "DoOnError", "DoOnErrorWithContext", "TapOnComplete", "TapOnCompleteWithContext",
		"DoOnComplete", "DoOnCompleteWithContext", "TapOnSubscribe", "TapOnSubscribeWithContext", "DoOnSubscribe", "DoOnSubscribeWithContext",
		"TapOnFinalize", "DoOnFinalize"}
}

func runTapCase(c *Case) string {
	mk, ok := tapOps[c.get("op", "?")]
	if !ok {
		return "res " + c.id + " unsupported"
	}
	script, err := parseScript(c.get("src", "-"))
	if err != nil {
		return "res " + c.id + " bad-script"
	}
	mode := c.get("mode", "sync")
	cut := -1
	if s := c.get("cut", "-"); s != "-" {
		cut, _ = strconv.Atoi(s)
	}
	subCtx := ctxFromMarks(parseInts(strings.ReplaceAll(c.get("sub", "-"), ".", ",")))
	rec := &Recorder{}
	setRecorder(rec)
	defer setRecorder(nil)
	log := &fxLog{}
	probe := &Probe{script: script, sync: mode == "sync"}
	sub := mk(log)(probe.Observable()).SubscribeWithContext(subCtx, observer[int](rec))
	if mode != "sync" {
		for i := range script {
			if i == cut {
				sub.Unsubscribe()
			}
			probe.push(i)
		}
		if cut >= len(script) {
			sub.Unsubscribe()
		}
	}
	return fmt.Sprintf("res %s trace=%s fx=%s fxc=%s", c.id, joinOrDash(rec.trace), joinOrDash(log.fx), joinOrDash(log.fxc))
}

func genTaps(tier string, seed int64, only string) []*Case {
	r := rand.New(rand.NewSource(seed*31 + 5))
	lists := valueLists(2)
	extra := 6
	if tier == "thorough" {
		lists = valueLists(3)
		extra = 30
	}
	for i := 0; i < extra; i++ {
		lists = append(lists, randomList(r, 3+r.Intn(6)))
	}
	var cases []*Case
	id := 0
	for _, name := range tapOpNames() {
		if only != "" && name != only {
			continue
		}
		for _, vals := range lists {
			for _, script := range scriptsFor(vals, true) {
				for _, mode := range []string{"sync", "hot"} {
					cut := "-"
					if mode == "hot" && r.Intn(2) == 0 {
						cut = strconv.Itoa(r.Intn(len(script) + 1))
					}
					id++
					cases = append(cases, newCase(id, "kind", "tap", "op", name, "mode", mode, "cut", cut, "sub", "7", "src", scriptString(script)))
				}
			}
		}
	}
	return cases
}

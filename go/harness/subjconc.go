package main

// Concurrent histories of subjects (property C10) — SEARCH / VALIDATION, not proof: the theorem is
// the atomicity meta-theorem (lean/RoProofs/Atomic.lean, RoProps/C10.lean subjects_linearizable).
//
// kind=subjconc: 2–4 goroutines run operation lists against one real subject; every call is
//   stamped before and after with a global logical clock; per-subscriber traces are recorded.
//     case <id> kind=subjconc op=<kind> p=<p> pre=N1,S0 thr=S1.N2.U1|N3.C|U0 seed=<n>
//     res <id> hist=<tok>:<opid>:<call>:<ret>,… r0=<trace> r1=<trace> r2=<trace>
//   (operation ids: prefix first, then thread by thread; the context of an operation carries 7.<opid>).
//   The check turns each result into a `kind=subjlin` case for the Lean driver, which searches a
//   linearization with the executable model (Drivers/SubjLin.lean).
//
// kind=subjsched: two scripted schedules, forced with blocking subscriber callbacks (no hooks):
//   scen=uu    publish-like subjects: both subscribers unsubscribe, one after the other, while one
//              Next is in the middle of its broadcast (Unsubscribe does not take s.mu)
//   scen=lost  unicast: a Next that has captured the observer delivers after the observer left
//
// kind=subjlin (Go side): a recorded history is, by construction, what the implementation did; the
//   Go answer is the claim "linearizable" (`lin=ok`), the Lean driver's answer is the verdict.

import (
	"context"
	"fmt"
	"math/rand"
	"runtime"
	"sort"
	"strconv"
	"strings"
	"sync"
	"sync/atomic"
	"time"

	"github.com/samber/ro"
)

func init() {
	registerKind("subjconc", genSubjConc, "subjconc", runSubjConc)
	registerKind("subjsched", genSubjSched, "subjsched", runSubjSched)
	registerKind("", nil, "subjlin", func(c *Case) string { return "res " + c.id + " lin=ok" })
}

type histOp struct {
	op        subjOp
	id        int
	call, ret int64
}

func histString(h []histOp) string {
	if len(h) == 0 {
		return "-"
	}
	sort.Slice(h, func(i, j int) bool { return h[i].id < h[j].id })
	parts := make([]string, len(h))
	for i, o := range h {
		parts[i] = fmt.Sprintf("%s:%d:%d:%d", o.op.String(), o.id, o.call, o.ret)
	}
	return strings.Join(parts, ",")
}

func parseThreads(s string) ([][]subjOp, bool) {
	if s == "-" || s == "" {
		return nil, true
	}
	var out [][]subjOp
	for _, t := range strings.Split(s, "|") {
		ops, ok := parseSubjOps(strings.ReplaceAll(t, ".", ","))
		if !ok {
			return nil, false
		}
		out = append(out, ops)
	}
	return out, true
}

func threadsString(thr [][]subjOp) string {
	parts := make([]string, len(thr))
	for i, t := range thr {
		parts[i] = strings.ReplaceAll(subjOpsString(t), ",", ".")
	}
	return strings.Join(parts, "|")
}

func runSubjConc(c *Case) string {
	subject, ok := newSubjectOf(c.get("op", "?"), parseInts(c.get("p", "-")))
	if !ok {
		return "res " + c.id + " unsupported"
	}
	pre, ok1 := parseSubjOps(c.get("pre", "-"))
	thr, ok2 := parseThreads(c.get("thr", "-"))
	if !ok1 || !ok2 {
		return "res " + c.id + " bad-script"
	}
	seed, _ := strconv.ParseInt(c.get("seed", "1"), 10, 64)
	setRecorder(&Recorder{})
	defer setRecorder(nil)
	cl := newSubjClient(subject, subjectIDs)
	var yields int64
	cl.afterNext = func() { // widen the critical sections a little: every other delivery yields the processor
		if atomic.AddInt64(&yields, 1)%2 == 0 {
			runtime.Gosched()
		}
	}
	var clk int64
	var hist []histOp
	id := 0
	for _, o := range pre {
		id++
		call := atomic.AddInt64(&clk, 1)
		cl.apply(o, id)
		hist = append(hist, histOp{o, id, call, atomic.AddInt64(&clk, 1)})
	}
	start := make(chan struct{})
	var wg sync.WaitGroup
	var mu sync.Mutex
	for ti, ops := range thr {
		base := id
		id += len(ops)
		wg.Add(1)
		go func(ti int, ops []subjOp, base int) {
			defer wg.Done()
			r := rand.New(rand.NewSource(seed*31 + int64(ti)))
			local := make([]histOp, 0, len(ops))
			<-start
			for k, o := range ops {
				if r.Intn(3) == 0 {
					runtime.Gosched()
				}
				call := atomic.AddInt64(&clk, 1)
				cl.apply(o, base+k+1)
				local = append(local, histOp{o, base + k + 1, call, atomic.AddInt64(&clk, 1)})
			}
			mu.Lock()
			hist = append(hist, local...)
			mu.Unlock()
		}(ti, ops, base)
	}
	close(start)
	wg.Wait()
	return fmt.Sprintf("res %s hist=%s %s", c.id, histString(hist), cl.traces())
}

// ---------- generation of concurrent cases ----------

// every identity is subscribed at most once overall; U<i> sits after S<i> in the same thread, or
// anywhere when S<i> is in the prefix (the subscription handle is then visible to every thread)
func genSubjConc(tier string, seed int64, only string) []*Case {
	r := rand.New(rand.NewSource(seed*7919 + 17))
	per := 120
	if tier == "thorough" {
		per = 2500
	}
	var cases []*Case
	id := 0
	for _, cfg := range subjConfigs("quick") {
		if only != "" && cfg.op != only {
			continue
		}
		for n := 0; n < per; n++ {
			val := 0
			next := func() subjOp { val++; return subjOp{'N', val} }
			var pre []subjOp
			subscribedInPre := map[int]bool{}
			used := map[int]bool{}
			for k := r.Intn(3); k > 0; k-- {
				switch r.Intn(3) {
				case 0:
					pre = append(pre, next())
				default:
					i := r.Intn(subjectIDs)
					if !used[i] {
						used[i] = true
						subscribedInPre[i] = true
						pre = append(pre, subjOp{'S', i})
					}
				}
			}
			nthr := 2 + r.Intn(3)
			total := 3 + r.Intn(6) // 3..8 concurrent operations
			thr := make([][]subjOp, nthr)
			subbedHere := make([]map[int]bool, nthr)
			for t := range subbedHere {
				subbedHere[t] = map[int]bool{}
			}
			terminals := 0
			for k := 0; k < total; k++ {
				t := r.Intn(nthr)
				var o subjOp
				switch x := r.Intn(10); {
				case x < 4:
					o = next()
				case x < 5 && terminals < 2:
					terminals++
					if r.Intn(2) == 0 {
						o = subjOp{'C', 0}
					} else {
						o = subjOp{'E', 1}
					}
				case x < 8:
					i := r.Intn(subjectIDs)
					if used[i] {
						o = next()
					} else {
						used[i] = true
						subbedHere[t][i] = true
						o = subjOp{'S', i}
					}
				default:
					i := r.Intn(subjectIDs)
					if subscribedInPre[i] || subbedHere[t][i] {
						o = subjOp{'U', i}
					} else {
						o = next()
					}
				}
				thr[t] = append(thr[t], o)
			}
			var nonEmpty [][]subjOp
			for _, t := range thr {
				if len(t) > 0 {
					nonEmpty = append(nonEmpty, t)
				}
			}
			if len(nonEmpty) < 2 {
				continue
			}
			id++
			cases = append(cases, newCase(id, "kind", "subjconc", "op", cfg.op, "p", cfg.p, "pre", subjOpsString(pre),
				"thr", threadsString(nonEmpty), "seed", strconv.FormatInt(seed*1000+int64(n), 10)))
		}
	}
	return cases
}

// ---------- scripted schedules ----------

func genSubjSched(tier string, seed int64, only string) []*Case {
	var cases []*Case
	id := 0
	for _, cfg := range []subjConfig{{"publish", "-"}, {"behavior", "9"}, {"replay", "2"}} {
		id++
		cases = append(cases, newCase(id, "kind", "subjsched", "scen", "uu", "op", cfg.op, "p", cfg.p))
	}
	id++
	cases = append(cases, newCase(id, "kind", "subjsched", "scen", "uuasync", "op", "async", "p", "-"))
	for _, p := range []string{"-1", "2"} {
		id++
		cases = append(cases, newCase(id, "kind", "subjsched", "scen", "lost", "op", "unicast", "p", p))
	}
	for _, p := range []string{"-1", "2"} {
		id++
		cases = append(cases, newCase(id, "kind", "subjsched", "scen", "midunsub", "op", "unicast", "p", p))
	}
	return cases
}

type stamper struct {
	clk  int64
	mu   sync.Mutex
	hist []histOp
}

func (s *stamper) do(o subjOp, id int, f func()) {
	call := atomic.AddInt64(&s.clk, 1)
	f()
	ret := atomic.AddInt64(&s.clk, 1)
	s.mu.Lock()
	s.hist = append(s.hist, histOp{o, id, call, ret})
	s.mu.Unlock()
}

func runSubjSched(c *Case) string {
	switch c.get("scen", "?") {
	case "uu":
		// the broadcast order of sync.Map.Range is not specified: repeat until subscriber 0 is
		// the one visited first, so that the reported history is canonical
		for attempt := 0; attempt < 200; attempt++ {
			if res, ok := schedUU(c); ok {
				return res
			}
		}
		return "res " + c.id + " not-reproduced"
	case "uuasync":
		return schedUUAsync(c)
	case "lost":
		return schedLost(c)
	case "midunsub":
		return schedMidUnsub(c)
	}
	return "res " + c.id + " unsupported"
}

// blockingObserver records like `observer`, and its first Next parks until released
type gate struct {
	entered chan int
	release chan struct{}
	armed   int32
}

func schedUU(c *Case) (string, bool) {
	subject, ok := newSubjectOf(c.get("op", "?"), parseInts(c.get("p", "-")))
	if !ok || c.get("op", "") == "unicast" || c.get("op", "") == "async" {
		return "res " + c.id + " unsupported", true
	}
	setRecorder(&Recorder{})
	defer setRecorder(nil)
	cl := newSubjClient(subject, subjectIDs)
	g := &gate{entered: make(chan int, 2), release: make(chan struct{})}
	st := &stamper{}
	mk := func(i int) {
		rec := cl.recs[i]
		obs := roObserverBlocking(rec, func() {
			if atomic.LoadInt32(&g.armed) == 1 && atomic.CompareAndSwapInt32(&g.armed, 1, 2) {
				g.entered <- i
				<-g.release
			}
		})
		ctx := withMark(withMark(ctxFromMarks(nil), 7), i+1)
		st.do(subjOp{'S', i}, i+1, func() { cl.subs[i] = subject.SubscribeWithContext(ctx, obs) })
	}
	mk(0)
	mk(1)
	atomic.StoreInt32(&g.armed, 1) // replayed values (behavior / replay) came before: only the broadcast parks
	done := make(chan struct{})
	go func() {
		st.do(subjOp{'N', 5}, 3, func() { subject.NextWithContext(withMark(withMark(ctxFromMarks(nil), 7), 3), 5) })
		close(done)
	}()
	var first int
	select {
	case first = <-g.entered:
	case <-time.After(5 * time.Second):
		return "res " + c.id + " harness-timeout", true
	}
	if first != 0 {
		close(g.release)
		<-done
		return "", false
	}
	unsubbed := make(chan struct{})
	go func() {
		st.do(subjOp{'U', 0}, 4, func() { cl.subs[0].Unsubscribe() })
		st.do(subjOp{'U', 1}, 5, func() { cl.subs[1].Unsubscribe() })
		close(unsubbed)
	}()
	select {
	case <-unsubbed:
	case <-time.After(3 * time.Second):
		// Unsubscribe waits for the broadcast in progress: this schedule cannot be forced
		close(g.release)
		<-done
		<-unsubbed
		return "res " + c.id + " schedule-impossible=unsubscribe-waits-for-broadcast", true
	}
	close(g.release)
	<-done
	return fmt.Sprintf("res %s hist=%s %s", c.id, histString(st.hist), cl.traces()), true
}

// async: Complete broadcasts the stored value, then the completion; the subscriber unsubscribes
// (from another goroutine) while it is handling the value: it gets the value and no completion
func schedUUAsync(c *Case) string {
	subject, ok := newSubjectOf("async", nil)
	if !ok {
		return "res " + c.id + " unsupported"
	}
	setRecorder(&Recorder{})
	defer setRecorder(nil)
	cl := newSubjClient(subject, subjectIDs)
	g := &gate{entered: make(chan int, 2), release: make(chan struct{}), armed: 1}
	st := &stamper{}
	obs := roObserverBlocking(cl.recs[0], func() {
		if atomic.CompareAndSwapInt32(&g.armed, 1, 2) {
			g.entered <- 0
			<-g.release
		}
	})
	mark := func(k int) contextT { return withMark(withMark(ctxFromMarks(nil), 7), k) }
	st.do(subjOp{'S', 0}, 1, func() { cl.subs[0] = subject.SubscribeWithContext(mark(1), obs) })
	st.do(subjOp{'N', 1}, 2, func() { subject.NextWithContext(mark(2), 1) })
	done := make(chan struct{})
	go func() {
		st.do(subjOp{'C', 0}, 3, func() { subject.CompleteWithContext(mark(3)) })
		close(done)
	}()
	select {
	case <-g.entered:
	case <-time.After(5 * time.Second):
		return "res " + c.id + " harness-timeout"
	}
	unsubbed := make(chan struct{})
	go func() {
		st.do(subjOp{'U', 0}, 4, func() { cl.subs[0].Unsubscribe() })
		close(unsubbed)
	}()
	select {
	case <-unsubbed:
	case <-time.After(3 * time.Second):
		close(g.release)
		<-done
		<-unsubbed
		return "res " + c.id + " schedule-impossible=unsubscribe-waits-for-broadcast"
	}
	close(g.release)
	<-done
	return fmt.Sprintf("res %s hist=%s %s", c.id, histString(st.hist), cl.traces())
}

// goroutineBlockedInSubscriberLock: some goroutine is parked in sync.Mutex.Lock called from
// subscriberImpl.NextWithContext (read off the runtime's stack dump; a deadline guards it)
func goroutineBlockedInSubscriberLock() bool {
	buf := make([]byte, 1<<18)
	n := runtime.Stack(buf, true)
	for _, g := range strings.Split(string(buf[:n]), "\n\n") {
		head := g
		if i := strings.IndexByte(g, '\n'); i >= 0 {
			head = g[:i]
		}
		if (strings.Contains(head, "sync.Mutex.Lock") || strings.Contains(head, "semacquire")) &&
			strings.Contains(g, "subscriberImpl") && strings.Contains(g, ".NextWithContext") &&
			strings.Contains(g, "unicastSubjectImpl") {
			return true
		}
	}
	return false
}

func schedLost(c *Case) string {
	subject, ok := newSubjectOf("unicast", parseInts(c.get("p", "-1")))
	if !ok {
		return "res " + c.id + " unsupported"
	}
	drops := &Recorder{}
	setRecorder(drops)
	defer setRecorder(nil)
	cl := newSubjClient(subject, subjectIDs)
	g := &gate{entered: make(chan int, 2), release: make(chan struct{}), armed: 1}
	st := &stamper{}
	obs := roObserverBlocking(cl.recs[0], func() {
		if atomic.CompareAndSwapInt32(&g.armed, 1, 2) {
			g.entered <- 0
			<-g.release
		}
	})
	mark := func(k int) contextT { return withMark(withMark(ctxFromMarks(nil), 7), k) }
	st.do(subjOp{'S', 0}, 1, func() { cl.subs[0] = subject.SubscribeWithContext(mark(1), obs) })
	d1, d2 := make(chan struct{}), make(chan struct{})
	go func() { // its delivery parks inside subscriber 0's callback (holding the subscriber's lock, not s.mu)
		st.do(subjOp{'N', 1}, 2, func() { subject.NextWithContext(mark(2), 1) })
		close(d1)
	}()
	select {
	case <-g.entered:
	case <-time.After(5 * time.Second):
		return "res " + c.id + " harness-timeout"
	}
	go func() { // captures the observer under s.mu, then waits for the subscriber's lock
		st.do(subjOp{'N', 2}, 3, func() { subject.NextWithContext(mark(3), 2) })
		close(d2)
	}()
	deadline := time.Now().Add(5 * time.Second)
	for !goroutineBlockedInSubscriberLock() {
		if time.Now().After(deadline) {
			close(g.release)
			return "res " + c.id + " harness-timeout"
		}
		runtime.Gosched()
	}
	st.do(subjOp{'U', 0}, 4, func() { cl.subs[0].Unsubscribe() })
	close(g.release)
	<-d1
	<-d2
	// the two Next calls return concurrently (no call is stamped between the two returns, so the
	// real-time precedence relation does not depend on which came first): report them in a fixed order
	st.mu.Lock()
	var n1, n2 *histOp
	for k := range st.hist {
		switch st.hist[k].id {
		case 2:
			n1 = &st.hist[k]
		case 3:
			n2 = &st.hist[k]
		}
	}
	if n1 != nil && n2 != nil && n1.ret > n2.ret {
		n1.ret, n2.ret = n2.ret, n1.ret
	}
	st.mu.Unlock()
	st.do(subjOp{'S', 1}, 5, func() { cl.apply(subjOp{'S', 1}, 5) })
	return fmt.Sprintf("res %s hist=%s %s drops=%s", c.id, histString(st.hist), cl.traces(), joinOrDash(drops.drops))
}

// unicast: a Subscribe that arrives while the Unsubscribe of the current subscriber is IN FLIGHT. Subscriber 0 is a
// Subscriber that carries a teardown of its own (registered before it subscribes, so it runs before the one the subject
// installs): that teardown parks the unsubscribing goroutine after the subscriber has been marked closed and before the
// subject has forgotten it. Subscriber 1 subscribes in that window; then the Unsubscribe finishes, two values are
// published and subscriber 2 subscribes. Either order of the two overlapping calls is fine — rejected newcomer, or
// admitted newcomer that then receives the two values — the recorded history is judged by the linearizability search.
func schedMidUnsub(c *Case) string {
	subject, ok := newSubjectOf("unicast", parseInts(c.get("p", "-1")))
	if !ok {
		return "res " + c.id + " unsupported"
	}
	drops := &Recorder{}
	setRecorder(drops)
	defer setRecorder(nil)
	cl := newSubjClient(subject, subjectIDs)
	st := &stamper{}
	mark := func(k int) contextT { return withMark(withMark(ctxFromMarks(nil), 7), k) }
	entered, gate := make(chan struct{}), make(chan struct{})
	first := ro.NewSubscriber[int](observer[int](cl.recs[0]))
	first.Add(func() {
		close(entered)
		select {
		case <-gate:
		case <-time.After(3 * time.Second):
		}
	})
	st.do(subjOp{'S', 0}, 1, func() { cl.subs[0] = subject.SubscribeWithContext(mark(1), first) })
	unsubbed := make(chan struct{})
	go func() {
		st.do(subjOp{'U', 0}, 2, func() { first.Unsubscribe() })
		close(unsubbed)
	}()
	select {
	case <-entered:
	case <-time.After(5 * time.Second):
		close(gate)
		return "res " + c.id + " harness-timeout"
	}
	st.do(subjOp{'S', 1}, 3, func() { cl.apply(subjOp{'S', 1}, 3) })
	close(gate)
	select {
	case <-unsubbed:
	case <-time.After(5 * time.Second):
		return "res " + c.id + " harness-timeout"
	}
	st.do(subjOp{'N', 1}, 4, func() { cl.apply(subjOp{'N', 1}, 4) })
	st.do(subjOp{'N', 2}, 5, func() { cl.apply(subjOp{'N', 2}, 5) })
	st.do(subjOp{'S', 2}, 6, func() { cl.apply(subjOp{'S', 2}, 6) })
	return fmt.Sprintf("res %s hist=%s %s drops=%s", c.id, histString(st.hist), cl.traces(), joinOrDash(drops.drops))
}

type contextT = context.Context

// roObserverBlocking records like `observer`; `afterNext` runs inside the Next callback, after recording
func roObserverBlocking(r *Recorder, afterNext func()) ro.Observer[int] {
	return ro.NewObserverWithContext(
		func(ctx context.Context, v int) { r.add("N" + renderVal(v) + "/" + renderCtx(ctx)); afterNext() },
		func(ctx context.Context, err error) { r.add("E" + renderErr(err) + "/" + renderCtx(ctx)) },
		func(ctx context.Context) { r.add("C/" + renderCtx(ctx)) },
	)
}

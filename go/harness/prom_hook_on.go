//go:build verif && promhook

package main

// Compiled only when the repository under check carries the licence hook
// (repo_hooks/prometheus_license.patch: ee/plugins/prometheus/verif_license.go, build tag verif).
// tools/runner.py tries the build with the extra tag `promhook` first and falls back to the
// build without it, in which case kind=prom covers the licence-off half only.

import roprometheus "github.com/samber/ro/ee/plugins/prometheus"

func init() { promSetBypass = roprometheus.VerifSetLicenseBypass }

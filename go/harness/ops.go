package main

// Registry of single-source operators of the core catalogue, instantiated at int with the
// named callback library. Each entry says how to build the real operator for a parameter
// list / variant / callback list and what to enumerate for it.

import (
	"context"
	"fmt"
	"sync"

	"github.com/samber/ro"
)

type attachFn func(ctx context.Context, rec *Recorder) ro.Subscription

// lastAttached is the observable handed to the most recent attach call: it lets other case
// kinds (random chains, kind=prom) reuse a buildFn as a plain operator (see specOperator).
var lastAttached any
var attachMu sync.Mutex

func attach[T any](obs ro.Observable[T]) attachFn {
	lastAttached = obs
	return func(ctx context.Context, rec *Recorder) ro.Subscription {
		return obs.SubscribeWithContext(ctx, observer[T](rec))
	}
}

type buildFn func(p []int, variant string, cbs []Cb, src ro.Observable[int]) (attachFn, error)

// an operator value applied to a source: how to subscribe a recorder to the result, and the
// resulting observable itself (typed ro.Observable[int] for the chainable operators)
type applied struct {
	sub attachFn
	obs any
}
type applyFn func(src ro.Observable[int]) applied

// mkFn builds the operator VALUE once (it may then be applied to several sources: C12)
type mkFn func(p []int, variant string, cbs []Cb) (applyFn, error)

func opValue[R any](opv func(ro.Observable[int]) ro.Observable[R]) applyFn {
	return func(src ro.Observable[int]) applied {
		o := opv(src)
		return applied{attach(o), o}
	}
}

type OpSpec struct {
	name     string
	variants []string // "plain", "i", "ctx", "ictx"
	params   [][]int  // parameter lists to enumerate
	cbKind   string   // "", "proj", "pred", "boolpred", "red", "key"
	mk       mkFn
	chain    bool    // int -> int, usable inside random chains
	build    buildFn // derived from mk (kept for callers that apply at once)
}

var v4 = []string{"plain", "i", "ctx", "ictx"}
var v1 = []string{"plain"}

type intOp = func(ro.Observable[int]) ro.Observable[int]

func errArity(name string) error { return fmt.Errorf("%s: bad parameters/callbacks", name) }

// ---- helpers building the four variants from the four real functions ----

func predOp[R any](
	plain func(func(int) bool) func(ro.Observable[int]) ro.Observable[R],
	i func(func(int, int64) bool) func(ro.Observable[int]) ro.Observable[R],
	c func(func(context.Context, int) (context.Context, bool)) func(ro.Observable[int]) ro.Observable[R],
	ic func(func(context.Context, int, int64) (context.Context, bool)) func(ro.Observable[int]) ro.Observable[R],
) mkFn {
	return func(p []int, variant string, cbs []Cb) (applyFn, error) {
		if len(cbs) != 1 || len(p) != 0 {
			return nil, errArity("pred")
		}
		cb := cbs[0]
		switch variant {
		case "plain":
			f, ok := predU[cb.name]
			if !ok {
				return nil, errArity(cb.name)
			}
			return opValue(plain(f)), nil
		case "i":
			f, ok := predI[cb.name]
			if !ok {
				return nil, errArity(cb.name)
			}
			return opValue(i(f)), nil
		case "ctx":
			f, ok := predU[cb.name]
			if !ok {
				return nil, errArity(cb.name)
			}
			return opValue(c(func(ctx context.Context, v int) (context.Context, bool) { return tagCtx(ctx, cb.tag), f(v) })), nil
		case "ictx":
			f, ok := predI[cb.name]
			if !ok {
				return nil, errArity(cb.name)
			}
			return opValue(ic(func(ctx context.Context, v int, i int64) (context.Context, bool) { return tagCtx(ctx, cb.tag), f(v, i) })), nil
		}
		return nil, errArity(variant)
	}
}

// All / Contains / Find: context-aware predicates return only the bool
func boolPredOp[R any](
	plain func(func(int) bool) func(ro.Observable[int]) ro.Observable[R],
	i func(func(int, int64) bool) func(ro.Observable[int]) ro.Observable[R],
	c func(func(context.Context, int) bool) func(ro.Observable[int]) ro.Observable[R],
	ic func(func(context.Context, int, int64) bool) func(ro.Observable[int]) ro.Observable[R],
) mkFn {
	return func(p []int, variant string, cbs []Cb) (applyFn, error) {
		if len(cbs) != 1 || len(p) != 0 {
			return nil, errArity("boolpred")
		}
		cb := cbs[0]
		if hasI(variant) {
			f, ok := predI[cb.name]
			if !ok {
				return nil, errArity(cb.name)
			}
			if variant == "i" {
				return opValue(i(f)), nil
			}
			return opValue(ic(func(ctx context.Context, v int, i int64) bool { return f(v, i) })), nil
		}
		f, ok := predU[cb.name]
		if !ok {
			return nil, errArity(cb.name)
		}
		if variant == "plain" {
			return opValue(plain(f)), nil
		}
		return opValue(c(func(ctx context.Context, v int) bool { return f(v) })), nil
	}
}

func redOp(
	plain func(func(int, int) int, int) intOp,
	i func(func(int, int, int64) int, int) intOp,
	c func(func(context.Context, int, int) (context.Context, int), int) intOp,
	ic func(func(context.Context, int, int, int64) (context.Context, int), int) intOp,
) mkFn {
	return func(p []int, variant string, cbs []Cb) (applyFn, error) {
		if len(cbs) != 1 || len(p) != 1 {
			return nil, errArity("red")
		}
		cb, seed := cbs[0], p[0]
		if hasI(variant) {
			f, ok := redI[cb.name]
			if !ok {
				return nil, errArity(cb.name)
			}
			if variant == "i" {
				return opValue(i(f, seed)), nil
			}
			return opValue(ic(func(ctx context.Context, a, v int, i int64) (context.Context, int) {
				return tagCtx(ctx, cb.tag), f(a, v, i)
			}, seed)), nil
		}
		f, ok := red[cb.name]
		if !ok {
			return nil, errArity(cb.name)
		}
		if variant == "plain" {
			return opValue(plain(f, seed)), nil
		}
		return opValue(c(func(ctx context.Context, a, v int) (context.Context, int) { return tagCtx(ctx, cb.tag), f(a, v) }, seed)), nil
	}
}

func simple[R any](arity int, mk func(p []int) func(ro.Observable[int]) ro.Observable[R]) mkFn {
	return func(p []int, variant string, cbs []Cb) (applyFn, error) {
		if (arity >= 0 && len(p) != arity) || len(cbs) != 0 || variant != "plain" {
			return nil, errArity("simple")
		}
		return opValue(mk(p)), nil
	}
}

func buildMap(p []int, variant string, cbs []Cb) (applyFn, error) {
	if len(cbs) != 1 || len(p) != 0 {
		return nil, errArity("Map")
	}
	cb := cbs[0]
	if hasI(variant) {
		f, ok := unaryI[cb.name]
		if !ok {
			return nil, errArity(cb.name)
		}
		if variant == "i" {
			return opValue(ro.MapI(f)), nil
		}
		return opValue(ro.MapIWithContext(func(ctx context.Context, v int, i int64) (context.Context, int) { return tagCtx(ctx, cb.tag), f(v, i) })), nil
	}
	f, ok := unary[cb.name]
	if !ok {
		return nil, errArity(cb.name)
	}
	if variant == "plain" {
		return opValue(ro.Map(f)), nil
	}
	return opValue(ro.MapWithContext(func(ctx context.Context, v int) (context.Context, int) { return tagCtx(ctx, cb.tag), f(v) })), nil
}

// MapErr with `errOn k`: user error k when the value equals k
func buildMapErr(p []int, variant string, cbs []Cb) (applyFn, error) {
	if len(cbs) != 1 || len(p) != 1 {
		return nil, errArity("MapErr")
	}
	cb, k := cbs[0], p[0]
	errOf := func(v int) error {
		if v == k {
			return userErr{k}
		}
		return nil
	}
	if hasI(variant) {
		f, ok := unaryI[cb.name]
		if !ok {
			return nil, errArity(cb.name)
		}
		if variant == "i" {
			return opValue(ro.MapErrI(func(v int, i int64) (int, error) { return f(v, i), errOf(v) })), nil
		}
		return opValue(ro.MapErrIWithContext(func(ctx context.Context, v int, i int64) (int, context.Context, error) {
			return f(v, i), tagCtx(ctx, cb.tag), errOf(v)
		})), nil
	}
	f, ok := unary[cb.name]
	if !ok {
		return nil, errArity(cb.name)
	}
	if variant == "plain" {
		return opValue(ro.MapErr(func(v int) (int, error) { return f(v), errOf(v) })), nil
	}
	return opValue(ro.MapErrWithContext(func(ctx context.Context, v int) (int, context.Context, error) {
		return f(v), tagCtx(ctx, cb.tag), errOf(v)
	})), nil
}

func buildDistinctBy(p []int, variant string, cbs []Cb) (applyFn, error) {
	if len(cbs) != 1 || len(p) != 0 {
		return nil, errArity("DistinctBy")
	}
	cb := cbs[0]
	f, ok := unary[cb.name]
	if !ok {
		return nil, errArity(cb.name)
	}
	switch variant {
	case "plain":
		return opValue(ro.DistinctBy(f)), nil
	case "ctx":
		return opValue(ro.DistinctByWithContext(func(ctx context.Context, v int) (context.Context, int) { return tagCtx(ctx, cb.tag), f(v) })), nil
	}
	return nil, errArity(variant)
}

func buildToMap(p []int, variant string, cbs []Cb) (applyFn, error) {
	if len(cbs) != 1 || len(p) != 0 {
		return nil, errArity("ToMap")
	}
	f, ok := unary[cbs[0].name]
	if !ok {
		return nil, errArity(cbs[0].name)
	}
	switch variant {
	case "plain":
		return opValue(ro.ToMap(func(v int) (int, int) { return f(v), v })), nil
	case "i":
		return opValue(ro.ToMapI(func(v int, _ int64) (int, int) { return f(v), v })), nil
	case "ctx":
		return opValue(ro.ToMapWithContext(func(_ context.Context, v int) (int, int) { return f(v), v })), nil
	case "ictx":
		return opValue(ro.ToMapIWithContext(func(_ context.Context, v int, _ int64) (int, int) { return f(v), v })), nil
	}
	return nil, errArity(variant)
}

func nop()                           {}
func nopV(int)                       {}
func nopE(error)                     {}
func nopCtx(context.Context)         {}
func nopCtxV(context.Context, int)   {}
func nopCtxE(context.Context, error) {}

var opSpecs []OpSpec

func init() {
	opSpecs = []OpSpec{
		// operator_filter.go
		{"Filter", v4, [][]int{{}}, "pred", predOp(ro.Filter[int], ro.FilterI[int], ro.FilterWithContext[int], ro.FilterIWithContext[int]), true, nil},
		{"Distinct", v1, [][]int{{}}, "", simple(0, func(p []int) intOp { return ro.Distinct[int]() }), true, nil},
		{"DistinctBy", []string{"plain", "ctx"}, [][]int{{}}, "key", buildDistinctBy, true, nil},
		{"IgnoreElements", v1, [][]int{{}}, "", simple(0, func(p []int) intOp { return ro.IgnoreElements[int]() }), true, nil},
		{"Skip", v1, [][]int{{0}, {1}, {2}, {3}, {5}}, "", simple(1, func(p []int) intOp { return ro.Skip[int](int64(p[0])) }), true, nil},
		{"SkipWhile", v4, [][]int{{}}, "pred", predOp(ro.SkipWhile[int], ro.SkipWhileI[int], ro.SkipWhileWithContext[int], ro.SkipWhileIWithContext[int]), true, nil},
		{"SkipLast", v1, [][]int{{1}, {2}, {3}, {5}}, "", simple(1, func(p []int) intOp { return ro.SkipLast[int](p[0]) }), true, nil},
		{"Take", v1, [][]int{{0}, {1}, {2}, {3}, {5}}, "", simple(1, func(p []int) intOp { return ro.Take[int](int64(p[0])) }), true, nil},
		{"TakeWhile", v4, [][]int{{}}, "pred", predOp(ro.TakeWhile[int], ro.TakeWhileI[int], ro.TakeWhileWithContext[int], ro.TakeWhileIWithContext[int]), true, nil},
		{"TakeLast", v1, [][]int{{0}, {1}, {2}, {3}, {5}}, "", simple(1, func(p []int) intOp { return ro.TakeLast[int](p[0]) }), true, nil},
		{"Head", v1, [][]int{{}}, "", simple(0, func(p []int) intOp { return ro.Head[int]() }), true, nil},
		{"Tail", v1, [][]int{{}}, "", simple(0, func(p []int) intOp { return ro.Tail[int]() }), true, nil},
		{"First", v4, [][]int{{}}, "pred", predOp(ro.First[int], ro.FirstI[int], ro.FirstWithContext[int], ro.FirstIWithContext[int]), true, nil},
		{"Last", v4, [][]int{{}}, "pred", predOp(ro.Last[int], ro.LastI[int], ro.LastWithContext[int], ro.LastIWithContext[int]), true, nil},
		{"ElementAt", v1, [][]int{{0}, {1}, {2}, {4}}, "", simple(1, func(p []int) intOp { return ro.ElementAt[int](p[0]) }), true, nil},
		{"ElementAtOrDefault", v1, [][]int{{0, 9}, {1, 9}, {2, 9}, {4, 9}}, "", simple(2, func(p []int) intOp { return ro.ElementAtOrDefault(int64(p[0]), p[1]) }), true, nil},
		// operator_transformations.go
		{"Map", v4, [][]int{{}}, "proj", buildMap, true, nil},
		{"MapTo", v1, [][]int{{7}}, "", simple(1, func(p []int) intOp { return ro.MapTo[int](p[0]) }), true, nil},
		{"MapErr", v4, [][]int{{2}, {0}, {8}}, "proj", buildMapErr, true, nil},
		{"Flatten", v1, [][]int{{0}, {1}, {2}}, "", simple(1, func(p []int) intOp {
			k := p[0]
			return func(src ro.Observable[int]) ro.Observable[int] {
				return ro.Flatten[int]()(ro.Map(func(v int) []int {
					out := make([]int, k)
					for j := range out {
						out[j] = v + j
					}
					return out
				})(src))
			}
		}), false, nil},
		{"Scan", v4, [][]int{{0}, {1}}, "red", redOp(ro.Scan[int, int], ro.ScanI[int, int], ro.ScanWithContext[int, int], ro.ScanIWithContext[int, int]), true, nil},
		{"BufferWithCount", v1, [][]int{{1}, {2}, {3}}, "", simple(1, func(p []int) func(ro.Observable[int]) ro.Observable[[]int] { return ro.BufferWithCount[int](p[0]) }), false, nil},
		{"Pairwise", v1, [][]int{{}}, "", simple(0, func(p []int) func(ro.Observable[int]) ro.Observable[[]int] { return ro.Pairwise[int]() }), false, nil},
		{"StartWith", v1, [][]int{{}, {8}, {8, 9}}, "", simple(-1, func(p []int) intOp { return ro.StartWith(p...) }), true, nil},
		{"EndWith", v1, [][]int{{}, {8}, {8, 9}}, "", simple(-1, func(p []int) intOp { return ro.EndWith(p...) }), true, nil},
		{"Tap", v1, [][]int{{}}, "", simple(0, func(p []int) intOp { return ro.Tap(nopV, nopE, nop) }), true, nil},
		{"TapOnSubscribe", v1, [][]int{{}}, "", simple(0, func(p []int) intOp { return ro.TapOnSubscribe[int](nop) }), true, nil},
		{"TapOnFinalize", v1, [][]int{{}}, "", simple(0, func(p []int) intOp { return ro.TapOnFinalize[int](nop) }), true, nil},
		{"Serialize", v1, [][]int{{}}, "", simple(0, func(p []int) intOp { return ro.Serialize[int]() }), true, nil},
		{"OnErrorReturn", v1, [][]int{{9}}, "", simple(1, func(p []int) intOp { return ro.OnErrorReturn(p[0]) }), true, nil},
		{"ThrowIfEmpty", v1, [][]int{{4}}, "", simple(1, func(p []int) intOp {
			return ro.ThrowIfEmpty[int](func() error { return userErr{p[0]} })
		}), true, nil},
		{"Materialize", v1, [][]int{{}}, "", simple(0, func(p []int) func(ro.Observable[int]) ro.Observable[ro.Notification[int]] {
			return ro.Materialize[int]()
		}), false, nil},
		{"MaterializeDematerialize", v1, [][]int{{}}, "", simple(0, func(p []int) intOp {
			return func(src ro.Observable[int]) ro.Observable[int] {
				return ro.Dematerialize[int]()(ro.Materialize[int]()(src))
			}
		}), true, nil},
		{"ToSlice", v1, [][]int{{}}, "", simple(0, func(p []int) func(ro.Observable[int]) ro.Observable[[]int] { return ro.ToSlice[int]() }), false, nil},
		{"ToMap", v4, [][]int{{}}, "key", buildToMap, false, nil},
		// operator_conditional.go / operator_math.go
		{"All", v4, [][]int{{}}, "boolpred", boolPredOp(ro.All[int], ro.AllI[int], ro.AllWithContext[int], ro.AllIWithContext[int]), false, nil},
		{"Contains", v4, [][]int{{}}, "boolpred", boolPredOp(ro.Contains[int], ro.ContainsI[int], ro.ContainsWithContext[int], ro.ContainsIWithContext[int]), false, nil},
		{"Find", v4, [][]int{{}}, "boolpred", boolPredOp(ro.Find[int], ro.FindI[int], ro.FindWithContext[int], ro.FindIWithContext[int]), true, nil},
		{"DefaultIfEmpty", v1, [][]int{{9}}, "", simple(1, func(p []int) intOp { return ro.DefaultIfEmpty(p[0]) }), true, nil},
		{"DefaultIfEmptyWithContext", v1, [][]int{{9, 5}}, "", simple(2, func(p []int) intOp {
			return ro.DefaultIfEmptyWithContext(ctxFromMarks([]int{p[1]}), p[0])
		}), true, nil},
		{"Count", v1, [][]int{{}}, "", simple(0, func(p []int) func(ro.Observable[int]) ro.Observable[int64] { return ro.Count[int]() }), false, nil},
		{"Sum", v1, [][]int{{}}, "", simple(0, func(p []int) intOp { return ro.Sum[int]() }), true, nil},
		{"Min", v1, [][]int{{}}, "", simple(0, func(p []int) intOp { return ro.Min[int]() }), true, nil},
		{"Max", v1, [][]int{{}}, "", simple(0, func(p []int) intOp { return ro.Max[int]() }), true, nil},
		{"Clamp", v1, [][]int{{0, 1}, {-1, 2}, {1, 1}}, "", simple(2, func(p []int) intOp { return ro.Clamp(p[0], p[1]) }), true, nil},
		{"Reduce", v4, [][]int{{0}, {1}}, "red", redOp(ro.Reduce[int, int], ro.ReduceI[int, int], ro.ReduceWithContext[int, int], ro.ReduceIWithContext[int, int]), true, nil},
	}
}

func deriveBuild(specs []OpSpec) {
	for i := range specs {
		mk := specs[i].mk
		specs[i].build = func(p []int, variant string, cbs []Cb, src ro.Observable[int]) (attachFn, error) {
			ap, err := mk(p, variant, cbs)
			if err != nil {
				return nil, err
			}
			return ap(src).sub, nil
		}
	}
}

func init() {
	opSpecs = append(opSpecs, moreOpSpecs()...) // more.go: the operators of lean/RoModel/Ops/More.lean
	extraOpSpecs = append(extraOpSpecs, moreExtraOpSpecs()...)
	deriveBuild(opSpecs)
	deriveBuild(extraOpSpecs)
}

// extraOpSpecs: operators that can be run by name (kind=op replay, the `opsmore` generator of more.go)
// but are NOT enumerated by the generators that walk opSpecs (ops, chains, reuse, cancel): operators whose
// documented behaviour is outside the oracle of a property that shares those runs (ContextReset replaces
// the context by definition, so C09's "subscription marker present" oracle does not apply to it).
var extraOpSpecs []OpSpec

// specOperator turns a `chain: true` (int -> int) entry into the real operator function
// (used by kinds that hand operators to other library functions, e.g. the ee PipeN of kind=prom).
func specOperator(spec *OpSpec, p []int, variant string, cbs []Cb) (intOp, error) {
	if !spec.chain {
		return nil, fmt.Errorf("%s: not an int->int operator", spec.name)
	}
	ap, err := spec.mk(p, variant, cbs)
	if err != nil {
		return nil, err
	}
	return func(src ro.Observable[int]) ro.Observable[int] {
		out, ok := ap(src).obs.(ro.Observable[int])
		if !ok {
			return ro.Throw[int](fmt.Errorf("%s: not an int observable", spec.name))
		}
		return out
	}, nil
}

func findOp(name string) *OpSpec {
	for i := range opSpecs {
		if opSpecs[i].name == name {
			return &opSpecs[i]
		}
	}
	for i := range extraOpSpecs {
		if extraOpSpecs[i].name == name {
			return &extraOpSpecs[i]
		}
	}
	return nil
}

// callback names to enumerate for a callback kind and variant
func cbChoices(kind, variant string) []string {
	switch kind {
	case "proj":
		if hasI(variant) {
			return []string{"addi", "muli"}
		}
		return []string{"dbl", "neg"}
	case "pred":
		if hasI(variant) {
			return []string{"ilt2", "ige1", "veqi"}
		}
		return []string{"even", "pos", "ne2", "T", "F"}
	case "boolpred":
		if hasI(variant) {
			return []string{"ilt2", "veqi"}
		}
		return []string{"even", "pos", "eq2"}
	case "red":
		if hasI(variant) {
			return []string{"addvi", "madi"}
		}
		return []string{"add", "mad"}
	case "key":
		return []string{"mod2", "id", "sq"}
	case "ctag": // ContextMap / ContextMapI: the projection adds marker t (plain) or t+index (i)
		return []string{"ctag+t50", "ctag+t53"}
	}
	return nil
}

package main

// Registry of single-source operators of the core catalogue, instantiated at int with the
// named callback library. Each entry says how to build the real operator for a parameter
// list / variant / callback list and what to enumerate for it.

import (
	"context"
	"fmt"
	"sync"

	"github.com/samber/ro"
)

type attachFn func(ctx context.Context, rec *Recorder) ro.Subscription

// lastAttached is the observable handed to the most recent attach call: it lets other case
// kinds (random chains, kind=prom) reuse a buildFn as a plain operator (see specOperator).
var lastAttached any
var attachMu sync.Mutex

func attach[T any](obs ro.Observable[T]) attachFn {
	lastAttached = obs
	return func(ctx context.Context, rec *Recorder) ro.Subscription {
		return obs.SubscribeWithContext(ctx, observer[T](rec))
	}
}

type buildFn func(p []int, variant string, cbs []Cb, src ro.Observable[int]) (attachFn, error)

type OpSpec struct {
	name     string
	variants []string // "plain", "i", "ctx", "ictx"
	params   [][]int  // parameter lists to enumerate
	cbKind   string   // "", "proj", "pred", "boolpred", "red", "key"
	build    buildFn
	chain    bool // int -> int, usable inside random chains
}

var v4 = []string{"plain", "i", "ctx", "ictx"}
var v1 = []string{"plain"}

type intOp = func(ro.Observable[int]) ro.Observable[int]

func errArity(name string) error { return fmt.Errorf("%s: bad parameters/callbacks", name) }

// ---- helpers building the four variants from the four real functions ----

func predOp[R any](
	plain func(func(int) bool) func(ro.Observable[int]) ro.Observable[R],
	i func(func(int, int64) bool) func(ro.Observable[int]) ro.Observable[R],
	c func(func(context.Context, int) (context.Context, bool)) func(ro.Observable[int]) ro.Observable[R],
	ic func(func(context.Context, int, int64) (context.Context, bool)) func(ro.Observable[int]) ro.Observable[R],
) buildFn {
	return func(p []int, variant string, cbs []Cb, src ro.Observable[int]) (attachFn, error) {
		if len(cbs) != 1 || len(p) != 0 {
			return nil, errArity("pred")
		}
		cb := cbs[0]
		switch variant {
		case "plain":
			f, ok := predU[cb.name]
			if !ok {
				return nil, errArity(cb.name)
			}
			return attach(plain(f)(src)), nil
		case "i":
			f, ok := predI[cb.name]
			if !ok {
				return nil, errArity(cb.name)
			}
			return attach(i(f)(src)), nil
		case "ctx":
			f, ok := predU[cb.name]
			if !ok {
				return nil, errArity(cb.name)
			}
			return attach(c(func(ctx context.Context, v int) (context.Context, bool) { return tagCtx(ctx, cb.tag), f(v) })(src)), nil
		case "ictx":
			f, ok := predI[cb.name]
			if !ok {
				return nil, errArity(cb.name)
			}
			return attach(ic(func(ctx context.Context, v int, i int64) (context.Context, bool) { return tagCtx(ctx, cb.tag), f(v, i) })(src)), nil
		}
		return nil, errArity(variant)
	}
}

// All / Contains / Find: context-aware predicates return only the bool
func boolPredOp[R any](
	plain func(func(int) bool) func(ro.Observable[int]) ro.Observable[R],
	i func(func(int, int64) bool) func(ro.Observable[int]) ro.Observable[R],
	c func(func(context.Context, int) bool) func(ro.Observable[int]) ro.Observable[R],
	ic func(func(context.Context, int, int64) bool) func(ro.Observable[int]) ro.Observable[R],
) buildFn {
	return func(p []int, variant string, cbs []Cb, src ro.Observable[int]) (attachFn, error) {
		if len(cbs) != 1 || len(p) != 0 {
			return nil, errArity("boolpred")
		}
		cb := cbs[0]
		if hasI(variant) {
			f, ok := predI[cb.name]
			if !ok {
				return nil, errArity(cb.name)
			}
			if variant == "i" {
				return attach(i(f)(src)), nil
			}
			return attach(ic(func(ctx context.Context, v int, i int64) bool { return f(v, i) })(src)), nil
		}
		f, ok := predU[cb.name]
		if !ok {
			return nil, errArity(cb.name)
		}
		if variant == "plain" {
			return attach(plain(f)(src)), nil
		}
		return attach(c(func(ctx context.Context, v int) bool { return f(v) })(src)), nil
	}
}

func redOp(
	plain func(func(int, int) int, int) intOp,
	i func(func(int, int, int64) int, int) intOp,
	c func(func(context.Context, int, int) (context.Context, int), int) intOp,
	ic func(func(context.Context, int, int, int64) (context.Context, int), int) intOp,
) buildFn {
	return func(p []int, variant string, cbs []Cb, src ro.Observable[int]) (attachFn, error) {
		if len(cbs) != 1 || len(p) != 1 {
			return nil, errArity("red")
		}
		cb, seed := cbs[0], p[0]
		if hasI(variant) {
			f, ok := redI[cb.name]
			if !ok {
				return nil, errArity(cb.name)
			}
			if variant == "i" {
				return attach(i(f, seed)(src)), nil
			}
			return attach(ic(func(ctx context.Context, a, v int, i int64) (context.Context, int) { return tagCtx(ctx, cb.tag), f(a, v, i) }, seed)(src)), nil
		}
		f, ok := red[cb.name]
		if !ok {
			return nil, errArity(cb.name)
		}
		if variant == "plain" {
			return attach(plain(f, seed)(src)), nil
		}
		return attach(c(func(ctx context.Context, a, v int) (context.Context, int) { return tagCtx(ctx, cb.tag), f(a, v) }, seed)(src)), nil
	}
}

func simple[R any](arity int, mk func(p []int) func(ro.Observable[int]) ro.Observable[R]) buildFn {
	return func(p []int, variant string, cbs []Cb, src ro.Observable[int]) (attachFn, error) {
		if (arity >= 0 && len(p) != arity) || len(cbs) != 0 || variant != "plain" {
			return nil, errArity("simple")
		}
		return attach(mk(p)(src)), nil
	}
}

func buildMap(p []int, variant string, cbs []Cb, src ro.Observable[int]) (attachFn, error) {
	if len(cbs) != 1 || len(p) != 0 {
		return nil, errArity("Map")
	}
	cb := cbs[0]
	if hasI(variant) {
		f, ok := unaryI[cb.name]
		if !ok {
			return nil, errArity(cb.name)
		}
		if variant == "i" {
			return attach(ro.MapI(f)(src)), nil
		}
		return attach(ro.MapIWithContext(func(ctx context.Context, v int, i int64) (context.Context, int) { return tagCtx(ctx, cb.tag), f(v, i) })(src)), nil
	}
	f, ok := unary[cb.name]
	if !ok {
		return nil, errArity(cb.name)
	}
	if variant == "plain" {
		return attach(ro.Map(f)(src)), nil
	}
	return attach(ro.MapWithContext(func(ctx context.Context, v int) (context.Context, int) { return tagCtx(ctx, cb.tag), f(v) })(src)), nil
}

// MapErr with `errOn k`: user error k when the value equals k
func buildMapErr(p []int, variant string, cbs []Cb, src ro.Observable[int]) (attachFn, error) {
	if len(cbs) != 1 || len(p) != 1 {
		return nil, errArity("MapErr")
	}
	cb, k := cbs[0], p[0]
	errOf := func(v int) error {
		if v == k {
			return userErr{k}
		}
		return nil
	}
	if hasI(variant) {
		f, ok := unaryI[cb.name]
		if !ok {
			return nil, errArity(cb.name)
		}
		if variant == "i" {
			return attach(ro.MapErrI(func(v int, i int64) (int, error) { return f(v, i), errOf(v) })(src)), nil
		}
		return attach(ro.MapErrIWithContext(func(ctx context.Context, v int, i int64) (int, context.Context, error) {
			return f(v, i), tagCtx(ctx, cb.tag), errOf(v)
		})(src)), nil
	}
	f, ok := unary[cb.name]
	if !ok {
		return nil, errArity(cb.name)
	}
	if variant == "plain" {
		return attach(ro.MapErr(func(v int) (int, error) { return f(v), errOf(v) })(src)), nil
	}
	return attach(ro.MapErrWithContext(func(ctx context.Context, v int) (int, context.Context, error) {
		return f(v), tagCtx(ctx, cb.tag), errOf(v)
	})(src)), nil
}

func buildDistinctBy(p []int, variant string, cbs []Cb, src ro.Observable[int]) (attachFn, error) {
	if len(cbs) != 1 || len(p) != 0 {
		return nil, errArity("DistinctBy")
	}
	cb := cbs[0]
	f, ok := unary[cb.name]
	if !ok {
		return nil, errArity(cb.name)
	}
	switch variant {
	case "plain":
		return attach(ro.DistinctBy(f)(src)), nil
	case "ctx":
		return attach(ro.DistinctByWithContext(func(ctx context.Context, v int) (context.Context, int) { return tagCtx(ctx, cb.tag), f(v) })(src)), nil
	}
	return nil, errArity(variant)
}

func buildToMap(p []int, variant string, cbs []Cb, src ro.Observable[int]) (attachFn, error) {
	if len(cbs) != 1 || len(p) != 0 {
		return nil, errArity("ToMap")
	}
	f, ok := unary[cbs[0].name]
	if !ok {
		return nil, errArity(cbs[0].name)
	}
	switch variant {
	case "plain":
		return attach(ro.ToMap(func(v int) (int, int) { return f(v), v })(src)), nil
	case "i":
		return attach(ro.ToMapI(func(v int, _ int64) (int, int) { return f(v), v })(src)), nil
	case "ctx":
		return attach(ro.ToMapWithContext(func(_ context.Context, v int) (int, int) { return f(v), v })(src)), nil
	case "ictx":
		return attach(ro.ToMapIWithContext(func(_ context.Context, v int, _ int64) (int, int) { return f(v), v })(src)), nil
	}
	return nil, errArity(variant)
}

func nop()                                {}
func nopV(int)                            {}
func nopE(error)                          {}
func nopCtx(context.Context)              {}
func nopCtxV(context.Context, int)        {}
func nopCtxE(context.Context, error)      {}

var opSpecs []OpSpec

func init() {
	opSpecs = []OpSpec{
		// operator_filter.go
		{"Filter", v4, [][]int{{}}, "pred", predOp(ro.Filter[int], ro.FilterI[int], ro.FilterWithContext[int], ro.FilterIWithContext[int]), true},
		{"Distinct", v1, [][]int{{}}, "", simple(0, func(p []int) intOp { return ro.Distinct[int]() }), true},
		{"DistinctBy", []string{"plain", "ctx"}, [][]int{{}}, "key", buildDistinctBy, true},
		{"IgnoreElements", v1, [][]int{{}}, "", simple(0, func(p []int) intOp { return ro.IgnoreElements[int]() }), true},
		{"Skip", v1, [][]int{{0}, {1}, {2}, {3}, {5}}, "", simple(1, func(p []int) intOp { return ro.Skip[int](int64(p[0])) }), true},
		{"SkipWhile", v4, [][]int{{}}, "pred", predOp(ro.SkipWhile[int], ro.SkipWhileI[int], ro.SkipWhileWithContext[int], ro.SkipWhileIWithContext[int]), true},
		{"SkipLast", v1, [][]int{{1}, {2}, {3}, {5}}, "", simple(1, func(p []int) intOp { return ro.SkipLast[int](p[0]) }), true},
		{"Take", v1, [][]int{{0}, {1}, {2}, {3}, {5}}, "", simple(1, func(p []int) intOp { return ro.Take[int](int64(p[0])) }), true},
		{"TakeWhile", v4, [][]int{{}}, "pred", predOp(ro.TakeWhile[int], ro.TakeWhileI[int], ro.TakeWhileWithContext[int], ro.TakeWhileIWithContext[int]), true},
		{"TakeLast", v1, [][]int{{0}, {1}, {2}, {3}, {5}}, "", simple(1, func(p []int) intOp { return ro.TakeLast[int](p[0]) }), true},
		{"Head", v1, [][]int{{}}, "", simple(0, func(p []int) intOp { return ro.Head[int]() }), true},
		{"Tail", v1, [][]int{{}}, "", simple(0, func(p []int) intOp { return ro.Tail[int]() }), true},
		{"First", v4, [][]int{{}}, "pred", predOp(ro.First[int], ro.FirstI[int], ro.FirstWithContext[int], ro.FirstIWithContext[int]), true},
		{"Last", v4, [][]int{{}}, "pred", predOp(ro.Last[int], ro.LastI[int], ro.LastWithContext[int], ro.LastIWithContext[int]), true},
		{"ElementAt", v1, [][]int{{0}, {1}, {2}, {4}}, "", simple(1, func(p []int) intOp { return ro.ElementAt[int](p[0]) }), true},
		{"ElementAtOrDefault", v1, [][]int{{0, 9}, {1, 9}, {2, 9}, {4, 9}}, "", simple(2, func(p []int) intOp { return ro.ElementAtOrDefault(int64(p[0]), p[1]) }), true},
		// operator_transformations.go
		{"Map", v4, [][]int{{}}, "proj", buildMap, true},
		{"MapTo", v1, [][]int{{7}}, "", simple(1, func(p []int) intOp { return ro.MapTo[int](p[0]) }), true},
		{"MapErr", v4, [][]int{{2}, {0}, {8}}, "proj", buildMapErr, true},
		{"Flatten", v1, [][]int{{0}, {1}, {2}}, "", simple(1, func(p []int) intOp {
			k := p[0]
			return func(src ro.Observable[int]) ro.Observable[int] {
				return ro.Flatten[int]()(ro.Map(func(v int) []int {
					out := make([]int, k)
					for j := range out {
						out[j] = v + j
					}
					return out
				})(src))
			}
		}), false},
		{"Scan", v4, [][]int{{0}, {1}}, "red", redOp(ro.Scan[int, int], ro.ScanI[int, int], ro.ScanWithContext[int, int], ro.ScanIWithContext[int, int]), true},
		{"BufferWithCount", v1, [][]int{{1}, {2}, {3}}, "", simple(1, func(p []int) func(ro.Observable[int]) ro.Observable[[]int] { return ro.BufferWithCount[int](p[0]) }), false},
		{"Pairwise", v1, [][]int{{}}, "", simple(0, func(p []int) func(ro.Observable[int]) ro.Observable[[]int] { return ro.Pairwise[int]() }), false},
		{"StartWith", v1, [][]int{{}, {8}, {8, 9}}, "", simple(-1, func(p []int) intOp { return ro.StartWith(p...) }), true},
		{"EndWith", v1, [][]int{{}, {8}, {8, 9}}, "", simple(-1, func(p []int) intOp { return ro.EndWith(p...) }), true},
		{"Tap", v1, [][]int{{}}, "", simple(0, func(p []int) intOp { return ro.Tap(nopV, nopE, nop) }), true},
		{"TapOnSubscribe", v1, [][]int{{}}, "", simple(0, func(p []int) intOp { return ro.TapOnSubscribe[int](nop) }), true},
		{"TapOnFinalize", v1, [][]int{{}}, "", simple(0, func(p []int) intOp { return ro.TapOnFinalize[int](nop) }), true},
		{"Serialize", v1, [][]int{{}}, "", simple(0, func(p []int) intOp { return ro.Serialize[int]() }), true},
		{"OnErrorReturn", v1, [][]int{{9}}, "", simple(1, func(p []int) intOp { return ro.OnErrorReturn(p[0]) }), true},
		{"ThrowIfEmpty", v1, [][]int{{4}}, "", simple(1, func(p []int) intOp {
			return ro.ThrowIfEmpty[int](func() error { return userErr{p[0]} })
		}), true},
		{"Materialize", v1, [][]int{{}}, "", simple(0, func(p []int) func(ro.Observable[int]) ro.Observable[ro.Notification[int]] { return ro.Materialize[int]() }), false},
		{"MaterializeDematerialize", v1, [][]int{{}}, "", simple(0, func(p []int) intOp {
			return func(src ro.Observable[int]) ro.Observable[int] { return ro.Dematerialize[int]()(ro.Materialize[int]()(src)) }
		}), true},
		{"ToSlice", v1, [][]int{{}}, "", simple(0, func(p []int) func(ro.Observable[int]) ro.Observable[[]int] { return ro.ToSlice[int]() }), false},
		{"ToMap", v4, [][]int{{}}, "key", buildToMap, false},
		// operator_conditional.go / operator_math.go
		{"All", v4, [][]int{{}}, "boolpred", boolPredOp(ro.All[int], ro.AllI[int], ro.AllWithContext[int], ro.AllIWithContext[int]), false},
		{"Contains", v4, [][]int{{}}, "boolpred", boolPredOp(ro.Contains[int], ro.ContainsI[int], ro.ContainsWithContext[int], ro.ContainsIWithContext[int]), false},
		{"Find", v4, [][]int{{}}, "boolpred", boolPredOp(ro.Find[int], ro.FindI[int], ro.FindWithContext[int], ro.FindIWithContext[int]), true},
		{"DefaultIfEmpty", v1, [][]int{{9}}, "", simple(1, func(p []int) intOp { return ro.DefaultIfEmpty(p[0]) }), true},
		{"DefaultIfEmptyWithContext", v1, [][]int{{9, 5}}, "", simple(2, func(p []int) intOp {
			return ro.DefaultIfEmptyWithContext(ctxFromMarks([]int{p[1]}), p[0])
		}), true},
		{"Count", v1, [][]int{{}}, "", simple(0, func(p []int) func(ro.Observable[int]) ro.Observable[int64] { return ro.Count[int]() }), false},
		{"Sum", v1, [][]int{{}}, "", simple(0, func(p []int) intOp { return ro.Sum[int]() }), true},
		{"Min", v1, [][]int{{}}, "", simple(0, func(p []int) intOp { return ro.Min[int]() }), true},
		{"Max", v1, [][]int{{}}, "", simple(0, func(p []int) intOp { return ro.Max[int]() }), true},
		{"Clamp", v1, [][]int{{0, 1}, {-1, 2}, {1, 1}}, "", simple(2, func(p []int) intOp { return ro.Clamp(p[0], p[1]) }), true},
		{"Reduce", v4, [][]int{{0}, {1}}, "red", redOp(ro.Reduce[int, int], ro.ReduceI[int, int], ro.ReduceWithContext[int, int], ro.ReduceIWithContext[int, int]), true},
	}
}

// specOperator turns a `chain: true` (int -> int) entry into the real operator function.
// Generation and execution of cases are single-threaded, so the package variable is safe.
func specOperator(spec *OpSpec, p []int, variant string, cbs []Cb) (intOp, error) {
	if !spec.chain {
		return nil, fmt.Errorf("%s: not an int->int operator", spec.name)
	}
	// dry run on an empty source to validate parameters/callbacks once
	if _, err := spec.build(p, variant, cbs, ro.Empty[int]()); err != nil {
		return nil, err
	}
	return func(src ro.Observable[int]) ro.Observable[int] {
		// operators may be applied at subscription time from several goroutines (ee PipeN)
		attachMu.Lock()
		defer attachMu.Unlock()
		lastAttached = nil
		if _, err := spec.build(p, variant, cbs, src); err != nil {
			return ro.Throw[int](err)
		}
		out, ok := lastAttached.(ro.Observable[int])
		if !ok {
			return ro.Throw[int](fmt.Errorf("%s: not an int observable", spec.name))
		}
		return out
	}, nil
}

func findOp(name string) *OpSpec {
	for i := range opSpecs {
		if opSpecs[i].name == name {
			return &opSpecs[i]
		}
	}
	return nil
}

// callback names to enumerate for a callback kind and variant
func cbChoices(kind, variant string) []string {
	switch kind {
	case "proj":
		if hasI(variant) {
			return []string{"addi", "muli"}
		}
		return []string{"dbl", "neg"}
	case "pred":
		if hasI(variant) {
			return []string{"ilt2", "ige1", "veqi"}
		}
		return []string{"even", "pos", "ne2", "T", "F"}
	case "boolpred":
		if hasI(variant) {
			return []string{"ilt2", "veqi"}
		}
		return []string{"even", "pos", "eq2"}
	case "red":
		if hasI(variant) {
			return []string{"addvi", "madi"}
		}
		return []string{"add", "mad"}
	case "key":
		return []string{"mod2", "id", "sq"}
	}
	return nil
}

package main

// kind=subject (property C10): one real subject, one operation sequence over
// {Next v, Error e, Complete, Subscribe i, Unsubscribe i}, executed on the calling goroutine.
//
//   case <id> kind=subject op=<publish|behavior|replay|async|unicast> p=<n|-1|-> src=N1,S0,N2,E1,U0,S1,C
//   res <id> r0=<trace> r1=<trace> r2=<trace> drops=<bare> st=<per step: count has closed thrown completed>
//
// Mirrors lean/RoModel/Drivers/Subject.lean: the k-th operation (1-based) carries the context with
// markers 7.k; every subscriber identity is a fresh recording observer subscribed at most once
// (a repeated `S<i>` is not issued), `U<i>` calls Unsubscribe on the subscription `S<i>` returned.

import (
	"fmt"
	"math/rand"
	"strconv"
	"strings"

	"github.com/samber/ro"
)

func init() { registerKind("subject", genSubjectCases, "subject", runSubjectCase) }

const subjectIDs = 3

type subjOp struct {
	kind byte // N E C S U
	arg  int
}

func (o subjOp) String() string {
	if o.kind == 'C' {
		return "C"
	}
	return string(o.kind) + strconv.Itoa(o.arg)
}

func parseSubjOps(s string) ([]subjOp, bool) {
	if s == "-" || s == "" {
		return nil, true
	}
	var out []subjOp
	for _, t := range strings.Split(s, ",") {
		if t == "C" {
			out = append(out, subjOp{'C', 0})
			continue
		}
		if len(t) < 2 || !strings.ContainsRune("NESU", rune(t[0])) {
			return nil, false
		}
		v, err := strconv.Atoi(t[1:])
		if err != nil || (t[0] != 'N' && v < 0) {
			return nil, false
		}
		out = append(out, subjOp{t[0], v})
	}
	return out, true
}

func subjOpsString(ops []subjOp) string {
	if len(ops) == 0 {
		return "-"
	}
	parts := make([]string, len(ops))
	for i, o := range ops {
		parts[i] = o.String()
	}
	return strings.Join(parts, ",")
}

func newSubjectOf(op string, p []int) (ro.Subject[int], bool) {
	size := func() (int, bool) {
		if len(p) != 1 || p[0] < -1 {
			return 0, false
		}
		return p[0], true // -1 = ro.ReplaySubjectUnlimitedBufferSize = ro.UnicastSubjectUnlimitedBufferSize
	}
	switch op {
	case "publish":
		return ro.NewPublishSubject[int](), true
	case "behavior":
		if len(p) != 1 {
			return nil, false
		}
		return ro.NewBehaviorSubject[int](p[0]), true
	case "replay":
		if n, ok := size(); ok {
			return ro.NewReplaySubject[int](n), true
		}
	case "async":
		return ro.NewAsyncSubject[int](), true
	case "unicast":
		if n, ok := size(); ok {
			return ro.NewUnicastSubject[int](n), true
		}
	}
	return nil, false
}

func tf(b bool) string {
	if b {
		return "t"
	}
	return "f"
}

func subjectStatus(s ro.Subject[int]) string {
	return strconv.Itoa(s.CountObservers()) + tf(s.HasObserver()) + tf(s.IsClosed()) + tf(s.HasThrown()) + tf(s.IsCompleted())
}

// subjClient drives one subject on behalf of the numbered subscriber identities.
type subjClient struct {
	subject   ro.Subject[int]
	recs      []*Recorder
	subs      []ro.Subscription
	afterNext func() // concurrent runs: called inside every Next callback (yield point); nil otherwise
}

func newSubjClient(s ro.Subject[int], ids int) *subjClient {
	c := &subjClient{subject: s, recs: make([]*Recorder, ids), subs: make([]ro.Subscription, ids)}
	for i := range c.recs {
		c.recs[i] = &Recorder{}
	}
	return c
}

// apply performs one operation with the context marked 7.<mark>
func (c *subjClient) apply(o subjOp, mark int) {
	ctx := withMark(withMark(ctxFromMarks(nil), 7), mark)
	switch o.kind {
	case 'N':
		c.subject.NextWithContext(ctx, o.arg)
	case 'E':
		c.subject.ErrorWithContext(ctx, userErr{o.arg})
	case 'C':
		c.subject.CompleteWithContext(ctx)
	case 'S':
		if o.arg < len(c.subs) && c.subs[o.arg] == nil {
			obs := observer[int](c.recs[o.arg])
			if c.afterNext != nil {
				obs = roObserverBlocking(c.recs[o.arg], c.afterNext)
			}
			c.subs[o.arg] = c.subject.SubscribeWithContext(ctx, obs)
		}
	case 'U':
		if o.arg < len(c.subs) && c.subs[o.arg] != nil {
			c.subs[o.arg].Unsubscribe()
		}
	}
}

func (c *subjClient) traces() string {
	var sb strings.Builder
	for i, r := range c.recs {
		r.mu.Lock()
		fmt.Fprintf(&sb, "r%d=%s ", i, joinOrDash(r.trace))
		r.mu.Unlock()
	}
	return strings.TrimSpace(sb.String())
}

func runSubjectCase(c *Case) string {
	subject, ok := newSubjectOf(c.get("op", "?"), parseInts(c.get("p", "-")))
	if !ok {
		return "res " + c.id + " unsupported"
	}
	ops, ok := parseSubjOps(c.get("src", "-"))
	if !ok {
		return "res " + c.id + " bad-script"
	}
	drops := &Recorder{}
	setRecorder(drops)
	defer setRecorder(nil)
	cl := newSubjClient(subject, subjectIDs)
	sts := make([]string, 0, len(ops))
	for k, o := range ops {
		cl.apply(o, k+1)
		sts = append(sts, subjectStatus(subject))
	}
	return fmt.Sprintf("res %s %s drops=%s st=%s", c.id, cl.traces(), joinOrDash(drops.drops), joinOrDash(sts))
}

// ---------- generation ----------

type subjConfig struct{ op, p string }

func subjConfigs(tier string) []subjConfig {
	cfg := []subjConfig{{"publish", "-"}, {"behavior", "9"}, {"replay", "1"}, {"replay", "2"}, {"replay", "-1"},
		{"async", "-"}, {"unicast", "1"}, {"unicast", "2"}, {"unicast", "-1"}}
	if tier == "thorough" {
		cfg = append(cfg, subjConfig{"replay", "0"}, subjConfig{"unicast", "0"}, subjConfig{"replay", "3"}, subjConfig{"unicast", "3"})
	}
	return cfg
}

// sensible: every identity is subscribed at most once and unsubscribed only after it was
// subscribed (the other sequences are equal, by the client convention, to shorter ones)
func subjSensible(ops []subjOp) bool {
	var subbed [8]bool
	for _, o := range ops {
		switch o.kind {
		case 'S':
			if subbed[o.arg] {
				return false
			}
			subbed[o.arg] = true
		case 'U':
			if !subbed[o.arg] {
				return false
			}
		}
	}
	return true
}

var subjAlphabet = []subjOp{{'N', 1}, {'N', 2}, {'E', 1}, {'C', 0}, {'S', 0}, {'S', 1}, {'U', 0}, {'U', 1}}

func subjSequences(maxLen int) [][]subjOp {
	out := [][]subjOp{{}}
	frontier := [][]subjOp{{}}
	for l := 1; l <= maxLen; l++ {
		var next [][]subjOp
		for _, pre := range frontier {
			for _, a := range subjAlphabet {
				nl := append(append(make([]subjOp, 0, len(pre)+1), pre...), a)
				if subjSensible(nl) {
					next = append(next, nl)
				}
			}
		}
		out = append(out, next...)
		frontier = next
	}
	return out
}

func subjRandomSeq(r *rand.Rand, n int) []subjOp {
	big := []subjOp{{'N', 1}, {'N', 2}, {'N', 3}, {'N', -1}, {'E', 1}, {'E', 2}, {'C', 0},
		{'S', 0}, {'S', 1}, {'S', 2}, {'U', 0}, {'U', 1}, {'U', 2}}
	var out []subjOp
	for len(out) < n {
		var o subjOp
		switch x := r.Intn(10); {
		case x < 5: // values dominate, so that buffers overflow
			o = big[r.Intn(4)]
		case x < 6: // terminals are rare: most of the sequence runs on an open subject
			o = big[4+r.Intn(3)]
		default:
			o = big[7+r.Intn(6)]
		}
		if subjSensible(append(append([]subjOp{}, out...), o)) {
			out = append(out, o)
		}
	}
	return out
}

// the stories the property text names, first
var subjCorpus = []string{
	"N1,N2,C,S0", "N1,N2,E1,S0", "N1,N2,N1,C,S0,S1", // terminate before subscribe with a non-empty queue / buffer
	"S0,N1,S1,N2,U0,N1,C,S2", "S0,S1,N1,U1,N2,E1,S2,N1,C,E2",
	"N1,S0,U0,N2,N1,S1,N2,U1,N1,S2,C", "S0,N1,C,U0,U0", "S0,U0,U0,N1,S1,C",
	"N1,N2,N3,N1,S0,N2,S1,E1,S2",
	// a second, different terminal after the first one: dropped, and the stored terminal stays the first
	"S0,E1,E2,S1", "E1,E2,S0", "S0,C,E2,S1", "N1,E1,C,S0", "S0,N1,E2,N2,E1,C,S1,S2", "N1,C,E1,S0,E2,S1",
}

func genSubjectCases(tier string, seed int64, only string) []*Case {
	r := rand.New(rand.NewSource(seed))
	var seqs [][]subjOp
	for _, s := range subjCorpus {
		ops, _ := parseSubjOps(s)
		seqs = append(seqs, ops)
	}
	if tier == "thorough" {
		seqs = append(seqs, subjSequences(6)...)
		for i := 0; i < 3000; i++ {
			seqs = append(seqs, subjRandomSeq(r, 7+r.Intn(14)))
		}
	} else {
		seqs = append(seqs, subjSequences(5)...)
		for i := 0; i < 400; i++ {
			seqs = append(seqs, subjRandomSeq(r, 6+r.Intn(10)))
		}
	}
	var cases []*Case
	id := 0
	for _, cfg := range subjConfigs(tier) {
		if only != "" && cfg.op != only {
			continue
		}
		for _, ops := range seqs {
			id++
			cases = append(cases, newCase(id, "kind", "subject", "op", cfg.op, "p", cfg.p, "src", subjOpsString(ops)))
		}
	}
	return cases
}

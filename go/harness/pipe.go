package main

// kind=pipe (C04: "the reflective Pipe/PipeOp versus the typed PipeN/PipeOpN compositions are
// observationally identical"): a random chain of n int→int catalogue operators is assembled five ways —
// manual nesting opN(…op1(src)), typed ro.PipeN, reflective ro.Pipe, typed ro.PipeOpN applied to the
// source, reflective ro.PipeOp applied to the source — each over its own probe playing the same script.
// The five observations (trace, subscriptions, release, closed) must be identical, and the first must
// equal the chain model (lean/RoModel/Drivers/Chain.lean runChain: the case carries the kind=chain fields).
//
//   case <id> kind=pipe n=3 ops=…|…|… mode=sync cut=- sub=7 src=…
//   res  <id> trace=… subs=… rel=… closed=… eq=1111      (typed, reflective, typed-op, reflective-op)

import (
	"fmt"
	"math/rand"
	"strconv"
	"strings"

	"github.com/samber/ro"
)

func init() { registerKind("pipes", genPipes, "pipe", runPipeCase) }

func stageOps(stages []stage) ([]intOp, error) {
	var out []intOp
	for _, st := range stages {
		spec := findOp(st.name)
		if spec == nil || !spec.chain {
			return nil, fmt.Errorf("not chainable: %s", st.name)
		}
		ap, err := spec.mk(st.p, st.variant, stageCbs(st))
		if err != nil {
			return nil, err
		}
		out = append(out, func(src ro.Observable[int]) ro.Observable[int] {
			o, _ := ap(src).obs.(ro.Observable[int])
			return o
		})
	}
	return out, nil
}

func anys(ops []intOp) []any {
	out := make([]any, len(ops))
	for i, o := range ops {
		out[i] = o
	}
	return out
}

func runPipeCase(c *Case) string {
	var stages []stage
	for _, t := range strings.Split(c.get("ops", ""), "|") {
		st, err := parseStage(t)
		if err != nil {
			return "res " + c.id + " bad-stage"
		}
		stages = append(stages, st)
	}
	if len(stages) < 1 || len(stages) > 25 {
		return "res " + c.id + " unsupported"
	}
	script, err := parseScript(c.get("src", "-"))
	if err != nil {
		return "res " + c.id + " bad-script"
	}
	mode := c.get("mode", "sync")
	cut := -1
	if s := c.get("cut", "-"); s != "-" {
		cut, _ = strconv.Atoi(s)
	}
	subCtx := ctxFromMarks(parseInts(strings.ReplaceAll(c.get("sub", "-"), ".", ",")))

	type build func(src ro.Observable[int], ops []intOp) ro.Observable[int]
	ways := []build{
		func(src ro.Observable[int], ops []intOp) ro.Observable[int] { // manual nesting
			cur := src
			for _, o := range ops {
				cur = o(cur)
			}
			return cur
		},
		pipeTyped,
		func(src ro.Observable[int], ops []intOp) ro.Observable[int] {
			return ro.Pipe[int, int](src, anys(ops)...)
		},
		func(src ro.Observable[int], ops []intOp) ro.Observable[int] { return pipeOpTyped(ops)(src) },
		func(src ro.Observable[int], ops []intOp) ro.Observable[int] {
			return ro.PipeOp[int, int](anys(ops)...)(src)
		},
	}
	obsv := make([]string, len(ways))
	for w, mk := range ways {
		ops, err := stageOps(stages) // fresh operator values for every way
		if err != nil {
			return "res " + c.id + " unsupported"
		}
		rec := &Recorder{}
		setRecorder(rec)
		probe := &Probe{script: script, sync: mode == "sync"}
		obs := mk(probe.Observable(), ops)
		if obs == nil {
			setRecorder(nil)
			return "res " + c.id + " unsupported"
		}
		sub := obs.SubscribeWithContext(subCtx, observer[int](rec))
		if mode != "sync" {
			for i := range script {
				if i == cut {
					sub.Unsubscribe()
				}
				probe.push(i)
			}
			if cut >= len(script) {
				sub.Unsubscribe()
			}
		}
		closed := 0
		if sub.IsClosed() {
			closed = 1
		}
		setRecorder(nil)
		obsv[w] = fmt.Sprintf("trace=%s subs=%d rel=%d closed=%d", joinOrDash(rec.trace), probe.subs, probe.teardowns, closed)
	}
	eq := ""
	diff := ""
	for w := 1; w < len(ways); w++ {
		if obsv[w] == obsv[0] {
			eq += "1"
		} else {
			eq += "0"
			if diff == "" {
				diff = " way" + strconv.Itoa(w) + "=" + strings.ReplaceAll(obsv[w], " ", ";")
			}
		}
	}
	return "res " + c.id + " " + obsv[0] + " eq=" + eq + diff
}

func genPipes(tier string, seed int64, only string) []*Case {
	r := rand.New(rand.NewSource(seed*15485863 + 29))
	maxN, per := 8, 120
	if tier == "thorough" {
		maxN, per = 25, 400
	}
	var cases []*Case
	id := 0
	for n := 1; n <= maxN; n++ {
		for k := 0; k < per; k++ {
			stages := make([]string, n)
			for i := range stages {
				stages[i] = randomStage(r).String()
			}
			vals := randomList(r, r.Intn(7))
			scripts := scriptsFor(vals, true)
			script := scripts[r.Intn(len(scripts))]
			mode, cut := "sync", "-"
			if r.Intn(2) == 0 {
				mode = "hot"
				if r.Intn(3) == 0 {
					cut = strconv.Itoa(r.Intn(len(script) + 1))
				}
			}
			id++
			cases = append(cases, newCase(id, "kind", "pipe", "n", strconv.Itoa(n), "ops", strings.Join(stages, "|"), "mode", mode, "cut", cut, "sub", "7", "src", scriptString(script)))
		}
	}
	return cases
}

package main

// kind=cutin (C06, operator half): a hot probe below every catalogue operator / random chains,
// and a final observer that calls Unsubscribe on ITS OWN subscription while it is handling its
// k-th delivered notification (`who=self`), or that blocks in its k-th callback until ANOTHER
// goroutine has called Unsubscribe and returned (`who=other`: the callback in progress may finish,
// nothing after it is delivered). `handle=ready`: the observer is a ready-made ro.Subscriber, so the
// handle exists even for notifications delivered inside Subscribe; `handle=ret`: the handle is the
// Subscription returned by Subscribe (an observer that wants to unsubscribe before it has the
// handle does so as soon as Subscribe has returned).
// Result line: delivered trace, refused notifications, raw teardown count of the probe, closed
// flag — EQUAL to lean/RoModel/CutIn.lean `runOpCutIn` / `runOpCutInRet`.

import (
	"context"
	"fmt"
	"math/rand"
	"strconv"
	"strings"
	"sync"
	"sync/atomic"
	"time"

	"github.com/samber/ro"
)

func init() { registerKind("cutin", genCutIn, "cutin", runCutInCase) }

type cutCtl struct {
	k       int
	who     string
	mu      sync.Mutex
	n       int
	handle  func()
	pending bool
	stuck   bool
}

// hit is called by the observer at the end of each of its callbacks' recording step
func (c *cutCtl) hit() {
	c.mu.Lock()
	c.n++
	fire := c.k > 0 && c.n == c.k
	h := c.handle
	if fire && h == nil {
		c.pending = true
	}
	c.mu.Unlock()
	if fire && h != nil {
		c.fire(h)
	}
}

func (c *cutCtl) fire(h func()) {
	if c.who != "other" {
		h()
		return
	}
	done := make(chan struct{})
	go func() {
		defer close(done)
		h()
	}()
	select {
	case <-done: // the unsubscriber has returned; only now does the callback in progress go on
	case <-time.After(3 * time.Second):
		c.mu.Lock()
		c.stuck = true
		c.mu.Unlock()
	}
}

// setHandle stores the handle; true when the observer already asked for the unsubscription
func (c *cutCtl) setHandle(h func()) bool {
	c.mu.Lock()
	defer c.mu.Unlock()
	c.handle = h
	return c.pending
}

func cutObserver[T any](rec *Recorder, ctl *cutCtl) ro.Observer[T] {
	return ro.NewObserverWithContext(
		func(ctx context.Context, v T) { rec.add("N" + renderVal(v) + "/" + renderCtx(ctx)); ctl.hit() },
		func(ctx context.Context, err error) { rec.add("E" + renderErr(err) + "/" + renderCtx(ctx)); ctl.hit() },
		func(ctx context.Context) { rec.add("C/" + renderCtx(ctx)); ctl.hit() },
	)
}

func cutSub[T any](o ro.Observable[T], ctx context.Context, rec *Recorder, ctl *cutCtl, ready bool) ro.Subscription {
	ob := cutObserver[T](rec, ctl)
	if ready {
		s := ro.NewSubscriber(ob)
		ctl.setHandle(s.Unsubscribe)
		return o.SubscribeWithContext(ctx, s)
	}
	sub := o.SubscribeWithContext(ctx, ob)
	if ctl.setHandle(sub.Unsubscribe) {
		sub.Unsubscribe()
	}
	return sub
}

// the output types of the catalogue (applied.obs is typed `any`)
func cutSubscribeAny(a any, ctx context.Context, rec *Recorder, ctl *cutCtl, ready bool) (ro.Subscription, bool) {
	switch o := a.(type) {
	case ro.Observable[int]:
		return cutSub(o, ctx, rec, ctl, ready), true
	case ro.Observable[[]int]:
		return cutSub(o, ctx, rec, ctl, ready), true
	case ro.Observable[bool]:
		return cutSub(o, ctx, rec, ctl, ready), true
	case ro.Observable[int64]:
		return cutSub(o, ctx, rec, ctl, ready), true
	case ro.Observable[map[int]int]:
		return cutSub(o, ctx, rec, ctl, ready), true
	case ro.Observable[ro.Notification[int]]:
		return cutSub(o, ctx, rec, ctl, ready), true
	}
	return nil, false
}

// buildCase builds the observable of a case (`op=` single operator, `ops=` chain) over src
func buildCaseObs(c *Case, src ro.Observable[int]) (any, bool) {
	if s := c.get("ops", ""); s != "" {
		var stages []stage
		for _, t := range strings.Split(s, "|") {
			st, err := parseStage(t)
			if err != nil {
				return nil, false
			}
			stages = append(stages, st)
		}
		o, err := buildChain(stages, src)
		if err != nil {
			return nil, false
		}
		return o, true
	}
	spec := findOp(c.get("op", "?"))
	if spec == nil {
		return nil, false
	}
	var cbs []Cb
	if s := c.get("cb", "-"); s != "-" && s != "" {
		for _, t := range strings.Split(s, ",") {
			cbs = append(cbs, parseCb(t))
		}
	}
	ap, err := spec.mk(parseInts(c.get("p", "-")), c.get("var", "plain"), cbs)
	if err != nil {
		return nil, false
	}
	return ap(src).obs, true
}

// runCutIn returns trace, drops, teardown count, closed, flag
func runCutIn(c *Case, k int) (trace, drops []string, rel int, closed int, flag string) {
	script, err := parseScript(c.get("src", "-"))
	if err != nil {
		return nil, nil, 0, 0, "bad-script"
	}
	subCtx := ctxFromMarks(parseInts(strings.ReplaceAll(c.get("sub", "-"), ".", ",")))
	rec := &Recorder{}
	setRecorder(rec)
	defer setRecorder(nil)
	probe := &Probe{script: script}
	obs, ok := buildCaseObs(c, probe.Observable())
	if !ok {
		return nil, nil, 0, 0, "unsupported"
	}
	ctl := &cutCtl{k: k, who: c.get("who", "self")}
	sub, ok := cutSubscribeAny(obs, subCtx, rec, ctl, c.get("handle", "ready") == "ready")
	if !ok {
		return nil, nil, 0, 0, "unsupported"
	}
	for i := range script {
		probe.push(i)
	}
	if sub.IsClosed() {
		closed = 1
	}
	if ctl.stuck {
		flag = "unsubscribe-blocked"
	}
	probe.mu.Lock()
	rel = probe.teardowns
	probe.mu.Unlock()
	rec.mu.Lock()
	defer rec.mu.Unlock()
	return append([]string{}, rec.trace...), append([]string{}, rec.drops...), rel, closed, flag
}

// quickGuard runs f with a short deadline (the cases of these kinds take microseconds). After a few
// timeouts in one process the remaining cases are not run at all: a change that makes every case
// hang must not turn a check into hours of 20 s timeouts (main.go runCaseGuarded).
var hungCases int32

func quickGuard(f func() string, onTimeout string) string {
	if atomic.LoadInt32(&hungCases) >= 3 {
		return onTimeout
	}
	done := make(chan string, 1)
	go func() {
		defer func() {
			if r := recover(); r != nil {
				done <- "harness-panic=" + strings.ReplaceAll(fmt.Sprint(r), " ", "_")
			}
		}()
		done <- f()
	}()
	select {
	case s := <-done:
		return s
	case <-time.After(3 * time.Second):
		atomic.AddInt32(&hungCases, 1)
		return onTimeout
	}
}

func runCutInCase(c *Case) string {
	return quickGuard(func() string { return runCutInCase1(c) }, "res "+c.id+" harness-timeout")
}

func runCutInCase1(c *Case) string {
	k, _ := strconv.Atoi(c.get("k", "0"))
	trace, drops, rel, closed, flag := runCutIn(c, k)
	if flag != "" {
		return "res " + c.id + " " + flag
	}
	d := joinOrDash(drops)
	if c.get("ops", "") != "" {
		d = "~" // chains: where in the chain a notification is refused is not modelled (Machine.seq)
	}
	return fmt.Sprintf("res %s trace=%s drops=%s rel=%d closed=%d", c.id, joinOrDash(trace), d, rel, closed)
}

// ---------- generation ----------

// The single-operator cases of kinds cutin / collect / teardown enumerate the operators that
// lean/RoModel/Drivers/Cut.lean `lookupAny` knows as machines with a typed output (the catalogue of
// RoModel/Ops/{Filter,Transform,Aggregate}.lean). Operators registered later (more.go) take part
// through the random chains as soon as Chain.lookupII knows them.
var cutCatalogue = map[string]bool{
	"Filter":                    true,
	"Distinct":                  true,
	"DistinctBy":                true,
	"IgnoreElements":            true,
	"Skip":                      true,
	"SkipWhile":                 true,
	"SkipLast":                  true,
	"Take":                      true,
	"TakeWhile":                 true,
	"TakeLast":                  true,
	"Head":                      true,
	"Tail":                      true,
	"First":                     true,
	"Last":                      true,
	"ElementAt":                 true,
	"ElementAtOrDefault":        true,
	"Map":                       true,
	"MapTo":                     true,
	"MapErr":                    true,
	"Flatten":                   true,
	"Scan":                      true,
	"BufferWithCount":           true,
	"Pairwise":                  true,
	"StartWith":                 true,
	"EndWith":                   true,
	"Tap":                       true,
	"TapOnSubscribe":            true,
	"TapOnFinalize":             true,
	"Serialize":                 true,
	"OnErrorReturn":             true,
	"ThrowIfEmpty":              true,
	"Materialize":               true,
	"MaterializeDematerialize":  true,
	"ToSlice":                   true,
	"ToMap":                     true,
	"All":                       true,
	"Contains":                  true,
	"Find":                      true,
	"DefaultIfEmpty":            true,
	"DefaultIfEmptyWithContext": true,
	"Count":                     true,
	"Sum":                       true,
	"Min":                       true,
	"Max":                       true,
	"Clamp":                     true,
	"Reduce":                    true,
}

// for each base case: the undisturbed run gives the trace length L; then k = 1..L+1
func cutVariants(r *rand.Rand, tier string) [][2]string {
	return [][2]string{{"self", "ready"}, {"other", "ready"}, {"self", "ret"}}
}

func genCutIn(tier string, seed int64, only string) []*Case {
	r := rand.New(rand.NewSource(seed*6151 + 5))
	lists := [][]int{{}, {2}, {-1, 0}, {3, 2, 3}}
	extra, nChains := 2, 1200
	if tier == "thorough" {
		lists = valueLists(2)
		extra, nChains = 12, 20000
	}
	for i := 0; i < extra; i++ {
		lists = append(lists, randomList(r, 3+r.Intn(5)))
	}
	var cases []*Case
	id := 0
	emit := func(base []string) {
		probeCase := newCase(0, append([]string{"kind", "cutin"}, base...)...)
		n := 2 // if the undisturbed run itself hangs: k = 1..3, so that the hang is reported on a case
		if quickGuard(func() string {
			trace, _, _, _, flag := runCutIn(probeCase, 0)
			if flag != "" {
				return "skip"
			}
			n = len(trace)
			return ""
		}, "") == "skip" {
			return
		}
		for k := 1; k <= n+1; k++ {
			for _, v := range cutVariants(r, tier) {
				id++
				kv := append([]string{"kind", "cutin"}, base[:len(base)-4]...)
				kv = append(kv, "who", v[0], "handle", v[1], "k", strconv.Itoa(k))
				kv = append(kv, base[len(base)-4:]...)
				cases = append(cases, newCase(id, kv...))
			}
		}
	}
	for _, spec := range opSpecs {
		if (only != "" && spec.name != only) || !cutCatalogue[spec.name] {
			continue
		}
		for _, variant := range spec.variants {
			cbList := cbChoices(spec.cbKind, variant)
			if spec.cbKind == "" {
				cbList = []string{"-"}
			}
			for _, cbName := range cbList {
				cb := cbName
				if hasCtx(variant) && cb != "-" && spec.cbKind != "boolpred" && spec.name != "ToMap" {
					cb += "+t" + strconv.Itoa(50+r.Intn(9))
				}
				for _, p := range spec.params {
					for _, vals := range lists {
						scripts := scriptsFor(vals, false)
						// one illegal continuation: notifications after the terminal
						scripts = append(scripts, append(append([]Tok{}, scripts[1]...), Tok{'N', 9, len(vals) + 2}))
						for _, script := range scripts {
							emit([]string{"op", spec.name, "p", intsString(p), "var", variant, "cb", cb, "sub", "7", "src", scriptString(script)})
						}
					}
				}
			}
		}
	}
	if only == "" {
		for i := 0; i < nChains; i++ {
			n := 2 + r.Intn(4)
			stages := make([]string, n)
			for j := range stages {
				stages[j] = randomStage(r).String()
			}
			vals := randomList(r, r.Intn(7))
			scripts := scriptsFor(vals, true)
			script := scripts[r.Intn(len(scripts))]
			emit([]string{"ops", strings.Join(stages, "|"), "sub", "7", "src", scriptString(script)})
		}
	}
	return cases
}

package main

// kind=cancel (C14): a never-ending goroutine-driven source below an operator, an early
// terminator above it (Take(1), external Unsubscribe). Observed: does the Subscribe call return,
// and is the source released, once the downstream side has ended? The model side is the
// regenerated fact `blocks` of the operator's row (go/extract): an operator whose subscribe
// function waits for its source cannot return while the source never ends. The correspondence
// therefore validates the extractor's blocking analysis against the running code, both ways.

import (
	"context"
	"fmt"
	"strings"
	"sync"
	"sync/atomic"
	"time"

	"github.com/samber/ro"
)

func init() { registerKind("cancel", genCancel, "cancel", runCancelCase) }

type neverProbe struct {
	subs, teardowns int32
}

func (p *neverProbe) Observable() ro.Observable[int] {
	return ro.NewUnsafeObservableWithContext(func(ctx context.Context, dest ro.Observer[int]) ro.Teardown {
		atomic.AddInt32(&p.subs, 1)
		stop := make(chan struct{})
		var once sync.Once
		go func() {
			for i := 0; ; i++ {
				select {
				case <-stop:
					return
				default:
				}
				dest.NextWithContext(ctx, i)
				time.Sleep(30 * time.Microsecond)
			}
		}()
		return func() {
			atomic.AddInt32(&p.teardowns, 1)
			once.Do(func() { close(stop) })
		}
	})
}

// a never-ending source that never emits either (ro.Never, a quiet subject, a socket nobody writes to): nothing the
// operator does on a value can release it by accident — only its teardown can
func (p *neverProbe) Silent() ro.Observable[int] {
	return ro.NewObservableWithContext(func(ctx context.Context, dest ro.Observer[int]) ro.Teardown {
		atomic.AddInt32(&p.subs, 1)
		return func() { atomic.AddInt32(&p.teardowns, 1) }
	})
}

// an inner source of a higher-order operator that emits one value synchronously, inside its Subscribe, and then stays
// open for ever (a BehaviorSubject, a replay cache, StartWith over a hot source): a downstream that ends ON that value
// ends while the operator is still inside the inner Subscribe — the inner subscription does not exist yet for the
// operator's teardown; it must be released as soon as it is handed over. Counted on the same probe as the outer source.
func (p *neverProbe) SyncThenOpen() ro.Observable[int] {
	return ro.NewUnsafeObservableWithContext(func(ctx context.Context, dest ro.Observer[int]) ro.Teardown {
		atomic.AddInt32(&p.subs, 1)
		dest.NextWithContext(ctx, 100)
		return func() { atomic.AddInt32(&p.teardowns, 1) }
	})
}

// the probe of the case being run (cases run one at a time), for the set-ups whose callback creates inner sources
var cancelProbe *neverProbe

// operators of the waiting class and a few asynchronous ones, by the name of their row in the
// regenerated table
var cancelOps = map[string]struct {
	row string
	mk  func() intOp
}{
	"Retry":                 {"RetryWithConfig", func() intOp { return ro.Retry[int]() }},
	"RetryWithConfig":       {"RetryWithConfig", func() intOp { return ro.RetryWithConfig[int](ro.RetryConfig{MaxRetries: 2}) }},
	"RepeatWith":            {"RepeatWith", func() intOp { return ro.RepeatWith[int](2) }},
	"DoWhile":               {"DoWhileIWithContext", func() intOp { return ro.DoWhile[int](func() bool { return false }) }},
	"While":                 {"WhileIWithContext", func() intOp { return ro.While[int](func() bool { return true }) }},
	"OnErrorResumeNextWith": {"OnErrorResumeNextWith", func() intOp { return ro.OnErrorResumeNextWith(ro.Just(9)) }},
	"ConcatWith":            {"ConcatAll", func() intOp { return ro.ConcatWith(ro.Just(9)) }},
	"FlatMap":               {"-", func() intOp { return ro.FlatMap(func(v int) ro.Observable[int] { return ro.Just(v) }) }},
	"FlatMapInnerOpen": {"-", func() intOp {
		return ro.FlatMap(func(v int) ro.Observable[int] { return cancelProbe.SyncThenOpen() })
	}},
	"MergeMapInnerOpen": {"-", func() intOp {
		return ro.MergeMap(func(v int) ro.Observable[int] { return cancelProbe.SyncThenOpen() })
	}},
	// ToChannel subscribes its source from a goroutine, a millisecond after it has handed out the channel: a downstream
	// that ends ON the channel (take1) or is unsubscribed at once (unsub0) ends BEFORE the upstream subscription exists; it
	// must be released as soon as it is registered. The channel is drained so that the producer is never blocked.
	"ToChannel": {"-", func() intOp {
		return func(src ro.Observable[int]) ro.Observable[int] {
			return ro.Map(func(ch <-chan ro.Notification[int]) int {
				go func() {
					for range ch {
					}
				}()
				return 0
			})(ro.ToChannel[int](4)(src))
		}
	}},
	"SubscribeOn":  {"detachOn", func() intOp { return ro.SubscribeOn[int](4) }},
	"Catch":        {"Catch", func() intOp { return ro.Catch(func(err error) ro.Observable[int] { return ro.Just(9) }) }},
	"MergeWith":    {"MergeAll", func() intOp { return ro.MergeWith(ro.Just(9)) }},
	"Delay":        {"Delay", func() intOp { return ro.Delay[int](time.Millisecond) }},
	"Timeout":      {"Timeout", func() intOp { return ro.Timeout[int](time.Second) }},
	"ThrottleTime": {"ThrottleTime", func() intOp { return ro.ThrottleTime[int](time.Millisecond) }},
}

// term=ctx: "cancelling the subscription context has the same effect on the context-aware sources": the library's own
// asynchronous sources, alone and below a short chain, subscribed with a cancellable context that is then cancelled. The
// stream ends (a terminal is delivered) and falls silent: nothing is delivered later. (Timer waits inside Subscribe: the
// listed blocks-in-subscribe class; its reaction to the context is part of kind=timed.)
var cancelSources = map[string]func() ro.Observable[int]{
	"Interval": func() ro.Observable[int] {
		return ro.Map(func(v int64) int { return int(v) })(ro.Interval(400 * time.Microsecond))
	},
	"IntervalWithInitial0": func() ro.Observable[int] {
		return ro.Map(func(v int64) int { return int(v) })(ro.IntervalWithInitial(0, 400*time.Microsecond))
	},
	"IntervalWithInitial": func() ro.Observable[int] {
		return ro.Map(func(v int64) int { return int(v) })(ro.IntervalWithInitial(300*time.Microsecond, 400*time.Microsecond))
	},
	"RangeWithInterval": func() ro.Observable[int] {
		return ro.Map(func(v int64) int { return int(v) })(ro.RangeWithInterval(0, 100000, 400*time.Microsecond))
	},
	"IntervalChain": func() ro.Observable[int] {
		return ro.Pipe2(ro.Interval(400*time.Microsecond), ro.Map(func(v int64) int { return int(v) }), ro.Filter(func(v int) bool { return v%2 == 0 }))
	},
}

func runCancelSource(c *Case) string {
	mk, ok := cancelSources[strings.TrimPrefix(c.get("op", "?"), "src:")]
	if !ok {
		return "res " + c.id + " unsupported"
	}
	setRecorder(nil)
	var n, afterTerm int64
	var done int32
	ctx, cancel := context.WithCancel(ctxFromMarks([]int{7}))
	defer cancel()
	returned := make(chan ro.Subscription, 1)
	go func() {
		returned <- mk().SubscribeWithContext(ctx, ro.NewObserver(func(int) {
			atomic.AddInt64(&n, 1)
			if atomic.LoadInt32(&done) == 1 {
				atomic.AddInt64(&afterTerm, 1)
			}
		}, func(error) { atomic.StoreInt32(&done, 1) }, func() { atomic.StoreInt32(&done, 1) }))
	}()
	var sub ro.Subscription
	ret := 0
	select {
	case sub = <-returned:
		ret = 1
	case <-time.After(400 * time.Millisecond):
	}
	time.Sleep(2 * time.Millisecond)
	cancel()
	deadline := time.Now().Add(400 * time.Millisecond)
	for atomic.LoadInt32(&done) == 0 && time.Now().Before(deadline) {
		time.Sleep(200 * time.Microsecond)
	}
	ended := int(atomic.LoadInt32(&done))
	// silence: no value is delivered during the next few periods
	before := atomic.LoadInt64(&n)
	time.Sleep(4 * time.Millisecond)
	rel := 0
	if ended == 1 && atomic.LoadInt64(&n) == before && atomic.LoadInt64(&afterTerm) == 0 {
		rel = 1
	}
	if sub != nil {
		sub.Unsubscribe()
	}
	return fmt.Sprintf("res %s ended=%d returned=%d released=%d", c.id, ended, ret, rel)
}

func runCancelCase(c *Case) string {
	name := c.get("op", "?")
	term := c.get("term", "unsub")
	if term == "ctx" {
		return runCancelSource(c)
	}
	var op intOp
	if co, ok := cancelOps[name]; ok {
		op = co.mk()
	} else {
		spec := findOp(name)
		if spec == nil || !spec.chain {
			return "res " + c.id + " unsupported"
		}
		var cbs []Cb
		if s := c.get("cb", "-"); s != "-" {
			cbs = []Cb{parseCb(s)}
		}
		ap, err := spec.mk(parseInts(c.get("p", "-")), c.get("var", "plain"), cbs)
		if err != nil {
			return "res " + c.id + " unsupported"
		}
		op = func(src ro.Observable[int]) ro.Observable[int] { return ap(src).obs.(ro.Observable[int]) }
	}
	probe := &neverProbe{}
	cancelProbe = probe
	srcObs := probe.Observable()
	if c.get("src", "-") == "silent" {
		srcObs = probe.Silent()
	}
	obs := op(srcObs)
	if term == "take1" {
		obs = ro.Take[int](1)(obs)
	}
	rec := &Recorder{}
	setRecorder(nil)
	var sub ro.Subscription
	returned := make(chan struct{})
	go func() {
		defer func() { recover() }()
		sub = obs.SubscribeWithContext(ctxFromMarks([]int{7}), observer[int](rec))
		close(returned)
	}()
	const grace = 400 * time.Millisecond
	wait := func(cond func() bool, d time.Duration) bool {
		deadline := time.Now().Add(d)
		for time.Now().Before(deadline) {
			if cond() {
				return true
			}
			time.Sleep(200 * time.Microsecond)
		}
		return cond()
	}
	isReturned := func() bool {
		select {
		case <-returned:
			return true
		default:
			return false
		}
	}
	ended := false
	switch term {
	case "take1":
		// downstream ends by itself once a value came through
		ended = wait(func() bool {
			rec.mu.Lock()
			defer rec.mu.Unlock()
			n := len(rec.trace)
			return n > 0 && (rec.trace[n-1][0] == 'C' || rec.trace[n-1][0] == 'E')
		}, 2*time.Second)
	default:
		// external Unsubscribe: needs the handle, i.e. Subscribe must have returned
		if wait(isReturned, grace) {
			if term != "unsub0" { // unsub0: at once, before an operator that subscribes its source later has done so
				time.Sleep(time.Millisecond)
			}
			sub.Unsubscribe()
			ended = true
		}
	}
	ret, rel := 0, 0
	if wait(isReturned, grace) {
		ret = 1
	}
	if ended && wait(func() bool {
		return atomic.LoadInt32(&probe.teardowns) >= atomic.LoadInt32(&probe.subs) && atomic.LoadInt32(&probe.subs) > 0
	}, grace) {
		rel = 1
	}
	e := 0
	if ended {
		e = 1
	}
	return fmt.Sprintf("res %s ended=%d returned=%d released=%d", c.id, e, ret, rel)
}

func genCancel(tier string, seed int64, only string) []*Case {
	var cases []*Case
	id := 0
	add := func(kv ...string) {
		id++
		cases = append(cases, newCase(id, append([]string{"kind", "cancel"}, kv...)...))
	}
	var srcNames, opNames []string
	for name := range cancelSources {
		srcNames = append(srcNames, name)
	}
	for name := range cancelOps {
		opNames = append(opNames, name)
	}
	sortStrings(srcNames)
	sortStrings(opNames) // (map iteration order differs from process to process: the shards must see the same list)
	for _, name := range srcNames {
		add("op", "src:"+name, "row", "-", "term", "ctx")
	}
	for _, name := range opNames {
		co := cancelOps[name]
		for _, term := range []string{"unsub", "take1", "unsub0"} {
			if term == "take1" && (name == "Delay") {
				continue
			}
			if term == "unsub0" && name != "ToChannel" && name != "SubscribeOn" && name != "Delay" {
				continue
			}
			add("op", name, "row", co.row, "term", term)
			if strings.HasSuffix(name, "InnerOpen") && term == "take1" {
				// the set-ups whose downstream ends DURING the subscription of an inner source: repeated (a run is judged on
				// re-runs, see recheck; one case alone can slip through on a loaded machine)
				add("op", name, "row", co.row, "term", term, "rep", "1")
				add("op", name, "row", co.row, "term", term, "rep", "2")
			}
			if term != "take1" || name == "ToChannel" {
				add("op", name, "row", co.row, "term", term, "src", "silent")
			}
		}
	}
	// pass-value chainable operators: both terminators; every chainable operator: external unsubscribe
	passValue := map[string][2]string{"Map": {"plain", "dbl"}, "Filter": {"plain", "T"}, "Scan": {"plain", "add"}, "Tap": {"plain", "-"},
		"Skip": {"plain", "-"}, "StartWith": {"plain", "-"}, "TakeWhile": {"plain", "T"}, "Distinct": {"plain", "-"}, "Serialize": {"plain", "-"}, "TapOnFinalize": {"plain", "-"}}
	for _, spec := range opSpecs {
		if !spec.chain {
			continue
		}
		variant := spec.variants[0]
		cb := "-"
		if l := cbChoices(spec.cbKind, variant); len(l) > 0 {
			cb = l[0]
		}
		p := spec.params[len(spec.params)-1]
		if pv, ok := passValue[spec.name]; ok {
			add("op", spec.name, "row", "-", "p", intsString(p), "var", pv[0], "cb", pv[1], "term", "take1")
		}
		if (spec.name == "Take" || spec.name == "TakeLast") && p[0] == 0 {
			continue
		}
		add("op", spec.name, "row", "-", "p", intsString(p), "var", variant, "cb", cb, "term", "unsub")
	}
	return cases
}

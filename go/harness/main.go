package main

// harness: generates cases, runs them on the real library (built from /repo's working tree)
// and writes the case lines and the canonical result lines. The same case lines are fed to the
// Lean driver; the two result streams must be identical.
//
//   harness <kind> -tier quick|thorough -seed N -shard i/n -cases FILE -res FILE
//   harness replay -cases FILE -res FILE      (run the given case lines, any kind)
//   harness <kind> -tier … -seed N -list      (print the generated case lines, run nothing)

import (
	"bufio"
	"flag"
	"fmt"
	"os"
	"strconv"
	"strings"
	"sync"
)

type Case struct {
	id     string
	fields map[string]string
	order  []string
	dirty  bool // a field was set by a batch preparer after parsing / generation
	stub   bool // generated for another shard: carries nothing (see genShard)
}

// While a generator runs for shard i of n, only every n-th case it creates (by creation order, starting at i) is built in
// full; the others are one shared stub that the caller drops. Every shard process runs the same deterministic generator, so
// the creation order is the same everywhere and each case is built in exactly one shard. (Building the whole case list in
// each of 8 shard processes cost 8 x 11 GB in the thorough tier of kind=share: the kernel killed a shard.)
var (
	genShardI, genShardN = 0, 1
	genCounter           int
	stubCase             = &Case{id: "stub", fields: map[string]string{}, stub: true}
)

func (c *Case) get(k, d string) string {
	if v, ok := c.fields[k]; ok {
		return v
	}
	return d
}

// set adds (or replaces) a field of the case line after the case ran: kinds whose tie is the
// acceptance of an observed trace record the observation in the case line (obs=...), and the
// case file is rewritten after the run so that the Lean driver reads what was observed.
var casesDirty bool
var caseMu sync.Mutex

func (c *Case) set(k, v string) {
	if c.stub {
		return
	}
	caseMu.Lock()
	defer caseMu.Unlock()
	if _, ok := c.fields[k]; !ok {
		c.order = append(c.order, k)
	}
	c.fields[k] = v
	c.dirty = true
	casesDirty = true
}

func (c *Case) line() string {
	caseMu.Lock()
	defer caseMu.Unlock()
	var sb strings.Builder
	sb.WriteString("case " + c.id)
	for _, k := range c.order {
		sb.WriteString(" " + k + "=" + c.fields[k])
	}
	return sb.String()
}

func newCase(id int, kv ...string) *Case {
	if genShardN > 1 && id > 0 { // (id 0: an auxiliary case a generator builds to probe the implementation; always real, not counted)
		k := genCounter
		genCounter++
		if k%genShardN != genShardI {
			return stubCase
		}
	}
	c := &Case{id: strconv.Itoa(id), fields: map[string]string{}}
	for i := 0; i+1 < len(kv); i += 2 {
		c.fields[kv[i]] = kv[i+1]
		c.order = append(c.order, kv[i])
	}
	return c
}

func parseCaseLine(line string) *Case {
	f := strings.Fields(line)
	if len(f) < 2 || f[0] != "case" {
		return nil
	}
	c := &Case{id: f[1], fields: map[string]string{}}
	for _, kv := range f[2:] {
		if i := strings.IndexByte(kv, '='); i > 0 {
			c.fields[kv[:i]] = kv[i+1:]
			c.order = append(c.order, kv[:i])
		}
	}
	return c
}

func parseInts(s string) []int {
	if s == "-" || s == "" {
		return nil
	}
	var out []int
	for _, t := range strings.Split(s, ",") {
		v, err := strconv.Atoi(t)
		if err == nil {
			out = append(out, v)
		}
	}
	return out
}

func intsString(p []int) string {
	if len(p) == 0 {
		return "-"
	}
	parts := make([]string, len(p))
	for i, v := range p {
		parts[i] = strconv.Itoa(v)
	}
	return strings.Join(parts, ",")
}

// Kind registry: every case kind lives in its own file and registers itself from init():
//
//	registerKind("subject", genSubjectCases, runSubjectCase)
//
// `gen` produces the cases of a tier (the command-line kind name may differ from the `kind=`
// field, e.g. command "ops" generates kind=op cases); `run` executes one case on the real library.
type genFn func(tier string, seed int64, only string) []*Case
type runFn func(c *Case) string

var generators = map[string]genFn{}
var runners = map[string]runFn{}

func registerKind(genName string, gen genFn, caseKind string, run runFn) {
	if gen != nil {
		generators[genName] = gen
	}
	if run != nil {
		runners[caseKind] = run
	}
}

// Batch preparers: a kind whose cases are executed in real time (kind=timed) runs all the cases of
// a shard concurrently BEFORE the case file is written and stores what it observed in the case
// itself (`obs=`), so that the Lean driver judges exactly the trace the implementation produced.
// In replay mode the cases are re-executed and the case file is rewritten with the fresh observation.
type prepFn func(cases []*Case)

var preparers = map[string]prepFn{}

func registerPreparer(caseKind string, p prepFn) { preparers[caseKind] = p }

func prepare(cases []*Case) {
	for kind, p := range preparers {
		var mine []*Case
		for _, c := range cases {
			if c.get("kind", "op") == kind {
				mine = append(mine, c)
			}
		}
		if len(mine) > 0 {
			p(mine)
		}
	}
}

func writeCases(path string, cases []*Case) {
	cf, err := os.Create(path)
	if err != nil {
		fmt.Fprintln(os.Stderr, err)
		os.Exit(2)
	}
	w := bufio.NewWriter(cf)
	for _, c := range cases {
		w.WriteString(c.line() + "\n")
	}
	w.Flush()
	cf.Close()
}

func runCase(c *Case) string {
	if r, ok := runners[c.get("kind", "op")]; ok {
		return r(c)
	}
	return "res " + c.id + " unsupported-kind-" + c.get("kind", "op")
}

func main() {
	if len(os.Args) < 2 {
		fmt.Fprintln(os.Stderr, "usage: harness <kind|replay> [flags]")
		os.Exit(2)
	}
	kind := os.Args[1]
	fs := flag.NewFlagSet(kind, flag.ExitOnError)
	tier := fs.String("tier", "quick", "quick|thorough")
	seed := fs.Int64("seed", 1, "PRNG seed")
	shard := fs.String("shard", "0/1", "i/n")
	casesPath := fs.String("cases", "", "case file (written, or read for replay)")
	resPath := fs.String("res", "", "result file (written)")
	only := fs.String("only", "", "restrict generation to this operator")
	list := fs.Bool("list", false, "print the generated case lines and exit (nothing is run)")
	fs.Parse(os.Args[2:])
	if *list && kind != "replay" {
		for _, c := range generate(kind, *tier, *seed, *only) {
			fmt.Println(c.line())
		}
		return
	}
	var si, sn int
	fmt.Sscanf(*shard, "%d/%d", &si, &sn)
	if sn <= 0 {
		sn = 1
	}

	installHooks()

	var cases []*Case
	if kind == "replay" {
		f, err := os.Open(*casesPath)
		if err != nil {
			fmt.Fprintln(os.Stderr, err)
			os.Exit(2)
		}
		sc := bufio.NewScanner(f)
		sc.Buffer(make([]byte, 1<<20), 1<<24)
		for sc.Scan() {
			if c := parseCaseLine(sc.Text()); c != nil {
				cases = append(cases, c)
			}
		}
		f.Close()
		prepare(cases)
		for _, c := range cases {
			if c.dirty {
				writeCases(*casesPath, cases)
				break
			}
		}
	} else {
		genShardI, genShardN, genCounter = si, sn, 0
		all := generate(kind, *tier, *seed, *only)
		genShardN = 1
		for _, c := range all {
			if !c.stub {
				cases = append(cases, c)
			}
		}
		prepare(cases)
		writeCases(*casesPath, cases)
	}
	rf, err := os.Create(*resPath)
	if err != nil {
		fmt.Fprintln(os.Stderr, err)
		os.Exit(2)
	}
	w := bufio.NewWriter(rf)
	for _, c := range cases {
		w.WriteString(runCaseGuarded(c) + "\n")
	}
	w.Flush()
	rf.Close()
	if casesDirty {
		cf, err := os.Create(*casesPath)
		if err != nil {
			fmt.Fprintln(os.Stderr, err)
			os.Exit(2)
		}
		cw := bufio.NewWriter(cf)
		for _, c := range cases {
			cw.WriteString(c.line() + "\n")
		}
		cw.Flush()
		cf.Close()
	}
}

func generate(kind, tier string, seed int64, only string) []*Case {
	if g, ok := generators[kind]; ok {
		return g(tier, seed, only)
	}
	fmt.Fprintln(os.Stderr, "unknown kind", kind)
	os.Exit(2)
	return nil
}

package main

// kind=leak (C03, operator half — validation/search): for every operator that starts a goroutine or
// a timer on behalf of a subscription, end the stream in each of the three ways (source completes,
// source errors, external Unsubscribe) and check, after a grace period, that no goroutine created
// by the library is still alive and that the source probe was released exactly once.
// The model side (RoProps/C03, C14) says: leaked=0 released=1 for every such case.

import (
	"context"
	"fmt"
	"os"
	"regexp"
	"runtime"
	"strings"
	"sync"
	"time"

	"github.com/samber/ro"
)

func init() { registerKind("leak", genLeak, "leak", runLeakCase) }

// a goroutine belongs to the library when the `go` statement that created it sits in a file of the
// repository under check (function names are unreliable: generic instantiations get inlined into
// the caller's name)
func repoRoot() string {
	if r := os.Getenv("VERIF_REPO"); r != "" {
		return strings.TrimRight(r, "/") + "/"
	}
	return "/repo/"
}

var createdBy = regexp.MustCompile(`created by [^\n]*\n\t([^\s:]+):(\d+)`)

func roGoroutines() []string {
	buf := make([]byte, 1<<20)
	n := runtime.Stack(buf, true)
	root := repoRoot()
	var out []string
	for _, g := range strings.Split(string(buf[:n]), "\n\n") {
		m := createdBy.FindStringSubmatch(g)
		if m != nil && strings.HasPrefix(m[1], root) {
			out = append(out, strings.TrimPrefix(m[1], root)+":"+m[2])
		}
	}
	return out
}

type leakOp struct {
	// build subscribes and returns the subscription; src is nil for creation operators
	sub func(src ro.Observable[int], rec *Recorder) ro.Subscription
	src bool
}

func subAny[T any](o ro.Observable[T], rec *Recorder) ro.Subscription {
	return o.SubscribeWithContext(ctxFromMarks([]int{7}), observer[T](rec))
}

var leakOps = map[string]leakOp{
	"Interval": {func(_ ro.Observable[int], r *Recorder) ro.Subscription {
		return subAny(ro.Interval(time.Millisecond), r)
	}, false},
	"IntervalWithInitial": {func(_ ro.Observable[int], r *Recorder) ro.Subscription {
		return subAny(ro.IntervalWithInitial(time.Millisecond, time.Millisecond), r)
	}, false},
	"RangeWithInterval": {func(_ ro.Observable[int], r *Recorder) ro.Subscription {
		return subAny(ro.RangeWithInterval(0, 1000, time.Millisecond), r)
	}, false},
	"Never": {func(_ ro.Observable[int], r *Recorder) ro.Subscription { return subAny(ro.Never(), r) }, false},
	"FromChannel": {func(_ ro.Observable[int], r *Recorder) ro.Subscription {
		ch := make(chan int)
		return subAny(ro.FromChannel[int](ch), r)
	}, false},
	"ThrowOnContextCancel": {func(s ro.Observable[int], r *Recorder) ro.Subscription {
		return subAny(ro.ThrowOnContextCancel[int]()(s), r)
	}, true},
	"Delay": {func(s ro.Observable[int], r *Recorder) ro.Subscription {
		return subAny(ro.Delay[int](2*time.Millisecond)(s), r)
	}, true},
	"Timeout": {func(s ro.Observable[int], r *Recorder) ro.Subscription {
		return subAny(ro.Timeout[int](50*time.Millisecond)(s), r)
	}, true},
	"ObserveOn": {func(s ro.Observable[int], r *Recorder) ro.Subscription { return subAny(ro.ObserveOn[int](2)(s), r) }, true},
	"ToChannel": {func(s ro.Observable[int], r *Recorder) ro.Subscription {
		// a consumer that drains the channel (otherwise the bounded channel rightly blocks the producer)
		return ro.ToChannel[int](2)(s).SubscribeWithContext(ctxFromMarks([]int{7}), ro.NewObserver(
			func(ch <-chan ro.Notification[int]) {
				go func() {
					for range ch {
					}
				}()
			}, func(error) {}, func() {}))
	}, true},
	"BufferWithTime": {func(s ro.Observable[int], r *Recorder) ro.Subscription {
		return subAny(ro.BufferWithTime[int](time.Millisecond)(s), r)
	}, true},
	"BufferWithTimeOrCount": {func(s ro.Observable[int], r *Recorder) ro.Subscription {
		return subAny(ro.BufferWithTimeOrCount[int](2, time.Millisecond)(s), r)
	}, true},
	// only count-triggered batches (the ticker never fires): the batch is delivered from the source's callback
	"BufferWithTimeOrCountByCount": {func(s ro.Observable[int], r *Recorder) ro.Subscription {
		return subAny(ro.BufferWithTimeOrCount[int](2, time.Hour)(s), r)
	}, true},
	"SampleTime": {func(s ro.Observable[int], r *Recorder) ro.Subscription {
		return subAny(ro.SampleTime[int](time.Millisecond)(s), r)
	}, true},
	"ThrottleTime": {func(s ro.Observable[int], r *Recorder) ro.Subscription {
		return subAny(ro.ThrottleTime[int](time.Millisecond)(s), r)
	}, true},
	"TakeUntilInterval": {func(s ro.Observable[int], r *Recorder) ro.Subscription {
		return subAny(ro.TakeUntil[int](ro.Interval(time.Hour))(s), r)
	}, true},
	// an asynchronous OUTER source (the library's own ticker goroutine) whose value is projected to an inner source that never
	// ends: ConcatAll keeps that goroutine inside the delivery of the outer value until the inner subscription is over - and an
	// external Unsubscribe ends it without any terminal reaching the inner observer
	"FlatMapInterval": {func(_ ro.Observable[int], r *Recorder) ro.Subscription {
		return subAny(ro.FlatMap(func(v int64) ro.Observable[int] { return neverInt() })(ro.Interval(time.Millisecond)), r)
	}, false},
	"MergeWithInterval": {func(s ro.Observable[int], r *Recorder) ro.Subscription {
		return subAny(ro.MergeWith(ro.Map(func(v int64) int { return int(v) })(ro.Interval(time.Millisecond)))(s), r)
	}, true},
}

// again=1: the SAME observable value is subscribed a second time (what Retry / Repeat / Share / a second user do); the
// first subscription is closed before, the second one is the measured one. State that an operator keeps per observable
// value instead of per subscription (a sync.Once, a flag, a channel) shows here and nowhere in a single subscription.
var leakReuse = map[string]func(ro.Observable[int]) ro.Observable[int]{
	"ThrowOnContextCancel": func(s ro.Observable[int]) ro.Observable[int] { return ro.ThrowOnContextCancel[int]()(s) },
	"Delay":                func(s ro.Observable[int]) ro.Observable[int] { return ro.Delay[int](2 * time.Millisecond)(s) },
	"Timeout":              func(s ro.Observable[int]) ro.Observable[int] { return ro.Timeout[int](50 * time.Millisecond)(s) },
	"ObserveOn":            func(s ro.Observable[int]) ro.Observable[int] { return ro.ObserveOn[int](2)(s) },
	"BufferWithTime": func(s ro.Observable[int]) ro.Observable[int] {
		return lenOf(ro.BufferWithTime[int](time.Millisecond)(s))
	},
	"BufferWithTimeOrCount": func(s ro.Observable[int]) ro.Observable[int] {
		return lenOf(ro.BufferWithTimeOrCount[int](2, time.Millisecond)(s))
	},
	"SampleTime":   func(s ro.Observable[int]) ro.Observable[int] { return ro.SampleTime[int](time.Millisecond)(s) },
	"ThrottleTime": func(s ro.Observable[int]) ro.Observable[int] { return ro.ThrottleTime[int](time.Millisecond)(s) },
	"TakeUntilInterval": func(s ro.Observable[int]) ro.Observable[int] {
		return ro.TakeUntil[int](ro.Interval(time.Hour))(s)
	},
}

func runLeakCase(c *Case) string {
	op, ok := leakOps[c.get("op", "?")]
	if !ok {
		return "res " + c.id + " unsupported"
	}
	again := c.get("again", "0") == "1"
	if again {
		if _, ok := leakReuse[c.get("op", "?")]; !ok || !op.src {
			return "res " + c.id + " unsupported"
		}
	}
	end := c.get("end", "unsub")
	setRecorder(nil)
	// let goroutines of earlier cases drain
	waitNoRo := func(d time.Duration) []string {
		deadline := time.Now().Add(d)
		for {
			l := roGoroutines()
			if len(l) == 0 || time.Now().After(deadline) {
				return l
			}
			time.Sleep(time.Millisecond)
		}
	}
	waitNoRo(300 * time.Millisecond)
	rec := &Recorder{}
	// end=inside: the downstream side closes the subscription from INSIDE the delivery of a value (what Take,
	// First, TakeWhile … further down a chain do when they complete on that value): the operator's teardown runs
	// on the goroutine that is emitting, while the operator is still in the middle of its emission
	var subMu sync.Mutex
	var subHolder ro.Subscription
	cutInside := false
	if end == "inside" {
		rec.afterN = func() {
			subMu.Lock()
			s, done := subHolder, cutInside
			if s != nil {
				cutInside = true
			}
			subMu.Unlock()
			if s != nil && !done {
				s.Unsubscribe()
			}
		}
	}
	script := []Tok{{'N', 1, 1}, {'N', 2, 2}, {'N', 3, 3}}
	switch end {
	case "complete":
		script = append(script, Tok{'C', 0, 4})
	case "error":
		script = append(script, Tok{'E', 1, 4})
	}
	probe := &Probe{script: script}
	var sub ro.Subscription
	wantTeardowns := 1
	if again {
		obs := leakReuse[c.get("op", "?")](probe.Observable())
		first := subAny(obs, &Recorder{})
		for deadline := time.Now().Add(2 * time.Second); time.Now().Before(deadline); time.Sleep(200 * time.Microsecond) {
			probe.mu.Lock()
			n := probe.subs
			probe.mu.Unlock()
			if n > 0 {
				break
			}
		}
		first.Unsubscribe()
		waitNoRo(300 * time.Millisecond)
		probe.mu.Lock()
		probe.subs = 0
		probe.mu.Unlock()
		wantTeardowns = 2
		op = leakOp{func(_ ro.Observable[int], r *Recorder) ro.Subscription { return subAny(obs, r) }, true}
	}
	if op.src {
		sub = op.sub(probe.Observable(), rec)
		subMu.Lock()
		subHolder = sub
		subMu.Unlock()
		// operators that subscribe their source from a goroutine of their own (ToChannel sleeps 1 ms
		// first): wait until the probe has been subscribed before playing the script
		for deadline := time.Now().Add(2 * time.Second); time.Now().Before(deadline); time.Sleep(200 * time.Microsecond) {
			probe.mu.Lock()
			n := probe.subs
			probe.mu.Unlock()
			if n > 0 {
				break
			}
		}
		for i := range script {
			// a push that never returns (a teardown run from inside the delivery waits for a lock the emitting goroutine
			// holds): reported, not waited for
			pushed := make(chan struct{})
			go func(i int) { defer close(pushed); probe.push(i) }(i)
			select {
			case <-pushed:
			case <-time.After(2 * time.Second):
				return fmt.Sprintf("res %s leaked=1 released=0 closed=0 who=push-%d-never-returned", c.id, i)
			}
			time.Sleep(300 * time.Microsecond)
		}
	} else {
		sub = op.sub(nil, rec)
		subMu.Lock()
		subHolder = sub
		subMu.Unlock()
		time.Sleep(3 * time.Millisecond)
		if end != "inside" {
			end = "unsub"
		}
	}
	if end == "inside" {
		// everything has been pushed; give the timers a moment to deliver, then (if nothing was ever delivered,
		// e.g. SampleTime without a tick in between) close from outside so that the case still ends
		time.Sleep(5 * time.Millisecond)
		subMu.Lock()
		cut := cutInside
		cutInside = true
		subMu.Unlock()
		if !cut {
			sub.Unsubscribe()
		}
	}
	if end == "unsub" {
		time.Sleep(2 * time.Millisecond)
		sub.Unsubscribe()
	}
	left := waitNoRo(500 * time.Millisecond)
	leaked := 0
	if len(left) > 0 {
		leaked = 1
	}
	rel := 1
	if op.src && probe.teardowns != wantTeardowns {
		rel = (probe.teardowns - wantTeardowns + 1) * 10 // 0 = never released, 20 = released twice, …
	}
	closed := 0
	for deadline := time.Now().Add(200 * time.Millisecond); time.Now().Before(deadline); time.Sleep(time.Millisecond) {
		if sub.IsClosed() {
			closed = 1
			break
		}
	}
	who := "-"
	if leaked == 1 {
		who = strings.Join(left, "+")
	}
	return fmt.Sprintf("res %s leaked=%d released=%d closed=%d who=%s", c.id, leaked, rel, closed, who)
}

func genLeak(tier string, seed int64, only string) []*Case {
	var names []string
	for k := range leakOps {
		names = append(names, k)
	}
	sortStrings(names)
	var cases []*Case
	id := 0
	for _, n := range names {
		if only != "" && n != only {
			continue
		}
		ends := []string{"unsub"}
		if leakOps[n].src && n != "MergeWithInterval" {
			ends = []string{"unsub", "complete", "error"}
		}
		if n != "ToChannel" && n != "Never" && n != "FromChannel" { // ToChannel delivers a channel, not values; the other two never deliver
			ends = append(ends, "inside")
		}
		for _, e := range ends {
			id++
			cases = append(cases, newCase(id, "kind", "leak", "op", n, "end", e))
		}
		if _, ok := leakReuse[n]; ok {
			for _, e := range []string{"unsub", "complete", "error"} {
				id++
				cases = append(cases, newCase(id, "kind", "leak", "op", n, "end", e, "again", "1"))
			}
		}
	}
	return cases
}

var _ = context.Background

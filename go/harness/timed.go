package main

// kind=timed (property C16): the time-driven operators are driven in REAL time.
//
// A case names an operator, its durations (integer microseconds), the inter-arrival gaps of the
// source timeline, how the source ends, an optional slow consumer and an optional cut
// (Unsubscribe from outside at an instant, Unsubscribe from inside the k-th delivery, or
// cancellation of the subscription context at an instant). The harness runs the case on the real
// library, stamps
//   - every source emission just BEFORE the call into the operator (t0) and just AFTER it returned (t1),
//   - every downstream delivery at the ENTRY (t0) and at the EXIT (t1) of the recording observer,
//   - the subscription just BEFORE Subscribe is called, the cut just BEFORE and just AFTER the call,
// with one monotonic clock (integer microseconds since process start, truncated), and stores the
// observed timed trace in the case line as `obs=`. The Lean driver only evaluates the proved acceptor
// `Ro.Timed.accepts` on that trace; the implementation side prints the verdict that every trace of
// the real code must get, `accept=1`.
//
// Only lower bounds on time and order/count relations are judged, so a loaded machine (everything
// later than asked) cannot produce a rejected trace. Stamps are placed on the safe side of every
// bound: "before" stamps are taken before the event they bound from below, "after" stamps after.
//
//   obs=<sub>|<emits>|<deliveries>|<cut>|<flags>
//     emits, deliveries: t0:t1:<notif>,…   notif = N<v> | B<v.v.v> | Eu<n> | Eto | Ecc | Eot | C
//     cut: - | u:<u0>:<u1> | i:<k>:<u0>:<u1> | c:<c0>:<c1>
//     flags: - | T   (T: a terminal that the cancellation must produce did not arrive within the guard,
//                     or 40 further deliveries were seen without it)

import (
	"context"
	"errors"
	"fmt"
	"math"
	"math/rand"
	"runtime"
	"sort"
	"strconv"
	"strings"
	"sync"
	"sync/atomic"
	"time"

	"github.com/samber/ro"
)

func init() {
	registerKind("timed", genTimed, "timed", runTimedCase)
	registerPreparer("timed", prepareTimed)
}

var timedBase = time.Now()

func nowUs() int64 { return time.Since(timedBase).Microseconds() }

// us: n microseconds; saturates at the largest Duration ("for ever": time.Duration(math.MaxInt64), the idiomatic way to say it)
func us(n int) time.Duration {
	if n >= timedForever {
		return time.Duration(math.MaxInt64)
	}
	return time.Duration(n) * time.Microsecond
}

// timedForever: the d= of a case that means time.Duration(math.MaxInt64), in microseconds
const timedForever = math.MaxInt64 / 1000

// waitD: the configured duration as far as the harness's own waiting is concerned (a "for ever" window is not waited for)
func waitD(d int) int {
	if d > 1000000 {
		return 1000000
	}
	return d
}

// ---------- recorder ----------

type tEntry struct {
	seq    int64
	t0, t1 int64
	n      string
}

type tRec struct {
	mu       sync.Mutex
	entries  []tEntry
	seq      int64
	slowK    int // delivery index that sleeps (‑1: none)
	slowUs   int
	cutInK   int // delivery index that unsubscribes from inside (‑1: none)
	subReady chan struct{}
	sub      ro.Subscription
	cutDone  int32
	cutSet   bool
	cutK     int
	cutU0    int64
	cutU1    int64
	terminal chan struct{}
	termOnce sync.Once
	guard    spareGuard
}

func newTRec() *tRec {
	return &tRec{slowK: -1, cutInK: -1, subReady: make(chan struct{}), terminal: make(chan struct{})}
}

func (r *tRec) deliver(n string, isTerminal bool) {
	k := int(atomic.AddInt64(&r.seq, 1) - 1)
	t0 := nowUs()
	if k == r.slowK && r.slowUs > 0 {
		time.Sleep(us(r.slowUs))
	}
	cutHere := false
	var u0, u1 int64
	if k == r.cutInK {
		select {
		case <-r.subReady:
			if atomic.CompareAndSwapInt32(&r.cutDone, 0, 1) {
				u0 = nowUs()
				r.sub.Unsubscribe()
				u1 = nowUs()
				cutHere = true
			}
		default: // delivered synchronously inside Subscribe: no handle yet, the cut is not performed
		}
	}
	t1 := nowUs()
	r.mu.Lock()
	r.entries = append(r.entries, tEntry{int64(k), t0, t1, n})
	if cutHere {
		r.cutSet, r.cutK, r.cutU0, r.cutU1 = true, k, u0, u1
	}
	r.mu.Unlock()
	if isTerminal {
		r.termOnce.Do(func() { close(r.terminal) })
	}
}

// snapshot: the deliveries completed so far, in delivery order, and the cut made from inside one of
// them (taken together, so that the trace is a consistent prefix of what happened)
func (r *tRec) snapshot() ([]tEntry, string) {
	r.mu.Lock()
	out := append([]tEntry(nil), r.entries...)
	cut := ""
	if r.cutSet {
		cut = fmt.Sprintf("i:%d:%d:%d", r.cutK, r.cutU0, r.cutU1)
	}
	r.mu.Unlock()
	sort.Slice(out, func(i, j int) bool { return out[i].seq < out[j].seq })
	// a delivery still inside its callback is missing: keep the longest gap-free prefix
	for i := range out {
		if out[i].seq != int64(i) {
			out = out[:i]
			break
		}
	}
	return out, cut
}

func renderTimedErr(err error) string {
	var u userErr
	if errors.As(err, &u) {
		return "Eu" + strconv.Itoa(u.n)
	}
	if err != nil && strings.HasPrefix(err.Error(), "ro.Timeout:") {
		return "Eto"
	}
	if errors.Is(err, context.Canceled) || errors.Is(err, context.DeadlineExceeded) {
		return "Ecc"
	}
	return "Eot"
}

func timedObserver[T any](r *tRec, render func(T) string) ro.Observer[T] {
	return ro.NewObserverWithContext(
		func(ctx context.Context, v T) { r.guard.claim(any(v)); r.deliver(render(v), false) },
		func(ctx context.Context, err error) { r.deliver(renderTimedErr(err), true) },
		func(ctx context.Context) { r.deliver("C", true) },
	)
}

func renderIntN(v int) string     { return "N" + strconv.Itoa(v) }
func renderInt64N(v int64) string { return "N" + strconv.FormatInt(v, 10) }
func renderDurN(v time.Duration) string {
	return "N" + strconv.FormatInt(int64(v/time.Microsecond), 10)
}
func renderBuf(v []int) string {
	parts := make([]string, len(v))
	for i, x := range v {
		parts[i] = strconv.Itoa(x)
	}
	return "B" + strings.Join(parts, ".")
}

// ---------- timed source ----------

// tSource emits 1, 2, …, len(gaps) (gap i before value i+1), then the terminal, from its own
// goroutine; it stops at the first opportunity once its teardown has run.
type tSource struct {
	gaps    []int
	term    string
	mu      sync.Mutex
	emits   []tEntry
	stopped int32
	done    chan struct{}
	started int32
}

func (s *tSource) observable() ro.Observable[int] {
	return ro.NewUnsafeObservableWithContext(func(ctx context.Context, dest ro.Observer[int]) ro.Teardown {
		if !atomic.CompareAndSwapInt32(&s.started, 0, 1) {
			return nil
		}
		go func() {
			defer close(s.done)
			rec := func(t0 int64, n string) {
				t1 := nowUs()
				s.mu.Lock()
				s.emits = append(s.emits, tEntry{0, t0, t1, n})
				s.mu.Unlock()
			}
			for i, g := range s.gaps {
				if g > 0 {
					time.Sleep(us(g))
				}
				if atomic.LoadInt32(&s.stopped) != 0 {
					return
				}
				t0 := nowUs()
				dest.NextWithContext(ctx, i+1)
				rec(t0, "N"+strconv.Itoa(i+1))
			}
			if atomic.LoadInt32(&s.stopped) != 0 {
				return
			}
			switch s.term {
			case "C":
				t0 := nowUs()
				dest.CompleteWithContext(ctx)
				rec(t0, "C")
			case "E":
				t0 := nowUs()
				dest.ErrorWithContext(ctx, userErr{7})
				rec(t0, "Eu7")
			}
		}()
		return func() { atomic.StoreInt32(&s.stopped, 1) }
	})
}

// ---------- configuration ----------

type tCfg struct {
	op      string
	d, d2   int // microseconds
	n       int
	a, b    int
	step    int // RangeWithStepAndInterval (integral bounds and step)
	item    int // RepeatWithInterval
	gaps    []int
	term    string
	slowK   int
	slowUs  int
	cutKind string // "-", "out", "in", "cancel", "deadline" (the subscription context carries a deadline that expires after cutArg µs)
	cutArg  int
}

func parseTCfg(c *Case) tCfg {
	atoi := func(s string) int { v, _ := strconv.Atoi(s); return v }
	cfg := tCfg{op: c.get("op", "?"), d: atoi(c.get("d", "0")), d2: atoi(c.get("d2", "0")), n: atoi(c.get("n", "0")),
		a: atoi(c.get("a", "0")), b: atoi(c.get("b", "0")), step: atoi(c.get("step", "1")), item: atoi(c.get("item", "0")), gaps: parseInts(c.get("gaps", "-")), term: c.get("term", "-"),
		slowK: -1, cutKind: "-"}
	if s := c.get("slow", "-"); s != "-" {
		p := strings.SplitN(s, ":", 2)
		if len(p) == 2 {
			cfg.slowK, cfg.slowUs = atoi(p[0]), atoi(p[1])
		}
	}
	if s := c.get("cut", "-"); s != "-" {
		p := strings.SplitN(s, ":", 2)
		if len(p) == 2 {
			cfg.cutKind, cfg.cutArg = p[0], atoi(p[1])
		}
	}
	return cfg
}

var timedSourceOps = map[string]bool{"Delay": true, "DelayEach": true, "Timeout": true, "ThrottleTime": true,
	"SampleTime": true, "BufferWithTime": true, "BufferWithTimeOrCount": true}

// operators that watch the subscription context (operator_creation.go:67,98,146 and everything fed by Interval)
var timedWatchesCtx = map[string]bool{"Timer": true, "Interval": true, "IntervalWithInitial": true, "RangeWithInterval": true, "RangeWithStepAndInterval": true, "RepeatWithInterval": true,
	"SampleTime": true, "BufferWithTime": true, "BufferWithTimeOrCount": true}

const timedGuard = 3 * time.Second

// deliveries after which a cancelled stream is no longer waited for (see runTimed)
const timedKeepsEmitting = 40

// ---------- running one case ----------

func runTimed(c *Case) string {
	cfg := parseTCfg(c)
	rec := newTRec()
	rec.slowK, rec.slowUs = cfg.slowK, cfg.slowUs
	if cfg.cutKind == "in" {
		rec.cutInK = cfg.cutArg
	}
	ctx, cancel := context.WithCancel(context.Background())
	defer cancel()
	src := &tSource{gaps: cfg.gaps, term: cfg.term, done: make(chan struct{})}
	hasSource := timedSourceOps[cfg.op]

	var subscribe func() ro.Subscription
	d := us(cfg.d)
	switch cfg.op {
	case "Delay":
		subscribe = func() ro.Subscription {
			return ro.Delay[int](d)(src.observable()).SubscribeWithContext(ctx, timedObserver(rec, renderIntN))
		}
	case "DelayEach":
		subscribe = func() ro.Subscription {
			return ro.DelayEach[int](d)(src.observable()).SubscribeWithContext(ctx, timedObserver(rec, renderIntN))
		}
	case "Timeout":
		subscribe = func() ro.Subscription {
			return ro.Timeout[int](d)(src.observable()).SubscribeWithContext(ctx, timedObserver(rec, renderIntN))
		}
	case "ThrottleTime":
		subscribe = func() ro.Subscription {
			return ro.ThrottleTime[int](d)(src.observable()).SubscribeWithContext(ctx, timedObserver(rec, renderIntN))
		}
	case "SampleTime":
		subscribe = func() ro.Subscription {
			return ro.SampleTime[int](d)(src.observable()).SubscribeWithContext(ctx, timedObserver(rec, renderIntN))
		}
	case "BufferWithTime":
		subscribe = func() ro.Subscription {
			return ro.BufferWithTime[int](d)(src.observable()).SubscribeWithContext(ctx, timedObserver(rec, renderBuf))
		}
	case "BufferWithTimeOrCount":
		subscribe = func() ro.Subscription {
			return ro.BufferWithTimeOrCount[int](cfg.n, d)(src.observable()).SubscribeWithContext(ctx, timedObserver(rec, renderBuf))
		}
	case "Interval":
		subscribe = func() ro.Subscription {
			return ro.Interval(d).SubscribeWithContext(ctx, timedObserver(rec, renderInt64N))
		}
	case "IntervalWithInitial":
		subscribe = func() ro.Subscription {
			return ro.IntervalWithInitial(us(cfg.d2), d).SubscribeWithContext(ctx, timedObserver(rec, renderInt64N))
		}
	case "Timer":
		subscribe = func() ro.Subscription {
			return ro.Timer(d).SubscribeWithContext(ctx, timedObserver(rec, renderDurN))
		}
	case "RangeWithInterval":
		subscribe = func() ro.Subscription {
			return ro.RangeWithInterval(int64(cfg.a), int64(cfg.b), d).SubscribeWithContext(ctx, timedObserver(rec, renderInt64N))
		}
	case "RepeatWithInterval":
		subscribe = func() ro.Subscription {
			return ro.RepeatWithInterval(cfg.item, int64(cfg.b), d).SubscribeWithContext(ctx, timedObserver(rec, renderIntN))
		}
	case "RangeWithStepAndInterval":
		// integral bounds and step: every value is an integer and float arithmetic on them is exact
		subscribe = func() ro.Subscription {
			return ro.RangeWithStepAndInterval(float64(cfg.a), float64(cfg.b), float64(cfg.step), d).SubscribeWithContext(ctx,
				timedObserver(rec, func(v float64) string {
					if v != float64(int64(v)) {
						return "N?" // not integral: unparsable on purpose
					}
					return renderInt64N(int64(v))
				}))
		}
	default:
		return "unsupported"
	}

	// cut=deadline:T — the subscription context EXPIRES by itself T µs from now (context.WithDeadline): for the library this is a
	// cancellation at that instant (an operator that watches its context raises the context's error then, not a value)
	var deadlineUs int64
	if cfg.cutKind == "deadline" {
		cancel()
		at := time.Now().Add(us(cfg.cutArg))
		deadlineUs = nowUs() + int64(cfg.cutArg)
		ctx, cancel = context.WithDeadline(context.Background(), at)
		defer cancel()
	}
	// Timer (and a mutant that blocks) waits inside Subscribe: subscribe on a goroutine of its own
	subStamp := nowUs()
	subscribed := make(chan struct{})
	go func() {
		defer func() {
			if r := recover(); r != nil {
				rec.deliver("Eot", true) // a panic escaping Subscribe: recorded as a delivery of an unknown error
			}
			close(subscribed)
		}()
		rec.sub = subscribe()
		close(rec.subReady)
	}()

	// the cut from outside
	cutDone := make(chan struct{})
	var cutStr = "-"
	switch cfg.cutKind {
	case "deadline":
		go func() {
			defer close(cutDone)
			select {
			case <-ctx.Done():
				cutStr = fmt.Sprintf("c:%d:%d", deadlineUs, nowUs())
			case <-time.After(timedGuard + us(cfg.cutArg)):
			}
		}()
	case "out", "cancel":
		go func() {
			defer close(cutDone)
			wait := us(cfg.cutArg) - time.Duration(nowUs()-subStamp)*time.Microsecond
			if wait > 0 {
				time.Sleep(wait)
			}
			if cfg.cutKind == "cancel" {
				c0 := nowUs()
				cancel()
				c1 := nowUs()
				cutStr = fmt.Sprintf("c:%d:%d", c0, c1)
				return
			}
			select {
			case <-rec.subReady:
			case <-time.After(timedGuard):
				return // Subscribe never returned: no handle, no cut
			}
			if atomic.CompareAndSwapInt32(&rec.cutDone, 0, 1) {
				u0 := nowUs()
				rec.sub.Unsubscribe()
				u1 := nowUs()
				cutStr = fmt.Sprintf("u:%d:%d", u0, u1)
			}
		}()
	default:
		close(cutDone)
	}

	flags := "-"
	// 1. the source plays its timeline (or stops at its teardown)
	if hasSource {
		select {
		case <-src.done:
		case <-time.After(timedGuard + us(sumInts(cfg.gaps)+len(cfg.gaps)*waitD(cfg.d))):
		}
	}
	<-cutDone
	// 2. where the model says the stream must end by itself, wait for the terminal (guard only)
	mustEnd := false
	switch {
	case (cfg.cutKind == "cancel" || cfg.cutKind == "deadline") && timedWatchesCtx[cfg.op]:
		mustEnd = true
	case cfg.op == "Timer" && cfg.cutKind == "-":
		mustEnd = true
	case (cfg.op == "RangeWithInterval" || cfg.op == "RangeWithStepAndInterval" || cfg.op == "RepeatWithInterval") && cfg.cutKind == "-":
		mustEnd = true
	}
	if mustEnd {
		// Keep observing until the terminal arrives; give up at the guard, or as soon as the stream has
		// plainly not fallen silent (timedKeepsEmitting further deliveries since this point - far more
		// than the acceptor's count clause for cancellation allows). A missing terminal alone is only
		// a harness-timeout note; continued emission is in `obs=` and is judged by the acceptor.
		seq0 := atomic.LoadInt64(&rec.seq)
		deadline := time.After(timedGuard)
		tick := time.NewTicker(time.Millisecond)
	wait:
		for {
			select {
			case <-rec.terminal:
				break wait
			case <-deadline:
				flags = "T"
				break wait
			case <-tick.C:
				if atomic.LoadInt64(&rec.seq)-seq0 >= timedKeepsEmitting {
					flags = "T"
					break wait
				}
			}
		}
		tick.Stop()
	}
	// 3. watch for late activity: everything that could still arrive arrives within the largest duration
	settle := 2*waitD(cfg.d) + 3000
	if cfg.d >= timedForever {
		settle = 3000
	}
	if cfg.op == "IntervalWithInitial" && cfg.d2 > cfg.d {
		settle = 2*cfg.d2 + 3000
	}
	if cfg.slowK >= 0 {
		settle += cfg.slowUs
	}
	select {
	case <-rec.terminal:
		time.Sleep(us(1500)) // silence after the terminal
	case <-time.After(us(settle)):
	}
	dels, cutIn := rec.snapshot()
	src.mu.Lock()
	emits := append([]tEntry(nil), src.emits...)
	src.mu.Unlock()
	if cutIn != "" {
		cutStr = cutIn
	}
	// release whatever is left (not part of the observation)
	cancel()
	select {
	case <-rec.subReady:
		rec.sub.Unsubscribe()
	default:
	}
	atomic.StoreInt32(&src.stopped, 1)
	if rec.guard.bad() {
		c.set("spare", "bad")
	}

	return strconv.FormatInt(subStamp, 10) + "|" + renderEntries(emits) + "|" + renderEntries(dels) + "|" + cutStr + "|" + flags
}

func sumInts(l []int) int {
	s := 0
	for _, v := range l {
		s += v
	}
	return s
}

func renderEntries(es []tEntry) string {
	if len(es) == 0 {
		return "-"
	}
	parts := make([]string, len(es))
	for i, e := range es {
		parts[i] = strconv.FormatInt(e.t0, 10) + ":" + strconv.FormatInt(e.t1, 10) + ":" + e.n
	}
	return strings.Join(parts, ",")
}

// ---------- batch execution (all the cases of a shard concurrently) ----------

func prepareTimed(cases []*Case) {
	par := 6 * runtime.NumCPU()
	if par > 96 {
		par = 96
	}
	if par > len(cases) {
		par = len(cases)
	}
	ch := make(chan *Case)
	var wg sync.WaitGroup
	for w := 0; w < par; w++ {
		wg.Add(1)
		go func() {
			defer wg.Done()
			for c := range ch {
				func() {
					defer func() {
						if r := recover(); r != nil {
							c.set("obs", "harness-panic:"+strings.ReplaceAll(fmt.Sprint(r), " ", "_"))
						}
					}()
					c.set("obs", runTimed(c))
				}()
			}
		}()
	}
	for _, c := range cases {
		ch <- c
	}
	close(ch)
	wg.Wait()
}

// The verdict every trace of the real code must get. (The observation itself is in the case line.)
func runTimedCase(c *Case) string {
	obs := c.get("obs", "")
	if obs == "" {
		c.set("obs", runTimed(c))
		obs = c.get("obs", "")
	}
	if obs == "unsupported" {
		return "res " + c.id + " unsupported"
	}
	if strings.HasPrefix(obs, "harness-panic") {
		return "res " + c.id + " " + strings.Replace(obs, ":", "=", 1)
	}
	res := "res " + c.id + " accept=1"
	if strings.HasSuffix(obs, "|T") {
		res += " hto=1"
	}
	if c.get("spare", "") == "bad" {
		res += " _flag=spare-capacity-of-a-delivered-slice-overwritten"
	}
	return res
}

// ---------- generation ----------

func tCase(id int, op string, kv ...string) *Case {
	return newCase(id, append([]string{"kind", "timed", "op", op}, kv...)...)
}

func gapsString(g []int) string { return intsString(g) }

// a source timeline: bursts, gaps around the configured duration, long gaps
func genGaps(r *rand.Rand, d int, maxN int) []int {
	n := r.Intn(maxN + 1)
	style := r.Intn(5)
	out := make([]int, n)
	for i := range out {
		switch style {
		case 0: // burst
			out[i] = 0
		case 1: // around d
			out[i] = d + []int{-600, -200, 0, 200, 600}[r.Intn(5)]
		case 2: // short gaps
			out[i] = d / (2 + r.Intn(4))
		case 3: // bursts separated by one long gap
			if r.Intn(3) == 0 {
				out[i] = d + d/2 + r.Intn(d)
			}
		default:
			switch r.Intn(4) {
			case 0:
				out[i] = 0
			case 1:
				out[i] = d + []int{-600, -200, 0, 200, 600}[r.Intn(5)]
			case 2:
				out[i] = r.Intn(d)
			default:
				out[i] = d + r.Intn(d)
			}
		}
		if out[i] < 0 {
			out[i] = 0
		}
	}
	return out
}

func genTimed(tier string, seed int64, only string) []*Case {
	r := rand.New(rand.NewSource(seed*7919 + 16))
	id := 0
	var out []*Case
	add := func(op string, kv ...string) {
		if only != "" && only != op {
			return
		}
		id++
		out = append(out, tCase(id, op, kv...))
	}
	itoa := strconv.Itoa
	durs := []int{2000, 3000, 5000}
	perOp := 320
	maxN := 7
	if tier == "thorough" {
		durs = []int{1000, 2000, 3000, 5000, 8000, 12000}
		perOp = 20000
		maxN = 12
	}

	// ---- corpus: shapes that distinguish realistic mutants, and the boundary configurations
	for _, d := range []int{2000, 4000} {
		ds := itoa(d)
		// Delay: burst, one value, terminal only, error terminal, slow consumer building a backlog
		add("Delay", "d", ds, "gaps", "0,0,0,0", "term", "C", "slow", "-", "cut", "-")
		add("Delay", "d", ds, "gaps", "0", "term", "E", "slow", "-", "cut", "-")
		add("Delay", "d", ds, "gaps", "-", "term", "C", "slow", "-", "cut", "-")
		add("Delay", "d", ds, "gaps", "0,500,0,500,0", "term", "C", "slow", "0:"+itoa(2*d), "cut", "-")
		add("Delay", "d", ds, "gaps", "0,0,0", "term", "-", "slow", "-", "cut", "in:1")
		add("Delay", "d", ds, "gaps", "0,1000,1000", "term", "C", "slow", "-", "cut", "out:"+itoa(d+500))
		add("DelayEach", "d", ds, "gaps", "0,0,0", "term", "C", "slow", "-", "cut", "-")
		add("DelayEach", "d", ds, "gaps", "0,0,0", "term", "E", "slow", "-", "cut", "in:0")
		add("DelayEach", "d", ds, "gaps", "0,0,0,0", "term", "C", "slow", "-", "cut", "cancel:"+itoa(d+d/2))
		add("DelayEach", "d", ds, "gaps", itoa(d/2)+",0,"+itoa(d/2), "term", "-", "slow", "-", "cut", "cancel:"+itoa(d/4))
		// Timeout: bursts with a slow consumer (re-arming before forwarding would fire inside the delivery),
		// a gap just above / just below the duration, terminal right away
		add("Timeout", "d", ds, "gaps", "0,0,0,0", "term", "-", "slow", "1:"+itoa(d+d/2), "cut", "-")
		add("Timeout", "d", ds, "gaps", "500,500,500", "term", "C", "slow", "0:"+itoa(2*d), "cut", "-")
		add("Timeout", "d", ds, "gaps", "0,"+itoa(d+600), "term", "C", "slow", "-", "cut", "-")
		add("Timeout", "d", ds, "gaps", "0,"+itoa(d-600)+","+itoa(d-600), "term", "C", "slow", "-", "cut", "-")
		add("Timeout", "d", ds, "gaps", "-", "term", "C", "slow", "-", "cut", "-")
		add("Timeout", "d", ds, "gaps", "-", "term", "-", "slow", "-", "cut", "-")
		add("Timeout", "d", ds, "gaps", "0", "term", "-", "slow", "-", "cut", "out:"+itoa(d/2))
		// ThrottleTime: burst (one value per window), values spaced just over the window
		add("ThrottleTime", "d", ds, "gaps", "0,0,0,0,0", "term", "C", "slow", "-", "cut", "-")
		add("ThrottleTime", "d", ds, "gaps", "0,"+itoa(d+300)+","+itoa(d+300), "term", "C", "slow", "-", "cut", "-")
		add("ThrottleTime", "d", ds, "gaps", "0,"+itoa(d/2)+","+itoa(d/2)+","+itoa(d/2), "term", "E", "slow", "-", "cut", "-")
		// a window of time.Duration(math.MaxInt64) ("for ever"): one value passes, however the source is paced
		add("ThrottleTime", "d", itoa(timedForever), "gaps", "0,0,0", "term", "C", "slow", "-", "cut", "-")
		add("ThrottleTime", "d", itoa(timedForever), "gaps", "0,"+itoa(d)+","+itoa(d)+","+itoa(d), "term", "C", "slow", "-", "cut", "-")
		// SampleTime: bursts inside one period (latest wins), nothing between two ticks
		add("SampleTime", "d", ds, "gaps", "0,0,0,"+itoa(2*d)+",0,0", "term", "C", "slow", "-", "cut", "-")
		add("SampleTime", "d", ds, "gaps", itoa(d/2)+","+itoa(d/2)+","+itoa(d/2)+","+itoa(d/2), "term", "-", "slow", "-", "cut", "cancel:"+itoa(3*d))
		// time buffers
		add("BufferWithTime", "d", ds, "gaps", "0,0,"+itoa(d)+",0,0", "term", "C", "slow", "-", "cut", "-")
		add("BufferWithTime", "d", ds, "gaps", "0,0", "term", "-", "slow", "-", "cut", "cancel:"+itoa(2*d+d/2))
		add("BufferWithTimeOrCount", "d", ds, "n", "2", "gaps", "0,0,0,0,0", "term", "C", "slow", "-", "cut", "-")
		add("BufferWithTimeOrCount", "d", ds, "n", "3", "gaps", "0,"+itoa(d)+",0,0,0", "term", "E", "slow", "-", "cut", "-")
		add("BufferWithTimeOrCount", "d", ds, "n", "1", "gaps", "0,0", "term", "-", "slow", "-", "cut", "in:0")
		// periodic sources
		add("Interval", "d", ds, "cut", "out:"+itoa(4*d+d/2))
		add("Interval", "d", ds, "cut", "cancel:"+itoa(3*d+d/2))
		add("Interval", "d", ds, "cut", "in:2")
		add("Interval", "d", ds, "slow", "0:"+itoa(3*d), "cut", "out:"+itoa(6*d))
		add("IntervalWithInitial", "d", ds, "d2", itoa(2*d), "cut", "out:"+itoa(5*d))
		add("IntervalWithInitial", "d", ds, "d2", ds, "cut", "cancel:"+itoa(4*d))
		// the witnesses of the two findings repaired by /repo 6a7ef90 (initial = 0 errored; interval > initial raced)
		add("IntervalWithInitial", "d", ds, "d2", "0", "cut", "out:"+itoa(3*d+d/2))
		add("IntervalWithInitial", "d", itoa(10*d), "d2", "1", "cut", "out:"+itoa(4*d))
		add("IntervalWithInitial", "d", itoa(10*d), "d2", "500", "cut", "out:"+itoa(4*d))
		add("Timer", "d", ds, "cut", "-")
		add("Timer", "d", ds, "cut", "cancel:"+itoa(d/2))
		add("Timer", "d", itoa(4*d), "cut", "deadline:"+itoa(d))
		add("Timer", "d", itoa(6*d), "cut", "deadline:"+itoa(d/2))
		add("Interval", "d", itoa(3*d), "cut", "deadline:"+itoa(d))
		add("IntervalWithInitial", "d", itoa(3*d), "d2", itoa(2*d), "cut", "deadline:"+itoa(d))
		add("RangeWithInterval", "d", itoa(3*d), "a", "0", "b", "4", "cut", "deadline:"+itoa(d))
		add("RangeWithInterval", "d", ds, "a", "3", "b", "6", "cut", "-")
		add("RangeWithInterval", "d", ds, "a", "5", "b", "2", "cut", "-")
		add("RangeWithInterval", "d", ds, "a", "4", "b", "4", "cut", "-")
		add("RangeWithInterval", "d", ds, "a", "0", "b", "9", "cut", "out:"+itoa(3*d+d/2))
		add("RepeatWithInterval", "d", ds, "a", "0", "b", "3", "item", "7", "cut", "-")
		add("RepeatWithInterval", "d", ds, "a", "0", "b", "1", "item", "0", "cut", "-")
		add("RepeatWithInterval", "d", ds, "a", "0", "b", "0", "item", "7", "cut", "-")
		add("RepeatWithInterval", "d", ds, "a", "0", "b", "6", "item", "-2", "cut", "out:"+itoa(2*d+d/2))
		// spans that are / are not a multiple of the step, a step larger than the span, descending, empty
		add("RangeWithStepAndInterval", "d", ds, "a", "0", "b", "6", "step", "2", "cut", "-")
		add("RangeWithStepAndInterval", "d", ds, "a", "0", "b", "5", "step", "2", "cut", "-")
		add("RangeWithStepAndInterval", "d", ds, "a", "0", "b", "1", "step", "2", "cut", "-")
		add("RangeWithStepAndInterval", "d", ds, "a", "7", "b", "0", "step", "3", "cut", "-")
		add("RangeWithStepAndInterval", "d", ds, "a", "4", "b", "4", "step", "3", "cut", "-")
		add("RangeWithStepAndInterval", "d", ds, "a", "0", "b", "9", "step", "2", "cut", "out:"+itoa(3*d+d/2))
	}

	// ---- seeded random
	pickCut := func(op string, d, span, nDel int) string {
		switch r.Intn(8) {
		case 0, 1:
			return "out:" + itoa(r.Intn(span+d+1))
		case 2:
			return "in:" + itoa(r.Intn(nDel+1))
		case 3, 4:
			// DelayEach does not watch the context, but its values carry it: cancelling while values are still
			// coming must not make it deliver a value any sooner (the source of the harness keeps emitting)
			if timedWatchesCtx[op] || op == "DelayEach" {
				return "cancel:" + itoa(r.Intn(span+d+1))
			}
		}
		return "-"
	}
	pickSlow := func(d, nDel int) string {
		if r.Intn(10) < 7 || nDel == 0 {
			return "-"
		}
		return itoa(r.Intn(nDel)) + ":" + itoa([]int{d / 2, d + 500, 2 * d}[r.Intn(3)])
	}
	for i := 0; i < perOp; i++ {
		for _, op := range []string{"Delay", "DelayEach", "Timeout", "ThrottleTime", "SampleTime", "BufferWithTime", "BufferWithTimeOrCount"} {
			d := durs[r.Intn(len(durs))]
			mn := maxN
			if op == "DelayEach" && mn > 5 {
				mn = 5
			}
			gaps := genGaps(r, d, mn)
			span := sumInts(gaps)
			if op == "DelayEach" {
				span += len(gaps) * d
			}
			term := []string{"C", "C", "E", "-"}[r.Intn(4)]
			kv := []string{"d", itoa(d)}
			if op == "BufferWithTimeOrCount" {
				kv = append(kv, "n", itoa(1+r.Intn(4)))
			}
			kv = append(kv, "gaps", gapsString(gaps), "term", term, "slow", pickSlow(d, len(gaps)), "cut", pickCut(op, d, span, len(gaps)))
			add(op, kv...)
		}
		// periodic sources always end by a cut (or by themselves: Timer, RangeWithInterval)
		d := durs[r.Intn(len(durs))]
		periods := 1 + r.Intn(5)
		span := periods * d
		cutP := func() string {
			switch r.Intn(4) {
			case 0:
				return "cancel:" + itoa(r.Intn(span)+d/2)
			case 1:
				return "in:" + itoa(r.Intn(periods+1))
			}
			return "out:" + itoa(r.Intn(span)+d/2)
		}
		add("Interval", "d", itoa(d), "slow", pickSlow(d, periods), "cut", cutP())
		// IntervalWithInitial: any initial >= 0 against any period (since /repo 6a7ef90 the ticker is
		// silent until Reset: initial = 0 emits at once, interval > initial no longer races)
		ini := []int{0, 1, 500, d / 4, d / 2, d, 2 * d, 3 * d}[r.Intn(8)]
		add("IntervalWithInitial", "d", itoa(d), "d2", itoa(ini), "slow", pickSlow(d, periods), "cut",
			[]string{"out:", "cancel:"}[r.Intn(2)]+itoa(ini+r.Intn(span)))
		if i%2 == 0 {
			tc := "-"
			if r.Intn(2) == 0 {
				tc = "cancel:" + itoa(r.Intn(2*d))
			}
			add("Timer", "d", itoa(d), "cut", tc)
			a := r.Intn(6)
			b := a + r.Intn(7) - 3
			rc := "-"
			switch r.Intn(4) {
			case 0:
				rc = "out:" + itoa(r.Intn(3*d))
			case 1:
				rc = "cancel:" + itoa(r.Intn(3*d))
			}
			add("RangeWithInterval", "d", itoa(d), "a", itoa(a), "b", itoa(b), "cut", rc)
			add("RangeWithStepAndInterval", "d", itoa(d), "a", itoa(a), "b", itoa(a+r.Intn(15)-7), "step", itoa(1+r.Intn(4)), "cut", rc)
		}
	}
	return out
}

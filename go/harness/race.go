package main

// kind=race (C13): a catalogue of concurrent scenarios over the goroutine-safe parts of the API,
// meant to be run in the binary built with -race (go/bin/harness-race). A scenario is a function
// `raceSc_<name>(r, rounds)`; every goroutine it starts is created inside that function, so the
// "created at" stacks of a race report name the scenario. The harness side keeps no shared state
// of its own beyond atomics, channels and WaitGroups (a report without a samber/ro frame would be
// a harness bug and is reported as such by the check).
//
// The result line is `res <id> ok` (or `harness-timeout`); the verdict is the race detector's
// log (GORACE=log_path=…), parsed by tools/checks/C13.py. The Lean driver only echoes this kind:
// the proof of C13 is the lockset theorem over the regenerated table; these runs validate the
// table and search for a failing input.
//
// Other slices may add scenarios of their own: call registerRaceScenario from an init().

import (
	"context"
	"errors"
	"fmt"
	"hash/fnv"
	"math/rand"
	"os"
	"runtime"
	"runtime/pprof"
	"sort"
	"sync"
	"sync/atomic"
	"time"

	"github.com/prometheus/client_golang/prometheus"
	"github.com/samber/lo"
	"github.com/samber/ro"
	roprometheus "github.com/samber/ro/ee/plugins/prometheus"
)

type raceScenario struct {
	name   string
	quick  int // rounds in the quick tier
	run    func(r *rand.Rand, rounds int)
	expect string // known finding this scenario is aimed at ("" = none)
}

var raceScenarios = map[string]*raceScenario{}

func registerRaceScenario(name string, quick int, run func(r *rand.Rand, rounds int)) {
	raceScenarios[name] = &raceScenario{name: name, quick: quick, run: run}
}

func init() {
	registerKind("race", genRace, "race", runRaceCase)
}

func genRace(tier string, seed int64, only string) []*Case {
	var names []string
	for n := range raceScenarios {
		if only == "" || only == n {
			names = append(names, n)
		}
	}
	sort.Strings(names)
	var out []*Case
	id := 0
	for _, n := range names {
		sc := raceScenarios[n]
		rounds := sc.quick
		if tier == "thorough" {
			rounds *= 12
		}
		id++
		out = append(out, newCase(id, "kind", "race", "sc", n, "rounds", fmt.Sprint(rounds), "seed", fmt.Sprint(seed)))
	}
	return out
}

var raceHooksOnce sync.Once

func runRaceCase(c *Case) string {
	// the recording hooks of core.go take a mutex: that would order goroutines the library does not order
	raceHooksOnce.Do(func() {
		ro.OnDroppedNotification = ro.IgnoreOnDroppedNotification
		ro.OnUnhandledError = ro.IgnoreOnUnhandledError
	})
	sc := raceScenarios[c.get("sc", "?")]
	if sc == nil {
		return "res " + c.id + " unsupported"
	}
	rounds := 1
	fmt.Sscanf(c.get("rounds", "1"), "%d", &rounds)
	var seed int64 = 1
	fmt.Sscanf(c.get("seed", "1"), "%d", &seed)
	h := fnv.New64a()
	h.Write([]byte(sc.name))
	r := rand.New(rand.NewSource(seed*1000003 + int64(h.Sum64()&0xffffff)))
	done := make(chan struct{})
	var completed, panics int64
	var first atomic.Value
	go func() {
		defer close(done)
		t0 := time.Now()
		for i := 0; i < rounds; i++ {
			if time.Since(t0) > 10*time.Second { // time budget of one scenario; the rounds done are reported
				break
			}
			func() {
				defer func() {
					// a panic of the library under concurrent use is C06/C07's business, not a race
					// report: counted and printed, the next round goes on
					if p := recover(); p != nil {
						if atomic.AddInt64(&panics, 1) == 1 {
							first.Store(fmt.Sprint(p))
						}
					}
				}()
				sc.run(r, 1)
			}()
			atomic.AddInt64(&completed, 1)
		}
	}()
	res := "ok"
	select {
	case <-done:
	case <-time.After(19 * time.Second): // a round that does not come back
		res = "harness-timeout"
		fmt.Fprintf(os.Stderr, "race-scenario %s: a round did not come back; goroutines:\n", sc.name)
		pprof.Lookup("goroutine").WriteTo(os.Stderr, 1)
	}
	msg, _ := first.Load().(string)
	fmt.Fprintf(os.Stderr, "race-scenario %s rounds=%d completed=%d panics=%d first=%q\n", sc.name, rounds, atomic.LoadInt64(&completed), atomic.LoadInt64(&panics), msg)
	return "res " + c.id + " " + res
}

// ---------------------------------------------------------------- helpers (no shared plain state)

type raceSink struct{ n, e, c int64 }

func (s *raceSink) observer() ro.Observer[int] {
	return ro.NewObserver(
		func(int) { atomic.AddInt64(&s.n, 1) },
		func(error) { atomic.AddInt64(&s.e, 1) },
		func() { atomic.AddInt64(&s.c, 1) },
	)
}

func raceSinkOf[T any]() ro.Observer[T] {
	var n int64
	return ro.NewObserver(
		func(T) { atomic.AddInt64(&n, 1) },
		func(error) { atomic.AddInt64(&n, 1) },
		func() { atomic.AddInt64(&n, 1) },
	)
}

// goSource: a safe observable whose values come from a goroutine of its own; completes after n
// values (n < 0: never) unless torn down first
func raceGoSource(n int, yield bool) ro.Observable[int] {
	return ro.NewObservableWithContext(func(ctx context.Context, dest ro.Observer[int]) ro.Teardown {
		stop := make(chan struct{})
		var once sync.Once
		go func() {
			for i := 0; n < 0 || i < n; i++ {
				select {
				case <-stop:
					return
				default:
				}
				dest.NextWithContext(ctx, i)
				if yield {
					runtime.Gosched()
				}
			}
			dest.CompleteWithContext(ctx)
		}()
		return func() { once.Do(func() { close(stop) }) }
	})
}

// same, built with the unsafe constructor (what single-source operators expect below them)
func raceGoSourceUnsafe(n int) ro.Observable[int] {
	return ro.NewUnsafeObservableWithContext(func(ctx context.Context, dest ro.Observer[int]) ro.Teardown {
		stop := make(chan struct{})
		var once sync.Once
		go func() {
			for i := 0; n < 0 || i < n; i++ {
				select {
				case <-stop:
					return
				default:
				}
				dest.NextWithContext(ctx, i)
			}
			dest.CompleteWithContext(ctx)
		}()
		return func() { once.Do(func() { close(stop) }) }
	})
}

func raceGoErrSource(n int) ro.Observable[int] {
	return ro.NewObservableWithContext(func(ctx context.Context, dest ro.Observer[int]) ro.Teardown {
		go func() {
			for i := 0; i < n; i++ {
				dest.NextWithContext(ctx, i)
			}
			dest.ErrorWithContext(ctx, errors.New("boom"))
		}()
		return nil
	})
}

func raceWaitWG(wg *sync.WaitGroup) {
	ch := make(chan struct{})
	go func() { wg.Wait(); close(ch) }()
	select {
	case <-ch:
	case <-time.After(5 * time.Second):
	}
}

func raceSpin(r *rand.Rand) int { return r.Intn(40) }

func racePause(k int) {
	for i := 0; i < k; i++ {
		runtime.Gosched()
	}
}

// run fns concurrently, released together
func raceTogether(fns ...func()) {
	var wg sync.WaitGroup
	start := make(chan struct{})
	for _, f := range fns {
		wg.Add(1)
		go func(f func()) {
			defer wg.Done()
			defer func() { recover() }()
			<-start
			f()
		}(f)
	}
	close(start)
	raceWaitWG(&wg)
}

// ---------------------------------------------------------------- subscription / subscriber

func raceSc_subscription(r *rand.Rand, rounds int) {
	for i := 0; i < rounds; i++ {
		var ran int64
		s := ro.NewSubscription(func() { atomic.AddInt64(&ran, 1) })
		k := raceSpin(r)
		raceTogether(
			func() {
				for j := 0; j < 8; j++ {
					s.Add(func() { atomic.AddInt64(&ran, 1) })
				}
			},
			func() { s.AddUnsubscribable(ro.NewSubscription(func() { atomic.AddInt64(&ran, 1) })) },
			func() { racePause(k); s.Unsubscribe() },
			func() { s.Unsubscribe() },
			func() {
				for j := 0; j < 8; j++ {
					_ = s.IsClosed()
				}
			},
			func() { s.Wait() },
		)
	}
}

func raceSc_safeSubscriber(r *rand.Rand, rounds int) {
	for i := 0; i < rounds; i++ {
		var sink raceSink
		producers := 2 + r.Intn(3)
		mode := r.Intn(3)
		var sub ro.Subscriber[int]
		switch mode {
		case 0:
			sub = ro.NewSafeSubscriber(sink.observer())
		case 1:
			sub = ro.NewEventuallySafeSubscriber(sink.observer())
		default:
			sub = ro.NewSubscriber(sink.observer())
		}
		sub.Add(func() {})
		var fns []func()
		for p := 0; p < producers; p++ {
			last := p == 0
			fns = append(fns, func() {
				for j := 0; j < 10; j++ {
					sub.Next(j)
				}
				if last {
					sub.Complete()
				} else {
					sub.Error(errors.New("x"))
				}
			})
		}
		k := raceSpin(r)
		fns = append(fns,
			func() { racePause(k); sub.Unsubscribe() },
			func() { _ = sub.IsClosed(); _ = sub.HasThrown(); _ = sub.IsCompleted() },
			func() { sub.Add(func() {}) },
		)
		raceTogether(fns...)
	}
}

func raceSc_safeObservable(r *rand.Rand, rounds int) {
	for i := 0; i < rounds; i++ {
		producers := 2 + r.Intn(3)
		obs := ro.NewObservable(func(dest ro.Observer[int]) ro.Teardown {
			var wg sync.WaitGroup
			for p := 0; p < producers; p++ {
				wg.Add(1)
				go func(p int) {
					defer wg.Done()
					for j := 0; j < 10; j++ {
						dest.Next(j)
					}
					if p == 0 {
						dest.Complete()
					}
				}(p)
			}
			return func() { raceWaitWG(&wg) }
		})
		sub := obs.Subscribe(raceSinkOf[int]())
		k := raceSpin(r)
		raceTogether(func() { racePause(k); sub.Unsubscribe() }, func() { _ = sub.IsClosed() })
	}
}

// ---------------------------------------------------------------- subjects

func raceSubject(r *rand.Rand, rounds int, mk func() ro.Subject[int], multi bool) {
	for i := 0; i < rounds; i++ {
		s := mk()
		k := raceSpin(r)
		endWithError := r.Intn(2) == 0
		fns := []func(){
			func() {
				for j := 0; j < 10; j++ {
					s.Next(j)
				}
			},
			func() {
				for j := 0; j < 10; j++ {
					s.Next(100 + j)
				}
			},
			func() {
				sub := s.Subscribe(raceSinkOf[int]())
				racePause(k)
				sub.Unsubscribe()
			},
			func() {
				racePause(k)
				if endWithError {
					s.Error(errors.New("x"))
				} else {
					s.Complete()
				}
			},
			func() {
				_ = s.HasObserver()
				_ = s.CountObservers()
				_ = s.IsClosed()
				_ = s.HasThrown()
				_ = s.IsCompleted()
			},
		}
		if multi {
			fns = append(fns, func() {
				sub := s.Subscribe(raceSinkOf[int]())
				sub.Unsubscribe()
				sub2 := s.Subscribe(raceSinkOf[int]())
				_ = sub2
			})
		}
		raceTogether(fns...)
	}
}

func raceSc_subjectPublish(r *rand.Rand, rounds int) {
	raceSubject(r, rounds, func() ro.Subject[int] { return ro.NewPublishSubject[int]() }, true)
}
func raceSc_subjectBehavior(r *rand.Rand, rounds int) {
	raceSubject(r, rounds, func() ro.Subject[int] { return ro.NewBehaviorSubject(7) }, true)
}
func raceSc_subjectReplay(r *rand.Rand, rounds int) {
	raceSubject(r, rounds, func() ro.Subject[int] { return ro.NewReplaySubject[int](3) }, true)
}
func raceSc_subjectAsync(r *rand.Rand, rounds int) {
	raceSubject(r, rounds, func() ro.Subject[int] { return ro.NewAsyncSubject[int]() }, true)
}
func raceSc_subjectUnicast(r *rand.Rand, rounds int) {
	raceSubject(r, rounds, func() ro.Subject[int] { return ro.NewUnicastSubject[int](4) }, false)
}

// ---------------------------------------------------------------- connectable / Share

// Connect, Subscribe and disconnect from different goroutines (ResetOnDisconnect is the default)
func raceSc_connectable(r *rand.Rand, rounds int) {
	for i := 0; i < rounds; i++ {
		c := ro.Connectable(raceGoSource(20, true))
		k := raceSpin(r)
		raceTogether(
			func() { sub := c.Connect(); racePause(k); sub.Unsubscribe() },
			func() { racePause(k / 2); sub := c.Connect(); sub.Unsubscribe() },
			func() { s := c.Subscribe(raceSinkOf[int]()); racePause(k); s.Unsubscribe() },
			func() { racePause(k); s := c.Subscribe(raceSinkOf[int]()); s.Unsubscribe() },
		)
	}
}

// no reset on disconnect: only `subscription` is rewritten
func raceSc_connectableNoReset(r *rand.Rand, rounds int) {
	for i := 0; i < rounds; i++ {
		c := ro.ConnectableWithConfig(raceGoSource(20, true), ro.ConnectableConfig[int]{
			Connector:         func() ro.Subject[int] { return ro.NewPublishSubject[int]() },
			ResetOnDisconnect: false,
		})
		k := raceSpin(r)
		raceTogether(
			func() { sub := c.Connect(); racePause(k); sub.Unsubscribe() },
			func() { sub := c.Connect(); racePause(k); sub.Unsubscribe() },
			func() { s := c.Subscribe(raceSinkOf[int]()); racePause(k); s.Unsubscribe() },
		)
	}
}

// a synchronous finite source: the connection is already closed when Connect has stored it, so the
// next Connect reconnects (writes `subscription`) while the previous caller still reads it unlocked
func raceSc_connectableSyncSource(r *rand.Rand, rounds int) {
	for i := 0; i < rounds; i++ {
		c := ro.ConnectableWithConfig(ro.Just(1, 2), ro.ConnectableConfig[int]{
			Connector:         func() ro.Subject[int] { return ro.NewPublishSubject[int]() },
			ResetOnDisconnect: false,
		})
		k := raceSpin(r) / 8
		raceTogether(
			func() { c.Connect() },
			func() { racePause(k); c.Connect() },
			func() { racePause(2 * k); c.Connect() },
		)
	}
}

func raceSc_share(r *rand.Rand, rounds int) {
	for i := 0; i < rounds; i++ {
		subj := ro.NewPublishSubject[int]()
		shared := ro.Pipe1(subj.AsObservable(), ro.Share[int]())
		k := raceSpin(r)
		n := 2 + r.Intn(3)
		var fns []func()
		for j := 0; j < n; j++ {
			fns = append(fns, func() { s := shared.Subscribe(raceSinkOf[int]()); racePause(k); s.Unsubscribe() })
		}
		fns = append(fns, func() {
			for j := 0; j < 10; j++ {
				subj.Next(j)
			}
			racePause(k)
			subj.Complete()
		})
		raceTogether(fns...)
	}
}

// Share over a source that terminates from a goroutine of its own right after being subscribed
func raceSc_shareAsyncTerminal(r *rand.Rand, rounds int) {
	for i := 0; i < rounds; i++ {
		var src ro.Observable[int]
		if r.Intn(2) == 0 {
			src = raceGoSource(r.Intn(2), false)
		} else {
			src = raceGoErrSource(r.Intn(2))
		}
		shared := ro.Pipe1(src, ro.Share[int]())
		k := raceSpin(r) / 4
		raceTogether(
			func() { s := shared.Subscribe(raceSinkOf[int]()); racePause(k); s.Unsubscribe() },
			func() { racePause(k); s := shared.Subscribe(raceSinkOf[int]()); s.Unsubscribe() },
			func() { racePause(2 * k); s := shared.Subscribe(raceSinkOf[int]()); s.Unsubscribe() },
		)
	}
}

func raceSc_shareReplay(r *rand.Rand, rounds int) {
	for i := 0; i < rounds; i++ {
		shared := ro.Pipe1(raceGoSource(30, true), ro.ShareReplay[int](2))
		k := raceSpin(r)
		raceTogether(
			func() { s := shared.Subscribe(raceSinkOf[int]()); racePause(k); s.Unsubscribe() },
			func() { racePause(k); s := shared.Subscribe(raceSinkOf[int]()); racePause(k); s.Unsubscribe() },
			func() { s := shared.Subscribe(raceSinkOf[int]()); s.Unsubscribe() },
		)
	}
}

// ---------------------------------------------------------------- teardown against a source callback

func raceUnsubWhileRunning[T any](r *rand.Rand, rounds int, mk func() ro.Observable[T]) {
	for i := 0; i < rounds; i++ {
		sub := mk().Subscribe(raceSinkOf[T]())
		racePause(1 + raceSpin(r))
		sub.Unsubscribe()
	}
}

func raceSc_bufferWithCountTeardown(r *rand.Rand, rounds int) {
	raceUnsubWhileRunning(r, rounds, func() ro.Observable[[]int] {
		return ro.Pipe1(raceGoSourceUnsafe(-1), ro.BufferWithCount[int](3))
	})
}

func raceSc_groupByTeardown(r *rand.Rand, rounds int) {
	raceUnsubWhileRunning(r, rounds, func() ro.Observable[ro.Observable[int]] {
		return ro.Pipe1(raceGoSourceUnsafe(-1), ro.GroupBy(func(v int) int { return v % 3 }))
	})
}

// one MergeMapI pipeline subscribed from two goroutines (the index variable was shared between
// subscriptions until commit 11bf135 of the repository: C12, and a data race here)
func raceSc_mergeMapSharedIndex(r *rand.Rand, rounds int) {
	for i := 0; i < rounds; i++ {
		p := ro.Pipe1(ro.Just(1, 2, 3, 4), ro.MergeMapI(func(v int, idx int64) ro.Observable[int] { return ro.Just(v) }))
		raceTogether(
			func() { p.Subscribe(raceSinkOf[int]()) },
			func() { p.Subscribe(raceSinkOf[int]()) },
		)
	}
}

// one OnErrorResumeNextWith operator value applied in one goroutine while a pipeline built from
// it earlier is subscribed in another (until commit fd0e106 the captured slice was rewritten per
// application: C12, and a data race here)
func raceSc_onErrorResumeNextReapply(r *rand.Rand, rounds int) {
	for i := 0; i < rounds; i++ {
		op := ro.OnErrorResumeNextWith(ro.Just(7))
		p := op(ro.Just(1))
		raceTogether(
			func() { p.Subscribe(raceSinkOf[int]()) },
			func() { _ = op(ro.Just(2)) },
		)
	}
}

// ---------------------------------------------------------------- multi-source operators, goroutine-driven sources

func raceSc_zip(r *rand.Rand, rounds int) {
	for i := 0; i < rounds; i++ {
		var obs ro.Observable[int]
		switch r.Intn(3) {
		case 0:
			obs = ro.Pipe1(ro.Zip2(raceGoSource(15, true), raceGoSource(10, false)), ro.Map(func(t lo.Tuple2[int, int]) int { return t.A + t.B }))
		case 1:
			obs = ro.Pipe1(ro.Zip3(raceGoSource(8, true), raceGoSource(8, false), raceGoSource(-1, true)), ro.Map(func(t lo.Tuple3[int, int, int]) int { return t.A }))
		default:
			obs = ro.Pipe1(ro.Zip(raceGoSource(8, true), raceGoSource(8, false), raceGoSource(12, true)), ro.Map(func(t []int) int { return len(t) }))
		}
		sub := obs.Subscribe(raceSinkOf[int]())
		racePause(raceSpin(r))
		if r.Intn(2) == 0 {
			sub.Unsubscribe()
		} else {
			raceWaitSub(sub)
		}
	}
}

func raceWaitSub(s ro.Subscription) {
	ch := make(chan struct{})
	go func() { s.Wait(); close(ch) }()
	select {
	case <-ch:
	case <-time.After(150 * time.Millisecond):
		s.Unsubscribe()
	}
}

func raceSc_combineLatest(r *rand.Rand, rounds int) {
	for i := 0; i < rounds; i++ {
		var obs ro.Observable[int]
		switch r.Intn(3) {
		case 0:
			obs = ro.Pipe1(ro.CombineLatest2(raceGoSource(15, true), raceGoSource(10, false)), ro.Map(func(t lo.Tuple2[int, int]) int { return t.A + t.B }))
		case 1:
			obs = ro.Pipe1(ro.CombineLatest3(raceGoSource(8, true), raceGoSource(8, false), raceGoSource(8, true)), ro.Map(func(t lo.Tuple3[int, int, int]) int { return t.A }))
		default:
			obs = ro.Pipe2(ro.Just(raceGoSource(8, true), raceGoSource(8, false), raceGoSource(8, true)), ro.CombineLatestAll[int](), ro.Map(func(t []int) int { return len(t) }))
		}
		sub := obs.Subscribe(raceSinkOf[int]())
		racePause(raceSpin(r))
		if r.Intn(2) == 0 {
			sub.Unsubscribe()
		} else {
			raceWaitSub(sub)
		}
	}
}

// every arity of the multi-source operators written out per source position (CombineLatest2..5, Zip2..6, MergeWith1..5),
// each source on a goroutine of its own, piped into a STATEFUL single-producer operator (Scan / Pairwise): the state of
// that operator is only safe because the multi-source operator above it hands a locking subscriber to its sources
// (the constructor table, RoProps/C02b) — one arity built with the unsafe constructor shows as a race on Scan's state
func raceSc_multiArity(r *rand.Rand, rounds int) {
	g := func() ro.Observable[int] { return raceGoSource(6, r.Intn(2) == 0) }
	one := func(int) int { return 1 }
	_ = one
	for i := 0; i < rounds; i++ {
		var obs ro.Observable[int]
		switch r.Intn(13) {
		case 0:
			obs = ro.Pipe1(ro.CombineLatest2(g(), g()), ro.Map(func(t lo.Tuple2[int, int]) int { return t.A }))
		case 1:
			obs = ro.Pipe1(ro.CombineLatest3(g(), g(), g()), ro.Map(func(t lo.Tuple3[int, int, int]) int { return t.A }))
		case 2:
			obs = ro.Pipe1(ro.CombineLatest4(g(), g(), g(), g()), ro.Map(func(t lo.Tuple4[int, int, int, int]) int { return t.A }))
		case 3:
			obs = ro.Pipe1(ro.CombineLatest5(g(), g(), g(), g(), g()), ro.Map(func(t lo.Tuple5[int, int, int, int, int]) int { return t.A }))
		case 4:
			obs = ro.Pipe1(ro.Zip2(g(), g()), ro.Map(func(t lo.Tuple2[int, int]) int { return t.A }))
		case 5:
			obs = ro.Pipe1(ro.Zip3(g(), g(), g()), ro.Map(func(t lo.Tuple3[int, int, int]) int { return t.A }))
		case 6:
			obs = ro.Pipe1(ro.Zip4(g(), g(), g(), g()), ro.Map(func(t lo.Tuple4[int, int, int, int]) int { return t.A }))
		case 7:
			obs = ro.Pipe1(ro.Zip5(g(), g(), g(), g(), g()), ro.Map(func(t lo.Tuple5[int, int, int, int, int]) int { return t.A }))
		case 8:
			obs = ro.Pipe1(ro.Zip6(g(), g(), g(), g(), g(), g()), ro.Map(func(t lo.Tuple6[int, int, int, int, int, int]) int { return t.A }))
		case 9:
			obs = ro.MergeWith(g())(g())
		case 10:
			obs = ro.MergeWith2(g(), g())(g())
		case 11:
			obs = ro.MergeWith3(g(), g(), g())(g())
		default:
			obs = ro.MergeWith4(g(), g(), g(), g())(g())
		}
		// stateful single-producer operators below
		if r.Intn(2) == 0 {
			obs = ro.Scan(func(acc int, v int) int { return acc + v }, 0)(obs)
		} else {
			obs = ro.Map(func(p []int) int { return len(p) })(ro.Pairwise[int]()(obs))
		}
		sub := obs.Subscribe(raceSinkOf[int]())
		racePause(raceSpin(r))
		if r.Intn(2) == 0 {
			sub.Unsubscribe()
		} else {
			raceWaitSub(sub)
		}
	}
}

// the instrumentation plugin (ee/plugins/prometheus): a freshly built instrumented pipe is subscribed for the first time
// from several goroutines at once, and again afterwards; the stand-alone counters are shared by concurrent subscriptions
func raceSc_promPipe(r *rand.Rand, rounds int) {
	if promSetBypass != nil {
		prev := promSetBypass(true)
		defer promSetBypass(prev)
	}
	for i := 0; i < rounds; i++ {
		cnt := prometheus.NewCounter(prometheus.CounterOpts{Name: "verif_race_cnt"})
		ops := []intOp{ro.Map(func(v int) int { return v + 1 }), roprometheus.IncCounterOnNext[int](cnt), ro.Filter(func(v int) bool { return v%2 == 0 })}
		obs, _ := eePipe(roprometheus.CollectorConfig{}, ro.Just(1, 2, 3, 4), ops[:1+r.Intn(3)])
		var wg sync.WaitGroup
		start := make(chan struct{})
		for g := 0; g < 4; g++ {
			wg.Add(1)
			go func() {
				defer wg.Done()
				<-start
				raceWaitSub(obs.Subscribe(raceSinkOf[int]()))
			}()
		}
		close(start)
		wg.Wait()
		raceWaitSub(obs.Subscribe(raceSinkOf[int]()))
	}
}

// several goroutines each BUILD (and run) an instrumented pipeline from one shared CollectorConfig value whose ConstLabels
// map is not nil: the plugin reads what the caller handed over, it never writes into it
func raceSc_promBuild(r *rand.Rand, rounds int) {
	if promSetBypass != nil {
		prev := promSetBypass(true)
		defer promSetBypass(prev)
	}
	for i := 0; i < rounds; i++ {
		cfg := roprometheus.CollectorConfig{ConstLabels: prometheus.Labels{"service": "verif"}}
		var wg sync.WaitGroup
		start := make(chan struct{})
		for g := 0; g < 4; g++ {
			wg.Add(1)
			go func() {
				defer wg.Done()
				<-start
				for k := 0; k < 3; k++ {
					obs, _ := eePipe(cfg, ro.Just(1, 2, 3), []intOp{ro.Map(func(v int) int { return v + 1 })})
					raceWaitSub(obs.Subscribe(raceSinkOf[int]()))
				}
			}()
		}
		close(start)
		wg.Wait()
	}
}

func raceSc_merge(r *rand.Rand, rounds int) {
	for i := 0; i < rounds; i++ {
		var obs ro.Observable[int]
		switch r.Intn(3) {
		case 0:
			obs = ro.Merge(raceGoSource(10, true), raceGoSource(10, false), raceGoSource(10, true))
		case 1:
			obs = ro.Pipe1(raceGoSource(6, true), ro.MergeMap(func(v int) ro.Observable[int] { return raceGoSource(3, false) }))
		default:
			obs = ro.Pipe1(raceGoSource(10, true), ro.MergeWith(raceGoSource(5, false)))
		}
		sub := obs.Subscribe(raceSinkOf[int]())
		racePause(raceSpin(r))
		if r.Intn(2) == 0 {
			sub.Unsubscribe()
		} else {
			raceWaitSub(sub)
		}
	}
}

func raceSc_race(r *rand.Rand, rounds int) {
	for i := 0; i < rounds; i++ {
		obs := ro.Race(raceGoSource(5, true), raceGoSource(5, false), raceGoSource(5, true))
		sub := obs.Subscribe(raceSinkOf[int]())
		racePause(raceSpin(r))
		if r.Intn(2) == 0 {
			sub.Unsubscribe()
		} else {
			raceWaitSub(sub)
		}
	}
}

func raceSc_bufferWhen(r *rand.Rand, rounds int) {
	for i := 0; i < rounds; i++ {
		var obs ro.Observable[[]int]
		if r.Intn(2) == 0 {
			obs = ro.Pipe1(raceGoSource(30, true), ro.BufferWhen[int](raceGoSource(6, true)))
		} else {
			obs = ro.Pipe1(raceGoSource(200, true), ro.BufferWithTimeOrCount[int](4, 200*time.Microsecond))
		}
		sub := obs.Subscribe(raceSinkOf[[]int]())
		racePause(raceSpin(r))
		if r.Intn(2) == 0 {
			sub.Unsubscribe()
		} else {
			raceWaitSub(sub)
		}
	}
}

func raceSc_windowWhen(r *rand.Rand, rounds int) {
	for i := 0; i < rounds; i++ {
		obs := ro.Pipe1(raceGoSource(30, true), ro.WindowWhen[int](raceGoSource(6, true)))
		sub := obs.Subscribe(ro.NewObserver(
			func(w ro.Observable[int]) { w.Subscribe(raceSinkOf[int]()) },
			func(error) {}, func() {}))
		racePause(raceSpin(r))
		if r.Intn(2) == 0 {
			sub.Unsubscribe()
		} else {
			raceWaitSub(sub)
		}
	}
}

func raceSc_sampleThrottle(r *rand.Rand, rounds int) {
	for i := 0; i < rounds; i++ {
		var obs ro.Observable[int]
		if r.Intn(2) == 0 {
			obs = ro.Pipe1(raceGoSource(40, true), ro.SampleWhen[int](raceGoSource(8, true)))
		} else {
			obs = ro.Pipe1(raceGoSource(40, true), ro.ThrottleWhen[int](raceGoSource(8, true)))
		}
		sub := obs.Subscribe(raceSinkOf[int]())
		racePause(raceSpin(r))
		if r.Intn(2) == 0 {
			sub.Unsubscribe()
		} else {
			raceWaitSub(sub)
		}
	}
}

func raceSc_takeSkipUntil(r *rand.Rand, rounds int) {
	for i := 0; i < rounds; i++ {
		var obs ro.Observable[int]
		if r.Intn(2) == 0 {
			obs = ro.Pipe1(raceGoSource(-1, true), ro.TakeUntil[int](raceGoSource(1+r.Intn(3), true)))
		} else {
			obs = ro.Pipe1(raceGoSource(30, true), ro.SkipUntil[int](raceGoSource(1+r.Intn(3), true)))
		}
		sub := obs.Subscribe(raceSinkOf[int]())
		racePause(raceSpin(r))
		if r.Intn(3) == 0 {
			sub.Unsubscribe()
		} else {
			raceWaitSub(sub)
		}
	}
}

// ---------------------------------------------------------------- time-driven and hand-off operators

func raceSc_delay(r *rand.Rand, rounds int) {
	for i := 0; i < rounds; i++ {
		obs := ro.Pipe1(raceGoSource(10, true), ro.Delay[int](time.Duration(50+r.Intn(200))*time.Microsecond))
		sub := obs.Subscribe(raceSinkOf[int]())
		if r.Intn(2) == 0 {
			racePause(raceSpin(r))
			sub.Unsubscribe()
		} else {
			raceWaitSub(sub)
		}
	}
}

func raceSc_timeout(r *rand.Rand, rounds int) {
	for i := 0; i < rounds; i++ {
		obs := ro.Pipe1(raceGoSource(10, true), ro.Timeout[int](time.Duration(20+r.Intn(300))*time.Microsecond))
		sub := obs.Subscribe(raceSinkOf[int]())
		if r.Intn(2) == 0 {
			racePause(raceSpin(r))
			sub.Unsubscribe()
		} else {
			raceWaitSub(sub)
		}
	}
}

func raceSc_observeOn(r *rand.Rand, rounds int) {
	for i := 0; i < rounds; i++ {
		var obs ro.Observable[int]
		if r.Intn(2) == 0 {
			obs = ro.Pipe1(raceGoSource(20, true), ro.ObserveOn[int](1+r.Intn(4)))
		} else {
			obs = ro.Pipe1(ro.Just(1, 2, 3, 4, 5), ro.ObserveOn[int](2))
		}
		sub := obs.Subscribe(raceSinkOf[int]())
		if r.Intn(2) == 0 {
			racePause(raceSpin(r))
			sub.Unsubscribe()
		} else {
			raceWaitSub(sub)
		}
	}
}

func raceSc_toChannel(r *rand.Rand, rounds int) {
	for i := 0; i < rounds; i++ {
		obs := ro.Pipe1(raceGoSource(400, true), ro.ToChannel[int](r.Intn(3)))
		var wg sync.WaitGroup
		sub := obs.Subscribe(ro.NewObserver(
			func(ch <-chan ro.Notification[int]) {
				wg.Add(1)
				go func() {
					defer wg.Done()
					for range ch {
					}
				}()
			},
			func(error) {}, func() {}))
		if r.Intn(2) == 0 {
			time.Sleep(time.Millisecond) // ToChannel subscribes to its source 1 ms after being subscribed
			racePause(raceSpin(r))
			sub.Unsubscribe()
		} else {
			raceWaitSub(sub)
		}
		raceWaitWG(&wg)
	}
}

func raceSc_intervalTimer(r *rand.Rand, rounds int) {
	for i := 0; i < rounds; i++ {
		obs := ro.Pipe1(ro.Interval(50*time.Microsecond), ro.Take[int64](int64(2+r.Intn(4))))
		sub := obs.Subscribe(raceSinkOf[int64]())
		sub2 := ro.Timer(100 * time.Microsecond).Subscribe(raceSinkOf[time.Duration]())
		// IntervalWithInitial with a zero and a positive initial delay (the zero case emits its first value synchronously,
		// on the subscribing goroutine, next to the ticker goroutine) and RangeWithInterval, with a slow first observer
		first := true
		sub3 := ro.Pipe1(ro.IntervalWithInitial(time.Duration(r.Intn(2))*30*time.Microsecond, 40*time.Microsecond), ro.Take[int64](4)).
			Subscribe(ro.NewObserver(func(int64) {
				if first {
					first = false
					time.Sleep(120 * time.Microsecond)
				}
			}, func(error) {}, func() {}))
		raceWaitSub(sub3)
		if r.Intn(2) == 0 {
			racePause(raceSpin(r))
			sub.Unsubscribe()
			sub2.Unsubscribe()
		} else {
			raceWaitSub(sub)
			raceWaitSub(sub2)
		}
	}
}

func init() {
	registerRaceScenario("subscription", 10000, raceSc_subscription)
	registerRaceScenario("safeSubscriber", 7500, raceSc_safeSubscriber)
	registerRaceScenario("safeObservable", 7500, raceSc_safeObservable)
	registerRaceScenario("subjectPublish", 7500, raceSc_subjectPublish)
	registerRaceScenario("subjectBehavior", 7500, raceSc_subjectBehavior)
	registerRaceScenario("subjectReplay", 7500, raceSc_subjectReplay)
	registerRaceScenario("subjectAsync", 7500, raceSc_subjectAsync)
	registerRaceScenario("subjectUnicast", 7500, raceSc_subjectUnicast)
	registerRaceScenario("connectable", 7500, raceSc_connectable)
	registerRaceScenario("connectableNoReset", 7500, raceSc_connectableNoReset)
	registerRaceScenario("connectableSyncSource", 7500, raceSc_connectableSyncSource)
	registerRaceScenario("share", 7500, raceSc_share)
	registerRaceScenario("shareAsyncTerminal", 10000, raceSc_shareAsyncTerminal)
	registerRaceScenario("shareReplay", 5000, raceSc_shareReplay)
	registerRaceScenario("bufferWithCountTeardown", 5000, raceSc_bufferWithCountTeardown)
	registerRaceScenario("groupByTeardown", 300, raceSc_groupByTeardown)
	registerRaceScenario("mergeMapSharedIndex", 2500, raceSc_mergeMapSharedIndex)
	registerRaceScenario("onErrorResumeNextReapply", 2500, raceSc_onErrorResumeNextReapply)
	registerRaceScenario("zip", 80, raceSc_zip)
	registerRaceScenario("combineLatest", 5000, raceSc_combineLatest)
	registerRaceScenario("merge", 5000, raceSc_merge)
	registerRaceScenario("multiArity", 6000, raceSc_multiArity)
	registerRaceScenario("promPipe", 1500, raceSc_promPipe)
	registerRaceScenario("promBuild", 600, raceSc_promBuild)
	registerRaceScenario("race", 5000, raceSc_race)
	registerRaceScenario("bufferWhen", 4000, raceSc_bufferWhen)
	registerRaceScenario("windowWhen", 4000, raceSc_windowWhen)
	registerRaceScenario("sampleThrottle", 5000, raceSc_sampleThrottle)
	registerRaceScenario("takeSkipUntil", 4000, raceSc_takeSkipUntil)
	registerRaceScenario("delay", 400, raceSc_delay)
	registerRaceScenario("timeout", 400, raceSc_timeout)
	registerRaceScenario("observeOn", 4000, raceSc_observeOn)
	registerRaceScenario("toChannel", 150, raceSc_toChannel)
	registerRaceScenario("intervalTimer", 200, raceSc_intervalTimer)
}

package main

// kind=overlap (C02 search / validation): Merge of k goroutine-driven sequential sources, piped
// through a chain of int→int operators into a RAW observer (not ro.NewObserver, so that nothing but
// the library's own subscribers serialises delivery) that counts how many of its callbacks run at
// the same time. The model side says whether the subscriber MergeAll emits into is a locking one
// (RoProps/C02b emitMode over the regenerated rows).

import (
	"context"
	"fmt"
	"math/rand"
	"runtime"
	"strings"
	"sync"
	"sync/atomic"
	"time"

	"github.com/samber/lo"
	"github.com/samber/ro"
)

func init() { registerKind("overlap", genOverlap, "overlap", runOverlapCase) }

// overlapObserver implements ro.Observer[int] directly
type overlapObserver struct {
	inside, maxInside int32
	after             int32 // deliveries after a terminal
	done              int32
	n                 int64
}

// enter marks the BEGIN of a callback. Grammar is judged on the order in which callbacks begin
// (the kernel theorem's "callback-begin subsequence"): a callback that begins after a terminal
// callback has begun is a delivery after the terminal.
func (o *overlapObserver) enter(terminal bool) {
	if terminal {
		if !atomic.CompareAndSwapInt32(&o.done, 0, 1) {
			atomic.AddInt32(&o.after, 1)
		}
	} else if atomic.LoadInt32(&o.done) != 0 {
		atomic.AddInt32(&o.after, 1)
	}
	v := atomic.AddInt32(&o.inside, 1)
	for {
		m := atomic.LoadInt32(&o.maxInside)
		if v <= m || atomic.CompareAndSwapInt32(&o.maxInside, m, v) {
			break
		}
	}
	// widen the window
	for i := 0; i < 6; i++ {
		runtime.Gosched()
	}
}
func (o *overlapObserver) leave() { atomic.AddInt32(&o.inside, -1) }

// leaveValue: a value callback that is still running when a terminal callback begins (or begins
// after it) has not been delivered "before the terminal": the observer sees N … C … N-end.
func (o *overlapObserver) leaveValue() {
	if atomic.LoadInt32(&o.done) != 0 {
		atomic.AddInt32(&o.after, 1)
	}
	atomic.AddInt32(&o.inside, -1)
}
func (o *overlapObserver) Next(v int) { o.NextWithContext(context.Background(), v) }
func (o *overlapObserver) NextWithContext(ctx context.Context, v int) {
	o.enter(false)
	atomic.AddInt64(&o.n, 1)
	o.leaveValue()
}
func (o *overlapObserver) Error(err error)                                 { o.ErrorWithContext(context.Background(), err) }
func (o *overlapObserver) ErrorWithContext(ctx context.Context, err error) { o.enter(true); o.leave() }
func (o *overlapObserver) Complete()                                       { o.CompleteWithContext(context.Background()) }
func (o *overlapObserver) CompleteWithContext(ctx context.Context)         { o.enter(true); o.leave() }
func (o *overlapObserver) IsClosed() bool                                  { return false }
func (o *overlapObserver) HasThrown() bool                                 { return false }
func (o *overlapObserver) IsCompleted() bool                               { return false }

// goroutine-driven sequential source: emits `count` values then completes
func pumpSource(count int, base int) ro.Observable[int] {
	return ro.NewUnsafeObservableWithContext(func(ctx context.Context, dest ro.Observer[int]) ro.Teardown {
		var stop int32
		go func() {
			for i := 0; i < count && atomic.LoadInt32(&stop) == 0; i++ {
				dest.NextWithContext(ctx, base+i)
			}
			dest.CompleteWithContext(ctx)
		}()
		return func() { atomic.StoreInt32(&stop, 1) }
	})
}

// table row name -> operator value (int -> int). Operators whose per-subscription state is a Go map
// (Distinct) are left out on purpose: behind an unsafe pass-through fed by Merge their callback runs
// concurrently and the runtime aborts the whole process with "concurrent map writes" (observed on the
// pinned tree with Merge |> TapOnFinalize |> Catch |> Distinct) — the crash form of the known finding.
var overlapStages = map[string]func() intOp{
	"TapOnFinalize":             func() intOp { return ro.TapOnFinalize[int](func() {}) },
	"TapOnSubscribeWithContext": func() intOp { return ro.TapOnSubscribe[int](func() {}) },
	"StartWith":                 func() intOp { return ro.StartWith(8) },
	"Catch":                     func() intOp { return ro.Catch(func(err error) ro.Observable[int] { return ro.Just(9) }) },
	"Serialize":                 func() intOp { return ro.Serialize[int]() },
	"MapIWithContext":           func() intOp { return ro.Map(func(v int) int { return v + 1 }) },
	"FilterIWithContext":        func() intOp { return ro.Filter(func(v int) bool { return true }) },
	"TapWithContext":            func() intOp { return ro.Tap(func(int) {}, func(error) {}, func() {}) },
	"ScanIWithContext":          func() intOp { return ro.Scan(func(a, v int) int { return a + v }, 0) },
	"Skip":                      func() intOp { return ro.Skip[int](1) },
	// parameter corners (row name # variant): an operator must not take a short cut that hands its own non-locking
	// subscriber upstream when it is called with nothing to do
	"EndWith":     func() intOp { return ro.EndWith(8) },
	"EndWith#0":   func() intOp { return ro.EndWith[int]() },
	"StartWith#0": func() intOp { return ro.StartWith[int]() },
	"Skip#0":      func() intOp { return ro.Skip[int](0) },
	"Take":        func() intOp { return ro.Take[int](1 << 30) },
}

func runOverlapCase(c *Case) string {
	rows := strings.Split(c.get("rows", ""), ",")
	k := 3
	fmt.Sscanf(c.get("producers", "3"), "%d", &k)
	rounds := 40
	fmt.Sscanf(c.get("rounds", "40"), "%d", &rounds)
	setRecorder(nil)
	worst, after := int32(0), int32(0)
	for r := 0; r < rounds; r++ {
		srcs := make([]ro.Observable[int], k)
		for i := range srcs {
			srcs[i] = pumpSource(60, i*1000)
		}
		var obs ro.Observable[int] = ro.Merge(srcs...)
		for _, rn := range rows {
			if rn == "" {
				continue
			}
			mk, ok := overlapStages[rn]
			if !ok {
				return "res " + c.id + " unsupported"
			}
			obs = mk()(obs)
		}
		o := &overlapObserver{}
		var wg sync.WaitGroup
		wg.Add(1)
		var sub ro.Subscription
		go func() { defer wg.Done(); sub = obs.Subscribe(o) }()
		wg.Wait()
		deadline := time.Now().Add(2 * time.Second)
		for atomic.LoadInt32(&o.done) == 0 && time.Now().Before(deadline) {
			time.Sleep(200 * time.Microsecond)
		}
		sub.Unsubscribe()
		if m := atomic.LoadInt32(&o.maxInside); m > worst {
			worst = m
		}
		after += atomic.LoadInt32(&o.after)
		if worst > 1 {
			break
		}
	}
	verdict := "serialized"
	if worst > 1 {
		verdict = "overlap"
	}
	return fmt.Sprintf("res %s observed=%s maxinside=%d after=%d", c.id, verdict, worst, after)
}

func genOverlap(tier string, seed int64, only string) []*Case {
	r := rand.New(rand.NewSource(seed))
	rounds := "25"
	n := 10
	if tier == "thorough" {
		rounds, n = "200", 40
	}
	var names []string
	for k := range overlapStages {
		names = append(names, k)
	}
	sortStrings(names)
	var cases []*Case
	id := 0
	add := func(rows []string) {
		id++
		cases = append(cases, newCase(id, "kind", "overlap", "rows", strings.Join(rows, ","), "producers", "3", "rounds", rounds))
	}
	add(nil)
	for _, nme := range names {
		add([]string{nme})
	}
	for i := 0; i < n; i++ {
		l := 2 + r.Intn(2)
		rows := make([]string, l)
		for j := range rows {
			rows[j] = names[r.Intn(len(names))]
		}
		add(rows)
	}
	return cases
}

func sortStrings(s []string) {
	for i := 1; i < len(s); i++ {
		for j := i; j > 0 && s[j] < s[j-1]; j-- {
			s[j], s[j-1] = s[j-1], s[j]
		}
	}
}

// ---------------------------------------------------------------------------------------------
// kind=overlap2 (C02 search / validation): every operator with more than one feeder — a second
// source, a notifier / boundary / tick observable, inner observables, a fallback that is itself
// multi-source — with ALL its inputs driven from goroutines of their own (values, then a terminal),
// delivered into the RAW overlap observer (through a Map where the element type is not int: Map is
// built with the unsafe constructor, so nothing but the operator's own subscriber serialises).
// The model's verdict is constant: every one of these operators is built with a locking constructor
// (RoProps/C02b table_ok over the regenerated rows), so callbacks never overlap.

// a goroutine-driven source that ends with an error (`fail`) or completes
func pumpSourceEnd(count, base int, fail bool) ro.Observable[int] {
	return ro.NewUnsafeObservableWithContext(func(ctx context.Context, dest ro.Observer[int]) ro.Teardown {
		var stop int32
		go func() {
			for i := 0; i < count && atomic.LoadInt32(&stop) == 0; i++ {
				dest.NextWithContext(ctx, base+i)
			}
			if fail {
				dest.ErrorWithContext(ctx, fmt.Errorf("pump %d", base))
			} else {
				dest.CompleteWithContext(ctx)
			}
		}()
		return func() { atomic.StoreInt32(&stop, 1) }
	})
}

func lenOf[T any](o ro.Observable[[]T]) ro.Observable[int] {
	return ro.Map(func(v []T) int { return len(v) })(o)
}

// name -> pipeline over pumped inputs; `fail` makes the SECOND input end with an error
var overlap2Ops = map[string]func(fail bool) ro.Observable[int]{
	"TakeUntil": func(f bool) ro.Observable[int] {
		return ro.TakeUntil[int](pumpSourceEnd(0, 1000, f))(pumpSource(600, 0))
	},
	"SkipUntil": func(f bool) ro.Observable[int] {
		return ro.SkipUntil[int](pumpSourceEnd(5, 1000, f))(pumpSource(400, 0))
	},
	"SampleWhen": func(f bool) ro.Observable[int] {
		return ro.SampleWhen[int](pumpSourceEnd(60, 1000, f))(pumpSource(600, 0))
	},
	"ThrottleWhen": func(f bool) ro.Observable[int] {
		return ro.ThrottleWhen[int](pumpSourceEnd(60, 1000, f))(pumpSource(600, 0))
	},
	"BufferWhen": func(f bool) ro.Observable[int] {
		return lenOf(ro.BufferWhen[int](pumpSourceEnd(60, 1000, f))(pumpSource(600, 0)))
	},
	"WindowWhen": func(f bool) ro.Observable[int] {
		return ro.MergeAll[int]()(ro.WindowWhen[int](pumpSourceEnd(60, 1000, f))(pumpSource(600, 0)))
	},
	"MergeWith": func(f bool) ro.Observable[int] { return ro.MergeWith(pumpSourceEnd(60, 1000, f))(pumpSource(80, 0)) },
	"MergeMap": func(f bool) ro.Observable[int] {
		return ro.MergeMap(func(v int) ro.Observable[int] { return pumpSourceEnd(20, v*100, f && v == 1) })(ro.Just(0, 1, 2))
	},
	"RaceWith": func(f bool) ro.Observable[int] { return ro.RaceWith(pumpSourceEnd(60, 1000, f))(pumpSource(80, 0)) },
	"Zip2": func(f bool) ro.Observable[int] {
		return ro.Map(func(t lo.Tuple2[int, int]) int { return t.A })(ro.Zip2(pumpSource(80, 0), pumpSourceEnd(60, 1000, f)))
	},
	"Zip3": func(f bool) ro.Observable[int] {
		return ro.Map(func(t lo.Tuple3[int, int, int]) int { return t.A })(ro.Zip3(pumpSource(80, 0), pumpSourceEnd(60, 1000, f), pumpSource(70, 2000)))
	},
	"CombineLatest2": func(f bool) ro.Observable[int] {
		return ro.Map(func(t lo.Tuple2[int, int]) int { return t.A })(ro.CombineLatest2(pumpSource(80, 0), pumpSourceEnd(60, 1000, f)))
	},
	"CombineLatest3": func(f bool) ro.Observable[int] {
		return ro.Map(func(t lo.Tuple3[int, int, int]) int { return t.A })(ro.CombineLatest3(pumpSource(80, 0), pumpSourceEnd(60, 1000, f), pumpSource(70, 2000)))
	},
	"CombineLatestAll": func(f bool) ro.Observable[int] {
		return lenOf(ro.CombineLatestAll[int]()(ro.Just(pumpSource(80, 0), pumpSourceEnd(60, 1000, f))))
	},
	"ZipAll": func(f bool) ro.Observable[int] {
		return lenOf(ro.ZipAll[int]()(ro.Just(pumpSource(80, 0), pumpSourceEnd(60, 1000, f))))
	},
	// a fallback that is itself multi-source, reached after the source failed
	"Catch": func(f bool) ro.Observable[int] {
		return ro.Catch(func(error) ro.Observable[int] { return ro.Merge(pumpSource(60, 0), pumpSourceEnd(60, 1000, f)) })(ro.Throw[int](fmt.Errorf("x")))
	},
	"OnErrorResumeNextWith": func(f bool) ro.Observable[int] {
		return ro.OnErrorResumeNextWith(ro.Merge(pumpSource(60, 0), pumpSourceEnd(60, 1000, f)))(ro.Throw[int](fmt.Errorf("x")))
	},
	"Concat": func(f bool) ro.Observable[int] {
		return ro.Concat(ro.Just(1), ro.Merge(pumpSource(60, 0), pumpSourceEnd(60, 1000, f)))
	},
	"StartWith": func(f bool) ro.Observable[int] {
		return ro.StartWith(7)(ro.Merge(pumpSource(300, 0), pumpSourceEnd(40, 1000, f))) // the second input ends while the first still emits
	},
	"Defer": func(f bool) ro.Observable[int] {
		return ro.Defer(func() ro.Observable[int] { return ro.Merge(pumpSource(300, 0), pumpSourceEnd(40, 1000, f)) })
	},
	"Timeout": func(f bool) ro.Observable[int] {
		return ro.Timeout[int](50 * time.Microsecond)(pumpSourceEnd(400, 0, f))
	},
	"BufferWithTimeOrCount": func(f bool) ro.Observable[int] {
		return lenOf(ro.BufferWithTimeOrCount[int](3, 30*time.Microsecond)(pumpSourceEnd(400, 0, f)))
	},
	"Delay": func(f bool) ro.Observable[int] { return ro.Delay[int](20 * time.Microsecond)(pumpSourceEnd(200, 0, f)) },
}

func init() { registerKind("overlap2", genOverlap2, "overlap2", runOverlap2Case) }

func runOverlap2Case(c *Case) string {
	mk, ok := overlap2Ops[c.get("op", "?")]
	if !ok {
		return "res " + c.id + " unsupported"
	}
	rounds := 25
	fmt.Sscanf(c.get("rounds", "25"), "%d", &rounds)
	fail := c.get("fail", "0") == "1"
	setRecorder(nil)
	worst := int32(0)
	hung := 0
	after := int32(0) // deliveries that began after a terminal callback had begun (C01), over all rounds
	for r := 0; r < rounds && (worst <= 1 || after == 0); r++ {
		o := &overlapObserver{}
		obs := mk(fail)
		done := make(chan ro.Subscription, 1)
		go func() { done <- obs.Subscribe(o) }()
		var sub ro.Subscription
		select {
		case sub = <-done:
		case <-time.After(3 * time.Second):
			hung++ // an operator that waits inside Subscribe (Concat, OnErrorResumeNextWith) over a stream that did not end
		}
		deadline := time.Now().Add(time.Second)
		for atomic.LoadInt32(&o.done) == 0 && time.Now().Before(deadline) {
			time.Sleep(200 * time.Microsecond)
		}
		if sub != nil {
			sub.Unsubscribe()
		}
		if m := atomic.LoadInt32(&o.maxInside); m > worst {
			worst = m
		}
		after += atomic.LoadInt32(&o.after)
	}
	verdict := "serialized"
	if worst > 1 {
		verdict = "overlap"
	}
	return fmt.Sprintf("res %s observed=%s maxinside=%d hung=%d after=%d", c.id, verdict, worst, hung, after)
}

func genOverlap2(tier string, seed int64, only string) []*Case {
	rounds := "12"
	if tier == "thorough" {
		rounds = "120"
	}
	var names []string
	for k := range overlap2Ops {
		names = append(names, k)
	}
	sortStrings(names)
	var cases []*Case
	id := 0
	for _, n := range names {
		if only != "" && n != only {
			continue
		}
		for _, f := range []string{"0", "1"} {
			id++
			cases = append(cases, newCase(id, "kind", "overlap2", "op", n, "fail", f, "rounds", rounds))
		}
	}
	return cases
}

// ---------- overlap3: the library's OWN sources, context cancelled while a callback runs ----------
//
// Sources that emit from a goroutine of their own (Future, Timer, Interval, RangeWithInterval, FromChannel, Start) and the
// context operators (ThrowOnContextCancel, ContextWithTimeout) are subscribed with a cancellable context into the raw
// counting observer; the context is cancelled while the observer is inside its first value callback. Whatever the
// source does about the cancellation (most do nothing: a done context does not end a stream), its reaction must not run
// concurrently with the callback in progress: a source with a second goroutine feeding a lock-less subscriber would
// start the terminal callback while Next is still running. Model side: serialized (RoProps/C02b.ctor_modes: every
// creation operator with more than one emitting goroutine is built with a locking constructor).

var overlap3Ops = map[string]func(ch chan int) ro.Observable[int]{
	"Future": func(chan int) ro.Observable[int] {
		return ro.Future(func() (int, error) { return 1, nil })
	},
	"FutureMap": func(chan int) ro.Observable[int] {
		return ro.Map(func(v int) int { return v + 1 })(ro.Future(func() (int, error) { return 1, nil }))
	},
	"FutureErr": func(chan int) ro.Observable[int] {
		return ro.Future(func() (int, error) { time.Sleep(100 * time.Microsecond); return 0, fmt.Errorf("x") })
	},
	"Start": func(chan int) ro.Observable[int] { return ro.Start(func() int { return 1 }) },
	"Timer": func(chan int) ro.Observable[int] {
		return ro.Map(func(time.Duration) int { return 1 })(ro.Timer(50 * time.Microsecond))
	},
	"Interval": func(chan int) ro.Observable[int] {
		return ro.Map(func(v int64) int { return int(v) })(ro.Interval(50 * time.Microsecond))
	},
	"RangeWithInterval": func(chan int) ro.Observable[int] {
		return ro.Map(func(v int64) int { return int(v) })(ro.RangeWithInterval(0, 5, 50*time.Microsecond))
	},
	"FromChannel": func(ch chan int) ro.Observable[int] { return ro.FromChannel[int](ch) },
	"ThrowOnContextCancel": func(chan int) ro.Observable[int] {
		return ro.ThrowOnContextCancel[int]()(pumpSource(200, 0))
	},
	"ContextWithTimeout": func(chan int) ro.Observable[int] {
		return ro.ThrowOnContextCancel[int]()(ro.ContextWithTimeout[int](150 * time.Microsecond)(pumpSource(200, 0)))
	},
}

func init() { registerKind("overlap3", genOverlap3, "overlap3", runOverlap3Case) }

// slowObserver: like overlapObserver, but the first value callback waits until the harness has cancelled the context
type slowObserver struct {
	overlapObserver
	entered chan struct{}
	gate    chan struct{}
	first   int32
}

func (o *slowObserver) Next(v int) { o.NextWithContext(context.Background(), v) }
func (o *slowObserver) NextWithContext(ctx context.Context, v int) {
	o.enter(false)
	if atomic.CompareAndSwapInt32(&o.first, 0, 1) {
		close(o.entered)
		select {
		case <-o.gate:
		case <-time.After(100 * time.Millisecond):
		}
		time.Sleep(300 * time.Microsecond) // the reaction to the cancellation, if any, starts while this callback runs
	}
	o.leaveValue()
}

func runOverlap3Case(c *Case) string {
	mk, ok := overlap3Ops[c.get("op", "?")]
	if !ok {
		return "res " + c.id + " unsupported"
	}
	rounds := 12
	fmt.Sscanf(c.get("rounds", "12"), "%d", &rounds)
	setRecorder(nil)
	worst, after := int32(0), int32(0)
	for r := 0; r < rounds && worst <= 1 && after == 0; r++ {
		o := &slowObserver{entered: make(chan struct{}), gate: make(chan struct{})}
		ch := make(chan int, 8)
		for i := 0; i < 4; i++ {
			ch <- i
		}
		ctx, cancel := context.WithCancel(context.Background())
		done := make(chan ro.Subscription, 1)
		obs := mk(ch)
		go func() { done <- obs.SubscribeWithContext(ctx, o) }()
		select {
		case <-o.entered:
			cancel()
			close(o.gate)
		case <-time.After(20 * time.Millisecond): // no value (FutureErr): cancel anyway
			cancel()
		}
		deadline := time.Now().Add(5 * time.Millisecond)
		for atomic.LoadInt32(&o.done) == 0 && time.Now().Before(deadline) {
			time.Sleep(100 * time.Microsecond)
		}
		close(ch)
		select {
		case sub := <-done:
			sub.Unsubscribe()
		case <-time.After(time.Second):
		}
		time.Sleep(200 * time.Microsecond)
		if m := atomic.LoadInt32(&o.maxInside); m > worst {
			worst = m
		}
		after += atomic.LoadInt32(&o.after)
		cancel()
	}
	verdict := "serialized"
	if worst > 1 {
		verdict = "overlap"
	}
	return fmt.Sprintf("res %s observed=%s maxinside=%d after=%d", c.id, verdict, worst, after)
}

func genOverlap3(tier string, seed int64, only string) []*Case {
	rounds := "6"
	if tier == "thorough" {
		rounds = "60"
	}
	var names []string
	for k := range overlap3Ops {
		names = append(names, k)
	}
	sortStrings(names)
	var cases []*Case
	id := 0
	for _, n := range names {
		if only != "" && n != only {
			continue
		}
		id++
		cases = append(cases, newCase(id, "kind", "overlap3", "op", n, "rounds", rounds))
	}
	return cases
}

package main

// kind=seqeq (C04): SequenceEqual(obsB)(source) over two synchronous sources (values then Complete or Error).
//   case 4 kind=seqeq a=1,2,3 enda=C b=1,2 endb=E3
//   res 4 out=T,C
// The Lean side prints the model of the code (out=) and the documented function (spec=); the check compares out= with
// equality and reports out != spec outside the known class (sequences of different length) as a violation.

import (
	"fmt"
	"math/rand"
	"strings"

	"github.com/samber/ro"
)

func init() { registerKind("seqeq", genSeqEq, "seqeq", runSeqEq) }

func genSeqEq(tier string, seed int64, only string) []*Case {
	r := rand.New(rand.NewSource(seed*17 + 3))
	var lists [][]int
	lists = append(lists, []int{}, []int{1}, []int{2}, []int{1, 2}, []int{1, 3}, []int{1, 2, 3}, []int{1, 3, 2}, []int{1, 2, 3, 4})
	n := 6
	if tier == "thorough" {
		n = 40
	}
	for i := 0; i < n; i++ {
		lists = append(lists, randomList(r, r.Intn(6)))
	}
	var out []*Case
	id := 0
	for _, a := range lists {
		for _, b := range lists {
			for _, ea := range []string{"C", "E3"} {
				for _, eb := range []string{"C", "E4"} {
					if (ea != "C" || eb != "C") && r.Intn(3) != 0 {
						continue
					}
					id++
					out = append(out, newCase(id, "kind", "seqeq", "a", intsString(a), "enda", ea, "b", intsString(b), "endb", eb))
				}
			}
		}
	}
	return out
}

func seqSource(vals []int, end string) ro.Observable[int] {
	if end == "C" {
		return ro.Just(vals...)
	}
	n := 0
	fmt.Sscanf(end, "E%d", &n)
	return ro.Concat(ro.Just(vals...), ro.Throw[int](userErr{n}))
}

func runSeqEq(c *Case) string {
	setRecorder(nil)
	a, b := parseInts(c.get("a", "-")), parseInts(c.get("b", "-"))
	var out []string
	ro.SequenceEqual(seqSource(b, c.get("endb", "C")))(seqSource(a, c.get("enda", "C"))).Subscribe(ro.NewObserver(
		func(v bool) {
			if v {
				out = append(out, "T")
			} else {
				out = append(out, "F")
			}
		},
		func(err error) { out = append(out, "E"+renderErr(err)) },
		func() { out = append(out, "C") }))
	return fmt.Sprintf("res %s out=%s", c.id, strings.Join(out, ","))
}

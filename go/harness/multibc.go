package main

// kind=multibc — the concurrent clause of C05 for Zip / CombineLatest / BufferWhen / WindowWhen:
// every source is driven by its own free-running goroutine (released together through a spin
// barrier, with seeded jitter before and between its notifications), `iters` times per scenario,
// and the set of delivered traces that were seen is reported. The model side (driver kind multibc)
// prints the traces the specification allows for some compatible arrival order, the traces of the
// logical model, and every trace reachable in the micro-step model; tools/checks/C05b.py compares.
// This is a search (stress), not a proof: it validates the micro-step model against the real code
// and looks for the outcomes its witness theorems predict.

import (
	"math/rand"
	"runtime"
	"sort"
	"strconv"
	"strings"
	"sync/atomic"
	"time"
)

func init() { registerKind("multibc", genMultiBC, "multibc", runMultiBCCase) }

var spinSink uint64

func spin(k int) {
	var x uint64
	for i := 0; i < k; i++ {
		x += uint64(i) * 2654435761
	}
	atomic.AddUint64(&spinSink, x)
}

func runMultiBCCase(c *Case) string {
	op := c.get("op", "?")
	n, _ := strconv.Atoi(c.get("n", "2"))
	iters, _ := strconv.Atoi(c.get("iters", "1000"))
	seed, _ := strconv.Atoi(c.get("seed", "1"))
	budgetMs, _ := strconv.Atoi(c.get("budget", "3000"))
	budget := time.Duration(budgetMs) * time.Millisecond
	var scripts [][]Tok
	if s := c.get("srcs", ""); s != "" {
		for _, part := range strings.Split(s, ";") {
			sc, err := parseScript(part)
			if err != nil {
				return "res " + c.id + " bad-script"
			}
			scripts = append(scripts, sc)
		}
	}
	if n != len(scripts) || n < 1 || n > 4 {
		return "res " + c.id + " unsupported"
	}
	variant := map[string]string{"Zip": "with", "CombineLatest": "with", "BufferWhen": "plain", "WindowWhen": "plain"}[op]
	if variant == "" {
		return "res " + c.id + " unsupported"
	}
	if runtime.GOMAXPROCS(0) < n+1 {
		runtime.GOMAXPROCS(n + 1)
	}
	setRecorder(nil)
	rng := rand.New(rand.NewSource(int64(seed)))
	seen := map[string]int{}

	// One persistent goroutine per source, released for every iteration through a generation
	// counter they spin on (parking and waking goroutines for every iteration would cost far more
	// than the iteration itself and would align the sources much less tightly).
	var gen, doneCnt, stop int32
	var probes []*Probe
	var jit [][]int
	gids := make([]string, n)
	var gidsReady int32
	for i := 0; i < n; i++ {
		go func(i int) {
			gids[i] = curGoroutineID()
			atomic.AddInt32(&gidsReady, 1)
			my := int32(0)
			for {
				for spins := 0; atomic.LoadInt32(&gen) == my; spins++ {
					if spins&1023 == 1023 {
						runtime.Gosched()
					}
				}
				my++
				if atomic.LoadInt32(&stop) != 0 {
					return
				}
				for k := range scripts[i] {
					spin(jit[i][k])
					probes[i].push(k)
				}
				atomic.AddInt32(&doneCnt, 1)
			}
		}(i)
	}
	for atomic.LoadInt32(&gidsReady) < int32(n) {
		runtime.Gosched()
	}
	caseStart := time.Now()
	for it := 0; it < iters; it++ {
		// on a loaded machine the spinning sources may be descheduled for whole time slices: the
		// number of iterations is then cut by a time budget (the harness's per-case deadline is 20 s)
		if it&31 == 31 && time.Since(caseStart) > budget {
			break
		}
		ps := make([]*Probe, n)
		for i := range ps {
			ps[i] = &Probe{script: scripts[i]}
		}
		r := &mbRec{}
		subscribe, blocking, err := mbBuild(op, variant, n, "C", "", ps, r)
		if err != nil || blocking {
			atomic.StoreInt32(&stop, 1)
			atomic.AddInt32(&gen, 1)
			return "res " + c.id + " unsupported"
		}
		subscribe()
		// jitter: before the first notification and between notifications, per source
		j := make([][]int, n)
		for i := range j {
			j[i] = make([]int, len(scripts[i])+1)
			for k := range j[i] {
				switch rng.Intn(4) {
				case 0:
					j[i][k] = 0
				case 1:
					j[i][k] = rng.Intn(20)
				case 2:
					j[i][k] = rng.Intn(200)
				default:
					j[i][k] = rng.Intn(2000)
				}
			}
		}
		probes, jit = ps, j
		atomic.StoreInt32(&doneCnt, 0)
		atomic.AddInt32(&gen, 1)
		t0 := time.Now()
		finished := false
		for spins := 0; !finished; spins++ {
			if atomic.LoadInt32(&doneCnt) == int32(n) {
				seen[r.trace()]++
				finished = true
				break
			}
			if spins&4095 != 4095 {
				continue
			}
			runtime.Gosched()
			if el := time.Since(t0); el > time.Second {
				// a source goroutine has not come back from the operator. It is a deadlock inside the
				// library when one of the source goroutines is parked on a sync.Mutex below a samber/ro frame (checked on
				// the goroutine dump, so a slow machine is not mistaken for a deadlock); its goroutines
				// are lost and the scenario stops here.
				stillBlocked := blockedOnLibraryMutex(gids)
				if stillBlocked {
					// not a goroutine that merely waits its turn on a contended lock: look again later
					time.Sleep(300 * time.Millisecond)
					stillBlocked = atomic.LoadInt32(&doneCnt) != int32(n) && blockedOnLibraryMutex(gids)
				}
				if stillBlocked {
					seen[r.trace()+"!deadlock"]++
					finished = true
					it = iters
				} else if el > 8*time.Second {
					seen[r.trace()+"!stuck"]++
					finished = true
					it = iters
				}
			}
		}
	}
	atomic.StoreInt32(&stop, 1)
	atomic.AddInt32(&gen, 1)
	keys := make([]string, 0, len(seen))
	for k := range seen {
		keys = append(keys, k)
	}
	sort.Strings(keys)
	counts := make([]string, len(keys))
	for i, k := range keys {
		counts[i] = strconv.Itoa(seen[k])
	}
	return "res " + c.id + " seen=" + strings.Join(keys, "|") + " counts=" + strings.Join(counts, "|")
}

// one of the given goroutines (the sources of the running scenario) is parked on a sync.Mutex
// below a samber/ro frame
func blockedOnLibraryMutex(gids []string) bool {
	stackMu.Lock()
	defer stackMu.Unlock()
	n := runtime.Stack(stackBuf, true)
	for _, g := range strings.Split(string(stackBuf[:n]), "\n\n") {
		mine := false
		for _, id := range gids {
			if strings.HasPrefix(g, "goroutine "+id+" [") {
				mine = true
			}
		}
		if mine && (strings.Contains(g, "[sync.Mutex.Lock") || strings.Contains(g, "[semacquire")) &&
			strings.Contains(g, "sync.(*Mutex).Lock") && strings.Contains(g, "github.com/samber/ro.") {
			return true
		}
	}
	return false
}

var mbcScenarios = []struct {
	op   string
	srcs string
}{
	{"Zip", "N1,C;N2"}, {"Zip", "N1;N2,C"}, {"Zip", "N1,C;N2,C"}, {"Zip", "N1,E1;N2"}, {"Zip", "N1,N2;N3,N4"},
	{"CombineLatest", "N1;N2"}, {"CombineLatest", "N1,C;N2,C"}, {"CombineLatest", "N1,N2;N3"}, {"CombineLatest", "N1,E1;N2"},
	{"BufferWhen", "N1,C;N0"}, {"BufferWhen", "N1,N2,C;N0,N0"}, {"BufferWhen", "N1;N0,C"}, {"BufferWhen", "N1,E1;N0"},
	{"WindowWhen", "N1;N0"}, {"WindowWhen", "N1,C;N0"}, {"WindowWhen", "N1,N2;N0,C"},
}

func genMultiBC(tier string, seed int64, only string) []*Case {
	// a case must stay well under the harness's per-case deadline: thorough repeats the scenarios
	iters, reps, budget := 5000, 1, "3000"
	if tier == "thorough" {
		iters, reps, budget = 25000, 24, "8000"
	}
	var cases []*Case
	id := 0
	for rep := 0; rep < reps; rep++ {
		for i, sc := range mbcScenarios {
			if only != "" && sc.op != only {
				continue
			}
			id++
			cases = append(cases, newCase(id, "kind", "multibc", "op", sc.op, "n", "2", "iters", strconv.Itoa(iters), "budget", budget,
				"seed", strconv.FormatInt(seed*100000+int64(rep*100+i), 10), "srcs", sc.srcs))
		}
	}
	return cases
}

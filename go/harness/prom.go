package main

// kind=prom (property C19): the enterprise Prometheus plugin. A pipeline is built either with the
// instrumenting ee `roprometheus.PipeN` (pipe=ee) or by plain application of the operators
// (pipe=ro), over a chain of int->int catalogue operators (opSpecs with chain: true) and the
// plugin's stand-alone counting operators, with the licence bypass hook on or off. It is
// subscribed once or several times (sequentially or from concurrent goroutines), each
// subscription with its own raw script; the result is what every subscriber was delivered,
// whether the source was released, and the metrics gathered from the returned collector.
//
//   case 7 kind=prom pipe=ee lic=on mode=hot conc=0 chain=Take:2:plain:-/CntN:-:plain:-/Map:-:ctx:dbl+t51 sub=7 cut=-,1 srcs=N1@1,N2@2,C@3;N5@1
//   res 7 traces=N2/7.1.51,N4/7.2.51,C/7.2;- rel=1;1 ssub=1;1 m=subs:2,in:2,out:2,lag:2,proc:2.2.2 x=2
//
// The licence can only be switched on when the repository under check carries the hook
// `VerifSetLicenseBypass` (repo_hooks/prometheus_license.patch). Without it (promSetBypass ==
// nil) only lic=off cases are generated and a lic=on case answers `nohook`.

import (
	"context"
	"fmt"
	"math/rand"
	"sort"
	"strconv"
	"strings"
	"sync"

	"github.com/prometheus/client_golang/prometheus"
	dto "github.com/prometheus/client_model/go"
	"github.com/samber/ro"
	roprometheus "github.com/samber/ro/ee/plugins/prometheus"
)

var promSetBypass func(bool) bool // set by prom_hook_on.go when the hook exists

func init() { registerKind("prom", genProm, "prom", runPromCase) }

// ---------- chain elements ----------

type promElem struct {
	name    string
	p       []int
	variant string
	cb      string
}

func (e promElem) String() string {
	return e.name + ":" + intsString(e.p) + ":" + e.variant + ":" + e.cb
}

func parsePromChain(s string) ([]promElem, error) {
	if s == "-" || s == "" {
		return nil, nil
	}
	var out []promElem
	for _, t := range strings.Split(s, "/") {
		f := strings.Split(t, ":")
		if len(f) != 4 {
			return nil, fmt.Errorf("bad chain element %q", t)
		}
		out = append(out, promElem{f[0], parseInts(f[1]), f[2], f[3]})
	}
	return out, nil
}

func chainString(ch []promElem) string {
	if len(ch) == 0 {
		return "-"
	}
	parts := make([]string, len(ch))
	for i, e := range ch {
		parts[i] = e.String()
	}
	return strings.Join(parts, "/")
}

// the plugin's stand-alone operators (operator.go:26-137), each bound to its own metric
var promStandalone = []string{"CntN", "CntE", "CntC", "CntS", "Lag"}

func isStandalone(name string) bool {
	for _, s := range promStandalone {
		if s == name {
			return true
		}
	}
	return false
}

type standaloneMetric struct {
	counter prometheus.Counter
	summary prometheus.Summary
}

func (m standaloneMetric) read() (int, bool) {
	var d dto.Metric
	if m.counter != nil {
		if err := m.counter.Write(&d); err != nil {
			return -1, false
		}
		v := d.GetCounter().GetValue()
		return int(v), v >= 0
	}
	if err := m.summary.Write(&d); err != nil {
		return -1, false
	}
	return int(d.GetSummary().GetSampleCount()), d.GetSummary().GetSampleSum() >= 0
}

// ---------- a scripted source that can be subscribed several times ----------

type promSubKey struct{}

type promProbe struct {
	mu        sync.Mutex
	scripts   [][]Tok
	sync      bool
	subs      []int
	teardowns []int
	dests     []ro.Observer[int]
	ctxs      []context.Context
	lost      int // subscriptions whose context did not carry the subscription index
}

func newPromProbe(scripts [][]Tok, syncMode bool) *promProbe {
	n := len(scripts)
	return &promProbe{scripts: scripts, sync: syncMode, subs: make([]int, n), teardowns: make([]int, n),
		dests: make([]ro.Observer[int], n), ctxs: make([]context.Context, n)}
}

func (p *promProbe) Observable() ro.Observable[int] {
	return ro.NewUnsafeObservableWithContext(func(ctx context.Context, dest ro.Observer[int]) ro.Teardown {
		j, ok := ctx.Value(promSubKey{}).(int)
		if !ok || j < 0 || j >= len(p.scripts) {
			p.mu.Lock()
			p.lost++
			p.mu.Unlock()
			return nil
		}
		p.mu.Lock()
		p.subs[j]++
		p.dests[j] = dest
		p.ctxs[j] = ctx
		p.mu.Unlock()
		if p.sync {
			for _, t := range p.scripts[j] {
				emit(dest, ctx, t)
			}
		}
		return func() {
			p.mu.Lock()
			p.teardowns[j]++
			p.mu.Unlock()
		}
	})
}

func (p *promProbe) push(j, i int) {
	p.mu.Lock()
	dest, ctx := p.dests[j], p.ctxs[j]
	p.mu.Unlock()
	if dest != nil {
		emit(dest, ctx, p.scripts[j][i])
	}
}

// ---------- running one case ----------

// the two panics a nil context provokes inside the instrumentation (operator.go:190, :222)
var promErrCanon = strings.NewReplacer(
	"other(unexpected_error:_cannot_create_context_from_nil_parent)", "p901",
	"other(runtime_error:_invalid_memory_address_or_nil_pointer_dereference)", "p902",
)

func runPromCase(c *Case) string {
	licOn := c.get("lic", "off") == "on"
	if licOn && promSetBypass == nil {
		return "res " + c.id + " nohook"
	}
	chain, err := parsePromChain(c.get("chain", "-"))
	if err != nil {
		return "res " + c.id + " bad-chain"
	}
	var scripts [][]Tok
	for _, g := range strings.Split(c.get("srcs", "-"), ";") {
		s, err := parseScript(g)
		if err != nil {
			return "res " + c.id + " bad-script"
		}
		scripts = append(scripts, s)
	}
	nsub := len(scripts)
	cuts := make([]int, nsub)
	cutF := strings.Split(c.get("cut", "-"), ",")
	for j := range cuts {
		cuts[j] = -1
		if j < len(cutF) && cutF[j] != "-" {
			cuts[j], _ = strconv.Atoi(cutF[j])
		}
	}
	hot := c.get("mode", "sync") == "hot"
	conc := c.get("conc", "0") == "1"
	pipe := c.get("pipe", "ee")
	subMarks := parseInts(strings.ReplaceAll(c.get("sub", "-"), ".", ","))

	if promSetBypass != nil {
		prev := promSetBypass(licOn)
		defer promSetBypass(prev)
	}

	// operators (the stand-alone ones read the licence when they are applied)
	var ops []intOp
	var extra []standaloneMetric
	for k, e := range chain {
		if isStandalone(e.name) {
			m := standaloneMetric{}
			name := fmt.Sprintf("verif_x%d", k)
			if e.name == "Lag" {
				m.summary = prometheus.NewSummary(prometheus.SummaryOpts{Name: name})
			} else {
				m.counter = prometheus.NewCounter(prometheus.CounterOpts{Name: name})
			}
			extra = append(extra, m)
			switch e.name {
			case "CntN":
				ops = append(ops, roprometheus.IncCounterOnNext[int](m.counter))
			case "CntE":
				ops = append(ops, roprometheus.IncCounterOnError[int](m.counter))
			case "CntC":
				ops = append(ops, roprometheus.IncCounterOnComplete[int](m.counter))
			case "CntS":
				ops = append(ops, roprometheus.IncCounterOnSubscription[int](m.counter))
			case "Lag":
				ops = append(ops, roprometheus.ObserveNextLag[int](m.summary))
			}
			continue
		}
		spec := findOp(e.name)
		if spec == nil {
			return "res " + c.id + " unsupported"
		}
		var cbs []Cb
		if e.cb != "-" && e.cb != "" {
			cbs = append(cbs, parseCb(e.cb))
		}
		op, err := specOperator(spec, e.p, e.variant, cbs)
		if err != nil {
			return "res " + c.id + " unsupported"
		}
		ops = append(ops, op)
	}

	probe := newPromProbe(scripts, !hot)
	var obs ro.Observable[int]
	var coll prometheus.Collector
	switch pipe {
	case "ee":
		if len(ops) < 1 || len(ops) > promMaxArity {
			return "res " + c.id + " unsupported"
		}
		scrape0 := c.get("scrape0", "-") == "1" && licOn && promSetBypass != nil
		if scrape0 {
			// the pipeline is built and its collector registered and scraped BEFORE the licence is installed
			// (registry.MustRegister right after building); the licence is read at subscription / scrape time, so once it
			// is active the run and the exported counters are those of a pipeline built under the licence
			promSetBypass(false)
		}
		obs, coll = eePipe(roprometheus.CollectorConfig{}, probe.Observable(), ops)
		if coll == nil {
			return "res " + c.id + " pipe-description-failed"
		}
		if scrape0 {
			if m0, _ := gatherProm(coll, len(ops)); m0 != "off" {
				return "res " + c.id + " _flag=exported-without-licence:" + m0
			}
			promSetBypass(true)
		}
	default:
		obs = probe.Observable()
		for _, op := range ops {
			obs = op(obs)
		}
	}

	traces := make([]string, nsub)
	runOne := func(j int) {
		rec := &Recorder{}
		ctx := context.WithValue(ctxFromMarks(subMarks), promSubKey{}, j)
		sub := obs.SubscribeWithContext(ctx, observer[int](rec))
		if hot {
			for i := range scripts[j] {
				if i == cuts[j] {
					sub.Unsubscribe()
				}
				probe.push(j, i)
			}
			if cuts[j] >= len(scripts[j]) {
				sub.Unsubscribe()
			}
		}
		rec.mu.Lock()
		traces[j] = promErrCanon.Replace(joinOrDash(rec.trace))
		rec.mu.Unlock()
	}
	if conc {
		var wg sync.WaitGroup
		for j := 0; j < nsub; j++ {
			wg.Add(1)
			go func(j int) {
				defer wg.Done()
				runOne(j)
			}(j)
		}
		wg.Wait()
	} else {
		for j := 0; j < nsub; j++ {
			runOne(j)
		}
	}

	rel := make([]string, nsub)
	ssub := make([]string, nsub)
	for j := 0; j < nsub; j++ {
		rel[j] = strconv.Itoa(probe.teardowns[j])
		ssub[j] = strconv.Itoa(probe.subs[j])
	}
	flags := ""
	if probe.lost > 0 {
		flags += " srcctx-lost"
	}

	m := "-"
	if coll != nil {
		var bad string
		m, bad = gatherProm(coll, len(ops))
		if bad != "" {
			flags += " " + bad
		}
	}
	xs := make([]string, len(extra))
	for i, e := range extra {
		v, ok := e.read()
		xs[i] = strconv.Itoa(v)
		if !ok {
			flags += " negtime"
		}
	}
	x := "-"
	if len(xs) > 0 {
		x = strings.Join(xs, ".")
	}
	return fmt.Sprintf("res %s traces=%s rel=%s ssub=%s m=%s x=%s%s", c.id, strings.Join(traces, ";"),
		strings.Join(rel, ";"), strings.Join(ssub, ";"), m, x, flags)
}

// gatherProm registers the returned collector in a fresh registry and gathers it:
//
//	off                                   nothing is exported (licence off)
//	subs:2,in:5,out:3,lag:5,proc:3.2      counter values / observation counts, proc by operator_index
func gatherProm(coll prometheus.Collector, arity int) (string, string) {
	reg := prometheus.NewRegistry()
	if err := reg.Register(coll); err != nil {
		return "register-failed", "gather-failed"
	}
	fams, err := reg.Gather()
	if err != nil {
		return "gather-failed", "gather-failed"
	}
	if len(fams) == 0 {
		return "off", ""
	}
	vals := map[string]int{"subs": 0, "in": 0, "out": 0, "lag": 0}
	proc := map[int]int{}
	bad := ""
	sort.Slice(fams, func(i, j int) bool { return fams[i].GetName() < fams[j].GetName() })
	for _, f := range fams {
		for _, mt := range f.GetMetric() {
			switch f.GetName() {
			case "ro_subscriptions_total":
				vals["subs"] += int(mt.GetCounter().GetValue())
			case "ro_notification_in_total":
				vals["in"] += int(mt.GetCounter().GetValue())
			case "ro_notification_out_total":
				vals["out"] += int(mt.GetCounter().GetValue())
			case "ro_notification_lag_seconds":
				vals["lag"] += int(mt.GetSummary().GetSampleCount())
				if mt.GetSummary().GetSampleSum() < 0 {
					bad = "negtime"
				}
			case "ro_operator_processing_time_seconds_total":
				idx, name := -1, ""
				for _, l := range mt.GetLabel() {
					if l.GetName() == "operator_index" {
						idx, _ = strconv.Atoi(l.GetValue())
					}
					if l.GetName() == "operator" {
						name = l.GetValue()
					}
				}
				// observer i carries the name of argument i of the PipeN call in prom_pipes.go
				if name != fmt.Sprintf("o[%d]", idx) {
					bad = "badlabel"
				}
				proc[idx] += int(mt.GetSummary().GetSampleCount())
				if mt.GetSummary().GetSampleSum() < 0 {
					bad = "negtime"
				}
			default:
				bad = "unknown-metric"
			}
		}
	}
	ps := make([]string, arity)
	for i := range ps {
		if v, ok := proc[i]; ok {
			ps[i] = strconv.Itoa(v)
			delete(proc, i)
		} else {
			ps[i] = "?"
		}
	}
	if len(proc) > 0 {
		bad = "badlabel"
	}
	return fmt.Sprintf("subs:%d,in:%d,out:%d,lag:%d,proc:%s", vals["subs"], vals["in"], vals["out"], vals["lag"], strings.Join(ps, ".")), bad
}

// ---------- generation ----------

type promCfg struct {
	name    string
	p       []int
	variant string
	cb      string
}

// the int->int operators for which lean/RoModel/Drivers/Prom.lean (`stageOf`) has a gated-stage model
var promModelled = map[string]bool{}

func init() {
	for _, n := range strings.Fields("Clamp DefaultIfEmpty DefaultIfEmptyWithContext Distinct DistinctBy ElementAt ElementAtOrDefault EndWith Filter Find First Head IgnoreElements Last Map MapErr MapTo MaterializeDematerialize Max Min OnErrorReturn Reduce Scan Serialize Skip SkipLast SkipWhile StartWith Sum Tail Take TakeLast TakeWhile Tap TapOnFinalize TapOnSubscribe ThrowIfEmpty") {
		promModelled[n] = true
	}
}

// every (operator, parameters, variant, callback) of the int->int catalogue subset
func promOpConfigs(r *rand.Rand) []promElem {
	var out []promElem
	for _, spec := range opSpecs {
		if !spec.chain || !promModelled[spec.name] {
			continue
		}
		for _, variant := range spec.variants {
			cbList := cbChoices(spec.cbKind, variant)
			if spec.cbKind == "" {
				cbList = []string{"-"}
			}
			for _, cb := range cbList {
				if hasCtx(variant) && cb != "-" && spec.cbKind != "boolpred" {
					cb += "+t" + strconv.Itoa(50+r.Intn(9))
				}
				for _, p := range spec.params {
					out = append(out, promElem{spec.name, p, variant, cb})
				}
			}
		}
	}
	return out
}

func promScript(r *rand.Rand, maxLen int) []Tok {
	n := r.Intn(maxLen + 1)
	vals := randomList(r, n)
	toks := make([]Tok, 0, n+2)
	for i, v := range vals {
		toks = append(toks, Tok{'N', v, i + 1})
	}
	m := n + 1
	switch r.Intn(8) {
	case 0, 1, 2, 3:
		toks = append(toks, Tok{'C', 0, m})
	case 4, 5:
		toks = append(toks, Tok{'E', 1 + r.Intn(3), m})
	case 6: // never ends
	case 7: // illegal continuation after the terminal
		if r.Intn(2) == 0 {
			toks = append(toks, Tok{'C', 0, m})
		} else {
			toks = append(toks, Tok{'E', 1, m})
		}
		switch r.Intn(3) {
		case 0:
			toks = append(toks, Tok{'N', 9, m + 1})
		case 1:
			toks = append(toks, Tok{'C', 0, m + 1})
		default:
			toks = append(toks, Tok{'E', 2, m + 1})
		}
	}
	return toks
}

func genProm(tier string, seed int64, only string) []*Case {
	r := rand.New(rand.NewSource(seed))
	thorough := tier == "thorough"
	hook := promSetBypass != nil
	var cases []*Case
	id := 0
	// every case is generated for both licence states (adjacent ids); without the hook only `off`
	add := func(pipe, mode, conc, chain, cut, srcs string) {
		lics := []string{"off"}
		if hook {
			lics = []string{"on", "off"}
		}
		for _, lic := range lics {
			id++
			cases = append(cases, newCase(id, "kind", "prom", "pipe", pipe, "lic", lic, "mode", mode, "conc", conc,
				"chain", chain, "sub", "7", "cut", cut, "srcs", srcs))
			if lic == "on" && pipe == "ee" && ((thorough && id%3 == 0) || (!thorough && id%7 == 0)) {
				id++
				cases = append(cases, newCase(id, "kind", "prom", "pipe", pipe, "lic", lic, "mode", mode, "conc", conc,
					"chain", chain, "sub", "7", "cut", cut, "srcs", srcs, "scrape0", "1"))
			}
		}
	}
	configs := promOpConfigs(r)
	if only != "" {
		var f []promElem
		for _, c := range configs {
			if c.name == only {
				f = append(f, c)
			}
		}
		configs = f
	}

	// 1. corpus: the shapes that distinguish the gate structure and the context handling
	for _, c := range [][3]string{
		{"sync", "Max:-:plain:-", "C@1"},
		{"sync", "Max:-:plain:-/Map:-:plain:dbl", "C@1"},
		{"sync", "EndWith:8:plain:-", "N1@1,C@2"},
		{"sync", "StartWith:8,9:plain:-/Take:1:plain:-", "N1@1,N2@2,C@3"},
		{"hot", "StartWith:8,9:plain:-/Take:1:plain:-", "N1@1,N2@2,C@3"},
		{"hot", "TakeLast:3:plain:-/Take:1:plain:-", "N1@1,N2@2,N3@3,C@4"},
		{"sync", "TakeLast:3:plain:-/Take:1:plain:-", "N1@1,N2@2,N3@3,C@4"},
		{"sync", "Take:0:plain:-/Map:-:plain:dbl", "N1@1,C@2"},
		{"sync", "Map:-:plain:dbl/Take:0:plain:-", "N1@1,C@2"},
		{"sync", "DefaultIfEmpty:9:plain:-/Map:-:plain:dbl", "C@1"},
		{"sync", "Take:1:plain:-", "N1@1,N2@2,C@3,N4@4"},
		{"hot", "Take:1:plain:-", "N1@1,N2@2,C@3,N4@4"},
		{"sync", "CntS:-:plain:-/CntN:-:plain:-/CntE:-:plain:-/CntC:-:plain:-/Lag:-:plain:-", "N1@1,N2@2,E3@3;C@1"},
	} {
		add("ee", c[0], "0", c[1], "-", c[2])
		add("ro", c[0], "0", c[1], "-", c[2])
	}

	// 2. every operator configuration alone (Pipe1), exhaustive short scripts incl. illegal suffixes
	maxLen := 1
	if thorough {
		maxLen = 2
	}
	lists := valueLists(maxLen)
	for i := 0; i < 2; i++ {
		lists = append(lists, randomList(r, 3+r.Intn(3)))
	}
	for _, cfg := range configs {
		for _, vals := range lists {
			for _, script := range scriptsFor(vals, true) {
				for _, mode := range []string{"sync", "hot"} {
					cut := "-"
					if mode == "hot" && r.Intn(4) == 0 {
						cut = strconv.Itoa(r.Intn(len(script) + 1))
					}
					add("ee", mode, "0", cfg.String(), cut, scriptString(script))
				}
			}
		}
	}
	if len(configs) == 0 {
		return cases
	}

	randomChain := func(n int, standaloneP int) string {
		ch := make([]promElem, n)
		afterMax := false
		for i := range ch {
			if standaloneP > 0 && r.Intn(standaloneP) == 0 {
				ch[i] = promElem{promStandalone[r.Intn(len(promStandalone))], nil, "plain", "-"}
				continue
			}
			ch[i] = configs[r.Intn(len(configs))]
			// Max on an empty source emits with a nil context (known finding of C04/C09); the
			// harness's context-tagging callbacks cannot run on a nil context, so no such
			// callback is placed downstream of Max
			for afterMax && hasCtx(ch[i].variant) {
				ch[i] = configs[r.Intn(len(configs))]
			}
			if ch[i].name == "Max" {
				afterMax = true
			}
		}
		return chainString(ch)
	}
	randomSubs := func(maxSubs, maxLen int, mode string) (string, string) {
		n := 1 + r.Intn(maxSubs)
		ss := make([]string, n)
		cs := make([]string, n)
		for j := range ss {
			sc := promScript(r, maxLen)
			ss[j] = scriptString(sc)
			cs[j] = "-"
			if mode == "hot" && r.Intn(4) == 0 {
				cs[j] = strconv.Itoa(r.Intn(len(sc) + 1))
			}
		}
		return strings.Join(ss, ";"), strings.Join(cs, ",")
	}
	pick := func(l []string) string { return l[r.Intn(len(l))] }

	// 3. every generated arity (Pipe1 … Pipe24)
	perArity := 10
	if thorough {
		perArity = 200
	}
	for n := 1; n <= promMaxArity; n++ {
		for k := 0; k < perArity; k++ {
			mode := pick([]string{"sync", "hot"})
			srcs, cut := randomSubs(2, 5, mode)
			add("ee", mode, pick([]string{"0", "0", "1"}), randomChain(n, 6), cut, srcs)
		}
	}

	// 4. random chains, repeated and concurrent subscriptions, stand-alone counters, both pipes
	nRandom := 8000
	if thorough {
		nRandom = 200000
	}
	for k := 0; k < nRandom; k++ {
		n := 1 + r.Intn(4)
		if r.Intn(8) == 0 {
			n = 1 + r.Intn(10)
		}
		mode := pick([]string{"sync", "hot"})
		srcs, cut := randomSubs(3, 6, mode)
		pipe := "ee"
		sp := 5
		if r.Intn(5) == 0 {
			pipe, sp = "ro", 2
		}
		add(pipe, mode, pick([]string{"0", "1"}), randomChain(n, sp), cut, srcs)
	}
	return cases
}

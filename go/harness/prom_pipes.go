package main

// The 24 generated arities of ee/plugins/prometheus/pipe.go. PipeN finds its own call by parsing
// THIS file at run time (introspection.GetFunctionDescription: first call expression that starts on
// the caller's line), so every call sits alone on its line and the file is kept small.

import (
	"github.com/prometheus/client_golang/prometheus"
	"github.com/samber/ro"
	roprometheus "github.com/samber/ro/ee/plugins/prometheus"
)

const promMaxArity = 24

func eePipe(cfg roprometheus.CollectorConfig, src ro.Observable[int], o []intOp) (ro.Observable[int], prometheus.Collector) {
	switch len(o) {
	case 1:
		return roprometheus.Pipe1(cfg, src, o[0])
	case 2:
		return roprometheus.Pipe2(cfg, src, o[0], o[1])
	case 3:
		return roprometheus.Pipe3(cfg, src, o[0], o[1], o[2])
	case 4:
		return roprometheus.Pipe4(cfg, src, o[0], o[1], o[2], o[3])
	case 5:
		return roprometheus.Pipe5(cfg, src, o[0], o[1], o[2], o[3], o[4])
	case 6:
		return roprometheus.Pipe6(cfg, src, o[0], o[1], o[2], o[3], o[4], o[5])
	case 7:
		return roprometheus.Pipe7(cfg, src, o[0], o[1], o[2], o[3], o[4], o[5], o[6])
	case 8:
		return roprometheus.Pipe8(cfg, src, o[0], o[1], o[2], o[3], o[4], o[5], o[6], o[7])
	case 9:
		return roprometheus.Pipe9(cfg, src, o[0], o[1], o[2], o[3], o[4], o[5], o[6], o[7], o[8])
	case 10:
		return roprometheus.Pipe10(cfg, src, o[0], o[1], o[2], o[3], o[4], o[5], o[6], o[7], o[8], o[9])
	case 11:
		return roprometheus.Pipe11(cfg, src, o[0], o[1], o[2], o[3], o[4], o[5], o[6], o[7], o[8], o[9], o[10])
	case 12:
		return roprometheus.Pipe12(cfg, src, o[0], o[1], o[2], o[3], o[4], o[5], o[6], o[7], o[8], o[9], o[10], o[11])
	case 13:
		return roprometheus.Pipe13(cfg, src, o[0], o[1], o[2], o[3], o[4], o[5], o[6], o[7], o[8], o[9], o[10], o[11], o[12])
	case 14:
		return roprometheus.Pipe14(cfg, src, o[0], o[1], o[2], o[3], o[4], o[5], o[6], o[7], o[8], o[9], o[10], o[11], o[12], o[13])
	case 15:
		return roprometheus.Pipe15(cfg, src, o[0], o[1], o[2], o[3], o[4], o[5], o[6], o[7], o[8], o[9], o[10], o[11], o[12], o[13], o[14])
	case 16:
		return roprometheus.Pipe16(cfg, src, o[0], o[1], o[2], o[3], o[4], o[5], o[6], o[7], o[8], o[9], o[10], o[11], o[12], o[13], o[14], o[15])
	case 17:
		return roprometheus.Pipe17(cfg, src, o[0], o[1], o[2], o[3], o[4], o[5], o[6], o[7], o[8], o[9], o[10], o[11], o[12], o[13], o[14], o[15], o[16])
	case 18:
		return roprometheus.Pipe18(cfg, src, o[0], o[1], o[2], o[3], o[4], o[5], o[6], o[7], o[8], o[9], o[10], o[11], o[12], o[13], o[14], o[15], o[16], o[17])
	case 19:
		return roprometheus.Pipe19(cfg, src, o[0], o[1], o[2], o[3], o[4], o[5], o[6], o[7], o[8], o[9], o[10], o[11], o[12], o[13], o[14], o[15], o[16], o[17], o[18])
	case 20:
		return roprometheus.Pipe20(cfg, src, o[0], o[1], o[2], o[3], o[4], o[5], o[6], o[7], o[8], o[9], o[10], o[11], o[12], o[13], o[14], o[15], o[16], o[17], o[18], o[19])
	case 21:
		return roprometheus.Pipe21(cfg, src, o[0], o[1], o[2], o[3], o[4], o[5], o[6], o[7], o[8], o[9], o[10], o[11], o[12], o[13], o[14], o[15], o[16], o[17], o[18], o[19], o[20])
	case 22:
		return roprometheus.Pipe22(cfg, src, o[0], o[1], o[2], o[3], o[4], o[5], o[6], o[7], o[8], o[9], o[10], o[11], o[12], o[13], o[14], o[15], o[16], o[17], o[18], o[19], o[20], o[21])
	case 23:
		return roprometheus.Pipe23(cfg, src, o[0], o[1], o[2], o[3], o[4], o[5], o[6], o[7], o[8], o[9], o[10], o[11], o[12], o[13], o[14], o[15], o[16], o[17], o[18], o[19], o[20], o[21], o[22])
	case 24:
		return roprometheus.Pipe24(cfg, src, o[0], o[1], o[2], o[3], o[4], o[5], o[6], o[7], o[8], o[9], o[10], o[11], o[12], o[13], o[14], o[15], o[16], o[17], o[18], o[19], o[20], o[21], o[22], o[23])
	}
	return nil, nil
}

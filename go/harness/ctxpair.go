package main

// kind=ctxpair (C09, time-driven and hand-off operators): every notification keeps ITS OWN context on the way through
// an operator that delivers later or on another goroutine (Delay, DelayEach, Timeout, ThrottleTime, SampleTime,
// ObserveOn, SubscribeOn, Serialize). The source sends a burst of n values — value v with the marker 100+v on top of
// the subscription marker 7 — and, after a pause, its terminal with the marker 99; timers armed for a burst expire
// together and race, which is where a context stored apart from its notification gets attached to a neighbour.
//
//   case 4 kind=ctxpair op=Delay n=8 d=300 end=C rounds=20
//   res 4 bad=0 term=ok
// bad: delivered values whose marker list is not [7, 100+v]; term: the terminal carried [7, 99] (or none was delivered).
// The model side says bad=0 term=ok for every case (contexts travel with their notification: the queue entries of the
// models in RoModel/Timed.lean / RoModel/Chan.lean are (context, notification) pairs).

import (
	"context"
	"fmt"
	"strconv"
	"sync"
	"time"

	"github.com/samber/ro"
)

func init() { registerKind("ctxpair", genCtxPair, "ctxpair", runCtxPair) }

var ctxPairOps = map[string]func(d time.Duration) func(ro.Observable[int]) ro.Observable[int]{
	"Delay":        func(d time.Duration) func(ro.Observable[int]) ro.Observable[int] { return ro.Delay[int](d) },
	"DelayEach":    func(d time.Duration) func(ro.Observable[int]) ro.Observable[int] { return ro.DelayEach[int](d / 8) },
	"Timeout":      func(d time.Duration) func(ro.Observable[int]) ro.Observable[int] { return ro.Timeout[int](time.Second) },
	"ThrottleTime": func(d time.Duration) func(ro.Observable[int]) ro.Observable[int] { return ro.ThrottleTime[int](d / 4) },
	"SampleTime":   func(d time.Duration) func(ro.Observable[int]) ro.Observable[int] { return ro.SampleTime[int](d / 4) },
	"ObserveOn":    func(d time.Duration) func(ro.Observable[int]) ro.Observable[int] { return ro.ObserveOn[int](3) },
	"SubscribeOn":  func(d time.Duration) func(ro.Observable[int]) ro.Observable[int] { return ro.SubscribeOn[int](3) },
	"Serialize":    func(d time.Duration) func(ro.Observable[int]) ro.Observable[int] { return ro.Serialize[int]() },
}

func genCtxPair(tier string, seed int64, only string) []*Case {
	rounds := "12"
	if tier == "thorough" {
		rounds = "80"
	}
	var names []string
	for k := range ctxPairOps {
		names = append(names, k)
	}
	sortStrings(names)
	var out []*Case
	id := 0
	for _, n := range names {
		if only != "" && only != n {
			continue
		}
		for _, end := range []string{"C", "E"} {
			for _, burst := range []string{"4", "12"} {
				id++
				out = append(out, newCase(id, "kind", "ctxpair", "op", n, "n", burst, "d", "400", "end", end, "rounds", rounds))
			}
		}
	}
	return out
}

func runCtxPair(c *Case) string {
	mk, ok := ctxPairOps[c.get("op", "?")]
	if !ok {
		return "res " + c.id + " unsupported"
	}
	setRecorder(nil)
	n, _ := strconv.Atoi(c.get("n", "8"))
	dus, _ := strconv.Atoi(c.get("d", "400"))
	rounds, _ := strconv.Atoi(c.get("rounds", "12"))
	d := time.Duration(dus) * time.Microsecond
	fail := c.get("end", "C") == "E"
	bad := 0
	term := "ok"
	for r := 0; r < rounds && bad == 0 && term == "ok"; r++ {
		var mu sync.Mutex
		done := make(chan struct{})
		var once sync.Once
		check := func(ctx context.Context, want int) bool { return renderCtx(ctx) == "7."+strconv.Itoa(want) }
		src := ro.NewUnsafeObservableWithContext(func(ctx context.Context, dest ro.Observer[int]) ro.Teardown {
			go func() {
				for v := 1; v <= n; v++ {
					dest.NextWithContext(withMark(ctx, 100+v), v)
				}
				time.Sleep(2 * d)
				if fail {
					dest.ErrorWithContext(withMark(ctx, 99), userErr{1})
				} else {
					dest.CompleteWithContext(withMark(ctx, 99))
				}
			}()
			return nil
		})
		sub := mk(d)(src).SubscribeWithContext(ctxFromMarks([]int{7}), ro.NewObserverWithContext(
			func(ctx context.Context, v int) {
				mu.Lock()
				if !check(ctx, 100+v) {
					bad++
				}
				mu.Unlock()
			},
			func(ctx context.Context, err error) {
				mu.Lock()
				if !check(ctx, 99) {
					term = "E:" + renderCtx(ctx)
				}
				mu.Unlock()
				once.Do(func() { close(done) })
			},
			func(ctx context.Context) {
				mu.Lock()
				if !check(ctx, 99) {
					term = "C:" + renderCtx(ctx)
				}
				mu.Unlock()
				once.Do(func() { close(done) })
			}))
		select {
		case <-done:
		case <-time.After(2 * time.Second):
		}
		sub.Unsubscribe()
		mu.Lock()
		mu.Unlock()
	}
	return fmt.Sprintf("res %s bad=%d term=%s", c.id, bad, term)
}

package main

// kind=share / kind=conn / kind=sharec  (property C11)
//
// share : ShareWithConfig over an instrumented source; a case is a connector, a subset of the three
//         reset flags, a list of synchronous prefixes (what the k-th upstream subscription plays
//         inside Subscribe; empty = purely hot) and an event sequence
//             S        subscribe the next downstream subscriber (ids 0,1,2,… in order of S events)
//             U<i>     unsubscribe downstream subscriber i (no-op when it does not exist yet)
//             N<v> E<n> C   the source pushes to every upstream subscription that is live
//         result: every subscriber's trace, live/total upstream subscription counters after each
//         event, drop hook, unhandled hook, panics escaping to the caller.
// conn  : the connectable observable (observable.go:501-567); events additionally
//             K        Connect       D   Unsubscribe the subscription returned by the latest Connect
//         result additionally `same=`: for every K, whether it returned the previous K's subscription.
// sharec: the same kind of sequences issued from several goroutines; checks invariants on the
//         implementation only (search/validation, not compared with a model run).

import (
	"context"
	"fmt"
	"math/rand"
	"runtime"
	"sort"
	"strconv"
	"strings"
	"sync"
	"sync/atomic"
	"time"

	"github.com/samber/ro"
)

func init() {
	registerKind("share", genShare, "share", runShareCase)
	registerKind("conn", genConn, "conn", runConnCase)
	registerKind("sharec", genShareConc, "sharec", runShareConcCase)
	registerKind("connc", genConnConc, "connc", runConnConcCase)
	registerKind("sharex", nil, "sharex", runShareScenario)
	registerKind("sharet", genShareTerm, "sharet", runShareCase)
}

// ---------- instrumented source ----------

type upSub struct {
	dest   ro.Observer[int]
	ctx    context.Context
	closed bool // over: ended by the source or torn down (not counted as live any more)
	torn   bool // its teardown has run
}

// upSource is a hot source that counts its subscriptions. The k-th subscription first plays
// pre[min(k, len(pre)-1)] synchronously inside Subscribe (a Just-like prefix), then stays hot
// until its teardown runs. A push goes to every subscription that is live. A subscription stops
// being live when its teardown runs or when the source itself ends it (just before it emits the
// terminal): from the source's side a subscription it has completed is over, whether or not the
// subscriber has already run the teardown. Whom a push reaches: in the sequential kinds every
// subscription whose teardown has not run (exactly the model's `upLive`; between two top-level
// events the two notions coincide, inside a nested event — a Subscribe that has not returned yet — the
// probe may thus push to a subscription it has already ended, which the closed proxy drops); in the
// concurrent kinds (`strict`) only the subscriptions that are not over.
type upSource struct {
	mu      sync.Mutex
	total   int
	live    int
	maxLive int
	subs    []*upSub
	pre     [][]Tok
	ctxs    []string // the context markers of each subscription, in order (C09)
	yield   int      // concurrent variants: Gosched this many times inside Subscribe (widens races)
	inside  func()   // nested events: run once, inside the next Subscribe, after the prefix
	strict  bool     // concurrent kinds: never push to a subscription that is over
}

func (p *upSource) Observable() ro.Observable[int] {
	return ro.NewUnsafeObservableWithContext(p.subscribeFn())
}

// subscribeFn: the subscribe function itself, for the constructors that take one (NewConnectableObservable*)
func (p *upSource) subscribeFn() func(ctx context.Context, dest ro.Observer[int]) ro.Teardown {
	return func(ctx context.Context, dest ro.Observer[int]) ro.Teardown {
		u := &upSub{dest: dest, ctx: ctx}
		p.mu.Lock()
		p.ctxs = append(p.ctxs, renderCtx(ctx))
		k := p.total
		p.total++
		p.live++
		if p.live > p.maxLive {
			p.maxLive = p.live
		}
		p.subs = append(p.subs, u)
		var pre []Tok
		if len(p.pre) > 0 {
			if k >= len(p.pre) {
				k = len(p.pre) - 1
			}
			pre = p.pre[k]
		}
		p.mu.Unlock()
		for i := 0; i < p.yield; i++ {
			runtime.Gosched()
		}
		for _, t := range pre {
			if t.kind != 'N' {
				p.end(u)
			}
			emit(dest, ctx, t)
		}
		if f := p.inside; f != nil {
			p.inside = nil
			f()
		}
		return func() {
			p.end(u)
			p.mu.Lock()
			u.torn = true
			p.mu.Unlock()
		}
	}
}

func (p *upSource) end(u *upSub) {
	p.mu.Lock()
	if !u.closed {
		u.closed = true
		p.live--
	}
	p.mu.Unlock()
}

func (p *upSource) push(t Tok) {
	p.mu.Lock()
	snap := append([]*upSub{}, p.subs...)
	p.mu.Unlock()
	for _, u := range snap {
		p.mu.Lock()
		skip := u.torn || (p.strict && u.closed)
		p.mu.Unlock()
		if skip {
			continue
		}
		if t.kind != 'N' {
			p.end(u)
		}
		emit(u.dest, u.ctx, t)
	}
}

func (p *upSource) counters() (int, int) {
	p.mu.Lock()
	defer p.mu.Unlock()
	return p.live, p.total
}

// ---------- downstream recorders ----------

type subRec struct {
	mu    sync.Mutex
	trace []string
	// kind=sharet: run once, from inside the terminal callback of this subscriber
	onTerm func()
}

func (r *subRec) terminal() {
	r.mu.Lock()
	f := r.onTerm
	r.onTerm = nil
	r.mu.Unlock()
	if f != nil {
		f()
	}
}

func (r *subRec) add(s string) {
	r.mu.Lock()
	r.trace = append(r.trace, s)
	r.mu.Unlock()
}

func (r *subRec) String() string {
	r.mu.Lock()
	defer r.mu.Unlock()
	if len(r.trace) == 0 {
		return "-"
	}
	return strings.Join(r.trace, ".")
}

func renderShareErr(err error) string {
	s := renderErr(err)
	if strings.Contains(s, "nil_pointer_dereference") {
		if strings.HasPrefix(s, "oe(") {
			return "oe(nilderef)"
		}
		return "nilderef"
	}
	return s
}

func bareObserver(r *subRec) ro.Observer[int] {
	return ro.NewObserverWithContext(
		func(ctx context.Context, v int) { r.add("N" + strconv.Itoa(v)) },
		func(ctx context.Context, err error) { r.add("E" + renderShareErr(err)); r.terminal() },
		func(ctx context.Context) { r.add("C"); r.terminal() },
	)
}

func parsePres(s string) ([][]Tok, error) {
	if s == "-" || s == "" {
		return nil, nil
	}
	var out [][]Tok
	for _, g := range strings.Split(s, ";") {
		toks, err := parseScript(g)
		if err != nil {
			return nil, err
		}
		out = append(out, toks)
	}
	return out, nil
}

func connector(name string) func() ro.Subject[int] {
	switch {
	case name == "publish":
		return func() ro.Subject[int] { return ro.NewPublishSubject[int]() }
	case name == "behavior":
		return func() ro.Subject[int] { return ro.NewBehaviorSubject[int](0) }
	case name == "replayU":
		return func() ro.Subject[int] { return ro.NewReplaySubject[int](ro.ReplaySubjectUnlimitedBufferSize) }
	case strings.HasPrefix(name, "replay"):
		n, err := strconv.Atoi(strings.TrimPrefix(name, "replay"))
		if err != nil {
			return nil
		}
		return func() ro.Subject[int] { return ro.NewReplaySubject[int](n) }
	}
	return nil
}

// buildShared: flags is a subset of "ECZ" (ResetOnError, ResetOnComplete, ResetOnRefCountZero).
// api=config uses ShareWithConfig; api=share / sharereplay<N> / sharereplayZ<N> use the aliases
// (the flags and connector of the case line must then be the ones the alias fixes).
func buildShared(api, conn, flags string, src ro.Observable[int]) ro.Observable[int] {
	op := buildShareOp(api, conn, flags)
	if op == nil {
		return nil
	}
	return op(src)
}

// the operator VALUE (twin=1 applies it to a second source as well)
func buildShareOp(api, conn, flags string) func(ro.Observable[int]) ro.Observable[int] {
	switch {
	case api == "share":
		return ro.Share[int]()
	case strings.HasPrefix(api, "sharereplayZ"):
		n, _ := strconv.Atoi(strings.TrimPrefix(api, "sharereplayZ"))
		return ro.ShareReplayWithConfig[int](n, ro.ShareReplayConfig{ResetOnRefCountZero: true})
	case strings.HasPrefix(api, "sharereplay"):
		n, _ := strconv.Atoi(strings.TrimPrefix(api, "sharereplay"))
		return ro.ShareReplay[int](n)
	}
	c := connector(conn)
	if c == nil {
		return nil
	}
	return ro.ShareWithConfig(ro.ShareConfig[int]{
		Connector:           c,
		ResetOnError:        strings.Contains(flags, "E"),
		ResetOnComplete:     strings.Contains(flags, "C"),
		ResetOnRefCountZero: strings.Contains(flags, "Z"),
	})
}

type shareEvent struct {
	kind  byte // S U N E C K D
	arg   int
	inner []shareEvent // S[e1;e2;…]: events that happen inside the source's Subscribe
	resub int          // kind=sharet, C!k / E<n>!k: subscriber k subscribes a new subscriber from inside its terminal callback; -1 = none
}

func parseShareEvents(s string) ([]shareEvent, bool) {
	if s == "-" || s == "" {
		return nil, true
	}
	var out []shareEvent
	for _, t := range strings.Split(s, ",") {
		if t == "" {
			return nil, false
		}
		if strings.HasPrefix(t, "S[") && strings.HasSuffix(t, "]") {
			body := t[2 : len(t)-1]
			var inner []shareEvent
			if body != "" {
				in, ok := parseShareEvents(strings.ReplaceAll(body, ";", ","))
				if !ok {
					return nil, false
				}
				inner = in
			}
			out = append(out, shareEvent{kind: 'S', inner: inner, arg: 1, resub: -1})
			continue
		}
		e := shareEvent{kind: t[0], resub: -1}
		if bang := strings.IndexByte(t, '!'); bang > 0 && (t[0] == 'C' || t[0] == 'E') {
			k, err := strconv.Atoi(t[bang+1:])
			if err != nil {
				return nil, false
			}
			e.resub = k
			t = t[:bang]
		}
		switch t[0] {
		case 'S', 'C', 'K', 'D':
			if len(t) != 1 {
				return nil, false
			}
		case 'U', 'N', 'E':
			v, err := strconv.Atoi(t[1:])
			if err != nil {
				return nil, false
			}
			e.arg = v
		default:
			return nil, false
		}
		out = append(out, e)
	}
	return out, true
}

func (e shareEvent) tok() Tok {
	return Tok{kind: e.kind, val: e.arg}
}

// guarded runs f; a panic reaching the caller is part of the result
func guarded(escaped *[]string, f func()) {
	defer func() {
		if r := recover(); r != nil {
			s := fmt.Sprint(r)
			if err, ok := r.(error); ok {
				s = renderShareErr(err)
			}
			*escaped = append(*escaped, strings.ReplaceAll(s, " ", "_"))
		}
	}()
	f()
}

func renderHookList(l []string) string {
	out := make([]string, len(l))
	for i, s := range l {
		if strings.Contains(s, "nil_pointer_dereference") {
			if strings.HasPrefix(s, "Eoe(") {
				s = "Eoe(nilderef)"
			} else if strings.HasPrefix(s, "oe(") {
				s = "oe(nilderef)"
			} else {
				s = "nilderef"
			}
		}
		out[i] = s
	}
	return joinOrDash(out)
}

var shareHangs int32

func runShareCase(c *Case) string {
	pres, err := parsePres(c.get("pre", "-"))
	evs, ok := parseShareEvents(c.get("ev", "-"))
	if err != nil || !ok {
		return "res " + c.id + " bad-case"
	}
	src := &upSource{pre: pres}
	flags := c.get("flags", "-")
	source := src.Observable()
	// src=just:1,2  the library's own synchronous source ro.Just(1, 2) instead of the probe (no
	// counters: `up=-`); the model side plays the prefix N1,N2,C on every upstream subscription
	justSrc := strings.HasPrefix(c.get("src", "probe"), "just:")
	if justSrc {
		source = ro.Just(parseInts(strings.TrimPrefix(c.get("src", ""), "just:"))...)
	}
	shareOp := buildShareOp(c.get("api", "config"), c.get("conn", "publish"), flags)
	if shareOp == nil {
		return "res " + c.id + " unsupported"
	}
	shared := shareOp(source)
	rec := &Recorder{}
	setRecorder(rec)
	defer setRecorder(nil)
	// twin=1: the SAME operator value is applied to a second, never-ending source, and that twin has a subscriber of its
	// own for the whole sequence: the two shared observables have nothing in common (a pipeline's sources are its own) —
	// the twin's source is subscribed exactly once, its subscriber sees the twin's values only, and the sequence under
	// test runs as it does alone.
	twin := c.get("twin", "-") == "1"
	var twinSubs, twinGot, twinBad int32
	var twinDest ro.Observer[int]
	var twinSub ro.Subscription
	if twin {
		twinSrc := ro.NewUnsafeObservable(func(dest ro.Observer[int]) ro.Teardown {
			atomic.AddInt32(&twinSubs, 1)
			twinDest = dest
			return nil
		})
		behaviorInit := c.get("api", "config") == "config" && c.get("conn", "publish") == "behavior"
		var sawInit int32
		twinSub = shareOp(twinSrc).Subscribe(ro.NewObserver(func(v int) {
			switch {
			case v >= 9000:
				atomic.AddInt32(&twinGot, 1)
			case behaviorInit && v == 0 && atomic.CompareAndSwapInt32(&sawInit, 0, 1) && atomic.LoadInt32(&twinGot) == 0:
				// the initial value of the twin's own behavior connector, replayed at subscription
			default:
				atomic.AddInt32(&twinBad, 1)
			}
		}, func(error) { atomic.AddInt32(&twinBad, 1) }, func() { atomic.AddInt32(&twinBad, 1) }))
		if twinDest != nil {
			twinDest.Next(9001)
		}
	}

	var recs []*subRec
	var subs []ro.Subscription
	var up, escaped []string
	var do func(e shareEvent)
	do = func(e shareEvent) {
		switch e.kind {
		case 'S':
			r := &subRec{}
			recs = append(recs, r)
			subs = append(subs, nil)
			i := len(subs) - 1
			if e.arg == 1 { // nested: the inner events run inside the source's Subscribe, if it is subscribed
				inner := e.inner
				src.inside = func() {
					for _, ie := range inner {
						do(ie)
					}
				}
			}
			subs[i] = shared.SubscribeWithContext(ctxFromMarks([]int{7, 70 + i}), bareObserver(r))
			src.inside = nil
		case 'U':
			if e.arg < len(subs) && subs[e.arg] != nil {
				subs[e.arg].Unsubscribe()
			}
		case 'N', 'E', 'C':
			if e.resub >= 0 && e.resub < len(recs) {
				r := recs[e.resub]
				r.mu.Lock()
				r.onTerm = func() { do(shareEvent{kind: 'S', resub: -1}) }
				r.mu.Unlock()
				src.push(e.tok())
				r.mu.Lock()
				r.onTerm = nil // the subscriber did not receive this terminal: nothing happens
				r.mu.Unlock()
			} else {
				src.push(e.tok())
			}
		}
	}
	hung := false
	if c.get("kind", "share") == "sharet" && atomic.LoadInt32(&shareHangs) >= 3 {
		return "res " + c.id + " hang(skipped: three earlier cases of this run did not return)"
	}
	for _, e := range evs {
		e := e
		if c.get("kind", "share") == "sharet" {
			// a re-entrant Subscribe can wait for a lock its own goroutine holds: run the event under a watchdog
			done := make(chan struct{})
			go func() {
				defer close(done)
				guarded(&escaped, func() { do(e) })
			}()
			select {
			case <-done:
			case <-time.After(2 * time.Second):
				hung = true
				atomic.AddInt32(&shareHangs, 1)
			}
			if hung {
				break
			}
		} else {
			guarded(&escaped, func() { do(e) })
		}
		l, t := src.counters()
		up = append(up, fmt.Sprintf("%d/%d", l, t))
	}
	if hung {
		return "res " + c.id + " hang(an event did not return within 2 s: a Subscribe issued from inside a terminal callback waits for a lock held by its own goroutine)"
	}
	traces := make([]string, len(recs))
	for i, r := range recs {
		traces[i] = r.String()
	}
	tr := "-"
	if len(traces) > 0 {
		tr = strings.Join(traces, "|")
	}
	if justSrc {
		up = nil
	}
	uctx := "-"
	if !justSrc {
		src.mu.Lock()
		if len(src.ctxs) > 0 {
			uctx = strings.Join(src.ctxs, ";")
		}
		src.mu.Unlock()
	}
	res := fmt.Sprintf("res %s traces=%s up=%s drops=%s unhandled=%s escaped=%s uctx=%s", c.id, tr, joinOrDash(up),
		renderHookList(rec.drops), renderHookList(rec.unhandled), joinOrDash(escaped), uctx)
	if twin {
		if twinDest != nil {
			twinDest.Next(9002)
		}
		verdict := "ok"
		if s, g, b := atomic.LoadInt32(&twinSubs), atomic.LoadInt32(&twinGot), atomic.LoadInt32(&twinBad); s != 1 || g != 2 || b != 0 {
			verdict = fmt.Sprintf("subs:%d.got:%d.foreign:%d", s, g, b)
		}
		twinSub.Unsubscribe()
		res += " twin=" + verdict
	}
	return res
}

// ---------- connectable ----------

func runConnCase(c *Case) string {
	pres, err := parsePres(c.get("pre", "-"))
	evs, ok := parseShareEvents(c.get("ev", "-"))
	cf := connector(c.get("conn", "publish"))
	if err != nil || !ok || cf == nil {
		return "res " + c.id + " bad-case"
	}
	src := &upSource{pre: pres}
	var co ro.ConnectableObservable[int]
	cfg := ro.ConnectableConfig[int]{Connector: cf, ResetOnDisconnect: c.get("reset", "1") == "1"}
	fn := src.subscribeFn()
	plainFn := func(dest ro.Observer[int]) ro.Teardown { return fn(context.Background(), dest) }
	// ctor=: the six public constructors; the four New… ones wrap the subscribe function with NewObservable[WithContext]
	switch c.get("api", "config") + "/" + c.get("ctor", "of") {
	case "default/of":
		co = ro.Connectable[int](src.Observable())
	case "config/of":
		co = ro.ConnectableWithConfig(src.Observable(), cfg)
	case "default/new":
		co = ro.NewConnectableObservable(plainFn)
	case "default/newctx":
		co = ro.NewConnectableObservableWithContext(fn)
	case "config/new":
		co = ro.NewConnectableObservableWithConfig(plainFn, cfg)
	case "config/newctx":
		co = ro.NewConnectableObservableWithConfigAndContext(fn, cfg)
	default:
		return "res " + c.id + " unsupported"
	}
	rec := &Recorder{}
	setRecorder(rec)
	defer setRecorder(nil)

	var recs []*subRec
	var subs []ro.Subscription
	var up, escaped, same []string
	var lastConn ro.Subscription
	for _, e := range evs {
		e := e
		guarded(&escaped, func() {
			switch e.kind {
			case 'S':
				r := &subRec{}
				recs = append(recs, r)
				subs = append(subs, nil)
				i := len(subs) - 1
				subs[i] = co.SubscribeWithContext(context.Background(), bareObserver(r))
			case 'U':
				if e.arg < len(subs) && subs[e.arg] != nil {
					subs[e.arg].Unsubscribe()
				}
			case 'K':
				s := co.Connect()
				if lastConn != nil && s == lastConn {
					same = append(same, "1")
				} else {
					same = append(same, "0")
				}
				lastConn = s
			case 'D':
				if lastConn != nil {
					lastConn.Unsubscribe()
				}
			case 'N', 'E', 'C':
				src.push(e.tok())
			}
		})
		l, t := src.counters()
		up = append(up, fmt.Sprintf("%d/%d", l, t))
	}
	traces := make([]string, len(recs))
	for i, r := range recs {
		traces[i] = r.String()
	}
	tr := "-"
	if len(traces) > 0 {
		tr = strings.Join(traces, "|")
	}
	return fmt.Sprintf("res %s traces=%s up=%s same=%s drops=%s unhandled=%s escaped=%s", c.id, tr, joinOrDash(up), joinOrDash(same),
		renderHookList(rec.drops), renderHookList(rec.unhandled), joinOrDash(escaped))
}

// ---------- generation ----------

var shareConns = []string{"publish", "behavior", "replay1", "replay2"}
var shareFlagSets = []string{"-", "E", "C", "Z", "EC", "EZ", "CZ", "ECZ"}

// eventSeqs enumerates every event sequence of length ≤ maxLen over `alpha` (S, U, N, E, C, K, D)
// in which U<i> only names a subscriber that exists (i < number of S so far, at most maxSubs
// subscribers); values and error numbers are the 1-based position of the event.
func eventSeqs(alpha string, maxLen, maxSubs int) []string {
	var out []string
	var rec func(prefix []string, nsub int)
	rec = func(prefix []string, nsub int) {
		if len(prefix) > 0 {
			out = append(out, strings.Join(prefix, ","))
		}
		if len(prefix) == maxLen {
			return
		}
		pos := strconv.Itoa(len(prefix) + 1)
		for _, a := range alpha {
			switch a {
			case 'S':
				if nsub < maxSubs {
					rec(append(prefix, "S"), nsub+1)
				}
			case 'U':
				for i := 0; i < nsub; i++ {
					rec(append(prefix, "U"+strconv.Itoa(i)), nsub)
				}
			case 'N', 'E':
				rec(append(prefix, string(a)+pos), nsub)
			default:
				rec(append(prefix, string(a)), nsub)
			}
		}
	}
	rec(nil, 0)
	return out
}

func randomEvents(r *rand.Rand, alpha string, n, maxSubs int) string {
	var ev []string
	nsub := 0
	for len(ev) < n {
		a := alpha[r.Intn(len(alpha))]
		pos := strconv.Itoa(len(ev) + 1)
		switch a {
		case 'S':
			if nsub < maxSubs {
				nsub++
				ev = append(ev, "S")
			}
		case 'U':
			if nsub > 0 {
				ev = append(ev, "U"+strconv.Itoa(r.Intn(nsub)))
			}
		case 'N', 'E':
			ev = append(ev, string(a)+pos)
		default:
			ev = append(ev, string(a))
		}
	}
	return strings.Join(ev, ",")
}

// innerSeqs: the sequences of exactly n events over {S, U0, U1, U2, N, E, C} (global subscriber ids:
// an unsub of a subscriber that does not exist, or of the one whose Subscribe is running, is void)
func innerSeqs(n int) []string {
	syms := []string{"S", "U0", "U1", "U2", "N", "E", "C"}
	out := []string{""}
	for k := 0; k < n; k++ {
		var next []string
		for _, pre := range out {
			for _, a := range syms {
				t := a
				if a == "N" || a == "E" {
					t = a + strconv.Itoa(5+k)
				}
				if pre == "" {
					next = append(next, t)
				} else {
					next = append(next, pre+";"+t)
				}
			}
		}
		out = next
	}
	return out
}

// shareCorpus: the stories of the documentation / existing tests and the minimised past findings
var shareCorpus = [][4]string{
	// api, conn, flags, pre, ev  (pre folded into the 4th field as pre|ev)
	{"share", "publish", "ECZ", "-|S,S,N1,N2,U0,N3,U1,S,N4"},
	{"share", "publish", "ECZ", "N1,N2,C|S,S"},              // Share over Just(1,2): was the nil dereference (fix a510ca9)
	{"config", "publish", "ECZ", "C;-|S,S,U1,N1"},           // was the refCount leak after the nil dereference
	{"sharereplay2", "replay2", "E", "-|S,N1,N2,N3,S,C,S"},  // ShareReplay(2)
	{"sharereplayZ1", "replay1", "EZ", "-|S,N1,U0,S,N2"},    // ShareReplayWithConfig
	{"sharereplay-1", "replayU", "E", "-|S,N1,N2,N3,S,C,S"}, // ShareReplay(ReplaySubjectUnlimitedBufferSize)
	{"config", "behavior", "Z", "-|S,N1,S,E2,S"},
	{"config", "replayU", "-", "-|S,N1,N2,C,S,S"},
	{"config", "replay0", "ECZ", "-|S,N1,S,N2"},
	{"config", "publish", "Z", "N1|S,S,N2,U0,U1,S"}, // synchronous value, then hot
	{"config", "replay2", "C", "N1,E1|S,S"},         // sync error, not reset: latched
}

func genShare(tier string, seed int64, only string) []*Case {
	r := rand.New(rand.NewSource(seed))
	var cases []*Case
	id := 0
	add := func(api, conn, flags, pre, ev string) {
		id++
		cases = append(cases, newCase(id, "kind", "share", "api", api, "conn", conn, "flags", flags, "pre", pre, "ev", ev))
		if strings.Contains(ev, "S") && conn != "replay0" && ((tier == "thorough" && id%5 == 0) || (tier != "thorough" && id%6 == 0)) { // (a replay buffer of size 0 hands every value to the dropped hook: the twin's values would show up in `drops`)
			// the same operator value applied to a second source with a live subscriber of its own
			id++
			cases = append(cases, newCase(id, "kind", "share", "api", api, "conn", conn, "flags", flags, "pre", pre, "ev", ev, "twin", "1"))
		}
	}
	for _, c := range shareCorpus {
		pe := strings.SplitN(c[3], "|", 2)
		add(c[0], c[1], c[2], pe[0], pe[1])
	}
	// the library's own ro.Just as the source
	for _, j := range []string{"just:1,2", "just:", "just:5"} {
		for _, fl := range shareFlagSets {
			for _, conn := range []string{"publish", "replay1", "behavior"} {
				id++
				cases = append(cases, newCase(id, "kind", "share", "api", "config", "conn", conn, "flags", fl, "src", j, "ev", "S,S,U0,S"))
			}
		}
	}
	hotLen, coldLen, nrand, randLen := 5, 4, 300, 12
	conns := shareConns
	if tier == "thorough" {
		hotLen, coldLen, nrand, randLen = 7, 5, 4000, 24
		conns = append(append([]string{}, shareConns...), "replay0", "replayU")
	}
	hot := eventSeqs("SUNEC", hotLen, 3)
	for _, conn := range conns {
		for _, fl := range shareFlagSets {
			for _, ev := range hot {
				add("config", conn, fl, "-", ev)
			}
		}
	}
	// synchronous (cold, Just-like) prefixes; `;` separates what successive upstream subscriptions play
	pres := []string{"C", "E1", "N7,C", "N7,E1", "N7", "N7,N8,C", "C;-", "E1;-", "N7,C;-", "-;C", "N7;E1"}
	cold := eventSeqs("SUNEC", coldLen, 3)
	for _, conn := range conns {
		for _, fl := range shareFlagSets {
			for _, pre := range pres {
				for _, ev := range cold {
					if !strings.Contains(ev, "S") {
						continue
					}
					add("config", conn, fl, pre, ev)
				}
			}
		}
	}
	// nested events: S[e1;e2;…] = a subscriber arrives and e1 e2 … happen inside the source's Subscribe
	// (region R3 of that subscriber, if it creates the generation). One nested S per sequence.
	outerLen, innerLen := 3, 2
	if tier == "thorough" {
		outerLen, innerLen = 4, 3
	}
	var inners []string
	for n := 1; n <= innerLen; n++ {
		inners = append(inners, innerSeqs(n)...)
	}
	for _, ev := range eventSeqs("SUNEC", outerLen, 2) {
		toks := strings.Split(ev, ",")
		for pos, t := range toks {
			if t != "S" {
				continue
			}
			for _, in := range inners {
				if len(toks) == 4 && strings.Count(in, ";") == 2 {
					continue // thorough: outer 4 x inner <= 2, outer <= 3 x inner <= 3 (memory)
				}
				nt := append(append([]string{}, toks[:pos]...), "S["+in+"]")
				nt = append(nt, toks[pos+1:]...)
				nev := strings.Join(nt, ",")
				for _, conn := range []string{"publish", "replay1"} {
					for _, fl := range shareFlagSets {
						add("config", conn, fl, "-", nev)
					}
				}
				if tier == "thorough" {
					for _, fl := range shareFlagSets {
						add("config", "behavior", fl, "N7", nev)
					}
				}
			}
			if tier != "thorough" {
				// one step deeper for the configurations where stale teardowns matter most
				for _, in := range innerSeqs(innerLen + 1) {
					nt := append(append([]string{}, toks[:pos]...), "S["+in+"]")
					nt = append(nt, toks[pos+1:]...)
					for _, fl := range []string{"ECZ", "EZ", "Z"} {
						add("config", "publish", fl, "-", strings.Join(nt, ","))
					}
				}
			}
		}
	}
	add("config", "publish", "ECZ", "-", "S[E1;S;U1],U0") // late release (known finding)
	// the aliases
	for _, ev := range eventSeqs("SUNEC", hotLen-1, 3) {
		add("share", "publish", "ECZ", "-", ev)
		add("sharereplay2", "replay2", "E", "-", ev)
		add("sharereplayZ1", "replay1", "EZ", "-", ev)
		// the boundary sizes of the aliases: unlimited (ReplaySubjectUnlimitedBufferSize = -1) and 0
		add("sharereplay-1", "replayU", "E", "-", ev)
		add("sharereplayZ-1", "replayU", "EZ", "-", ev)
		add("sharereplay0", "replay0", "E", "-", ev)
	}
	// seeded longer sequences, more subscribers
	allConns := []string{"publish", "behavior", "replay0", "replay1", "replay2", "replay3", "replayU"}
	for i := 0; i < nrand; i++ {
		pre := "-"
		if r.Intn(4) == 0 {
			pre = pres[r.Intn(len(pres))]
		}
		add("config", allConns[r.Intn(len(allConns))], shareFlagSets[r.Intn(8)], pre, randomEvents(r, "SSUUNNNEC", 4+r.Intn(randLen), 6))
	}
	return cases
}

// kind=sharet: the source's terminal arrives and one of the subscribers subscribes again from inside its terminal
// callback (what a retry / repeat style consumer of a shared observable does). Only with the reset flag of that
// terminal set: the proxy then drops the finished generation BEFORE it forwards the terminal
// (operator_connectable.go:134-152), so the newcomer starts a fresh generation; without the flag the newcomer would
// join the subject whose broadcast is in progress — a call back into a subject from one of its own callbacks, which
// the subjects do not support (C10's client convention).
func genShareTerm(tier string, seed int64, only string) []*Case {
	r := rand.New(rand.NewSource(seed))
	var cases []*Case
	id := 0
	add := func(conn, flags, pre, ev string) {
		id++
		cases = append(cases, newCase(id, "kind", "sharet", "api", "config", "conn", conn, "flags", flags, "pre", pre, "ev", ev))
	}
	maxLen := 3
	if tier == "thorough" {
		maxLen = 4
	}
	prefixes := eventSeqs("SUN", maxLen, 3)
	tails := []string{"", "N9", "S", "U0", "N9,U1", "S,N9", "N9,C", "U2,N9"}
	for _, conn := range []string{"publish", "replay1", "behavior"} {
		for _, term := range []string{"C", "E7"} {
			need := term[:1]
			for _, fl := range shareFlagSets {
				if !strings.Contains(fl, need) {
					continue
				}
				for _, pre := range prefixes {
					n := strings.Count(pre, "S")
					if n == 0 {
						continue
					}
					for k := 0; k < n; k++ {
						for _, tail := range tails {
							if r.Intn(3) != 0 && tier != "thorough" {
								continue
							}
							ev := pre + "," + term + "!" + strconv.Itoa(k)
							if tail != "" {
								ev += "," + tail
							}
							add(conn, fl, "-", ev)
						}
					}
				}
			}
		}
	}
	return cases
}

func genConn(tier string, seed int64, only string) []*Case {
	r := rand.New(rand.NewSource(seed))
	var cases []*Case
	id := 0
	add := func(api, conn, reset, pre, ev string) {
		id++
		cases = append(cases, newCase(id, "kind", "conn", "api", api, "conn", conn, "reset", reset, "pre", pre, "ev", ev))
		if (tier == "thorough" && id%3 == 0) || (tier != "thorough" && id%5 == 0) {
			for _, ctor := range []string{"new", "newctx"} {
				id++
				cases = append(cases, newCase(id, "kind", "conn", "api", api, "conn", conn, "reset", reset, "pre", pre, "ev", ev, "ctor", ctor))
			}
		}
	}
	add("default", "publish", "1", "-", "S,N1,K,N2,S,N3,K,D,N4,S,K,N5")
	add("config", "replay2", "0", "-", "S,K,N1,N2,N3,D,S,K,N4")
	add("config", "behavior", "1", "N7,C", "S,K,S,K")
	maxLen, nrand, randLen := 5, 300, 12
	if tier == "thorough" {
		maxLen, nrand, randLen = 7, 4000, 24
	}
	seqs := eventSeqs("SUNECKD", maxLen, 2)
	for _, conn := range []string{"publish", "behavior", "replay1"} {
		for _, reset := range []string{"0", "1"} {
			for _, ev := range seqs {
				if !strings.Contains(ev, "K") && len(ev) > 6 {
					// sequences without Connect are all alike (nothing flows): keep the short ones
					continue
				}
				add("config", conn, reset, "-", ev)
			}
		}
	}
	pres := []string{"C", "E1", "N7,C", "N7", "C;-"}
	short := eventSeqs("SUNCKD", maxLen-1, 2)
	for _, conn := range []string{"publish", "replay1"} {
		for _, reset := range []string{"0", "1"} {
			for _, pre := range pres {
				for _, ev := range short {
					if strings.Contains(ev, "K") {
						add("config", conn, reset, pre, ev)
					}
				}
			}
		}
	}
	allConns := []string{"publish", "behavior", "replay0", "replay1", "replay2", "replayU"}
	for i := 0; i < nrand; i++ {
		pre := "-"
		if r.Intn(4) == 0 {
			pre = pres[r.Intn(len(pres))]
		}
		add("config", allConns[r.Intn(len(allConns))], strconv.Itoa(r.Intn(2)), pre, randomEvents(r, "SSUNNNECKKD", 4+r.Intn(randLen), 5))
	}
	return cases
}

// ---------- concurrent variant (validation / search only) ----------

// A case is: connector, flags, nthreads subscriber goroutines each running `rounds` times
// (subscribe, wait until it has seen `hold` values or the stream ended, unsubscribe), one source
// goroutine pushing N1,N2,… to whatever is live and optionally ending with a terminal that the
// configuration resets on. Checked on the implementation:
//
//	maxlive ≤ 1            never two live upstream subscriptions
//	per subscriber          values strictly increasing (no duplicate, no reordering), contiguous
//	                        within one upstream execution, at most one terminal and nothing after it
//	after everything left   live = 0 when ResetOnRefCountZero and no terminal was latched
func genShareConc(tier string, seed int64, only string) []*Case {
	r := rand.New(rand.NewSource(seed))
	n := 60
	if tier == "thorough" {
		n = 600
	}
	var cases []*Case
	for i := 1; i <= n; i++ {
		conn := []string{"publish", "behavior", "replay1", "replay2"}[r.Intn(4)]
		fl := shareFlagSets[r.Intn(8)]
		// "C" / "E": one terminal after `pushes` values; "C<m>" / "E<m>": a terminal after every m values
		// (many short generations: creation races with the terminal's reset)
		term := []string{"-", "-", "C", "E", "C3", "E2", "C1", "C7"}[r.Intn(8)]
		cases = append(cases, newCase(i, "kind", "sharec", "conn", conn, "flags", fl, "threads", strconv.Itoa(2+r.Intn(5)),
			"rounds", strconv.Itoa(1+r.Intn(6)), "hold", strconv.Itoa(r.Intn(3)), "pushes", strconv.Itoa(20+r.Intn(200)), "term", term,
			"rs", strconv.Itoa(r.Intn(1<<30))))
	}
	return cases
}

type concRec struct {
	mu     sync.Mutex
	vals   []int
	terms  int
	after  int // notifications after a terminal
	signal chan struct{}
}

func (r *concRec) note() {
	select {
	case r.signal <- struct{}{}:
	default:
	}
}

func runShareConcCase(c *Case) string {
	cf := connector(c.get("conn", "publish"))
	if cf == nil {
		return "res " + c.id + " bad-case"
	}
	flags := c.get("flags", "-")
	threads, _ := strconv.Atoi(c.get("threads", "2"))
	rounds, _ := strconv.Atoi(c.get("rounds", "2"))
	hold, _ := strconv.Atoi(c.get("hold", "1"))
	pushes, _ := strconv.Atoi(c.get("pushes", "50"))
	term := c.get("term", "-")
	src := &upSource{strict: true}
	shared := buildShared("config", c.get("conn", "publish"), flags, src.Observable())
	rec := &Recorder{}
	setRecorder(rec)
	defer setRecorder(nil)

	var all []*concRec
	var allMu sync.Mutex
	var stop int32
	var nilDerefs int32  // recovered nil dereferences of Share's `sourceSubscription` seen in this case
	var termInside int32 // subscribers that received their terminal before their own Subscribe call returned
	var wg sync.WaitGroup
	var problems []string
	var pmu sync.Mutex
	problem := func(s string) {
		pmu.Lock()
		problems = append(problems, s)
		pmu.Unlock()
	}
	for t := 0; t < threads; t++ {
		wg.Add(1)
		go func(t int) {
			defer wg.Done()
			defer func() {
				if r := recover(); r != nil {
					problem("escaped:" + strings.ReplaceAll(fmt.Sprint(r), " ", "_"))
				}
			}()
			for k := 0; k < rounds; k++ {
				r := &concRec{signal: make(chan struct{}, 1)}
				allMu.Lock()
				all = append(all, r)
				allMu.Unlock()
				var inSub int32 = 1
				noteTerm := func() {
					if atomic.LoadInt32(&inSub) == 1 {
						atomic.AddInt32(&termInside, 1)
					}
				}
				sub := shared.SubscribeWithContext(context.Background(), ro.NewObserverWithContext(
					func(ctx context.Context, v int) {
						r.mu.Lock()
						if r.terms > 0 {
							r.after++
						}
						r.vals = append(r.vals, v)
						r.mu.Unlock()
						r.note()
					},
					func(ctx context.Context, err error) {
						if strings.Contains(renderShareErr(err), "nilderef") {
							atomic.AddInt32(&nilDerefs, 1)
						}
						noteTerm()
						r.mu.Lock()
						if r.terms > 0 {
							r.after++
						}
						r.terms++
						r.mu.Unlock()
						r.note()
					},
					func(ctx context.Context) {
						noteTerm()
						r.mu.Lock()
						if r.terms > 0 {
							r.after++
						}
						r.terms++
						r.mu.Unlock()
						r.note()
					}))
				atomic.StoreInt32(&inSub, 0)
				for {
					r.mu.Lock()
					enough := len(r.vals) >= hold || r.terms > 0
					r.mu.Unlock()
					if enough || atomic.LoadInt32(&stop) != 0 {
						break
					}
					<-r.signal
				}
				sub.Unsubscribe()
			}
		}(t)
	}
	// the source goroutine: pushes while the subscribers come and go
	srcDone := make(chan struct{})
	go func() {
		defer close(srcDone)
		period := 0
		if len(term) > 1 {
			period, _ = strconv.Atoi(term[1:])
		}
		endTok := Tok{kind: 'C'}
		if term[0] == 'E' {
			endTok = Tok{kind: 'E', val: 1}
		}
		for v := 1; v <= pushes; v++ {
			src.push(Tok{kind: 'N', val: v})
			if period > 0 && v%period == 0 {
				src.push(endTok)
			}
		}
		if term == "C" || term == "E" {
			src.push(endTok)
		}
		// keep feeding until every subscriber goroutine has finished its rounds
		for v := pushes + 1; atomic.LoadInt32(&stop) == 0; v++ {
			src.push(Tok{kind: 'N', val: v})
			if period > 0 && v%period == 0 {
				src.push(endTok)
			}
		}
	}()
	wg.Wait()
	atomic.StoreInt32(&stop, 1)
	<-srcDone

	src.mu.Lock()
	maxLive, live, total := src.maxLive, src.live, src.total
	src.mu.Unlock()
	if maxLive > 1 {
		problem("maxlive=" + strconv.Itoa(maxLive))
	}
	initial := c.get("conn", "") == "behavior"
	for i, r := range all {
		vals := r.vals
		if initial && len(vals) > 0 && vals[0] == 0 {
			vals = vals[1:]
		}
		for j := 1; j < len(vals); j++ {
			if vals[j] <= vals[j-1] {
				problem(fmt.Sprintf("sub%d:not-increasing", i))
				break
			}
		}
		if r.terms > 1 || r.after > 0 {
			problem(fmt.Sprintf("sub%d:grammar", i))
		}
	}
	_ = total
	latchable := (term[0] == 'C' && !strings.Contains(flags, "C")) || (term[0] == 'E' && !strings.Contains(flags, "E"))
	if strings.Contains(flags, "Z") && !latchable && live != 0 {
		problem("live-after-all-left=" + strconv.Itoa(live))
	}
	for _, u := range rec.unhandled {
		problem("unhandled:" + u)
	}
	rec.mu.Lock()
	for _, d := range rec.drops {
		if strings.Contains(d, "nil_pointer_dereference") {
			nilDerefs++
		}
	}
	rec.mu.Unlock()
	sort.Strings(problems)
	if len(problems) > 6 {
		problems = problems[:6]
	}
	// nd = nil dereferences observed (the asynchronous form of the known finding): reported
	// separately so that the check can attribute an upstream subscription that is never released
	// ti = subscribers that got their terminal while still inside Subscribe: their reference is given back
	// only when Subscribe returns, possibly after a newer generation has been created (second known class)
	return fmt.Sprintf("res %s inv=%s nd=%d ti=%d", c.id, joinOrDash(problems), nilDerefs, termInside)
}

// ---------- concurrent Connect (validation / search only) ----------

// `threads` goroutines call Connect at the same time on one connectable observable (the probe
// yields inside Subscribe), `rounds` times with a disconnect in between. Checked on the
// implementation: every round subscribes the source exactly once, never two live upstream
// subscriptions, every Connect of a round returns the same subscription.
func genConnConc(tier string, seed int64, only string) []*Case {
	r := rand.New(rand.NewSource(seed))
	n := 40
	if tier == "thorough" {
		n = 400
	}
	var cases []*Case
	for i := 1; i <= n; i++ {
		cases = append(cases, newCase(i, "kind", "connc", "conn", []string{"publish", "behavior", "replay1"}[r.Intn(3)],
			"reset", strconv.Itoa(r.Intn(2)), "threads", strconv.Itoa(2+r.Intn(7)), "rounds", strconv.Itoa(1+r.Intn(5)), "yield", strconv.Itoa(r.Intn(4))))
	}
	return cases
}

func runConnConcCase(c *Case) string {
	cf := connector(c.get("conn", "publish"))
	if cf == nil {
		return "res " + c.id + " bad-case"
	}
	threads, _ := strconv.Atoi(c.get("threads", "2"))
	rounds, _ := strconv.Atoi(c.get("rounds", "1"))
	yield, _ := strconv.Atoi(c.get("yield", "1"))
	src := &upSource{yield: yield, strict: true}
	co := ro.ConnectableWithConfig(src.Observable(), ro.ConnectableConfig[int]{Connector: cf, ResetOnDisconnect: c.get("reset", "1") == "1"})
	rec := &Recorder{}
	setRecorder(rec)
	defer setRecorder(nil)
	var problems []string
	for k := 0; k < rounds; k++ {
		_, before := src.counters()
		start := make(chan struct{})
		rets := make([]ro.Subscription, threads)
		var wg sync.WaitGroup
		for t := 0; t < threads; t++ {
			wg.Add(1)
			go func(t int) {
				defer wg.Done()
				<-start
				rets[t] = co.Connect()
			}(t)
		}
		close(start)
		wg.Wait()
		live, total := src.counters()
		if total != before+1 {
			problems = append(problems, fmt.Sprintf("round%d:subscribed=%d", k, total-before))
		}
		if live > 1 {
			problems = append(problems, fmt.Sprintf("round%d:live=%d", k, live))
		}
		for t := 1; t < threads; t++ {
			if rets[t] != rets[0] {
				problems = append(problems, fmt.Sprintf("round%d:different-subscriptions", k))
				break
			}
		}
		for _, s := range rets {
			if s != nil {
				s.Unsubscribe()
			}
		}
		if l, _ := src.counters(); l != 0 {
			problems = append(problems, fmt.Sprintf("round%d:live-after-disconnect=%d", k, l))
		}
	}
	src.mu.Lock()
	if src.maxLive > 1 {
		problems = append(problems, "maxlive="+strconv.Itoa(src.maxLive))
	}
	src.mu.Unlock()
	if len(problems) > 6 {
		problems = problems[:6]
	}
	return fmt.Sprintf("res %s inv=%s nd=0 ti=0", c.id, joinOrDash(problems))
}

// ---------- deterministic scenario for the late-release finding ----------

// kind=sharex scenario=late-release: no goroutines. Subscriber A creates generation 1; inside the
// source's Subscribe (region R3 of A) the source errors synchronously (the configuration resets:
// generation 1 is gone, A's reference still counted) and, still inside that call, subscriber B
// subscribes and unsubscribes (creates generation 2 over a now hot source, leaves: refCount 2 -> 1).
// A's Subscribe then returns, A's teardown gives the last reference back and resets the generation it
// captured (1, already reset) — generation 2's upstream subscription stays live with nobody listening.
func runShareScenario(c *Case) string {
	if c.get("scenario", "") != "late-release" {
		return "res " + c.id + " unsupported"
	}
	flags := c.get("flags", "ECZ")
	var shared ro.Observable[int]
	src := &upSource{}
	var up []string
	note := func() {
		l, t := src.counters()
		up = append(up, fmt.Sprintf("%d/%d", l, t))
	}
	recA, recB := &subRec{}, &subRec{}
	first := true
	inner := src.Observable()
	source := ro.NewUnsafeObservableWithContext(func(ctx context.Context, dest ro.Observer[int]) ro.Teardown {
		sub := inner.SubscribeWithContext(ctx, dest)
		if first {
			first = false
			src.push(Tok{kind: 'E', val: 1}) // synchronous error to generation 1
			note()
			b := shared.SubscribeWithContext(context.Background(), bareObserver(recB))
			note()
			b.Unsubscribe()
			note()
		}
		return sub.Unsubscribe
	})
	shared = buildShared("config", c.get("conn", "publish"), flags, source)
	rec := &Recorder{}
	setRecorder(rec)
	defer setRecorder(nil)
	var escaped []string
	guarded(&escaped, func() {
		a := shared.SubscribeWithContext(context.Background(), bareObserver(recA))
		note()
		a.Unsubscribe()
		note()
	})
	return fmt.Sprintf("res %s traces=%s|%s up=%s drops=%s unhandled=%s escaped=%s", c.id, recA.String(), recB.String(), joinOrDash(up),
		renderHookList(rec.drops), renderHookList(rec.unhandled), joinOrDash(escaped))
}

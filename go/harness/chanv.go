package main

// kind=chanv: schedule-dependent scenarios for the channel bridges — slow consumers, consumers
// that stall or stop reading, unsubscription racing the producer, unsubscription before
// ToChannel's goroutine has subscribed, users abandoning the input channel of FromChannel, and
// the measured distance "produced − consumed". These runs VALIDATE the model and SEARCH for
// failing schedules; their results are judged by oracles in tools/checks/C17.py and
// tools/checks/C08_handoff.py (prefix / equality with the reference the Lean driver prints,
// bound, conservation, no escaped panic, no leaked goroutine). They never stand in for a theorem.
//
// scen=park needs the park point of repo_hooks/tochannel_park.patch (see chan_park.go).

import (
	"context"
	"fmt"
	"math/rand"
	"runtime"
	"strconv"
	"strings"
	"sync"
	"sync/atomic"
	"time"

	"github.com/samber/ro"
)

func init() { registerKind("chanv", genChanV, "chanv", runChanVCase) }

// set by chan_park.go (build tag verifpark) when the library has the park point
var setToChannelPark func(f func())

type meter struct {
	produced *int64
	consumed int64
	max      int64
}

func (m *meter) sample() {
	d := atomic.LoadInt64(m.produced) - atomic.LoadInt64(&m.consumed)
	for {
		old := atomic.LoadInt64(&m.max)
		if d <= old || atomic.CompareAndSwapInt64(&m.max, old, d) {
			return
		}
	}
}

func (m *meter) done() {
	atomic.AddInt64(&m.consumed, 1)
}

// quiescent waits until the counter has not moved for `still`
func quiescent(counter *int64, still, max time.Duration) {
	deadline := time.Now().Add(max)
	last := atomic.LoadInt64(counter)
	since := time.Now()
	for time.Now().Before(deadline) {
		time.Sleep(200 * time.Microsecond)
		cur := atomic.LoadInt64(counter)
		if cur != last {
			last, since = cur, time.Now()
		} else if time.Since(since) >= still {
			return
		}
	}
}

func pause(r *rand.Rand, mu *sync.Mutex) {
	mu.Lock()
	d := time.Duration(20+r.Intn(250)) * time.Microsecond
	mu.Unlock()
	time.Sleep(d)
}

func parseScen(s string) (name string, k int) {
	k = -1
	if i := strings.IndexByte(s, '@'); i >= 0 {
		k, _ = strconv.Atoi(s[i+1:])
		return s[:i], k
	}
	return s, k
}

func runChanVCase(c *Case) string {
	script, err := parseScript(c.get("src", "-"))
	if err != nil {
		return "res " + c.id + " bad-script"
	}
	capacity, _ := strconv.Atoi(c.get("cap", "1"))
	seed, _ := strconv.Atoi(c.get("seed", "1"))
	subCtx := ctxFromMarks(parseInts(strings.ReplaceAll(c.get("sub", "-"), ".", ",")))
	rec := &Recorder{}
	setRecorder(rec)
	defer setRecorder(nil)
	r := rand.New(rand.NewSource(int64(seed)))
	scen, k := parseScen(c.get("scen", "slow"))
	var out string
	switch c.get("op", "?") {
	case "ToChannel":
		out = vToChannel(rec, r, script, capacity, c.get("mode", "sync"), scen, k, subCtx)
	case "ObserveOn":
		out = vDetach(rec, r, false, script, capacity, c.get("mode", "sync"), scen, k, subCtx)
	case "SubscribeOn":
		out = vDetach(rec, r, true, script, capacity, c.get("mode", "sync"), scen, k, subCtx)
	case "FromChannel":
		out = vFromChannel(rec, r, script, capacity, scen, k, subCtx)
	default:
		out = "unsupported"
	}
	return "res " + c.id + " " + out
}

// playHot pushes a hot script from its own goroutine, as fast as the operator lets it
func playHot(src *chanSource, esc *escapes) chan struct{} {
	done := make(chan struct{})
	go func() {
		defer close(done)
		for i := range src.script {
			esc.run(func() { src.emit(i) })
		}
	}()
	return done
}

func vToChannel(rec *Recorder, r *rand.Rand, script []Tok, capacity int, mode, scen string, k int, subCtx context.Context) string {
	var rmu sync.Mutex
	src := newChanSource(script, mode == "sync")
	m := &meter{produced: &src.produced}
	src.before = func(i int) { m.sample() }
	rd := newChanReader()
	esc := &escapes{}
	resume := make(chan struct{})
	rd.each = func(n int) {
		m.sample()
		switch scen {
		case "slow":
			pause(r, &rmu)
		case "stall":
			if n == 1 {
				quiescent(&src.produced, 2*time.Millisecond, 200*time.Millisecond)
				m.sample()
			} else {
				pause(r, &rmu)
			}
		case "stop":
			if n == k {
				<-resume
			}
		}
		m.done()
		m.sample()
	}
	parked := false
	if scen == "park" {
		if setToChannelPark == nil {
			return "park=unavailable"
		}
		// hold the subscribing goroutine between `go func(){…}()` and the hand-out until the
		// goroutine that feeds the channel has gone as far as it can
		setToChannelPark(func() {
			parked = true
			waitCh(src.subscribed)
			quiescent(&src.produced, 3*time.Millisecond, 300*time.Millisecond)
			waitCond(func() bool { return rec.traceLen() > 0 }, 5*time.Millisecond)
		})
		defer setToChannelPark(nil)
	}
	var sub ro.Subscription
	esc.run(func() {
		sub = ro.ToChannel[int](capacity)(src.Observable()).SubscribeWithContext(subCtx, chanObserver(rec, rd))
	})
	if sub == nil {
		return "subscribe-failed escaped=" + esc.String()
	}
	var played chan struct{}
	switch scen {
	case "early":
		// before the goroutine's time.Sleep(1ms) is over
		esc.run(sub.Unsubscribe)
	}
	if !waitCh(src.subscribed) {
		return "harness-timeout at=subscribed"
	}
	if mode == "hot" {
		played = playHot(src, esc)
	}
	switch scen {
	case "unsub":
		waitCond(func() bool { return atomic.LoadInt64(&src.produced) >= int64(k) }, 50*time.Millisecond)
		esc.run(sub.Unsubscribe)
	case "stop":
		// the reader stops after k items; the producer fills the channel and blocks (or finishes)
		quiescent(&src.produced, 2*time.Millisecond, 200*time.Millisecond)
		m.sample()
		esc.run(sub.Unsubscribe)
		close(resume)
	}
	if mode == "sync" {
		if !waitCh(src.finished) {
			return "harness-timeout at=finished read=" + rd.readString()
		}
	} else if !waitCh(played) {
		return "harness-timeout at=played read=" + rd.readString()
	}
	if terminated(script) && (scen == "slow" || scen == "stall" || scen == "park") {
		if !waitSub(sub) {
			return "harness-timeout at=wait"
		}
	}
	if !sub.IsClosed() {
		if rd.wasStarted() && (scen == "slow" || scen == "stall") {
			want := int64(gateLen(script, len(script)))
			waitCond(func() bool { return atomic.LoadInt64(&rd.count) >= want }, chanDeadline)
		}
		esc.run(sub.Unsubscribe)
	}
	if rd.wasStarted() && !waitCh(rd.done) {
		return "harness-timeout at=reader read=" + rd.readString()
	}
	trace, drops, unh := recStrings(rec)
	closed := atomic.LoadInt32(&rd.closed) == 1
	if scen == "park" {
		if !parked {
			return "park=not-reached"
		}
		// closed / closes are what the reader observed (nothing when it never got a channel)
		return fmt.Sprintf("read=%s closed=%d closes=%d trace=%s drops=%s unh=%s escaped=%s", rd.readString(), b2i(closed),
			closesOf(closed, unh, esc.String()), trace, drops, unh, esc.String())
	}
	return fmt.Sprintf("read=%s closed=%d closes=%d trace=%s drops=%s unh=%s escaped=%s maxahead=%d produced=%d",
		rd.readString(), b2i(closed), closesOf(closed, unh, esc.String()), trace, drops, unh, esc.String(), atomic.LoadInt64(&m.max), atomic.LoadInt64(&src.produced))
}

func vDetach(rec *Recorder, r *rand.Rand, upstream bool, script []Tok, capacity int, mode, scen string, k int, subCtx context.Context) string {
	var rmu sync.Mutex
	src := newChanSource(script, mode == "sync")
	m := &meter{produced: &src.produced}
	src.before = func(i int) { m.sample() }
	esc := &escapes{}
	var n int64
	slowObs := ro.NewObserverWithContext(
		func(ctx context.Context, v int) {
			m.sample()
			i := atomic.AddInt64(&n, 1)
			switch scen {
			case "slow":
				pause(r, &rmu)
			case "stall":
				if i == 1 {
					quiescent(&src.produced, 2*time.Millisecond, 200*time.Millisecond)
					m.sample()
				} else {
					pause(r, &rmu)
				}
			}
			rec.add("N" + renderVal(v) + "/" + renderCtx(ctx))
			m.done()
			m.sample()
		},
		func(ctx context.Context, err error) { rec.add("E" + renderErr(err) + "/" + renderCtx(ctx)); m.done() },
		func(ctx context.Context) { rec.add("C/" + renderCtx(ctx)); m.done() },
	)
	var obs ro.Observable[int]
	if upstream {
		obs = ro.SubscribeOn[int](capacity)(src.Observable())
	} else {
		obs = ro.ObserveOn[int](capacity)(src.Observable())
	}
	var sub ro.Subscription
	returned := make(chan struct{})
	go func() {
		esc.run(func() { sub = obs.SubscribeWithContext(subCtx, slowObs) })
		close(returned)
	}()
	if !waitCh(src.subscribed) {
		return "harness-timeout at=subscribed"
	}
	var played chan struct{}
	if mode == "hot" {
		if !upstream && !waitCh(returned) {
			return "harness-timeout at=subscribe-return"
		}
		played = playHot(src, esc)
	}
	if scen == "unsub" && !upstream {
		if !waitCh(returned) {
			return "harness-timeout at=subscribe-return"
		}
		waitCond(func() bool { return atomic.LoadInt64(&src.produced) >= int64(k) }, 50*time.Millisecond)
		esc.run(sub.Unsubscribe)
	}
	if played != nil && !waitCh(played) {
		return "harness-timeout at=played trace=" + joinOrDash(rec.trace)
	}
	if !waitCh(returned) {
		return "harness-timeout at=subscribe-return"
	}
	if sub == nil {
		return "subscribe-failed escaped=" + esc.String()
	}
	if scen != "unsub" {
		if terminated(script) {
			if !waitSub(sub) {
				return "harness-timeout at=wait"
			}
		} else {
			want := gateLen(script, len(script))
			if !waitCond(func() bool { return rec.traceLen() >= want }, chanDeadline) {
				return "harness-timeout at=drain"
			}
		}
	}
	if !sub.IsClosed() {
		esc.run(sub.Unsubscribe)
	}
	// let a consumer goroutine that is inside a callback finish before the recorder is read
	quiescent(&m.consumed, 500*time.Microsecond, 20*time.Millisecond)
	trace, drops, unh := recStrings(rec)
	return fmt.Sprintf("trace=%s drops=%s unh=%s escaped=%s maxahead=%d produced=%d", trace, drops, unh, esc.String(), atomic.LoadInt64(&m.max), atomic.LoadInt64(&src.produced))
}

func vFromChannel(rec *Recorder, r *rand.Rand, script []Tok, capacity int, scen string, k int, subCtx context.Context) string {
	var rmu sync.Mutex
	base := runtime.NumGoroutine()
	vals := scriptValues(script)
	ch := make(chan int, capacity)
	var produced int64
	m := &meter{produced: &produced}
	esc := &escapes{}
	var n int64
	hold := make(chan struct{})
	obs := ro.NewObserverWithContext(
		func(ctx context.Context, v int) {
			m.sample()
			i := atomic.AddInt64(&n, 1)
			switch scen {
			case "slow":
				pause(r, &rmu)
			case "stall":
				if i == 1 {
					quiescent(&produced, 2*time.Millisecond, 200*time.Millisecond)
					m.sample()
				}
			case "unsubfull":
				if int(i) == k {
					<-hold // the harness unsubscribes while this callback is running
				}
			}
			rec.add("N" + renderVal(v) + "/" + renderCtx(ctx))
			m.done()
			m.sample()
		},
		func(ctx context.Context, err error) { rec.add("E" + renderErr(err) + "/" + renderCtx(ctx)) },
		func(ctx context.Context) { rec.add("C/" + renderCtx(ctx)) },
	)
	var sub ro.Subscription
	esc.run(func() { sub = ro.FromChannel[int](ch).SubscribeWithContext(subCtx, obs) })
	if sub == nil {
		return "subscribe-failed escaped=" + esc.String()
	}
	abort := make(chan struct{})
	userDone := make(chan struct{})
	limit := len(vals)
	if scen == "abandon" && k < limit {
		limit = k
	}
	go func() {
		defer close(userDone)
		for i := 0; i < limit; i++ {
			atomic.AddInt64(&produced, 1)
			m.sample()
			select {
			case ch <- vals[i]:
			case <-abort:
				return
			}
		}
		if scen == "slow" || scen == "stall" {
			close(ch)
		}
	}()
	switch scen {
	case "slow", "stall":
		if !waitCh(userDone) {
			return "harness-timeout at=user"
		}
		if !waitSub(sub) {
			return "harness-timeout at=wait"
		}
	case "abandon":
		// the user sends `limit` values and walks away without closing
		if !waitCond(func() bool { return rec.traceLen() >= limit }, chanDeadline) {
			return "harness-timeout at=drain"
		}
		esc.run(sub.Unsubscribe)
	case "unsub":
		waitCond(func() bool { return atomic.LoadInt64(&produced) >= int64(k) }, 50*time.Millisecond)
		esc.run(sub.Unsubscribe)
	case "unsubfull":
		waitCond(func() bool { return atomic.LoadInt64(&n) >= int64(k) }, 50*time.Millisecond)
		quiescent(&produced, 1*time.Millisecond, 50*time.Millisecond)
		esc.run(sub.Unsubscribe)
		close(hold)
	}
	if scen == "unsub" || scen == "unsubfull" || scen == "abandon" {
		select {
		case <-userDone:
		case <-time.After(2 * time.Millisecond):
		}
		close(abort)
		if !waitCh(userDone) {
			return "harness-timeout at=user"
		}
	}
	if scen != "unsubfull" {
		close(hold)
	}
	leak := 0
	if !goroutinesBackTo(base) {
		leak = 1
	}
	trace, _, unh := recStrings(rec)
	return fmt.Sprintf("trace=%s unh=%s escaped=%s leak=%d maxahead=%d produced=%d", trace, unh, esc.String(), leak, atomic.LoadInt64(&m.max), atomic.LoadInt64(&produced))
}

// ---------- generation ----------

func legalScripts(vals []int) [][]Tok {
	return scriptsFor(vals, false)
}

func genChanV(tier string, seed int64, only string) []*Case {
	r := rand.New(rand.NewSource(seed))
	var cases []*Case
	id := 0
	add := func(kv ...string) {
		id++
		if only == "" || only == kv[3] {
			kv = append(kv, "seed", strconv.Itoa(1+r.Intn(1<<20)))
			cases = append(cases, newCase(id, kv...))
		}
	}
	lists := [][]int{{}, {1}, {1, 2, 3}, {1, 2, 3, 4, 5, 6, 7, 8}}
	nRandom := 2
	if tier == "thorough" {
		nRandom = 40
	}
	for i := 0; i < nRandom; i++ {
		lists = append(lists, randomList(r, 5+r.Intn(12)))
	}
	for _, vals := range lists {
		for _, script := range legalScripts(vals) {
			s := scriptString(script)
			n := len(script)
			for capacity := 0; capacity <= 3; capacity++ {
				cs := strconv.Itoa(capacity)
				for _, mode := range []string{"sync", "hot"} {
					for _, scen := range []string{"slow", "stall"} {
						add("kind", "chanv", "op", "ToChannel", "cap", cs, "mode", mode, "scen", scen, "sub", "7", "src", s)
						if capacity >= 1 {
							add("kind", "chanv", "op", "ObserveOn", "cap", cs, "mode", mode, "scen", scen, "sub", "7", "src", s)
							if terminated(script) {
								add("kind", "chanv", "op", "SubscribeOn", "cap", cs, "mode", mode, "scen", scen, "sub", "7", "src", s)
							}
						}
					}
					kk := r.Intn(n + 1)
					add("kind", "chanv", "op", "ToChannel", "cap", cs, "mode", mode, "scen", "stop@"+strconv.Itoa(kk), "sub", "7", "src", s)
					add("kind", "chanv", "op", "ToChannel", "cap", cs, "mode", mode, "scen", "early", "sub", "7", "src", s)
				}
				kk := r.Intn(n + 1)
				add("kind", "chanv", "op", "ToChannel", "cap", cs, "mode", "hot", "scen", "unsub@"+strconv.Itoa(kk), "sub", "7", "src", s)
				if capacity >= 1 {
					add("kind", "chanv", "op", "ObserveOn", "cap", cs, "mode", "hot", "scen", "unsub@"+strconv.Itoa(kk), "sub", "7", "src", s)
				}
			}
		}
		plain := make([]Tok, len(vals))
		for i, v := range vals {
			plain[i] = Tok{'N', v, 0}
		}
		s := scriptString(plain)
		for capacity := 0; capacity <= 3; capacity++ {
			cs := strconv.Itoa(capacity)
			kk := strconv.Itoa(r.Intn(len(vals) + 1))
			for _, scen := range []string{"slow", "stall", "abandon@" + kk, "unsub@" + kk, "unsubfull@" + strconv.Itoa(1+r.Intn(len(vals)+1))} {
				add("kind", "chanv", "op", "FromChannel", "cap", cs, "scen", scen, "sub", "7", "src", s)
			}
		}
	}
	// the ordering the 1 ms sleep is meant to prevent (needs the park point)
	for capacity := 0; capacity <= 3; capacity++ {
		for _, s := range []string{"C@1", "E1@1", "N1@1,C@2", "N1@1,N2@2,C@3", "-"} {
			add("kind", "chanv", "op", "ToChannel", "cap", strconv.Itoa(capacity), "mode", "sync", "scen", "park", "sub", "7", "src", s)
		}
	}
	return cases
}

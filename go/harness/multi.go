package main

// kind=multi: one multi-source operator of the first half of the C05 family (Merge*, MergeMap*,
// Race*, TakeUntil, SkipUntil, SampleWhen, ThrottleWhen) over one probe per input.
//
//   case 7 kind=multi op=TakeUntil sub=7 srcs=N1@1,N2@2,C@3;N5@1 sync=0,0 order=0,1,0,0 cut=-
//
// `srcs`: one script per probe; `sync`: which probes play their script inside Subscribe (cold);
// `order`: the interleaving — entry k makes hot probe k send its next notification, which is
// processed to quiescence (everything is synchronous, so: until the call returns) before the
// next one is issued; `cut`: number of steps after which the final subscription is unsubscribed.
// Result: delivered trace, dropped notifications, emissions per step, and per probe: number of
// subscriptions, teardown counter, context it was subscribed with.
//
// kind=multiconc: the same operators with every probe driven by its own goroutine (seeded jitter);
// the result is only the delivered trace — used for search/validation ("the output is the
// model's output for SOME compatible interleaving"), never as a proof.

import (
	"context"
	"fmt"
	"math/rand"
	"os"
	"runtime"
	"strconv"
	"strings"
	"sync"
	"time"

	"github.com/samber/ro"
)

func init() {
	registerKind("multi", genMulti, "multi", runMultiCase)
	registerKind("multiconc", genMultiConc, "multiconc", runMultiConcCase)
}

// ---------- building the operator ----------

func buildMulti(op string, obs []ro.Observable[int], probes []*Probe) (ro.Observable[int], error) {
	n := len(obs)
	switch op {
	case "Merge":
		return ro.Merge(obs...), nil
	case "MergeAll":
		return ro.MergeAll[int]()(ro.Just(obs...)), nil
	case "MergeWith":
		if n < 1 {
			return nil, fmt.Errorf("arity")
		}
		return ro.MergeWith(obs[1:]...)(obs[0]), nil
	case "MergeWithN":
		switch n {
		case 2:
			return ro.MergeWith1(obs[1])(obs[0]), nil
		case 3:
			return ro.MergeWith2(obs[1], obs[2])(obs[0]), nil
		case 4:
			return ro.MergeWith3(obs[1], obs[2], obs[3])(obs[0]), nil
		case 5:
			return ro.MergeWith4(obs[1], obs[2], obs[3], obs[4])(obs[0]), nil
		case 6:
			return ro.MergeWith5(obs[1], obs[2], obs[3], obs[4], obs[5])(obs[0]), nil
		}
		return nil, fmt.Errorf("arity")
	case "MergeMap":
		if n < 1 {
			return nil, fmt.Errorf("arity")
		}
		// the outer probe's value v names inner probe v; the projection tags the context with 40+i
		seen := map[int]bool{}
		for _, t := range probes[0].script {
			if t.kind == 'N' {
				if t.val < 1 || t.val >= n || seen[t.val] {
					return nil, fmt.Errorf("outer value")
				}
				seen[t.val] = true
			}
		}
		return ro.MergeMapIWithContext(func(ctx context.Context, v int, i int64) (context.Context, ro.Observable[int]) {
			return withMark(ctx, 40+int(i)), obs[v]
		})(obs[0]), nil
	case "Race":
		if n < 2 {
			return nil, fmt.Errorf("arity")
		}
		return ro.Race(obs...), nil
	case "Amb":
		if n < 2 {
			return nil, fmt.Errorf("arity")
		}
		return ro.Amb(obs...), nil
	case "RaceWith":
		if n < 2 {
			return nil, fmt.Errorf("arity")
		}
		return ro.RaceWith(obs[1:]...)(obs[0]), nil
	}
	if n != 2 {
		return nil, fmt.Errorf("arity")
	}
	switch op {
	case "TakeUntil":
		return ro.TakeUntil[int](obs[1])(obs[0]), nil
	case "SkipUntil":
		return ro.SkipUntil[int](obs[1])(obs[0]), nil
	case "SampleWhen":
		return ro.SampleWhen[int](obs[1])(obs[0]), nil
	case "ThrottleWhen":
		return ro.ThrottleWhen[int](obs[1])(obs[0]), nil
	}
	return nil, fmt.Errorf("unknown op")
}

type multiCase struct {
	op     string
	subCtx context.Context
	probes []*Probe
	order  []int
	cut    int
}

func parseMulti(c *Case) (*multiCase, string) {
	mc := &multiCase{op: c.get("op", "?"), cut: -1}
	mc.subCtx = ctxFromMarks(parseInts(strings.ReplaceAll(c.get("sub", "-"), ".", ",")))
	srcs := c.get("srcs", "-")
	var raws []string
	if srcs != "-" && srcs != "" {
		raws = strings.Split(srcs, ";")
	}
	syncs := parseInts(c.get("sync", "-"))
	for i, raw := range raws {
		script, err := parseScript(raw)
		if err != nil {
			return nil, "bad-script"
		}
		p := &Probe{script: script}
		if i < len(syncs) && syncs[i] != 0 {
			p.sync = true
		}
		mc.probes = append(mc.probes, p)
	}
	mc.order = parseInts(c.get("order", "-"))
	if s := c.get("cut", "-"); s != "-" {
		mc.cut, _ = strconv.Atoi(s)
	}
	return mc, ""
}

func runMultiCase(c *Case) string {
	mc, bad := parseMulti(c)
	if mc == nil {
		return "res " + c.id + " " + bad
	}
	obs := make([]ro.Observable[int], len(mc.probes))
	for i, p := range mc.probes {
		obs[i] = p.Observable()
	}
	o, err := buildMulti(mc.op, obs, mc.probes)
	if err != nil {
		return "res " + c.id + " unsupported"
	}
	rec := &Recorder{}
	setRecorder(rec)
	defer setRecorder(nil)

	sub := o.SubscribeWithContext(mc.subCtx, observer[int](rec))
	pos := make([]int, len(mc.probes))
	var steps []string
	for i, k := range mc.order {
		if i == mc.cut {
			sub.Unsubscribe()
		}
		before := rec.traceLen()
		if k >= 0 && k < len(mc.probes) {
			p := mc.probes[k]
			if !p.sync && pos[k] < len(p.script) {
				p.push(pos[k])
				pos[k]++
			}
		}
		steps = append(steps, strconv.Itoa(rec.traceLen()-before))
	}
	if mc.cut >= len(mc.order) {
		sub.Unsubscribe()
	}
	var subs, rel, sctx []string
	for _, p := range mc.probes {
		p.mu.Lock()
		subs = append(subs, strconv.Itoa(p.subs))
		rel = append(rel, strconv.Itoa(p.teardowns))
		if p.subs == 0 {
			sctx = append(sctx, "x")
		} else {
			sctx = append(sctx, renderCtx(p.subCtx))
		}
		p.mu.Unlock()
	}
	rec.mu.Lock()
	defer rec.mu.Unlock()
	return fmt.Sprintf("res %s trace=%s drops=%s steps=%s subs=%s rel=%s sctx=%s", c.id, joinOrDash(rec.trace), joinOrDash(rec.drops),
		joinOrDash(steps), joinOrDash(subs), joinOrDash(rel), joinOrDash(sctx))
}

// ---------- generation ----------

// shape of one probe script: nvals values, then an ending, then (illegal) suffix notifications
type mshape struct {
	nvals  int
	ending byte // '-', 'C', 'E'
	suffix string
}

func (s mshape) toks(k int, vals []int) []Tok {
	var out []Tok
	for i := 0; i < s.nvals; i++ {
		v := 10*(k+1) + i + 1
		if vals != nil {
			v = vals[i]
		}
		out = append(out, Tok{'N', v, len(out) + 1})
	}
	switch s.ending {
	case 'C':
		out = append(out, Tok{'C', 0, len(out) + 1})
	case 'E':
		out = append(out, Tok{'E', k + 1, len(out) + 1})
	}
	for _, ch := range s.suffix {
		switch ch {
		case 'N':
			out = append(out, Tok{'N', 10*(k+1) + 9, len(out) + 1})
		case 'C':
			out = append(out, Tok{'C', 0, len(out) + 1})
		case 'E':
			out = append(out, Tok{'E', k + 5, len(out) + 1})
		}
	}
	return out
}

func legalShapes(maxVals int) []mshape {
	var out []mshape
	for n := 0; n <= maxVals; n++ {
		for _, e := range []byte{'-', 'C', 'E'} {
			out = append(out, mshape{n, e, ""})
		}
	}
	return out
}

func suffixShapes(maxVals int) []mshape {
	var out []mshape
	for n := 0; n <= maxVals; n++ {
		for _, e := range []byte{'C', 'E'} {
			for _, s := range []string{"N", "C", "E"} {
				out = append(out, mshape{n, e, s})
			}
		}
	}
	return out
}

// all interleavings of hot probes with the given numbers of notifications
func interleavings(counts []int) [][]int {
	total := 0
	for _, c := range counts {
		total += c
	}
	var out [][]int
	cur := make([]int, 0, total)
	rem := append([]int{}, counts...)
	var rec func()
	rec = func() {
		if len(cur) == total {
			out = append(out, append([]int{}, cur...))
			return
		}
		for k := range rem {
			if rem[k] > 0 {
				rem[k]--
				cur = append(cur, k)
				rec()
				cur = cur[:len(cur)-1]
				rem[k]++
			}
		}
	}
	rec()
	return out
}

func randomInterleaving(r *rand.Rand, counts []int) []int {
	rem := append([]int{}, counts...)
	total := 0
	for _, c := range counts {
		total += c
	}
	out := make([]int, 0, total)
	for len(out) < total {
		k := r.Intn(len(rem))
		if rem[k] > 0 {
			rem[k]--
			out = append(out, k)
		}
	}
	return out
}

func scriptsString(scripts [][]Tok) string {
	parts := make([]string, len(scripts))
	for i, s := range scripts {
		parts[i] = scriptString(s)
	}
	return strings.Join(parts, ";")
}

type multiGen struct {
	cases []*Case
	id    int
	kind  string
}

func (g *multiGen) add(op string, scripts [][]Tok, syncs []int, order []int, cut int) {
	g.id++
	cutS := "-"
	if cut >= 0 {
		cutS = strconv.Itoa(cut)
	}
	g.cases = append(g.cases, newCase(g.id, "kind", g.kind, "op", op, "sub", "7", "srcs", scriptsString(scripts),
		"sync", intsString(syncs), "order", intsString(order), "cut", cutS))
}

func hotCounts(scripts [][]Tok, syncs []int) []int {
	counts := make([]int, len(scripts))
	for i, s := range scripts {
		if syncs[i] == 0 {
			counts[i] = len(s)
		}
	}
	return counts
}

// the outer scripts of MergeMap over `inners` inner probes: sequences of distinct inner indices
func outerValueLists(inners int, maxLen int) [][]int {
	out := [][]int{{}}
	var rec func(cur []int)
	rec = func(cur []int) {
		if len(cur) >= maxLen {
			return
		}
		for v := 1; v <= inners; v++ {
			used := false
			for _, c := range cur {
				if c == v {
					used = true
				}
			}
			if !used {
				nl := append(append([]int{}, cur...), v)
				out = append(out, nl)
				rec(nl)
			}
		}
	}
	rec(nil)
	return out
}

var multiOps2 = []string{"TakeUntil", "SkipUntil", "SampleWhen", "ThrottleWhen", "Merge", "MergeWith", "MergeWithN", "MergeAll", "Race", "RaceWith", "Amb"}
var multiOpsN = []string{"Merge", "MergeWithN", "Race", "RaceWith"}

// enumerate tuples of shapes
func shapeTuples(shapes []mshape, n int) [][]mshape {
	out := [][]mshape{{}}
	for i := 0; i < n; i++ {
		var next [][]mshape
		for _, pre := range out {
			for _, s := range shapes {
				next = append(next, append(append([]mshape{}, pre...), s))
			}
		}
		out = next
	}
	return out
}

func syncMasks(n int) [][]int {
	out := [][]int{{}}
	for i := 0; i < n; i++ {
		var next [][]int
		for _, pre := range out {
			next = append(next, append(append([]int{}, pre...), 0), append(append([]int{}, pre...), 1))
		}
		out = next
	}
	return out
}

func zeros(n int) []int { return make([]int, n) }

func genMulti(tier string, seed int64, only string) []*Case {
	r := rand.New(rand.NewSource(seed))
	g := &multiGen{kind: "multi"}
	thorough := tier == "thorough"
	want := func(op string) bool { return only == "" || only == op }

	// corpus: the witnesses of the known deviations and past disagreements first
	corpus := []struct {
		op, srcs, sync, order, cut string
	}{
		{"TakeUntil", "N11@1,N12@2,C@3;E2@1", "0,0", "0,1,0,0", "-"},
		{"SkipUntil", "N11@1,C@2;E2@1", "0,0", "0,1,0", "-"},
		{"Race", "N11@1;N21@1", "0,1", "0", "1"},
		{"RaceWith", "N11@1,N12@2;N21@1", "1,0", "1", "0"},
		{"Merge", "N11@1,C@2;N21@1,C@2", "0,0", "1,0,1,0", "-"},
		{"MergeMap", "N2@1,N1@2,C@3;N21@1,C@2;N31@1,E3@2", "0,0,0", "0,2,0,1,0,1,2", "-"},
	}
	for _, c := range corpus {
		if want(c.op) {
			g.id++
			g.cases = append(g.cases, newCase(g.id, "kind", "multi", "op", c.op, "sub", "7", "srcs", c.srcs, "sync", c.sync, "order", c.order, "cut", c.cut))
		}
	}

	emitAll := func(op string, scripts [][]Tok, syncs []int, sampleOrders int, cutProb int) {
		counts := hotCounts(scripts, syncs)
		var orders [][]int
		if sampleOrders <= 0 {
			orders = interleavings(counts)
		} else {
			for i := 0; i < sampleOrders; i++ {
				orders = append(orders, randomInterleaving(r, counts))
			}
		}
		for _, o := range orders {
			cut := -1
			if cutProb > 0 && r.Intn(cutProb) == 0 {
				cut = r.Intn(len(o) + 1)
			}
			g.add(op, scripts, syncs, o, cut)
		}
	}
	mk := func(tuple []mshape) [][]Tok {
		scripts := make([][]Tok, len(tuple))
		for k, s := range tuple {
			scripts[k] = s.toks(k, nil)
		}
		return scripts
	}

	// (1) two probes, all hot, legal scripts: exhaustive over shapes and interleavings
	maxVals2 := 2
	if thorough {
		maxVals2 = 3
	}
	for _, op := range multiOps2 {
		if !want(op) {
			continue
		}
		for _, tuple := range shapeTuples(legalShapes(maxVals2), 2) {
			emitAll(op, mk(tuple), zeros(2), 0, 5)
		}
	}
	// (2) two probes with synchronous (cold) probes and illegal suffixes
	for _, op := range multiOps2 {
		if !want(op) {
			continue
		}
		shapes := append(legalShapes(1), suffixShapes(1)...)
		if thorough {
			shapes = append(legalShapes(2), suffixShapes(2)...)
		}
		for _, tuple := range shapeTuples(shapes, 2) {
			for _, mask := range syncMasks(2) {
				illegal := tuple[0].suffix != "" || tuple[1].suffix != ""
				if mask[0] == 0 && mask[1] == 0 && !illegal {
					continue // covered by (1)
				}
				emitAll(op, mk(tuple), mask, 0, 4)
			}
		}
	}
	// (3) three probes
	for _, op := range multiOpsN {
		if !want(op) {
			continue
		}
		maxVals3 := 1
		if thorough {
			maxVals3 = 2
		}
		for _, tuple := range shapeTuples(legalShapes(maxVals3), 3) {
			emitAll(op, mk(tuple), zeros(3), 0, 6)
		}
		// sampled: longer scripts, cold probes, illegal suffixes
		nSample := 6000
		if thorough {
			nSample = 40000
		}
		shapes := append(legalShapes(3), suffixShapes(2)...)
		for i := 0; i < nSample; i++ {
			nsrc := 3
			if r.Intn(5) == 0 {
				nsrc = 4
			}
			tuple := make([]mshape, nsrc)
			mask := make([]int, nsrc)
			for k := range tuple {
				tuple[k] = shapes[r.Intn(len(shapes))]
				if r.Intn(4) == 0 {
					mask[k] = 1
				}
			}
			emitAll(op, mk(tuple), mask, 1, 4)
		}
	}
	// (4) MergeMap: outer probe + 2 (3) inner probes; the outer's values name the inner probes
	if want("MergeMap") {
		inners := 2
		maxVals := 1
		if thorough {
			maxVals = 2
		}
		for _, outerVals := range outerValueLists(inners, inners) {
			for _, outerEnd := range []byte{'-', 'C', 'E'} {
				outer := mshape{len(outerVals), outerEnd, ""}.toks(0, outerVals)
				for _, tuple := range shapeTuples(legalShapes(maxVals), inners) {
					scripts := [][]Tok{outer}
					for k, s := range tuple {
						scripts = append(scripts, s.toks(k+1, nil))
					}
					emitAll("MergeMap", scripts, zeros(inners+1), 0, 6)
				}
			}
		}
		nSample := 8000
		if thorough {
			nSample = 60000
		}
		shapes := append(legalShapes(2), suffixShapes(1)...)
		for i := 0; i < nSample; i++ {
			inn := 2 + r.Intn(2)
			lists := outerValueLists(inn, inn)
			outerVals := lists[r.Intn(len(lists))]
			osh := shapes[r.Intn(len(shapes))]
			osh.nvals = len(outerVals)
			if osh.suffix == "N" {
				osh.suffix = "C" // an outer value must name an inner probe
			}
			scripts := [][]Tok{osh.toks(0, outerVals)}
			mask := make([]int, inn+1)
			if r.Intn(4) == 0 {
				mask[0] = 1
			}
			for k := 1; k <= inn; k++ {
				scripts = append(scripts, shapes[r.Intn(len(shapes))].toks(k, nil))
				if r.Intn(4) == 0 {
					mask[k] = 1
				}
			}
			emitAll("MergeMap", scripts, mask, 1, 4)
		}
	}
	return g.cases
}

// ---------- free-running variant (search / validation only) ----------

func genMultiConc(tier string, seed int64, only string) []*Case {
	r := rand.New(rand.NewSource(seed))
	g := &multiGen{kind: "multiconc"}
	n := 60
	if tier == "thorough" {
		n = 600
	}
	ops := []string{"TakeUntil", "SkipUntil", "SampleWhen", "ThrottleWhen", "Merge", "Race"}
	shapes := legalShapes(2)
	for _, op := range ops {
		if only != "" && only != op {
			continue
		}
		for i := 0; i < n; i++ {
			nsrc := 2
			if (op == "Merge" || op == "Race") && r.Intn(2) == 0 {
				nsrc = 3
			}
			scripts := make([][]Tok, nsrc)
			for k := range scripts {
				scripts[k] = shapes[r.Intn(len(shapes))].toks(k, nil)
			}
			g.id++
			g.cases = append(g.cases, newCase(g.id, "kind", "multiconc", "op", op, "sub", "7", "srcs", scriptsString(scripts),
				"sync", intsString(zeros(nsrc)), "jitter", strconv.Itoa(r.Intn(1<<30))))
		}
	}
	return g.cases
}

func runMultiConcCase(c *Case) string {
	mc, bad := parseMulti(c)
	if mc == nil {
		return "res " + c.id + " " + bad
	}
	obs := make([]ro.Observable[int], len(mc.probes))
	for i, p := range mc.probes {
		p.sync = false
		obs[i] = p.Observable()
	}
	o, err := buildMulti(mc.op, obs, mc.probes)
	if err != nil {
		return "res " + c.id + " unsupported"
	}
	rec := &Recorder{}
	setRecorder(rec)
	defer setRecorder(nil)
	jitter, _ := strconv.Atoi(c.get("jitter", "1"))
	sub := o.SubscribeWithContext(mc.subCtx, observer[int](rec))
	_ = sub
	var wg sync.WaitGroup
	start := make(chan struct{})
	for k, p := range mc.probes {
		wg.Add(1)
		go func(k int, p *Probe) {
			defer wg.Done()
			rr := rand.New(rand.NewSource(int64(jitter) + int64(k)*7919))
			<-start
			for i := range p.script {
				switch rr.Intn(4) {
				case 0:
					runtime.Gosched()
				case 1:
					time.Sleep(time.Duration(rr.Intn(50)) * time.Microsecond)
				}
				p.push(i)
			}
		}(k, p)
	}
	close(start)
	wg.Wait()
	rec.mu.Lock()
	defer rec.mu.Unlock()
	return fmt.Sprintf("res %s trace=%s", c.id, joinOrDash(rec.trace))
}

// ---------- kind=multipark: TakeUntil with the signal parked inside its callback, on the real code ----------
//
//   case p1 kind=multipark op=TakeUntil sub=7 srcs=N11@1,N12@2,E1@3;N21@1 sync=0,0
//
// The source's first value is being delivered (the recording observer holds the destination's lock) when the
// signal's Next callback runs on another goroutine: it parks on that lock inside destination.Complete. Then the
// observer returns and the source goes on with the rest of its script while the signal is still inside its
// callback. The park is detected by inspecting the goroutine dump (no sleep); who gets the lock next is up to
// the Go runtime (a running goroutine usually barges in front of a woken waiter), so the run is repeated a few
// times, preferring a run in which the source's terminal was delivered.
// Result: `park=explained` when the delivered trace is the trace of SOME interleaving of the two scripts
// (each interleaving replayed on the real operator, every notification processed to quiescence), otherwise
// `park=unexplained trace=…`. With the flag raised before the completion (the code before fix 3e5361a) the
// source's next value is skipped and its terminal overtakes the completion: unexplained.
// The Lean side answers `park=explained` by theorem (C05a.takeUntil_concurrent over RoModel/Multi/Micro.lean).

func init() { registerKind("", nil, "multipark", runMultiParkCase) }

func signalParked() bool {
	buf := make([]byte, 1<<18)
	n := runtime.Stack(buf, true)
	if os.Getenv("VERIF_DEBUG_PARK") != "" {
		fmt.Fprintln(os.Stderr, string(buf[:n]))
	}
	for _, g := range strings.Split(string(buf[:n]), "\n\n") {
		if strings.Contains(g, "TakeUntil") && strings.Contains(g, "sync.(*Mutex).lockSlow") && strings.Contains(g, ".CompleteWithContext(") {
			return true
		}
	}
	return false
}

func runMultiParkOnce(mc *multiCase) (string, bool) {
	src, sig := mc.probes[0], mc.probes[1]
	o := ro.TakeUntil[int](sig.Observable())(src.Observable())
	rec := &Recorder{}
	setRecorder(rec)
	defer setRecorder(nil)
	entered := make(chan struct{})
	release := make(chan struct{})
	first := true
	obs := ro.NewObserverWithContext(
		func(ctx context.Context, v int) {
			rec.add("N" + renderVal(v) + "/" + renderCtx(ctx))
			if first {
				first = false
				close(entered)
				<-release
			}
		},
		func(ctx context.Context, err error) { rec.add("E" + renderErr(err) + "/" + renderCtx(ctx)) },
		func(ctx context.Context) { rec.add("C/" + renderCtx(ctx)) },
	)
	o.SubscribeWithContext(mc.subCtx, obs)
	var wg sync.WaitGroup
	wg.Add(2)
	sigStored := make(chan struct{})
	go func() {
		defer wg.Done()
		for i := range src.script {
			src.push(i)
		}
	}()
	<-entered
	go func() {
		defer wg.Done()
		close(sigStored)
		sig.push(0)
	}()
	<-sigStored
	deadline := time.Now().Add(5 * time.Second)
	parked := false
	for time.Now().Before(deadline) {
		if signalParked() {
			parked = true
			break
		}
		runtime.Gosched()
	}
	close(release)
	wg.Wait()
	rec.mu.Lock()
	defer rec.mu.Unlock()
	return joinOrDash(rec.trace), parked
}

func runMultiParkCase(c *Case) string {
	if c.get("op", "?") != "TakeUntil" {
		return "res " + c.id + " unsupported"
	}
	var last string
	var scripts [][]Tok
	for attempt := 0; attempt < 40; attempt++ {
		mc, bad := parseMulti(c)
		if mc == nil || len(mc.probes) != 2 || len(mc.probes[1].script) < 1 || len(mc.probes[0].script) < 1 ||
			mc.probes[0].script[0].kind != 'N' || mc.probes[1].script[0].kind != 'N' {
			return "res " + c.id + " " + bad + "unsupported"
		}
		scripts = [][]Tok{mc.probes[0].script, mc.probes[1].script}
		trace, parked := runMultiParkOnce(mc)
		if !parked {
			return "res " + c.id + " harness-timeout"
		}
		last = trace
		toks := strings.Split(trace, ",")
		srcEnd := mc.probes[0].script[len(mc.probes[0].script)-1]
		if srcEnd.kind != 'N' && strings.HasPrefix(toks[len(toks)-1], string(srcEnd.kind)) && strings.HasSuffix(toks[len(toks)-1], "."+strconv.Itoa(srcEnd.mark)) {
			break
		}
	}
	// the traces of all interleavings, on the real operator
	for _, order := range interleavings([]int{len(scripts[0]), len(scripts[1])}) {
		lc := newCase(0, "kind", "multi", "op", "TakeUntil", "sub", c.get("sub", "-"), "srcs", scriptsString(scripts),
			"sync", "0,0", "order", intsString(order), "cut", "-")
		for _, f := range strings.Fields(runMultiCase(lc)) {
			if f == "trace="+last {
				return "res " + c.id + " park=explained"
			}
		}
	}
	return "res " + c.id + " park=unexplained trace=" + last
}

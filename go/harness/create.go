package main

// kind=create: the synchronous creation operators of operator_creation.go (Of/Just, FromSlice, Empty,
// Throw, Range, Repeat, Start) — optionally wrapped in Defer / Defer(Iif(…)), optionally with a chain
// of catalogue operators downstream — subscribed by the recording observer. A creation operator emits
// inside Subscribe and keeps looping after its subscriber has closed, so the refused notifications
// (drop hook) are part of the comparison. C12: the same observable is subscribed a second time
// (and four times concurrently); user callbacks (Start's callback, Defer's factory, Iif's predicate)
// are counted: once per subscription.
//
//   case <id> kind=create op=Range p=1,4 fault=- wrap=defer down=Take/plain/-/1 sub=7
//   res  <id> trace=… drops=… t2=… calls=…
//
// Model: lean/RoModel/Ops/Create.lean (script generators), driver lean/RoModel/Drivers/Create.lean.

import (
	"fmt"
	"math/rand"
	"sort"
	"strconv"
	"strings"
	"sync"
	"sync/atomic"

	"github.com/samber/ro"
)

func init() { registerKind("create", genCreate, "create", runCreateCase) }

// faultPanic: "e3" panics with the error user-3, "v3" with the non-error value pv3
func faultPanic(f string) {
	if len(f) < 2 {
		return
	}
	n, _ := strconv.Atoi(f[1:])
	switch f[0] {
	case 'e':
		panic(userErr{n})
	case 'v':
		panic(panicVal{n})
	}
}

func parseGroups(s string) [][]int {
	if s == "-" || s == "" {
		return nil
	}
	var out [][]int
	for _, g := range strings.Split(s, ";") {
		out = append(out, parseInts(g))
	}
	return out
}

// the result is either an Observable[int] or, for Range, an Observable[int64]
func baseCreate(op, ps, fault string, calls *int32) (any, error) {
	p := parseInts(ps)
	switch op {
	case "Of":
		return ro.Of(p...), nil
	case "Just":
		return ro.Just(p...), nil
	case "FromSlice":
		return ro.FromSlice(parseGroups(ps)...), nil
	case "Empty":
		if len(p) == 0 {
			return ro.Empty[int](), nil
		}
	case "Throw":
		if len(p) == 1 {
			return ro.Throw[int](userErr{p[0]}), nil
		}
	case "Range":
		if len(p) == 2 {
			return ro.Range(int64(p[0]), int64(p[1])), nil
		}
	case "RangeWithStep":
		// integral bounds and step: every value is an integer, and float arithmetic on integers of this size is exact
		if len(p) == 3 && p[2] > 0 {
			return ro.Map(func(f float64) int {
				if f != float64(int(f)) {
					return -999999 // not integral: shows as a wrong value
				}
				return int(f)
			})(ro.RangeWithStep(float64(p[0]), float64(p[1]), float64(p[2]))), nil
		}
	case "Repeat":
		if len(p) == 2 && p[1] >= 0 {
			return ro.Repeat(p[0], int64(p[1])), nil
		}
	case "Start":
		if len(p) == 1 {
			v := p[0]
			return ro.Start(func() int {
				atomic.AddInt32(calls, 1)
				if fault != "-" {
					faultPanic(fault)
				}
				return v
			}), nil
		}
	}
	return nil, fmt.Errorf("bad creation operator %s %s", op, ps)
}

func wrapCreate(inner ro.Observable[int], w string, calls *int32) (ro.Observable[int], error) {
	switch {
	case w == "defer":
		return ro.Defer(func() ro.Observable[int] {
			atomic.AddInt32(calls, 1)
			return inner
		}), nil
	case w == "iifT":
		return ro.Defer(ro.Iif(func() bool { atomic.AddInt32(calls, 1); return true }, inner, ro.Throw[int](userErr{99}))), nil
	case w == "iifF":
		return ro.Defer(ro.Iif(func() bool { atomic.AddInt32(calls, 1); return false }, ro.Throw[int](userErr{99}), inner)), nil
	case strings.HasPrefix(w, "deferP"):
		f := w[len("deferP"):]
		if len(f) < 2 || (f[0] != 'e' && f[0] != 'v') {
			return nil, fmt.Errorf("bad wrap %s", w)
		}
		return ro.Defer(func() ro.Observable[int] {
			atomic.AddInt32(calls, 1)
			faultPanic(f)
			return inner
		}), nil
	}
	return nil, fmt.Errorf("bad wrap %s", w)
}

func runCreateCase(c *Case) string {
	var calls int32
	base, err := baseCreate(c.get("op", "?"), c.get("p", "-"), c.get("fault", "-"), &calls)
	if err != nil {
		return "res " + c.id + " unsupported"
	}
	wraps := []string{}
	if w := c.get("wrap", "-"); w != "-" && w != "" {
		wraps = strings.Split(w, ",")
	}
	down := c.get("down", "-")
	subCtx := ctxFromMarks(parseInts(strings.ReplaceAll(c.get("sub", "-"), ".", ",")))

	var attachTo attachFn
	multiStage := strings.Contains(down, "|")
	obsInt, isInt := base.(ro.Observable[int])
	if !isInt {
		o64, ok := base.(ro.Observable[int64])
		if !ok {
			return "res " + c.id + " unsupported"
		}
		if len(wraps) == 0 && down == "-" {
			attachTo = attach(o64) // Range subscribed directly, int64 values as they are
		} else {
			// a harness-side conversion so that the catalogue's int operators can follow
			obsInt = ro.Map(func(v int64) int { return int(v) })(o64)
		}
	}
	if attachTo == nil {
		for _, w := range wraps {
			obsInt, err = wrapCreate(obsInt, w, &calls)
			if err != nil {
				return "res " + c.id + " unsupported"
			}
		}
		if down != "-" {
			var stages []stage
			for _, t := range strings.Split(down, "|") {
				st, err := parseStage(t)
				if err != nil {
					return "res " + c.id + " bad-stage"
				}
				stages = append(stages, st)
			}
			obsInt, err = buildChain(stages, obsInt)
			if err != nil {
				return "res " + c.id + " unsupported"
			}
		}
		attachTo = attach(obsInt)
	}

	rec := &Recorder{}
	setRecorder(rec)
	attachTo(subCtx, rec)
	rec2 := &Recorder{}
	setRecorder(rec2)
	attachTo(subCtx, rec2)
	setRecorder(nil)
	n := atomic.LoadInt32(&calls)
	t2 := joinOrDash(rec2.trace)
	// four concurrent subscriptions of the same observable value
	var wg sync.WaitGroup
	conc := make([]string, 4)
	for i := range conc {
		wg.Add(1)
		go func(i int) {
			defer wg.Done()
			r := &Recorder{}
			attachTo(subCtx, r)
			conc[i] = joinOrDash(r.trace)
		}(i)
	}
	wg.Wait()
	for _, t := range conc {
		if t != t2 {
			t2 = "concurrent-subscription-differs:" + t
		}
	}
	drops := rec.drops
	if multiStage {
		// refusals of different stages interleave in time: compared as a multiset
		drops = append([]string{}, drops...)
		sort.Strings(drops)
	}
	return fmt.Sprintf("res %s trace=%s drops=%s t2=%s calls=%d", c.id, joinOrDash(rec.trace), joinOrDash(drops), t2, n)
}

// ---------- generation ----------

func groupsString(g [][]int) string {
	if len(g) == 0 {
		return "-"
	}
	parts := make([]string, len(g))
	for i, x := range g {
		parts[i] = intsString(x)
	}
	return strings.Join(parts, ";")
}

func genCreate(tier string, seed int64, only string) []*Case {
	r := rand.New(rand.NewSource(seed*6151 + 17))
	thorough := tier == "thorough"
	type base struct{ op, p, fault string }
	var bases []base
	lists := valueLists(2)
	nr := 6
	if thorough {
		lists = valueLists(3)
		nr = 30
	}
	for i := 0; i < nr; i++ {
		lists = append(lists, randomList(r, 3+r.Intn(8)))
	}
	for i, l := range lists {
		bases = append(bases, base{"Just", intsString(l), "-"})
		if i%3 == 0 {
			bases = append(bases, base{"Of", intsString(l), "-"})
		}
	}
	for _, g := range [][][]int{{}, {{}}, {{1}}, {{1, 2}, {3}}, {{}, {2}, {}}, {{0, 0}, {}, {3, 2, 1}}} {
		bases = append(bases, base{"FromSlice", groupsString(g), "-"})
	}
	for i := 0; i < nr; i++ {
		var g [][]int
		for k := r.Intn(4); k > 0; k-- {
			g = append(g, randomList(r, r.Intn(4)))
		}
		bases = append(bases, base{"FromSlice", groupsString(g), "-"})
	}
	bases = append(bases, base{"Empty", "-", "-"}, base{"Throw", "1", "-"}, base{"Throw", "4", "-"})
	lim := 3
	if thorough {
		lim = 6
	}
	for s := -lim; s <= lim; s++ {
		for e := -lim; e <= lim; e++ {
			bases = append(bases, base{"Range", intsString([]int{s, e}), "-"})
		}
	}
	for i := 0; i < nr; i++ {
		s := r.Intn(41) - 20
		bases = append(bases, base{"Range", intsString([]int{s, s + r.Intn(25) - 12}), "-"})
	}
	// RangeWithStep: spans that are / are not a multiple of the step, steps larger than the span, both directions
	for s := -2; s <= 2; s += 2 {
		for e := -lim - 2; e <= lim+2; e++ {
			for _, st := range []int{1, 2, 3} {
				bases = append(bases, base{"RangeWithStep", intsString([]int{s, e, st}), "-"})
			}
		}
	}
	for i := 0; i < nr; i++ {
		s := r.Intn(41) - 20
		bases = append(bases, base{"RangeWithStep", intsString([]int{s, s + r.Intn(31) - 15, 1 + r.Intn(6)}), "-"})
	}
	for _, item := range []int{0, 5} {
		for _, n := range []int{0, 1, 2, 3, 5, 9} {
			bases = append(bases, base{"Repeat", intsString([]int{item, n}), "-"})
		}
	}
	for _, v := range []int{0, 7} {
		for _, f := range []string{"-", "e3", "v4"} {
			bases = append(bases, base{"Start", strconv.Itoa(v), f})
		}
	}
	wrapsL := []string{"-", "defer", "iifT", "iifF", "deferPe3", "deferPv2", "defer,defer", "defer,iifT", "iifF,defer"}
	fixedDowns := []string{"-", "Take/plain/-/1", "Take/plain/-/2", "Head/plain/-/-", "Map/plain/dbl/-", "Filter/plain/even/-",
		"Skip/plain/-/1|Take/plain/-/1", "IgnoreElements/plain/-/-", "TakeWhile/plain/lt3/-", "First/plain/pos/-", "ToSliceLike"}
	nrand := 2
	if thorough {
		nrand = 12
	}
	var cases []*Case
	id := 0
	for _, b := range bases {
		if only != "" && b.op != only {
			continue
		}
		for _, w := range wrapsL {
			downs := append([]string{}, fixedDowns[:len(fixedDowns)-1]...)
			for i := 0; i < nrand; i++ {
				k := 1 + r.Intn(3)
				st := make([]string, k)
				for j := range st {
					st[j] = randomStage(r).String()
				}
				downs = append(downs, strings.Join(st, "|"))
			}
			for _, d := range downs {
				id++
				cases = append(cases, newCase(id, "kind", "create", "op", b.op, "p", b.p, "fault", b.fault, "wrap", w, "down", d, "sub", "7"))
			}
		}
	}
	return cases
}

package main

// kind=multib — multi-source operators over hot probe sources (C05, second half):
// Zip*/ZipAll, CombineLatest*/CombineLatestAll, ConcatAll/Concat/ConcatWith/FlatMap*, BufferWhen,
// WindowWhen, GroupBy*. A case is the per-source scripts plus an interleaving (`order`): entry
// `i` makes source `i` issue its next notification; every notification is processed to
// quiescence before the next one is issued. Mirrors lean/RoModel/MultiB/Core.lean `run`.
//
// Quiescence. All operators but ConcatAll run their callbacks on the pushing goroutine, so a
// notification is fully processed when `Probe.push` returns. ConcatAll (and FlatMap, Concat,
// ConcatWith built on it) blocks inside Subscribe in `sub.Wait()` for each inner source: it is
// subscribed from a driver goroutine, and the harness goes on only when that goroutine is
// parked in `subscriptionImpl.Wait`'s channel receive or has returned. This is read off the
// goroutine's state in `runtime.Stack` (no sleeps; `Gosched` between polls; the deadline is a
// guard and is reported as harness-timeout). A goroutine woken by the finalizer's channel send is
// marked runnable synchronously inside that send, so it cannot be mistaken for parked.

import (
	"bytes"
	"context"
	"fmt"
	"math/rand"
	"runtime"
	"sort"
	"strconv"
	"strings"
	"sync"
	"time"

	"github.com/samber/lo"
	"github.com/samber/ro"
)

func init() { registerKind("multib", genMultiB, "multib", runMultiBCase) }

// ---------- recording ----------

type mbInner struct {
	mu  sync.Mutex
	got []string
}

func (in *mbInner) add(s string) {
	in.mu.Lock()
	in.got = append(in.got, s)
	in.mu.Unlock()
}

type mbItem struct {
	s     string
	inner *mbInner
}

type mbPending struct {
	inner *mbInner
	obs   ro.Observable[int]
	left  int
}

type mbRec struct {
	mu      sync.Mutex
	items   []mbItem
	delay   int
	pending []*mbPending
	guard   spareGuard
}

func (r *mbRec) add(it mbItem) {
	r.mu.Lock()
	r.items = append(r.items, it)
	r.mu.Unlock()
}

func (r *mbRec) trace() string {
	r.mu.Lock()
	defer r.mu.Unlock()
	parts := make([]string, len(r.items))
	for i, it := range r.items {
		if it.inner != nil {
			it.inner.mu.Lock()
			parts[i] = "N[" + strings.Join(it.inner.got, ";") + "]"
			it.inner.mu.Unlock()
		} else {
			parts[i] = it.s
		}
	}
	return joinOrDash(parts)
}

// re=1 (WindowWhen): the source value that follows a boundary tick in `order` is sent from INSIDE the Complete callback of the
// window that tick closes (re-entrantly, same goroutine) instead of after the tick has returned. The closing window has already
// been replaced when it is completed, so the value belongs to the new window — the logical model's answer for the order
// "tick, value" must also be the answer here (a flush that completes the old window before installing the new one loses it).
var mbOnInnerComplete func()

func mbSubscribeInner(in *mbInner, obs ro.Observable[int]) {
	obs.Subscribe(ro.NewObserver(
		func(v int) { in.add("N" + strconv.Itoa(v)) },
		func(err error) { in.add("E" + renderErr(err)) },
		func() {
			in.add("C")
			if h := mbOnInnerComplete; h != nil {
				mbOnInnerComplete = nil
				h()
			}
		},
	))
}

func mbObserver[T any](r *mbRec) ro.Observer[T] {
	return ro.NewObserver(
		func(v T) {
			if obs, ok := any(v).(ro.Observable[int]); ok {
				in := &mbInner{}
				r.add(mbItem{inner: in})
				if r.delay == 0 {
					mbSubscribeInner(in, obs)
				} else {
					r.mu.Lock()
					r.pending = append(r.pending, &mbPending{in, obs, r.delay})
					r.mu.Unlock()
				}
				return
			}
			r.guard.claim(any(v))
			r.add(mbItem{s: "N" + renderVal(v)})
		},
		func(err error) { r.add(mbItem{s: "E" + renderErr(err)}) },
		func() { r.add(mbItem{s: "C"}) },
	)
}

// after every notification a source has issued: recorders whose delay has elapsed subscribe
func (r *mbRec) tick() {
	r.mu.Lock()
	var due, keep []*mbPending
	for _, p := range r.pending {
		p.left--
		if p.left == 0 {
			due = append(due, p)
		} else {
			keep = append(keep, p)
		}
	}
	r.pending = keep
	r.mu.Unlock()
	for _, p := range due {
		mbSubscribeInner(p.inner, p.obs)
	}
}

func (r *mbRec) finish() {
	r.mu.Lock()
	due := r.pending
	r.pending = nil
	r.mu.Unlock()
	for _, p := range due {
		mbSubscribeInner(p.inner, p.obs)
	}
}

// ---------- building the operators ----------

type mbSub func() ro.Subscription

func mbAttach[T any](obs ro.Observable[T], r *mbRec) mbSub {
	return func() ro.Subscription { return obs.Subscribe(mbObserver[T](r)) }
}

func mbOuter(n int, outer string, probes []*Probe) (ro.Observable[int], error) {
	var script []Tok
	for i := 0; i < n; i++ {
		script = append(script, Tok{'N', i, 0})
	}
	switch {
	case outer == "C":
		script = append(script, Tok{'C', 0, 0})
	case outer == "-":
	case strings.HasPrefix(outer, "E"):
		k, err := strconv.Atoi(outer[1:])
		if err != nil {
			return nil, err
		}
		script = append(script, Tok{'E', k, 0})
	default:
		return nil, fmt.Errorf("bad outer")
	}
	p := &Probe{script: script, sync: true}
	return p.Observable(), nil
}

func mbBuild(op, variant string, n int, outer, key string, probes []*Probe, r *mbRec) (mbSub, bool, error) {
	src := make([]ro.Observable[int], n)
	for i := range probes {
		src[i] = probes[i].Observable()
	}
	bad := fmt.Errorf("unsupported %s/%s/%d", op, variant, n)
	pick := func(i int) ro.Observable[int] {
		if i >= 0 && i < n {
			return src[i]
		}
		return ro.Empty[int]()
	}
	switch op {
	case "Zip":
		switch variant + strconv.Itoa(n) {
		case "with2":
			return mbAttach(ro.ZipWith1[int](src[1])(src[0]), r), false, nil
		case "with3":
			return mbAttach(ro.ZipWith2[int](src[1], src[2])(src[0]), r), false, nil
		case "with4":
			return mbAttach(ro.ZipWith3[int](src[1], src[2], src[3])(src[0]), r), false, nil
		case "with5":
			return mbAttach(ro.ZipWith4[int](src[1], src[2], src[3], src[4])(src[0]), r), false, nil
		case "with6":
			return mbAttach(ro.ZipWith5[int](src[1], src[2], src[3], src[4], src[5])(src[0]), r), false, nil
		case "zipn2":
			return mbAttach(ro.Zip2(src[0], src[1]), r), false, nil
		case "zipn3":
			return mbAttach(ro.Zip3(src[0], src[1], src[2]), r), false, nil
		case "zipn4":
			return mbAttach(ro.Zip4(src[0], src[1], src[2], src[3]), r), false, nil
		case "zipn5":
			return mbAttach(ro.Zip5(src[0], src[1], src[2], src[3], src[4]), r), false, nil
		case "zipn6":
			return mbAttach(ro.Zip6(src[0], src[1], src[2], src[3], src[4], src[5]), r), false, nil
		}
	case "ZipAll":
		switch variant {
		case "all":
			o, err := mbOuter(n, outer, probes)
			if err != nil {
				return nil, false, err
			}
			return mbAttach(ro.ZipAll[int]()(ro.Map(pick)(o)), r), false, nil
		case "zip":
			if outer == "C" {
				return mbAttach(ro.Zip(src...), r), false, nil
			}
		}
	case "CombineLatest":
		switch variant + strconv.Itoa(n) {
		case "with2":
			return mbAttach(ro.CombineLatestWith1[int](src[1])(src[0]), r), false, nil
		case "with3":
			return mbAttach(ro.CombineLatestWith2[int](src[1], src[2])(src[0]), r), false, nil
		case "with4":
			return mbAttach(ro.CombineLatestWith3[int](src[1], src[2], src[3])(src[0]), r), false, nil
		case "with5":
			return mbAttach(ro.CombineLatestWith4[int](src[1], src[2], src[3], src[4])(src[0]), r), false, nil
		case "cln2":
			return mbAttach(ro.CombineLatest2(src[0], src[1]), r), false, nil
		case "cln3":
			return mbAttach(ro.CombineLatest3(src[0], src[1], src[2]), r), false, nil
		case "cln4":
			return mbAttach(ro.CombineLatest4(src[0], src[1], src[2], src[3]), r), false, nil
		case "cln5":
			return mbAttach(ro.CombineLatest5(src[0], src[1], src[2], src[3], src[4]), r), false, nil
		}
	case "CombineLatestAll":
		switch variant {
		case "all":
			o, err := mbOuter(n, outer, probes)
			if err != nil {
				return nil, false, err
			}
			return mbAttach(ro.CombineLatestAll[int]()(ro.Map(pick)(o)), r), false, nil
		case "any":
			if outer == "C" {
				anys := make([]ro.Observable[any], n)
				for i := range src {
					anys[i] = ro.Map(func(v int) any { return v })(src[i])
				}
				return mbAttach(ro.CombineLatestAny(anys...), r), false, nil
			}
		}
	case "ConcatAll":
		switch variant {
		case "all":
			o, err := mbOuter(n, outer, probes)
			if err != nil {
				return nil, false, err
			}
			return mbAttach(ro.ConcatAll[int]()(ro.Map(pick)(o)), r), true, nil
		case "concat":
			if outer == "C" {
				return mbAttach(ro.Concat(src...), r), true, nil
			}
		case "with":
			if outer == "C" && n >= 1 {
				return mbAttach(ro.ConcatWith(src[1:]...)(src[0]), r), true, nil
			}
		case "flatmap":
			o, err := mbOuter(n, outer, probes)
			if err != nil {
				return nil, false, err
			}
			return mbAttach(ro.FlatMap(pick)(o), r), true, nil
		case "flatmapi":
			o, err := mbOuter(n, outer, probes)
			if err != nil {
				return nil, false, err
			}
			// the projection uses the index, which must count the outer values from 0
			return mbAttach(ro.FlatMapI(func(_ int, i int64) ro.Observable[int] { return pick(int(i)) })(ro.Map(func(v int) int { return v + 100 })(o)), r), true, nil
		case "flatmapictx":
			o, err := mbOuter(n, outer, probes)
			if err != nil {
				return nil, false, err
			}
			return mbAttach(ro.FlatMapIWithContext(func(_ context.Context, v int, i int64) ro.Observable[int] {
				if int(i) != v {
					return ro.Empty[int]()
				}
				return pick(v)
			})(o), r), true, nil
		}
	case "BufferWhen":
		if n == 2 {
			return mbAttach(ro.BufferWhen[int, int](src[1])(src[0]), r), false, nil
		}
	case "WindowWhen":
		if n == 2 {
			return mbAttach(ro.WindowWhen[int, int](src[1])(src[0]), r), false, nil
		}
	case "GroupBy":
		if n != 1 {
			break
		}
		switch variant {
		case "plain":
			if f, ok := unary[key]; ok {
				return mbAttach(ro.GroupBy(f)(src[0]), r), false, nil
			}
		case "ctx":
			if f, ok := unary[key]; ok {
				return mbAttach(ro.GroupByWithContext(func(ctx context.Context, v int) (context.Context, int) { return ctx, f(v) })(src[0]), r), false, nil
			}
		case "i":
			if f, ok := unaryI[key]; ok {
				return mbAttach(ro.GroupByI(f)(src[0]), r), false, nil
			}
		case "ictx":
			if f, ok := unaryI[key]; ok {
				return mbAttach(ro.GroupByIWithContext(func(ctx context.Context, v int, i int64) (context.Context, int) { return ctx, f(v, i) })(src[0]), r), false, nil
			}
		}
	}
	return nil, false, bad
}

var _ = lo.T2[int, int]

// ---------- quiescence of the driver goroutine ----------

func curGoroutineID() string {
	buf := make([]byte, 64)
	buf = buf[:runtime.Stack(buf, false)]
	// "goroutine 123 [running]:"
	f := bytes.Fields(buf)
	if len(f) >= 2 {
		return string(f[1])
	}
	return "?"
}

var stackBuf = make([]byte, 1<<20)
var stackMu sync.Mutex

// parkedInWait reports whether goroutine gid is parked in subscriptionImpl.Wait's channel receive
func parkedInWait(gid string) bool {
	stackMu.Lock()
	defer stackMu.Unlock()
	n := runtime.Stack(stackBuf, true)
	all := stackBuf[:n]
	head := []byte("goroutine " + gid + " [")
	i := bytes.Index(all, head)
	for i > 0 && all[i-1] != '\n' {
		j := bytes.Index(all[i+1:], head)
		if j < 0 {
			return false
		}
		i += 1 + j
	}
	if i < 0 {
		return false
	}
	rest := all[i:]
	if end := bytes.Index(rest, []byte("\n\n")); end >= 0 {
		rest = rest[:end]
	}
	line := rest
	if nl := bytes.IndexByte(rest, '\n'); nl >= 0 {
		line = rest[:nl]
	}
	return bytes.Contains(line, []byte("[chan receive")) && bytes.Contains(rest, []byte("subscriptionImpl).Wait"))
}

// waitQuiescent returns true when the driver goroutine has returned or is parked in Wait
func waitQuiescent(gid string, done chan struct{}) bool {
	deadline := time.Now().Add(10 * time.Second)
	for spins := 0; ; spins++ {
		select {
		case <-done:
			return true
		default:
		}
		if parkedInWait(gid) {
			return true
		}
		if time.Now().After(deadline) {
			return false
		}
		runtime.Gosched()
	}
}

// ---------- running one case ----------

func runMultiBCase(c *Case) string {
	op := c.get("op", "?")
	variant := c.get("var", "-")
	n, _ := strconv.Atoi(c.get("n", "2"))
	outer := c.get("outer", "C")
	key := c.get("key", "mod2")
	delay, _ := strconv.Atoi(c.get("delay", "0"))
	order := parseInts(c.get("order", "-"))
	cut := -1
	if s := c.get("cut", "-"); s != "-" {
		cut, _ = strconv.Atoi(s)
	}
	var scripts [][]Tok
	if s := c.get("srcs", ""); s != "" {
		for _, part := range strings.Split(s, ";") {
			sc, err := parseScript(part)
			if err != nil {
				return "res " + c.id + " bad-script"
			}
			scripts = append(scripts, sc)
		}
	}
	if n < 0 || n > 8 {
		return "res " + c.id + " unsupported"
	}
	probes := make([]*Probe, n)
	for i := range probes {
		probes[i] = &Probe{}
		if i < len(scripts) {
			probes[i].script = scripts[i]
		}
	}
	hooks := &Recorder{}
	setRecorder(hooks)
	defer setRecorder(nil)
	r := &mbRec{delay: delay}
	subscribe, blocking, err := mbBuild(op, variant, n, outer, key, probes, r)
	if err != nil {
		return "res " + c.id + " unsupported"
	}

	var gid string
	var sub ro.Subscription
	done := make(chan struct{})
	if blocking {
		ready := make(chan string, 1)
		go func() {
			defer close(done)
			ready <- curGoroutineID()
			subscribe()
		}()
		gid = <-ready
		if !waitQuiescent(gid, done) {
			return "res " + c.id + " harness-timeout"
		}
	} else {
		sub = subscribe()
	}
	if blocking && cut >= 0 {
		return "res " + c.id + " unsupported" // the subscription is not available while Subscribe blocks
	}

	pos := make([]int, n)
	reenter := c.get("re", "0") == "1" && op == "WindowWhen" && !blocking && cut < 0
	skipNext := false
	mbOnInnerComplete = nil
	for idx, i := range order {
		if skipNext {
			skipNext = false
			continue
		}
		if idx == cut {
			sub.Unsubscribe()
		}
		if reenter && i == 1 && idx+1 < len(order) && order[idx+1] == 0 && pos[1] < len(probes[1].script) && probes[1].script[pos[1]].kind == 'N' &&
			pos[0] < len(probes[0].script) && probes[0].script[pos[0]].kind == 'N' {
			// boundary tick followed by a source value: the value is pushed from inside the closing window's Complete callback
			k1, k0 := pos[1], pos[0]
			pos[1]++
			pos[0]++
			pushed := false
			mbOnInnerComplete = func() { pushed = true; probes[0].push(k0) }
			probes[1].push(k1)
			mbOnInnerComplete = nil
			r.tick()
			if !pushed { // no window was completed by this tick (nobody listening): plain order
				probes[0].push(k0)
			}
			r.tick()
			skipNext = true
			continue
		}
		if i >= 0 && i < n && pos[i] < len(probes[i].script) {
			k := pos[i]
			if probes[i].script[k].kind == 'N' {
				pos[i]++
			} else {
				pos[i] = len(probes[i].script) // a source says nothing after its own terminal
			}
			probes[i].push(k)
			if blocking && !waitQuiescent(gid, done) {
				return "res " + c.id + " harness-timeout"
			}
			r.tick()
		}
	}
	if cut >= len(order) {
		sub.Unsubscribe()
	}
	r.finish()

	hooks.mu.Lock()
	drops := append([]string{}, hooks.drops...)
	hooks.mu.Unlock()
	sort.Strings(drops)
	rel := make([]string, n)
	subs := make([]string, n)
	for i, p := range probes {
		p.mu.Lock()
		rel[i] = "0"
		if p.teardowns > 0 {
			rel[i] = "1"
		}
		subs[i] = strconv.Itoa(p.subs)
		p.mu.Unlock()
	}
	res := fmt.Sprintf("res %s trace=%s drops=%s rel=%s subs=%s", c.id, r.trace(), joinOrDash(drops), joinOrDash(rel), joinOrDash(subs))
	if r.guard.bad() {
		res += " _flag=spare-capacity-of-a-delivered-slice-overwritten"
	}

	if blocking {
		// let the driver goroutine go: complete whatever inner source it is still waiting on
		setRecorder(nil)
		for guard := 0; guard < 4*n+4; guard++ {
			select {
			case <-done:
				return res
			default:
			}
			for _, p := range probes {
				p.mu.Lock()
				dest, live := p.dest, p.subs > 0 && p.teardowns == 0
				p.mu.Unlock()
				if live && dest != nil {
					dest.Complete()
				}
			}
			if !waitQuiescent(gid, done) {
				break
			}
		}
	}
	return res
}

// ---------- generation ----------

type mbShape struct {
	n   int
	end byte // '-', 'C', 'E'
}

func mbScript(src int, sh mbShape) []Tok {
	var out []Tok
	for k := 0; k < sh.n; k++ {
		out = append(out, Tok{'N', (src+1)*10 + k + 1, 0})
	}
	switch sh.end {
	case 'C':
		out = append(out, Tok{'C', 0, 0})
	case 'E':
		out = append(out, Tok{'E', src + 1, 0})
	}
	return out
}

func mbShapes(maxLen int) []mbShape {
	var out []mbShape
	for l := 0; l <= maxLen; l++ {
		for _, e := range []byte{'-', 'C', 'E'} {
			out = append(out, mbShape{l, e})
		}
	}
	return out
}

// all mbInterleavings of sources with the given numbers of notifications
func mbInterleavings(lens []int) [][]int {
	total := 0
	for _, l := range lens {
		total += l
	}
	var out [][]int
	cur := make([]int, 0, total)
	left := append([]int{}, lens...)
	var rec func()
	rec = func() {
		if len(cur) == total {
			out = append(out, append([]int{}, cur...))
			return
		}
		for i := range left {
			if left[i] > 0 {
				left[i]--
				cur = append(cur, i)
				rec()
				cur = cur[:len(cur)-1]
				left[i]++
			}
		}
	}
	rec()
	return out
}

func mbScriptsString(scripts [][]Tok) string {
	parts := make([]string, len(scripts))
	for i, s := range scripts {
		parts[i] = scriptString(s)
	}
	return strings.Join(parts, ";")
}

// the positional stories of genMultiB for arity n, odd position k
func mbPositional(n, k int, emit func(scripts [][]Tok, order []int)) {
	full := func(end byte, vals int) [][]Tok {
		sc := make([][]Tok, n)
		for i := range sc {
			sc[i] = mbScript(i, mbShape{vals, end})
		}
		return sc
	}
	others := func(rounds int) []int {
		var o []int
		for r := 0; r < rounds; r++ {
			for j := 0; j < n; j++ {
				if j != k {
					o = append(o, j)
				}
			}
		}
		return o
	}
	rep := func(x, times int) []int {
		o := make([]int, times)
		for i := range o {
			o[i] = x
		}
		return o
	}
	// (1) k runs ahead: both values and its completion first, then the others round-robin (2 values + C each)
	emit(full('C', 2), append(rep(k, 3), others(3)...))
	// (2) k lags: the others emit everything and complete, then k
	emit(full('C', 2), append(others(3), rep(k, 3)...))
	// (3) k runs ahead with its values, the others catch up with one value each, then k completes, then the rest
	emit(full('C', 2), append(append(append(rep(k, 2), others(1)...), k), others(2)...))
	// (4) k completes empty before anybody emits
	sc := full('C', 1)
	sc[k] = mbScript(k, mbShape{0, 'C'})
	emit(sc, append([]int{k}, others(2)...))
	// (5) k fails after one value while every other source has one value queued
	sc = full('C', 2)
	sc[k] = mbScript(k, mbShape{1, 'E'})
	emit(sc, append(append(others(1), rep(k, 2)...), others(2)...))
	// (6) k is the only one that never completes: the others complete with their values queued behind k's
	sc = full('C', 2)
	sc[k] = mbScript(k, mbShape{2, '-'})
	emit(sc, append(others(3), rep(k, 2)...))
	// (7) everybody emits one value starting at k (rotation), then completes in the same rotation
	var rot []int
	for r := 0; r < 2; r++ {
		for j := 0; j < n; j++ {
			rot = append(rot, (k+j)%n)
		}
	}
	emit(full('C', 1), rot)
}

type mbVariant struct {
	op, variant string
	outers      []string
	minN, maxN  int
	primary     bool
}

var mbVariants = []mbVariant{
	{"Zip", "with", nil, 2, 6, true},
	{"Zip", "zipn", nil, 2, 6, false},
	{"ZipAll", "all", []string{"C", "E9", "-"}, 0, 4, true},
	{"ZipAll", "zip", []string{"C"}, 0, 4, false},
	{"CombineLatest", "with", nil, 2, 5, true},
	{"CombineLatest", "cln", nil, 2, 5, false},
	{"CombineLatestAll", "all", []string{"C", "E9", "-"}, 0, 4, true},
	{"CombineLatestAll", "any", []string{"C"}, 0, 4, false},
	{"ConcatAll", "all", []string{"C", "E9", "-"}, 0, 4, true},
	{"ConcatAll", "concat", []string{"C"}, 0, 4, false},
	{"ConcatAll", "with", []string{"C"}, 1, 4, false},
	{"ConcatAll", "flatmap", []string{"C", "E9", "-"}, 0, 4, false},
	{"ConcatAll", "flatmapi", []string{"C"}, 0, 4, false},
	{"ConcatAll", "flatmapictx", []string{"C"}, 0, 4, false},
	{"BufferWhen", "plain", nil, 2, 2, true},
	{"WindowWhen", "plain", nil, 2, 2, true},
}

func genMultiB(tier string, seed int64, only string) []*Case {
	r := rand.New(rand.NewSource(seed))
	var cases []*Case
	id := 0
	add := func(v mbVariant, n int, outer string, scripts [][]Tok, order []int, extra ...string) {
		id++
		kv := []string{"kind", "multib", "op", v.op, "var", v.variant, "n", strconv.Itoa(n), "outer", outer}
		kv = append(kv, extra...)
		kv = append(kv, "srcs", mbScriptsString(scripts), "order", intsString(order))
		cases = append(cases, newCase(id, kv...))
		// now and then the same case with the downstream unsubscribing from outside at a random point
		// (not for the operators that block inside Subscribe: the subscription is not available)
		if v.op != "ConcatAll" && r.Intn(5) == 0 {
			id++
			kc := append([]string{}, kv[:len(kv)-4]...)
			kc = append(kc, "cut", strconv.Itoa(r.Intn(len(order)+2)), "srcs", mbScriptsString(scripts), "order", intsString(order))
			cases = append(cases, newCase(id, kc...))
		}
	}
	// exhaustive: every tuple of script shapes x every interleaving
	exhaustive := func(v mbVariant, n, maxLen int, outer string, sample int) {
		shapes := mbShapes(maxLen)
		idx := make([]int, n)
		for {
			scripts := make([][]Tok, n)
			lens := make([]int, n)
			for i := range idx {
				scripts[i] = mbScript(i, shapes[idx[i]])
				lens[i] = len(scripts[i])
			}
			for _, ord := range mbInterleavings(lens) {
				if sample <= 1 || r.Intn(sample) == 0 {
					add(v, n, outer, scripts, ord)
				}
			}
			k := 0
			for k < n {
				idx[k]++
				if idx[k] < len(shapes) {
					break
				}
				idx[k] = 0
				k++
			}
			if k == n {
				break
			}
		}
	}
	random := func(v mbVariant, count int) {
		for c := 0; c < count; c++ {
			n := v.minN + r.Intn(v.maxN-v.minN+1)
			outer := "C"
			if len(v.outers) > 0 {
				outer = v.outers[r.Intn(len(v.outers))]
			}
			scripts := make([][]Tok, n)
			var order []int
			for i := range scripts {
				scripts[i] = mbScript(i, mbShape{r.Intn(5), []byte{'-', 'C', 'E', 'C'}[r.Intn(4)]})
				for range scripts[i] {
					order = append(order, i)
				}
			}
			// a few entries that find nothing to issue (exhausted or unknown source)
			for k := r.Intn(3); k > 0; k-- {
				order = append(order, r.Intn(n+2))
			}
			r.Shuffle(len(order), func(a, b int) { order[a], order[b] = order[b], order[a] })
			add(v, n, outer, scripts, order)
		}
	}
	thorough := tier == "thorough"
	if only == "" || only == "WindowWhen" {
		// re-entrant variant of WindowWhen: every interleaving of short scripts in which a tick is directly followed by a value
		wv := mbVariant{"WindowWhen", "plain", nil, 2, 2, true}
		for _, sh0 := range mbShapes(3) {
			for _, sh1 := range mbShapes(2) {
				scripts := [][]Tok{mbScript(0, sh0), mbScript(1, sh1)}
				for _, ord := range mbInterleavings([]int{len(scripts[0]), len(scripts[1])}) {
					has := false
					for j := 0; j+1 < len(ord); j++ {
						if ord[j] == 1 && ord[j+1] == 0 {
							has = true
						}
					}
					if has && (thorough || r.Intn(3) == 0) {
						id++
						cases = append(cases, newCase(id, "kind", "multib", "op", wv.op, "var", wv.variant, "n", "2", "outer", "C", "re", "1",
							"srcs", mbScriptsString(scripts), "order", intsString(ord)))
					}
				}
			}
		}
	}
	for _, v := range mbVariants {
		if only != "" && v.op != only {
			continue
		}
		outers := v.outers
		if outers == nil {
			outers = []string{"C"}
		}
		for _, outer := range outers {
			for n := v.minN; n <= v.maxN && n <= 4; n++ {
				switch {
				case n <= 1:
					exhaustive(v, n, 4, outer, 1)
				case n == 2 && thorough:
					exhaustive(v, n, 4, outer, 1)
				case n == 2:
					exhaustive(v, n, 3, outer, 1)
				case n == 3 && thorough:
					exhaustive(v, n, 2, outer, 1)
				case n == 3 && v.primary:
					exhaustive(v, n, 2, outer, 6)
					exhaustive(v, n, 1, outer, 1)
				case n == 3:
					exhaustive(v, n, 1, outer, 2)
				case n == 4 && thorough && v.primary:
					exhaustive(v, n, 1, outer, 4)
				case n == 4 && thorough:
					exhaustive(v, n, 1, outer, 40)
				}
			}
		}
		if thorough {
			random(v, 3000)
		} else {
			random(v, 300)
		}
		// positional stories: the numbered arities (Zip2..6, ZipWith1..5, CombineLatest2..5, …) are written out
		// per source position; for every arity and every position k, the orders in which position k is the odd one
		// out (runs ahead and finishes with values queued / lags behind everybody / finishes empty / fails), so
		// that a slip in the wiring of ONE position of ONE arity is reached in every tier
		if v.op == "Zip" || v.op == "CombineLatest" || v.op == "ZipAll" || v.op == "CombineLatestAll" {
			lo := v.minN
			if lo < 2 {
				lo = 2
			}
			for _, outer := range outers {
				if outer != "C" {
					continue
				}
				for n := lo; n <= v.maxN; n++ {
					for k := 0; k < n; k++ {
						mbPositional(n, k, func(scripts [][]Tok, order []int) { add(v, n, outer, scripts, order) })
					}
				}
			}
		}
	}
	// GroupBy: one source, value alphabet {1,2,3,4}, keys, recorder delays
	if only == "" || only == "GroupBy" {
		maxLen := 3
		if thorough {
			maxLen = 5
		}
		var lists [][]int
		var rec func(cur []int)
		rec = func(cur []int) {
			lists = append(lists, append([]int{}, cur...))
			if len(cur) == maxLen {
				return
			}
			for _, v := range []int{1, 2, 3, 4} {
				rec(append(cur, v))
			}
		}
		rec(nil)
		for i := 0; i < 60; i++ {
			l := make([]int, 4+r.Intn(8))
			for j := range l {
				l[j] = r.Intn(7) - 1
			}
			lists = append(lists, l)
		}
		type gv struct{ variant, key string }
		gvs := []gv{{"plain", "mod2"}, {"plain", "mod3"}, {"plain", "id"}, {"plain", "zero"}, {"ctx", "mod2"}, {"i", "idx"}, {"i", "addi"}, {"ictx", "muli"}}
		for _, g := range gvs {
			for li, vals := range lists {
				if !thorough && g.variant != "plain" && li%3 != 0 {
					continue
				}
				for _, end := range []byte{'-', 'C', 'E'} {
					var script []Tok
					for _, v := range vals {
						script = append(script, Tok{'N', v, 0})
					}
					switch end {
					case 'C':
						script = append(script, Tok{'C', 0, 0})
					case 'E':
						script = append(script, Tok{'E', 1, 0})
					}
					order := make([]int, len(script))
					// now and then an entry that issues nothing
					if r.Intn(4) == 0 {
						order = append(order, 0)
						order[r.Intn(len(order))] = 1
					}
					for _, delay := range []int{0, 1, 2, 3, 50} {
						add(mbVariant{op: "GroupBy", variant: g.variant}, 1, "C", [][]Tok{script}, order, "key", g.key, "delay", strconv.Itoa(delay))
					}
				}
			}
		}
	}
	return cases
}

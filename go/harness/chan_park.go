//go:build verifpark

package main

// Built only when the library under test carries repo_hooks/tochannel_park.patch (the check
// detects verif_tochannel_on.go in the tree and adds the tag `verifpark`).

import "github.com/samber/ro"

func init() { setToChannelPark = ro.VerifSetToChannelPark }

package main

import (
	"context"
	"fmt"
	"math/rand"
	"strconv"
	"strings"
	"time"

	"github.com/samber/ro"
)

// runCaseGuarded runs a case with a deadline; a panic escaping from the library into the
// harness goroutine is part of the result (`escaped=`), never a crash of the harness.
func runCaseGuarded(c *Case) string {
	done := make(chan string, 1)
	go func() {
		defer func() {
			if r := recover(); r != nil {
				done <- fmt.Sprintf("res %s harness-panic=%v", c.id, strings.ReplaceAll(fmt.Sprint(r), " ", "_"))
			}
		}()
		done <- runCase(c)
	}()
	select {
	case s := <-done:
		return s
	case <-time.After(20 * time.Second):
		return "res " + c.id + " harness-timeout"
	}
}

func init() { registerKind("ops", genOps, "op", runOpCase) }

func runOpCase(c *Case) string {
	spec := findOp(c.get("op", "?"))
	if spec == nil {
		return "res " + c.id + " unsupported"
	}
	script, err := parseScript(c.get("src", "-"))
	if err != nil {
		return "res " + c.id + " bad-script"
	}
	var cbs []Cb
	if s := c.get("cb", "-"); s != "-" && s != "" {
		for _, t := range strings.Split(s, ",") {
			cbs = append(cbs, parseCb(t))
		}
	}
	mode := c.get("mode", "sync")
	cut := -1
	if s := c.get("cut", "-"); s != "-" {
		cut, _ = strconv.Atoi(s)
	}
	subCtx := ctxFromMarks(parseInts(strings.ReplaceAll(c.get("sub", "-"), ".", ",")))

	rec := &Recorder{}
	setRecorder(rec)
	defer setRecorder(nil)

	var steps []string
	before := 0
	probe := &Probe{script: script, sync: mode == "sync"}
	probe.afterEach = func(i int) {
		n := rec.traceLen()
		steps = append(steps, strconv.Itoa(n-before))
		before = n
	}
	probe.onSub = func() { before = rec.traceLen() }
	at, err := spec.build(parseInts(c.get("p", "-")), c.get("var", "plain"), cbs, probe.Observable())
	if err != nil {
		return "res " + c.id + " unsupported"
	}
	// whatever the subscribe function delivers by itself is not attributed to an input
	sub := at(subCtx, rec)
	if mode == "sync" {
		// steps were recorded by afterEach relative to the trace length at subscribe time:
		// emissions made before the first input are excluded by construction of `before`
	} else {
		before = rec.traceLen()
		for i := range script {
			if i == cut {
				sub.Unsubscribe()
			}
			probe.push(i)
		}
		if cut >= len(script) {
			sub.Unsubscribe()
		}
	}
	if probe.subs == 0 {
		steps = nil
	}
	rel := probe.teardowns
	_ = sub
	return fmt.Sprintf("res %s trace=%s drops=%s steps=%s subs=%d rel=%d alias=%s", c.id, joinOrDash(rec.trace), joinOrDash(rec.drops), joinOrDash(steps), probe.subs, rel, rec.aliasCheck())
}

// ---------- generation ----------

var alphabet = []int{-1, 0, 2, 3}

func valueLists(maxLen int) [][]int {
	out := [][]int{{}}
	frontier := [][]int{{}}
	for l := 1; l <= maxLen; l++ {
		var next [][]int
		for _, pre := range frontier {
			for _, a := range alphabet {
				nl := append(append([]int{}, pre...), a)
				next = append(next, nl)
			}
		}
		out = append(out, next...)
		frontier = next
	}
	return out
}

func randomList(r *rand.Rand, n int) []int {
	out := make([]int, n)
	for i := range out {
		if r.Intn(4) == 0 {
			out[i] = r.Intn(9) - 3
		} else {
			out[i] = alphabet[r.Intn(len(alphabet))]
		}
	}
	return out
}

// scriptsFor turns a value list into raw scripts: three endings, and for terminated scripts
// the illegal continuations.
func scriptsFor(vals []int, withSuffixes bool) [][]Tok {
	base := make([]Tok, len(vals))
	for i, v := range vals {
		base[i] = Tok{'N', v, i + 1}
	}
	m := len(vals) + 1
	var out [][]Tok
	out = append(out, append([]Tok{}, base...))
	ends := []Tok{{'C', 0, m}, {'E', 1, m}}
	if len(vals) <= 2 {
		ends = append(ends, Tok{'E', 0, m}) // Error(nil): an error ending whose error value is nil
	}
	for _, end := range ends {
		s := append(append([]Tok{}, base...), end)
		out = append(out, s)
		if withSuffixes {
			for _, suf := range []Tok{{'N', 9, m + 1}, {'C', 0, m + 1}, {'E', 2, m + 1}} {
				out = append(out, append(append([]Tok{}, s...), suf))
			}
		}
	}
	return out
}

func genOps(tier string, seed int64, only string) []*Case {
	r := rand.New(rand.NewSource(seed))
	var lists [][]int
	if tier == "thorough" {
		lists = valueLists(4)
		for i := 0; i < 100; i++ {
			lists = append(lists, randomList(r, 5+r.Intn(35)))
		}
	} else {
		lists = valueLists(2)
		for i := 0; i < 12; i++ {
			lists = append(lists, randomList(r, 3+r.Intn(5)))
		}
	}
	var cases []*Case
	id := 0
	for _, spec := range opSpecs {
		if only != "" && spec.name != only {
			continue
		}
		for _, variant := range spec.variants {
			cbList := cbChoices(spec.cbKind, variant)
			if spec.cbKind == "" {
				cbList = []string{"-"}
			}
			for _, cbName := range cbList {
				cb := cbName
				if hasCtx(variant) && cb != "-" && spec.cbKind != "boolpred" && spec.name != "ToMap" {
					cb += "+t" + strconv.Itoa(50+r.Intn(9))
				}
				for _, p := range spec.params {
					for _, vals := range lists {
						for _, script := range scriptsFor(vals, true) {
							for _, mode := range []string{"sync", "hot"} {
								cut := "-"
								if mode == "hot" && r.Intn(3) == 0 {
									cut = strconv.Itoa(r.Intn(len(script) + 1))
								}
								id++
								cases = append(cases, newCase(id, "kind", "op", "op", spec.name, "p", intsString(p),
									"var", variant, "cb", cb, "mode", mode, "cut", cut, "sub", "7", "src", scriptString(script)))
							}
						}
					}
				}
			}
		}
	}
	return cases
}

var _ = context.Background
var _ ro.Kind

package main

// kind=kernel: scripts of API calls {N v, E e, C, U, A f, W f, Q} issued by 1-4 goroutines against
// ONE real subscriber (safe / unsafe / eventually-safe). The destination is a hand-written
// ro.Observer (rawObs, not ro.NewObserver), so what is exercised is subscriberImpl +
// subscriptionImpl themselves: rawObs only records callback begin/end and keeps an `inside`
// counter. Every event (call / return of an API call, callback begin / end, dropped notification,
// finalizer run, joined panic) is appended to one log under a mutex, so the log order is a real
// time order: a return logged before a call really happened before it.
//
//   case <id> kind=kernel mode=safe|unsafe|eventually dest=obs|nil panicky=<ids> scripts=<s0>;<s1>;… [reps=<k>]
//
// One thread: the result line carries the whole log; it must equal the log of the Lean model
// (lean/RoModel/Drivers/Kernel.lean) exactly. Several threads: goroutines run freely with yields
// (runtime.Gosched / tiny sleeps, also inside callbacks and finalizers); the same predicates as
// lean/RoModel/Kernel/Preds.lean are evaluated on the recorded log and only the verdict is printed
// (`verdict=ok`); the case is repeated `reps` times with different yield seeds.

import (
	"context"
	"fmt"
	"math/rand"
	"regexp"
	"runtime"
	"strconv"
	"strings"
	"sync"
	"sync/atomic"
	"time"

	"github.com/samber/ro"
)

func init() { registerKind("kernel", genKernel, "kernel", runKernelCase) }

type kCall struct {
	kind byte // N E C U A W Q
	arg  int
}

func (k kCall) tok() string {
	switch k.kind {
	case 'N', 'E', 'A', 'W':
		return string(k.kind) + strconv.Itoa(k.arg)
	}
	return string(k.kind)
}

func parseKScripts(s string) ([][]kCall, error) {
	var out [][]kCall
	for _, sc := range strings.Split(s, ";") {
		var calls []kCall
		if sc != "-" && sc != "" {
			for _, t := range strings.Split(sc, ",") {
				if t == "" {
					return nil, fmt.Errorf("empty token")
				}
				k := kCall{kind: t[0]}
				switch t[0] {
				case 'N', 'E', 'A', 'W':
					v, err := strconv.Atoi(t[1:])
					if err != nil {
						return nil, err
					}
					k.arg = v
				case 'C', 'U', 'Q':
					if len(t) != 1 {
						return nil, fmt.Errorf("bad token %q", t)
					}
				default:
					return nil, fmt.Errorf("bad token %q", t)
				}
				calls = append(calls, k)
			}
		}
		out = append(out, calls)
	}
	return out, nil
}

type kEv struct {
	typ byte // c r b e d f x
	tid int
	tok string
	res string
}

func (e kEv) String() string {
	s := string(e.typ) + strconv.Itoa(e.tid) + ":" + e.tok
	if e.typ == 'r' {
		s += ":" + e.res
	}
	return s
}

type finPanic struct{ id int }

func (p finPanic) Error() string { return "finpanic" + strconv.Itoa(p.id) + ";" }

var finPanicRe = regexp.MustCompile(`finpanic(\d+);`)

func goid() int64 {
	var buf [64]byte
	n := runtime.Stack(buf[:], false)
	f := strings.Fields(string(buf[:n]))
	if len(f) >= 2 {
		id, _ := strconv.ParseInt(f[1], 10, 64)
		return id
	}
	return -1
}

type kRun struct {
	mu        sync.Mutex
	evs       []kEv
	tids      sync.Map // goroutine id -> thread id
	inside    int32
	maxInside int32
	waitEarly int32
	jitter    bool
	panicky   map[int]bool
	seed      int64
}

func (r *kRun) tid() int {
	if v, ok := r.tids.Load(goid()); ok {
		return v.(int)
	}
	return 99
}

func (r *kRun) log(e kEv) {
	r.mu.Lock()
	r.evs = append(r.evs, e)
	r.mu.Unlock()
}

// yield widens race windows; decisions come from a per-goroutine PRNG derived from the case seed
func (r *kRun) yield(rng *rand.Rand) {
	if !r.jitter {
		return
	}
	switch rng.Intn(5) {
	case 0:
	case 1, 2:
		runtime.Gosched()
	case 3:
		runtime.Gosched()
		runtime.Gosched()
	case 4:
		time.Sleep(time.Duration(1+rng.Intn(30)) * time.Microsecond)
	}
}

// rawObs is the destination: a plain ro.Observer that is neither a Subscriber nor a Subscription.
type rawObs struct {
	r    *kRun
	rngs sync.Map // tid -> *rand.Rand
}

func (o *rawObs) rng(t int) *rand.Rand {
	if v, ok := o.rngs.Load(t); ok {
		return v.(*rand.Rand)
	}
	g := rand.New(rand.NewSource(o.r.seed*131 + int64(t)*977 + 5))
	o.rngs.Store(t, g)
	return g
}

func (o *rawObs) cb(tok string) {
	t := o.r.tid()
	n := atomic.AddInt32(&o.r.inside, 1)
	for {
		m := atomic.LoadInt32(&o.r.maxInside)
		if n <= m || atomic.CompareAndSwapInt32(&o.r.maxInside, m, n) {
			break
		}
	}
	o.r.log(kEv{typ: 'b', tid: t, tok: tok})
	o.r.yield(o.rng(t))
	o.r.log(kEv{typ: 'e', tid: t, tok: tok})
	atomic.AddInt32(&o.r.inside, -1)
}

func (o *rawObs) Next(v int)                                  { o.NextWithContext(context.Background(), v) }
func (o *rawObs) NextWithContext(_ context.Context, v int)    { o.cb("N" + strconv.Itoa(v)) }
func (o *rawObs) Error(err error)                             { o.ErrorWithContext(context.Background(), err) }
func (o *rawObs) ErrorWithContext(_ context.Context, e error) { o.cb("E" + kErrCode(e)) }
func (o *rawObs) Complete()                                   { o.CompleteWithContext(context.Background()) }
func (o *rawObs) CompleteWithContext(_ context.Context)       { o.cb("C") }
func (o *rawObs) IsClosed() bool                              { return false }
func (o *rawObs) HasThrown() bool                             { return false }
func (o *rawObs) IsCompleted() bool                           { return false }

func kErrCode(e error) string {
	if u, ok := e.(userErr); ok {
		return strconv.Itoa(u.n)
	}
	return "?"
}

var kernelHookMu sync.Mutex
var kernelCur *kRun

func kernelDropHook(_ context.Context, n fmt.Stringer) {
	kernelHookMu.Lock()
	r := kernelCur
	kernelHookMu.Unlock()
	if r == nil {
		return
	}
	s := renderDropped(n)
	if strings.HasPrefix(s, "Eu") {
		s = "E" + s[2:]
	}
	r.log(kEv{typ: 'd', tid: r.tid(), tok: s})
}

// kernelOnce runs the scripts once on a fresh subscriber; returns the log and the verdict.
func kernelOnce(mode, destKind string, panicky map[int]bool, scripts [][]kCall, seed int64) ([]kEv, string) {
	n := len(scripts)
	r := &kRun{jitter: n > 1, panicky: panicky, seed: seed}
	var dest ro.Observer[int]
	if destKind != "nil" {
		dest = &rawObs{r: r}
	}
	var cm ro.ConcurrencyMode
	switch mode {
	case "unsafe":
		cm = ro.ConcurrencyModeUnsafe
	case "eventually":
		cm = ro.ConcurrencyModeEventuallySafe
	default:
		cm = ro.ConcurrencyModeSafe
	}
	sub := ro.NewSubscriberWithConcurrencyMode[int](dest, cm)

	kernelHookMu.Lock()
	kernelCur = r
	kernelHookMu.Unlock()
	oldDrop := ro.OnDroppedNotification
	ro.OnDroppedNotification = kernelDropHook
	defer func() {
		ro.OnDroppedNotification = oldDrop
		kernelHookMu.Lock()
		kernelCur = nil
		kernelHookMu.Unlock()
	}()

	state := make([]int32, n) // 0 running, 1 inside Wait, 2 finished
	ctx := context.Background()
	doCall := func(t int, k kCall, rng *rand.Rand) {
		r.log(kEv{typ: 'c', tid: t, tok: k.tok()})
		res := "u"
		func() {
			defer func() {
				if p := recover(); p != nil {
					res = "p"
					if _, raw := p.(finPanic); !raw {
						// panic(xerrors.Join(errs...)) of subscriptionImpl.Unsubscribe
						var ids []string
						for _, m := range finPanicRe.FindAllStringSubmatch(fmt.Sprint(p), -1) {
							ids = append(ids, m[1])
						}
						r.log(kEv{typ: 'x', tid: t, tok: strings.Join(ids, ".")})
					}
				}
			}()
			switch k.kind {
			case 'N':
				sub.NextWithContext(ctx, k.arg)
			case 'E':
				sub.ErrorWithContext(ctx, userErr{k.arg})
			case 'C':
				sub.CompleteWithContext(ctx)
			case 'U':
				sub.Unsubscribe()
			case 'A':
				f := k.arg
				sub.Add(func() {
					r.log(kEv{typ: 'f', tid: r.tid(), tok: strconv.Itoa(f)})
					r.yield(rng)
					if panicky[f] {
						panic(finPanic{f})
					}
				})
			case 'W':
				atomic.StoreInt32(&state[t], 1)
				sub.Wait()
				if !sub.IsClosed() {
					atomic.StoreInt32(&r.waitEarly, 1)
				}
				atomic.StoreInt32(&state[t], 0)
			case 'Q':
				if sub.IsClosed() {
					res = "t"
				} else {
					res = "f"
				}
			}
		}()
		r.log(kEv{typ: 'r', tid: t, tok: k.tok(), res: res})
	}

	r.tids.Store(goid(), 99)
	defer r.tids.Delete(goid())
	var wg sync.WaitGroup
	start := make(chan struct{})
	for t := range scripts {
		wg.Add(1)
		go func(t int) {
			defer wg.Done()
			id := goid()
			r.tids.Store(id, t)
			defer r.tids.Delete(id)
			rng := rand.New(rand.NewSource(seed*7919 + int64(t)*104729 + 1))
			<-start
			for _, k := range scripts[t] {
				r.yield(rng)
				doCall(t, k, rng)
			}
			atomic.StoreInt32(&state[t], 2)
		}(t)
	}
	close(start)
	finished := make(chan struct{})
	go func() { wg.Wait(); close(finished) }()

	// supervisor (several threads only; one-thread scripts never Wait before a closing call): when
	// every unfinished goroutine has been sitting in Wait for a while and nobody is left to close
	// the subscription, close it from here (thread id 99), once.
	deadline := time.After(8 * time.Second)
	cleaned := false
	stable := 0
loop:
	for {
		select {
		case <-finished:
			break loop
		case <-deadline:
			if cleaned {
				return r.snapshot(), "wait-hang"
			}
			return r.snapshot(), "harness-timeout"
		case <-time.After(100 * time.Microsecond):
		}
		blocked, unfinished := 0, 0
		for t := range state {
			switch atomic.LoadInt32(&state[t]) {
			case 0:
				unfinished++
			case 1:
				unfinished++
				blocked++
			}
		}
		if unfinished > 0 && blocked == unfinished {
			stable++
		} else {
			stable = 0
		}
		if stable >= 20 && !cleaned && n > 1 {
			cleaned = true
			r.log(kEv{typ: 'c', tid: 99, tok: "U"})
			func() {
				defer func() { recover() }()
				sub.Unsubscribe()
			}()
			r.log(kEv{typ: 'r', tid: 99, tok: "U", res: "u"})
			deadline = time.After(4 * time.Second)
		}
	}
	evs := r.snapshot()
	return evs, kernelVerdict(mode, scripts, evs, sub.IsClosed(), atomic.LoadInt32(&r.maxInside), atomic.LoadInt32(&r.waitEarly) != 0, destKind == "nil")
}

func (r *kRun) snapshot() []kEv {
	r.mu.Lock()
	defer r.mu.Unlock()
	out := make([]kEv, len(r.evs))
	copy(out, r.evs)
	return out
}

func kProduces(k kCall) bool { return k.kind == 'N' || k.kind == 'E' || k.kind == 'C' }
func tokCloses(tok string) bool {
	return tok == "U" || tok == "C" || strings.HasPrefix(tok, "E")
}
func tokProduces(tok string) bool {
	return tok == "C" || strings.HasPrefix(tok, "E") || strings.HasPrefix(tok, "N")
}

// kernelVerdict mirrors lean/RoModel/Drivers/Kernel.lean `verdict` / Kernel/Preds.lean.
func kernelVerdict(mode string, scripts [][]kCall, evs []kEv, closedAtEnd bool, maxInside int32, waitEarly bool, destNil bool) string {
	producers := 0
	for _, sc := range scripts {
		for _, k := range sc {
			if kProduces(k) {
				producers++
				break
			}
		}
	}
	serial := mode != "unsafe" || producers <= 1
	if serial {
		depth := 0
		for _, e := range evs {
			if e.typ == 'b' {
				if depth != 0 {
					return "overlap"
				}
				depth++
			} else if e.typ == 'e' {
				depth--
			}
		}
		if maxInside > 1 {
			return "overlap"
		}
		term := false
		for _, e := range evs {
			if e.typ == 'b' {
				if term {
					return "grammar"
				}
				if e.tok[0] != 'N' {
					term = true
				}
			}
		}
	}
	ran := map[string]int{}
	for _, e := range evs {
		if e.typ == 'f' {
			ran[e.tok]++
			if ran[e.tok] > 1 {
				return "fin-twice"
			}
		}
	}
	if closedAtEnd {
		// every finalizer handed to Add has run exactly once (all goroutines have finished)
		for _, e := range evs {
			if e.typ == 'c' && e.tok[0] == 'A' && ran[e.tok[1:]] != 1 {
				return "fin-missing"
			}
		}
	}
	seen := map[string]bool{}
	for _, e := range evs {
		if e.typ == 'f' {
			seen[e.tok] = true
		}
		if e.typ == 'x' && e.tok != "" {
			for _, id := range strings.Split(e.tok, ".") {
				if !seen[id] {
					return "raise-early"
				}
			}
		}
	}
	closed := false
	late := map[int]bool{}
	for _, e := range evs {
		switch e.typ {
		case 'r':
			if late[e.tid] && e.tok == "Q" && e.res != "t" {
				return "isclosed-false"
			}
			if tokCloses(e.tok) {
				closed = true
			}
			delete(late, e.tid)
		case 'c':
			if closed {
				late[e.tid] = true
			}
		case 'b':
			if late[e.tid] {
				return "delivered-after-close"
			}
		}
	}
	if waitEarly {
		return "wait-early"
	}
	// C07 (Kernel.terminalLog): a terminal call that returned on a subscriber nobody unsubscribed was delivered
	if !destNil {
		termRet, unsub, termBegin := false, false, false
		for _, e := range evs {
			switch e.typ {
			case 'r':
				if e.tok == "C" || strings.HasPrefix(e.tok, "E") {
					termRet = true
				}
			case 'c':
				if e.tok == "U" {
					unsub = true
				}
			case 'b':
				if e.tok[0] != 'N' {
					termBegin = true
				}
			}
		}
		if termRet && !unsub && !termBegin {
			return "terminal-lost"
		}
	}
	return "ok"
}

func renderKLog(evs []kEv) string {
	if len(evs) == 0 {
		return "-"
	}
	parts := make([]string, len(evs))
	for i, e := range evs {
		parts[i] = e.String()
	}
	return strings.Join(parts, ",")
}

func runKernelCase(c *Case) string {
	scripts, err := parseKScripts(c.get("scripts", "-"))
	if err != nil {
		return "res " + c.id + " bad-script"
	}
	panicky := map[int]bool{}
	for _, p := range parseInts(c.get("panicky", "-")) {
		panicky[p] = true
	}
	mode, dest := c.get("mode", "safe"), c.get("dest", "obs")
	var seed int64 = 1
	for _, ch := range c.id + c.get("scripts", "-") {
		seed = seed*31 + int64(ch)
	}
	if len(scripts) == 1 {
		evs, v := kernelOnce(mode, dest, panicky, scripts, seed)
		return "res " + c.id + " log=" + renderKLog(evs) + " verdict=" + v
	}
	reps, _ := strconv.Atoi(c.get("reps", "6"))
	if reps < 1 {
		reps = 1
	}
	for i := 0; i < reps; i++ {
		evs, v := kernelOnce(mode, dest, panicky, scripts, seed+int64(i)*1000003)
		if v != "ok" {
			return "res " + c.id + " verdict=" + v + " faillog=" + renderKLog(evs)
		}
	}
	return "res " + c.id + " verdict=ok"
}

// ---------------------------------------------------------------- generation

type kGen struct {
	rng          *rand.Rand
	nextV, nextF int
	panicky      []int
}

func (g *kGen) call(kind byte, panics bool) kCall {
	switch kind {
	case 'N', 'E':
		g.nextV++
		return kCall{kind, g.nextV}
	case 'A', 'W':
		g.nextF++
		if panics {
			g.panicky = append(g.panicky, g.nextF)
		}
		return kCall{kind, g.nextF}
	}
	return kCall{kind: kind}
}

func kScriptsString(scripts [][]kCall) string {
	parts := make([]string, len(scripts))
	for i, sc := range scripts {
		if len(sc) == 0 {
			parts[i] = "-"
			continue
		}
		toks := make([]string, len(sc))
		for j, k := range sc {
			toks[j] = k.tok()
		}
		parts[i] = strings.Join(toks, ",")
	}
	return strings.Join(parts, ";")
}

// letters: N E C U A (teardown) P (panicking teardown) Q W
func kFromLetters(words []string) ([][]kCall, []int) {
	g := &kGen{}
	var scripts [][]kCall
	for _, w := range words {
		var sc []kCall
		for _, l := range w {
			switch l {
			case 'P':
				sc = append(sc, g.call('A', true))
			default:
				sc = append(sc, g.call(byte(l), false))
			}
		}
		scripts = append(scripts, sc)
	}
	return scripts, g.panicky
}

func genKernel(tier string, seed int64, only string) []*Case {
	var cases []*Case
	id := 0
	add := func(mode, dest string, scripts [][]kCall, panicky []int, reps int) {
		id++
		kv := []string{"kind", "kernel", "mode", mode, "dest", dest, "panicky", intsString(panicky), "scripts", kScriptsString(scripts)}
		if len(scripts) > 1 {
			kv = append(kv, "reps", strconv.Itoa(reps))
		}
		cases = append(cases, newCase(id, kv...))
	}
	modes := []string{"safe", "unsafe", "eventually"}
	quick := tier != "thorough"
	reps := 10
	if !quick {
		reps = 30
	}

	// 1. corpus: the races the properties are about
	corpus := [][]string{
		{"NNN", "NNN"}, {"NNN", "NNN", "NNN"}, {"NNE", "NNC"}, {"NC", "NE", "NN"}, {"NNN", "U"}, {"NNNN", "UQ", "C"},
		{"AAU", "U", "U"}, {"AP", "PA", "U"}, {"APC", "U", "W"}, {"W", "AC"}, {"WQ", "WQ", "AE"}, {"AN", "AU", "AC", "AE"},
		{"NNU", "NAQ", "NC"}, {"UA", "UA", "UA"}, {"CQN", "EQN", "UQN"}, {"PPU", "W", "NQ"}, {"NNNN", "NNNN", "C", "U"},
	}
	for _, words := range corpus {
		for _, m := range modes {
			sc, p := kFromLetters(words)
			add(m, "obs", sc, p, reps*2)
		}
	}

	// 2. one thread, exhaustive: every script up to length L over {N,E,C,U,A,P,Q,W}; W only once closed
	letters := "NECUAPQW"
	L := 3
	if !quick {
		L = 5
	}
	var rec func(prefix string, closed bool)
	rec = func(prefix string, closed bool) {
		if len(prefix) > 0 {
			for _, m := range modes {
				sc, p := kFromLetters([]string{prefix})
				add(m, "obs", sc, p, 1)
			}
			if len(prefix) <= 3 {
				sc, p := kFromLetters([]string{prefix})
				add("safe", "nil", sc, p, 1)
			}
		}
		if len(prefix) == L {
			return
		}
		for _, l := range letters {
			if l == 'W' && !closed {
				continue
			}
			rec(prefix+string(l), closed || l == 'E' || l == 'C' || l == 'U')
		}
	}
	rec("", false)

	// 3. seeded: longer single-thread scripts, then 2-4 threads
	rng := rand.New(rand.NewSource(seed))
	nSeq, nConc := 600, 2500
	if !quick {
		nSeq, nConc = 5000, 20000
	}
	pick := func(weights string) byte { return weights[rng.Intn(len(weights))] }
	for i := 0; i < nSeq; i++ {
		n := 4 + rng.Intn(7)
		w, closed := "", false
		for j := 0; j < n; j++ {
			l := pick("NNNNECUAAPQQW")
			if l == 'W' && !closed {
				l = 'Q'
			}
			closed = closed || l == 'E' || l == 'C' || l == 'U'
			w += string(l)
		}
		sc, p := kFromLetters([]string{w})
		dest := "obs"
		if rng.Intn(10) == 0 {
			dest = "nil"
		}
		add(modes[rng.Intn(3)], dest, sc, p, 1)
	}
	for i := 0; i < nConc; i++ {
		nt := 2 + rng.Intn(3)
		profile := rng.Intn(4)
		var words []string
		for t := 0; t < nt; t++ {
			n := 1 + rng.Intn(4)
			w := ""
			for j := 0; j < n; j++ {
				switch profile {
				case 0: // producers racing with terminals
					w += string(pick("NNNNNECQ"))
				case 1: // teardown races
					w += string(pick("AAPUUCEWQN"))
				case 2: // cut: producers against unsubscribers
					if t == 0 {
						w += string(pick("UUQA"))
					} else {
						w += string(pick("NNNNQE"))
					}
				default:
					w += string(pick("NNNECUAPQW"))
				}
			}
			words = append(words, w)
		}
		sc, p := kFromLetters(words)
		m := modes[rng.Intn(3)]
		if rng.Intn(3) == 0 {
			m = "safe"
		}
		add(m, "obs", sc, p, reps)
	}
	_ = only
	return cases
}

package main

// kind=subjx (C10 / C06 / C01): subjects subscribed with a ready-made ro.Subscriber instead of a plain observer — what
// every pass-through operator (StartWith, Defer, Catch's fallback, TapOnSubscribe …) hands upstream.
//
//   X<i>   subscribe identity i with a Subscriber that has ALREADY been unsubscribed
//   Y<i>   subscribe identity i with a Subscriber that unsubscribes itself inside its first Next callback (during the
//          replay of a behavior / replay / unicast subject, or on the first live value)
//   the other tokens are those of kind=subject (N v, E e, C, S i, U i)
//
//   case 3 kind=subjx op=replay p=2 src=N1,N2,X0,N3,S1
//   res 3 r0=- r1=N2/7.2,N3/7.4 r2=- drops=N1,N2 st=0ffff,0ffff,0ffff,0ffff,1tfff hang=0
//
// The model side (lean/RoModel/Drivers/Subject.lean runX) reduces both to the sequential model: X i = S i ; U i with
// everything the subscription would have delivered to i handed to the dropped hook instead; Y i = S i ; U i with all but
// the first delivered value dropped. A dead subscriber is never left registered, the subject goes on as if it had
// never come. Every operation runs under a watchdog: `hang=<k>` = the k-th operation (1-based) did not return (the
// unicast subject did that on the pinned tree: repaired in /repo 5f819fc).

import (
	"context"
	"fmt"
	"strconv"
	"strings"
	"sync/atomic"
	"time"

	"github.com/samber/ro"
)

func init() { registerKind("subjx", genSubjX, "subjx", runSubjX) }

func runSubjX(c *Case) string {
	subject, ok := newSubjectOf(c.get("op", "?"), parseInts(c.get("p", "-")))
	if !ok {
		return "res " + c.id + " unsupported"
	}
	drops := &Recorder{}
	setRecorder(drops)
	defer setRecorder(nil)
	cl := newSubjClient(subject, subjectIDs)
	toks := strings.Split(c.get("src", "-"), ",")
	sts := make([]string, 0, len(toks))
	hang := 0
	for k, t := range toks {
		if t == "" || t == "-" {
			continue
		}
		mark := k + 1
		ctx := withMark(withMark(ctxFromMarks(nil), 7), mark)
		var do func()
		switch t[0] {
		case 'X', 'Y':
			i, err := strconv.Atoi(t[1:])
			if err != nil || i >= subjectIDs {
				return "res " + c.id + " bad-script"
			}
			rec := cl.recs[i]
			if t[0] == 'X' {
				do = func() {
					sub := ro.NewSubscriber[int](observer[int](rec))
					sub.Unsubscribe()
					cl.subs[i] = subject.SubscribeWithContext(ctx, sub)
				}
			} else {
				do = func() {
					var self ro.Subscriber[int]
					var first int32
					self = ro.NewSubscriber[int](ro.NewObserverWithContext(
						func(ctx context.Context, v int) {
							rec.add("N" + renderVal(v) + "/" + renderCtx(ctx))
							if atomic.CompareAndSwapInt32(&first, 0, 1) {
								self.Unsubscribe()
							}
						},
						func(ctx context.Context, err error) { rec.add("E" + renderErr(err) + "/" + renderCtx(ctx)) },
						func(ctx context.Context) { rec.add("C/" + renderCtx(ctx)) }))
					cl.subs[i] = subject.SubscribeWithContext(ctx, self)
				}
			}
		default:
			ops, ok := parseSubjOps(t)
			if !ok || len(ops) != 1 {
				return "res " + c.id + " bad-script"
			}
			o := ops[0]
			do = func() { cl.apply(o, mark) }
		}
		done := make(chan struct{})
		go func() { defer close(done); do() }()
		select {
		case <-done:
		case <-time.After(1500 * time.Millisecond):
			hang = mark
		}
		if hang != 0 {
			break
		}
		sts = append(sts, subjectStatus(subject))
	}
	if hang != 0 {
		// the subject's mutex is held for ever: nothing more can be asked of it
		return fmt.Sprintf("res %s hang=%d", c.id, hang)
	}
	return fmt.Sprintf("res %s %s drops=%s st=%s hang=0", c.id, cl.traces(), joinOrDash(drops.drops), joinOrDash(sts))
}

func genSubjX(tier string, seed int64, only string) []*Case {
	var cases []*Case
	id := 0
	pres := []string{"", "N1", "N1,N2", "N1,N2,N3", "N1,C", "N1,E1", "S1,N1", "S1,N1,N2"}
	posts := []string{"N5", "N5,S2", "N5,C", "S2,N5,U2", "N5,N6,S2,C"}
	for _, cfg := range subjConfigs(tier) {
		if only != "" && only != cfg.op {
			continue
		}
		for _, pre := range pres {
			for _, x := range []string{"X0", "Y0"} {
				for _, post := range posts {
					src := x + "," + post
					if pre != "" {
						src = pre + "," + src
					}
					id++
					cases = append(cases, newCase(id, "kind", "subjx", "op", cfg.op, "p", cfg.p, "src", src))
				}
			}
		}
	}
	return cases
}

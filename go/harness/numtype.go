package main

// kind=numtype (C04): the math operators over NARROW element types. The operator machines are stated over unbounded
// integers; Go's Average accumulates in float64, so for int8 … uint32 elements (every value and every partial sum exactly
// representable) the emitted mean is the exact mean of the values - it does not wrap around in the element type.
// Cases are chosen so that the mean is integral: the integer is compared, never a float.
//
//   case 3 kind=numtype op=Average t=int8 vals=100,100,100
//   res 3 out=100

import (
	"fmt"
	"math"
	"strconv"
	"strings"

	"github.com/samber/ro"
)

func init() { registerKind("numtype", genNumType, "numtype", runNumType) }

func avgOf[T int8 | uint8 | int16 | uint16 | int32 | uint32](vals []int) string {
	xs := make([]T, len(vals))
	for i, v := range vals {
		xs[i] = T(v)
	}
	out, err := ro.Collect(ro.Average[T]()(ro.Just(xs...)))
	if err != nil || len(out) != 1 {
		return fmt.Sprintf("?%v/%d", err, len(out))
	}
	if out[0] != math.Trunc(out[0]) || math.IsNaN(out[0]) || math.IsInf(out[0], 0) {
		return "nonintegral:" + strconv.FormatFloat(out[0], 'g', -1, 64)
	}
	return strconv.FormatInt(int64(out[0]), 10)
}

func runNumType(c *Case) string {
	setRecorder(nil)
	vals := parseInts(c.get("vals", "-"))
	if c.get("op", "") != "Average" || len(vals) == 0 {
		return "res " + c.id + " unsupported"
	}
	var out string
	switch c.get("t", "") {
	case "int8":
		out = avgOf[int8](vals)
	case "uint8":
		out = avgOf[uint8](vals)
	case "int16":
		out = avgOf[int16](vals)
	case "uint16":
		out = avgOf[uint16](vals)
	case "int32":
		out = avgOf[int32](vals)
	case "uint32":
		out = avgOf[uint32](vals)
	default:
		return "res " + c.id + " unsupported"
	}
	return "res " + c.id + " out=" + out
}

func genNumType(tier string, seed int64, only string) []*Case {
	lim := map[string][2]int{"int8": {-128, 127}, "uint8": {0, 255}, "int16": {-32768, 32767}, "uint16": {0, 65535},
		"int32": {-2147483648, 2147483647}, "uint32": {0, 4294967295}}
	var out []*Case
	id := 0
	for _, t := range []string{"int8", "uint8", "int16", "uint16", "int32", "uint32"} {
		lo, hi := lim[t][0], lim[t][1]
		lists := [][]int{{hi, hi}, {hi, hi, hi}, {hi, hi - 2}, {hi - 1, hi - 1, hi - 1, hi - 1}, {hi, hi - 4, hi - 2}, {hi / 2, hi / 2, hi/2 + 3, hi/2 - 3, hi / 2}}
		if lo < 0 {
			lists = append(lists, []int{lo, lo}, []int{lo, lo, lo + 3}, []int{lo, hi, lo + 1, hi - 1 + 1})
		}
		for _, l := range lists {
			s := 0
			for _, v := range l {
				s += v
			}
			if s%len(l) != 0 {
				continue
			}
			strs := make([]string, len(l))
			for i, v := range l {
				strs[i] = strconv.Itoa(v)
			}
			id++
			out = append(out, newCase(id, "kind", "numtype", "op", "Average", "t", t, "vals", strings.Join(strs, ",")))
		}
	}
	return out
}

package main

// kind=subjoverlap (C01 (c) / C02 (c) — search and validation): every subject kind fed by several
// producer goroutines while a terminal races with the values, observed by a RAW observer (not
// ro.NewObserver) directly and through the unsafe pass-through operators, which reuse their
// non-locking subscriber — there the subject's own serialisation (broadcast under s.mu; unicast:
// delivery through the safe subscriber it wraps its observer in) is the only one.
// Model side: serialized, grammatical (C02.kernel_callbacks_never_overlap for the subscriber,
// C10.subjects_wellLocked / subscriber_grammar for the subjects).

import (
	"fmt"
	"sync"
	"sync/atomic"

	"github.com/samber/ro"
)

func init() { registerKind("subjoverlap", genSubjOverlap, "subjoverlap", runSubjOverlapCase) }

func mkSubject(kind string) ro.Subject[int] {
	switch kind {
	case "publish":
		return ro.NewPublishSubject[int]()
	case "behavior":
		return ro.NewBehaviorSubject(0)
	case "replay":
		return ro.NewReplaySubject[int](2)
	case "async":
		return ro.NewAsyncSubject[int]()
	case "unicast":
		return ro.NewUnicastSubject[int](4)
	}
	return nil
}

func runSubjOverlapCase(c *Case) string {
	kind, via := c.get("subject", "publish"), c.get("via", "direct")
	rounds := 30
	fmt.Sscanf(c.get("rounds", "30"), "%d", &rounds)
	setRecorder(nil)
	worst, after := int32(0), int32(0)
	for r := 0; r < rounds && after == 0; r++ {
		s := mkSubject(kind)
		if s == nil {
			return "res " + c.id + " unsupported"
		}
		var obs ro.Observable[int] = s
		switch via {
		case "TapOnFinalize":
			obs = ro.TapOnFinalize[int](func() {})(obs)
		case "StartWith":
			obs = ro.StartWith(8)(obs)
		case "TapOnSubscribe":
			obs = ro.TapOnSubscribe[int](func() {})(obs)
		}
		o := &overlapObserver{}
		sub := obs.Subscribe(o)
		var wg sync.WaitGroup
		start := make(chan struct{})
		for p := 0; p < 10; p++ {
			wg.Add(1)
			go func(p int) {
				defer wg.Done()
				<-start
				for i := 0; i < 150; i++ {
					s.Next(p*100 + i)
					// the terminal arrives while the other producers are in full flight, followed by
					// an illegal suffix
					if p == 0 && i == 60 {
						if r%2 == 0 {
							s.Complete()
						} else {
							s.Error(userErr{1})
						}
					}
				}
			}(p)
		}
		close(start)
		wg.Wait()
		sub.Unsubscribe()
		if m := atomic.LoadInt32(&o.maxInside); m > worst {
			worst = m
		}
		after += atomic.LoadInt32(&o.after)
	}
	verdict := "serialized"
	if worst > 1 {
		verdict = "overlap"
	}
	g := "ok"
	if after > 0 {
		g = "after-terminal"
	}
	return fmt.Sprintf("res %s observed=%s grammar=%s maxinside=%d", c.id, verdict, g, worst)
}

func genSubjOverlap(tier string, seed int64, only string) []*Case {
	rounds := "25"
	if tier == "thorough" {
		rounds = "400"
	}
	var cases []*Case
	id := 0
	for _, k := range []string{"publish", "behavior", "replay", "async", "unicast"} {
		for _, via := range []string{"direct", "TapOnFinalize", "StartWith", "TapOnSubscribe"} {
			id++
			cases = append(cases, newCase(id, "kind", "subjoverlap", "subject", k, "via", via, "rounds", rounds))
		}
	}
	return cases
}

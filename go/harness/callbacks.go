package main

// The named callback library. Mirrors lean/RoModel/Driver.lean (unary, unaryI, predU, predI,
// red, redI); a name unknown on either side makes the case `unsupported` there and shows up
// as a disagreement.

import (
	"context"
	"strconv"
	"strings"
)

type Cb struct {
	name string
	tag  int // 0 = none: marker added to the context by ...WithContext variants
}

func parseCb(s string) Cb {
	if i := strings.Index(s, "+t"); i >= 0 {
		m, _ := strconv.Atoi(s[i+2:])
		return Cb{s[:i], m}
	}
	return Cb{s, 0}
}

func (c Cb) String() string {
	if c.tag != 0 {
		return c.name + "+t" + strconv.Itoa(c.tag)
	}
	return c.name
}

var unary = map[string]func(int) int{
	"id":   func(x int) int { return x },
	"dbl":  func(x int) int { return x * 2 },
	"inc":  func(x int) int { return x + 1 },
	"neg":  func(x int) int { return -x },
	"sq":   func(x int) int { return x * x },
	"mod3": func(x int) int { return x % 3 },
	"mod2": func(x int) int { return x % 2 },
	"zero": func(x int) int { return 0 },
}

var unaryI = map[string]func(int, int64) int{
	"addi": func(v int, i int64) int { return v + int(i) },
	"muli": func(v int, i int64) int { return v * int(i) },
	"idx":  func(v int, i int64) int { return int(i) },
}

var predU = map[string]func(int) bool{
	"even": func(x int) bool { return x%2 == 0 },
	"pos":  func(x int) bool { return x > 0 },
	"lt3":  func(x int) bool { return x < 3 },
	"ne2":  func(x int) bool { return x != 2 },
	"eq2":  func(x int) bool { return x == 2 },
	"T":    func(x int) bool { return true },
	"F":    func(x int) bool { return false },
}

var predI = map[string]func(int, int64) bool{
	"ilt2":  func(v int, i int64) bool { return i < 2 },
	"ige1":  func(v int, i int64) bool { return i >= 1 },
	"veqi":  func(v int, i int64) bool { return int64(v) == i },
	"ieven": func(v int, i int64) bool { return i%2 == 0 },
}

var red = map[string]func(int, int) int{
	"add":  func(a, v int) int { return a + v },
	"mad":  func(a, v int) int { return a*2 + v },
	"sub":  func(a, v int) int { return a - v },
	"last": func(a, v int) int { return v },
}

var redI = map[string]func(int, int, int64) int{
	"addvi": func(a, v int, i int64) int { return a + v*int(i) },
	"madi":  func(a, v int, i int64) int { return a*2 + v + int(i) },
}

func tagCtx(ctx context.Context, t int) context.Context {
	if t == 0 || ctx == nil {
		// a nil context (Max on an empty source hands one downstream) is passed on unchanged: a real
		// callback doing context.WithValue(nil, …) would panic; the nil itself is what C09 reports
		return ctx
	}
	return withMark(ctx, t)
}

func hasI(v string) bool   { return v == "i" || v == "ictx" }
func hasCtx(v string) bool { return v == "ctx" || v == "ictx" }

package main

// Typed PipeN / PipeOpN dispatch for n = 1..25 (all stages int -> int). Written out by hand-run script;
// static code: the typed functions need their arity at compile time.

import "github.com/samber/ro"

func pipeTyped(src ro.Observable[int], o []intOp) ro.Observable[int] {
	switch len(o) {
	case 1:
		return ro.Pipe1(src, o[0])
	case 2:
		return ro.Pipe2(src, o[0], o[1])
	case 3:
		return ro.Pipe3(src, o[0], o[1], o[2])
	case 4:
		return ro.Pipe4(src, o[0], o[1], o[2], o[3])
	case 5:
		return ro.Pipe5(src, o[0], o[1], o[2], o[3], o[4])
	case 6:
		return ro.Pipe6(src, o[0], o[1], o[2], o[3], o[4], o[5])
	case 7:
		return ro.Pipe7(src, o[0], o[1], o[2], o[3], o[4], o[5], o[6])
	case 8:
		return ro.Pipe8(src, o[0], o[1], o[2], o[3], o[4], o[5], o[6], o[7])
	case 9:
		return ro.Pipe9(src, o[0], o[1], o[2], o[3], o[4], o[5], o[6], o[7], o[8])
	case 10:
		return ro.Pipe10(src, o[0], o[1], o[2], o[3], o[4], o[5], o[6], o[7], o[8], o[9])
	case 11:
		return ro.Pipe11(src, o[0], o[1], o[2], o[3], o[4], o[5], o[6], o[7], o[8], o[9], o[10])
	case 12:
		return ro.Pipe12(src, o[0], o[1], o[2], o[3], o[4], o[5], o[6], o[7], o[8], o[9], o[10], o[11])
	case 13:
		return ro.Pipe13(src, o[0], o[1], o[2], o[3], o[4], o[5], o[6], o[7], o[8], o[9], o[10], o[11], o[12])
	case 14:
		return ro.Pipe14(src, o[0], o[1], o[2], o[3], o[4], o[5], o[6], o[7], o[8], o[9], o[10], o[11], o[12], o[13])
	case 15:
		return ro.Pipe15(src, o[0], o[1], o[2], o[3], o[4], o[5], o[6], o[7], o[8], o[9], o[10], o[11], o[12], o[13], o[14])
	case 16:
		return ro.Pipe16(src, o[0], o[1], o[2], o[3], o[4], o[5], o[6], o[7], o[8], o[9], o[10], o[11], o[12], o[13], o[14], o[15])
	case 17:
		return ro.Pipe17(src, o[0], o[1], o[2], o[3], o[4], o[5], o[6], o[7], o[8], o[9], o[10], o[11], o[12], o[13], o[14], o[15], o[16])
	case 18:
		return ro.Pipe18(src, o[0], o[1], o[2], o[3], o[4], o[5], o[6], o[7], o[8], o[9], o[10], o[11], o[12], o[13], o[14], o[15], o[16], o[17])
	case 19:
		return ro.Pipe19(src, o[0], o[1], o[2], o[3], o[4], o[5], o[6], o[7], o[8], o[9], o[10], o[11], o[12], o[13], o[14], o[15], o[16], o[17], o[18])
	case 20:
		return ro.Pipe20(src, o[0], o[1], o[2], o[3], o[4], o[5], o[6], o[7], o[8], o[9], o[10], o[11], o[12], o[13], o[14], o[15], o[16], o[17], o[18], o[19])
	case 21:
		return ro.Pipe21(src, o[0], o[1], o[2], o[3], o[4], o[5], o[6], o[7], o[8], o[9], o[10], o[11], o[12], o[13], o[14], o[15], o[16], o[17], o[18], o[19], o[20])
	case 22:
		return ro.Pipe22(src, o[0], o[1], o[2], o[3], o[4], o[5], o[6], o[7], o[8], o[9], o[10], o[11], o[12], o[13], o[14], o[15], o[16], o[17], o[18], o[19], o[20], o[21])
	case 23:
		return ro.Pipe23(src, o[0], o[1], o[2], o[3], o[4], o[5], o[6], o[7], o[8], o[9], o[10], o[11], o[12], o[13], o[14], o[15], o[16], o[17], o[18], o[19], o[20], o[21], o[22])
	case 24:
		return ro.Pipe24(src, o[0], o[1], o[2], o[3], o[4], o[5], o[6], o[7], o[8], o[9], o[10], o[11], o[12], o[13], o[14], o[15], o[16], o[17], o[18], o[19], o[20], o[21], o[22], o[23])
	case 25:
		return ro.Pipe25(src, o[0], o[1], o[2], o[3], o[4], o[5], o[6], o[7], o[8], o[9], o[10], o[11], o[12], o[13], o[14], o[15], o[16], o[17], o[18], o[19], o[20], o[21], o[22], o[23], o[24])
	}
	return nil
}

func pipeOpTyped(o []intOp) intOp {
	switch len(o) {
	case 1:
		return ro.PipeOp1(o[0])
	case 2:
		return ro.PipeOp2(o[0], o[1])
	case 3:
		return ro.PipeOp3(o[0], o[1], o[2])
	case 4:
		return ro.PipeOp4(o[0], o[1], o[2], o[3])
	case 5:
		return ro.PipeOp5(o[0], o[1], o[2], o[3], o[4])
	case 6:
		return ro.PipeOp6(o[0], o[1], o[2], o[3], o[4], o[5])
	case 7:
		return ro.PipeOp7(o[0], o[1], o[2], o[3], o[4], o[5], o[6])
	case 8:
		return ro.PipeOp8(o[0], o[1], o[2], o[3], o[4], o[5], o[6], o[7])
	case 9:
		return ro.PipeOp9(o[0], o[1], o[2], o[3], o[4], o[5], o[6], o[7], o[8])
	case 10:
		return ro.PipeOp10(o[0], o[1], o[2], o[3], o[4], o[5], o[6], o[7], o[8], o[9])
	case 11:
		return ro.PipeOp11(o[0], o[1], o[2], o[3], o[4], o[5], o[6], o[7], o[8], o[9], o[10])
	case 12:
		return ro.PipeOp12(o[0], o[1], o[2], o[3], o[4], o[5], o[6], o[7], o[8], o[9], o[10], o[11])
	case 13:
		return ro.PipeOp13(o[0], o[1], o[2], o[3], o[4], o[5], o[6], o[7], o[8], o[9], o[10], o[11], o[12])
	case 14:
		return ro.PipeOp14(o[0], o[1], o[2], o[3], o[4], o[5], o[6], o[7], o[8], o[9], o[10], o[11], o[12], o[13])
	case 15:
		return ro.PipeOp15(o[0], o[1], o[2], o[3], o[4], o[5], o[6], o[7], o[8], o[9], o[10], o[11], o[12], o[13], o[14])
	case 16:
		return ro.PipeOp16(o[0], o[1], o[2], o[3], o[4], o[5], o[6], o[7], o[8], o[9], o[10], o[11], o[12], o[13], o[14], o[15])
	case 17:
		return ro.PipeOp17(o[0], o[1], o[2], o[3], o[4], o[5], o[6], o[7], o[8], o[9], o[10], o[11], o[12], o[13], o[14], o[15], o[16])
	case 18:
		return ro.PipeOp18(o[0], o[1], o[2], o[3], o[4], o[5], o[6], o[7], o[8], o[9], o[10], o[11], o[12], o[13], o[14], o[15], o[16], o[17])
	case 19:
		return ro.PipeOp19(o[0], o[1], o[2], o[3], o[4], o[5], o[6], o[7], o[8], o[9], o[10], o[11], o[12], o[13], o[14], o[15], o[16], o[17], o[18])
	case 20:
		return ro.PipeOp20(o[0], o[1], o[2], o[3], o[4], o[5], o[6], o[7], o[8], o[9], o[10], o[11], o[12], o[13], o[14], o[15], o[16], o[17], o[18], o[19])
	case 21:
		return ro.PipeOp21(o[0], o[1], o[2], o[3], o[4], o[5], o[6], o[7], o[8], o[9], o[10], o[11], o[12], o[13], o[14], o[15], o[16], o[17], o[18], o[19], o[20])
	case 22:
		return ro.PipeOp22(o[0], o[1], o[2], o[3], o[4], o[5], o[6], o[7], o[8], o[9], o[10], o[11], o[12], o[13], o[14], o[15], o[16], o[17], o[18], o[19], o[20], o[21])
	case 23:
		return ro.PipeOp23(o[0], o[1], o[2], o[3], o[4], o[5], o[6], o[7], o[8], o[9], o[10], o[11], o[12], o[13], o[14], o[15], o[16], o[17], o[18], o[19], o[20], o[21], o[22])
	case 24:
		return ro.PipeOp24(o[0], o[1], o[2], o[3], o[4], o[5], o[6], o[7], o[8], o[9], o[10], o[11], o[12], o[13], o[14], o[15], o[16], o[17], o[18], o[19], o[20], o[21], o[22], o[23])
	case 25:
		return ro.PipeOp25(o[0], o[1], o[2], o[3], o[4], o[5], o[6], o[7], o[8], o[9], o[10], o[11], o[12], o[13], o[14], o[15], o[16], o[17], o[18], o[19], o[20], o[21], o[22], o[23], o[24])
	}
	return nil
}

package main

// kind=plugin (property C18): one data-plugin operator over a stream of items, run NEXT TO the
// library function it wraps, called directly on private copies of the same items.
//
//   case <id> kind=plugin op=<plugin>.<Op> p=<params> in=<items> end=C|E<n> [cap=<spare>] [fin=…]
//   res  <id> out=<trace> same=<1|0[:why]> mut=<0|1> late=<0|1> flav=<1|0|-> rel=<1|0> gram=<1|0> [extra…]
//
//   out   delivered trace in the model's vocabulary (N<value>/<ctx>, E<err>/<ctx>, C/<ctx>), clipped
//         to `#<len>.<fnv64>` beyond 256 characters; the Lean driver prints the same field for the
//         operators whose wrapped function is modelled (base64, Atoi/Itoa/ParseInt/FormatInt base 10,
//         ParseBool/FormatBool, Ellipsis, Sort*, NewIOReader) and `out=~` otherwise
//   same  oracle on the implementation: operator output == wrapped function applied item by item
//         (deep comparison incl. nil-ness, error text and type, context of each notification),
//         ending at the first error
//   mut   an input item (or any byte of its backing array, spare capacity included) changed
//   late  a delivered value changed after it was delivered (deep snapshot at delivery vs end of run)
//   flav  string and byte flavour of the same text helper agree on this text
//   rel   the source was subscribed once and released; gram: values* terminal? and nothing after

import (
	"context"
	"encoding/hex"
	"fmt"
	"math"
	"reflect"
	"sort"
	"strconv"
	"strings"
	"time"

	"github.com/samber/ro"
)

// ---------- item expressions ----------

func parseTerm(s string) ([]byte, error) {
	if i := strings.IndexByte(s, '*'); i >= 0 {
		b, err := hex.DecodeString(s[:i])
		if err != nil {
			return nil, err
		}
		k, err := strconv.Atoi(s[i+1:])
		if err != nil {
			return nil, err
		}
		out := make([]byte, 0, len(b)*k)
		for j := 0; j < k; j++ {
			out = append(out, b...)
		}
		return out, nil
	}
	return hex.DecodeString(s)
}

func parseItem(s string) ([]byte, error) {
	if s == "e" {
		return []byte{}, nil
	}
	var out []byte
	for _, t := range strings.Split(s, "+") {
		b, err := parseTerm(t)
		if err != nil {
			return nil, err
		}
		out = append(out, b...)
	}
	if out == nil {
		out = []byte{}
	}
	return out, nil
}

func parseItems(s string) ([][]byte, error) {
	if s == "-" || s == "" {
		return nil, nil
	}
	var out [][]byte
	for _, it := range strings.Split(s, ",") {
		b, err := parseItem(it)
		if err != nil {
			return nil, err
		}
		out = append(out, b)
	}
	return out, nil
}

func itemExpr(b []byte) string {
	if len(b) == 0 {
		return "e"
	}
	return hex.EncodeToString(b)
}

func itemsExpr(items [][]byte) string {
	if len(items) == 0 {
		return "-"
	}
	parts := make([]string, len(items))
	for i, b := range items {
		parts[i] = itemExpr(b)
	}
	return strings.Join(parts, ",")
}

// ---------- clipping ----------

func fnv64(s string) uint64 {
	h := uint64(14695981039346656037)
	for i := 0; i < len(s); i++ {
		h ^= uint64(s[i])
		h *= 1099511628211
	}
	return h
}

func clip(s string) string {
	if len(s) > 256 {
		return fmt.Sprintf("#%d.%016x", len(s), fnv64(s))
	}
	return s
}

// ---------- deep canonical form (oracle side) ----------

func canonAny(v any) string {
	if v == nil {
		return "nil"
	}
	return canonValue(reflect.ValueOf(v))
}

var timeType = reflect.TypeOf(time.Time{})

func canonValue(rv reflect.Value) string {
	if !rv.IsValid() {
		return "nil"
	}
	if rv.Type() == timeType && rv.CanInterface() {
		t := rv.Interface().(time.Time)
		name, off := t.Zone()
		return fmt.Sprintf("time(%d.%09d;%s;%d;%s)", t.Unix(), t.Nanosecond(), name, off, t.Location().String())
	}
	switch rv.Kind() {
	case reflect.Bool:
		if rv.Bool() {
			return "t"
		}
		return "f"
	case reflect.Int, reflect.Int8, reflect.Int16, reflect.Int32, reflect.Int64:
		return strconv.FormatInt(rv.Int(), 10)
	case reflect.Uint, reflect.Uint8, reflect.Uint16, reflect.Uint32, reflect.Uint64, reflect.Uintptr:
		return strconv.FormatUint(rv.Uint(), 10) + "u"
	case reflect.Float32, reflect.Float64:
		return fmt.Sprintf("fl%016x", math.Float64bits(rv.Float()))
	case reflect.Complex64, reflect.Complex128:
		c := rv.Complex()
		return fmt.Sprintf("cx%016x.%016x", math.Float64bits(real(c)), math.Float64bits(imag(c)))
	case reflect.String:
		return "s" + hex.EncodeToString([]byte(rv.String()))
	case reflect.Slice:
		if rv.IsNil() {
			return "nil[]"
		}
		if rv.Type().Elem().Kind() == reflect.Uint8 {
			return "x" + hex.EncodeToString(rv.Bytes())
		}
		fallthrough
	case reflect.Array:
		parts := make([]string, rv.Len())
		for i := range parts {
			parts[i] = canonValue(rv.Index(i))
		}
		return "[" + strings.Join(parts, ";") + "]"
	case reflect.Map:
		if rv.IsNil() {
			return "nil{}"
		}
		parts := make([]string, 0, rv.Len())
		it := rv.MapRange()
		for it.Next() {
			parts = append(parts, canonValue(it.Key())+":"+canonValue(it.Value()))
		}
		sort.Strings(parts)
		return "{" + strings.Join(parts, ";") + "}"
	case reflect.Struct:
		parts := make([]string, rv.NumField())
		for i := range parts {
			parts[i] = canonValue(rv.Field(i))
		}
		return "(" + strings.Join(parts, ":") + ")"
	case reflect.Ptr:
		if rv.IsNil() {
			return "nil*"
		}
		return "&" + canonValue(rv.Elem())
	case reflect.Interface:
		if rv.IsNil() {
			return "nil"
		}
		return canonValue(rv.Elem())
	}
	return "?" + rv.Type().String()
}

// ---------- model-side renderings (mirrored in lean/RoModel/Drivers/Plugin.lean) ----------

func mBytes(b []byte) string  { return "x" + hex.EncodeToString(b) }
func mString(s string) string { return "x" + hex.EncodeToString([]byte(s)) }
func mInt(i int) string       { return strconv.Itoa(i) }
func mInt64(i int64) string   { return strconv.FormatInt(i, 10) }
func mBool(b bool) string {
	if b {
		return "t"
	}
	return "f"
}

// ---------- source, recorder ----------

type pNotif struct {
	kind  byte // N E C
	val   any
	canon string // deep canonical form at delivery
	model string // model rendering at delivery
	err   error
	ctx   string
}

const pSubMark = 7
const pEndMark = 90

// pSource emits items[i] with context mark i+1, then the terminal with mark 90.
func pSource[A any](items []A, end string, subs, tears *int) ro.Observable[A] {
	return ro.NewUnsafeObservableWithContext(func(ctx context.Context, dest ro.Observer[A]) ro.Teardown {
		*subs++
		for i, it := range items {
			dest.NextWithContext(withMark(ctx, i+1), it)
		}
		switch {
		case end == "C":
			dest.CompleteWithContext(withMark(ctx, pEndMark))
		case strings.HasPrefix(end, "E"):
			n, _ := strconv.Atoi(end[1:])
			dest.ErrorWithContext(withMark(ctx, pEndMark), userErr{n})
		}
		return func() { *tears++ }
	})
}

func pObserve[B any](obs ro.Observable[B], model func(B) string) (rec []pNotif) {
	sub := obs.SubscribeWithContext(ctxFromMarks([]int{pSubMark}), ro.NewObserverWithContext(
		func(ctx context.Context, v B) {
			m := ""
			if model != nil {
				m = model(v)
			}
			rec = append(rec, pNotif{kind: 'N', val: v, canon: canonAny(v), model: m, ctx: renderCtx(ctx)})
		},
		func(ctx context.Context, err error) {
			rec = append(rec, pNotif{kind: 'E', err: err, ctx: renderCtx(ctx)})
		},
		func(ctx context.Context) {
			rec = append(rec, pNotif{kind: 'C', ctx: renderCtx(ctx)})
		},
	))
	sub.Unsubscribe()
	return rec
}

func modelErr(err error) string {
	if u, ok := err.(userErr); ok {
		return "u" + strconv.Itoa(u.n)
	}
	return classifyErr(err)
}

func renderRec(rec []pNotif, modelled bool) string {
	if len(rec) == 0 {
		return "-"
	}
	parts := make([]string, len(rec))
	for i, n := range rec {
		switch n.kind {
		case 'N':
			v := n.model
			if !modelled {
				v = n.canon
			}
			parts[i] = "N" + v + "/" + n.ctx
		case 'E':
			parts[i] = "E" + modelErr(n.err) + "/" + n.ctx
		default:
			parts[i] = "C/" + n.ctx
		}
	}
	return strings.Join(parts, ",")
}

func recGrammar(rec []pNotif) bool {
	for i, n := range rec {
		if n.kind != 'N' && i != len(rec)-1 {
			return false
		}
	}
	return true
}

func errSame(a, b error) bool {
	if a == nil || b == nil {
		return a == nil && b == nil
	}
	return a.Error() == b.Error() && reflect.TypeOf(a) == reflect.TypeOf(b)
}

// ---------- result ----------

type pRes struct {
	out   string
	same  string
	mut   bool
	late  bool
	flav  string
	rel   bool
	gram  bool
	extra []string
}

func b01(b bool) string {
	if b {
		return "1"
	}
	return "0"
}

func (r pRes) line(id string) string {
	s := "res " + id + " out=" + clip(r.out) + " same=" + r.same + " mut=" + b01(r.mut) + " late=" + b01(r.late) +
		" flav=" + r.flav + " rel=" + b01(r.rel) + " gram=" + b01(r.gram)
	for _, e := range r.extra {
		s += " " + e
	}
	return s
}

func lateChanged(rec []pNotif) bool {
	for _, n := range rec {
		if n.kind == 'N' && canonAny(n.val) != n.canon {
			return true
		}
	}
	return false
}

// expected notifications of a lift, from the wrapped function called directly
type pExp struct {
	kind  byte
	canon string
	err   error
	ctx   string
}

func compareExp(rec []pNotif, exp []pExp) string {
	if len(rec) != len(exp) {
		return fmt.Sprintf("0:len(%d/%d)", len(rec), len(exp))
	}
	for i := range rec {
		r, e := rec[i], exp[i]
		if r.kind != e.kind {
			return fmt.Sprintf("0:kind@%d(%c/%c)", i, r.kind, e.kind)
		}
		if r.kind == 'N' && r.canon != e.canon {
			return fmt.Sprintf("0:value@%d", i)
		}
		if r.kind == 'E' && !errSame(r.err, e.err) {
			return fmt.Sprintf("0:error@%d", i)
		}
		if r.ctx != e.ctx {
			return fmt.Sprintf("0:ctx@%d(%s/%s)", i, r.ctx, e.ctx)
		}
	}
	return "1"
}

func itemCtx(i int) string { return strconv.Itoa(pSubMark) + "." + strconv.Itoa(i+1) }
func endCtx() string       { return strconv.Itoa(pSubMark) + "." + strconv.Itoa(pEndMark) }

func endExp(end string) []pExp {
	switch {
	case end == "C":
		return []pExp{{kind: 'C', ctx: endCtx()}}
	case strings.HasPrefix(end, "E"):
		n, _ := strconv.Atoi(end[1:])
		return []pExp{{kind: 'E', err: userErr{n}, ctx: endCtx()}}
	}
	return nil
}

type liftSpec[A, B any] struct {
	items  []A           // handed to the operator
	ref    []A           // private copies handed to the wrapped function
	snap   func() string // canonical form of every input incl. backing arrays
	op     func(ro.Observable[A]) ro.Observable[B]
	direct func(A) (B, error, bool) // value, error, keep (Filter: keep=false drops the item)
	model  func(B) string           // nil: not modelled in Lean
}

func runLift[A, B any](c *Case, ls liftSpec[A, B]) pRes {
	end := c.get("end", "C")
	before := ""
	if ls.snap != nil {
		before = ls.snap()
	} else {
		before = canonAny(ls.items)
	}
	subs, tears := 0, 0
	rec := pObserve(ls.op(pSource(ls.items, end, &subs, &tears)), ls.model)
	var exp []pExp
	failed := false
	for i, it := range ls.ref {
		v, err, keep := ls.direct(it)
		if err != nil {
			exp = append(exp, pExp{kind: 'E', err: err, ctx: itemCtx(i)})
			failed = true
			break
		}
		if keep {
			exp = append(exp, pExp{kind: 'N', canon: canonAny(v), ctx: itemCtx(i)})
		}
	}
	if !failed {
		exp = append(exp, endExp(end)...)
	}
	after := ""
	if ls.snap != nil {
		after = ls.snap()
	} else {
		after = canonAny(ls.items)
	}
	return pRes{
		out:  renderRec(rec, ls.model != nil),
		same: compareExp(rec, exp),
		mut:  before != after,
		late: lateChanged(rec),
		flav: "-",
		rel:  subs == 1 && tears == 1,
		gram: recGrammar(rec),
	}
}

// ---------- byte slices with a known backing array ----------

type backed struct {
	arr []byte // the whole array: `pre` sentinel bytes, the data, `extra` spare bytes
	s   []byte // arr[pre : pre+len : pre+len+extra]
}

func mkBacked(data []byte, pre, extra int) backed {
	arr := make([]byte, pre+len(data)+extra)
	for i := range arr {
		arr[i] = 0xEE
	}
	copy(arr[pre:], data)
	return backed{arr: arr, s: arr[pre : pre+len(data) : pre+len(data)+extra]}
}

func cloneBytes(b []byte) []byte {
	if b == nil {
		return nil
	}
	out := make([]byte, len(b))
	copy(out, b)
	return out
}

func snapBacked(bs []backed) func() string {
	return func() string {
		var sb strings.Builder
		for _, b := range bs {
			sb.WriteString(hex.EncodeToString(b.arr))
			sb.WriteByte('|')
		}
		return strconv.FormatUint(fnv64(sb.String()), 16) + "." + strconv.Itoa(sb.Len())
	}
}

// ---------- registration ----------

type pluginHandler func(c *Case) pRes

var pluginOps = map[string]pluginHandler{}

func runPluginCase(c *Case) (res string) {
	defer func() {
		if r := recover(); r != nil {
			res = "res " + c.id + " panic=" + strings.ReplaceAll(fmt.Sprint(r), " ", "_")
		}
	}()
	h, ok := pluginOps[c.get("op", "?")]
	if !ok {
		return "res " + c.id + " unsupported"
	}
	return h(c).line(c.id)
}

func init() { registerKind("plugin", genPluginCases, "plugin", runPluginCase) }

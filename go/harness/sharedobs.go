package main

// kind=sharedobs (C01): ONE observer (ro.NewObserverWithContext) attached through Subscribe to TWO hot sources, directly or
// behind an operator chain; the events of both sources in arrival order. The observer receives values, then at most one terminal
// (whichever source ends first), then nothing: what the other source sends afterwards is refused and reported as dropped.
// Model: RoModel/ObsShared.lean (theorems shared_observer_grammar, shared_observer_partition); compared with equality.
//
//   case 2 kind=sharedobs via=plain sub=7 ev=a:N1@1,b:N2@2,a:C@3,b:N3@4
//   res 2 trace=N1/7.1,N2/7.2,C/7.3 drops=N3

import (
	"fmt"
	"math/rand"
	"strings"

	"github.com/samber/ro"
)

func init() { registerKind("sharedobs", genSharedObs, "sharedobs", runSharedObs) }

func genSharedObs(tier string, seed int64, only string) []*Case {
	r := rand.New(rand.NewSource(seed*13 + 1))
	toks := []string{"N1", "N2", "C", "E1"}
	var out []*Case
	id := 0
	n := 60
	if tier == "thorough" {
		n = 600
	}
	fixed := []string{"a:N1@1,b:N2@2,a:C@3,b:N3@4,b:C@5", "a:C@1,b:N1@2", "a:E1@1,b:N1@2,b:E2@3", "a:N1@1,a:C@2,a:N2@3,b:N3@4", "b:N1@1,a:N2@2,b:E1@3,a:N3@4,a:C@5"}
	for _, via := range []string{"plain", "map", "mapboth", "unsafesub", "unsafesubmap"} {
		if only != "" && only != via {
			continue
		}
		for _, ev := range fixed {
			id++
			out = append(out, newCase(id, "kind", "sharedobs", "via", via, "sub", "7", "ev", ev))
		}
		for i := 0; i < n; i++ {
			var evs []string
			for k := 1 + r.Intn(7); k > 0; k-- {
				evs = append(evs, fmt.Sprintf("%s:%s@%d", []string{"a", "b"}[r.Intn(2)], toks[r.Intn(len(toks))], len(evs)+1))
			}
			id++
			out = append(out, newCase(id, "kind", "sharedobs", "via", via, "sub", "7", "ev", strings.Join(evs, ",")))
		}
	}
	return out
}

func runSharedObs(c *Case) string {
	rec := &Recorder{}
	setRecorder(rec)
	defer setRecorder(nil)
	obs := observer[int](rec)
	pa, pb := &Probe{}, &Probe{}
	var oa, ob ro.Observable[int] = pa.Observable(), pb.Observable()
	id := ro.Map(func(v int) int { return v })
	switch c.get("via", "plain") {
	case "unsafesub", "unsafesubmap":
		// a hand-written observer (no status word of its own) wrapped ONCE by the caller in an unsafe Subscriber, and that
		// subscriber attached to two sources built with the safe constructor: `newSubscriberImpl` reuses a destination that
		// already is a Subscriber, so its single status word is the gate for both attachments
		obs = ro.NewUnsafeSubscriber[int](&recObserver{rec: rec})
		oa, ob = ro.Serialize[int]()(oa), ro.Serialize[int]()(ob)
		if c.get("via", "") == "unsafesubmap" {
			oa = ro.Serialize[int]()(id(oa))
		}
	case "map":
		oa = id(oa)
	case "mapboth":
		oa, ob = id(oa), ro.Filter(func(int) bool { return true })(ob)
	}
	subCtx := ctxFromMarks(parseInts(strings.ReplaceAll(c.get("sub", "-"), ".", ",")))
	oa.SubscribeWithContext(subCtx, obs)
	ob.SubscribeWithContext(subCtx, obs)
	for _, t := range strings.Split(c.get("ev", "-"), ",") {
		kv := strings.SplitN(t, ":", 2)
		if len(kv) != 2 {
			continue
		}
		sc, err := parseScript(kv[1])
		if err != nil || len(sc) != 1 {
			return "res " + c.id + " bad-script"
		}
		p := pa
		if kv[0] == "b" {
			p = pb
		}
		p.script = sc
		p.push(0)
	}
	rec.mu.Lock()
	defer rec.mu.Unlock()
	return fmt.Sprintf("res %s trace=%s drops=%s", c.id, joinOrDash(rec.trace), joinOrDash(rec.drops))
}

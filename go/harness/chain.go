package main

// kind=chain: random chains of int→int catalogue operators over one probe source (C04: a chain is
// the composition of its parts; C14: an early terminator anywhere in the chain releases the source;
// C01 for chains). kind=reuse: one pipeline subscribed several times, and one operator value
// applied to two sources (C12).

import (
	"fmt"
	"math/rand"
	"os"
	"strconv"
	"strings"
	"sync"

	"github.com/samber/ro"
)

func init() {
	registerKind("chains", genChains, "chain", runChainCase)
	registerKind("reuse", genReuse, "reuse", runReuseCase)
}

type stage struct {
	name, variant, cb string
	p                 []int
}

func (s stage) String() string {
	ps := "-"
	if len(s.p) > 0 {
		parts := make([]string, len(s.p))
		for i, v := range s.p {
			parts[i] = strconv.Itoa(v)
		}
		ps = strings.Join(parts, ".")
	}
	return s.name + "/" + s.variant + "/" + s.cb + "/" + ps
}

func parseStage(t string) (stage, error) {
	f := strings.Split(t, "/")
	if len(f) != 4 {
		return stage{}, fmt.Errorf("bad stage %q", t)
	}
	st := stage{name: f[0], variant: f[1], cb: f[2]}
	if f[3] != "-" {
		for _, x := range strings.Split(f[3], ".") {
			v, err := strconv.Atoi(x)
			if err != nil {
				return stage{}, err
			}
			st.p = append(st.p, v)
		}
	}
	return st, nil
}

func stageCbs(st stage) []Cb {
	if st.cb == "-" || st.cb == "" {
		return nil
	}
	return []Cb{parseCb(st.cb)}
}

func buildChain(stages []stage, src ro.Observable[int]) (ro.Observable[int], error) {
	cur := src
	for _, st := range stages {
		spec := findOp(st.name)
		if spec == nil || !spec.chain {
			return nil, fmt.Errorf("not chainable: %s", st.name)
		}
		ap, err := spec.mk(st.p, st.variant, stageCbs(st))
		if err != nil {
			return nil, err
		}
		o, ok := ap(cur).obs.(ro.Observable[int])
		if !ok {
			return nil, fmt.Errorf("not int->int: %s", st.name)
		}
		cur = o
	}
	return cur, nil
}

func runChainCase(c *Case) string {
	var stages []stage
	for _, t := range strings.Split(c.get("ops", ""), "|") {
		st, err := parseStage(t)
		if err != nil {
			return "res " + c.id + " bad-stage"
		}
		stages = append(stages, st)
	}
	script, err := parseScript(c.get("src", "-"))
	if err != nil {
		return "res " + c.id + " bad-script"
	}
	mode := c.get("mode", "sync")
	cut := -1
	if s := c.get("cut", "-"); s != "-" {
		cut, _ = strconv.Atoi(s)
	}
	subCtx := ctxFromMarks(parseInts(strings.ReplaceAll(c.get("sub", "-"), ".", ",")))
	rec := &Recorder{}
	setRecorder(rec)
	defer setRecorder(nil)
	probe := &Probe{script: script, sync: mode == "sync"}
	obs, err := buildChain(stages, probe.Observable())
	if err != nil {
		return "res " + c.id + " unsupported"
	}
	sub := obs.SubscribeWithContext(subCtx, observer[int](rec))
	if mode != "sync" {
		for i := range script {
			if i == cut {
				sub.Unsubscribe()
			}
			probe.push(i)
		}
		if cut >= len(script) {
			sub.Unsubscribe()
		}
	}
	closed := 0
	if sub.IsClosed() {
		closed = 1
	}
	return fmt.Sprintf("res %s trace=%s subs=%d rel=%d closed=%d", c.id, joinOrDash(rec.trace), probe.subs, probe.teardowns, closed)
}

// chainable operator configurations
func randomStage(r *rand.Rand) stage {
	for {
		spec := opSpecs[r.Intn(len(opSpecs))]
		if !spec.chain {
			continue
		}
		variant := spec.variants[r.Intn(len(spec.variants))]
		cb := "-"
		if spec.cbKind != "" {
			l := cbChoices(spec.cbKind, variant)
			cb = l[r.Intn(len(l))]
			if hasCtx(variant) && spec.cbKind != "boolpred" {
				cb += "+t" + strconv.Itoa(50+r.Intn(9))
			}
		}
		p := spec.params[r.Intn(len(spec.params))]
		if (spec.name == "Take" || spec.name == "TakeLast") && len(p) == 1 && p[0] == 0 {
			continue // Empty(): the rest of the chain is never subscribed; covered by kind=op
		}
		return stage{spec.name, variant, cb, p}
	}
}

func genChains(tier string, seed int64, only string) []*Case {
	r := rand.New(rand.NewSource(seed*7919 + 11))
	n := 6000
	if tier == "thorough" {
		n = 60000
	}
	var cases []*Case
	for id := 1; id <= n; id++ {
		k := 2 + r.Intn(4)
		stages := make([]string, k)
		for i := range stages {
			stages[i] = randomStage(r).String()
		}
		vals := randomList(r, r.Intn(7))
		scripts := scriptsFor(vals, true)
		script := scripts[r.Intn(len(scripts))]
		mode := "sync"
		cut := "-"
		if r.Intn(2) == 0 {
			mode = "hot"
			if r.Intn(3) == 0 {
				cut = strconv.Itoa(r.Intn(len(script) + 1))
			}
		}
		cases = append(cases, newCase(id, "kind", "chain", "ops", strings.Join(stages, "|"), "mode", mode, "cut", cut, "sub", "7", "src", scriptString(script)))
	}
	return cases
}

// ---------- reuse (C12) ----------

func runReuseCase(c *Case) string {
	spec := findOp(c.get("op", "?"))
	if spec == nil {
		return "res " + c.id + " unsupported"
	}
	script, err := parseScript(c.get("src", "-"))
	if err != nil {
		return "res " + c.id + " bad-script"
	}
	script2, err := parseScript(c.get("src2", "-"))
	if err != nil {
		return "res " + c.id + " bad-script"
	}
	var cbs []Cb
	if s := c.get("cb", "-"); s != "-" && s != "" {
		for _, t := range strings.Split(s, ",") {
			cbs = append(cbs, parseCb(t))
		}
	}
	subCtx := ctxFromMarks([]int{7})
	ap, err := spec.mk(parseInts(c.get("p", "-")), c.get("var", "plain"), cbs)
	if err != nil {
		return "res " + c.id + " unsupported"
	}
	setRecorder(nil)
	// one operator VALUE applied to two cold sources before either result is subscribed
	p1 := &Probe{script: script, sync: true}
	p2 := &Probe{script: script2, sync: true}
	a1 := ap(p1.Observable())
	a2 := ap(p2.Observable())
	built := p1.subs + p2.subs // laziness: nothing subscribed at construction
	run := func(a applied) string {
		rec := &Recorder{}
		a.sub(subCtx, rec)
		return joinOrDash(rec.trace)
	}
	// second pipeline first, then the first one three times, then concurrently
	b1 := run(a2)
	t1 := run(a1)
	t2 := run(a1)
	before3 := p1.subs
	t3 := run(a1)
	perRun := p1.subs - before3
	var wg sync.WaitGroup
	conc := make([]string, 4)
	if os.Getenv("VERIF_REUSE_SEQ") == "1" {
		// the concurrent subscriptions of an operator whose state became shared can end in a fatal runtime error
		// (concurrent map writes) that kills the harness: the check then repeats the run without them, for the
		// sequential part of the result
		conc = nil
		p1.subs += 4 * perRun // the four skipped subscriptions are counted as made (the model's subs1 includes them)
	}
	for i := range conc {
		wg.Add(1)
		go func(i int) {
			defer wg.Done()
			conc[i] = run(a1)
		}(i)
	}
	wg.Wait()
	concOK := 1
	for _, t := range conc {
		if t != t1 {
			concOK = 0
		}
	}
	// the same pipeline once more, its source now playing the OTHER script: a recipe carries nothing over from its
	// earlier subscriptions, so this run is what the second pipeline (same operator value, fresh source) delivered
	p1.mu.Lock()
	p1.script = script2
	p1.mu.Unlock()
	t4 := run(a1)
	return fmt.Sprintf("res %s built=%d b1=%s t1=%s t2=%s t3=%s conc=%d t4=%s subs1=%d subs2=%d", c.id, built, b1, t1, t2, t3, concOK, t4, p1.subs, p2.subs)
}

func genReuse(tier string, seed int64, only string) []*Case {
	r := rand.New(rand.NewSource(seed*104729 + 3))
	var lists [][]int
	lists = append(lists, []int{}, []int{2}, []int{-1, 0}, []int{3, 2, 3})
	extra := 3
	if tier == "thorough" {
		extra = 25
	}
	for i := 0; i < extra; i++ {
		lists = append(lists, randomList(r, 2+r.Intn(6)))
	}
	var cases []*Case
	id := 0
	for _, spec := range opSpecs {
		if only != "" && spec.name != only {
			continue
		}
		for _, variant := range spec.variants {
			cbList := cbChoices(spec.cbKind, variant)
			if spec.cbKind == "" {
				cbList = []string{"-"}
			}
			for _, cb := range cbList {
				for _, p := range spec.params {
					for _, vals := range lists {
						sc := scriptsFor(vals, false)
						script := sc[1+r.Intn(2)] // completes or errors
						other := scriptsFor(randomList(r, 1+r.Intn(4)), false)[1]
						id++
						cases = append(cases, newCase(id, "kind", "reuse", "op", spec.name, "p", intsString(p), "var", variant, "cb", cb,
							"src", scriptString(script), "src2", scriptString(other)))
					}
				}
			}
		}
	}
	return cases
}

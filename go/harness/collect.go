package main

// kind=collect (C06): ro.CollectWithContext over every catalogue operator / random chains, with
// the scripted probe below — synchronous (the whole script is played inside Subscribe) or
// goroutine-driven (the script is played by a goroutine the probe starts, concurrently with the
// return of Subscribe). Compared with lean/RoModel/CutIn.lean `collect`: the returned values, error
// class and terminal context when the delivered trace has a terminal (and Collect must then return
// within the deadline); when it has none, Collect must NOT have returned a short while after the
// source has played its whole script (then the harness completes the source to let the call go).

import (
	"context"
	"fmt"
	"math/rand"
	"runtime"
	"strconv"
	"strings"
	"sync"
	"sync/atomic"
	"time"

	"github.com/samber/ro"
)

func init() { registerKind("collect", genCollect, "collect", runCollectCase) }

// collectProbe plays its script inside Subscribe (sync) or from a goroutine (async)
type collectProbe struct {
	mu     sync.Mutex
	script []Tok
	async  bool
	dest   ro.Observer[int]
	subCtx context.Context
	played chan struct{} // closed when the whole script has been emitted
	gate   chan struct{} // async: when non-nil, the player waits for it
	once   sync.Once
	subs   int
	tdowns int
}

func (p *collectProbe) Observable() ro.Observable[int] {
	return ro.NewUnsafeObservableWithContext(func(ctx context.Context, dest ro.Observer[int]) ro.Teardown {
		p.mu.Lock()
		p.subs++
		p.dest, p.subCtx = dest, ctx
		p.mu.Unlock()
		play := func() {
			if p.gate != nil {
				<-p.gate
			}
			for _, t := range p.script {
				emit(dest, ctx, t)
			}
			p.once.Do(func() { close(p.played) })
		}
		if p.async {
			go play()
		} else {
			play()
		}
		return func() {
			p.mu.Lock()
			p.tdowns++
			p.mu.Unlock()
		}
	})
}

func doCollect[T any](o ro.Observable[T], ctx context.Context) string {
	vals, lctx, err := ro.CollectWithContext(ctx, o)
	e := "nil"
	if err != nil {
		e = renderErr(err)
	}
	return fmt.Sprintf("ret=1 vals=%s err=%s lctx=%s", renderVal(vals), e, renderCtx(lctx))
}

func collectAny(a any, ctx context.Context) (string, bool) {
	switch o := a.(type) {
	case ro.Observable[int]:
		return doCollect(o, ctx), true
	case ro.Observable[[]int]:
		return doCollect(o, ctx), true
	case ro.Observable[bool]:
		return doCollect(o, ctx), true
	case ro.Observable[int64]:
		return doCollect(o, ctx), true
	case ro.Observable[map[int]int]:
		return doCollect(o, ctx), true
	case ro.Observable[ro.Notification[int]]:
		return doCollect(o, ctx), true
	}
	return "", false
}

const collectGrace = 300 * time.Microsecond

func runCollectCase(c *Case) string {
	return quickGuard(func() string { return runCollectCase1(c) }, "res "+c.id+" harness-timeout")
}

func runCollectCase1(c *Case) string {
	if c.get("mode", "sync") == "wait" {
		return runWaitCase(c)
	}
	if c.get("mode", "sync") == "race" {
		return runCollectRace(c)
	}
	script, err := parseScript(c.get("src", "-"))
	if err != nil {
		return "res " + c.id + " bad-script"
	}
	subCtx := ctxFromMarks(parseInts(strings.ReplaceAll(c.get("sub", "-"), ".", ",")))
	setRecorder(nil)
	probe := &collectProbe{script: script, async: c.get("mode", "sync") != "sync", played: make(chan struct{})}
	obs, ok := buildCaseObs(c, probe.Observable())
	if !ok {
		return "res " + c.id + " unsupported"
	}
	type out struct {
		s  string
		ok bool
	}
	done := make(chan out, 1)
	go func() {
		s, ok := collectAny(obs, subCtx)
		done <- out{s, ok}
	}()
	select {
	case o := <-done:
		if !o.ok {
			return "res " + c.id + " unsupported"
		}
		return "res " + c.id + " " + o.s
	case <-probe.played:
	case <-time.After(2 * time.Second): // guard
		return "res " + c.id + " ret=0 vals=- err=- lctx=- stuck=before-played"
	}
	// the source has played its whole script: if the stream has ended, Collect returns now
	select {
	case o := <-done:
		return "res " + c.id + " " + o.s
	case <-time.After(collectGrace):
	}
	// Not returned yet. Offer the source's subscriber one more Complete: it is REFUSED (the
	// subscriber reports closed: subscriber.go:244) iff the stream had already ended — then Collect has to return by itself (we
	// were only impatient; the deadline is a guard), and `ret=1`. It is ACCEPTED iff the stream was
	// still open: Collect was rightly blocked (`ret=0`), and this completion lets the call go.
	probe.mu.Lock()
	dest, ctx := probe.dest, probe.subCtx
	probe.mu.Unlock()
	refused := false
	if dest != nil {
		refused = dest.IsClosed()
		dest.CompleteWithContext(ctx)
	}
	select {
	case o := <-done:
		if refused {
			return "res " + c.id + " " + o.s
		}
		return "res " + c.id + " ret=0 vals=- err=- lctx=-"
	case <-time.After(2 * time.Second):
		return "res " + c.id + " ret=0 vals=- err=- lctx=- stuck=hangs"
	}
}

// mode=wait — the same question put to Subscription.Wait directly, where the terminal callback can be
// made slow: an observer that gathers what Collect gathers, whose terminal callback BLOCKS until the
// harness releases it; a second goroutine calls sub.Wait(). While the terminal callback is in progress
// Wait must not have returned (`early=0`; a correct Wait never returns there, so the grace period cannot
// produce a false alarm); after the release it must return (`ret=1`). Without a terminal in the
// delivered trace Wait must still be blocked after the source has played everything (`ret=0`).
type waitObs struct {
	mu         sync.Mutex
	vals       []string
	err        string
	lctx       string
	inTerminal chan struct{}
	release    chan struct{}
}

func waitObserver[T any](w *waitObs) ro.Observer[T] {
	terminal := func(ctx context.Context, e string) {
		w.mu.Lock()
		w.err, w.lctx = e, renderCtx(ctx)
		w.mu.Unlock()
		close(w.inTerminal)
		<-w.release
	}
	return ro.NewObserverWithContext(
		func(ctx context.Context, v T) {
			w.mu.Lock()
			w.vals = append(w.vals, renderVal(v))
			w.mu.Unlock()
		},
		func(ctx context.Context, err error) {
			if err == nil {
				terminal(ctx, "nil") // Error(nil): the error value a Collect-like consumer returns is nil
			} else {
				terminal(ctx, renderErr(err))
			}
		},
		func(ctx context.Context) { terminal(ctx, "nil") },
	)
}

func waitSubscribeAny(a any, ctx context.Context, w *waitObs) (ro.Subscription, bool) {
	switch o := a.(type) {
	case ro.Observable[int]:
		return o.SubscribeWithContext(ctx, waitObserver[int](w)), true
	case ro.Observable[[]int]:
		return o.SubscribeWithContext(ctx, waitObserver[[]int](w)), true
	case ro.Observable[bool]:
		return o.SubscribeWithContext(ctx, waitObserver[bool](w)), true
	case ro.Observable[int64]:
		return o.SubscribeWithContext(ctx, waitObserver[int64](w)), true
	case ro.Observable[map[int]int]:
		return o.SubscribeWithContext(ctx, waitObserver[map[int]int](w)), true
	case ro.Observable[ro.Notification[int]]:
		return o.SubscribeWithContext(ctx, waitObserver[ro.Notification[int]](w)), true
	}
	return nil, false
}

func runWaitCase(c *Case) string {
	script, err := parseScript(c.get("src", "-"))
	if err != nil {
		return "res " + c.id + " bad-script"
	}
	subCtx := ctxFromMarks(parseInts(strings.ReplaceAll(c.get("sub", "-"), ".", ",")))
	setRecorder(nil)
	// the probe plays its script from a goroutine, once the harness says so (after Wait was called)
	start := make(chan struct{})
	probe := &collectProbe{script: script, async: true, played: make(chan struct{}), gate: start}
	obs, ok := buildCaseObs(c, probe.Observable())
	if !ok {
		return "res " + c.id + " unsupported"
	}
	w := &waitObs{inTerminal: make(chan struct{}), release: make(chan struct{})}
	var sub ro.Subscription
	subscribed := make(chan bool, 1)
	go func() { // the subscribe function itself may deliver a terminal (Take(0)) and block in it
		var ok bool
		sub, ok = waitSubscribeAny(obs, subCtx, w)
		subscribed <- ok
	}()
	waited := make(chan struct{})
	startWait := func() {
		go func() {
			sub.Wait()
			close(waited)
		}()
	}
	haveSub := false
	select {
	case ok := <-subscribed:
		if !ok {
			return "res " + c.id + " unsupported"
		}
		haveSub = true
		startWait()
		close(start)
	case <-w.inTerminal:
		close(start)
	}
	early := 0
	line := ""
	select {
	case <-w.inTerminal:
		if haveSub {
			select {
			case <-waited:
				early = 1
			case <-time.After(1500 * time.Microsecond):
			}
		}
		close(w.release)
		if !haveSub {
			<-subscribed
			startWait()
		}
		select {
		case <-waited:
			w.mu.Lock()
			line = fmt.Sprintf("ret=1 vals=[%s] err=%s lctx=%s", strings.Join(w.vals, ";"), w.err, w.lctx)
			w.mu.Unlock()
		case <-time.After(2 * time.Second):
			line = "ret=0 vals=- err=- lctx=- stuck=wait-hangs"
		}
	case <-probe.played:
		// everything played, no terminal reached the observer (it would have blocked the player)
		select {
		case <-waited:
			early = 1
		case <-time.After(collectGrace):
		}
		line = "ret=0 vals=- err=- lctx=-"
		close(w.release)
		sub.Unsubscribe()
		<-waited
	case <-time.After(2 * time.Second):
		line = "ret=0 vals=- err=- lctx=- stuck=source"
		close(w.release)
	}
	return fmt.Sprintf("res %s %s early=%d", c.id, line, early)
}

// mode=race — Collect against a goroutine-driven source whose terminal is issued at (almost) the very
// moment the subscribe function returns to Collect: producer and subscribe function meet on a spin
// barrier, then each spins for a few iterations (every pair of a small grid) before emitting /
// returning. Collect must have waited for the terminal callback in every trial: all trials give the
// result the model gives for the script; the first deviating trial is reported as `unstable=`.
//
//go:noinline
func collectSpin(n int) int {
	x := 0
	for i := 0; i < n; i++ {
		x += i
	}
	return x
}

func runCollectRace(c *Case) string {
	script, err := parseScript(c.get("src", "-"))
	if err != nil || len(script) == 0 {
		return "res " + c.id + " bad-script"
	}
	subCtx := ctxFromMarks(parseInts(strings.ReplaceAll(c.get("sub", "-"), ".", ",")))
	setRecorder(nil)
	n, _ := strconv.Atoi(c.get("n", "200"))
	first := ""
	for trial := 0; trial < n; trial++ {
		dm, dp := trial%13, (trial/13)%13*3
		var ready, start int32
		src := ro.NewUnsafeObservableWithContext(func(ctx context.Context, dest ro.Observer[int]) ro.Teardown {
			go func() {
				atomic.StoreInt32(&ready, 1)
				for atomic.LoadInt32(&start) == 0 {
				}
				for _, t := range script[:len(script)-1] {
					emit(dest, ctx, t)
				}
				collectSpin(dp)
				emit(dest, ctx, script[len(script)-1])
			}()
			for atomic.LoadInt32(&ready) == 0 {
				runtime.Gosched()
			}
			atomic.StoreInt32(&start, 1)
			collectSpin(dm)
			return nil
		})
		obs, ok := buildCaseObs(c, src)
		if !ok {
			return "res " + c.id + " unsupported"
		}
		done := make(chan string, 1)
		go func() {
			s, ok := collectAny(obs, subCtx)
			if !ok {
				s = "unsupported"
			}
			done <- s
		}()
		var got string
		select {
		case got = <-done:
		case <-time.After(2 * time.Second):
			got = "ret=0 vals=- err=- lctx=- stuck=hangs"
		}
		if got == "unsupported" {
			return "res " + c.id + " unsupported"
		}
		if first == "" {
			first = got
		} else if got != first {
			return fmt.Sprintf("res %s %s unstable=trial%d:%s", c.id, first, trial, strings.ReplaceAll(got, " ", ","))
		}
	}
	return "res " + c.id + " " + first
}

func genCollect(tier string, seed int64, only string) []*Case {
	r := rand.New(rand.NewSource(seed*3571 + 9))
	lists := [][]int{{}, {2}, {-1, 0}, {3, 2, 3}}
	extra, nChains := 2, 1500
	if tier == "thorough" {
		lists = valueLists(2)
		extra, nChains = 12, 20000
	}
	for i := 0; i < extra; i++ {
		lists = append(lists, randomList(r, 3+r.Intn(5)))
	}
	var cases []*Case
	id := 0
	for _, spec := range opSpecs {
		if (only != "" && spec.name != only) || !cutCatalogue[spec.name] {
			continue
		}
		for _, variant := range spec.variants {
			cbList := cbChoices(spec.cbKind, variant)
			if spec.cbKind == "" {
				cbList = []string{"-"}
			}
			for _, cbName := range cbList {
				cb := cbName
				if hasCtx(variant) && cb != "-" && spec.cbKind != "boolpred" && spec.name != "ToMap" {
					cb += "+t" + strconv.Itoa(50+r.Intn(9))
				}
				for _, p := range spec.params {
					for li, vals := range lists {
						scripts := scriptsFor(vals, false)
						// never-ending scripts cost a grace period each: keep them to two value lists per configuration
						if li != 1 && li != 3 {
							scripts = scripts[1:]
						}
						scripts = append(scripts, append(append([]Tok{}, scripts[len(scripts)-1]...), Tok{'N', 9, len(vals) + 2}))
						for _, script := range scripts {
							for _, mode := range []string{"sync", "async", "wait"} {
								id++
								cases = append(cases, newCase(id, "kind", "collect", "op", spec.name, "p", intsString(p), "var", variant, "cb", cb,
									"mode", mode, "sub", "7", "src", scriptString(script)))
							}
						}
					}
				}
			}
		}
	}
	if only == "" {
		// Collect racing the terminal of a goroutine-driven source (mode=race)
		trials := "200"
		if tier == "thorough" {
			trials = "3000"
		}
		for _, ops := range []string{"Skip/plain/-/0", "Map/ctx/dbl+t53/-", "Skip/plain/-/0|TakeLast/plain/-/2"} {
			for _, src := range []string{"E4@1", "N1@1,E4@2", "N1@1,N2@2,C@3", "C@1", "N3@1,N1@2,N2@3,E5@4"} {
				id++
				cases = append(cases, newCase(id, "kind", "collect", "ops", ops, "mode", "race", "n", trials, "sub", "7", "src", src))
			}
		}
		for i := 0; i < nChains; i++ {
			n := 2 + r.Intn(4)
			stages := make([]string, n)
			for j := range stages {
				stages[j] = randomStage(r).String()
			}
			vals := randomList(r, r.Intn(7))
			scripts := scriptsFor(vals, true)
			script := scripts[r.Intn(len(scripts))]
			if len(script) == len(vals) && r.Intn(3) != 0 {
				script = scripts[1+r.Intn(len(scripts)-1)]
			}
			mode := []string{"sync", "async", "wait"}[r.Intn(3)]
			id++
			cases = append(cases, newCase(id, "kind", "collect", "ops", strings.Join(stages, "|"), "mode", mode, "sub", "7", "src", scriptString(script)))
		}
	}
	return cases
}

package main

// kind=lateuse (C12): a pipeline is a recipe — the time that passes between BUILDING it (constructing the operator value,
// applying it to its source) and SUBSCRIBING to it, or between two subscriptions, does not count. For every operator with a
// duration parameter d: build the pipeline, let more than d pass, subscribe; then let more than d pass again and subscribe
// the same observable value a second time. Each subscription must behave like a first subscription of a fresh pipeline:
//
//   ContextWithTimeout(d)   every delivered context is alive and has (almost) d left
//   Timeout(d)              a source that emits at once does not time out
//   Delay(d)                the value is not delivered before subscription time + d … and IS delivered
//   ThrottleTime(d)         the first value of each subscription passes
//   SampleTime(d) / BufferWithTime(d): the first tick comes d after the subscription, not earlier
//
//   case 2 kind=lateuse op=ContextWithTimeout d=30000 wait=70000
//   res 2 ok=1 why=-
// The model side says ok=1 for every case (operators keep no state outside the subscribe function: RoProps/C12 table_ok,
// factory_state_rows, buildtime_rows over the regenerated tables).

import (
	"context"
	"fmt"
	"strconv"
	"sync"
	"time"

	"github.com/samber/ro"
)

func init() { registerKind("lateuse", genLateUse, "lateuse", runLateUse) }

var lateUseOps = []string{"ContextWithTimeout", "Timeout", "Delay", "ThrottleTime", "SampleTime", "BufferWithTime"}

func genLateUse(tier string, seed int64, only string) []*Case {
	var out []*Case
	id := 0
	ds := []int{30000}
	if tier == "thorough" {
		ds = []int{20000, 30000, 60000}
	}
	for _, op := range lateUseOps {
		if only != "" && only != op {
			continue
		}
		for _, d := range ds {
			id++
			out = append(out, newCase(id, "kind", "lateuse", "op", op, "d", strconv.Itoa(d), "wait", strconv.Itoa(2*d+10000)))
		}
	}
	return out
}

func runLateUse(c *Case) string {
	setRecorder(nil)
	dus, _ := strconv.Atoi(c.get("d", "30000"))
	wus, _ := strconv.Atoi(c.get("wait", "70000"))
	d := time.Duration(dus) * time.Microsecond
	wait := time.Duration(wus) * time.Microsecond
	op := c.get("op", "?")
	// a cold source: two values at once, then (after 3d) completion
	src := ro.NewUnsafeObservableWithContext(func(ctx context.Context, dest ro.Observer[int]) ro.Teardown {
		stop := make(chan struct{})
		go func() {
			dest.NextWithContext(ctx, 1)
			dest.NextWithContext(ctx, 2)
			select {
			case <-time.After(3 * d):
				dest.CompleteWithContext(ctx)
			case <-stop:
			}
		}()
		var once sync.Once
		return func() { once.Do(func() { close(stop) }) }
	})
	type ev struct {
		at   time.Duration // since this subscription
		kind byte
		left time.Duration // ContextWithTimeout: time left on the delivered context (-1: no deadline)
		dead bool
	}
	var mu sync.Mutex
	subscribeOnce := func(o ro.Observable[int]) []ev {
		var evs []ev
		t0 := time.Now()
		done := make(chan struct{})
		var once sync.Once
		rec := func(k byte, ctx context.Context) {
			e := ev{at: time.Since(t0), kind: k, left: -1}
			if dl, ok := ctx.Deadline(); ok {
				e.left = time.Until(dl)
			}
			e.dead = ctx.Err() != nil
			mu.Lock()
			evs = append(evs, e)
			mu.Unlock()
		}
		sub := o.SubscribeWithContext(ctxFromMarks([]int{7}), ro.NewObserverWithContext(
			func(ctx context.Context, v int) { rec('N', ctx) },
			func(ctx context.Context, err error) { rec('E', ctx); once.Do(func() { close(done) }) },
			func(ctx context.Context) { rec('C', ctx); once.Do(func() { close(done) }) }))
		select {
		case <-done:
		case <-time.After(5*d + 200*time.Millisecond):
		}
		sub.Unsubscribe()
		mu.Lock()
		defer mu.Unlock()
		return append([]ev{}, evs...)
	}
	var pipeline ro.Observable[int]
	lenOfB := func(o ro.Observable[[]int]) ro.Observable[int] { return ro.Map(func(v []int) int { return len(v) })(o) }
	switch op {
	case "ContextWithTimeout":
		pipeline = ro.ContextWithTimeout[int](d)(src)
	case "Timeout":
		pipeline = ro.Timeout[int](4 * d)(src) // longer than the pause of the source: no timeout in a fresh pipeline
	case "Delay":
		pipeline = ro.Delay[int](d)(src)
	case "ThrottleTime":
		pipeline = ro.ThrottleTime[int](d)(src)
	case "SampleTime":
		pipeline = ro.SampleTime[int](d)(src)
	case "BufferWithTime":
		pipeline = lenOfB(ro.BufferWithTime[int](d)(src))
	default:
		return "res " + c.id + " unsupported"
	}
	slack := d / 3
	judge := func(evs []ev) string {
		vals := 0
		for _, e := range evs {
			if e.kind == 'N' {
				vals++
			}
		}
		switch op {
		case "ContextWithTimeout":
			for _, e := range evs {
				if e.kind == 'N' && (e.dead || e.left < d-slack || e.left > d) {
					return fmt.Sprintf("context-of-a-value-has-%dus-left-of-%dus", e.left.Microseconds(), d.Microseconds())
				}
			}
			if vals != 2 {
				return "values-missing"
			}
		case "Timeout":
			for _, e := range evs {
				if e.kind == 'E' {
					return "timed-out-although-the-source-emitted-at-once"
				}
			}
			if vals != 2 {
				return "values-missing"
			}
		case "Delay":
			for _, e := range evs {
				if e.kind == 'N' && e.at < d {
					return "value-delivered-before-its-delay"
				}
			}
			if vals != 2 {
				return "values-missing"
			}
		case "ThrottleTime":
			if vals < 1 {
				return "first-value-did-not-pass"
			}
		case "SampleTime", "BufferWithTime":
			for _, e := range evs {
				if e.kind == 'N' && e.at < d-slack/2 {
					return "tick-before-one-period-after-the-subscription"
				}
			}
		}
		return ""
	}
	time.Sleep(wait) // built, not subscribed
	why := judge(subscribeOnce(pipeline))
	if why == "" {
		time.Sleep(wait)
		if w2 := judge(subscribeOnce(pipeline)); w2 != "" {
			why = "second-subscription:" + w2
		}
	}
	if why != "" {
		return fmt.Sprintf("res %s ok=0 why=%s", c.id, why)
	}
	return fmt.Sprintf("res %s ok=1 why=-", c.id)
}

package main

// kind=plugin: case generation. Corpus (boundary inputs named in the property) first, then
// seeded random inputs. All randomness comes from -seed.

import (
	"encoding/base64"
	"encoding/hex"
	"fmt"
	"math/rand"
	"strconv"
	"strings"
)

type pgen struct {
	cases []*Case
	rng   *rand.Rand
	tier  string
	only  string
}

func (g *pgen) add(op, p, in string, kv ...string) {
	if g.only != "" && g.only != op && !strings.HasPrefix(op, g.only+".") {
		return
	}
	all := append([]string{"kind", "plugin", "op", op, "p", p, "in", in}, kv...)
	has := false
	for i := 0; i+1 < len(kv); i += 2 {
		if kv[i] == "end" {
			has = true
		}
	}
	if !has {
		all = append(all, "end", "C")
	}
	g.cases = append(g.cases, newCase(len(g.cases)+1, all...))
}

func hx(s string) string {
	if s == "" {
		return "e"
	}
	return hex.EncodeToString([]byte(s))
}

func hxs(ss ...string) string {
	if len(ss) == 0 {
		return "-"
	}
	parts := make([]string, len(ss))
	for i, s := range ss {
		parts[i] = hx(s)
	}
	return strings.Join(parts, ",")
}

func (g *pgen) n(quick, thorough int) int {
	if g.tier == "thorough" {
		return thorough
	}
	return quick
}

// the text corpus: every class the property names
var textCorpus = []string{
	"", " ", "   \t\n ", "a", "ab", "abc", "abcd", "hello world", "  hello world  ", "Hello, World!", "helloWorld42", "HTTPServer2Go", "snake_case_text",
	"kebab-case-text", "PascalCaseText", "  leading", "trailing  ", "a  b   c", "12 monkeys", "x1y2z3", "UPPER lower MiXeD",
	"héllo wörld", "naïve café", "日本語テキスト", "Ünïcödé Täxt", "emoji 😀 text", "ß straße", "ǅungla", "İstanbul", "ﬁnance",
	" nbsp ", " em space ", "　ideographic　", "\u0085nel\u0085", " ls ", " ogham ", " mm ",
	"a—b", "a­b", "tab\tsep", "line\nbreak", "cr\r\nlf",
	"\xff\xfe", "ab\x80cd", "\xe2\x80", "caf\xc3", "\xc3\x28", "hello \xf0\x9f wor", "\xa0 x \xa0", "\xc2", "x\xe2\x80\x80", "\xe2\x80\x80\xe2\x80", "\x80\x80 a",
	"twelve chars", "thirteen char", "eleven char",
}

func bigTexts() []string {
	return []string{
		"6162*32768",                // 64 KiB "abab…"
		"20*65536",                  // 64 KiB of spaces
		"616220*21846",              // "ab ab ab …"
		"48656c6c6f576f726c64*6554", // HelloWorld × 6554 = 64 KiB
		"20*10+c3a9*32768+20*10",    // 64 KiB of é with spaces around
		"ff*65536",                  // 64 KiB of invalid UTF-8
		"61*1023", "61*1024", "61*1025", "20+61*1024+20",
	}
}

func (g *pgen) randText(maxLen int) string {
	alphabet := []string{"a", "b", "Z", "9", " ", " ", "_", "-", "é", "ö", "日", " ", " ", "\xff", "\x80", "\xe2", "\t", "X", "1", "😀", "ß"}
	n := g.rng.Intn(maxLen + 1)
	var sb strings.Builder
	for i := 0; i < n; i++ {
		sb.WriteString(alphabet[g.rng.Intn(len(alphabet))])
	}
	return sb.String()
}

func (g *pgen) randASCII(maxLen int) string {
	alphabet := "abcXYZ019 _-.,\t"
	n := g.rng.Intn(maxLen + 1)
	b := make([]byte, n)
	for i := range b {
		b[i] = alphabet[g.rng.Intn(len(alphabet))]
	}
	return string(b)
}

func (g *pgen) randBytes(n int) []byte {
	b := make([]byte, n)
	for i := range b {
		switch g.rng.Intn(6) {
		case 0:
			b[i] = 0xff - byte(g.rng.Intn(5))
		case 1:
			b[i] = byte(g.rng.Intn(4))
		default:
			b[i] = byte(g.rng.Intn(256))
		}
	}
	return b
}

func chunked(all []string, k int) [][]string {
	var out [][]string
	for i := 0; i < len(all); i += k {
		j := i + k
		if j > len(all) {
			j = len(all)
		}
		out = append(out, all[i:j])
	}
	return out
}

func genPluginCases(tier string, seed int64, only string) []*Case {
	g := &pgen{rng: rand.New(rand.NewSource(seed*7919 + 18)), tier: tier, only: only}
	g.genStrconv()
	g.genBase64()
	g.genText()
	g.genRegexp()
	g.genTime()
	g.genTemplate()
	g.genJSONGob()
	g.genSort()
	g.genReaders()
	g.genWriters()
	g.genCSV()
	return g.cases
}

// ---------------------------------------------------------------- strconv

var numCorpus = []string{
	"0", "-0", "+0", "1", "-1", "+5", "00012", "-00012", "7", "10", "99", "100", "12345", "-12345",
	"9223372036854775807", "9223372036854775808", "-9223372036854775808", "-9223372036854775809", "+9223372036854775807",
	"18446744073709551615", "18446744073709551616", "99999999999999999999", "99999999999999999999x", "9999999999999999999x", "1844674407370955162", "18446744073709551610",
	"000000000000000000000000000001", "2147483647", "2147483648", "-2147483648", "-2147483649", "4294967295", "4294967296", "255", "256", "127", "128", "-128", "-129", "65535", "65536", "32767", "-32769",
	"", "+", "-", "+-1", "--1", "1_000", "_1", "1_", " 1", "1 ", "1\n", "0x1f", "0b101", "0o17", "017", "1e3", "1.5", "ff", "FF", "zz", "7fffffffffffffff", "-8000000000000000", "8000000000000000",
	"１２", "१२३", "٣", "1\x00", "\xff", "abc", "t", "true", "NaN", "inf", "Infinity", "-Inf", "1e400", "1e-400", "0x1p-2", "1_0.5", ".5", "5.", "1e", "4.9e-324", "1.7976931348623157e308", "3.4028235e38", "3.4028236e38", "0.1", "-0.0",
}

func (g *pgen) randNum() string {
	switch g.rng.Intn(6) {
	case 0:
		return strconv.FormatInt(g.rng.Int63()-g.rng.Int63(), 10)
	case 1:
		d := g.rng.Intn(25) + 1
		b := make([]byte, d)
		for i := range b {
			b[i] = byte('0' + g.rng.Intn(10))
		}
		s := string(b)
		if g.rng.Intn(3) == 0 {
			s = "-" + s
		}
		return s
	case 2:
		s := strconv.FormatInt(g.rng.Int63n(1000), 10)
		junk := []string{"_", " ", "x", "+", "-", ".", "e", "\xff", "٣"}
		pos := g.rng.Intn(len(s) + 1)
		return s[:pos] + junk[g.rng.Intn(len(junk))] + s[pos:]
	case 3:
		near := []uint64{1 << 63, 1<<63 - 1, 1<<64 - 1, 1 << 31, 1 << 32, 1 << 15, 1 << 7}
		v := near[g.rng.Intn(len(near))] + uint64(g.rng.Intn(5)) - 2
		s := strconv.FormatUint(v, 10)
		if g.rng.Intn(2) == 0 {
			s = "-" + s
		}
		return s
	case 4:
		return strconv.FormatFloat(g.rng.NormFloat64()*1e10, 'g', -1, 64)
	}
	return strconv.FormatInt(int64(g.rng.Intn(2000)-1000), 10)
}

var boolCorpus = []string{"1", "t", "T", "TRUE", "true", "True", "0", "f", "F", "FALSE", "false", "False", "", "tRUE", "truE", "yes", "no", "2", " true", "true ", "tt", "\xff", "ｔ", "TRUE\n", "01"}

func (g *pgen) genStrconv() {
	// Atoi / ParseInt / ParseUint / ParseFloat / ParseBool on the corpus, a few items per stream so that the first error ends it
	for _, ch := range chunked(numCorpus, 1) {
		in := hxs(ch...)
		g.add("strconv.Atoi", "-", in)
		g.add("strconv.ParseInt", "10,64", in)
		g.add("strconv.ParseUint", "10,64", in)
		g.add("strconv.ParseFloat", "64", in)
	}
	// streams: valid prefix, one bad item, more items (must stop at the first error)
	g.add("strconv.Atoi", "-", hxs("1", "22", "-333", "x4", "5"))
	g.add("strconv.Atoi", "-", hxs("1", "22", "-333"), "end", "E3")
	g.add("strconv.Atoi", "-", "-")
	g.add("strconv.Atoi", "-", "-", "end", "E2")
	g.add("strconv.Atoi", "-", "30*70000+31") // 64 KiB of zeros and a 1
	g.add("strconv.Atoi", "-", "39*65536")
	g.add("strconv.ParseInt", "10,64", hxs("1", "22", "-333", "99999999999999999999", "5"))
	for _, base := range []int{0, 2, 8, 10, 16, 36, 1, 37, -1} {
		for _, bits := range []int{0, 8, 16, 32, 64, 65, -1} {
			if g.tier != "thorough" && !(base == 10 || bits == 64 || bits == 0) {
				continue
			}
			p := fmt.Sprintf("%d,%d", base, bits)
			for _, ch := range chunked(numCorpus, 12) {
				for _, s := range ch {
					g.add("strconv.ParseInt", p, hxs(s))
					g.add("strconv.ParseUint", p, hxs(s))
					if base == 16 {
						g.add("strconv.ParseUint64", p, hxs(s))
					}
				}
			}
		}
	}
	for _, bits := range []int{32, 64, 0} {
		for _, s := range numCorpus {
			g.add("strconv.ParseFloat", strconv.Itoa(bits), hxs(s))
		}
	}
	for _, s := range boolCorpus {
		g.add("strconv.ParseBool", "-", hxs(s))
	}
	g.add("strconv.ParseBool", "-", hxs("1", "t", "F", "false", "TRUE", "nope", "true"))
	g.add("strconv.ParseBool", "-", hxs("true", "false"), "end", "E1")
	g.add("strconv.FormatBool", "-", hxs("t", "f", "t"))
	g.add("strconv.FormatBool", "-", "-")
	g.add("strconv.FormatBool", "-", hxs("f"), "end", "E4")
	ints := []string{"0", "1", "-1", "9", "10", "-10", "99", "100", "12345", "-12345", "9223372036854775807", "-9223372036854775808", "-9223372036854775807", "1000000000000000000", "2147483648", "4294967296"}
	g.add("strconv.Itoa", "-", hxs(ints...))
	g.add("strconv.RoundTrip", "-", hxs(ints...))
	g.add("strconv.Itoa", "-", hxs("7", "8"), "end", "E1")
	for _, base := range []int{2, 8, 10, 16, 36} {
		g.add("strconv.FormatInt", strconv.Itoa(base), hxs(ints...))
		g.add("strconv.FormatUint", strconv.Itoa(base), hxs("0", "1", "255", "18446744073709551615", "9223372036854775808"))
	}
	floats := []string{"0", "-0", "1", "-1.5", "0.1", "1e21", "1e-7", "123456789.125", "NaN", "Inf", "-Inf", "4.9e-324", "1.7976931348623157e308", "3.4028235e38", "2.5", "3.5"}
	for _, f := range []byte{'e', 'E', 'f', 'g', 'G', 'b', 'x', 'X'} {
		for _, prec := range []int{-1, 0, 1, 3, 17} {
			for _, bits := range []int{32, 64} {
				if g.tier != "thorough" && prec == 17 {
					continue
				}
				p := fmt.Sprintf("%d,%d,%d", f, prec, bits)
				g.add("strconv.FormatFloat", p, hxs(floats...))
				if bits == 64 {
					g.add("strconv.FormatComplex", fmt.Sprintf("%d,%d,128", f, prec), hxs("(1+2i)", "(-0.5-1e10i)", "(NaN+Infi)", "(0+0i)"))
				} else {
					g.add("strconv.FormatComplex", fmt.Sprintf("%d,%d,64", f, prec), hxs("(1+2i)", "(3.4028235e38+0.1i)"))
				}
			}
		}
	}
	quoteIn := []string{"", "plain", "with \"quotes\"", "tab\tnl\n", "héllo", "\xff\xfe", "日本", "\x00\x01", "back\\slash", "😀", " ", "'single'", "`back`"}
	g.add("strconv.Quote", "-", hxs(quoteIn...))
	g.add("strconv.QuoteRune", "-", hxs("a", "é", "日", "😀", "\n", "'", "\xff", "\x00", " "))
	unq := []string{`"plain"`, `"with \"q\""`, "`raw`", `'a'`, `"é"`, `"\xff"`, `"unterminated`, `noquotes`, `""`, `''`, `'ab'`, `"\q"`, `"a` + "\n" + `b"`, "`a\rb`", "", `"`, `"\U0010ffff"`, `"\U00110000"`, `"😀"`}
	for _, s := range unq {
		g.add("strconv.Unquote", "-", hxs(s))
	}
	g.add("strconv.Unquote", "-", hxs(`"a"`, "`b`", `bad`, `"c"`))
	for i := 0; i < g.n(600, 6000); i++ {
		k := g.rng.Intn(4) + 1
		items := make([]string, k)
		for j := range items {
			items[j] = g.randNum()
		}
		end := "C"
		if g.rng.Intn(8) == 0 {
			end = "E" + strconv.Itoa(g.rng.Intn(5)+1)
		}
		in := hxs(items...)
		g.add("strconv.Atoi", "-", in, "end", end)
		g.add("strconv.ParseInt", "10,64", in, "end", end)
		if i%3 == 0 {
			bases := []int{0, 2, 8, 10, 16, 36}
			bitss := []int{0, 8, 16, 32, 64}
			p := fmt.Sprintf("%d,%d", bases[g.rng.Intn(len(bases))], bitss[g.rng.Intn(len(bitss))])
			g.add("strconv.ParseInt", p, in)
			g.add("strconv.ParseUint", p, in)
			g.add("strconv.ParseFloat", "64", in)
		}
		vals := make([]string, k)
		for j := range vals {
			vals[j] = strconv.FormatInt(g.rng.Int63()-g.rng.Int63(), 10)
		}
		g.add("strconv.Itoa", "-", hxs(vals...))
		g.add("strconv.RoundTrip", "-", hxs(vals...))
		if i%4 == 0 {
			g.add("strconv.FormatInt", "10", hxs(vals...))
			g.add("strconv.ParseBool", "-", hxs(boolCorpus[g.rng.Intn(len(boolCorpus))], boolCorpus[g.rng.Intn(len(boolCorpus))]))
		}
	}
}

// ---------------------------------------------------------------- base64

var b64names = []string{"std", "url", "rawstd", "rawurl"}

func (g *pgen) genBase64() {
	fixed := [][]byte{{}, {0}, {0xff}, {0, 0}, {0xfb, 0xff}, {0xfb, 0xef, 0xbe}, {0xff, 0xff, 0xff, 0xff}, []byte("Man"), []byte("Ma"), []byte("M"), []byte("hello, world"), []byte("\xfb\xff\xfe\xfd\xfc"),
		[]byte("twelve bytes"), []byte("thirteen byte")}
	for _, e := range b64names {
		for _, b := range fixed {
			g.add("base64.Encode", e, itemExpr(b))
			g.add("base64.Encode", e, itemExpr(b), "cap", "16")
		}
		g.add("base64.Encode", e, itemsExpr(fixed))
		g.add("base64.RoundTrip", e, itemsExpr(fixed), "cap", "5")
		g.add("base64.Encode", e, "-")
		g.add("base64.Encode", e, "-", "end", "E1")
		g.add("base64.Encode", e, "00*65536")
		g.add("base64.Encode", e, "fbff*32768", "cap", "64")
		g.add("base64.Encode", e, "616263*21845+61")
		g.add("base64.RoundTrip", e, "fbff*32768,00*65535,ff*65537")
		for _, n := range []int{1021, 1022, 1023, 1024, 1025, 1026, 11, 12, 13} {
			g.add("base64.RoundTrip", e, fmt.Sprintf("a5*%d", n))
		}
		// decoding: every encoding of the fixed inputs under every variant (cross-variant inputs are malformed or not)
		for _, src := range b64names {
			for _, b := range fixed {
				g.add("base64.Decode", e, hxs(b64enc(src).EncodeToString(b)))
			}
		}
		malformed := []string{"A", "AA", "AAA", "AAAA", "AA=", "AA==", "AAA=", "A===", "====", "=", "AA=A", "AA==A", "AAA=A", "AA==\n", "AA=\n=", "A\nA\r\nAA", "\n", "\r\n\r\n", "AA\n", "AAAA\n", "AAAAA", "AAAAAA", "AAAAAAA", "AAAAAA==", "AAAAAAA=",
			"AB==", "AAB=", "//8=", "__8=", "+/+/", "-_-_", "A A", "AA A", "AAAA ", " AAAA", "AAA\x00", "\xff\xff\xff\xff", "AAAé", "QQ=\n=\n", "QQ==QQ==", "QUJD*", "AAAAAAAAA", "AAAAAAAAAA", "AAAAAAAAAAA", "AAAAAAAAAAAA", "AAAAAAAA=AAA", "AAAAAAAAAA=="}
		for _, s := range malformed {
			g.add("base64.Decode", e, hxs(s))
		}
		g.add("base64.Decode", e, hxs("QUJD", "QQ==", "bad!", "QUJD"))
		g.add("base64.Decode", e, hxs("QUJD", "QUI"), "end", "E2")
		g.add("base64.Decode", e, "41*65536")
		g.add("base64.Decode", e, "41*65537")
		g.add("base64.Decode", e, "41*65535+3d")
		g.add("base64.Decode", e, "414141410a*13107")
	}
	alphabet := "ABCDEFGHIJKLMNOPQRSTUVWXYZabcdefghijklmnopqrstuvwxyz0123456789+/-_=\n\r !"
	for i := 0; i < g.n(1000, 10000); i++ {
		e := b64names[g.rng.Intn(4)]
		k := g.rng.Intn(3) + 1
		items := make([][]byte, k)
		for j := range items {
			items[j] = g.randBytes(g.rng.Intn(40))
		}
		capx := []string{"0", "0", "3", "64"}[g.rng.Intn(4)]
		g.add("base64.Encode", e, itemsExpr(items), "cap", capx)
		g.add("base64.RoundTrip", e, itemsExpr(items), "cap", capx)
		// decode: a valid encoding, mutated
		src := b64names[g.rng.Intn(4)]
		s := b64enc(src).EncodeToString(g.randBytes(g.rng.Intn(20)))
		switch g.rng.Intn(5) {
		case 0:
			if len(s) > 0 {
				pos := g.rng.Intn(len(s))
				s = s[:pos] + string(alphabet[g.rng.Intn(len(alphabet))]) + s[pos+1:]
			}
		case 1:
			pos := g.rng.Intn(len(s) + 1)
			s = s[:pos] + []string{"\n", "\r\n", "=", " ", "A"}[g.rng.Intn(5)] + s[pos:]
		case 2:
			if len(s) > 0 {
				s = s[:len(s)-1]
			}
		case 3:
			n := g.rng.Intn(12)
			b := make([]byte, n)
			for j := range b {
				b[j] = alphabet[g.rng.Intn(len(alphabet))]
			}
			s = string(b)
		}
		g.add("base64.Decode", e, hxs(s))
	}
	_ = base64.StdEncoding
}

// ---------------------------------------------------------------- strings / bytes helpers

var textOps = []string{"CamelCase", "Capitalize", "KebabCase", "PascalCase", "SnakeCase", "Words"}

func (g *pgen) genText() {
	lengths := []int{-1, 0, 1, 2, 3, 4, 5, 6, 8, 11, 12, 13, 20, 1023, 1024, 1025, 70000}
	caps := []string{"0", "7"}
	for _, s := range textCorpus {
		for _, op := range textOps {
			g.add("strings."+op, "-", hxs(s))
			g.add("bytes."+op, "-", hxs(s), "cap", "5")
		}
		for _, l := range lengths {
			if g.tier != "thorough" && l > 20 && l != 1024 {
				continue
			}
			g.add("strings.Ellipsis", strconv.Itoa(l), hxs(s))
			for _, cp := range caps {
				g.add("bytes.Ellipsis", strconv.Itoa(l), hxs(s), "cap", cp)
			}
		}
		// the cut positions around the text's own length
		for _, d := range []int{-4, -3, -2, -1, 0, 1} {
			l := len(strings.TrimSpace(s)) + d
			g.add("strings.Ellipsis", strconv.Itoa(l), hxs(s))
			g.add("bytes.Ellipsis", strconv.Itoa(l), hxs(s), "cap", "3")
		}
	}
	// whole corpus as one stream
	for _, op := range textOps {
		g.add("strings."+op, "-", hxs(textCorpus...))
		g.add("bytes."+op, "-", hxs(textCorpus...), "cap", "9")
		g.add("strings."+op, "-", hxs("one two", "three"), "end", "E1")
		g.add("bytes."+op, "-", "-")
	}
	g.add("strings.Ellipsis", "8", hxs(textCorpus...))
	g.add("bytes.Ellipsis", "8", hxs(textCorpus...), "cap", "9")
	g.add("bytes.Ellipsis", "8", hxs(textCorpus...))
	g.add("strings.Ellipsis", "5", hxs("hello world", "x"), "end", "E7")
	for _, big := range bigTexts() {
		for _, op := range textOps {
			if g.tier != "thorough" && op != "Words" && op != "KebabCase" && op != "Capitalize" {
				continue
			}
			g.add("strings."+op, "-", big)
			g.add("bytes."+op, "-", big, "cap", "1")
		}
		for _, l := range []int{0, 3, 4, 12, 1024, 65535, 65536, 65537} {
			g.add("strings.Ellipsis", strconv.Itoa(l), big)
			g.add("bytes.Ellipsis", strconv.Itoa(l), big, "cap", "4")
		}
	}
	for _, sz := range []int{1, 2, 11, 12, 13, 1024} {
		for _, cs := range []string{"ab", "abcdefghijklmnopqrstuvwxyz", "é日😀", "xyz", "x", "é"} {
			g.add("strings.Random", fmt.Sprintf("%d,%s", sz, hx(cs)), hxs("a", "b", "c"))
			g.add("bytes.Random", fmt.Sprintf("%d,%s", sz, hx(cs)), hxs("a", "b"))
		}
	}
	for i := 0; i < g.n(1000, 12000); i++ {
		k := g.rng.Intn(3) + 1
		items := make([]string, k)
		for j := range items {
			switch g.rng.Intn(3) {
			case 0:
				items[j] = g.randASCII(30)
			default:
				items[j] = g.randText(24)
			}
		}
		in := hxs(items...)
		op := textOps[g.rng.Intn(len(textOps))]
		cp := []string{"0", "1", "12"}[g.rng.Intn(3)]
		g.add("strings."+op, "-", in)
		g.add("bytes."+op, "-", in, "cap", cp)
		l := strconv.Itoa(g.rng.Intn(28) - 2)
		g.add("strings.Ellipsis", l, in)
		g.add("bytes.Ellipsis", l, in, "cap", cp)
	}
}

// ---------------------------------------------------------------- regexp

func (g *pgen) genRegexp() {
	pats := []string{`a+`, `(\w+)@(\w+)\.com`, `^$`, `[^\x00-\x7f]+`, `(?i)héllo`, `\s+`, `(a)|(b)`, `.`, `(?s).*`, `\pL+`, `x*`, `(\d+)-(\d+)`}
	texts := append([]string{"aaa baa", "bob@example.com, eve@test.com", "12-34 56-78", "xxaxx"}, textCorpus[:48]...)
	strOps := []string{"FindString", "FindStringSubmatch", "MatchString", "FilterMatchString"}
	bytOps := []string{"Find", "FindSubmatch", "Match", "FilterMatch"}
	for pi, p := range pats {
		for ci, ch := range chunked(texts, 13) {
			if g.tier != "thorough" && (pi+ci)%2 == 1 {
				continue
			}
			in := hxs(ch...)
			for _, op := range strOps {
				g.add("regexp."+op, hx(p), in)
			}
			for _, op := range bytOps {
				g.add("regexp."+op, hx(p), in, "cap", "6")
			}
			for _, n := range []int{-1, 0, 1, 2} {
				if g.tier != "thorough" && n == 2 {
					continue
				}
				q := hx(p) + "," + strconv.Itoa(n)
				g.add("regexp.FindAllString", q, in)
				g.add("regexp.FindAllStringSubmatch", q, in)
				g.add("regexp.FindAll", q, in, "cap", "2")
				g.add("regexp.FindAllSubmatch", q, in)
			}
			for _, repl := range []string{"", "<$1>", "$0$0", "é"} {
				q := hx(p) + "," + hx(repl)
				g.add("regexp.ReplaceAllString", q, in)
				g.add("regexp.ReplaceAll", q, in, "cap", "8")
			}
		}
		g.add("regexp.FindAllString", hx(p)+",-1", "6162*32768")
		g.add("regexp.ReplaceAll", hx(p)+","+hx("-"), "6120*32768", "cap", "3")
		g.add("regexp.FilterMatchString", hx(p), hxs("a", "b"), "end", "E2")
	}
}

// ---------------------------------------------------------------- time

func (g *pgen) genTime() {
	times := []string{"zero", "0@UTC", "1709164800000000000@UTC", "1709251199999999999@NY", "1710054000000000000@NY", "1710057600000000000@NY", "1730613600000000000@NY", "1730617200000000000@NY",
		"-1@UTC", "253402300799000000000@UTC", "1325239200000000000@Apia", "1325325600000000000@Apia", "1700000000123456789@Kolkata", "1700000000000000000@plus0530", "1700000000000000000@minus1100", "-2208988800000000000@UTC"}
	in := hxs(times...)
	for _, d := range []string{"0", "1", "-1", "3600000000000", "86400000000000", "-86400000000000", "9223372036854775807", "-9223372036854775808"} {
		g.add("time.Add", d, in)
	}
	for _, ymd := range []string{"0,0,0", "1,0,0", "0,1,0", "0,0,1", "0,-1,0", "0,0,-1", "4,0,0", "0,12,31", "-2000,0,0", "0,1,30"} {
		g.add("time.AddDate", ymd, in)
	}
	for l := range pluginLayouts {
		g.add("time.Format", l, in)
	}
	for _, z := range []string{"UTC", "NY", "Kolkata", "Apia", "plus0530", "minus1100"} {
		g.add("time.In", z, in)
	}
	g.add("time.StartOfDay", "-", in)
	g.add("time.StartOfDay", "-", hxs("0@UTC"), "end", "E1")
	parseIn := []string{"2024-02-29T12:00:00Z", "2023-02-29T12:00:00Z", "2024-03-10T02:30:00-05:00", "2024-03-10", "2024-13-01", "", "garbage", "2024-02-29T12:00:00.123456789+05:30", "3:04PM", "25:00PM",
		"Mon, 02 Jan 2006 15:04:05 MST", "Mon Jan  2 15:04:05 2006", "29/02/2024 23:59:59.999 +0530 IST", "2024-02-29T12:00:00Z trailing", "２０２４-01-01", "2024-02-29T24:00:00Z", "0000-01-01T00:00:00Z", "9999-12-31T23:59:59Z", "2024-11-03T01:30:00-04:00"}
	for l := range pluginLayouts {
		for _, s := range parseIn {
			g.add("time.Parse", l, hxs(s))
		}
		g.add("time.Parse", l, hxs(parseIn...))
		for _, z := range []string{"UTC", "NY", "Apia", "plus0530"} {
			g.add("time.ParseInLocation", l+","+z, hxs(parseIn[:4]...))
			for _, s := range parseIn[4:] {
				if g.tier == "thorough" || z == "NY" {
					g.add("time.ParseInLocation", l+","+z, hxs(s))
				}
			}
		}
	}
	g.add("time.Parse", "rfc3339", hxs("2024-02-29T12:00:00Z"), "end", "E3")
}

// ---------------------------------------------------------------- templates, JSON, gob

var docCorpus = []string{
	"zero", "doc:1:" + hex.EncodeToString([]byte("hello")) + ":0102:1.5:1.2.3", "doc:-5::nil:0:", "doc:9223372036854775807:" + hex.EncodeToString([]byte("<b>\"q\" & 'x'</b>")) + "::-0.25:0",
	"doc:0:" + hex.EncodeToString([]byte("\xff\xfe")) + ":ff00:1e308:7", "doc:2:" + hex.EncodeToString([]byte("日本語 😀  ")) + ":" + strings.Repeat("ab", 40) + ":3:1.1.1.1.1.1.1.1.1.1.1.1.1",
	"doc:3:" + hex.EncodeToString([]byte("k")) + ":00:2::key:0", "doc:4::nil:0:5::17", "nan", "inf",
}

func (g *pgen) genTemplate() {
	tpls := []string{"", "plain text", "Hello {{.S}} #{{.N}}", "{{range .L}}[{{.}}]{{end}}", "{{.Missing}}", "{{index .L 5}}", "{{printf \"%q %x\" .S .B}}", "{{if .P}}{{.P}}{{else}}none{{end}}",
		"<a href=\"/q?x={{.S}}\" onclick=\"f({{.N}})\">{{.S}}</a>", "{{.S | html}}", "{{len .B}} {{.F}}", "{{template \"nope\"}}", "{{.M.key}}", "{{with .M}}{{.absent}}{{end}}", "{{slice .S 1 2}}", "{{.N.X}}"}
	for _, t := range tpls {
		for _, d := range docCorpus {
			g.add("template.TextTemplate", hx(t), hxs(d))
			if !strings.Contains(t, "| html") { // html/template rejects the predefined escaper at exec time: still an Error, kept
				g.add("template.HTMLTemplate", hx(t), hxs(d))
			} else {
				g.add("template.HTMLTemplate", hx(t), hxs(d))
			}
		}
		g.add("template.TextTemplate", hx(t), hxs(docCorpus...))
		g.add("template.HTMLTemplate", hx(t), hxs(docCorpus...), "end", "E1")
	}
}

func (g *pgen) genJSONGob() {
	for _, d := range docCorpus {
		g.add("json.Marshal", "-", hxs(d))
		g.add("gob.Encode", "-", hxs(d))
		if d != "nan" && d != "inf" {
			g.add("json.RoundTrip", "-", hxs(d))
		}
		g.add("gob.RoundTrip", "-", hxs(d))
	}
	g.add("json.Marshal", "-", hxs(docCorpus...))
	g.add("json.Marshal", "-", hxs(docCorpus[:4]...), "end", "E2")
	g.add("gob.Encode", "-", hxs(docCorpus...))
	g.add("gob.RoundTrip", "-", hxs(docCorpus...))
	g.add("json.RoundTrip", "-", hxs(docCorpus[:8]...))
	docs := []string{`{}`, `{"n":1,"s":"x","b":"AQI=","f":1.5,"l":[1,2],"m":{"a":"b"},"p":3}`, `null`, `[]`, `"str"`, `12`, `{"n":"notanumber"}`, `{"n":1`, ``, ` `, `{"n":1}{"n":2}`, `{"n":1} trailing`,
		`{"b":"!!!notbase64"}`, `{"l":[1,"x"]}`, `{"n":1e400}`, `{"n":9223372036854775808}`, `{"s":"\ud800"}`, `{"s":"` + "\xff" + `"}`, `{"N":5,"S":"caseinsensitive"}`, `{"unknown":true}`, `{"p":null}`, `[1,2,3]`, `{"m":{"k":1}}`,
		"\xef\xbb\xbf{}", `{"n":1,"n":2}`, `{"f":-0}`, `{"l":null}`, `{"b":null}`, `tru`, `{"s":"a\u0000b"}`}
	for _, d := range docs {
		g.add("json.Unmarshal", "-", hxs(d), "cap", "4")
		g.add("json.UnmarshalAny", "-", hxs(d))
	}
	g.add("json.Unmarshal", "-", hxs(docs[0], docs[1], docs[7], docs[2]))
	g.add("json.Unmarshal", "-", "5b+312c*30000+315d") // [1,1,1,…,1]: wrong shape for pDoc, large
	g.add("json.UnmarshalAny", "-", "5b+312c*30000+315d")
	g.add("json.UnmarshalAny", "-", "5b*70000")
	// gob.Decode: encodings produced by gob itself (through the harness at run time they are regenerated: `gobof:` items), and garbage
	for _, b := range []string{"", "\x00", "\x01\x02\x03", "\xff\xff\xff\xff", strings.Repeat("\x7f", 100)} {
		g.add("gob.Decode", "-", hxs(b), "cap", "3")
	}
	g.add("gob.Decode", "-", "ff*65536")
	g.add("gob.Decode", "-", "00*65536")
	for i := 0; i < g.n(250, 2500); i++ {
		b := g.randBytes(g.rng.Intn(60))
		g.add("gob.Decode", "-", itemExpr(b))
		g.add("json.UnmarshalAny", "-", itemExpr(b))
		s := g.randText(8)
		d := fmt.Sprintf("doc:%d:%s:%s:%g:%d", g.rng.Intn(2000)-1000, hex.EncodeToString([]byte(s)), hex.EncodeToString(g.randBytes(g.rng.Intn(6))), g.rng.NormFloat64(), g.rng.Intn(9))
		g.add("json.RoundTrip", "-", hxs(d))
		g.add("gob.RoundTrip", "-", hxs(d))
		g.add("json.Marshal", "-", hxs(d, "nan", d))
	}
}

// ---------------------------------------------------------------- sort

func (g *pgen) sortItems(n, keys int) string {
	if n == 0 {
		return "-"
	}
	parts := make([]string, n)
	for i := range parts {
		parts[i] = hx(strconv.Itoa(g.rng.Intn(keys)*100 + i%100))
	}
	return strings.Join(parts, ",")
}

func (g *pgen) genSort() {
	ops := []string{"sort.Sort", "sort.SortFunc", "sort.SortStableFunc"}
	sizes := []int{0, 1, 2, 3, 5, 8, 10, 11, 12, 13, 14, 16, 20, 40, 50, 64, 100}
	if g.tier == "thorough" {
		sizes = append(sizes, 200, 500, 1023, 1024, 1025, 4096)
	}
	for _, op := range ops {
		for _, n := range sizes {
			for _, keys := range []int{1, 2, 3, 7} {
				reps := 2
				if n >= 11 && n <= 14 {
					reps = g.n(6, 60)
				}
				for r := 0; r < reps; r++ {
					g.add(op, "bykey", g.sortItems(n, keys))
				}
			}
			g.add(op, "nat", g.sortItems(n, 50))
			g.add(op, "desc", g.sortItems(n, 3))
		}
		g.add(op, "bykey", hxs("301", "102", "303", "104", "205"), "end", "E4")
		g.add(op, "bykey", "-", "end", "E4")
		// already sorted, reversed, all equal
		asc, desc, eq := make([]string, 30), make([]string, 30), make([]string, 30)
		for i := 0; i < 30; i++ {
			asc[i] = strconv.Itoa(i*100 + i)
			desc[i] = strconv.Itoa((29-i)*100 + i)
			eq[i] = strconv.Itoa(500 + i)
		}
		g.add(op, "bykey", hxs(asc...))
		g.add(op, "bykey", hxs(desc...))
		g.add(op, "bykey", hxs(eq...))
		g.add(op, "bykey", hxs(eq[:12]...))
		g.add(op, "bykey", hxs(eq[:13]...))
	}
	for i := 0; i < g.n(400, 6000); i++ {
		n := g.rng.Intn(30)
		if g.rng.Intn(4) == 0 {
			n = 11 + g.rng.Intn(4)
		}
		in := g.sortItems(n, 1+g.rng.Intn(4))
		for _, op := range ops {
			g.add(op, "bykey", in)
		}
	}
}

// ---------------------------------------------------------------- readers / writers / csv

func (g *pgen) genReaders() {
	for _, n := range []int{0, 1, 2, 11, 12, 13, 1023, 1024, 1025, 2047, 2048, 2049, 3000, 65536} {
		in := "-"
		if n > 0 {
			in = fmt.Sprintf("6162636465666768*%d+%s", n/8, strings.Repeat("7a", n%8))
			if n < 8 {
				in = strings.Repeat("7a", n)
			}
		}
		g.add("stdio.NewIOReader", "std", in, "fin", "eof")
		g.add("stdio.NewIOReader", "std", in, "fin", "err3")
		if n > 0 {
			g.add("stdio.NewIOReader", "std", in, "fin", "dataeof")
			g.add("stdio.NewIOReader", "std", in, "fin", "dataerr2")
		}
	}
	plans := []string{"1", "1.1", "2.1", "1.2", "3.3.3", "0.2", "2.0.1", "1.1.1.1", "5.1", "1.5"}
	for _, p := range plans {
		total := 0
		for _, t := range strings.Split(p, ".") {
			v, _ := strconv.Atoi(t)
			total += v
		}
		data := strings.Repeat("7a", 0)
		for i := 0; i < total; i++ {
			data += fmt.Sprintf("%02x", 0x41+i)
		}
		for _, fin := range []string{"eof", "dataeof", "err1", "dataerr1"} {
			g.add("stdio.NewIOReader", p, data, "fin", fin)
		}
	}
	g.add("stdio.NewIOReader", "1024.1024.5", "61*1024+62*1024+63*5", "fin", "eof")
	g.add("stdio.NewIOReader", "1024.1", "61*1024+62", "fin", "dataeof")
	for i := 0; i < g.n(300, 3000); i++ {
		k := g.rng.Intn(5) + 1
		var plan []string
		var data []byte
		for j := 0; j < k; j++ {
			n := g.rng.Intn(6)
			if g.rng.Intn(10) == 0 {
				n = 1020 + g.rng.Intn(6)
				if n > 1024 {
					n = 1024
				}
			}
			plan = append(plan, strconv.Itoa(n))
			data = append(data, g.randBytes(n)...)
		}
		fin := []string{"eof", "eof", "dataeof", "err2", "dataerr4"}[g.rng.Intn(5)]
		g.add("stdio.NewIOReader", strings.Join(plan, "."), itemExpr(data), "fin", fin)
	}
	lines := []string{"", "\n", "a", "a\n", "a\nb", "a\r\nb\r\n", "\n\n\n", "a\rb\n", "a\r", "\r\n", "a\r\r\nb", "no newline at end", "trailing\n", "héllo\nwörld\n", "\xff\n\xfe"}
	for _, l := range lines {
		g.add("stdio.NewIOReaderLine", "-", hxs(l))
	}
	for _, big := range []string{"61*4095+0a+62", "61*4096+0a+62", "61*4097+0a+62", "61*4095+0d0a+62", "61*4096+0d0a", "61*8192", "61*65536", "610a*32768", "61*4095+0d", "0a*5000", "61*4094+0d0d0a+62"} {
		g.add("stdio.NewIOReaderLine", "-", big)
	}
	for i := 0; i < g.n(300, 3000); i++ {
		n := g.rng.Intn(40)
		b := make([]byte, n)
		for j := range b {
			b[j] = []byte{'a', 'b', '\n', '\r', '\n', ' ', 0xff}[g.rng.Intn(7)]
		}
		g.add("stdio.NewIOReaderLine", "-", itemExpr(b))
	}
}

func (g *pgen) genWriters() {
	chunks := []string{"-", "e", hxs("a"), hxs("ab", "", "cde"), hxs("hello ", "world", "\n"), "61*1024,62*1025,63*11", "61*65536", hxs("\xff\x00", "é")}
	for _, in := range chunks {
		for _, mode := range []string{"ok", "fail1", "fail2", "fail3"} {
			g.add("stdio.NewIOWriter", mode, in, "cap", "4")
		}
		g.add("stdio.NewIOWriter", "ok", in, "end", "E2")
	}
	for i := 0; i < g.n(150, 1500); i++ {
		k := g.rng.Intn(5)
		items := make([][]byte, k)
		for j := range items {
			items[j] = g.randBytes(g.rng.Intn(20))
		}
		mode := []string{"ok", "ok", "fail1", "fail2", "fail4"}[g.rng.Intn(5)]
		g.add("stdio.NewIOWriter", mode, itemsExpr(items), "cap", "2")
	}
}

func (g *pgen) genCSV() {
	docs := []string{"", "a,b,c\n", "a,b,c", "a,b\n1,2\n3,4\n", "a,\"b,c\",d\n", "\"multi\nline\",x\n", "a,b\n1,2,3\n", "a\"b,c\n", "\"unterminated\n", "a;b;c\n", "\n\n", " a , b \n", "héllo,wörld\n日本,語\n",
		"\xff,\xfe\n", "\"a\"\"b\",c\n", "a,b\r\nc,d\r\n", "a,b\rc,d\n", "\"\",\"\"\n", ",\n", "x\n\"\n"}
	for _, d := range docs {
		g.add("csv.NewCSVReader", "0,0,0", hxs(d))
		g.add("csv.NewCSVReader", "59,1,-1", hxs(d))
		g.add("csv.NewCSVReader", "0,1,2", hxs(d))
	}
	g.add("csv.NewCSVReader", "0,0,0", "612c622c630a*10000")
	g.add("csv.NewCSVReader", "0,0,0", "22+61*65536+220a")
	g.add("csv.NewCSVReader", "0,0,-1", "612c*40000+0a")
	rows := []string{"-", hxs("a\x1fb\x1fc"), hxs("a\x1fb", "1\x1f2"), hxs("with,comma\x1fwith \"quote\"\x1fmulti\nline"), hxs("", "\x1f", "\x1f\x1f"), hxs("héllo\x1f\xff"), hxs(" lead\x1ftrail ", "#x"), "61*70000"}
	for _, in := range rows {
		for _, mode := range []string{"ok,0", "ok,1", "fail1,0", "fail2,0"} {
			g.add("csv.NewCSVWriter", mode, in)
		}
		g.add("csv.NewCSVWriter", "ok,0", in, "end", "E3")
	}
	for i := 0; i < g.n(150, 1500); i++ {
		var sb strings.Builder
		n := g.rng.Intn(30)
		for j := 0; j < n; j++ {
			sb.WriteString([]string{"a", "b", ",", ",", "\n", "\"", " ", "\r\n", "é", "\xff", ";"}[g.rng.Intn(11)])
		}
		g.add("csv.NewCSVReader", "0,0,-1", hxs(sb.String()))
		g.add("csv.NewCSVReader", "0,1,-1", hxs(sb.String()))
	}
}

package main

// kind=nextret (C08, subjects inside synchronous pipelines): a producer's Next returns only after the value has been
// handled — also when the consumer is in the middle of catching up with a backlog.
//
// A unicast subject (directly, or as a GroupBy group) holds a backlog until its single observer arrives; from then on
// it delivers on the producer's goroutine. The scenario: a backlog of k values; goroutine A subscribes with an observer
// that BLOCKS inside the first replayed value; goroutine B then sends one more value. B's call may return only after
// that value has been delivered (on the pinned tree B waits for the subject's mutex, which Subscribe holds during the
// replay): if it returns while A is still blocked, the value sits in a hidden queue and the producer runs ahead.
//
//   case 3 kind=nextret scen=unicast backlog=2
//   res 3 early=0 delivered=1          early: B's Next returned while the consumer was still blocked
//                                      delivered: the value had reached the observer when B's Next returned
// The model side (RoProps/C10 subjects_wellLocked, unicast_subscribe_locked_replay, unicast_delivers_outside_lock over the regenerated lock skeletons:
// Subscribe and its replay are one critical section; Next with an observer delivers before it returns) says early=0
// delivered=1 for every case.

import (
	"context"
	"fmt"
	"strconv"
	"sync/atomic"
	"time"

	"github.com/samber/ro"
)

func init() { registerKind("nextret", genNextRet, "nextret", runNextRet) }

func genNextRet(tier string, seed int64, only string) []*Case {
	var out []*Case
	id := 0
	reps := 2
	if tier == "thorough" {
		reps = 10
	}
	for r := 0; r < reps; r++ {
		for _, scen := range []string{"unicast", "groupby", "window", "publish", "behavior", "replay", "flatmap", "serialize", "merge"} {
			if only != "" && only != scen {
				continue
			}
			for _, k := range []int{1, 2, 5} {
				id++
				out = append(out, newCase(id, "kind", "nextret", "scen", scen, "backlog", strconv.Itoa(k)))
			}
		}
	}
	return out
}

// scen=flatmap / concatmap: the projection returns an inner observable that emits from a goroutine of its own AFTER its
// Subscribe has returned; FlatMap (= ConcatAll over the projected observables) keeps the producer inside Next until that inner
// observable has terminated, so when Next returns both inner values have reached the observer.
func runNextRetFlat(c *Case) string {
	k, _ := strconv.Atoi(c.get("backlog", "2"))
	inner := func(base int) ro.Observable[int] {
		return ro.NewUnsafeObservableWithContext(func(ctx context.Context, dest ro.Observer[int]) ro.Teardown {
			go func() {
				for j := 0; j < k; j++ {
					time.Sleep(300 * time.Microsecond)
					dest.NextWithContext(ctx, base*10+j)
				}
				dest.CompleteWithContext(ctx)
			}()
			return nil
		})
	}
	probe := &Probe{}
	var seen int32
	ro.FlatMap(func(v int) ro.Observable[int] { return inner(v) })(probe.Observable()).Subscribe(
		ro.NewObserver(func(int) { atomic.AddInt32(&seen, 1) }, func(error) {}, func() {}))
	probe.mu.Lock()
	dest, ctx := probe.dest, probe.subCtx
	probe.mu.Unlock()
	if dest == nil {
		return "res " + c.id + " _flag=no-source-subscription"
	}
	early, delivered := 0, int32(1)
	for v := 1; v <= 3; v++ {
		ret := make(chan int32, 1)
		go func(v int) { dest.NextWithContext(ctx, v); ret <- atomic.LoadInt32(&seen) }(v)
		select {
		case n := <-ret:
			if int(n) < v*k { // returned before the outputs of this value were delivered
				early, delivered = 1, 0
			}
		case <-time.After(2 * time.Second):
			return "res " + c.id + " _flag=next-never-returned"
		}
	}
	return fmt.Sprintf("res %s early=%d delivered=%d order=ok", c.id, early, delivered)
}

func runNextRet(c *Case) string {
	setRecorder(nil)
	if c.get("scen", "") == "flatmap" {
		return runNextRetFlat(c)
	}
	k, _ := strconv.Atoi(c.get("backlog", "1"))
	gate := make(chan struct{})
	entered := make(chan struct{}, 1)
	var seen, got99, after99 int32
	obs := ro.NewObserver(func(v int) {
		if atomic.AddInt32(&seen, 1) == 1 {
			entered <- struct{}{}
			<-gate
		} else if v != 99 {
			// the rest of the backlog is consumed slowly: a producer that is (wrongly) only waiting for the subscriber's
			// lock, not for the end of the replay, gets the lock handed over between two replayed values
			time.Sleep(300 * time.Microsecond)
		}
		if v == 99 {
			atomic.StoreInt32(&got99, 1)
		} else if atomic.LoadInt32(&got99) == 1 {
			atomic.AddInt32(&after99, 1) // an OLDER value delivered after the newest one: order lost (C20: per-key order)
		}
	}, func(error) {}, func() {})

	var send func(v int)     // the producer's call
	var subscribeLate func() // goroutine A
	switch c.get("scen", "unicast") {
	case "unicast":
		subj := ro.NewUnicastSubject[int](100)
		for i := 0; i < k; i++ {
			subj.Next(i + 1)
		}
		send = func(v int) { subj.Next(v) }
		subscribeLate = func() { subj.Subscribe(obs) }
	case "groupby":
		probe := &Probe{script: nil}
		var group ro.Observable[int]
		groups := ro.GroupBy(func(v int) int { return 0 })(probe.Observable())
		groups.Subscribe(ro.NewObserver(func(g ro.Observable[int]) { group = g }, func(error) {}, func() {}))
		probe.mu.Lock()
		dest, ctx := probe.dest, probe.subCtx
		probe.mu.Unlock()
		if dest == nil {
			return "res " + c.id + " _flag=no-source-subscription"
		}
		for i := 0; i < k; i++ {
			dest.NextWithContext(ctx, i+1) // queued by the group: nobody has subscribed to it yet
		}
		if group == nil {
			return "res " + c.id + " _flag=no-group"
		}
		send = func(v int) { dest.NextWithContext(ctx, v) }
		subscribeLate = func() { group.Subscribe(obs) }
	case "window":
		// the first window of WindowWhen (boundary silent): values queue in it until somebody subscribes to the window
		probe := &Probe{script: nil}
		var win ro.Observable[int]
		ro.WindowWhen[int](neverInt())(probe.Observable()).Subscribe(
			ro.NewObserver(func(w ro.Observable[int]) {
				if win == nil {
					win = w
				}
			}, func(error) {}, func() {}))
		probe.mu.Lock()
		dest, ctx := probe.dest, probe.subCtx
		probe.mu.Unlock()
		if dest == nil || win == nil {
			return "res " + c.id + " _flag=no-window"
		}
		for i := 0; i < k; i++ {
			dest.NextWithContext(ctx, i+1)
		}
		send = func(v int) { dest.NextWithContext(ctx, v) }
		subscribeLate = func() { win.Subscribe(obs) }
	case "serialize", "merge":
		// two producer goroutines on one locking stage (Serialize(); the merged subscriber of Merge): the consumer is blocked
		// inside the delivery of the FIRST producer's value; the second producer's Next returns only after its own value has
		// been delivered (it waits for the stage's lock) - it is not parked in a hidden queue for the other goroutine to drain
		p1, p2 := &Probe{script: nil}, &Probe{script: nil}
		if c.get("scen", "") == "serialize" {
			ro.Serialize[int]()(p1.Observable()).Subscribe(obs)
			p2 = p1
		} else {
			ro.Merge(p1.Observable(), p2.Observable()).Subscribe(obs)
		}
		p1.mu.Lock()
		d1, c1 := p1.dest, p1.subCtx
		p1.mu.Unlock()
		p2.mu.Lock()
		d2, c2 := p2.dest, p2.subCtx
		p2.mu.Unlock()
		if d1 == nil || d2 == nil {
			return "res " + c.id + " _flag=no-source-subscription"
		}
		send = func(v int) { d2.NextWithContext(c2, v) }
		subscribeLate = func() { d1.NextWithContext(c1, 1) }
	case "publish", "behavior", "replay":
		// the multicast subjects: the consumer is blocked inside the delivery of a value that ANOTHER producer is sending;
		// a second producer's Next returns only after its own value has been delivered (it waits for the subject)
		var subj ro.Subject[int]
		switch c.get("scen", "") {
		case "publish":
			subj = ro.NewPublishSubject[int]()
		case "behavior":
			subj = ro.NewBehaviorSubject[int](0)
			atomic.StoreInt32(&seen, -1) // the initial value is replayed at subscription: block on the next one
		default:
			subj = ro.NewReplaySubject[int](2)
		}
		subj.Subscribe(obs)
		send = func(v int) { subj.Next(v) }
		subscribeLate = func() { subj.Next(1) }
	default:
		return "res " + c.id + " unsupported"
	}

	go subscribeLate()
	select {
	case <-entered:
	case <-time.After(2 * time.Second):
		close(gate)
		return "res " + c.id + " _flag=consumer-never-entered"
	}
	ret := make(chan int32, 1)
	go func() {
		send(99)
		ret <- atomic.LoadInt32(&got99)
	}()
	early, delivered := 0, int32(0)
	select {
	case delivered = <-ret:
		early = 1
		close(gate)
	case <-time.After(25 * time.Millisecond):
		close(gate)
		select {
		case delivered = <-ret:
		case <-time.After(2 * time.Second):
			return "res " + c.id + " _flag=next-never-returned"
		}
	}
	time.Sleep(2 * time.Millisecond) // let a replay that is still running finish
	order := "ok"
	if atomic.LoadInt32(&after99) > 0 {
		order = "overtaken"
	}
	return fmt.Sprintf("res %s early=%d delivered=%d order=%s", c.id, early, delivered, order)
}

package main

// Instrumented endpoints shared by all case kinds: marker contexts, canonical rendering
// (mirrors lean/RoModel/Render.lean), the recording observer, scripted probe sources and the
// drop / unhandled-error hooks.

import (
	"context"
	"errors"
	"fmt"
	"io"
	"reflect"
	"sort"
	"strconv"
	"strings"
	"sync"

	"github.com/samber/ro"
)

// ---------- contexts with markers ----------

type markKey struct{}

func withMark(ctx context.Context, m int) context.Context {
	old, _ := ctx.Value(markKey{}).([]int)
	nw := make([]int, len(old)+1)
	copy(nw, old)
	nw[len(old)] = m
	return context.WithValue(ctx, markKey{}, nw)
}

func ctxFromMarks(marks []int) context.Context {
	ctx := context.Background()
	for _, m := range marks {
		ctx = withMark(ctx, m)
	}
	return ctx
}

func renderCtx(ctx context.Context) string {
	if ctx == nil {
		return "nil"
	}
	marks, _ := ctx.Value(markKey{}).([]int)
	if len(marks) == 0 {
		return "-"
	}
	parts := make([]string, len(marks))
	for i, m := range marks {
		parts[i] = strconv.Itoa(m)
	}
	return strings.Join(parts, ".")
}

// ---------- errors ----------

type userErr struct{ n int }

func (e userErr) Error() string { return "user-" + strconv.Itoa(e.n) }

// Unwrap: to the library an error is an opaque payload — no operator may treat a notification differently because of WHAT the
// error is. The scripted errors therefore wrap the well-known values a library might be tempted to special-case (a source that
// failed with its own cancellation / deadline / end of input while the subscription context is alive); they are still rendered
// by their number.
func (e userErr) Unwrap() error {
	switch e.n % 4 {
	case 1:
		return context.Canceled
	case 2:
		return context.DeadlineExceeded
	case 3:
		return io.EOF
	}
	return nil
}

type panicVal struct{ n int } // a non-error panic value

func (p panicVal) String() string { return "pv" + strconv.Itoa(p.n) }

var sentinels = []struct {
	err error
	n   int
}{
	{ro.ErrHeadEmpty, 1}, {ro.ErrTailEmpty, 2}, {ro.ErrFirstEmpty, 3}, {ro.ErrLastEmpty, 4},
	{ro.ErrElementAtNotFound, 5}, {ro.ErrUnicastSubjectConcurrent, 6},
}

func renderErr(err error) string {
	if err == nil {
		// Error(nil): a producer may end its stream with a nil error; it is still an ERROR ending (which callback fired decides,
		// not the value). Scripts write it E0, the model carries it as the reserved error value `sentinel 0`.
		return "s0"
	}
	if u, ok := err.(userErr); ok {
		return "u" + strconv.Itoa(u.n)
	}
	// xerrors.Join (subscription.go:147): a join of one error is rendered as that error
	if j, ok := err.(interface{ Unwrap() []error }); ok {
		es := j.Unwrap()
		if len(es) == 1 {
			return renderErr(es[0])
		}
		parts := make([]string, len(es))
		for i, e := range es {
			parts[i] = renderErr(e)
		}
		return "j[" + strings.Join(parts, ";") + "]"
	}
	msg := err.Error()
	// the three wrappers of errors.go are unexported; recognise them by prefix + Unwrap
	for _, w := range []struct{ prefix, tag string }{{"ro.Observer: ", "ob"}, {"ro.Observable: ", "oe"}, {"ro.Subscription: ", "un"}} {
		if strings.HasPrefix(msg, w.prefix) {
			if inner := errors.Unwrap(err); inner != nil {
				return w.tag + "(" + renderErr(inner) + ")"
			}
		}
	}
	// ErrHeadEmpty/ErrFirstEmpty (and Tail/Last) share their text; identity decides
	for _, s := range sentinels {
		if err == s.err {
			return "s" + strconv.Itoa(s.n)
		}
	}
	if strings.HasPrefix(msg, "unexpected error: pv") {
		return "p" + strings.TrimPrefix(msg, "unexpected error: pv")
	}
	if errors.Is(err, context.Canceled) {
		return "ctxcanceled"
	}
	if errors.Is(err, context.DeadlineExceeded) {
		return "ctxdeadline"
	}
	return "other(" + strings.ReplaceAll(msg, " ", "_") + ")"
}

// ---------- values ----------

func renderVal(v any) string {
	switch x := v.(type) {
	case int:
		return strconv.Itoa(x)
	case int64:
		return strconv.FormatInt(x, 10)
	case bool:
		if x {
			return "t"
		}
		return "f"
	case string:
		return x
	case ro.Notification[int]:
		return "<" + renderNotification(x.Kind, x.Value, x.Err) + ">"
	}
	rv := reflect.ValueOf(v)
	switch rv.Kind() {
	case reflect.Slice, reflect.Array:
		parts := make([]string, rv.Len())
		for i := 0; i < rv.Len(); i++ {
			parts[i] = renderVal(rv.Index(i).Interface())
		}
		return "[" + strings.Join(parts, ";") + "]"
	case reflect.Map:
		parts := make([]string, 0, rv.Len())
		it := rv.MapRange()
		for it.Next() {
			parts = append(parts, renderVal(it.Key().Interface())+":"+renderVal(it.Value().Interface()))
		}
		sort.Strings(parts)
		return "{" + strings.Join(parts, ";") + "}"
	case reflect.Struct:
		// lo.Tuple2..: fields A, B, …
		parts := make([]string, rv.NumField())
		for i := 0; i < rv.NumField(); i++ {
			parts[i] = renderVal(rv.Field(i).Interface())
		}
		return "(" + strings.Join(parts, ":") + ")"
	}
	return fmt.Sprintf("?%v", v)
}

func renderNotification(kind ro.Kind, value any, err error) string {
	switch kind {
	case ro.KindNext:
		return "N" + renderVal(value)
	case ro.KindError:
		return "E" + renderErr(err)
	default:
		return "C"
	}
}

// a dropped notification arrives as fmt.Stringer holding some ro.Notification[T]
func renderDropped(n fmt.Stringer) string {
	rv := reflect.ValueOf(n)
	if rv.Kind() == reflect.Ptr {
		rv = rv.Elem()
	}
	if rv.Kind() != reflect.Struct {
		return "?" + n.String()
	}
	kind, _ := rv.FieldByName("Kind").Interface().(ro.Kind)
	var err error
	if e := rv.FieldByName("Err"); e.IsValid() && !e.IsNil() {
		err, _ = e.Interface().(error)
	}
	return renderNotification(kind, rv.FieldByName("Value").Interface(), err)
}

// ---------- recorder ----------

type Recorder struct {
	mu        sync.Mutex
	held      []heldVal // slice/map values as delivered, with their rendering at delivery time
	trace     []string
	drops     []string
	unhandled []string
	inside    int32 // callbacks currently running
	maxInside int32
	// optional: run after the notification has been recorded (fault injection into the final observer)
	afterN, afterE, afterC func()
}

// a delivered value that can alias operator state (slices, maps): kept to re-render at the end
type heldVal struct {
	v    any
	snap string
	idx  int
}

// spareSentinel is written by the recorder into the spare capacity (the elements between len and cap) of every []int it is
// handed: that memory belongs to the receiver from then on (appending to a value one has received is ordinary use). An
// operator that keeps filling the same backing array overwrites it (detected by aliasCheck), or later delivers it.
const spareSentinel = -7777777

// spareGuard: the same check for recorders that render a delivered value at once (kind=multib, kind=timed): the spare
// capacity of every []int handed out is claimed, and must still be the receiver's at the end of the run.
type spareGuard struct {
	mu   sync.Mutex
	held [][]int
}

func (g *spareGuard) claim(v any) {
	s, ok := v.([]int)
	if !ok || cap(s) == len(s) {
		return
	}
	full := s[:cap(s)]
	for i := len(s); i < len(full); i++ {
		full[i] = spareSentinel
	}
	g.mu.Lock()
	g.held = append(g.held, s)
	g.mu.Unlock()
}

// bad: the operator wrote into the spare capacity of a value it had handed out, or delivered such memory again
func (g *spareGuard) bad() bool {
	g.mu.Lock()
	defer g.mu.Unlock()
	for _, s := range g.held {
		for _, x := range s {
			if x == spareSentinel {
				return true
			}
		}
		for _, x := range s[len(s):cap(s)] {
			if x != spareSentinel {
				return true
			}
		}
	}
	return false
}

func (r *Recorder) hold(v any) {
	rv := reflect.ValueOf(v)
	k := rv.Kind()
	if k == reflect.Slice || k == reflect.Map {
		if s, ok := v.([]int); ok && cap(s) > len(s) {
			full := s[:cap(s)]
			for i := len(s); i < len(full); i++ {
				full[i] = spareSentinel
			}
		}
		r.mu.Lock()
		r.held = append(r.held, heldVal{v, renderVal(v), len(r.trace)})
		r.mu.Unlock()
	}
}

// aliasCheck: "ok", or the index of the first delivered value that was modified after delivery
func (r *Recorder) aliasCheck() string {
	r.mu.Lock()
	defer r.mu.Unlock()
	for _, h := range r.held {
		if renderVal(h.v) != h.snap {
			return strconv.Itoa(h.idx)
		}
		if s, ok := h.v.([]int); ok {
			for _, x := range s {
				if x == spareSentinel { // memory the receiver of an earlier value owned was delivered again
					return "s" + strconv.Itoa(h.idx)
				}
			}
			for _, x := range s[len(s):cap(s)] {
				if x != spareSentinel { // the operator wrote into the spare capacity of a value it had handed out
					return "c" + strconv.Itoa(h.idx)
				}
			}
		}
	}
	return "ok"
}

func (r *Recorder) add(s string) {
	r.mu.Lock()
	r.trace = append(r.trace, s)
	r.mu.Unlock()
}

func (r *Recorder) traceLen() int {
	r.mu.Lock()
	defer r.mu.Unlock()
	return len(r.trace)
}

func joinOrDash(l []string) string {
	if len(l) == 0 {
		return "-"
	}
	return strings.Join(l, ",")
}

// observer[T] returns the final observer that records into r.
func observer[T any](r *Recorder) ro.Observer[T] {
	return ro.NewObserverWithContext(
		func(ctx context.Context, v T) {
			r.hold(v)
			r.add("N" + renderVal(v) + "/" + renderCtx(ctx))
			if r.afterN != nil {
				r.afterN()
			}
		},
		func(ctx context.Context, err error) {
			r.add("E" + renderErr(err) + "/" + renderCtx(ctx))
			if r.afterE != nil {
				r.afterE()
			}
		},
		func(ctx context.Context) {
			r.add("C/" + renderCtx(ctx))
			if r.afterC != nil {
				r.afterC()
			}
		},
	)
}

// the hooks are process-global; cases run one at a time
var curRec *Recorder
var hookMu sync.Mutex

func installHooks() {
	ro.OnDroppedNotification = func(ctx context.Context, n fmt.Stringer) {
		hookMu.Lock()
		r := curRec
		hookMu.Unlock()
		if r != nil {
			s := renderDropped(n)
			r.mu.Lock()
			r.drops = append(r.drops, s)
			r.mu.Unlock()
		}
	}
	ro.OnUnhandledError = func(ctx context.Context, err error) {
		hookMu.Lock()
		r := curRec
		hookMu.Unlock()
		if r != nil {
			s := renderErr(err)
			r.mu.Lock()
			r.unhandled = append(r.unhandled, s)
			r.mu.Unlock()
		}
	}
}

func setRecorder(r *Recorder) {
	hookMu.Lock()
	curRec = r
	hookMu.Unlock()
}

// ---------- scripts and probe sources ----------

type Tok struct {
	kind byte // 'N', 'E', 'C'
	val  int
	mark int // 0 = none
}

func parseScript(s string) ([]Tok, error) {
	if s == "-" || s == "" {
		return nil, nil
	}
	var out []Tok
	for _, t := range strings.Split(s, ",") {
		body, mark := t, 0
		if i := strings.IndexByte(t, '@'); i >= 0 {
			body = t[:i]
			m, err := strconv.Atoi(t[i+1:])
			if err != nil {
				return nil, err
			}
			mark = m
		}
		if body == "" {
			return nil, fmt.Errorf("empty token")
		}
		tok := Tok{kind: body[0], mark: mark}
		if body[0] == 'N' || body[0] == 'E' {
			v, err := strconv.Atoi(body[1:])
			if err != nil {
				return nil, err
			}
			tok.val = v
		} else if body != "C" {
			return nil, fmt.Errorf("bad token %q", t)
		}
		out = append(out, tok)
	}
	return out, nil
}

func (t Tok) String() string {
	s := string(t.kind)
	if t.kind != 'C' {
		s += strconv.Itoa(t.val)
	}
	if t.mark != 0 {
		s += "@" + strconv.Itoa(t.mark)
	}
	return s
}

func scriptString(toks []Tok) string {
	if len(toks) == 0 {
		return "-"
	}
	parts := make([]string, len(toks))
	for i, t := range toks {
		parts[i] = t.String()
	}
	return strings.Join(parts, ",")
}

// Probe is a scripted source. In sync mode it plays its script inside Subscribe; in hot mode
// the harness pushes the notifications after Subscribe has returned.
type Probe struct {
	mu        sync.Mutex
	subs      int
	teardowns int
	dest      ro.Observer[int]
	subCtx    context.Context
	script    []Tok
	sync      bool
	afterEach func(i int) // called after each emitted notification returns
	onSub     func()      // called when the probe is subscribed, before it emits
}

func emit(dest ro.Observer[int], subCtx context.Context, t Tok) {
	ctx := subCtx
	if t.mark != 0 {
		ctx = withMark(subCtx, t.mark)
	}
	switch t.kind {
	case 'N':
		dest.NextWithContext(ctx, t.val)
	case 'E':
		if t.val == 0 {
			dest.ErrorWithContext(ctx, nil) // E0 = Error(nil)
		} else {
			dest.ErrorWithContext(ctx, userErr{t.val})
		}
	case 'C':
		dest.CompleteWithContext(ctx)
	}
}

func (p *Probe) Observable() ro.Observable[int] {
	return ro.NewUnsafeObservableWithContext(func(ctx context.Context, dest ro.Observer[int]) ro.Teardown {
		p.mu.Lock()
		p.subs++
		p.dest = dest
		p.subCtx = ctx
		p.mu.Unlock()
		if p.onSub != nil {
			p.onSub()
		}
		if p.sync {
			for i, t := range p.script {
				emit(dest, ctx, t)
				if p.afterEach != nil {
					p.afterEach(i)
				}
			}
		}
		return func() {
			p.mu.Lock()
			p.teardowns++
			p.mu.Unlock()
		}
	})
}

// push plays notification i on a hot probe (no-op when nothing is subscribed)
func (p *Probe) push(i int) {
	p.mu.Lock()
	dest, ctx := p.dest, p.subCtx
	p.mu.Unlock()
	if dest == nil {
		if p.afterEach != nil {
			p.afterEach(i)
		}
		return
	}
	emit(dest, ctx, p.script[i])
	if p.afterEach != nil {
		p.afterEach(i)
	}
}

package main

// kind=teardown (C03, operator half): probes whose teardown PANICS (with an error value `u<n>` or
// a non-error value `p<n>`) below each catalogue operator and in small multi-source set-ups, plus
// TapOnFinalize callbacks that may panic too. Observed: which teardowns ran, in order, with
// repetitions (`ran=`); the value re-raised to the caller of Unsubscribe (or to the emitting source
// when the stream ends by its own terminal), reduced to `un(<root causes>)` (`raised=`); how many
// teardowns had run when it was raised (`at=`); what a second Unsubscribe does (`again=`: number
// of teardowns it runs, +10 if it panics); the closed flag. EQUAL to lean/RoModel/CutIn.lean §3
// `unsubscribe` over the set-up's subscription tree (RoModel/Drivers/Cut.lean `setupTree`).

import (
	"context"
	"errors"
	"fmt"
	"math/rand"
	"strconv"
	"strings"
	"sync"
	"time"

	"github.com/samber/ro"
)

func init() { registerKind("teardown", genTeardown, "teardown", runTeardownCase) }

type tdLog struct {
	mu  sync.Mutex
	ran []int
}

func (l *tdLog) add(id int) {
	l.mu.Lock()
	l.ran = append(l.ran, id)
	l.mu.Unlock()
}

func (l *tdLog) len() int {
	l.mu.Lock()
	defer l.mu.Unlock()
	return len(l.ran)
}

// a teardown / finalize callback with identity `id` that panics with `pan` when non-nil
func (l *tdLog) teardown(id int, pan any) func() {
	return func() {
		l.add(id)
		if pan != nil {
			panic(pan)
		}
	}
}

type tdProbe struct {
	mu   sync.Mutex
	dest ro.Observer[int]
	ctx  context.Context
	td   func()
	subd chan struct{} // closed when the probe is subscribed (first time)
	once sync.Once
}

func (p *tdProbe) Observable() ro.Observable[int] {
	return ro.NewUnsafeObservableWithContext(func(ctx context.Context, dest ro.Observer[int]) ro.Teardown {
		p.mu.Lock()
		p.dest, p.ctx = dest, ctx
		p.mu.Unlock()
		if p.subd != nil {
			p.once.Do(func() { close(p.subd) })
		}
		return p.td
	})
}

func (p *tdProbe) send(t Tok) {
	p.mu.Lock()
	dest, ctx := p.dest, p.ctx
	p.mu.Unlock()
	if dest != nil {
		emit(dest, ctx, t)
	}
}

// `pan=1:u5,2:p6`
func parsePan(s string) map[int]any {
	out := map[int]any{}
	if s == "-" || s == "" {
		return out
	}
	for _, t := range strings.Split(s, ",") {
		f := strings.SplitN(t, ":", 2)
		if len(f) != 2 || len(f[1]) < 2 {
			continue
		}
		id, err1 := strconv.Atoi(f[0])
		n, err2 := strconv.Atoi(f[1][1:])
		if err1 != nil || err2 != nil {
			continue
		}
		switch f[1][0] {
		case 'u':
			out[id] = userErr{n}
		case 'p':
			out[id] = panicVal{n}
		}
	}
	return out
}

func isUnsubscriptionError(err error) bool {
	return strings.HasPrefix(err.Error(), "ro.Subscription: ") && errors.Unwrap(err) != nil
}

func errLeaves(err error) []string {
	if j, ok := err.(interface{ Unwrap() []error }); ok {
		var out []string
		for _, e := range j.Unwrap() {
			out = append(out, errLeaves(e)...)
		}
		return out
	}
	if isUnsubscriptionError(err) {
		return errLeaves(errors.Unwrap(err))
	}
	return []string{renderErr(err)}
}

// what Unsubscribe raises must be a join of unsubscription errors (subscription.go:146-149, 196)
func normRaised(v any) string {
	if v == nil {
		return "-"
	}
	err, ok := v.(error)
	if !ok {
		return "bad(non-error)"
	}
	j, ok := err.(interface{ Unwrap() []error })
	if !ok || len(j.Unwrap()) == 0 {
		return "bad(" + renderErr(err) + ")"
	}
	for _, e := range j.Unwrap() {
		if !isUnsubscriptionError(e) {
			return "bad(member:" + renderErr(e) + ")"
		}
	}
	return "un(" + strings.Join(errLeaves(err), "+") + ")"
}

func catch(f func()) (v any) {
	defer func() { v = recover() }()
	f()
	return nil
}

func tapSub[T any](o ro.Observable[T], cb func(), ctx context.Context, rec *Recorder) ro.Subscription {
	return ro.TapOnFinalize[T](cb)(o).SubscribeWithContext(ctx, observer[T](rec))
}

func tapSubscribeAny(a any, cb func(), ctx context.Context, rec *Recorder) (ro.Subscription, bool) {
	switch o := a.(type) {
	case ro.Observable[int]:
		return tapSub(o, cb, ctx, rec), true
	case ro.Observable[[]int]:
		return tapSub(o, cb, ctx, rec), true
	case ro.Observable[bool]:
		return tapSub(o, cb, ctx, rec), true
	case ro.Observable[int64]:
		return tapSub(o, cb, ctx, rec), true
	case ro.Observable[map[int]int]:
		return tapSub(o, cb, ctx, rec), true
	case ro.Observable[ro.Notification[int]]:
		return tapSub(o, cb, ctx, rec), true
	}
	return nil, false
}

func runTeardownCase(c *Case) string {
	return quickGuard(func() string { return runTeardownCase1(c) }, "res "+c.id+" harness-timeout")
}

func runTeardownCase1(c *Case) string {
	setup := c.get("setup", "plain")
	end := c.get("end", "unsub")
	pan := parsePan(c.get("pan", "-"))
	subCtx := ctxFromMarks([]int{7})
	log := &tdLog{}
	rec := &Recorder{}
	setRecorder(nil)
	p1 := &tdProbe{td: log.teardown(1, pan[1])}
	p2 := &tdProbe{td: log.teardown(2, pan[2])}
	p3 := &tdProbe{td: log.teardown(3, pan[3])}
	var sub ro.Subscription
	var baseline map[string]int
	ok := true
	switch setup {
	case "plain":
		var a any
		if a, ok = buildCaseObs(c, p1.Observable()); ok {
			sub, ok = cutSubscribeAny(a, subCtx, rec, &cutCtl{}, false)
		}
	case "tapAbove":
		var a any
		if a, ok = buildCaseObs(c, p1.Observable()); ok {
			sub, ok = tapSubscribeAny(a, log.teardown(2, pan[2]), subCtx, rec)
		}
	case "tapBelow":
		var a any
		if a, ok = buildCaseObs(c, ro.TapOnFinalize[int](log.teardown(2, pan[2]))(p1.Observable())); ok {
			sub, ok = cutSubscribeAny(a, subCtx, rec, &cutCtl{}, false)
		}
	case "leak":
		// the operators that own a goroutine or a timer (leak.go), over the panicking probe
		lo, found := leakOps[c.get("op", "?")]
		if !found || !lo.src {
			ok = false
			break
		}
		baseline = roGoroutineCounts()
		p1.subd = make(chan struct{})
		sub = lo.sub(p1.Observable(), rec)
		select { // ToChannel subscribes its source from a goroutine, after 1ms
		case <-p1.subd:
		case <-time.After(5 * time.Second):
			return "res " + c.id + " source-never-subscribed"
		}
		// let that goroutine register the subscription it just obtained (otherwise our Unsubscribe makes
		// the registration run the panicking teardown on the library's unrecovered goroutine)
		time.Sleep(2 * time.Millisecond)
	case "merge":
		sub = subAny(ro.Merge(p1.Observable(), p2.Observable()), rec)
	case "merge3":
		sub = subAny(ro.Merge(p1.Observable(), p2.Observable(), p3.Observable()), rec)
	case "takeUntil":
		sub = subAny(ro.TakeUntil[int](p2.Observable())(p1.Observable()), rec)
	case "combineLatest":
		sub = subAny(ro.CombineLatest2(p1.Observable(), p2.Observable()), rec)
	case "race":
		sub = subAny(ro.Race(p1.Observable(), p2.Observable()), rec)
	case "race3":
		sub = subAny(ro.Race(p1.Observable(), p2.Observable(), p3.Observable()), rec)
	case "raceWith":
		sub = subAny(ro.RaceWith(p2.Observable(), p3.Observable())(p1.Observable()), rec)
	default:
		ok = false
	}
	if !ok || sub == nil {
		return "res " + c.id + " unsupported"
	}
	// multi-source set-ups: some traffic first, so that the operators hold state when they are torn
	// down (below a single operator a value could end the stream early: Take, First, …)
	if c.get("op", "") == "" && !strings.HasPrefix(setup, "race") { // Race: torn down while nobody has won yet
		p1.send(Tok{'N', 2, 1})
		if setup != "takeUntil" {
			p2.send(Tok{'N', 3, 2})
		}
		p1.send(Tok{'N', 0, 3})
	}
	var raised any
	switch end {
	case "complete":
		raised = catch(func() { p1.send(Tok{'C', 0, 4}) })
	case "error":
		raised = catch(func() { p1.send(Tok{'E', 1, 4}) })
	default:
		raised = catch(sub.Unsubscribe)
	}
	at := "-"
	if raised != nil {
		at = strconv.Itoa(log.len())
	}
	n0 := log.len()
	again := 0
	if v := catch(sub.Unsubscribe); v != nil {
		again = 10
	}
	again += log.len() - n0
	closed := 0
	if sub.IsClosed() {
		closed = 1
	}
	log.mu.Lock()
	ran := make([]string, len(log.ran))
	for i, id := range log.ran {
		ran[i] = strconv.Itoa(id)
	}
	log.mu.Unlock()
	line := fmt.Sprintf("res %s ran=%s raised=%s at=%s again=%d closed=%d", c.id, joinOrDash(ran), normRaised(raised), at, again, closed)
	if setup == "leak" {
		// no goroutine created by the library on behalf of THIS subscription may survive it
		// (goroutines that leaked in earlier cases are in the baseline)
		leaked := 1
		for deadline := time.Now().Add(400 * time.Millisecond); ; time.Sleep(time.Millisecond) {
			extra := false
			for loc, n := range roGoroutineCounts() {
				if n > baseline[loc] {
					extra = true
				}
			}
			if !extra {
				leaked = 0
				break
			}
			if time.Now().After(deadline) {
				break
			}
		}
		line += fmt.Sprintf(" leaked=%d", leaked)
	}
	return line
}

func roGoroutineCounts() map[string]int {
	out := map[string]int{}
	for _, loc := range roGoroutines() {
		out[loc]++
	}
	return out
}

func genTeardown(tier string, seed int64, only string) []*Case {
	r := rand.New(rand.NewSource(seed*4409 + 13))
	var cases []*Case
	id := 0
	add := func(kv ...string) {
		id++
		cases = append(cases, newCase(id, append([]string{"kind", "teardown"}, kv...)...))
	}
	// every subset of the `n` teardowns panicking, each with an error value or a non-error value
	pans := func(n int) []string {
		out := []string{}
		var rec func(i int, cur []string)
		rec = func(i int, cur []string) {
			if i > n {
				out = append(out, joinOrDash(cur))
				return
			}
			rec(i+1, cur)
			for _, kind := range []string{"u", "p"} {
				rec(i+1, append(append([]string{}, cur...), fmt.Sprintf("%d:%s%d", i, kind, 1+r.Intn(8))))
			}
		}
		rec(1, nil)
		return out
	}
	for _, spec := range opSpecs {
		if (only != "" && spec.name != only) || !cutCatalogue[spec.name] {
			continue
		}
		variants := spec.variants
		if tier != "thorough" {
			variants = variants[:1]
		}
		for _, variant := range variants {
			cb := "-"
			if l := cbChoices(spec.cbKind, variant); len(l) > 0 {
				cb = l[r.Intn(len(l))]
			}
			for _, p := range spec.params {
				if (spec.name == "Take" || spec.name == "TakeLast") && p[0] == 0 {
					continue // Empty(): the source is never subscribed, there is nothing to tear down
				}
				base := []string{"op", spec.name, "p", intsString(p), "var", variant, "cb", cb}
				for _, st := range []struct {
					setup string
					n     int
					ends  []string
				}{{"plain", 1, []string{"unsub", "complete", "error"}}, {"tapAbove", 2, []string{"unsub"}}, {"tapBelow", 2, []string{"unsub", "complete", "error"}}} {
					for _, end := range st.ends {
						for _, pan := range pans(st.n) {
							add(append([]string{"setup", st.setup}, append(base, "end", end, "pan", pan)...)...)
						}
					}
				}
			}
		}
	}
	if only == "" {
		var names []string
		for k, lo := range leakOps {
			if lo.src {
				names = append(names, k)
			}
		}
		sortStrings(names)
		for _, n := range names {
			for _, pan := range pans(1) {
				add("setup", "leak", "op", n, "end", "unsub", "pan", pan)
			}
		}
		for _, st := range []struct {
			setup string
			n     int
		}{{"merge", 2}, {"merge3", 3}, {"takeUntil", 2}, {"combineLatest", 2}, {"race", 2}, {"race3", 3}, {"raceWith", 3}} {
			for _, pan := range pans(st.n) {
				add("setup", st.setup, "end", "unsub", "pan", pan)
			}
		}
	}
	return cases
}

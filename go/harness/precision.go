package main

// kind=precision (C04): FloorWithPrecision / CeilWithPrecision (operator_math.go) over exactly representable inputs
// x = m / 2^k and moderate `places`. The delivered float is n / 10^places for an integer n (n · 10^-places for negative
// places); the harness prints n = round(result · 10^places), the model (RoModel/Ops/Precision.lean) computes n exactly —
// integers are compared, never floats.
//
//   case 3 kind=precision op=Floor places=2 k=2 ms=5,-7,1234
//   res 3 ns=125,-175,30850 term=C

import (
	"fmt"
	"math"
	"math/rand"
	"strconv"
	"strings"

	"github.com/samber/ro"
)

func init() { registerKind("precision", genPrecision, "precision", runPrecision) }

func genPrecision(tier string, seed int64, only string) []*Case {
	r := rand.New(rand.NewSource(seed*31 + 5))
	var out []*Case
	id := 0
	per := 3
	if tier == "thorough" {
		per = 20
	}
	for _, op := range []string{"Floor", "Ceil"} {
		if only != "" && only != op {
			continue
		}
		for places := -4; places <= 6; places++ {
			for k := 0; k <= 4; k++ {
				for j := 0; j < per; j++ {
					var ms []string
					// boundaries (multiples of the step, one below / above) and random numerators, both signs
					step := 1
					if places < 0 {
						for i := 0; i < -places; i++ {
							step *= 10
						}
					}
					base := (r.Intn(40) - 20) * step * (1 << uint(k))
					for _, m := range []int{0, base, base + 1, base - 1, r.Intn(2000001) - 1000000, r.Intn(2001) - 1000, -(r.Intn(300) + 1)} {
						ms = append(ms, strconv.Itoa(m))
					}
					id++
					out = append(out, newCase(id, "kind", "precision", "op", op, "places", strconv.Itoa(places), "k", strconv.Itoa(k), "ms", strings.Join(ms, ",")))
				}
			}
		}
	}
	return out
}

func runPrecision(c *Case) string {
	places, _ := strconv.Atoi(c.get("places", "0"))
	k, _ := strconv.Atoi(c.get("k", "0"))
	ms := parseInts(c.get("ms", "-"))
	xs := make([]float64, len(ms))
	for i, m := range ms {
		xs[i] = float64(m) / float64(int(1)<<uint(k))
	}
	var op func(ro.Observable[float64]) ro.Observable[float64]
	if c.get("op", "Floor") == "Ceil" {
		op = ro.CeilWithPrecision(places)
	} else {
		op = ro.FloorWithPrecision(places)
	}
	setRecorder(nil)
	vals, err := ro.Collect(op(ro.Just(xs...)))
	term := "C"
	if err != nil {
		term = "E" + renderErr(err)
	}
	ns := make([]string, len(vals))
	scale := math.Pow10(places)
	for i, v := range vals {
		n := math.Round(v * scale)
		if math.IsNaN(n) || math.IsInf(n, 0) || math.Abs(n) > 1e15 {
			ns[i] = "?" + strconv.FormatFloat(v, 'g', -1, 64)
		} else {
			ns[i] = strconv.FormatInt(int64(n), 10)
		}
	}
	return fmt.Sprintf("res %s ns=%s term=%s", c.id, joinOrDash(ns), term)
}

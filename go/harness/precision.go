package main

// kind=precision (C04): FloorWithPrecision / CeilWithPrecision (operator_math.go) over exactly representable inputs
// x = m / 2^k and moderate `places`. The delivered float is n / 10^places for an integer n (n · 10^-places for negative
// places); the harness prints n = round(result · 10^places), the model (RoModel/Ops/Precision.lean) computes n exactly —
// integers are compared, never floats.
//
//   case 3 kind=precision op=Floor places=2 k=2 ms=5,-7,1234
//   res 3 ns=125,-175,30850 term=C

import (
	"context"
	"fmt"
	"math"
	"math/rand"
	"strconv"
	"strings"

	"github.com/samber/ro"
)

func init() { registerKind("precision", genPrecision, "precision", runPrecision) }

func genPrecision(tier string, seed int64, only string) []*Case {
	r := rand.New(rand.NewSource(seed*31 + 5))
	var out []*Case
	id := 0
	per := 3
	if tier == "thorough" {
		per = 20
	}
	for _, op := range []string{"Floor", "Ceil"} {
		if only != "" && only != op {
			continue
		}
		for places := -4; places <= 6; places++ {
			for k := 0; k <= 4; k++ {
				for j := 0; j < per; j++ {
					var ms []string
					// boundaries (multiples of the step, one below / above) and random numerators, both signs
					step := 1
					if places < 0 {
						for i := 0; i < -places; i++ {
							step *= 10
						}
					}
					base := (r.Intn(40) - 20) * step * (1 << uint(k))
					for _, m := range []int{0, base, base + 1, base - 1, r.Intn(2000001) - 1000000, r.Intn(2001) - 1000, -(r.Intn(300) + 1)} {
						ms = append(ms, strconv.Itoa(m))
					}
					id++
					out = append(out, newCase(id, "kind", "precision", "op", op, "places", strconv.Itoa(places), "k", strconv.Itoa(k), "ms", strings.Join(ms, ",")))
				}
			}
		}
	}
	// ctxrun=1: the contexts, for every magnitude of `places` - the moderate ones, the chunked big.Float paths (|places| > 308),
	// the infinite ones - and inputs whose result overflows: each value is sent with a context of its own (7.k) and comes out
	// with exactly that context (a per-item map: one output per input, the notification's context, never the subscription's)
	for _, op := range []string{"Floor", "Ceil"} {
		if only != "" && only != op {
			continue
		}
		for _, places := range []int{-400, -309, -308, -20, 0, 15, 308, 309, 400, -9856, -9857, 9857, -100000, 100000, math.MinInt64 + 1, math.MaxInt64} {
			id++
			out = append(out, newCase(id, "kind", "precision", "op", op, "places", strconv.Itoa(places), "k", "1", "ms", "0,247,-247,3,-3,20000001", "ctxrun", "1"))
		}
	}
	return out
}

func runPrecisionCtx(c *Case, op func(ro.Observable[float64]) ro.Observable[float64], xs []float64) string {
	setRecorder(nil)
	src := ro.NewUnsafeObservableWithContext(func(ctx context.Context, dest ro.Observer[float64]) ro.Teardown {
		for i, x := range xs {
			dest.NextWithContext(withMark(ctx, i+1), x)
		}
		dest.CompleteWithContext(withMark(ctx, len(xs)+1))
		return nil
	})
	var got []string
	op(src).SubscribeWithContext(ctxFromMarks([]int{7}), ro.NewObserverWithContext(
		func(ctx context.Context, v float64) { got = append(got, "N/"+renderCtx(ctx)) },
		func(ctx context.Context, err error) { got = append(got, "E/"+renderCtx(ctx)) },
		func(ctx context.Context) { got = append(got, "C/"+renderCtx(ctx)) }))
	return "res " + c.id + " ctxs=" + joinOrDash(got)
}

func runPrecision(c *Case) string {
	places, _ := strconv.Atoi(c.get("places", "0"))
	k, _ := strconv.Atoi(c.get("k", "0"))
	ms := parseInts(c.get("ms", "-"))
	xs := make([]float64, len(ms))
	for i, m := range ms {
		xs[i] = float64(m) / float64(int(1)<<uint(k))
	}
	var op func(ro.Observable[float64]) ro.Observable[float64]
	if c.get("op", "Floor") == "Ceil" {
		op = ro.CeilWithPrecision(places)
	} else {
		op = ro.FloorWithPrecision(places)
	}
	if c.get("ctxrun", "-") == "1" {
		return runPrecisionCtx(c, op, xs)
	}
	setRecorder(nil)
	vals, err := ro.Collect(op(ro.Just(xs...)))
	term := "C"
	if err != nil {
		term = "E" + renderErr(err)
	}
	ns := make([]string, len(vals))
	scale := math.Pow10(places)
	for i, v := range vals {
		n := math.Round(v * scale)
		if math.IsNaN(n) || math.IsInf(n, 0) || math.Abs(n) > 1e15 {
			ns[i] = "?" + strconv.FormatFloat(v, 'g', -1, 64)
		} else {
			ns[i] = strconv.FormatInt(int64(n), 10)
		}
	}
	return fmt.Sprintf("res %s ns=%s term=%s", c.id, joinOrDash(ns), term)
}

module verif/harness

go 1.18

require github.com/samber/ro v0.0.0

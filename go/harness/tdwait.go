package main

// kind=tdwait (C06: "Wait … always returns once the subscription is closed, Collect never hangs on a stream that has
// terminated"): a source with TWO producer goroutines on a safe subscriber — P1 emits values until it is told to stop, P2
// ends the stream (Complete / Error) — and the usual teardown "stop the producer and wait until it has left":
//
//	close(stop); <-done
//
// When the stream ends by itself the subscriber delivers the terminal under its producer lock, RELEASES the lock and only
// then runs the teardowns: P1, which is waiting for that lock inside Next, gets it, sees the closed subscriber, returns,
// sees `stop` and leaves. If the teardowns ran under the lock, P1 would never leave and the teardown (hence Complete, Wait,
// Collect) would hang. A watchdog inside the teardown turns the hang into `hang=1` so the case always ends.
//
//   case 2 kind=tdwait via=map end=C
//   res 2 hang=0 wait=returned term=C
// model side: constant (RoProps/C06lock.regenerated_teardowns_outside_mu).

import (
	"context"
	"fmt"
	"sync"
	"sync/atomic"
	"time"

	"github.com/samber/ro"
)

func init() { registerKind("tdwait", genTdWait, "tdwait", runTdWait) }

func genTdWait(tier string, seed int64, only string) []*Case {
	reps := 2
	if tier == "thorough" {
		reps = 12
	}
	var out []*Case
	id := 0
	for r := 0; r < reps; r++ {
		for _, via := range []string{"plain", "map", "chain", "merge", "collect", "evsafe", "evsafeobs"} {
			if only != "" && only != via {
				continue
			}
			for _, end := range []string{"C", "E"} {
				id++
				out = append(out, newCase(id, "kind", "tdwait", "via", via, "end", end))
			}
		}
	}
	return out
}

// via=evsafe / evsafeobs: an EVENTUALLY-SAFE subscriber (its Next gives way under contention: TryLock, drop) whose
// terminal arrives from a second goroutine while a Next callback is still running. Only values may be given up: Error
// and Complete wait for the lock in every mode (RoProps/C07k.kernel_terminal_refused_only_when_closed: a terminal is
// refused only by a subscriber that is already closed), so the terminal is delivered once the callback has returned, the
// subscription closes, its teardown runs once and Wait returns.
func runTdWaitEvSafe(c *Case) string {
	fail := c.get("end", "C") == "E"
	entered, gate := make(chan struct{}), make(chan struct{})
	term := make(chan string, 4)
	var tds int32
	dest := ro.NewObserver(func(int) {
		select {
		case <-entered:
		default:
			close(entered)
			<-gate
		}
	}, func(error) { term <- "E" }, func() { term <- "C" })
	var sub ro.Subscription
	var prod ro.Observer[int]
	if c.get("via", "") == "evsafe" {
		s := ro.NewEventuallySafeSubscriber[int](dest)
		s.Add(func() { atomic.AddInt32(&tds, 1) })
		sub, prod = s, s
	} else {
		ready := make(chan ro.Observer[int], 1)
		sub = ro.NewEventuallySafeObservable(func(d ro.Observer[int]) ro.Teardown {
			ready <- d
			return func() { atomic.AddInt32(&tds, 1) }
		}).Subscribe(dest)
		prod = <-ready
	}
	go prod.Next(1)
	select {
	case <-entered:
	case <-time.After(2 * time.Second):
		return "res " + c.id + " _flag=callback-never-entered"
	}
	returned := make(chan struct{})
	go func() {
		if fail {
			prod.Error(userErr{1})
		} else {
			prod.Complete()
		}
		close(returned)
	}()
	time.Sleep(2 * time.Millisecond) // the terminal call is under way (waiting for the lock, or — wrongly — already given up)
	close(gate)
	hang := 0
	select {
	case <-returned:
	case <-time.After(2 * time.Second):
		hang = 1
	}
	waited := make(chan struct{})
	go func() { sub.Wait(); close(waited) }()
	wait := "returned"
	select {
	case <-waited:
	case <-time.After(time.Second):
		wait = "hung"
	}
	t := "-"
	select {
	case t = <-term:
	default:
	}
	if n := atomic.LoadInt32(&tds); n != 1 && wait == "returned" {
		return fmt.Sprintf("res %s _flag=teardown-ran-%d-times", c.id, n)
	}
	return fmt.Sprintf("res %s hang=%d wait=%s term=%s", c.id, hang, wait, t)
}

func runTdWait(c *Case) string {
	setRecorder(nil)
	if v := c.get("via", ""); v == "evsafe" || v == "evsafeobs" {
		return runTdWaitEvSafe(c)
	}
	fail := c.get("end", "C") == "E"
	var hang int32
	src := ro.NewObservableWithContext(func(ctx context.Context, dest ro.Observer[int]) ro.Teardown {
		stop := make(chan struct{})
		done := make(chan struct{})
		var once sync.Once
		go func() { // P1
			defer close(done)
			for i := 0; ; i++ {
				select {
				case <-stop:
					return
				default:
				}
				dest.NextWithContext(ctx, i)
			}
		}()
		go func() { // P2
			time.Sleep(300 * time.Microsecond)
			if fail {
				dest.ErrorWithContext(ctx, userErr{1})
			} else {
				dest.CompleteWithContext(ctx)
			}
		}()
		return func() {
			once.Do(func() { close(stop) })
			select {
			case <-done:
			case <-time.After(time.Second):
				atomic.StoreInt32(&hang, 1)
			}
		}
	})
	var obsv ro.Observable[int]
	switch c.get("via", "plain") {
	case "plain", "collect":
		obsv = src
	case "map":
		obsv = ro.Map(func(v int) int { return v + 1 })(src)
	case "chain":
		obsv = ro.Pipe2(src, ro.Filter(func(v int) bool { return v%2 == 0 }), ro.Map(func(v int) int { return v + 1 }))
	case "merge":
		obsv = ro.Merge(src, ro.Empty[int]())
	default:
		return "res " + c.id + " unsupported"
	}
	term := make(chan string, 4)
	waited := make(chan struct{})
	if c.get("via", "") == "collect" {
		go func() {
			_, err := ro.Collect(obsv)
			if err != nil {
				term <- "E"
			} else {
				term <- "C"
			}
			close(waited)
		}()
	} else {
		go func() {
			sub := obsv.Subscribe(ro.NewObserver(func(int) {},
				func(error) { time.Sleep(200 * time.Microsecond); term <- "E" },
				func() { time.Sleep(200 * time.Microsecond); term <- "C" }))
			sub.Wait()
			close(waited)
		}()
	}
	wait := "returned"
	select {
	case <-waited:
	case <-time.After(5 * time.Second):
		wait = "hung"
	}
	t := "-"
	select {
	case t = <-term:
	default:
	}
	return fmt.Sprintf("res %s hang=%d wait=%s term=%s", c.id, atomic.LoadInt32(&hang), wait, t)
}

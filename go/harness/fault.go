package main

// kind=fault (C07): one single-source operator over one raw script with panics / error returns
// injected into user-supplied code: the operator's callbacks (named callbacks of ops.go wrapped so
// that invocation k fails), the subscribe function and the teardown of the scripted source, and
// the three callbacks of the final observer. Result: what the final observer's callbacks saw, the
// dropped notifications, the unhandled-error hook, panics that escaped into the goroutine that
// called Subscribe / Next / Unsubscribe, teardown count, and whether everything stayed usable
// (a follow-up notification, IsClosed and Unsubscribe all return).
//
//   case 7 kind=fault op=Map p=- var=ictx cb=addi+t53 mode=hot sub=7 safe=1 src=N1@1,N2@2,C@3 faults=cb:1:pe5,fe:0:pv2
//   case 8 kind=fault op=Finalizers fs=ok,pe1,pv2
//   case 9 kind=fault op=Go:Future faults=cb:0:pe5        (run in a child process)

import (
	"bytes"
	"context"
	"fmt"
	"math/rand"
	"os"
	"os/exec"
	"strconv"
	"strings"
	"sync"
	"time"

	"github.com/samber/ro"
)

func init() {
	nestedRoErr(8) // made before any case installs its hooks
	if len(os.Args) > 2 && os.Args[1] == "faultchild" {
		faultChild(os.Args[2:])
		os.Exit(0)
	}
	registerKind("fault", genFault, "fault", runFaultCase)
}

// ---------- fault plans ----------

type faultWhat struct {
	kind string // "pe" | "pv" | "er" | "pw" (panic with an error that already went through the library: oe(ob(u<n>)))
	n    int
}

func (f faultWhat) String() string { return f.kind + strconv.Itoa(f.n) }

type faultSpec struct {
	pos  string
	idx  int
	what faultWhat
}

func (f faultSpec) String() string { return f.pos + ":" + strconv.Itoa(f.idx) + ":" + f.what.String() }

func parseFaultWhat(s string) (faultWhat, bool) {
	if len(s) < 3 {
		return faultWhat{}, false
	}
	n, err := strconv.Atoi(s[2:])
	if err != nil || (s[:2] != "pe" && s[:2] != "pv" && s[:2] != "er" && s[:2] != "pw") {
		return faultWhat{}, false
	}
	return faultWhat{s[:2], n}, true
}

func parseFaultSpecs(s string) ([]faultSpec, bool) {
	if s == "-" || s == "" {
		return nil, true
	}
	var out []faultSpec
	for _, t := range strings.Split(s, ",") {
		f := strings.Split(t, ":")
		if len(f) != 3 {
			return nil, false
		}
		idx, err := strconv.Atoi(f[1])
		w, ok := parseFaultWhat(f[2])
		if err != nil || !ok {
			return nil, false
		}
		out = append(out, faultSpec{f[0], idx, w})
	}
	return out, true
}

// faultPlan counts the invocations of each position and fails the planned ones.
type faultPlan struct {
	mu    sync.Mutex
	specs []faultSpec
	cnt   map[string]int
}

func newFaultPlan(specs []faultSpec) *faultPlan {
	return &faultPlan{specs: specs, cnt: map[string]int{}}
}

// next returns the fault planned for this invocation of `pos` (first listed wins), or nil
func (fp *faultPlan) next(pos string) *faultWhat {
	fp.mu.Lock()
	defer fp.mu.Unlock()
	k := fp.cnt[pos]
	fp.cnt[pos] = k + 1
	for i := range fp.specs {
		if fp.specs[i].pos == pos && fp.specs[i].idx == k {
			return &fp.specs[i].what
		}
	}
	return nil
}

// first returns the first fault listed for a position whose index is not an invocation index
func (fp *faultPlan) first(pos string) *faultSpec {
	for i := range fp.specs {
		if fp.specs[i].pos == pos {
			return &fp.specs[i]
		}
	}
	return nil
}

func raise(w *faultWhat) {
	switch w.kind {
	case "pe":
		panic(userErr{w.n})
	case "pv":
		panic(panicVal{w.n})
	case "pw":
		panic(nestedRoErr(w.n))
	}
}

// nestedRoErr(n): an error that has already been through the library twice — `ro.Observable: ro.Observer: user-n`
// (rendered oe(ob(u<n>))) — made by the library itself: an observer whose onNext panics with userErr{n} receives
// ob(u<n>) in its onError; an observable whose subscribe function panics with THAT error delivers oe(ob(u<n>)).
// User code that re-panics with (or wraps) an error it received hands such values back to the library, which must
// wrap them once more and keep the whole chain (C07: "still matches the original cause").
var nestedMu sync.Mutex
var nestedCache = map[int]error{}

func nestedRoErr(n int) error {
	nestedMu.Lock()
	defer nestedMu.Unlock()
	if e, ok := nestedCache[n]; ok {
		return e
	}
	var inner, outer error
	ro.Just(1).Subscribe(ro.NewObserver(func(int) { panic(userErr{n}) }, func(err error) { inner = err }, func() {}))
	if inner == nil {
		inner = userErr{n}
	}
	ro.NewObservable(func(dest ro.Observer[int]) ro.Teardown { panic(inner) }).Subscribe(
		ro.NewObserver(func(int) {}, func(err error) { outer = err }, func() {}))
	if outer == nil {
		outer = inner
	}
	nestedCache[n] = outer
	return outer
}

// fire: this invocation of `pos` panics if planned (an error return is not a panic)
func (fp *faultPlan) fire(pos string) {
	if w := fp.next(pos); w != nil {
		raise(w)
	}
}

// ---------- the scripted source with a faulty subscribe function / teardown ----------

type FProbe struct {
	mu        sync.Mutex
	subs      int
	teardowns int
	dest      ro.Observer[int]
	subCtx    context.Context
	script    []Tok
	sync      bool
	safe      bool
	fp        *faultPlan
}

func (p *FProbe) Observable() ro.Observable[int] {
	body := func(ctx context.Context, dest ro.Observer[int]) ro.Teardown {
		p.mu.Lock()
		p.subs++
		p.dest = dest
		p.subCtx = ctx
		p.mu.Unlock()
		ss := p.fp.first("ss")
		if p.sync {
			for i, t := range p.script {
				if ss != nil && ss.idx == i {
					raise(&ss.what)
				}
				emit(dest, ctx, t)
			}
			if ss != nil && ss.idx >= len(p.script) {
				raise(&ss.what)
			}
		} else if ss != nil {
			raise(&ss.what)
		}
		return func() {
			p.mu.Lock()
			p.teardowns++
			p.mu.Unlock()
			if st := p.fp.first("st"); st != nil {
				raise(&st.what)
			}
		}
	}
	if p.safe {
		return ro.NewSafeObservableWithContext(body)
	}
	return ro.NewUnsafeObservableWithContext(body)
}

// ---------- building the operator with wrapped callbacks ----------

var faultNameSeq int
var faultHangs int

// withWrapped registers wrapped copies of the named callback under a fresh name in the callback
// library and returns the Cb to hand to the ordinary builder of ops.go.
func withWrapped(kind string, cb Cb, fp *faultPlan) (Cb, func()) {
	faultNameSeq++
	name := "__fault" + strconv.Itoa(faultNameSeq)
	var undo []func()
	if f, ok := unary[cb.name]; ok {
		unary[name] = func(x int) int { fp.fire("cb"); return f(x) }
		undo = append(undo, func() { delete(unary, name) })
	}
	if f, ok := unaryI[cb.name]; ok {
		unaryI[name] = func(v int, i int64) int { fp.fire("cb"); return f(v, i) }
		undo = append(undo, func() { delete(unaryI, name) })
	}
	if f, ok := predU[cb.name]; ok {
		predU[name] = func(x int) bool { fp.fire("cb"); return f(x) }
		undo = append(undo, func() { delete(predU, name) })
	}
	if f, ok := predI[cb.name]; ok {
		predI[name] = func(v int, i int64) bool { fp.fire("cb"); return f(v, i) }
		undo = append(undo, func() { delete(predI, name) })
	}
	if f, ok := red[cb.name]; ok {
		red[name] = func(a, v int) int { fp.fire("cb"); return f(a, v) }
		undo = append(undo, func() { delete(red, name) })
	}
	if f, ok := redI[cb.name]; ok {
		redI[name] = func(a, v int, i int64) int { fp.fire("cb"); return f(a, v, i) }
		undo = append(undo, func() { delete(redI, name) })
	}
	return Cb{name, cb.tag}, func() {
		for _, u := range undo {
			u()
		}
	}
}

// MapErr family with a callback whose invocation k may panic or return an error
func buildMapErrFault(variant string, cb Cb, fp *faultPlan, src ro.Observable[int]) (attachFn, error) {
	outcome := func() error {
		if w := fp.next("cb"); w != nil {
			if w.kind == "er" {
				return userErr{w.n}
			}
			raise(w)
		}
		return nil
	}
	if hasI(variant) {
		f, ok := unaryI[cb.name]
		if !ok {
			return nil, errArity(cb.name)
		}
		if variant == "i" {
			return attach(ro.MapErrI(func(v int, i int64) (int, error) { err := outcome(); return f(v, i), err })(src)), nil
		}
		return attach(ro.MapErrIWithContext(func(ctx context.Context, v int, i int64) (int, context.Context, error) {
			err := outcome()
			return f(v, i), tagCtx(ctx, cb.tag), err
		})(src)), nil
	}
	f, ok := unary[cb.name]
	if !ok {
		return nil, errArity(cb.name)
	}
	if variant == "plain" {
		return attach(ro.MapErr(func(v int) (int, error) { err := outcome(); return f(v), err })(src)), nil
	}
	return attach(ro.MapErrWithContext(func(ctx context.Context, v int) (int, context.Context, error) {
		err := outcome()
		return f(v), tagCtx(ctx, cb.tag), err
	})(src)), nil
}

type faultOp struct {
	name     string
	variants []string
	params   [][]int
	cbKind   string
	pos      []string // callback positions of the operator itself
	noSt     bool     // pass-through operators: the source's teardown hangs off a different subscription
}

var faultOps = []faultOp{
	{"Filter", v4, [][]int{{}}, "pred", []string{"cb"}, false},
	{"DistinctBy", []string{"plain", "ctx"}, [][]int{{}}, "key", []string{"cb"}, false},
	{"SkipWhile", v4, [][]int{{}}, "pred", []string{"cb"}, false},
	{"TakeWhile", v4, [][]int{{}}, "pred", []string{"cb"}, false},
	{"First", v4, [][]int{{}}, "pred", []string{"cb"}, false},
	{"Last", v4, [][]int{{}}, "pred", []string{"cb"}, false},
	{"Map", v4, [][]int{{}}, "proj", []string{"cb"}, false},
	{"MapErr", v4, [][]int{{}}, "proj", []string{"cb", "cb-er"}, false},
	{"Scan", v4, [][]int{{0}, {1}}, "red", []string{"cb"}, false},
	{"ToMap", v4, [][]int{{}}, "key", []string{"cb"}, false},
	{"All", v4, [][]int{{}}, "boolpred", []string{"cb"}, false},
	{"Contains", v4, [][]int{{}}, "boolpred", []string{"cb"}, false},
	{"Find", v4, [][]int{{}}, "boolpred", []string{"cb"}, false},
	{"Reduce", v4, [][]int{{0}, {1}}, "red", []string{"cb"}, false},
	{"Tap", v1, [][]int{{}}, "", []string{"cb", "cbe", "cbc"}, false},
	{"ThrowIfEmpty", v1, [][]int{{4}}, "", []string{"cbc"}, false},
	{"Catch", v1, [][]int{{9}}, "", []string{"cbe"}, false},
	{"TapOnSubscribe", v1, [][]int{{}}, "", []string{"cbs"}, true},
	{"Take", v1, [][]int{{2}}, "", nil, false},
	{"Skip", v1, [][]int{{1}}, "", nil, false},
	{"ToSlice", v1, [][]int{{}}, "", nil, false},
	{"OnErrorReturn", v1, [][]int{{9}}, "", nil, false},
	{"EndWith", v1, [][]int{{8}}, "", nil, false},
}

func findFaultOp(name string) *faultOp {
	for i := range faultOps {
		if faultOps[i].name == name {
			return &faultOps[i]
		}
	}
	return nil
}

func buildFaultOp(op string, p []int, variant string, cbs []Cb, fp *faultPlan, src ro.Observable[int]) (attachFn, func(), error) {
	nop := func() {}
	switch op {
	case "RawDirect":
		// a hand-written observer (no status word of its own) subscribed DIRECTLY to the source: everything it is handed is
		// recorded, so what it sees is exactly what the observable's own subscriber lets through
		return func(ctx context.Context, rec *Recorder) ro.Subscription {
			return src.SubscribeWithContext(ctx, &recObserver{rec: rec})
		}, nop, nil
	case "Tap":
		return attach(ro.TapWithContext(
			func(ctx context.Context, v int) { fp.fire("cb") },
			func(ctx context.Context, err error) { fp.fire("cbe") },
			func(ctx context.Context) { fp.fire("cbc") },
		)(src)), nop, nil
	case "ThrowIfEmpty":
		return attach(ro.ThrowIfEmpty[int](func() error { fp.fire("cbc"); return userErr{p[0]} })(src)), nop, nil
	case "Catch":
		return attach(ro.Catch(func(err error) ro.Observable[int] { fp.fire("cbe"); return ro.Just(p[0]) })(src)), nop, nil
	case "TapOnSubscribe":
		return attach(ro.TapOnSubscribe[int](func() { fp.fire("cbs") })(src)), nop, nil
	case "MapErr":
		if len(cbs) != 1 {
			return nil, nop, errArity(op)
		}
		at, err := buildMapErrFault(variant, cbs[0], fp, src)
		return at, nop, err
	}
	spec := findOp(op)
	if spec == nil || findFaultOp(op) == nil {
		return nil, nop, errArity(op)
	}
	undo := nop
	if len(cbs) == 1 {
		var w Cb
		w, undo = withWrapped(spec.cbKind, cbs[0], fp)
		cbs = []Cb{w}
	}
	at, err := spec.build(p, variant, cbs, src)
	return at, undo, err
}

// ---------- running one case ----------

type faultSnap struct {
	trace, drops, unh, esc []string
	rel, subs              int
}

func diffTail(all, before []string) []string {
	if len(all) >= len(before) {
		return all[len(before):]
	}
	return nil
}

func runFaultCase(c *Case) string {
	op := c.get("op", "?")
	if op == "Finalizers" {
		return runFinalizersCase(c)
	}
	if strings.HasPrefix(op, "Go:") {
		return runGoChildCase(c)
	}
	script, err := parseScript(c.get("src", "-"))
	if err != nil {
		return "res " + c.id + " bad-script"
	}
	specs, ok := parseFaultSpecs(c.get("faults", "-"))
	if !ok {
		return "res " + c.id + " bad-faults"
	}
	var cbs []Cb
	if s := c.get("cb", "-"); s != "-" && s != "" {
		for _, t := range strings.Split(s, ",") {
			cbs = append(cbs, parseCb(t))
		}
	}
	mode := c.get("mode", "sync")
	subCtx := ctxFromMarks(parseInts(strings.ReplaceAll(c.get("sub", "-"), ".", ",")))
	fp := newFaultPlan(specs)
	rec := &Recorder{}
	rec.afterN = func() { fp.fire("fn") }
	rec.afterE = func() { fp.fire("fe") }
	rec.afterC = func() { fp.fire("fc") }
	probe := &FProbe{script: script, sync: mode == "sync", safe: c.get("safe", "0") == "1", fp: fp}
	at, undo, err := buildFaultOp(op, parseInts(c.get("p", "-")), c.get("var", "plain"), cbs, fp, probe.Observable())
	if err != nil {
		undo()
		return "res " + c.id + " unsupported"
	}

	var escMu sync.Mutex
	var esc []string
	guard := func(f func()) {
		defer func() {
			if r := recover(); r != nil {
				var s string
				if e, ok := r.(error); ok {
					s = renderErr(e)
				} else {
					s = renderErr(fmt.Errorf("unexpected error: %v", r))
				}
				escMu.Lock()
				esc = append(esc, s)
				escMu.Unlock()
			}
		}()
		f()
	}
	snapshot := func() faultSnap {
		rec.mu.Lock()
		probe.mu.Lock()
		escMu.Lock()
		defer rec.mu.Unlock()
		defer probe.mu.Unlock()
		defer escMu.Unlock()
		return faultSnap{append([]string{}, rec.trace...), append([]string{}, rec.drops...), append([]string{}, rec.unhandled...),
			append([]string{}, esc...), probe.teardowns, probe.subs}
	}
	pushTok := func(t Tok) {
		probe.mu.Lock()
		dest, ctx := probe.dest, probe.subCtx
		probe.mu.Unlock()
		if dest == nil {
			return
		}
		guard(func() { emit(dest, ctx, t) })
	}

	setRecorder(rec)
	var mid faultSnap
	done := make(chan struct{})
	go func() {
		defer close(done)
		var sub ro.Subscription
		guard(func() { sub = at(subCtx, rec) })
		if mode != "sync" {
			for _, t := range script {
				pushTok(t)
			}
		}
		mid = snapshot()
		// everything still usable? a follow-up value from the producer, IsClosed, Unsubscribe
		pushTok(Tok{'N', 99, 9})
		if sub != nil {
			guard(func() { _ = sub.IsClosed() })
			guard(func() { sub.Unsubscribe() })
		}
	}()
	usable := 1
	// a case takes microseconds; 3 s without an answer means a goroutine is stuck on a lock. Once
	// several cases of this run have hung (the run is failing anyway) the wait is shortened.
	wait := 3 * time.Second
	if faultHangs >= 8 {
		wait = 300 * time.Millisecond
	}
	select {
	case <-done:
	case <-time.After(wait):
		usable = 0
		faultHangs++
		mid = snapshot()
	}
	fin := snapshot()
	setRecorder(nil)
	undo()
	if usable == 0 {
		// a goroutine is stuck on a lock that a panic left held (or the case is too slow: never a pass)
		return fmt.Sprintf("res %s trace=%s drops=%s unh=%s esc=%s rel=%d subs=%d usable=0", c.id,
			joinOrDash(fin.trace), joinOrDash(fin.drops), joinOrDash(fin.unh), joinOrDash(fin.esc), fin.rel, fin.subs)
	}
	return fmt.Sprintf("res %s trace=%s drops=%s unh=%s esc=%s rel=%d subs=%d ftrace=%s fdrops=%s funh=%s fesc=%s frel=%d usable=1", c.id,
		joinOrDash(mid.trace), joinOrDash(mid.drops), joinOrDash(mid.unh), joinOrDash(mid.esc), mid.rel, mid.subs,
		joinOrDash(diffTail(fin.trace, mid.trace)), joinOrDash(diffTail(fin.drops, mid.drops)), joinOrDash(diffTail(fin.unh, mid.unh)),
		joinOrDash(diffTail(fin.esc, mid.esc)), fin.rel)
}

// subscriptionImpl.Unsubscribe over a list of finalizers, some of which panic
func runFinalizersCase(c *Case) string {
	s := c.get("fs", "-")
	var toks []string
	if s != "-" && s != "" {
		toks = strings.Split(s, ",")
	}
	ran := 0
	sub := ro.NewSubscription(nil)
	for _, t := range toks {
		t := t
		if t == "ok" {
			sub.Add(func() { ran++ })
			continue
		}
		w, ok := parseFaultWhat(t)
		if !ok {
			return "res " + c.id + " bad-faults"
		}
		sub.Add(func() { ran++; raise(&w) })
	}
	raised := "-"
	func() {
		defer func() {
			if r := recover(); r != nil {
				if e, ok := r.(error); ok {
					if j, ok := e.(interface{ Unwrap() []error }); ok {
						parts := []string{}
						for _, x := range j.Unwrap() {
							parts = append(parts, renderErr(x))
						}
						raised = strings.Join(parts, ",")
					} else {
						raised = renderErr(e)
					}
				} else {
					raised = fmt.Sprintf("?%v", r)
				}
			}
		}()
		sub.Unsubscribe()
	}()
	return fmt.Sprintf("res %s ran=%d raised=%s", c.id, ran, raised)
}

// ---------- library goroutines that run user code: child process ----------

func runGoChildCase(c *Case) string {
	name := strings.TrimPrefix(c.get("op", "?"), "Go:")
	exe, err := os.Executable()
	if err != nil {
		return "res " + c.id + " harness-no-exe"
	}
	cmd := exec.Command(exe, "faultchild", name, c.get("faults", "-"))
	var out, errb bytes.Buffer
	cmd.Stdout, cmd.Stderr = &out, &errb
	done := make(chan error, 1)
	if err := cmd.Start(); err != nil {
		return "res " + c.id + " harness-child-failed"
	}
	go func() { done <- cmd.Wait() }()
	select {
	case err = <-done:
	case <-time.After(15 * time.Second):
		_ = cmd.Process.Kill()
		return "res " + c.id + " harness-timeout"
	}
	if err != nil {
		// the Go runtime prints "panic: …" and exits with status 2 when a goroutine dies of a panic
		if strings.Contains(errb.String(), "panic:") {
			return "res " + c.id + " crash=1 unh=- seen=-"
		}
		return "res " + c.id + " harness-child-failed"
	}
	for _, line := range strings.Split(out.String(), "\n") {
		if strings.HasPrefix(line, "unh=") {
			return "res " + c.id + " crash=0 " + line
		}
		if strings.HasPrefix(line, "hang=") {
			return "res " + c.id + " crash=0 " + line
		}
	}
	return "res " + c.id + " harness-child-failed"
}

func faultChild(args []string) {
	name := args[0]
	specs, _ := parseFaultSpecs(args[1])
	fp := newFaultPlan(specs)
	var mu sync.Mutex
	var unh []string
	ro.OnUnhandledError = func(ctx context.Context, err error) {
		mu.Lock()
		unh = append(unh, renderErr(err))
		mu.Unlock()
	}
	ro.OnDroppedNotification = func(ctx context.Context, n fmt.Stringer) {}
	finished := make(chan struct{}, 4)
	var seen []string
	see := func(x string) { mu.Lock(); seen = append(seen, x); mu.Unlock() }
	obs := ro.NewObserver(func(v int) { see("N" + strconv.Itoa(v)) },
		func(err error) { see("E" + renderErr(err)); finished <- struct{}{} }, func() { see("C"); finished <- struct{}{} })
	switch name {
	case "Future":
		// the factory runs on a goroutine started with a bare `go func` (operator_creation.go:456)
		ro.Future(func() (int, error) { fp.fire("cb"); return 1, nil }).Subscribe(obs)
	case "Start":
		ro.Start(func() int { fp.fire("cb"); return 1 }).Subscribe(obs)
	case "Defer":
		ro.Defer(func() ro.Observable[int] { fp.fire("cb"); return ro.Just(1) }).Subscribe(obs)
	case "FromChannel":
		// the goroutine of FromChannel delivers the completion; the subscriber's teardown
		// (TapOnFinalize's callback) panics on that goroutine
		ch := make(chan int)
		ro.TapOnFinalize[int](func() { fp.fire("cb") })(ro.FromChannel(ch)).Subscribe(obs)
		close(ch)
	case "Never":
		// the goroutine of Never sends the terminal when the context is cancelled; the subscriber's teardown
		// (TapOnFinalize's callback) panics on that goroutine
		ctx, cancel := context.WithCancel(context.Background())
		ro.TapOnFinalize[struct{}](func() { fp.fire("cb") })(ro.Never()).SubscribeWithContext(ctx, ro.NewObserver(func(struct{}) {},
			func(err error) { see("E" + renderErr(err)); finished <- struct{}{} }, func() { see("C"); finished <- struct{}{} }))
		cancel()
	case "ThrowOnContextCancel":
		ctx, cancel := context.WithCancel(context.Background())
		hot := ro.NewUnsafeObservable(func(dest ro.Observer[int]) ro.Teardown { return nil })
		ro.TapOnFinalize[int](func() { fp.fire("cb") })(ro.ThrowOnContextCancel[int]()(hot)).SubscribeWithContext(ctx, obs)
		cancel()
	case "ToChannel":
		// the subscription is disposed before ToChannel's goroutine (which sleeps 1 ms first) registers its upstream
		// subscription: AddUnsubscribable then unsubscribes the source at once, on that goroutine, and the source's
		// teardown panics
		src := ro.NewUnsafeObservable(func(dest ro.Observer[int]) ro.Teardown { return func() { fp.fire("cb") } })
		sub := ro.ToChannel[int](1)(src).Subscribe(ro.NewObserver(func(<-chan ro.Notification[int]) {}, func(error) {}, func() {}))
		sub.Unsubscribe()
		time.Sleep(50 * time.Millisecond)
		finished <- struct{}{}
	case "RawObserver:safe", "RawObserver:unsafe":
		// the destination is a hand-written Observer (not ro.NewObserver): its NextWithContext panics
		// inside subscriberImpl.NextWithContext, between mu.Lock() and mu.Unlock() (subscriber.go:176-199)
		raw := &rawObserver{fp: fp}
		body := func(dest ro.Observer[int]) ro.Teardown { dest.Next(1); dest.Next(2); return nil }
		var o ro.Observable[int]
		if strings.HasSuffix(name, ":safe") {
			o = ro.NewSafeObservable(body)
		} else {
			o = ro.NewUnsafeObservable(body)
		}
		done := make(chan string, 1)
		go func() {
			defer func() {
				if r := recover(); r != nil {
					done <- "escaped"
				}
			}()
			o.Subscribe(raw)
			done <- "returned"
		}()
		select {
		case how := <-done:
			raw.mu.Lock()
			fmt.Println("hang=0 how=" + how + " seen=" + joinOrDash(raw.seen))
			raw.mu.Unlock()
		case <-time.After(2 * time.Second):
			raw.mu.Lock()
			fmt.Println("hang=1 how=- seen=" + joinOrDash(raw.seen))
			raw.mu.Unlock()
		}
		return
	default:
		fmt.Println("unsupported")
		os.Exit(3)
	}
	select {
	case <-finished:
	case <-time.After(2 * time.Second):
	}
	// give the goroutine the time to leave the library (a crash ends the process before this returns)
	time.Sleep(300 * time.Millisecond)
	mu.Lock()
	fmt.Println("unh=" + joinOrDash(unh) + " seen=" + joinOrDash(seen))
	mu.Unlock()
}

// rawObserver implements ro.Observer[int] by hand; its Next panics as planned (position "fn")
type rawObserver struct {
	mu   sync.Mutex
	fp   *faultPlan
	seen []string
}

func (o *rawObserver) rec(s string) {
	o.mu.Lock()
	o.seen = append(o.seen, s)
	o.mu.Unlock()
}
func (o *rawObserver) Next(v int) { o.NextWithContext(context.Background(), v) }
func (o *rawObserver) NextWithContext(ctx context.Context, v int) {
	o.rec("N" + strconv.Itoa(v))
	o.fp.fire("fn")
}
func (o *rawObserver) Error(err error) { o.ErrorWithContext(context.Background(), err) }
func (o *rawObserver) ErrorWithContext(ctx context.Context, err error) {
	o.rec("E" + renderErr(err))
}
func (o *rawObserver) Complete()                               { o.rec("C") }
func (o *rawObserver) CompleteWithContext(ctx context.Context) { o.rec("C") }
func (o *rawObserver) IsClosed() bool                          { return false }
func (o *rawObserver) HasThrown() bool                         { return false }
func (o *rawObserver) IsCompleted() bool                       { return false }

// recObserver: a hand-written ro.Observer[int] that records into a Recorder in the format of `observer` and guards nothing
type recObserver struct{ rec *Recorder }

func (o *recObserver) Next(v int) { o.NextWithContext(context.Background(), v) }
func (o *recObserver) NextWithContext(ctx context.Context, v int) {
	o.rec.add("N" + renderVal(v) + "/" + renderCtx(ctx))
}
func (o *recObserver) Error(err error) { o.ErrorWithContext(context.Background(), err) }
func (o *recObserver) ErrorWithContext(ctx context.Context, err error) {
	o.rec.add("E" + renderErr(err) + "/" + renderCtx(ctx))
}
func (o *recObserver) Complete()                               { o.CompleteWithContext(context.Background()) }
func (o *recObserver) CompleteWithContext(ctx context.Context) { o.rec.add("C/" + renderCtx(ctx)) }
func (o *recObserver) IsClosed() bool                          { return false }
func (o *recObserver) HasThrown() bool                         { return false }
func (o *recObserver) IsCompleted() bool                       { return false }

// ---------- generation ----------

func faultScripts(tier string, r *rand.Rand) [][]Tok {
	mk := func(s string) []Tok { t, _ := parseScript(s); return t }
	out := [][]Tok{
		mk("N1@1,N2@2,N3@3,C@4"), mk("N2@1,N-1@2,N0@3,N3@4,E1@5"), mk("N1@1,N2@2,N3@3,N4@4"),
		mk("C@1"), mk("E1@1"), mk("N2@1,N3@2,C@3,N9@4,E2@5"),
	}
	n := 3
	if tier == "thorough" {
		n = 12
	}
	for i := 0; i < n; i++ {
		vals := randomList(r, 1+r.Intn(6))
		ss := scriptsFor(vals, true)
		out = append(out, ss[r.Intn(len(ss))])
	}
	return out
}

func singleFaults(op *faultOp) []faultSpec {
	var out []faultSpec
	pv := []faultWhat{{"pe", 5}, {"pv", 6}, {"pw", 8}}
	for _, pos := range op.pos {
		switch pos {
		case "cb":
			for k := 0; k <= 3; k++ {
				for _, w := range pv {
					out = append(out, faultSpec{"cb", k, w})
				}
			}
		case "cb-er":
			for k := 0; k <= 3; k++ {
				out = append(out, faultSpec{"cb", k, faultWhat{"er", 7}})
			}
		case "cbe":
			for k := 0; k <= 1; k++ {
				for _, w := range pv {
					out = append(out, faultSpec{"cbe", k, w})
				}
			}
		case "cbc", "cbs":
			for _, w := range pv {
				out = append(out, faultSpec{pos, 0, w})
			}
		}
	}
	for _, k := range []int{0, 1, 2, 3, 9} {
		for _, w := range pv {
			out = append(out, faultSpec{"ss", k, w})
		}
	}
	if !op.noSt {
		for _, w := range pv {
			out = append(out, faultSpec{"st", 0, w})
		}
	}
	for k := 0; k <= 3; k++ {
		for _, w := range pv {
			out = append(out, faultSpec{"fn", k, w})
		}
	}
	for k := 0; k <= 1; k++ {
		for _, w := range pv {
			out = append(out, faultSpec{"fe", k, w})
		}
	}
	for _, w := range pv {
		out = append(out, faultSpec{"fc", 0, w})
	}
	return out
}

// a pair must not plan two faults for the same invocation (or two for a once-only position)
func compatible(a, b faultSpec) bool {
	if a.pos != b.pos {
		return true
	}
	switch a.pos {
	case "ss", "st", "cbs":
		return false
	}
	return a.idx != b.idx
}

func genFault(tier string, seed int64, only string) []*Case {
	r := rand.New(rand.NewSource(seed))
	scripts := faultScripts(tier, r)
	var cases []*Case
	id := 0
	// a hand-written observer subscribed directly to an observable whose subscribe function panics after i notifications
	// (also after its own terminal), both constructors, synchronous source
	if only == "" || only == "RawDirect" {
		for _, script := range scripts {
			for i := 0; i <= len(script); i++ {
				for _, what := range []string{"pe5", "pv6"} {
					for _, safe := range []string{"0", "1"} {
						id++
						cases = append(cases, newCase(id, "kind", "fault", "op", "RawDirect", "p", "-", "var", "plain", "cb", "-",
							"mode", "sync", "sub", "7", "safe", safe, "src", scriptString(script), "faults", "ss:"+strconv.Itoa(i)+":"+what))
					}
				}
			}
			id++
			cases = append(cases, newCase(id, "kind", "fault", "op", "RawDirect", "p", "-", "var", "plain", "cb", "-",
				"mode", "sync", "sub", "7", "safe", "1", "src", scriptString(script), "faults", "-"))
		}
	}
	add := func(op *faultOp, p []int, variant, cb, mode string, script []Tok, faults string) {
		id++
		cases = append(cases, newCase(id, "kind", "fault", "op", op.name, "p", intsString(p), "var", variant, "cb", cb,
			"mode", mode, "sub", "7", "safe", strconv.Itoa(id%2), "src", scriptString(script), "faults", faults))
	}
	for oi := range faultOps {
		op := &faultOps[oi]
		if only != "" && op.name != only {
			continue
		}
		singles := singleFaults(op)
		for _, variant := range op.variants {
			cbList := cbChoices(op.cbKind, variant)
			if op.cbKind == "" {
				cbList = []string{"-"}
			} else if tier != "thorough" {
				cbList = []string{cbList[r.Intn(len(cbList))]}
			}
			for _, cbName := range cbList {
				cb := cbName
				if hasCtx(variant) && cb != "-" && op.cbKind != "boolpred" && op.name != "ToMap" {
					cb += "+t" + strconv.Itoa(50+r.Intn(9))
				}
				for _, p := range op.params {
					for _, script := range scripts {
						for _, mode := range []string{"sync", "hot"} {
							add(op, p, variant, cb, mode, script, "-")
							for _, f := range singles {
								add(op, p, variant, cb, mode, script, f.String())
							}
							if tier == "thorough" {
								for i := range singles {
									for j := i + 1; j < len(singles); j++ {
										if compatible(singles[i], singles[j]) {
											add(op, p, variant, cb, mode, script, singles[i].String()+","+singles[j].String())
										}
									}
								}
							} else {
								for n := 0; n < 24; n++ {
									i, j := r.Intn(len(singles)), r.Intn(len(singles))
									if i != j && compatible(singles[i], singles[j]) {
										add(op, p, variant, cb, mode, script, singles[i].String()+","+singles[j].String())
									}
								}
							}
						}
					}
				}
			}
		}
	}
	if only == "" || only == "Finalizers" {
		// every subset of panicking finalizers among up to 4 (thorough: 5)
		max := 4
		if tier == "thorough" {
			max = 5
		}
		for n := 0; n <= max; n++ {
			for mask := 0; mask < 1<<uint(n); mask++ {
				parts := make([]string, n)
				for i := 0; i < n; i++ {
					if mask&(1<<uint(i)) != 0 {
						if i%2 == 0 {
							parts[i] = "pe" + strconv.Itoa(i+1)
						} else {
							parts[i] = "pv" + strconv.Itoa(i+1)
						}
					} else {
						parts[i] = "ok"
					}
				}
				id++
				cases = append(cases, newCase(id, "kind", "fault", "op", "Finalizers", "fs", joinOrDash(parts)))
			}
		}
	}
	return cases
}

package main

// kind=reusemulti (C12): operator VALUES that capture other observables (MergeWith, ConcatWith,
// CombineLatestWith, ZipWith, RaceWith, TakeUntil, SkipUntil, SampleWhen, BufferWhen, StartWith,
// EndWith, OnErrorResumeNextWith, Catch, DefaultIfEmpty …) applied to two or three sources before any result is
// subscribed, subscribed in reverse order, and compared with FRESH operator values applied to the
// same sources. The model side is C12's theorem: a pipeline is a function of its source, so the
// shared operator value and the fresh one must behave identically (`same=1`).

import (
	"fmt"
	"math/rand"
	"strings"
	"time"

	"github.com/samber/lo"
	"github.com/samber/ro"
)

func init() { registerKind("reusemulti", genReuseMulti, "reusemulti", runReuseMultiCase) }

func t2int(t lo.Tuple2[int, int]) int { return t.A*100 + t.B }

var reuseMultiOps = map[string]func() intOp{
	"MergeWith":             func() intOp { return ro.MergeWith(ro.Just(100, 200)) },
	"MergeWith2":            func() intOp { return ro.MergeWith(ro.Just(100), ro.Just(200, 300)) },
	"ConcatWith":            func() intOp { return ro.ConcatWith(ro.Just(100, 200)) },
	"ConcatWith2":           func() intOp { return ro.ConcatWith(ro.Just(100), ro.Just(200)) },
	"RaceWith":              func() intOp { return ro.RaceWith(neverInt()) },
	"OnErrorResumeNextWith": func() intOp { return ro.OnErrorResumeNextWith(ro.Just(100, 200)) },
	"Catch":                 func() intOp { return ro.Catch(func(err error) ro.Observable[int] { return ro.Just(100) }) },
	"StartWith":             func() intOp { return ro.StartWith(100, 200) },
	"EndWith":               func() intOp { return ro.EndWith(100, 200) },
	"TakeUntilNever":        func() intOp { return ro.TakeUntil[int](neverInt()) },
	"SkipUntilJust":         func() intOp { return ro.SkipUntil[int](ro.Just(1)) },
	"CombineLatestWith1": func() intOp {
		return func(s ro.Observable[int]) ro.Observable[int] {
			return ro.Map(t2int)(ro.CombineLatestWith1[int](ro.Just(7))(s))
		}
	},
	"ZipWith1": func() intOp {
		return func(s ro.Observable[int]) ro.Observable[int] {
			return ro.Map(t2int)(ro.ZipWith1[int](ro.Just(7, 8, 9))(s))
		}
	},
	"SampleWhenJust": func() intOp { return ro.SampleWhen[int](ro.Just(1, 2)) },
	"BufferWhenNever": func() intOp {
		return func(s ro.Observable[int]) ro.Observable[int] {
			return ro.Map(func(b []int) int { return len(b)*1000 + sum(b) })(ro.BufferWhen[int](neverInt())(s))
		}
	},
	"MergeMap": func() intOp {
		return ro.MergeMapI(func(v int, i int64) ro.Observable[int] { return ro.Just(v*10 + int(i)) })
	},
	"FlatMap": func() intOp {
		return ro.FlatMapI(func(v int, i int64) ro.Observable[int] { return ro.Just(v*10 + int(i)) })
	},
}

func sum(b []int) int {
	s := 0
	for _, v := range b {
		s += v
	}
	return s
}

func neverInt() ro.Observable[int] {
	return ro.Map(func(struct{}) int { return 0 })(ro.Never())
}

func collectTrace(o ro.Observable[int]) string {
	rec := &Recorder{}
	done := make(chan struct{})
	var sub ro.Subscription
	go func() {
		sub = o.SubscribeWithContext(ctxFromMarks([]int{7}), observer[int](rec))
		close(done)
	}()
	select {
	case <-done:
	case <-time.After(2 * time.Second):
		return "hang"
	}
	sub.Unsubscribe()
	return joinOrDash(rec.trace)
}

func runReuseMultiCase(c *Case) string {
	mk, ok := reuseMultiOps[c.get("op", "?")]
	if !ok {
		return "res " + c.id + " unsupported"
	}
	setRecorder(nil)
	var scripts [][]Tok
	for _, s := range strings.Split(c.get("srcs", "-"), ";") {
		t, err := parseScript(s)
		if err != nil {
			return "res " + c.id + " bad-script"
		}
		scripts = append(scripts, t)
	}
	probes := func() []*Probe {
		out := make([]*Probe, len(scripts))
		for i, s := range scripts {
			out[i] = &Probe{script: s, sync: true}
		}
		return out
	}
	// shared operator value applied to every source first
	shared := mk()
	ps := probes()
	pipes := make([]ro.Observable[int], len(ps))
	for i, p := range ps {
		pipes[i] = shared(p.Observable())
	}
	built := 0
	for _, p := range ps {
		built += p.subs
	}
	sharedTr := make([]string, len(ps))
	for i := len(ps) - 1; i >= 0; i-- { // reverse order
		sharedTr[i] = collectTrace(pipes[i])
	}
	again := collectTrace(pipes[0]) // and the first one once more
	// fresh operator values
	fs := probes()
	freshTr := make([]string, len(fs))
	for i, p := range fs {
		freshTr[i] = collectTrace(mk()(p.Observable()))
	}
	same := 1
	for i := range sharedTr {
		if sharedTr[i] != freshTr[i] {
			same = 0
		}
	}
	if again != freshTr[0] {
		same = 0
	}
	return fmt.Sprintf("res %s same=%d built=%d shared=%s fresh=%s again=%s", c.id, same, built, strings.Join(sharedTr, "|"), strings.Join(freshTr, "|"), again)
}

func genReuseMulti(tier string, seed int64, only string) []*Case {
	r := rand.New(rand.NewSource(seed*31 + 5))
	var names []string
	for k := range reuseMultiOps {
		names = append(names, k)
	}
	sortStrings(names)
	n := 6
	if tier == "thorough" {
		n = 60
	}
	var cases []*Case
	id := 0
	for _, name := range names {
		for i := 0; i < n; i++ {
			k := 2 + r.Intn(2)
			srcs := make([]string, k)
			for j := range srcs {
				sc := scriptsFor(randomList(r, 1+r.Intn(4)), false)
				srcs[j] = scriptString(sc[1+r.Intn(2)])
			}
			id++
			cases = append(cases, newCase(id, "kind", "reusemulti", "op", name, "srcs", strings.Join(srcs, ";")))
		}
	}
	return cases
}

package main

// Delegation table (lean/RoGen/Delegation.lean): every exported function of operator_*.go whose body
// is a single `return Other(args…)` — an alias (`Just` → `Of`, `Do` → `Tap`), a variant adapter
// (`Map` → `MapIWithContext` through a literal that ignores the index and returns the context
// unchanged) or a composition (`Merge` → `MergeAll()(Just(sources…))`). For each: the function finally
// called, a normalised rendering of the call (parameters `$k`, parameters of the k-th literal `#k`,
// unused parameters `_`, type arguments stripped), and a few derived attributes of the adapter.
// RoProps/C04d.lean compares the regenerated table with the expected one by `decide`: an alias
// that silently stops delegating, or delegates to a sibling, breaks the build.

import (
	"fmt"
	"go/ast"
	"go/parser"
	"go/token"
	"path/filepath"
	"sort"
	"strings"
)

type DelegRow struct {
	Name  string
	File  string
	Base  string // the function finally called
	Kind  string // alias | adapter | compose
	Shape string // normalised call expression
	// attributes of the function literals handed to the base (adapter rows)
	DropsIndex   bool // a literal takes an int64 index it does not use
	CtxUnchanged bool // a literal returns its own context parameter among its results
	CtxIgnored   bool // a literal takes a context it does not use
}

type delegNorm struct {
	params map[string]int // FuncDecl parameter name -> position (1-based)
	lits   []map[string]string
}

func stripIndex(e ast.Expr) ast.Expr {
	for {
		switch x := e.(type) {
		case *ast.IndexExpr:
			e = x.X
		case *ast.IndexListExpr:
			e = x.X
		case *ast.ParenExpr:
			e = x.X
		default:
			return e
		}
	}
}

func usesIdent(n ast.Node, name string) bool {
	found := false
	ast.Inspect(n, func(m ast.Node) bool {
		if id, ok := m.(*ast.Ident); ok && id.Name == name {
			found = true
		}
		return !found
	})
	return found
}

func typeString(e ast.Expr) string {
	switch x := e.(type) {
	case *ast.Ident:
		return x.Name
	case *ast.SelectorExpr:
		return typeString(x.X) + "." + x.Sel.Name
	case *ast.StarExpr:
		return "*" + typeString(x.X)
	case *ast.Ellipsis:
		return "..." + typeString(x.Elt)
	case *ast.ArrayType:
		return "[]" + typeString(x.Elt)
	case *ast.IndexExpr:
		return typeString(x.X)
	case *ast.IndexListExpr:
		return typeString(x.X)
	case *ast.FuncType:
		return "func"
	}
	return "?"
}

func (d *delegNorm) lookup(name string) string {
	for i := len(d.lits) - 1; i >= 0; i-- {
		if s, ok := d.lits[i][name]; ok {
			return s
		}
	}
	if k, ok := d.params[name]; ok {
		return fmt.Sprintf("$%d", k)
	}
	return name
}

func (d *delegNorm) exprs(l []ast.Expr) string {
	parts := make([]string, len(l))
	for i, e := range l {
		parts[i] = d.expr(e)
	}
	return strings.Join(parts, ",")
}

func (d *delegNorm) expr(e ast.Expr) string {
	switch x := e.(type) {
	case *ast.Ident:
		return d.lookup(x.Name)
	case *ast.BasicLit:
		return x.Value
	case *ast.ParenExpr:
		return d.expr(x.X)
	case *ast.IndexExpr:
		// Foo[T] (instantiation) or a[i]
		if _, ok := stripIndex(x).(*ast.Ident); ok {
			if _, isParam := d.params[stripIndex(x).(*ast.Ident).Name]; !isParam {
				return d.expr(x.X)
			}
		}
		return d.expr(x.X) + "[" + d.expr(x.Index) + "]"
	case *ast.IndexListExpr:
		return d.expr(x.X)
	case *ast.SelectorExpr:
		return d.expr(x.X) + "." + x.Sel.Name
	case *ast.SliceExpr:
		lo, hi := "", ""
		if x.Low != nil {
			lo = d.expr(x.Low)
		}
		if x.High != nil {
			hi = d.expr(x.High)
		}
		return d.expr(x.X) + "[" + lo + ":" + hi + "]"
	case *ast.UnaryExpr:
		return x.Op.String() + d.expr(x.X)
	case *ast.BinaryExpr:
		return "(" + d.expr(x.X) + x.Op.String() + d.expr(x.Y) + ")"
	case *ast.CallExpr:
		s := d.expr(x.Fun) + "(" + d.exprs(x.Args)
		if x.Ellipsis != token.NoPos {
			s += "..."
		}
		return s + ")"
	case *ast.FuncLit:
		return d.funcLit(x)
	case *ast.CompositeLit:
		return "lit{" + d.exprs(x.Elts) + "}"
	case *ast.KeyValueExpr:
		return d.expr(x.Key) + ":" + d.expr(x.Value)
	}
	return fmt.Sprintf("?%T", e)
}

func (d *delegNorm) funcLit(f *ast.FuncLit) string {
	names := map[string]string{}
	var ps []string
	k := 0
	for _, fld := range f.Type.Params.List {
		if len(fld.Names) == 0 {
			k++
			ps = append(ps, "_")
			continue
		}
		for _, n := range fld.Names {
			k++
			if n.Name == "_" || !usesIdent(f.Body, n.Name) {
				ps = append(ps, "_")
			} else {
				names[n.Name] = fmt.Sprintf("#%d", k)
				ps = append(ps, fmt.Sprintf("#%d", k))
			}
		}
	}
	d.lits = append(d.lits, names)
	defer func() { d.lits = d.lits[:len(d.lits)-1] }()
	var body []string
	for _, st := range f.Body.List {
		switch s := st.(type) {
		case *ast.ReturnStmt:
			body = append(body, "ret "+d.exprs(s.Results))
		case *ast.ExprStmt:
			body = append(body, d.expr(s.X))
		case *ast.AssignStmt:
			body = append(body, d.exprs(s.Lhs)+s.Tok.String()+d.exprs(s.Rhs))
		default:
			body = append(body, fmt.Sprintf("?%T", st))
		}
	}
	return "fn(" + strings.Join(ps, ",") + "){" + strings.Join(body, ";") + "}"
}

// literal attributes
func litAttrs(f *ast.FuncLit, row *DelegRow) {
	var ctxName string
	for _, fld := range f.Type.Params.List {
		ts := typeString(fld.Type)
		if len(fld.Names) == 0 {
			if ts == "int64" {
				row.DropsIndex = true
			}
			if ts == "context.Context" {
				row.CtxIgnored = true
			}
			continue
		}
		for _, n := range fld.Names {
			unused := n.Name == "_" || !usesIdent(f.Body, n.Name)
			if ts == "int64" && unused {
				row.DropsIndex = true
			}
			if ts == "context.Context" {
				if unused {
					row.CtxIgnored = true
				} else if ctxName == "" {
					ctxName = n.Name
				}
			}
		}
	}
	if ctxName != "" {
		for _, st := range f.Body.List {
			if r, ok := st.(*ast.ReturnStmt); ok && len(r.Results) >= 2 {
				for _, res := range r.Results {
					if id, ok := res.(*ast.Ident); ok && id.Name == ctxName {
						row.CtxUnchanged = true
					}
				}
			}
		}
	}
}

func rootCallee(c *ast.CallExpr) (string, bool) { // name, curried
	curried := false
	e := ast.Expr(c)
	for {
		call, ok := e.(*ast.CallExpr)
		if !ok {
			break
		}
		inner := stripIndex(call.Fun)
		if _, isCall := inner.(*ast.CallExpr); isCall {
			curried = true
		}
		e = inner
	}
	switch x := e.(type) {
	case *ast.Ident:
		return x.Name, curried
	case *ast.SelectorExpr:
		return x.Sel.Name, curried
	}
	return "?", curried
}

func delegationRows(repo string) ([]DelegRow, error) {
	files, _ := filepath.Glob(filepath.Join(repo, "operator_*.go"))
	sort.Strings(files)
	var rows []DelegRow
	for _, p := range files {
		if strings.HasSuffix(p, "_test.go") {
			continue
		}
		fs := token.NewFileSet()
		file, err := parser.ParseFile(fs, p, nil, 0)
		if err != nil {
			return nil, err
		}
		for _, dcl := range file.Decls {
			fd, ok := dcl.(*ast.FuncDecl)
			if !ok || fd.Body == nil || fd.Recv != nil || !fd.Name.IsExported() || len(fd.Body.List) != 1 {
				continue
			}
			ret, ok := fd.Body.List[0].(*ast.ReturnStmt)
			if !ok || len(ret.Results) != 1 {
				continue
			}
			call, ok := ret.Results[0].(*ast.CallExpr)
			if !ok {
				continue
			}
			base, curried := rootCallee(call)
			if _, isCtor := isCtorName(base); isCtor {
				continue // an operator body of its own (Catalogue row)
			}
			d := &delegNorm{params: map[string]int{}}
			var order []string
			variadic := ""
			for _, fld := range fd.Type.Params.List {
				for _, n := range fld.Names {
					d.params[n.Name] = len(d.params) + 1
					order = append(order, n.Name)
					if _, ok := fld.Type.(*ast.Ellipsis); ok {
						variadic = n.Name
					}
				}
			}
			row := DelegRow{Name: fd.Name.Name, File: filepath.Base(p), Base: base, Shape: d.expr(call)}
			// classification
			hasLit, plainForward := false, !curried && len(call.Args) == len(order)
			for i, a := range call.Args {
				switch x := a.(type) {
				case *ast.FuncLit:
					hasLit = true
					plainForward = false
					litAttrs(x, &row)
				case *ast.Ident:
					if i >= len(order) || x.Name != order[i] {
						plainForward = false
					}
				default:
					plainForward = false
				}
			}
			if plainForward && variadic != "" && call.Ellipsis == token.NoPos {
				plainForward = false
			}
			onlyParamsOrLits := !curried
			for _, a := range call.Args {
				switch x := a.(type) {
				case *ast.FuncLit:
				case *ast.Ident:
					if _, ok := d.params[x.Name]; !ok {
						onlyParamsOrLits = false
					}
				default:
					onlyParamsOrLits = false
				}
			}
			switch {
			case plainForward:
				row.Kind = "alias"
			case hasLit && onlyParamsOrLits:
				row.Kind = "adapter"
			default:
				row.Kind = "compose"
			}
			rows = append(rows, row)
		}
	}
	return rows, nil
}

func emitDelegation(repo, out string) {
	rows, err := delegationRows(repo)
	var sb strings.Builder
	sb.WriteString("-- GENERATED by go/extract (delegation.go) from the repository under check. Do not edit.\nimport RoModel.DelegationFacts\nnamespace RoGen.Delegation\nopen Ro.Facts\n\n")
	if err != nil {
		// an unparsable source becomes a table that no expected value equals
		rows = []DelegRow{{Name: "parse-error", File: err.Error(), Base: "?", Kind: "unknown", Shape: "?"}}
	}
	sb.WriteString("def table : List DelegRow := [\n")
	for i, r := range rows {
		sb.WriteString(fmt.Sprintf("  { name := %s, file := %s, base := %s, kind := %s, shape := %s,\n    dropsIndex := %s, ctxUnchanged := %s, ctxIgnored := %s }",
			leanStr(r.Name), leanStr(r.File), leanStr(r.Base), leanStr(r.Kind), leanStr(r.Shape), leanBool(r.DropsIndex), leanBool(r.CtxUnchanged), leanBool(r.CtxIgnored)))
		if i+1 < len(rows) {
			sb.WriteString(",\n")
		} else {
			sb.WriteString("\n")
		}
	}
	sb.WriteString("]\n\nend RoGen.Delegation\n")
	writeIfChanged(filepath.Join(out, "Delegation.lean"), sb.String())
}

package main

// prom.go: fact tables for the enterprise Prometheus plugin (property C19), regenerated from
// ee/plugins/prometheus/{pipe.go,license.go,operator.go} into lean/RoGen/Prom.lean.
//
//   pipes      one row per generated PipeN: arity, how the function description is taken, the
//              plain composition (arguments of ro.PipeOpN) and the instrumented one (arguments of
//              ro.PipeOp2N: operators and processing-time observers with the argument whose
//              name/position they carry and their operator index)
//   wrap       the three stages of wrapPipeWithObservability and the metrics they are bound to
//   licence    the shape of checkLicenseAndPipe / isPrometheusEnabled
//   wrappers   one row per operator constructor of operator.go: licence guard, constructor,
//              the upstream subscription, the three callbacks as event lists (inc / fwd /
//              observe / stamp …, in source order), what the subscribe function does before
//              subscribing, and the teardown it returns
//
// Whatever is not recognised is rendered as `other:<source text>` / `?…`, which the Lean
// predicates reject.

import (
	"bytes"
	"fmt"
	"go/ast"
	"go/parser"
	"go/printer"
	"go/token"
	"path/filepath"
	"strconv"
	"strings"
)

func init() { extraTables = append(extraTables, extractProm) }

func promSrc(fs *token.FileSet, n ast.Node) string {
	if n == nil {
		return ""
	}
	var b bytes.Buffer
	printer.Fprint(&b, fs, n)
	return strings.Join(strings.Fields(b.String()), " ")
}

// ---- pipe.go ----

type promSlot struct {
	Kind  string // "op" | "obs" | "other"
	K     int    // op: 1-based operator parameter; obs: index of argN
	Index int    // obs: the operatorIndex literal
	Text  string // other
}

type promPipeRow struct {
	Name        string
	Arity       int    // number of operatorK parameters
	Leading     int    // parameters before operator1
	DescCall    string // "GetFunctionDescription(a,b)" as written
	SkipCaller  int
	SkipArgs    int
	ErrReturn   string
	ArgDecls    []int // K of every `argK := pipeDescription.Arguments[K]` (in order); -1 if malformed
	Collector   string
	Call        string // the function that receives (collector, source, plain, instrumented)
	CallHead    string // its first two arguments
	PlainFn     string
	Plain       []int
	InstrFn     string
	Instr       []promSlot
	ReturnsColl bool
	// every (possibly nested) ro.PipeOpK call has exactly K arguments
	PlainAritiesOk bool
	InstrAritiesOk bool
}

func selName(e ast.Expr) string {
	switch x := e.(type) {
	case *ast.Ident:
		return x.Name
	case *ast.SelectorExpr:
		return selName(x.X) + "." + x.Sel.Name
	case *ast.IndexExpr:
		return selName(x.X)
	case *ast.IndexListExpr:
		return selName(x.X)
	}
	return "?"
}

func operatorParam(name string) int {
	if strings.HasPrefix(name, "operator") {
		if k, err := strconv.Atoi(name[len("operator"):]); err == nil {
			return k
		}
	}
	return 0
}

func argVar(name string) int {
	if strings.HasPrefix(name, "arg") {
		if k, err := strconv.Atoi(name[len("arg"):]); err == nil {
			return k
		}
	}
	return -1
}

func analyzePipe(fs *token.FileSet, fd *ast.FuncDecl) promPipeRow {
	row := promPipeRow{Name: fd.Name.Name}
	seenOp := false
	for _, f := range fd.Type.Params.List {
		for _, n := range f.Names {
			if operatorParam(n.Name) > 0 {
				seenOp = true
				row.Arity++
			} else if !seenOp {
				row.Leading++
			}
		}
	}
	for _, st := range fd.Body.List {
		switch s := st.(type) {
		case *ast.AssignStmt:
			if len(s.Rhs) != 1 {
				continue
			}
			lhs0 := selName(s.Lhs[0])
			if call, ok := s.Rhs[0].(*ast.CallExpr); ok {
				fn := selName(call.Fun)
				if strings.HasSuffix(fn, "GetFunctionDescription") {
					row.DescCall = promSrc(fs, call)
					row.SkipCaller, row.SkipArgs = -1, -1
					if len(call.Args) == 2 {
						if a, ok := call.Args[0].(*ast.BasicLit); ok {
							row.SkipCaller, _ = strconv.Atoi(a.Value)
						}
						if a, ok := call.Args[1].(*ast.BasicLit); ok {
							row.SkipArgs, _ = strconv.Atoi(a.Value)
						}
					}
				} else if lhs0 == "collector" {
					row.Collector = promSrc(fs, call)
				}
				continue
			}
			if k := argVar(lhs0); k >= 0 {
				// argK := pipeDescription.Arguments[K]
				want := fmt.Sprintf("pipeDescription.Arguments[%d]", k)
				if promSrc(fs, s.Rhs[0]) == want {
					row.ArgDecls = append(row.ArgDecls, k)
				} else {
					row.ArgDecls = append(row.ArgDecls, -1)
				}
			}
		case *ast.IfStmt:
			if promSrc(fs, s.Cond) == "err != nil" && len(s.Body.List) == 1 {
				row.ErrReturn = promSrc(fs, s.Body.List[0])
			}
		case *ast.ReturnStmt:
			if len(s.Results) != 2 {
				continue
			}
			row.ReturnsColl = promSrc(fs, s.Results[1]) == "collector"
			call, ok := s.Results[0].(*ast.CallExpr)
			if !ok || len(call.Args) != 4 {
				row.Call = "?" + promSrc(fs, s.Results[0])
				continue
			}
			row.Call = selName(call.Fun)
			row.CallHead = promSrc(fs, call.Args[0]) + "," + promSrc(fs, call.Args[1])
			row.PlainAritiesOk, row.InstrAritiesOk = true, true
			// ro.PipeOpK(a1 … aK) applies a1 … aK in order, so nested ro.PipeOpK calls (used above
			// 12 operators, ro.PipeOp stops at 25) are flattened; every K must equal its argument count
			var flatten func(e ast.Expr, ok *bool) []ast.Expr
			flatten = func(e ast.Expr, okp *bool) []ast.Expr {
				c, isCall := e.(*ast.CallExpr)
				if !isCall || !strings.HasPrefix(selName(c.Fun), "ro.PipeOp") {
					return []ast.Expr{e}
				}
				k, err := strconv.Atoi(strings.TrimPrefix(selName(c.Fun), "ro.PipeOp"))
				if err != nil || k != len(c.Args) {
					*okp = false
				}
				var out []ast.Expr
				for _, a := range c.Args {
					out = append(out, flatten(a, okp)...)
				}
				return out
			}
			if p, ok := call.Args[2].(*ast.CallExpr); ok {
				row.PlainFn = selName(p.Fun)
				for _, a := range flatten(p, &row.PlainAritiesOk) {
					row.Plain = append(row.Plain, operatorParam(selName(a)))
				}
			}
			if p, ok := call.Args[3].(*ast.CallExpr); ok {
				row.InstrFn = selName(p.Fun)
				for _, a := range flatten(p, &row.InstrAritiesOk) {
					if id, ok := a.(*ast.Ident); ok && operatorParam(id.Name) > 0 {
						row.Instr = append(row.Instr, promSlot{Kind: "op", K: operatorParam(id.Name)})
						continue
					}
					if c, ok := a.(*ast.CallExpr); ok && selName(c.Fun) == "observeOperatorProcessingTime" && len(c.Args) == 4 {
						j := -1
						n0, n1 := promSrc(fs, c.Args[1]), promSrc(fs, c.Args[2])
						if strings.HasSuffix(n0, ".Name") && strings.HasSuffix(n1, ".Pos") && strings.TrimSuffix(n0, ".Name") == strings.TrimSuffix(n1, ".Pos") {
							j = argVar(strings.TrimSuffix(n0, ".Name"))
						}
						idx := -1
						if l, ok := c.Args[3].(*ast.BasicLit); ok {
							idx, _ = strconv.Atoi(l.Value)
						}
						if j >= 0 && idx >= 0 && promSrc(fs, c.Args[0]) == "collector.OperatorProcessingTimeSeconds" {
							row.Instr = append(row.Instr, promSlot{Kind: "obs", K: j, Index: idx})
							continue
						}
					}
					row.Instr = append(row.Instr, promSlot{Kind: "other", Text: promSrc(fs, a)})
				}
			}
		}
	}
	return row
}

// ---- operator.go ----

type promWrapperRow struct {
	Name         string
	Exported     bool
	LicenceGuard bool   // `if !isPrometheusEnabled() { return source }` opens the operator
	Ctor         string // constructor of the returned observable
	SubscribeN   int    // upstream subscriptions in the subscribe function
	SubscribeCtx string // context handed upstream
	PassThrough  bool   // hands `destination` itself upstream
	PreSubscribe []string
	OnNext       []string
	OnError      []string
	OnComplete   []string
	Returns      string
}

func isDest(e ast.Expr, method string) bool {
	s, ok := e.(*ast.SelectorExpr)
	if !ok {
		return false
	}
	id, ok := s.X.(*ast.Ident)
	return ok && id.Name == "destination" && s.Sel.Name == method
}

func argsAre(fs *token.FileSet, c *ast.CallExpr, names ...string) bool {
	if len(c.Args) != len(names) {
		return false
	}
	for i, n := range names {
		if promSrc(fs, c.Args[i]) != n {
			return false
		}
	}
	return true
}

// events of a statement list, in source order, rendered as constructors of Ro.Facts.PromEv:
//
//	.inc "counter"            counter.Inc()
//	.fwdNext/.fwdError/.fwdComplete   destination.XWithContext(<the callback's own arguments>)
//	.fwdModified "<src>"      destination.X called with anything else
//	.observe "<guard>" "m"    m.Observe(…), guard = enclosing if-condition ("" = none)
//	.stamp "v" / .readStamp / .clock "v"
//	.other "<src>"            anything else (rejected by the Lean predicates)
func promEvents(fs *token.FileSet, stmts []ast.Stmt, guard string, value string) []string {
	var out []string
	other := func(n ast.Node) { out = append(out, ".other "+leanStr(promSrc(fs, n))) }
	for _, st := range stmts {
		switch s := st.(type) {
		case *ast.ExprStmt:
			c, ok := s.X.(*ast.CallExpr)
			if !ok {
				other(st)
				continue
			}
			fwd := func(ctor string, names ...string) {
				if guard == "" && argsAre(fs, c, names...) {
					out = append(out, ctor)
				} else {
					out = append(out, ".fwdModified "+leanStr(guard+promSrc(fs, c)))
				}
			}
			switch {
			case isDest(c.Fun, "NextWithContext"):
				fwd(".fwdNext", "ctx", value)
			case isDest(c.Fun, "ErrorWithContext"):
				fwd(".fwdError", "ctx", "err")
			case isDest(c.Fun, "CompleteWithContext"):
				fwd(".fwdComplete", "ctx")
			default:
				sel, ok := c.Fun.(*ast.SelectorExpr)
				if ok && sel.Sel.Name == "Inc" && len(c.Args) == 0 && guard == "" {
					out = append(out, ".inc "+leanStr(promSrc(fs, sel.X)))
				} else if ok && sel.Sel.Name == "Observe" && len(c.Args) == 1 {
					out = append(out, ".observe "+leanStr(guard)+" "+leanStr(promSrc(fs, sel.X)))
				} else {
					other(st)
				}
			}
		case *ast.AssignStmt:
			text := promSrc(fs, st)
			switch {
			case guard != "":
				other(st)
			case strings.HasPrefix(text, "ctx = context.WithValue(ctx, checkpointCtx{}, "):
				out = append(out, ".stamp "+leanStr(strings.TrimSuffix(strings.TrimPrefix(text, "ctx = context.WithValue(ctx, checkpointCtx{}, "), ")")))
			case text == "start, ok := ctx.Value(checkpointCtx{}).(int64)":
				out = append(out, ".readStamp")
			case strings.HasSuffix(text, ":= xtime.NowNanoMonotonic()") && len(s.Lhs) == 1:
				out = append(out, ".clock "+leanStr(promSrc(fs, s.Lhs[0])))
			default:
				other(st)
			}
		case *ast.IfStmt:
			if s.Init == nil && s.Else == nil && guard == "" {
				out = append(out, promEvents(fs, s.Body.List, promSrc(fs, s.Cond), value)...)
			} else {
				other(st)
			}
		default:
			other(st)
		}
	}
	return out
}

func promCallback(fs *token.FileSet, e ast.Expr, method string, value string) []string {
	if isDest(e, method) {
		return []string{".direct"} // the destination's method value passed as the callback
	}
	if fl, ok := e.(*ast.FuncLit); ok {
		return promEvents(fs, fl.Body.List, "", value)
	}
	return []string{".other " + leanStr(promSrc(fs, e))}
}

func analyzeWrapper(fs *token.FileSet, fd *ast.FuncDecl) (promWrapperRow, bool) {
	row := promWrapperRow{Name: fd.Name.Name, Exported: ast.IsExported(fd.Name.Name)}
	// the operator: the last statement returns `func(source ro.Observable[T]) ro.Observable[T] {…}`
	if fd.Body == nil || len(fd.Body.List) == 0 {
		return row, false
	}
	ret, ok := fd.Body.List[len(fd.Body.List)-1].(*ast.ReturnStmt)
	if !ok || len(ret.Results) != 1 {
		return row, false
	}
	op, ok := ret.Results[0].(*ast.FuncLit)
	if !ok || len(op.Type.Params.List) != 1 || len(op.Type.Params.List[0].Names) != 1 || op.Type.Params.List[0].Names[0].Name != "source" {
		return row, false
	}
	body := op.Body.List
	if len(body) > 0 {
		if is, ok := body[0].(*ast.IfStmt); ok && promSrc(fs, is.Cond) == "!isPrometheusEnabled()" && len(is.Body.List) == 1 && promSrc(fs, is.Body.List[0]) == "return source" {
			row.LicenceGuard = true
			body = body[1:]
		}
	}
	if len(body) != 1 {
		row.Ctor = "?" + strconv.Itoa(len(body)) + "-statements"
		return row, true
	}
	r2, ok := body[0].(*ast.ReturnStmt)
	if !ok || len(r2.Results) != 1 {
		row.Ctor = "?no-return"
		return row, true
	}
	ctor, ok := r2.Results[0].(*ast.CallExpr)
	if !ok || len(ctor.Args) != 1 {
		row.Ctor = "?" + promSrc(fs, r2.Results[0])
		return row, true
	}
	row.Ctor = selName(ctor.Fun)
	sub, ok := ctor.Args[0].(*ast.FuncLit)
	if !ok {
		row.Ctor = "?" + row.Ctor
		return row, true
	}
	// the subscribe function: [pre-subscribe events] ; sub := source.SubscribeWithContext(ctx, observer) ; return sub.Unsubscribe
	var subVar string
	var pre []ast.Stmt
	for _, st := range sub.Body.List {
		if as, ok := st.(*ast.AssignStmt); ok && len(as.Rhs) == 1 && len(as.Lhs) == 1 {
			if c, ok := as.Rhs[0].(*ast.CallExpr); ok && promSrc(fs, c.Fun) == "source.SubscribeWithContext" && len(c.Args) == 2 {
				row.SubscribeN++
				subVar = promSrc(fs, as.Lhs[0])
				row.SubscribeCtx = promSrc(fs, c.Args[0])
				if promSrc(fs, c.Args[1]) == "destination" {
					row.PassThrough = true
					row.OnNext, row.OnError, row.OnComplete = []string{".direct"}, []string{".direct"}, []string{".direct"}
				} else if oc, ok := c.Args[1].(*ast.CallExpr); ok && selName(oc.Fun) == "ro.NewObserverWithContext" && len(oc.Args) == 3 {
					row.OnNext = promCallback(fs, oc.Args[0], "NextWithContext", "value")
					row.OnError = promCallback(fs, oc.Args[1], "ErrorWithContext", "err")
					row.OnComplete = promCallback(fs, oc.Args[2], "CompleteWithContext", "")
				} else {
					row.OnNext = []string{".other " + leanStr(promSrc(fs, c.Args[1]))}
				}
				continue
			}
		}
		if rs, ok := st.(*ast.ReturnStmt); ok && len(rs.Results) == 1 {
			row.Returns = promSrc(fs, rs.Results[0])
			if subVar != "" && row.Returns == subVar+".Unsubscribe" {
				row.Returns = "upstream.Unsubscribe"
			}
			continue
		}
		if row.SubscribeN == 0 {
			pre = append(pre, st)
		} else {
			row.PreSubscribe = append(row.PreSubscribe, ".other "+leanStr("after-subscribe: "+promSrc(fs, st)))
		}
	}
	row.PreSubscribe = append(promEvents(fs, pre, "", "value"), row.PreSubscribe...)
	return row, true
}

// ---- rendering ----

func leanStrs(l []string) string {
	parts := make([]string, len(l))
	for i, s := range l {
		parts[i] = leanStr(s)
	}
	return "[" + strings.Join(parts, ", ") + "]"
}

func leanEvs(l []string) string { return "[" + strings.Join(l, ", ") + "]" }

func leanInts(l []int) string {
	parts := make([]string, len(l))
	for i, v := range l {
		if v < 0 {
			parts[i] = "999999" // malformed
		} else {
			parts[i] = strconv.Itoa(v)
		}
	}
	return "[" + strings.Join(parts, ", ") + "]"
}

func nat(v int) string {
	if v < 0 {
		return "999999"
	}
	return strconv.Itoa(v)
}

func extractProm(repo, out string) {
	dir := filepath.Join(repo, "ee", "plugins", "prometheus")
	fs := token.NewFileSet()
	parse := func(name string) *ast.File {
		f, err := parser.ParseFile(fs, filepath.Join(dir, name), nil, 0)
		if err != nil {
			return nil
		}
		return f
	}
	var sb strings.Builder
	sb.WriteString("-- GENERATED by go/extract (prom.go) from ee/plugins/prometheus of the repository under check. Do not edit.\nimport RoModel.Facts\nnamespace RoGen.Prom\nopen Ro.Facts\n\n")

	// pipes + wrap
	var pipes []promPipeRow
	wrap := []string{"?missing"}
	wrapFn := "?"
	if f := parse("pipe.go"); f != nil {
		for _, d := range f.Decls {
			fd, ok := d.(*ast.FuncDecl)
			if !ok || fd.Body == nil {
				continue
			}
			if strings.HasPrefix(fd.Name.Name, "Pipe") {
				if _, err := strconv.Atoi(fd.Name.Name[4:]); err == nil {
					pipes = append(pipes, analyzePipe(fs, fd))
				}
			}
			if fd.Name.Name == "wrapPipeWithObservability" && len(fd.Body.List) == 1 {
				if rs, ok := fd.Body.List[0].(*ast.ReturnStmt); ok && len(rs.Results) == 1 {
					if c, ok := rs.Results[0].(*ast.CallExpr); ok {
						wrapFn = selName(c.Fun)
						wrap = nil
						for _, a := range c.Args {
							// observeBeforePipe[First](collector.X.With(prometheus.Labels{}), …) -> observeBeforePipe(X,…)
							if ac, ok := a.(*ast.CallExpr); ok {
								var ms []string
								for _, m := range ac.Args {
									t := promSrc(fs, m)
									t = strings.TrimSuffix(t, ".With(prometheus.Labels{})")
									if strings.HasPrefix(t, "collector.") && !strings.ContainsAny(t[len("collector."):], ".( ") {
										ms = append(ms, t[len("collector."):])
									} else {
										ms = append(ms, "?"+t)
									}
								}
								wrap = append(wrap, selName(ac.Fun)+"("+strings.Join(ms, ",")+")")
							} else {
								wrap = append(wrap, promSrc(fs, a))
							}
						}
					}
				}
			}
		}
	}
	sb.WriteString("def pipes : List PromPipe := [\n")
	for i, p := range pipes {
		var slots []string
		for _, s := range p.Instr {
			switch s.Kind {
			case "op":
				slots = append(slots, fmt.Sprintf(".op %d", s.K))
			case "obs":
				slots = append(slots, fmt.Sprintf(".obs %d %d", s.K, s.Index))
			default:
				slots = append(slots, ".other "+leanStr(s.Text))
			}
		}
		sb.WriteString(fmt.Sprintf("  { name := %s, arity := %d, leading := %d, descCall := %s, skipCaller := %s, skipArgs := %s, errReturn := %s,\n    argDecls := %s, collector := %s, call := %s, callHead := %s,\n    plainFn := %s, plain := %s, instrFn := %s,\n    instr := [%s], returnsCollector := %s, plainAritiesOk := %s, instrAritiesOk := %s }",
			leanStr(p.Name), p.Arity, p.Leading, leanStr(p.DescCall), nat(p.SkipCaller), nat(p.SkipArgs), leanStr(p.ErrReturn),
			leanInts(p.ArgDecls), leanStr(p.Collector), leanStr(p.Call), leanStr(p.CallHead),
			leanStr(p.PlainFn), leanInts(p.Plain), leanStr(p.InstrFn), strings.Join(slots, ", "), leanBool(p.ReturnsColl), leanBool(p.PlainAritiesOk), leanBool(p.InstrAritiesOk)))
		if i+1 < len(pipes) {
			sb.WriteString(",\n")
		} else {
			sb.WriteString("\n")
		}
	}
	sb.WriteString("]\n\n")
	sb.WriteString(fmt.Sprintf("def wrapFn : String := %s\ndef wrap : List String := %s\n\n", leanStr(wrapFn), leanStrs(wrap)))

	// licence
	lic := map[string]string{"enabled": "?missing", "ctor": "?missing", "cond": "?", "then": "?", "else": "?", "subscribe": "?", "returns": "?", "bypassDefault": "?"}
	if f := parse("license.go"); f != nil {
		for _, d := range f.Decls {
			switch x := d.(type) {
			case *ast.GenDecl:
				for _, sp := range x.Specs {
					if vs, ok := sp.(*ast.ValueSpec); ok && len(vs.Names) == 1 && vs.Names[0].Name == "bypassLicenseCheck" && len(vs.Values) == 1 {
						lic["bypassDefault"] = promSrc(fs, vs.Values[0])
					}
				}
			case *ast.FuncDecl:
				if x.Name.Name == "isPrometheusEnabled" && x.Body != nil && len(x.Body.List) == 1 {
					lic["enabled"] = promSrc(fs, x.Body.List[0])
				}
				if x.Name.Name == "checkLicenseAndPipe" && x.Body != nil && len(x.Body.List) == 1 {
					if rs, ok := x.Body.List[0].(*ast.ReturnStmt); ok && len(rs.Results) == 1 {
						if c, ok := rs.Results[0].(*ast.CallExpr); ok && len(c.Args) == 1 {
							lic["ctor"] = selName(c.Fun)
							if fl, ok := c.Args[0].(*ast.FuncLit); ok {
								for _, st := range fl.Body.List {
									switch s := st.(type) {
									case *ast.IfStmt:
										lic["cond"] = promSrc(fs, s.Cond)
										if len(s.Body.List) == 1 {
											lic["then"] = promSrc(fs, s.Body.List[0])
										}
										if eb, ok := s.Else.(*ast.BlockStmt); ok && len(eb.List) == 1 {
											lic["else"] = promSrc(fs, eb.List[0])
										}
									case *ast.AssignStmt:
										lic["subscribe"] = promSrc(fs, s)
									case *ast.ReturnStmt:
										lic["returns"] = promSrc(fs, s)
									}
								}
							}
						}
					}
				}
			}
		}
	}
	sb.WriteString(fmt.Sprintf("def licence : PromLicence :=\n  { enabled := %s, bypassDefault := %s, ctor := %s, cond := %s, thenBranch := %s, elseBranch := %s,\n    subscribe := %s, returns := %s }\n\n",
		leanStr(lic["enabled"]), leanStr(lic["bypassDefault"]), leanStr(lic["ctor"]), leanStr(lic["cond"]), leanStr(lic["then"]), leanStr(lic["else"]), leanStr(lic["subscribe"]), leanStr(lic["returns"])))

	// wrappers
	var ws []promWrapperRow
	if f := parse("operator.go"); f != nil {
		for _, d := range f.Decls {
			if fd, ok := d.(*ast.FuncDecl); ok && fd.Recv == nil {
				if row, ok := analyzeWrapper(fs, fd); ok {
					ws = append(ws, row)
				}
			}
		}
	}
	sb.WriteString("def wrappers : List PromWrapper := [\n")
	for i, w := range ws {
		sb.WriteString(fmt.Sprintf("  { name := %s, exported := %s, licenceGuard := %s, ctor := %s, subscribeN := %d, subscribeCtx := %s, passThrough := %s,\n    preSubscribe := %s,\n    onNext := %s,\n    onError := %s, onComplete := %s, returns := %s }",
			leanStr(w.Name), leanBool(w.Exported), leanBool(w.LicenceGuard), leanStr(w.Ctor), w.SubscribeN, leanStr(w.SubscribeCtx), leanBool(w.PassThrough),
			leanEvs(w.PreSubscribe), leanEvs(w.OnNext), leanEvs(w.OnError), leanEvs(w.OnComplete), leanStr(w.Returns)))
		if i+1 < len(ws) {
			sb.WriteString(",\n")
		} else {
			sb.WriteString("\n")
		}
	}
	sb.WriteString("]\n\nend RoGen.Prom\n")
	if out != "" {
		writeIfChanged(filepath.Join(out, "Prom.lean"), sb.String())
	} else {
		fmt.Println(sb.String())
	}
}

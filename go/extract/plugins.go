package main

// Table `Plugins` (DESIGN.md 4.2, property C18): one row per exported function of the data
// plugins — which lift it is (ro.Map / ro.MapErr / ro.Filter / its own subscribe closure / an
// alias of a sibling), and the *normalised body* of the callback it lifts: the wrapped library
// function with its import path, and where each argument comes from ($v = the stream item,
// $p<i> = the i-th parameter of the operator constructor, $l<i> = the i-th local, literals as
// written, construction-scope locals inlined). Conversions between string / []byte / the type
// parameter are erased; `ro.Map(strconv.Itoa)` and `ro.Map(func(v int) string { return
// strconv.Itoa(v) })` give the same row. Renaming identifiers or reformatting keeps a row; passing
// a constant instead of a parameter, swapping arguments, calling a sibling function or changing
// the lift changes it.
//
// Table `Helpers`: the unexported helpers of plugins/strings and plugins/bytes (the "wrapped
// functions" of the text operators), normalised the same way and additionally flavour-erased
// (string/[]byte -> Text, strings./bytes. -> text., Builder/Buffer -> text.Buf, …) so that the two
// flavours of a helper can be compared as data. A `range` over a string parameter and a `range`
// over a []byte parameter are tagged differently (runes vs bytes): same tokens, different meaning.

import (
	"bytes"
	"fmt"
	"go/ast"
	"go/parser"
	"go/printer"
	"go/token"
	"os"
	"path/filepath"
	"sort"
	"strconv"
	"strings"
)

var pluginDirs = []string{
	"strconv", "regexp", "strings", "bytes", "time", "template",
	"encoding/base64", "encoding/json", "encoding/gob", "encoding/csv", "sort", "stdio",
}

type PluginRow struct {
	Plugin string
	Name   string
	Params []string // normalised parameter types of the constructor
	Lift   string   // map | mapErr | filter | own | alias | other
	Setup  []string // construction-scope statements before the return (validation, panics)
	Body   []string // normalised statements of the lifted callback / the subscribe closure
}

type HelperRow struct {
	Pkg  string // strings | bytes
	Name string
	Body []string // normalised
	Norm []string // normalised and flavour-erased
}

type pnorm struct {
	fset       *token.FileSet
	imports    map[string]string
	pkgIdents  map[string]bool
	typeParams map[string]bool
	ctorParams map[string]int
	paramFlav  map[string]string // parameter name -> "runes" | "bytes" (for range tagging)
	ctorLocals map[string]ast.Expr
	special    map[string]string // item / ctx / destination / source names
	locals     map[string]int
	flavour    bool // erase string/bytes flavour
}

func (n *pnorm) text(node ast.Node) string {
	var b bytes.Buffer
	printer.Fprint(&b, n.fset, node)
	return strings.Join(strings.Fields(b.String()), " ")
}

func (n *pnorm) local(name string) string {
	if name == "_" {
		return "_"
	}
	if i, ok := n.locals[name]; ok {
		return "$l" + strconv.Itoa(i)
	}
	i := len(n.locals)
	n.locals[name] = i
	return "$l" + strconv.Itoa(i)
}

func isByteSlice(e ast.Expr) bool {
	a, ok := e.(*ast.ArrayType)
	if !ok || a.Len != nil {
		return false
	}
	id, ok := a.Elt.(*ast.Ident)
	return ok && id.Name == "byte"
}

func (n *pnorm) isConversion(fun ast.Expr) bool {
	switch f := fun.(type) {
	case *ast.Ident:
		if _, shadow := n.locals[f.Name]; shadow {
			return false
		}
		return n.typeParams[f.Name] || f.Name == "string" || f.Name == "rune"
	case *ast.ArrayType:
		return isByteSlice(f)
	case *ast.ParenExpr:
		return n.isConversion(f.X)
	}
	return false
}

func (n *pnorm) typ(e ast.Expr) string {
	switch t := e.(type) {
	case nil:
		return ""
	case *ast.Ident:
		if n.typeParams[t.Name] {
			return "T"
		}
		if n.flavour && t.Name == "string" {
			return "Text"
		}
		if n.pkgIdents[t.Name] {
			return "self." + t.Name
		}
		return t.Name
	case *ast.SelectorExpr:
		if id, ok := t.X.(*ast.Ident); ok {
			if p, ok := n.imports[id.Name]; ok {
				return n.flav(p + "." + t.Sel.Name)
			}
		}
		return n.text(t)
	case *ast.StarExpr:
		return "*" + n.typ(t.X)
	case *ast.ArrayType:
		if n.flavour && isByteSlice(t) {
			return "Text"
		}
		if t.Len != nil {
			return "[" + n.text(t.Len) + "]" + n.typ(t.Elt)
		}
		return "[]" + n.typ(t.Elt)
	case *ast.Ellipsis:
		return "..." + n.typ(t.Elt)
	case *ast.MapType:
		return "map[" + n.typ(t.Key) + "]" + n.typ(t.Value)
	case *ast.IndexExpr:
		return n.typ(t.X) + "[" + n.typ(t.Index) + "]"
	case *ast.FuncType:
		var ps, rs []string
		if t.Params != nil {
			for _, f := range t.Params.List {
				k := len(f.Names)
				if k == 0 {
					k = 1
				}
				for i := 0; i < k; i++ {
					ps = append(ps, n.typ(f.Type))
				}
			}
		}
		if t.Results != nil {
			for _, f := range t.Results.List {
				k := len(f.Names)
				if k == 0 {
					k = 1
				}
				for i := 0; i < k; i++ {
					rs = append(rs, n.typ(f.Type))
				}
			}
		}
		return "func(" + strings.Join(ps, ",") + ")(" + strings.Join(rs, ",") + ")"
	}
	return n.text(e)
}

// flavour erasure of qualified names and method names
func (n *pnorm) flav(s string) string {
	if !n.flavour {
		return s
	}
	switch s {
	case "strings.Builder", "bytes.Buffer":
		return "text.Buf"
	}
	if strings.HasPrefix(s, "strings.") {
		return "text." + strings.TrimPrefix(s, "strings.")
	}
	if strings.HasPrefix(s, "bytes.") {
		return "text." + strings.TrimPrefix(s, "bytes.")
	}
	return s
}

func (n *pnorm) flavSel(sel string) string {
	if !n.flavour {
		return sel
	}
	switch sel {
	case "String", "Bytes":
		return "Out"
	case "ReplaceAllString":
		return "ReplaceAll"
	}
	return sel
}

func (n *pnorm) expr(e ast.Expr) string {
	switch x := e.(type) {
	case nil:
		return ""
	case *ast.Ident:
		if s, ok := n.special[x.Name]; ok {
			return s
		}
		if _, ok := n.locals[x.Name]; ok {
			return n.local(x.Name)
		}
		if i, ok := n.ctorParams[x.Name]; ok {
			return "$p" + strconv.Itoa(i)
		}
		if d, ok := n.ctorLocals[x.Name]; ok {
			return "(" + n.expr(d) + ")"
		}
		if n.typeParams[x.Name] {
			return "T"
		}
		if n.pkgIdents[x.Name] {
			return "self." + x.Name
		}
		return x.Name
	case *ast.BasicLit:
		if n.flavour && x.Kind == token.CHAR {
			// '_' and "_" are the same text
			if s, err := strconv.Unquote(x.Value); err == nil {
				return strconv.Quote(s)
			}
		}
		return x.Value
	case *ast.SelectorExpr:
		if id, ok := x.X.(*ast.Ident); ok {
			if _, shadow := n.locals[id.Name]; !shadow {
				if p, ok := n.imports[id.Name]; ok {
					return n.flav(p + "." + x.Sel.Name)
				}
			}
		}
		return n.expr(x.X) + "." + n.flavSel(x.Sel.Name)
	case *ast.CallExpr:
		if len(x.Args) == 1 && n.isConversion(x.Fun) {
			return n.expr(x.Args[0])
		}
		args := make([]string, len(x.Args))
		for i, a := range x.Args {
			args[i] = n.expr(a)
		}
		s := n.expr(x.Fun) + "(" + strings.Join(args, ", ") + ")"
		if x.Ellipsis.IsValid() {
			s = n.expr(x.Fun) + "(" + strings.Join(args, ", ") + "...)"
		}
		return s
	case *ast.UnaryExpr:
		return x.Op.String() + n.expr(x.X)
	case *ast.BinaryExpr:
		return n.expr(x.X) + " " + x.Op.String() + " " + n.expr(x.Y)
	case *ast.ParenExpr:
		return "(" + n.expr(x.X) + ")"
	case *ast.StarExpr:
		return "*" + n.expr(x.X)
	case *ast.IndexExpr:
		return n.expr(x.X) + "[" + n.expr(x.Index) + "]"
	case *ast.IndexListExpr:
		return n.expr(x.X)
	case *ast.SliceExpr:
		s := n.expr(x.X) + "[" + n.expr(x.Low) + ":" + n.expr(x.High)
		if x.Slice3 {
			s += ":" + n.expr(x.Max)
		}
		return s + "]"
	case *ast.KeyValueExpr:
		return n.expr(x.Key) + ": " + n.expr(x.Value)
	case *ast.CompositeLit:
		if n.flavour && isByteSlice(x.Type) {
			// []byte{'_'} is the text "_"
			var sb strings.Builder
			ok := true
			for _, el := range x.Elts {
				bl, isLit := el.(*ast.BasicLit)
				if !isLit || bl.Kind != token.CHAR {
					ok = false
					break
				}
				s, err := strconv.Unquote(bl.Value)
				if err != nil {
					ok = false
					break
				}
				sb.WriteString(s)
			}
			if ok {
				return strconv.Quote(sb.String())
			}
		}
		elts := make([]string, len(x.Elts))
		for i, el := range x.Elts {
			elts[i] = n.expr(el)
		}
		return n.typ(x.Type) + "{" + strings.Join(elts, ", ") + "}"
	case *ast.FuncLit:
		return n.funcLit(x)
	case *ast.ArrayType, *ast.MapType, *ast.FuncType, *ast.Ellipsis:
		return n.typ(x)
	case *ast.TypeAssertExpr:
		return n.expr(x.X) + ".(" + n.typ(x.Type) + ")"
	}
	return "?" + n.text(e)
}

func (n *pnorm) funcLit(f *ast.FuncLit) string {
	var ps []string
	if f.Type.Params != nil {
		for _, fld := range f.Type.Params.List {
			for _, nm := range fld.Names {
				ps = append(ps, n.local(nm.Name))
			}
		}
	}
	return "func(" + strings.Join(ps, ", ") + ") { " + strings.Join(n.stmts(f.Body.List), "; ") + " }"
}

func (n *pnorm) block(b *ast.BlockStmt) string {
	if b == nil {
		return "{}"
	}
	return "{ " + strings.Join(n.stmts(b.List), "; ") + " }"
}

func (n *pnorm) stmts(l []ast.Stmt) []string {
	var out []string
	for _, s := range l {
		out = append(out, n.stmt(s))
	}
	return out
}

func (n *pnorm) exprs(l []ast.Expr) string {
	parts := make([]string, len(l))
	for i, e := range l {
		parts[i] = n.expr(e)
	}
	return strings.Join(parts, ", ")
}

func (n *pnorm) stmt(s ast.Stmt) string {
	switch x := s.(type) {
	case nil:
		return ""
	case *ast.ReturnStmt:
		if len(x.Results) == 0 {
			return "return"
		}
		return "return " + n.exprs(x.Results)
	case *ast.ExprStmt:
		return n.expr(x.X)
	case *ast.AssignStmt:
		rhs := n.exprs(x.Rhs) // right-hand side first: `x := f(x)` refers to the outer x
		if x.Tok == token.DEFINE {
			lhs := make([]string, len(x.Lhs))
			for i, l := range x.Lhs {
				if id, ok := l.(*ast.Ident); ok {
					lhs[i] = n.local(id.Name)
				} else {
					lhs[i] = n.expr(l)
				}
			}
			return strings.Join(lhs, ", ") + " := " + rhs
		}
		return n.exprs(x.Lhs) + " " + x.Tok.String() + " " + rhs
	case *ast.DeclStmt:
		gd, ok := x.Decl.(*ast.GenDecl)
		if !ok {
			return "?" + n.text(x)
		}
		var parts []string
		for _, sp := range gd.Specs {
			vs, ok := sp.(*ast.ValueSpec)
			if !ok {
				parts = append(parts, "?"+n.text(sp))
				continue
			}
			vals := n.exprs(vs.Values)
			var names []string
			for _, nm := range vs.Names {
				names = append(names, n.local(nm.Name))
			}
			p := gd.Tok.String() + " " + strings.Join(names, ", ")
			if vs.Type != nil {
				p += " " + n.typ(vs.Type)
			}
			if vals != "" {
				p += " = " + vals
			}
			parts = append(parts, p)
		}
		return strings.Join(parts, "; ")
	case *ast.IfStmt:
		s := "if "
		if x.Init != nil {
			s += n.stmt(x.Init) + "; "
		}
		s += n.expr(x.Cond) + " " + n.block(x.Body)
		if x.Else != nil {
			switch e := x.Else.(type) {
			case *ast.BlockStmt:
				s += " else " + n.block(e)
			default:
				s += " else " + n.stmt(e)
			}
		}
		return s
	case *ast.ForStmt:
		return "for " + n.stmt(x.Init) + "; " + n.expr(x.Cond) + "; " + n.stmt(x.Post) + " " + n.block(x.Body)
	case *ast.RangeStmt:
		tag := ""
		if id, ok := x.X.(*ast.Ident); ok {
			if f, ok := n.paramFlav[id.Name]; ok {
				if _, shadow := n.locals[id.Name]; !shadow {
					tag = "." + f
				}
			}
		}
		xs := n.expr(x.X)
		k, v := "", ""
		if x.Key != nil {
			if id, ok := x.Key.(*ast.Ident); ok && x.Tok == token.DEFINE {
				k = n.local(id.Name)
			} else {
				k = n.expr(x.Key)
			}
		}
		if x.Value != nil {
			if id, ok := x.Value.(*ast.Ident); ok && x.Tok == token.DEFINE {
				v = n.local(id.Name)
			} else {
				v = n.expr(x.Value)
			}
		}
		return "range" + tag + " " + k + ", " + v + " in " + xs + " " + n.block(x.Body)
	case *ast.BlockStmt:
		return n.block(x)
	case *ast.IncDecStmt:
		return n.expr(x.X) + x.Tok.String()
	case *ast.BranchStmt:
		return x.Tok.String()
	case *ast.SwitchStmt, *ast.TypeSwitchStmt, *ast.SelectStmt, *ast.GoStmt, *ast.DeferStmt:
		return "?" + n.text(x)
	}
	return "?" + n.text(s)
}

// ---------------------------------------------------------------- per package

func textFlavour(t ast.Expr, typeParams map[string]string) string {
	switch x := t.(type) {
	case *ast.Ident:
		if x.Name == "string" {
			return "runes"
		}
		if c, ok := typeParams[x.Name]; ok {
			return c
		}
	case *ast.ArrayType:
		if isByteSlice(x) {
			return "bytes"
		}
	}
	return ""
}

func roCall(e ast.Expr, imports map[string]string) (string, *ast.CallExpr) {
	c, ok := e.(*ast.CallExpr)
	if !ok {
		return "", nil
	}
	fun := c.Fun
	if ix, ok := fun.(*ast.IndexExpr); ok {
		fun = ix.X
	}
	if ix, ok := fun.(*ast.IndexListExpr); ok {
		fun = ix.X
	}
	sel, ok := fun.(*ast.SelectorExpr)
	if !ok {
		return "", nil
	}
	id, ok := sel.X.(*ast.Ident)
	if !ok || imports[id.Name] != "github.com/samber/ro" {
		return "", nil
	}
	return sel.Sel.Name, c
}

func analyzePluginDir(repo, dir string, rows *[]PluginRow, helpers *[]HelperRow) error {
	fs := token.NewFileSet()
	full := filepath.Join(repo, "plugins", dir)
	ents, err := os.ReadDir(full)
	if err != nil {
		return err
	}
	var files []*ast.File
	var names []string
	for _, e := range ents {
		if e.IsDir() || !strings.HasSuffix(e.Name(), ".go") || strings.HasSuffix(e.Name(), "_test.go") {
			continue
		}
		names = append(names, e.Name())
	}
	sort.Strings(names)
	pkgIdents := map[string]bool{}
	for _, nm := range names {
		f, err := parser.ParseFile(fs, filepath.Join(full, nm), nil, 0)
		if err != nil {
			return err
		}
		files = append(files, f)
		for _, d := range f.Decls {
			switch x := d.(type) {
			case *ast.FuncDecl:
				if x.Recv == nil {
					pkgIdents[x.Name.Name] = true
				}
			case *ast.GenDecl:
				for _, sp := range x.Specs {
					switch s := sp.(type) {
					case *ast.ValueSpec:
						for _, id := range s.Names {
							pkgIdents[id.Name] = true
						}
					case *ast.TypeSpec:
						pkgIdents[s.Name.Name] = true
					}
				}
			}
		}
	}
	for _, f := range files {
		imports := map[string]string{}
		for _, im := range f.Imports {
			p, _ := strconv.Unquote(im.Path.Value)
			local := p[strings.LastIndex(p, "/")+1:]
			if im.Name != nil {
				local = im.Name.Name
			}
			imports[local] = p
		}
		for _, d := range f.Decls {
			fd, ok := d.(*ast.FuncDecl)
			if !ok || fd.Recv != nil || fd.Body == nil {
				continue
			}
			if fd.Name.IsExported() {
				*rows = append(*rows, pluginRow(fs, dir, imports, pkgIdents, fd))
			} else if dir == "strings" || dir == "bytes" {
				*helpers = append(*helpers, helperRow(fs, dir, imports, pkgIdents, fd))
			}
		}
	}
	return nil
}

func newNorm(fs *token.FileSet, imports map[string]string, pkgIdents map[string]bool, fd *ast.FuncDecl) *pnorm {
	n := &pnorm{fset: fs, imports: imports, pkgIdents: pkgIdents, typeParams: map[string]bool{}, ctorParams: map[string]int{},
		paramFlav: map[string]string{}, ctorLocals: map[string]ast.Expr{}, special: map[string]string{}, locals: map[string]int{}}
	tpFlav := map[string]string{}
	if fd.Type.TypeParams != nil {
		for _, fld := range fd.Type.TypeParams.List {
			c := ""
			if u, ok := fld.Type.(*ast.UnaryExpr); ok && u.Op == token.TILDE {
				c = textFlavour(u.X, nil)
			}
			for _, nm := range fld.Names {
				n.typeParams[nm.Name] = true
				if c != "" {
					tpFlav[nm.Name] = c
				}
			}
		}
	}
	i := 0
	if fd.Type.Params != nil {
		for _, fld := range fd.Type.Params.List {
			for _, nm := range fld.Names {
				n.ctorParams[nm.Name] = i
				if fl := textFlavour(fld.Type, tpFlav); fl != "" {
					n.paramFlav[nm.Name] = fl
				}
				i++
			}
		}
	}
	return n
}

func paramTypes(n *pnorm, fd *ast.FuncDecl) []string {
	var out []string
	if fd.Type.Params != nil {
		for _, fld := range fd.Type.Params.List {
			k := len(fld.Names)
			if k == 0 {
				k = 1
			}
			for i := 0; i < k; i++ {
				out = append(out, n.typ(fld.Type))
			}
		}
	}
	return out
}

func helperRow(fs *token.FileSet, dir string, imports map[string]string, pkgIdents map[string]bool, fd *ast.FuncDecl) HelperRow {
	n := newNorm(fs, imports, pkgIdents, fd)
	body := n.stmts(fd.Body.List)
	m := newNorm(fs, imports, pkgIdents, fd)
	m.flavour = true
	norm := m.stmts(fd.Body.List)
	return HelperRow{Pkg: dir, Name: fd.Name.Name, Body: body, Norm: norm}
}

// bind the parameters of a callback literal: the first is the item ($v)
func (n *pnorm) bindCallback(f *ast.FuncLit, tpFlav map[string]string) {
	first := true
	for _, fld := range f.Type.Params.List {
		for _, nm := range fld.Names {
			if first {
				n.special[nm.Name] = "$v"
				if fl := textFlavour(fld.Type, tpFlav); fl != "" {
					n.paramFlav[nm.Name] = fl
				}
				first = false
			} else {
				n.local(nm.Name)
			}
		}
	}
}

func pluginRow(fs *token.FileSet, dir string, imports map[string]string, pkgIdents map[string]bool, fd *ast.FuncDecl) PluginRow {
	n := newNorm(fs, imports, pkgIdents, fd)
	row := PluginRow{Plugin: dir, Name: fd.Name.Name, Params: paramTypes(n, fd), Lift: "other"}
	// construction scope: single-assignment locals are inlined, everything else is `setup`
	var ret *ast.ReturnStmt
	for _, s := range fd.Body.List {
		if r, ok := s.(*ast.ReturnStmt); ok {
			ret = r
			break
		}
		if as, ok := s.(*ast.AssignStmt); ok && as.Tok == token.DEFINE && len(as.Lhs) == 1 && len(as.Rhs) == 1 {
			if id, ok := as.Lhs[0].(*ast.Ident); ok {
				n.ctorLocals[id.Name] = as.Rhs[0]
				continue
			}
		}
		row.Setup = append(row.Setup, n.stmt(s))
	}
	if ret == nil || len(ret.Results) != 1 {
		row.Body = []string{"?no-single-return"}
		return row
	}
	res := ret.Results[0]
	// func(source) Observable { return ro.New…(func(ctx, destination) Teardown { … }) }   (pipeable, own closure)
	if fl, ok := res.(*ast.FuncLit); ok && len(fl.Body.List) == 1 {
		if r2, ok := fl.Body.List[0].(*ast.ReturnStmt); ok && len(r2.Results) == 1 {
			if name, call := roCall(r2.Results[0], imports); call != nil {
				if _, isCtor := isCtorName(name); isCtor && len(call.Args) == 1 {
					if sub, ok := call.Args[0].(*ast.FuncLit); ok {
						for _, fld := range fl.Type.Params.List {
							for _, nm := range fld.Names {
								n.special[nm.Name] = "$src"
							}
						}
						row.Lift = "own"
						row.Body = append([]string{"ctor ro." + name}, n.ownBody(sub)...)
						return row
					}
				}
			}
		}
	}
	name, call := roCall(res, imports)
	if call == nil {
		// alias of a sibling: return NewIOReader(os.Stdin)
		if c, ok := res.(*ast.CallExpr); ok {
			if id, ok := c.Fun.(*ast.Ident); ok && pkgIdents[id.Name] {
				row.Lift = "alias"
				row.Body = []string{"return " + n.expr(res)}
				return row
			}
		}
		row.Body = []string{"?" + n.text(res)}
		return row
	}
	if _, isCtor := isCtorName(name); isCtor && len(call.Args) == 1 {
		if sub, ok := call.Args[0].(*ast.FuncLit); ok { // creation operator with its own closure
			row.Lift = "own"
			row.Body = append([]string{"ctor ro." + name}, n.ownBody(sub)...)
			return row
		}
	}
	switch name {
	case "Map":
		row.Lift = "map"
	case "MapErr":
		row.Lift = "mapErr"
	case "Filter":
		row.Lift = "filter"
	default:
		row.Body = []string{"?ro." + name}
		return row
	}
	if len(call.Args) != 1 {
		row.Lift = "other"
		row.Body = []string{"?arity"}
		return row
	}
	tpFlav := map[string]string{}
	if fd.Type.TypeParams != nil {
		for _, fld := range fd.Type.TypeParams.List {
			if u, ok := fld.Type.(*ast.UnaryExpr); ok && u.Op == token.TILDE {
				if c := textFlavour(u.X, nil); c != "" {
					for _, nm := range fld.Names {
						tpFlav[nm.Name] = c
					}
				}
			}
		}
	}
	switch cb := call.Args[0].(type) {
	case *ast.FuncLit:
		n.bindCallback(cb, tpFlav)
		row.Body = n.stmts(cb.Body.List)
	default:
		// a function value: eta-expand
		row.Body = []string{"return " + n.expr(cb) + "($v)"}
	}
	return row
}

func (n *pnorm) ownBody(sub *ast.FuncLit) []string {
	i := 0
	for _, fld := range sub.Type.Params.List {
		for _, nm := range fld.Names {
			if i == 0 {
				n.special[nm.Name] = "$ctx"
			} else {
				n.special[nm.Name] = "$dst"
			}
			i++
		}
	}
	return n.stmts(sub.Body.List)
}

// ---------------------------------------------------------------- Lean output

func leanStrList(l []string) string {
	parts := make([]string, len(l))
	for i, s := range l {
		parts[i] = leanStrEsc(s)
	}
	return "[" + strings.Join(parts, ", ") + "]"
}

func leanStrEsc(s string) string {
	var sb strings.Builder
	sb.WriteString("txt% \"")
	for _, r := range s {
		switch {
		case r == '"':
			sb.WriteString("\\\"")
		case r == '\\':
			sb.WriteString("\\\\")
		case r == '\n':
			sb.WriteString("\\n")
		case r == '\t':
			sb.WriteString("\\t")
		case r < 32 || r == 127:
			sb.WriteString(fmt.Sprintf("\\x%02x", r))
		default:
			sb.WriteRune(r)
		}
	}
	sb.WriteByte('"')
	return sb.String()
}

func emitPlugins(repo, out string) error {
	var rows []PluginRow
	var helpers []HelperRow
	for _, d := range pluginDirs {
		if err := analyzePluginDir(repo, d, &rows, &helpers); err != nil {
			return err
		}
	}
	var sb strings.Builder
	sb.WriteString("-- GENERATED by go/extract (plugins.go) from the repository under check. Do not edit.\nimport RoModel.PluginFacts\nnamespace RoGen.Plugins\nopen Ro.PluginFacts\n\n")
	sb.WriteString("def table : List Row := [\n")
	for i, r := range rows {
		unknown := ""
		for _, st := range append(append([]string{}, r.Setup...), r.Body...) {
			if strings.Contains(st, "?") {
				unknown = ", unknown := true"
			}
		}
		sb.WriteString(fmt.Sprintf("  { plugin := %s, name := %s, params := %s, lift := .%s,\n    setup := %s,\n    body := %s%s }",
			leanStrEsc(r.Plugin), leanStrEsc(r.Name), leanStrList(r.Params), liftCtor(r.Lift), leanStrList(r.Setup), leanStrList(r.Body), unknown))
		if i+1 < len(rows) {
			sb.WriteString(",\n")
		} else {
			sb.WriteString("\n")
		}
	}
	sb.WriteString("]\n\ndef helpers : List Helper := [\n")
	for i, h := range helpers {
		sb.WriteString(fmt.Sprintf("  { pkg := %s, name := %s,\n    body := %s,\n    norm := %s }",
			leanStrEsc(h.Pkg), leanStrEsc(h.Name), leanStrList(h.Body), leanStrList(h.Norm)))
		if i+1 < len(helpers) {
			sb.WriteString(",\n")
		} else {
			sb.WriteString("\n")
		}
	}
	sb.WriteString("]\n\nend RoGen.Plugins\n")
	if out != "" {
		writeIfChanged(filepath.Join(out, "Plugins.lean"), sb.String())
	} else {
		fmt.Print(sb.String())
	}
	return nil
}

func liftCtor(l string) string {
	switch l {
	case "map", "mapErr", "filter", "own", "alias":
		return l
	}
	return "other"
}

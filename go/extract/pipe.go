package main

// Pipe table (lean/RoGen/Pipe.lean) from pipe.go of the repository under check: for every typed
// `PipeN` the sequence of operator parameters in APPLICATION order (innermost call first), as
// positions among the operator parameters (1-based); for every `PipeOpN` the typed function it
// delegates to and the order in which it hands its operators over; for the reflective `Pipe` the
// shape of its loop (ranges over `operators` in order, applies each to the accumulator) and for
// `PipeOp` that it forwards `source, operators...` to `Pipe`. Anything not recognised is a row with
// `ok := false`, which the Lean predicate rejects.

import (
	"fmt"
	"go/ast"
	"go/parser"
	"go/token"
	"path/filepath"
	"regexp"
	"strconv"
	"strings"
)

type PipeRow struct {
	Name  string
	N     int
	Via   string // "" (nested application) | "PipeN" | "Pipe" | "range"
	Order []int
	Ok    bool
}

var pipeNameRe = regexp.MustCompile(`^(Pipe|PipeOp)([0-9]+)$`)

func paramNames(ft *ast.FuncType) []string {
	var out []string
	for _, fld := range ft.Params.List {
		for _, n := range fld.Names {
			out = append(out, n.Name)
		}
	}
	return out
}

func indexOf(l []string, s string) int {
	for i, x := range l {
		if x == s {
			return i
		}
	}
	return -1
}

// nested application opK(…op1(source)…): returns the operator names innermost first
func nestedOrder(e ast.Expr, source string) ([]string, bool) {
	var outer []string
	for {
		call, ok := e.(*ast.CallExpr)
		if !ok || len(call.Args) != 1 {
			break
		}
		id, ok := call.Fun.(*ast.Ident)
		if !ok {
			return nil, false
		}
		outer = append(outer, id.Name)
		e = call.Args[0]
	}
	id, ok := e.(*ast.Ident)
	if !ok || id.Name != source {
		return nil, false
	}
	// reverse: innermost first
	for i, j := 0, len(outer)-1; i < j; i, j = i+1, j-1 {
		outer[i], outer[j] = outer[j], outer[i]
	}
	return outer, true
}

func singleReturn(b *ast.BlockStmt) (ast.Expr, bool) {
	if b == nil || len(b.List) != 1 {
		return nil, false
	}
	r, ok := b.List[0].(*ast.ReturnStmt)
	if !ok || len(r.Results) != 1 {
		return nil, false
	}
	return r.Results[0], true
}

// the reflective Pipe: `o := reflect.ValueOf(source)`; `for _, operator := range operators { funcValue :=
// reflect.ValueOf(operator) … o = funcValue.Call([]reflect.Value{o})[0] }`; result taken from `o`
func reflectivePipeShape(fd *ast.FuncDecl) bool {
	names := paramNames(fd.Type)
	if len(names) != 2 {
		return false
	}
	source, operators := names[0], names[1]
	acc := ""
	okInit, okLoop, okResult := false, false, false
	loops := 0
	for _, st := range fd.Body.List {
		switch s := st.(type) {
		case *ast.AssignStmt:
			if len(s.Lhs) == 1 && len(s.Rhs) == 1 {
				if c, ok := s.Rhs[0].(*ast.CallExpr); ok && calleeName(c) == "ValueOf" && len(c.Args) == 1 {
					if id, ok := c.Args[0].(*ast.Ident); ok && id.Name == source {
						if l, ok := s.Lhs[0].(*ast.Ident); ok && acc == "" {
							acc, okInit = l.Name, true
						}
					}
				}
				// v, _ := o.Interface().(Observable[Last])
			}
			if len(s.Rhs) == 1 {
				if ta, ok := s.Rhs[0].(*ast.TypeAssertExpr); ok {
					if c, ok := ta.X.(*ast.CallExpr); ok {
						if sel, ok := c.Fun.(*ast.SelectorExpr); ok && sel.Sel.Name == "Interface" {
							if id, ok := sel.X.(*ast.Ident); ok && id.Name == acc {
								okResult = true
							}
						}
					}
				}
			}
		case *ast.RangeStmt:
			loops++
			rid, ok := s.X.(*ast.Ident)
			val, ok2 := s.Value.(*ast.Ident)
			if !ok || !ok2 || rid.Name != operators {
				continue
			}
			// inside: fv := reflect.ValueOf(<val>); acc = fv.Call([]reflect.Value{acc})[0]; no other write to acc
			fv := ""
			writes, good := 0, 0
			ast.Inspect(s.Body, func(n ast.Node) bool {
				as, ok := n.(*ast.AssignStmt)
				if !ok || len(as.Lhs) != 1 || len(as.Rhs) != 1 {
					return true
				}
				l, ok := as.Lhs[0].(*ast.Ident)
				if !ok {
					return true
				}
				if c, ok := as.Rhs[0].(*ast.CallExpr); ok && calleeName(c) == "ValueOf" && len(c.Args) == 1 {
					if id, ok := c.Args[0].(*ast.Ident); ok && id.Name == val.Name {
						fv = l.Name
					}
				}
				if l.Name == acc {
					writes++
					// fv.Call([]reflect.Value{acc})[0]
					if ix, ok := as.Rhs[0].(*ast.IndexExpr); ok {
						if lit, ok := ix.Index.(*ast.BasicLit); ok && lit.Value == "0" {
							if c, ok := ix.X.(*ast.CallExpr); ok && len(c.Args) == 1 {
								if sel, ok := c.Fun.(*ast.SelectorExpr); ok && sel.Sel.Name == "Call" {
									if r, ok := sel.X.(*ast.Ident); ok && r.Name == fv && fv != "" {
										if cl, ok := c.Args[0].(*ast.CompositeLit); ok && len(cl.Elts) == 1 {
											if a, ok := cl.Elts[0].(*ast.Ident); ok && a.Name == acc {
												good++
											}
										}
									}
								}
							}
						}
					}
				}
				return true
			})
			if writes == 1 && good == 1 {
				okLoop = true
			}
		}
	}
	return okInit && okLoop && okResult && loops == 1
}

func pipeRows(repo string) []PipeRow {
	fs := token.NewFileSet()
	file, err := parser.ParseFile(fs, filepath.Join(repo, "pipe.go"), nil, 0)
	if err != nil {
		return []PipeRow{{Name: "parse-error"}}
	}
	var rows []PipeRow
	for _, dcl := range file.Decls {
		fd, ok := dcl.(*ast.FuncDecl)
		if !ok || fd.Body == nil || fd.Recv != nil {
			continue
		}
		name := fd.Name.Name
		if name == "Pipe" {
			rows = append(rows, PipeRow{Name: name, Via: "range", Ok: reflectivePipeShape(fd)})
			continue
		}
		if name == "PipeOp" {
			row := PipeRow{Name: name, Via: "?"}
			ops := paramNames(fd.Type)
			if e, ok := singleReturn(fd.Body); ok && len(ops) == 1 {
				if lit, ok := e.(*ast.FuncLit); ok {
					src := paramNames(lit.Type)
					if inner, ok := singleReturn(lit.Body); ok && len(src) == 1 {
						if c, ok := inner.(*ast.CallExpr); ok && len(c.Args) == 2 && c.Ellipsis != token.NoPos {
							a0, ok0 := c.Args[0].(*ast.Ident)
							a1, ok1 := c.Args[1].(*ast.Ident)
							if ok0 && ok1 && a0.Name == src[0] && a1.Name == ops[0] {
								row.Via, row.Ok = calleeName(c), true
							}
						}
					}
				}
			}
			rows = append(rows, row)
			continue
		}
		m := pipeNameRe.FindStringSubmatch(name)
		if m == nil {
			continue
		}
		n, _ := strconv.Atoi(m[2])
		row := PipeRow{Name: name, N: n}
		params := paramNames(fd.Type)
		if m[1] == "Pipe" {
			// params: source, operator1..n
			if e, ok := singleReturn(fd.Body); ok && len(params) == n+1 {
				if order, ok := nestedOrder(e, params[0]); ok {
					row.Ok = true
					for _, o := range order {
						k := indexOf(params[1:], o)
						if k < 0 {
							row.Ok = false
						}
						row.Order = append(row.Order, k+1)
					}
				}
			}
		} else {
			// PipeOpN(operator1..n) = func(source) { return PipeN(source, operator…) }
			row.Via = "?"
			if e, ok := singleReturn(fd.Body); ok && len(params) == n {
				if lit, ok := e.(*ast.FuncLit); ok {
					src := paramNames(lit.Type)
					if inner, ok := singleReturn(lit.Body); ok && len(src) == 1 {
						if c, ok := inner.(*ast.CallExpr); ok && len(c.Args) >= 1 && c.Ellipsis == token.NoPos {
							if a0, ok := c.Args[0].(*ast.Ident); ok && a0.Name == src[0] {
								row.Via, row.Ok = calleeName(c), true
								for _, a := range c.Args[1:] {
									id, ok := a.(*ast.Ident)
									k := -1
									if ok {
										k = indexOf(params, id.Name)
									}
									if k < 0 {
										row.Ok = false
									}
									row.Order = append(row.Order, k+1)
								}
							}
						}
					}
				}
			}
		}
		rows = append(rows, row)
	}
	return rows
}

func emitPipe(repo, out string) {
	rows := pipeRows(repo)
	var sb strings.Builder
	sb.WriteString("-- GENERATED by go/extract (pipe.go) from the repository under check. Do not edit.\nimport RoModel.DelegationFacts\nnamespace RoGen.Pipe\nopen Ro.Facts\n\n")
	sb.WriteString("def table : List PipeRow := [\n")
	for i, r := range rows {
		parts := make([]string, len(r.Order))
		for j, k := range r.Order {
			parts[j] = strconv.Itoa(k)
		}
		sb.WriteString(fmt.Sprintf("  { name := %s, n := %d, via := %s, order := [%s], ok := %s }", leanStr(r.Name), r.N, leanStr(r.Via), strings.Join(parts, ", "), leanBool(r.Ok)))
		if i+1 < len(rows) {
			sb.WriteString(",\n")
		} else {
			sb.WriteString("\n")
		}
	}
	sb.WriteString("]\n\nend RoGen.Pipe\n")
	writeIfChanged(filepath.Join(out, "Pipe.lean"), sb.String())
}

package main

// emitlock.go — the `EmitLocks` fact table (properties C03 / C06 / C07 / C14: a downstream that
// closes the subscription from INSIDE the delivery of a notification runs the operator's teardown —
// and the finalizers it registered — synchronously, on the goroutine that is emitting; an operator
// that emits while holding one of its own (non-reentrant) locks and whose teardown takes the same lock
// therefore never returns from that delivery).
//
// Built on the lexical lock-region / emission-context analysis of locksets.go. For every top-level
// function of operator_*.go (helpers that receive `&mu`, `destination` or a closure are followed with
// their parameters bound, as in locksets.go):
//
//   emits      one row per call of a method named Next / Error / Complete [WithContext] (on the
//              destination, on a window / group subject, on a captured observer …) and per context the
//              call runs in, with the operator-local locks held at that point (lexically, plus the locks
//              held at every call site of the enclosing local closure / helper);
//   teardown   per operator, the locks acquired (`L.Lock()`, `L.TryLock()`) in a context of kind
//              `teardown` (the literal the subscribe function returns) or `finalizer` (a literal given to
//              Subscription.Add / returned by an inner function).
//
// Lean: RoGen.EmitLocks.{emits, teardown}; the predicate `Ro.EmitLockFacts.emitOk` (no emission under a
// lock the teardown takes) is decided by the kernel in RoProps/C03lock.lean.

import (
	"fmt"
	"go/ast"
	"path/filepath"
	"sort"
	"strings"
)

type ELRow struct {
	Op, File string
	Line     int
	Kind     string // next | error | complete
	Ctx      string
	Held     []int
	HeldName []string
}

type ELTd struct {
	Op    string
	Locks []int
	Names []string
}

type ELTable struct {
	Emits    []ELRow
	Teardown []ELTd
}

func elEmitKind(name string) string {
	switch name {
	case "Next", "NextWithContext":
		return "next"
	case "Error", "ErrorWithContext":
		return "error"
	case "Complete", "CompleteWithContext":
		return "complete"
	}
	return ""
}

// the function literal(s) of fd that declare a parameter named `destination`: the subscribe functions
func elSubscribeFuncs(fd *ast.FuncDecl) []ast.Node {
	var out []ast.Node
	ast.Inspect(fd, func(n ast.Node) bool {
		if fl, ok := n.(*ast.FuncLit); ok {
			for _, f := range fl.Type.Params.List {
				for _, nm := range f.Names {
					if nm.Name == "destination" {
						out = append(out, fl)
					}
				}
			}
		}
		return true
	})
	return out
}

func (a *lsAn) emitLocks(fd *ast.FuncDecl, rel string, tbl *ELTable) {
	subs := elSubscribeFuncs(fd)
	if len(subs) == 0 {
		return
	}
	fr := a.newFrame(fd, rel, nil, nil)
	a.top = fr
	a.frames = map[*ast.CallExpr]*lsFrame{}
	tdLocks := map[string]bool{}
	seenRow := map[string]bool{}
	lockIDs := func(ls lockState) ([]int, []string) {
		var names []string
		for k := range ls {
			names = append(names, k)
		}
		sort.Strings(names)
		var ids []int
		for _, k := range names {
			ids = append(ids, a.pkg.lockID(fd.Name.Name+"."+k))
		}
		return ids, names
	}
	var walk func(frame *lsFrame, D ast.Node, depth int)
	visited := map[*lsFrame]bool{}
	walk = func(frame *lsFrame, D ast.Node, depth int) {
		if depth > 4 || visited[frame] {
			return
		}
		visited[frame] = true
		root := ast.Node(frame.fd)
		ast.Inspect(root, func(n ast.Node) bool {
			c, ok := n.(*ast.CallExpr)
			if !ok {
				return true
			}
			// only code of this subscribe function (top frame) / the whole helper body (helper frames)
			if frame == fr && !lsWithin(c, D) {
				return true
			}
			if se, ok := c.Fun.(*ast.SelectorExpr); ok {
				// emissions
				if k := elEmitKind(se.Sel.Name); k != "" {
					for _, r := range a.contexts(c, frame, D, 0) {
						ids, names := lockIDs(r.locks)
						row := ELRow{Op: fd.Name.Name, File: frame.rel, Line: line(c.Pos()), Kind: k, Ctx: r.ctx.kind, Held: ids, HeldName: names}
						key := fmt.Sprintf("%s|%d|%s|%s|%v", row.File, row.Line, row.Kind, row.Ctx, row.Held)
						if !seenRow[key] {
							seenRow[key] = true
							tbl.Emits = append(tbl.Emits, row)
						}
					}
				}
				// lock acquisitions
				if se.Sel.Name == "Lock" || se.Sel.Name == "TryLock" {
					if key := a.lockKeyOf(se.X, frame); key != "" {
						for _, r := range a.contexts(c, frame, D, 0) {
							if r.ctx.kind == "teardown" || r.ctx.kind == "finalizer" {
								tdLocks[key] = true
							}
						}
					}
				}
			}
			// helpers
			if id, ok := c.Fun.(*ast.Ident); ok {
				if callee, ok := a.pkg.helpers[id.Name]; ok {
					walk(a.helperFrame(c, callee, frame), D, depth+1)
				} else if id.Obj == nil || id.Obj.Kind == ast.Fun {
					// a package-level function that is not followed and receives an observer named `destination`
					// (processNotificationWithObserverAndContext …): it emits on the caller's goroutine
					for _, arg := range c.Args {
						if ai, ok := arg.(*ast.Ident); ok && ai.Name == "destination" && !strings.HasPrefix(id.Name, "New") {
							for _, r := range a.contexts(c, frame, D, 0) {
								ids, names := lockIDs(r.locks)
								row := ELRow{Op: fd.Name.Name, File: frame.rel, Line: line(c.Pos()), Kind: "via " + id.Name, Ctx: r.ctx.kind, Held: ids, HeldName: names}
								key := fmt.Sprintf("%s|%d|%s|%s|%v", row.File, row.Line, row.Kind, row.Ctx, row.Held)
								if !seenRow[key] {
									seenRow[key] = true
									tbl.Emits = append(tbl.Emits, row)
								}
							}
						}
					}
				}
			}
			return true
		})
	}
	for _, D := range subs {
		visited = map[*lsFrame]bool{}
		walk(fr, D, 0)
	}
	ids, names := lockIDs(lockState(tdLocks))
	tbl.Teardown = append(tbl.Teardown, ELTd{Op: fd.Name.Name, Locks: ids, Names: names})
}

func elLean(tbl *ELTable, lockNames map[string]int) string {
	var sb strings.Builder
	sb.WriteString("-- GENERATED by go/extract (emitlock.go) from the repository under check. Do not edit.\nimport RoModel.EmitLockFacts\nnamespace RoGen.EmitLocks\nopen Ro.EmitLockFacts\n\n")
	nat := func(l []int) string {
		s := make([]string, len(l))
		for i, x := range l {
			s[i] = fmt.Sprint(x)
		}
		return "[" + strings.Join(s, ", ") + "]"
	}
	sort.SliceStable(tbl.Emits, func(i, j int) bool {
		x, y := tbl.Emits[i], tbl.Emits[j]
		if x.File != y.File {
			return x.File < y.File
		}
		if x.Op != y.Op {
			return x.Op < y.Op
		}
		if x.Line != y.Line {
			return x.Line < y.Line
		}
		return x.Ctx < y.Ctx
	})
	// rows that hold no lock are only counted: the predicate is about the others
	free := 0
	var held []ELRow
	for _, r := range tbl.Emits {
		if len(r.Held) == 0 {
			free++
		} else {
			held = append(held, r)
		}
	}
	sb.WriteString(fmt.Sprintf("/-- emission sites (per context) that hold no operator-local lock -/\ndef emitsWithoutLock : Nat := %d\n\n", free))
	sb.WriteString("/-- emission sites that run while an operator-local lock is held -/\ndef emits : List EmitRow := [\n")
	for i, r := range held {
		sep := ","
		if i+1 == len(held) {
			sep = ""
		}
		sb.WriteString(fmt.Sprintf("  { op := %s, file := %s, line := %d, kind := %s, ctx := %s, held := %s }%s  -- %s\n",
			leanStr(r.Op), leanStr(r.File), r.Line, leanStr(r.Kind), leanStr(r.Ctx), nat(r.Held), sep, strings.Join(r.HeldName, " ")))
	}
	sb.WriteString("]\n\n/-- per operator: the locks its teardown / finalizers acquire -/\ndef teardown : List TdRow := [\n")
	var tds []ELTd
	for _, t := range tbl.Teardown {
		if len(t.Locks) > 0 {
			tds = append(tds, t)
		}
	}
	for i, t := range tds {
		sep := ","
		if i+1 == len(tds) {
			sep = ""
		}
		sb.WriteString(fmt.Sprintf("  { op := %s, locks := %s }%s  -- %s\n", leanStr(t.Op), nat(t.Locks), sep, strings.Join(t.Names, " ")))
	}
	sb.WriteString("]\n\nend RoGen.EmitLocks\n")
	return sb.String()
}

func writeEmitLocks(out string, tbl *ELTable, lockNames map[string]int) {
	txt := elLean(tbl, lockNames)
	if out != "" {
		writeIfChanged(filepath.Join(out, "EmitLocks.lean"), txt)
	} else {
		fmt.Print(txt)
	}
}

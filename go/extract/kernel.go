package main

// kernel.go: translates the methods of subscriberImpl / subscriptionImpl / observerImpl into the
// statement language of lean/RoModel/Kernel/Prog.lean and writes <out>/Kernel.lean
// (RoGen.Kernel.table, modes, mutexes, subscribeWrapper). The translation is syntax-directed:
// one Go statement -> zero, one or two `Stmt`s, branch bodies recursively, and EVERY statement
// whose shape is not listed below becomes `unknown <line>` (never dropped), so that the
// comparison with Ro.Kernel.Expected.table fails. Control structure (blocks, if/else, `||`, `!`)
// is read off the AST; leaf shapes are compared on `ksrc(node)`: the gofmt-printed text of the AST
// node, without comments, whitespace collapsed (equal text = equal token sequence = equal AST).
// R = receiver name of the method, k/a/b = decimal literals.
//
//   R.mu.Lock() / R.mu.Unlock() / defer R.mu.Unlock()   lock L / unlock L / deferUnlock L
//                                                       (L = .mu in subscriberImpl, .subMu in subscriptionImpl)
//   if C {A} else {B}  (no init; `else if` nests)       <head C> [A] [B]; `!C` or `!=` swaps the branches
//     R.mu.TryLock()                                    tryLock L
//     R.backpressure == <Backpressure const>            ifFld .backpressure <iota value>
//     atomic.LoadInt32(&R.status) == k                  ifLoadEq F k   (F = .status | .obsStatus)
//     atomic.CompareAndSwapInt32(&R.status, a, b)       ifCas F a b
//     X == nil, X in R.destination | teardown (Add) | R.onNext/onError/onComplete      ifNil .x
//     R.done                                            ifFld .done 1
//     len(R.finalizers) == k                            ifFld .finalizers k
//   if X || Y {A}  (no else)                            translation of `if X {A}` then of `if Y {A}`
//   R.destination.<K>WithContext(..)                    callDest .k
//   OnDroppedNotification(_, NewNotification<K>[..](..)) drop .k
//   R.try<K>(..)  (observerImpl)                        userCb .k
//   R.unsubscribe() / R.Subscription.Unsubscribe()      callSelf .subUnsubInner / .snUnsubscribe
//   return / return atomic.LoadInt32(&R.status) ==|!= k / return R.done     ret / retLoad F .eq|.ne k / retFld .done
//   R.done = true / teardown() / R.finalizers = append(R.finalizers, teardown)   setDone / runNow / appendFinalizer
//   finalizers := R.finalizers ; R.finalizers = make([]func(), 0)   (adjacent)   swapFinalizers
//   var errs []error                                    skipped
//   for i := range finalizers { err := execFinalizer(finalizers[i]); if err != nil { errs = append(errs, err) } }   runTaken
//   if len(errs) > 0 { panic(xerrors.Join(errs...)) }   raiseJoined
//   Wait: ch := make(chan struct{}, 1) / close(ch)      skipped;  <-ch  recv;
//         R.Add(func() { ch <- struct{}{} })            callSelf .snAdd
//   verifXxx(..) hook calls and comments                erased (before everything else)

import (
	"bytes"
	"fmt"
	"go/ast"
	"go/parser"
	"go/printer"
	"go/token"
	"os"
	"path/filepath"
	"regexp"
	"sort"
	"strings"
)

var kernelRows = []struct{ typ, meth, lean string }{
	{"subscriberImpl", "NextWithContext", "subNext"}, {"subscriberImpl", "ErrorWithContext", "subError"},
	{"subscriberImpl", "CompleteWithContext", "subComplete"}, {"subscriberImpl", "Unsubscribe", "subUnsubscribe"},
	{"subscriberImpl", "unsubscribe", "subUnsubInner"}, {"subscriberImpl", "IsClosed", "subIsClosed"},
	{"subscriberImpl", "HasThrown", "subHasThrown"}, {"subscriberImpl", "IsCompleted", "subIsCompleted"},
	{"subscriptionImpl", "Add", "snAdd"}, {"subscriptionImpl", "Unsubscribe", "snUnsubscribe"},
	{"subscriptionImpl", "IsClosed", "snIsClosed"}, {"subscriptionImpl", "Wait", "snWait"},
	{"observerImpl", "NextWithContext", "obNext"}, {"observerImpl", "ErrorWithContext", "obError"},
	{"observerImpl", "CompleteWithContext", "obComplete"},
}

var kinds = [][2]string{{"Next", ".next"}, {"Error", ".error"}, {"Complete", ".complete"}}

// src: canonical one-line text of an AST node (gofmt printing, no comments, whitespace collapsed)
func ksrc(n ast.Node) string {
	if n == nil {
		return ""
	}
	var b bytes.Buffer
	printer.Fprint(&b, fset, n)
	return strings.Join(strings.Fields(b.String()), " ")
}

// match: the whole text against a literal pattern in which # stands for a decimal literal and @ for
// an identifier; returns the captured parts (nil = no match)
func match(pat, text string) []string {
	p := strings.NewReplacer("#", `(0|[1-9][0-9]*)`, "@", `([A-Za-z_]\w*)`).Replace(regexp.QuoteMeta(pat))
	if m := regexp.MustCompile("^" + p + "$").FindStringSubmatch(text); m != nil {
		return m[1:]
	}
	return nil
}

// strip erases the verification hook calls verifXxx(...)
func strip(in []ast.Stmt) (out []ast.Stmt) {
	for _, s := range in {
		if e, ok := s.(*ast.ExprStmt); ok {
			if c, ok := e.X.(*ast.CallExpr); ok && match("@", ksrc(c.Fun)) != nil && strings.HasPrefix(ksrc(c.Fun), "verif") {
				continue
			}
		}
		out = append(out, s)
	}
	return out
}

// sole: text of the only statement of a block ("" if there is not exactly one)
func sole(b *ast.BlockStmt) string {
	if ss := strip(b.List); len(ss) == 1 {
		return ksrc(ss[0])
	}
	return ""
}

// recvOf: receiver name and base type name (pointer and type arguments removed) of a method
func recvOf(fd *ast.FuncDecl) (name, typ string) {
	if fd.Recv == nil || len(fd.Recv.List) != 1 {
		return
	}
	if f := fd.Recv.List[0]; len(f.Names) == 1 {
		name = f.Names[0].Name
	}
	typ, _, _ = strings.Cut(strings.TrimPrefix(ksrc(fd.Recv.List[0].Type), "*"), "[")
	return
}

func kParamNames(ft *ast.FuncType) (out []string) {
	for _, f := range ft.Params.List {
		for _, n := range f.Names {
			out = append(out, n.Name)
		}
	}
	return
}

// kernelSrc: declarations of the parsed files: methods ("Type.Name") and functions, structs, Backpressure constants
type kernelSrc struct {
	funcs   map[string]*ast.FuncDecl
	structs map[string]*ast.StructType
	consts  map[string]int
}

func (k *kernelSrc) parse(path string) {
	file, err := parser.ParseFile(fset, path, nil, 0)
	if err != nil {
		fmt.Fprintln(os.Stderr, "kernel: parse error:", err)
		return
	}
	for _, d := range file.Decls {
		switch x := d.(type) {
		case *ast.FuncDecl:
			if _, typ := recvOf(x); typ != "" {
				k.funcs[typ+"."+x.Name.Name] = x
			} else if x.Recv == nil {
				k.funcs[x.Name.Name] = x
			}
		case *ast.GenDecl:
			typ, isIota := "", false
			for i, sp := range x.Specs { // in a const block, i is the value of iota
				if s, ok := sp.(*ast.TypeSpec); ok {
					if st, ok := s.Type.(*ast.StructType); ok {
						k.structs[s.Name.Name] = st
					}
				}
				if s, ok := sp.(*ast.ValueSpec); ok && x.Tok == token.CONST {
					if len(s.Values) > 0 { // (an implicit repetition keeps the previous type and expression)
						typ, isIota = ksrc(s.Type), len(s.Values) == 1 && ksrc(s.Values[0]) == "iota"
					}
					if isIota && typ == "Backpressure" && len(s.Names) == 1 {
						k.consts[s.Names[0].Name] = i
					}
				}
			}
		}
	}
}

// tr: the translator of one method
type tr struct {
	R, typ      string
	lck, status string            // Lean names of R.mu and R.status for this receiver type ("" = none)
	nilable     map[string]string // expression text -> Fld, for `== nil` tests
	exact       map[string]string // statement text -> Lean statement ("" = skipped)
	consts      map[string]int
}

func newTr(fd *ast.FuncDecl, typ string, consts map[string]int) *tr {
	R, _ := recvOf(fd)
	t := &tr{R: R, typ: typ, nilable: map[string]string{}, exact: map[string]string{"return": "ret"}, consts: consts}
	switch typ {
	case "subscriberImpl":
		t.lck, t.status = ".mu", ".status"
		t.nilable[R+".destination"] = ".destination"
		t.exact[R+".unsubscribe()"] = "callSelf .subUnsubInner"
		t.exact[R+".Subscription.Unsubscribe()"] = "callSelf .snUnsubscribe"
	case "subscriptionImpl":
		t.lck = ".subMu"
		t.exact[R+".done = true"] = "setDone"
		t.exact["return "+R+".done"] = "retFld .done"
		t.exact["var errs []error"] = ""
		if ps := kParamNames(fd.Type); fd.Name.Name == "Add" && len(ps) == 1 && ps[0] == "teardown" {
			t.nilable["teardown"] = ".teardown"
			t.exact["teardown()"] = "runNow"
			t.exact[R+".finalizers = append("+R+".finalizers, teardown)"] = "appendFinalizer"
		}
		if fd.Name.Name == "Wait" {
			t.exact["ch := make(chan struct{}, 1)"], t.exact["close(ch)"] = "", ""
			t.exact["<-ch"] = "recv"
			t.exact[R+".Add(func() { ch <- struct{}{} })"] = "callSelf .snAdd"
		}
	case "observerImpl":
		t.status = ".obsStatus"
		for _, k := range kinds {
			t.nilable[R+".on"+k[0]] = ".on" + k[0]
		}
	}
	if t.lck != "" {
		t.exact[R+".mu.Lock()"] = "lock " + t.lck
		t.exact[R+".mu.Unlock()"] = "unlock " + t.lck
		t.exact["defer "+R+".mu.Unlock()"] = "deferUnlock " + t.lck
	}
	return t
}

func unknown(n ast.Node) []string { return []string{fmt.Sprintf("unknown %d", line(n.Pos()))} }

func (t *tr) block(in []ast.Stmt) []string {
	ss, out := strip(in), []string{}
	for i := 0; i < len(ss); i++ {
		if t.typ == "subscriptionImpl" && i+1 < len(ss) && ksrc(ss[i]) == "finalizers := "+t.R+".finalizers" &&
			ksrc(ss[i+1]) == t.R+".finalizers = make([]func(), 0)" {
			out = append(out, "swapFinalizers")
			i++
			continue
		}
		out = append(out, t.stmt(ss[i])...)
	}
	return out
}

func (t *tr) stmt(s ast.Stmt) []string {
	txt := ksrc(s)
	if l, ok := t.exact[txt]; ok {
		if l == "" {
			return nil
		}
		return []string{l}
	}
	switch x := s.(type) {
	case *ast.ExprStmt:
		if c, ok := x.X.(*ast.CallExpr); ok {
			return t.call(c)
		}
	case *ast.ReturnStmt:
		for _, op := range [][2]string{{"==", ".eq"}, {"!=", ".ne"}} {
			if m := match("return atomic.LoadInt32(&"+t.R+".status) "+op[0]+" #", txt); m != nil && t.status != "" {
				return []string{fmt.Sprintf("retLoad %s %s %s", t.status, op[1], m[0])}
			}
		}
	case *ast.RangeStmt:
		if t.typ == "subscriptionImpl" && runTaken(x) {
			return []string{"runTaken"}
		}
	case *ast.IfStmt:
		return t.ifStmt(x)
	}
	return unknown(s)
}

func (t *tr) call(c *ast.CallExpr) []string {
	fun := ksrc(c.Fun)
	for _, k := range kinds {
		switch {
		case t.typ == "subscriberImpl" && fun == t.R+".destination."+k[0]+"WithContext":
			return []string{"callDest " + k[1]}
		case t.typ == "observerImpl" && fun == t.R+".try"+k[0]:
			return []string{"userCb " + k[1]}
		case fun == "OnDroppedNotification" && len(c.Args) == 2:
			if a, ok := c.Args[1].(*ast.CallExpr); ok && calleeName(a) == "NewNotification"+k[0] {
				return []string{"drop " + k[1]}
			}
		}
	}
	return unknown(c)
}

func runTaken(r *ast.RangeStmt) bool {
	b := strip(r.Body.List)
	if ksrc(r.Key) != "i" || r.Value != nil || r.Tok != token.DEFINE || ksrc(r.X) != "finalizers" || len(b) != 2 ||
		ksrc(b[0]) != "err := execFinalizer(finalizers[i])" {
		return false
	}
	f, ok := b[1].(*ast.IfStmt)
	return ok && f.Init == nil && f.Else == nil && ksrc(f.Cond) == "err != nil" && sole(f.Body) == "errs = append(errs, err)"
}

func (t *tr) ifStmt(s *ast.IfStmt) []string {
	if s.Init != nil {
		return unknown(s)
	}
	if t.typ == "subscriptionImpl" && s.Else == nil && ksrc(s.Cond) == "len(errs) > 0" && sole(s.Body) == "panic(xerrors.Join(errs...))" {
		return []string{"raiseJoined"}
	}
	var els []string
	switch e := s.Else.(type) {
	case *ast.BlockStmt:
		els = t.block(e.List)
	case *ast.IfStmt:
		els = t.ifStmt(e)
	}
	return t.branch(s, s.Cond, els)
}

// branch: `if c {s.Body} else {els}`; a disjunction without else is split into consecutive ifs
func (t *tr) branch(s *ast.IfStmt, c ast.Expr, els []string) []string {
	if b, ok := c.(*ast.BinaryExpr); ok && b.Op == token.LOR && s.Else == nil {
		return append(t.branch(s, b.X, nil), t.branch(s, b.Y, nil)...)
	}
	head, swap := t.cond(c)
	if head == "" {
		return unknown(s)
	}
	a, b := strings.Join(t.block(s.Body.List), ", "), strings.Join(els, ", ")
	if swap {
		a, b = b, a
	}
	return []string{fmt.Sprintf("%s [%s] [%s]", head, a, b)}
}

// cond: head of the if-like statement of a recognised condition ("" = not recognised); swap = the
// branches are exchanged
func (t *tr) cond(e ast.Expr) (head string, swap bool) {
	R, txt := t.R, ksrc(e)
	if u, ok := e.(*ast.UnaryExpr); ok && u.Op == token.NOT {
		head, swap = t.cond(u.X)
		return head, !swap
	}
	if b, ok := e.(*ast.BinaryExpr); ok && b.Op == token.NEQ { // X != Y is X == Y with the branches exchanged
		swap, txt = true, ksrc(b.X)+" == "+ksrc(b.Y)
	}
	if l, ok := strings.CutSuffix(txt, " == nil"); ok && t.nilable[l] != "" {
		return "ifNil " + t.nilable[l], swap
	}
	if m := match(R+".backpressure == @", txt); m != nil && t.typ == "subscriberImpl" {
		if v, ok := t.consts[m[0]]; ok {
			return fmt.Sprintf("ifFld .backpressure %d", v), swap
		}
	}
	if m := match("atomic.LoadInt32(&"+R+".status) == #", txt); m != nil && t.status != "" {
		return fmt.Sprintf("ifLoadEq %s %s", t.status, m[0]), swap
	}
	if m := match("len("+R+".finalizers) == #", txt); m != nil && t.typ == "subscriptionImpl" {
		return "ifFld .finalizers " + m[0], swap
	}
	if m := match("atomic.CompareAndSwapInt32(&"+R+".status, #, #)", txt); m != nil && t.status != "" {
		return fmt.Sprintf("ifCas %s %s %s", t.status, m[0], m[1]), false
	}
	if txt == R+".mu.TryLock()" && t.lck != "" {
		return "tryLock " + t.lck, false
	}
	if txt == R+".done" && t.typ == "subscriptionImpl" {
		return "ifFld .done 1", false
	}
	return "", false
}

// ---------------------------------------------------------------- modes, mutexes, Subscribe wrapper

func modeRows(fd *ast.FuncDecl, consts map[string]int) (out []string) {
	row := func(m, ctor string, bp int) {
		out = append(out, fmt.Sprintf("(%s, %s, %d)", leanStr(m), leanStr(ctor), bp))
	}
	if fd == nil || fd.Body == nil || len(kParamNames(fd.Type)) != 2 {
		row("unknown:0", "unknown", 99)
		return
	}
	ps := kParamNames(fd.Type) // destination, mode
	for _, s := range strip(fd.Body.List) {
		sw, ok := s.(*ast.SwitchStmt)
		if !ok || sw.Init != nil || ksrc(sw.Tag) != ps[1] {
			row(fmt.Sprintf("unknown:%d", line(s.Pos())), "unknown", 99)
			continue
		}
		for _, cs := range sw.Body.List {
			cc := cs.(*ast.CaseClause)
			for _, mode := range cc.List { // `default:` has no list
				body := sole(&ast.BlockStmt{List: cc.Body})
				m := match(fmt.Sprintf("return newSubscriberImpl(%s, xsync.@(), @, %s)", ps[1], ps[0]), body)
				ctor, bp := "unknown", 99
				if m != nil && len(cc.List) == 1 {
					if v, ok := consts[m[1]]; ok {
						ctor, bp = m[0], v
					}
				}
				row(ksrc(mode), ctor, bp)
			}
		}
	}
	return
}

func (k *kernelSrc) mutexKind(typ string) string {
	body := func(meth, want string) bool { // is the method's body exactly `want` (with $ = its receiver)?
		fd := k.funcs[typ+"."+meth]
		if fd == nil || fd.Body == nil {
			return false
		}
		R, _ := recvOf(fd)
		var ss []string
		for _, s := range strip(fd.Body.List) {
			ss = append(ss, ksrc(s))
		}
		return strings.Join(ss, "; ") == strings.ReplaceAll(want, "$", R)
	}
	muSync := false
	if st := k.structs[typ]; st != nil {
		for _, f := range st.Fields.List {
			muSync = muSync || (len(f.Names) == 1 && f.Names[0].Name == "mu" && ksrc(f.Type) == "sync.Mutex")
		}
	}
	switch {
	case muSync && body("Lock", "$.mu.Lock()") && body("Unlock", "$.mu.Unlock()") && body("TryLock", "return $.mu.TryLock()"):
		return "sync"
	case body("Lock", "") && body("Unlock", "") && body("TryLock", "return true"):
		return "noop"
	}
	return "unknown"
}

func wrapperRows(fd *ast.FuncDecl) (out []string) {
	if fd == nil || fd.Body == nil || len(kParamNames(fd.Type)) != 2 {
		return []string{"unknown:0"}
	}
	R, _ := recvOf(fd)
	ps, sub := kParamNames(fd.Type), "" // ctx, destination; sub = the subscriber variable
	unk := func(s ast.Stmt) { out = append(out, fmt.Sprintf("unknown:%d", line(s.Pos()))) }
	// closure: the statements of a try/catch closure, by table; `last` is erased in last position only
	closure := func(b *ast.BlockStmt, table map[string]string, last string) {
		ss := strip(b.List)
		for i, s := range ss {
			if l, ok := table[ksrc(s)]; ok && l != "" {
				out = append(out, l)
			} else if !ok && !(ksrc(s) == last && i == len(ss)-1) {
				unk(s)
			}
		}
	}
	for _, s := range strip(fd.Body.List) {
		txt := ksrc(s)
		if m := match("@ := NewSubscriberWithConcurrencyMode("+ps[1]+", "+R+".mode)", txt); m != nil && sub == "" {
			sub = m[0]
			out = append(out, "newSubscriber(s.mode)")
			continue
		}
		if sub != "" && txt == "return "+sub {
			out = append(out, "return sub")
			continue
		}
		if x, ok := s.(*ast.ExprStmt); ok && sub != "" {
			if c, ok := x.X.(*ast.CallExpr); ok && ksrc(c.Fun) == "lo.TryCatchWithErrorValue" && len(c.Args) == 2 {
				f, ok1 := c.Args[0].(*ast.FuncLit)
				g, ok2 := c.Args[1].(*ast.FuncLit)
				if ok1 && ok2 && ksrc(f.Type) == "func() error" && match("func(@ any)", ksrc(g.Type)) != nil {
					e := match("func(@ any)", ksrc(g.Type))[0]
					out = append(out, "try")
					closure(f.Body, map[string]string{fmt.Sprintf("%s.Add(%s.subscribe(%s, %s))", sub, R, ps[0], sub): "add(subscribe(ctx,sub))"}, "return nil")
					out = append(out, "catch")
					closure(g.Body, map[string]string{"err := recoverValueToError(" + e + ")": "", sub + ".Unsubscribe()": "unsubscribe",
						fmt.Sprintf("%s.ErrorWithContext(%s, newObservableError(err))", sub, ps[0]): "error(observable)"}, "")
					continue
				}
			}
		}
		unk(s)
	}
	return
}

// collectRows: CollectWithContext (observable.go) as a sequence of recognised actions. The model of
// Collect (lean/RoModel/CutIn.lean `collect`) is "the values the observer gathered, the terminal's
// error and context, returned when Wait returns": that is what these rows say; anything else is unknown.
func collectRows(fd *ast.FuncDecl) (out []string) {
	if fd == nil || fd.Body == nil || len(kParamNames(fd.Type)) != 2 {
		return []string{"unknown:0"}
	}
	ps := kParamNames(fd.Type) // ctx, obs
	vals, lctx, errv, sub := "", "", "", ""
	unk := func(s ast.Stmt) { out = append(out, fmt.Sprintf("unknown:%d", line(s.Pos()))) }
	body := func(f ast.Expr) (params []string, stmts []string, ok bool) {
		fl, ok := f.(*ast.FuncLit)
		if !ok {
			return nil, nil, false
		}
		for _, s := range strip(fl.Body.List) {
			stmts = append(stmts, ksrc(s))
		}
		sort.Strings(stmts)
		return kParamNames(fl.Type), stmts, true
	}
	for _, s := range strip(fd.Body.List) {
		txt := ksrc(s)
		if m := match("@ := []T{}", txt); m != nil && vals == "" {
			vals = m[0]
			out = append(out, "values := empty")
			continue
		}
		if m := match("var @ context.Context", txt); m != nil && lctx == "" {
			lctx = m[0]
			out = append(out, "var lastCtx")
			continue
		}
		if m := match("var @ error", txt); m != nil && errv == "" {
			errv = m[0]
			out = append(out, "var err")
			continue
		}
		if a, ok := s.(*ast.AssignStmt); ok && a.Tok == token.DEFINE && len(a.Lhs) == 1 && len(a.Rhs) == 1 && sub == "" && vals != "" && lctx != "" && errv != "" {
			if c, ok := a.Rhs[0].(*ast.CallExpr); ok && ksrc(c.Fun) == ps[1]+".SubscribeWithContext" && len(c.Args) == 2 && ksrc(c.Args[0]) == ps[0] {
				if o, ok := c.Args[1].(*ast.CallExpr); ok && ksrc(o.Fun) == "NewObserverWithContext" && len(o.Args) == 3 {
					pn, sn, ok1 := body(o.Args[0])
					pe, se, ok2 := body(o.Args[1])
					pc, sc, ok3 := body(o.Args[2])
					if ok1 && ok2 && ok3 && len(pn) == 2 && len(pe) == 2 && len(pc) == 1 &&
						strings.Join(sn, ";") == fmt.Sprintf("%s = append(%s, %s)", vals, vals, pn[1]) &&
						strings.Join(se, ";") == strings.Join(sorted(fmt.Sprintf("%s = %s", errv, pe[1]), fmt.Sprintf("%s = %s", lctx, pe[0])), ";") &&
						strings.Join(sc, ";") == fmt.Sprintf("%s = %s", lctx, pc[0]) {
						sub = ksrc(a.Lhs[0])
						out = append(out, "sub := subscribe(ctx, observer(append value; store error and ctx; store ctx))")
						continue
					}
				}
			}
		}
		if sub != "" && txt == sub+".Wait()" {
			out = append(out, "wait")
			continue
		}
		if sub != "" && txt == fmt.Sprintf("return %s, %s, %s", vals, lctx, errv) {
			out = append(out, "return values, lastCtx, err")
			continue
		}
		unk(s)
	}
	return
}

func sorted(ss ...string) []string { sort.Strings(ss); return ss }

// subscriberCtorRows: newSubscriberImpl as a list of recognised actions
//
//	if subscriber, ok := destination.(Subscriber[T]); ok { return subscriber }     "reuse a destination that is a Subscriber"
//	subscriber := &subscriberImpl[T]{ … }                                          "alloc <sorted field names>"
//	if subscription, ok := destination.(Subscription); ok { subscription.Add(subscriber.Unsubscribe) }
//	                                                                               "link the destination's subscription"
//	return subscriber                                                              "return"
//
// anything else is printed as "unknown: …", which no expected list contains.
func subscriberCtorRows(fd *ast.FuncDecl) []string {
	if fd == nil || fd.Body == nil {
		return []string{"unknown: newSubscriberImpl not found"}
	}
	assertOf := func(st *ast.IfStmt) (string, string) { // (bound ident, asserted type name)
		as, ok := st.Init.(*ast.AssignStmt)
		if !ok || len(as.Lhs) != 2 || len(as.Rhs) != 1 {
			return "", ""
		}
		ta, ok := as.Rhs[0].(*ast.TypeAssertExpr)
		if !ok {
			return "", ""
		}
		if x, ok := ta.X.(*ast.Ident); !ok || x.Name != "destination" {
			return "", ""
		}
		name := ""
		switch t := ta.Type.(type) {
		case *ast.Ident:
			name = t.Name
		case *ast.IndexExpr:
			if id, ok := t.X.(*ast.Ident); ok {
				name = id.Name
			}
		}
		id, _ := as.Lhs[0].(*ast.Ident)
		if id == nil {
			return "", ""
		}
		return id.Name, name
	}
	var out []string
	for _, st := range fd.Body.List {
		switch v := st.(type) {
		case *ast.IfStmt:
			id, typ := assertOf(v)
			switch {
			case typ == "Subscriber" && v.Else == nil && len(v.Body.List) == 1:
				if r, ok := v.Body.List[0].(*ast.ReturnStmt); ok && len(r.Results) == 1 {
					if x, ok := r.Results[0].(*ast.Ident); ok && x.Name == id {
						out = append(out, "reuse a destination that is a Subscriber")
						continue
					}
				}
				out = append(out, "unknown: "+ksrcLine(st))
			case typ == "Subscription" && v.Else == nil && len(v.Body.List) == 1 && ksrcLine(v.Body.List[0]) == id+".Add(subscriber.Unsubscribe)":
				out = append(out, "link the destination's subscription")
			default:
				out = append(out, "unknown: "+ksrcLine(st))
			}
		case *ast.AssignStmt:
			ok := false
			if len(v.Lhs) == 1 && len(v.Rhs) == 1 {
				if u, isU := v.Rhs[0].(*ast.UnaryExpr); isU {
					if cl, isC := u.X.(*ast.CompositeLit); isC && strings.HasPrefix(ksrcLine(cl.Type), "subscriberImpl") {
						var names []string
						for _, e := range cl.Elts {
							if kv, isKV := e.(*ast.KeyValueExpr); isKV {
								names = append(names, ksrcLine(kv.Key))
							}
						}
						sort.Strings(names)
						out = append(out, "alloc "+strings.Join(names, " "))
						ok = true
					}
				}
			}
			if !ok {
				out = append(out, "unknown: "+ksrcLine(st))
			}
		case *ast.ReturnStmt:
			out = append(out, "return")
		default:
			out = append(out, "unknown: "+ksrcLine(st))
		}
	}
	return out
}

// ---------------------------------------------------------------- output

func emitKernel(repo, outDir string) {
	k := &kernelSrc{funcs: map[string]*ast.FuncDecl{}, structs: map[string]*ast.StructType{}, consts: map[string]int{}}
	for _, f := range []string{"observable.go", "subscriber.go", "subscription.go", "observer.go", "internal/xsync/mutex.go"} {
		k.parse(filepath.Join(repo, filepath.FromSlash(f)))
	}
	var sb strings.Builder
	sb.WriteString("-- GENERATED by go/extract from the repository under check. Do not edit.\nimport RoModel.Kernel.Prog\nnamespace RoGen.Kernel\nopen Ro.Kernel Ro.Kernel.Stmt\n\n")
	sb.WriteString("def table : List (Meth × Prog) := [\n")
	for i, r := range kernelRows {
		prog := []string{"unknown 0"}
		if fd := k.funcs[r.typ+"."+r.meth]; fd != nil && fd.Body != nil {
			prog = newTr(fd, r.typ, k.consts).block(fd.Body.List)
		}
		sep := ","
		if i+1 == len(kernelRows) {
			sep = ""
		}
		fmt.Fprintf(&sb, "  (.%s, [%s])%s\n", r.lean, strings.Join(prog, ", "), sep)
	}
	sb.WriteString("]\n\n/-- NewSubscriberWithConcurrencyMode (subscriber.go): mode ↦ (mutex constructor, backpressure constant value) -/\n")
	fmt.Fprintf(&sb, "def modes : List (String × String × Nat) := [%s]\n\n", strings.Join(modeRows(k.funcs["NewSubscriberWithConcurrencyMode"], k.consts), ", "))
	sb.WriteString("/-- internal/xsync/mutex.go: what Lock/TryLock/Unlock of each mutex type do -/\n")
	fmt.Fprintf(&sb, "def mutexes : List (String × String) := [(\"MutexWithLock\", %s), (\"MutexWithoutLock\", %s)]\n\n",
		leanStr(k.mutexKind("MutexWithLock")), leanStr(k.mutexKind("MutexWithoutLock")))
	sb.WriteString("/-- observable.go observableImpl.SubscribeWithContext: the sequence of recognised actions -/\n")
	var ws []string
	for _, w := range wrapperRows(k.funcs["observableImpl.SubscribeWithContext"]) {
		ws = append(ws, leanStr(w))
	}
	fmt.Fprintf(&sb, "def subscribeWrapper : List String := [%s]\n\n", strings.Join(ws, ", "))
	sb.WriteString("/-- observable.go CollectWithContext: the sequence of recognised actions -/\n")
	var cs []string
	for _, w := range collectRows(k.funcs["CollectWithContext"]) {
		cs = append(cs, leanStr(w))
	}
	fmt.Fprintf(&sb, "def collectWrapper : List String := [%s]\n\n", strings.Join(cs, ", "))
	sb.WriteString("/-- subscriber.go newSubscriberImpl: the sequence of recognised actions (a destination that already is a Subscriber is returned as it is) -/\n")
	var ns []string
	for _, w := range subscriberCtorRows(k.funcs["newSubscriberImpl"]) {
		ns = append(ns, leanStr(w))
	}
	fmt.Fprintf(&sb, "def subscriberCtor : List String := [%s]\n\nend RoGen.Kernel\n", strings.Join(ns, ", "))
	writeIfChanged(filepath.Join(outDir, "Kernel.lean"), sb.String())
}

// ksrcLine: the source text of a node on one line, whitespace collapsed
func ksrcLine(n ast.Node) string { return strings.Join(strings.Fields(ksrc(n)), " ") }

package main

// symmetry.go — the `Symmetry` fact table (C05 / C04: the numbered arities of the multi-source operators —
// ZipWith1..5, CombineLatestWith1..4, MergeWith1..5 and their creation forms — are written out per source
// position; every position must be wired the same way).
//
// For every function of operator_*.go that uses a *position family* — identifiers that differ only in a final
// letter A..H (valueA / valueB / …, completedA / …, obsA / …, the tuple variables a, b, …, the type parameters
// A, B, …) — the body is cut into its maximal sub-trees (expressions or statements) that mention exactly ONE
// position; each such unit is printed with the position letter replaced by `#` (and a positional argument list
// `f(x, nil, &v, nil)` by `f(x, @self:&v)` when the non-nil slot is the unit's own position). One row per distinct
// normalised unit, with the positions it occurs for. In a function that treats its positions uniformly every unit
// occurs equally often for every position (or only for the first one: the piped source is a parameter of the
// returned function). A copy/paste slip in ONE position of ONE arity — a flag or queue of the neighbouring
// position, two statements swapped in one callback — makes a unit irregular.
//
// Lean: RoGen.Symmetry.rows, predicate Ro.SymFacts.rowOk decided in RoProps/C05sym.lean.

import (
	"bytes"
	"fmt"
	"go/ast"
	"go/parser"
	"go/printer"
	"path/filepath"
	"regexp"
	"sort"
	"strings"
)

type SymRow struct {
	Fn      string
	N       int
	Letters []int
	Unit    string
}

var famRe = regexp.MustCompile(`^([a-z][A-Za-z0-9]*?)([A-H])$`)

func symSplit(name string) (string, string, bool) {
	if m := famRe.FindStringSubmatch(name); m != nil {
		return m[1], m[2], true
	}
	if len(name) == 1 && name[0] >= 'a' && name[0] <= 'h' {
		return "·", strings.ToUpper(name), true
	}
	if len(name) == 1 && name[0] >= 'A' && name[0] <= 'H' {
		return "τ", name, true
	}
	return "", "", false
}

func init() { extraTables = append(extraTables, extractSymmetry) }

func symRows(repo string) []SymRow {
	var all []SymRow
	files, _ := filepath.Glob(filepath.Join(repo, "operator_*.go"))
	sort.Strings(files)
	for _, p := range files {
		if strings.HasSuffix(p, "_test.go") {
			continue
		}
		f, err := parser.ParseFile(fset, p, nil, 0)
		if err != nil {
			all = append(all, SymRow{Fn: filepath.Base(p), N: 1, Letters: []int{9}, Unit: "parse error"})
			continue
		}
		for _, d := range f.Decls {
			fd, ok := d.(*ast.FuncDecl)
			if !ok || fd.Body == nil {
				continue
			}
			// family stems
			stems := map[string]map[string]bool{}
			ast.Inspect(fd, func(n ast.Node) bool {
				if id, ok := n.(*ast.Ident); ok {
					if st, l, ok := symSplit(id.Name); ok {
						if stems[st] == nil {
							stems[st] = map[string]bool{}
						}
						stems[st][l] = true
					}
				}
				return true
			})
			fam := map[string]bool{}
			pos := map[string]bool{}
			for st, ls := range stems {
				if len(ls) >= 2 && st != "·" && st != "τ" {
					fam[st] = true
					for l := range ls {
						pos[l] = true
					}
				}
			}
			if len(fam) == 0 {
				continue
			}
			fam["τ"] = true
			if ls, ok := stems["·"]; ok {
				okAll := true
				for l := range ls {
					if !pos[l] {
						okAll = false
					}
				}
				if okAll && len(ls) >= 2 {
					fam["·"] = true
				}
			}
			isFam := func(id *ast.Ident) (string, bool) {
				st, l, ok := symSplit(id.Name)
				if ok && fam[st] && pos[l] {
					return l, true
				}
				return "", false
			}
			var letters func(n ast.Node) map[string]bool
			cache := map[ast.Node]map[string]bool{}
			letters = func(n ast.Node) map[string]bool {
				if c, ok := cache[n]; ok {
					return c
				}
				out := map[string]bool{}
				ast.Inspect(n, func(m ast.Node) bool {
					if id, ok := m.(*ast.Ident); ok {
						if l, ok := isFam(id); ok {
							out[l] = true
						}
					}
					return true
				})
				cache[n] = out
				return out
			}
			var plist []string
			for l := range pos {
				plist = append(plist, l)
			}
			sort.Strings(plist)
			want := strings.Join(plist, "")
			rows := map[string][]string{}
			var walk func(n ast.Node)
			walk = func(n ast.Node) {
				if n == nil {
					return
				}
				ls := letters(n)
				if len(ls) == 0 {
					return
				}
				_, isExpr := n.(ast.Expr)
				_, isStmt := n.(ast.Stmt)
				if len(ls) == 1 && (isExpr || isStmt) {
					if _, isId := n.(*ast.Ident); isId {
						return // bare identifiers are not units
					}
					var buf bytes.Buffer
					printer.Fprint(&buf, fset, n)
					txt := buf.String()
					var l string
					for k := range ls {
						l = k
					}
					// normalise family identifiers
					norm := regexp.MustCompile(`\b([a-z][A-Za-z0-9]*?)`+l+`\b`).ReplaceAllString(txt, "$1#")
					norm = regexp.MustCompile(`\b`+strings.ToLower(l)+`\b`).ReplaceAllString(norm, "#")
					norm = regexp.MustCompile(`\b`+l+`\b`).ReplaceAllString(norm, "#")
					// positional arguments: f(x, nil, &v, nil) -> f(x, @self) when the non-nil slot is this position's
					idx := int(l[0] - 'A')
					norm = regexp.MustCompile(`\(((?:[^(),]+, )*?)((?:nil, )*)(&?[a-z]\w*)((?:, nil)*)\)`).ReplaceAllStringFunc(norm, func(m string) string {
						sub := regexp.MustCompile(`\(((?:[^(),]+, )*?)((?:nil, )*)(&?[a-z]\w*)((?:, nil)*)\)`).FindStringSubmatch(m)
						before := strings.Count(sub[2], "nil")
						after := strings.Count(sub[4], "nil")
						if before+after+1 != len(want) || before+after == 0 {
							return m
						}
						if before == idx {
							return "(" + sub[1] + "@self:" + sub[3] + ")"
						}
						return fmt.Sprintf("(%s@%d:%s)", sub[1], before, sub[3])
					})
					norm = strings.Join(strings.Fields(norm), " ")
					rows[norm] = append(rows[norm], l)
					return
				}
				// descend
				var kids []ast.Node
				ast.Inspect(n, func(m ast.Node) bool {
					if m == nil || m == n {
						return m == n
					}
					kids = append(kids, m)
					return false
				})
				for _, k := range kids {
					walk(k)
				}
			}
			walk(fd.Body)

			var keys []string
			for k := range rows {
				keys = append(keys, k)
			}
			sort.Strings(keys)
			for _, k := range keys {
				var ls []int
				for _, l := range rows[k] {
					ls = append(ls, int(l[0]-'A'))
				}
				sort.Ints(ls)
				// positions are numbered by their rank among the letters the function uses
				rank := map[int]int{}
				for i, l := range plist {
					rank[int(l[0]-'A')] = i
				}
				for i := range ls {
					ls[i] = rank[ls[i]]
				}
				all = append(all, SymRow{Fn: fd.Name.Name, N: len(plist), Letters: ls, Unit: k})
			}
		}
	}
	return all
}

func extractSymmetry(repo, out string) {
	rows := symRows(repo)
	var sb strings.Builder
	sb.WriteString("-- GENERATED by go/extract (symmetry.go) from the repository under check. Do not edit.\nimport RoModel.SymFacts\nnamespace RoGen.Symmetry\nopen Ro.SymFacts\n\ndef rows : List SymRow := [\n")
	for i, r := range rows {
		ls := make([]string, len(r.Letters))
		for j, l := range r.Letters {
			ls[j] = fmt.Sprint(l)
		}
		u := r.Unit
		if len(u) > 160 {
			u = u[:160] + "…"
		}
		u = strings.ReplaceAll(strings.ReplaceAll(u, "\\", "\\\\"), "\"", "\\\"")
		sep := ","
		if i+1 == len(rows) {
			sep = ""
		}
		sb.WriteString(fmt.Sprintf("  { fn := %s, n := %d, letters := [%s], unit := \"%s\" }%s\n", leanStr(r.Fn), r.N, strings.Join(ls, ", "), u, sep))
	}
	sb.WriteString("]\n\nend RoGen.Symmetry\n")
	if out != "" {
		writeIfChanged(filepath.Join(out, "Symmetry.lean"), sb.String())
	} else {
		fmt.Print(sb.String())
	}
}

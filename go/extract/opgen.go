package main

// opgen.go — translator from the Go source of the single-source template operators to Lean
// `Machine` definitions (lean/RoGen/OpsGen.lean, namespace RoGen.Ops). The regenerated machines
// are proved EQUAL to the hand-written ones of lean/RoModel/Ops/*.lean in lean/RoProps/C04gen.lean,
// so a change to such an operator changes the generated text and breaks an equality at
// `lake build`, for all inputs. See docs/opgen.md for the grammar of the translated fragment and
// the encodings. The translator is strict: anything it does not recognise makes the whole
// operator fall out (`skipped`, with the reason); it never guesses.
//
// Template:
//   func Op[...](params) func(Observable[S]) Observable[D] {
//       { if <cond> { panic(...) } }                                   -- constructor guards
//       return func(source Observable[S]) Observable[D] {
//           { if <cond> { return Empty[D]() } }                        -- "never subscribes" guards
//           return NewUnsafeObservableWithContext(func(subscriberCtx context.Context, destination Observer[D]) Teardown {
//               { local declaration | subscribe-time statement }
//               sub := source.SubscribeWithContext(subscriberCtx, NewObserverWithContext(next, error, complete) | destination)
//               return sub.Unsubscribe | func() { sub.Unsubscribe(); { local = <empty> | userCallback() } }
//           })
//       }
//   }

import (
	"bytes"
	"fmt"
	"go/ast"
	"go/parser"
	"go/printer"
	"go/token"
	"path/filepath"
	"sort"
	"strings"
)

type skipErr struct{ reason string }

func skip(format string, a ...interface{}) { panic(skipErr{fmt.Sprintf(format, a...)}) }

func src(n ast.Node) string {
	var b bytes.Buffer
	printer.Fprint(&b, fset, n)
	s := strings.Join(strings.Fields(b.String()), " ")
	if len(s) > 70 {
		s = s[:67] + "..."
	}
	return s
}

var leanReserved = map[string]bool{"at": true, "from": true, "end": true, "fun": true, "open": true, "show": true, "have": true,
	"then": true, "else": true, "if": true, "match": true, "with": true, "do": true, "let": true, "in": true, "by": true,
	"where": true, "def": true, "theorem": true, "instance": true, "namespace": true, "section": true, "variable": true,
	"Type": true, "Prop": true, "Sort": true, "st": true, "init": true, "finally": true, "prefix": true, "infix": true,
	"private": true, "protected": true, "macro": true, "syntax": true, "export": true, "import": true, "structure": true, "class": true,
	"some": true, "none": true, "true": true, "false": true, "fwdE": true, "fwdC": true, "for": true, "try": true, "catch": true, "return": true, "mut": true, "unless": true}

func leanName(n string) string {
	if leanReserved[n] {
		return n + "_"
	}
	return n
}

// sentinel errors of /repo/errors.go as numbered by the harness (go/harness/core.go `sentinels`)
// and the hand-written machines
var sentinelNo = map[string]int{"ErrHeadEmpty": 1, "ErrTailEmpty": 2, "ErrFirstEmpty": 3, "ErrLastEmpty": 4, "ErrElementAtNotFound": 5}

// ---------------------------------------------------------------- operator description

type userFn struct {
	params  []*ltype
	results []*ltype // Go results, in order
}

type opParam struct {
	name string
	t    *ltype  // data parameter
	fn   *userFn // callback parameter
}

func (p *opParam) leanType() string {
	if p.fn == nil {
		return p.t.lean(false)
	}
	var parts []string
	for _, t := range p.fn.params {
		parts = append(parts, t.lean(true))
	}
	parts = append(parts, tProdN(p.fn.results).lean(false))
	return strings.Join(parts, " → ")
}

type guard struct{ kind, cond string } // kind: panic | empty

// one component of the state tuple
type comp struct {
	name string
	t    *ltype
	init expr
	// flag-guarded tuple (`var t lo.Tuple2[context.Context,T]` + a bool flag) encoded as Option
	opt      bool
	flagName string
	flagInit bool // value of the flag while the tuple is unset
}

type machine struct {
	goName, file string
	name         string
	params       []*opParam
	decEq        []string // type variables needing DecidableEq
	comps        []*comp
	sT, dT       *ltype // source / destination element types
	guards       []guard
	pre          []string // Lean text of each guard condition, "" if not expressible
	notes        []string
	externs      []*opParam      // uninterpreted library functions / constants used by the body, in order of first use
	inhabited    map[string]bool // type variables whose Go zero value is used (`default`)
	upCtx        string          // Lean text of the context handed upstream when it is not `subscriberCtx` itself
	stateName    string
	onSubscribe  string // "" = default
	onNext       string
	onError      string
	onComplete   string
}

type skipped struct{ name, reason string }

// ---------------------------------------------------------------- Go types → Lean types

type opCtx struct {
	fd         *ast.FuncDecl
	tparams    map[string]*ltype // Go type parameter → Lean type
	decEqOf    map[string]bool   // Lean type variables that are `comparable`
	natParam   map[string]bool   // integer parameters guarded against negative values
	ctxDefault map[string]bool   // context parameters replaced by context.Background() when nil
}

func typeName(e ast.Expr) string {
	switch x := e.(type) {
	case *ast.Ident:
		return x.Name
	case *ast.SelectorExpr:
		if id, ok := x.X.(*ast.Ident); ok {
			return id.Name + "." + x.Sel.Name
		}
	}
	return ""
}

// index expression `X[A, B]` → (name of X, args)
func indexed(e ast.Expr) (string, []ast.Expr) {
	switch x := e.(type) {
	case *ast.IndexExpr:
		return typeName(x.X), []ast.Expr{x.Index}
	case *ast.IndexListExpr:
		return typeName(x.X), x.Indices
	}
	return "", nil
}

// valueType: Go type of a *value* (element, callback argument/result, data parameter)
func (oc *opCtx) valueType(e ast.Expr) *ltype {
	switch typeName(e) {
	case "context.Context":
		return tCtx
	case "bool":
		return tBool
	case "error":
		return tErr
	case "int", "int64":
		return tInt
	case "float64":
		return tVar("φ") // floats are an uninterpreted type; their operations are uninterpreted functions
	case "time.Duration":
		return tVar("δ")
	case "time.Time":
		return tVar("τ")
	case "any":
		return tVar("ι")
	case "":
	default:
		if t, ok := oc.tparams[typeName(e)]; ok {
			return t
		}
		skip("type %s outside the fragment", src(e))
	}
	if a, ok := e.(*ast.ArrayType); ok && a.Len == nil {
		return tList(oc.valueType(a.Elt))
	}
	if el, ok := e.(*ast.Ellipsis); ok {
		return tList(oc.valueType(el.Elt))
	}
	if m, ok := e.(*ast.MapType); ok {
		if st, ok := m.Value.(*ast.StructType); ok && (st.Fields == nil || len(st.Fields.List) == 0) {
			return tSet(oc.valueType(m.Key))
		}
		// map with values: the model's association list (last write wins, `Ro.assocSet`)
		return tMap(oc.valueType(m.Key), oc.valueType(m.Value))
	}
	if n, args := indexed(e); n != "" {
		switch {
		case n == "lo.Tuple2" && len(args) == 2:
			return tProd(oc.valueType(args[0]), oc.valueType(args[1]))
		case n == "Notification" && len(args) == 1:
			return tNotif(oc.valueType(args[0]))
		}
	}
	skip("type %s outside the fragment", src(e))
	return nil
}

// callback signature: `int64`/`int` parameters are indices (Nat: only counters are passed),
// an `error` result is `Option Err`
func (oc *opCtx) fnType(ft *ast.FuncType) *userFn {
	u := &userFn{}
	if ft.Params != nil {
		for _, f := range ft.Params.List {
			n := len(f.Names)
			if n == 0 {
				n = 1
			}
			for i := 0; i < n; i++ {
				if tn := typeName(f.Type); tn == "int64" || tn == "int" {
					u.params = append(u.params, tNat)
				} else {
					u.params = append(u.params, oc.valueType(f.Type))
				}
			}
		}
	}
	if ft.Results != nil {
		for _, f := range ft.Results.List {
			n := len(f.Names)
			if n == 0 {
				n = 1
			}
			for i := 0; i < n; i++ {
				if typeName(f.Type) == "error" && ft.Results.NumFields() > 1 {
					// the `(value, err)` idiom: err may be nil
					u.results = append(u.results, tOption(tErr))
				} else {
					u.results = append(u.results, oc.valueType(f.Type))
				}
			}
		}
	}
	return u
}

// Observable[X] / Observer[X] → X
func obsElem(e ast.Expr, what string) ast.Expr {
	n, args := indexed(e)
	if n != what || len(args) != 1 {
		skip("expected %s[...], found %s", what, src(e))
	}
	return args[0]
}

// is this function a pipeable operator with its own constructor call?
func isOperatorBody(fd *ast.FuncDecl) bool {
	if fd.Recv != nil || fd.Body == nil || fd.Type.Results == nil || len(fd.Type.Results.List) != 1 {
		return false
	}
	ft, ok := fd.Type.Results.List[0].Type.(*ast.FuncType)
	if !ok || ft.Params == nil || len(ft.Params.List) != 1 {
		return false
	}
	if n, _ := indexed(ft.Params.List[0].Type); n != "Observable" {
		return false
	}
	has := false
	ast.Inspect(fd.Body, func(n ast.Node) bool {
		if c, ok := n.(*ast.CallExpr); ok {
			if _, ok := isCtorName(calleeName(c)); ok {
				has = true
			}
		}
		return !has
	})
	return has
}

func paramOf(m *machine, name string) *opParam {
	for _, p := range m.params {
		if p.name == name {
			return p
		}
	}
	return nil
}

func lowerFirst(s string) string { return strings.ToLower(s[:1]) + s[1:] }

// ---------------------------------------------------------------- template recognition

func translateOp(fd *ast.FuncDecl, file string) (m *machine, reason string) {
	defer func() {
		if r := recover(); r != nil {
			if se, ok := r.(skipErr); ok {
				m, reason = nil, se.reason
				return
			}
			panic(r)
		}
	}()
	oc := &opCtx{fd: fd, tparams: map[string]*ltype{}, decEqOf: map[string]bool{}, natParam: map[string]bool{}, ctxDefault: map[string]bool{}}
	m = &machine{goName: fd.Name.Name, file: file, name: lowerFirst(fd.Name.Name) + "M"}

	// result type: func(Observable[S]) Observable[D]
	rft := fd.Type.Results.List[0].Type.(*ast.FuncType)
	if rft.Results == nil || len(rft.Results.List) != 1 {
		skip("result is not func(Observable[S]) Observable[D]")
	}
	sElem := obsElem(rft.Params.List[0].Type, "Observable")
	dElem := obsElem(rft.Results.List[0].Type, "Observable")

	// type parameters: Numeric ↦ Int; the source element type ↦ α; another `comparable` ↦ κ; another ↦ β
	if fd.Type.TypeParams != nil {
		usedBeta := false
		// the source element type parameter: the first type parameter mentioned in S
		isTP := map[string]bool{}
		for _, f := range fd.Type.TypeParams.List {
			for _, n := range f.Names {
				isTP[n.Name] = true
			}
		}
		srcTP := ""
		ast.Inspect(sElem, func(n ast.Node) bool {
			if id, ok := n.(*ast.Ident); ok && srcTP == "" && isTP[id.Name] {
				srcTP = id.Name
			}
			return true
		})
		for _, f := range fd.Type.TypeParams.List {
			for _, n := range f.Names {
				c := typeName(f.Type)
				switch {
				case c == "constraints.Numeric":
					oc.tparams[n.Name] = tInt
				case c != "any" && c != "comparable":
					skip("type constraint %s outside the fragment", src(f.Type))
				case srcTP == n.Name:
					oc.tparams[n.Name] = tVar("α")
					oc.decEqOf["α"] = c == "comparable"
				case c == "comparable":
					if _, dup := oc.decEqOf["κ"]; dup {
						skip("more than one key type parameter")
					}
					oc.tparams[n.Name] = tVar("κ")
					oc.decEqOf["κ"] = true
				default:
					if usedBeta {
						skip("more than two element type parameters")
					}
					usedBeta = true
					oc.tparams[n.Name] = tVar("β")
				}
			}
		}
	}
	m.sT, m.dT = oc.valueType(sElem), oc.valueType(dElem)

	// constructor body: guards, then `return func(source) …`
	body := fd.Body.List
	if len(body) == 0 {
		skip("empty body")
	}
	for _, s := range body[:len(body)-1] {
		if p := nilCtxDefault(s); p != "" {
			// `if p == nil { p = context.Background() }`: the parameter is normalised before use
			oc.ctxDefault[p] = true
			continue
		}
		is, ok := s.(*ast.IfStmt)
		if !ok || is.Init != nil || is.Else != nil || len(is.Body.List) != 1 || !isPanic(is.Body.List[0]) {
			skip("constructor statement before `return` is not `if cond { panic(..) }`: %s", src(s))
		}
		m.guards = append(m.guards, guard{"panic", src(is.Cond)})
		// `p < 0` / `p < 1` on an integer parameter: the parameter is a natural number
		if be, ok := is.Cond.(*ast.BinaryExpr); ok && be.Op == token.LSS {
			if id, ok := be.X.(*ast.Ident); ok {
				if lit, ok := be.Y.(*ast.BasicLit); ok && (lit.Value == "0" || lit.Value == "1") {
					oc.natParam[id.Name] = true
				}
			}
		}
	}
	ret, ok := body[len(body)-1].(*ast.ReturnStmt)
	if !ok || len(ret.Results) != 1 {
		skip("constructor does not end in `return func(source) …`")
	}
	app, ok := ret.Results[0].(*ast.FuncLit)
	if !ok {
		skip("constructor returns %s, not a function literal (delegation / wrapping)", src(ret.Results[0]))
	}
	if len(app.Type.Params.List) != 1 || len(app.Type.Params.List[0].Names) != 1 {
		skip("application function does not take exactly one source")
	}
	sourceName := app.Type.Params.List[0].Names[0].Name

	// parameters
	for _, f := range fd.Type.Params.List {
		for _, n := range f.Names {
			p := &opParam{name: n.Name}
			if ft, ok := f.Type.(*ast.FuncType); ok {
				p.fn = oc.fnType(ft)
			} else if tn := typeName(f.Type); tn == "int" || tn == "int64" {
				if !oc.natParam[n.Name] {
					skip("integer parameter %s without a `%s < 0` / `%s < 1` panic guard", n.Name, n.Name, n.Name)
				}
				p.t = tNat
			} else {
				p.t = oc.valueType(f.Type)
			}
			m.params = append(m.params, p)
		}
	}

	for name := range oc.ctxDefault {
		if p := paramOf(m, name); p == nil || p.fn != nil || p.t.k != "Ctx" {
			skip("`if %s == nil { … }` on something that is not a context parameter", name)
		}
	}

	// application body: guards, then `return NewUnsafeObservableWithContext(func(subscriberCtx, destination) Teardown {…})`
	abody := app.Body.List
	if len(abody) == 0 {
		skip("empty application function")
	}
	for _, s := range abody[:len(abody)-1] {
		is, ok := s.(*ast.IfStmt)
		if !ok || is.Init != nil || is.Else != nil || len(is.Body.List) != 1 || !isReturnEmpty(is.Body.List[0]) {
			skip("application statement before `return` is not `if cond { return Empty[T]() }`: %s", src(s))
		}
		m.guards = append(m.guards, guard{"empty", src(is.Cond)})
	}
	aret, ok := abody[len(abody)-1].(*ast.ReturnStmt)
	if !ok || len(aret.Results) != 1 {
		skip("application function does not end in a return")
	}
	call, ok := aret.Results[0].(*ast.CallExpr)
	// the constructor decides only which mutex the subscriber gets (C02: Catalogue table); the
	// single-source template is the same for the unsafe and the safe constructor
	if !ok || (calleeName(call) != "NewUnsafeObservableWithContext" && calleeName(call) != "NewObservableWithContext" && calleeName(call) != "NewSafeObservableWithContext") || len(call.Args) != 1 {
		skip("application function returns %s, not NewUnsafeObservableWithContext(func…)", src(aret.Results[0]))
	}
	subFn, ok := call.Args[0].(*ast.FuncLit)
	if !ok {
		skip("constructor argument is not a function literal")
	}
	sp := subFn.Type.Params.List
	if len(sp) != 2 || len(sp[0].Names) != 1 || len(sp[1].Names) != 1 || typeName(sp[0].Type) != "context.Context" {
		skip("subscribe function is not func(subscriberCtx context.Context, destination Observer[D])")
	}
	subCtxName, destName := sp[0].Names[0].Name, sp[1].Names[0].Name
	if !sameType(oc.valueType(obsElem(sp[1].Type, "Observer")), m.dT) {
		skip("destination element type differs from the result type")
	}

	tr := &translator{oc: oc, m: m, sourceName: sourceName, subCtxName: subCtxName, destName: destName}
	tr.translateSubscribe(subFn)

	// guards as Lean propositions over the data parameters
	for _, g := range m.guards {
		m.pre = append(m.pre, tr.guardProp(g))
	}
	for v, need := range oc.decEqOf {
		if need {
			m.decEq = append(m.decEq, v)
		}
	}
	sort.Strings(m.decEq)
	return m, ""
}

// `if p == nil { p = context.Background() }` → "p"
func nilCtxDefault(s ast.Stmt) string {
	is, ok := s.(*ast.IfStmt)
	if !ok || is.Init != nil || is.Else != nil || len(is.Body.List) != 1 {
		return ""
	}
	be, ok := is.Cond.(*ast.BinaryExpr)
	if !ok || be.Op != token.EQL {
		return ""
	}
	x, ok1 := be.X.(*ast.Ident)
	y, ok2 := be.Y.(*ast.Ident)
	as, ok3 := is.Body.List[0].(*ast.AssignStmt)
	if !ok1 || !ok2 || !ok3 || y.Name != "nil" || as.Tok != token.ASSIGN || len(as.Lhs) != 1 || len(as.Rhs) != 1 {
		return ""
	}
	l, ok := as.Lhs[0].(*ast.Ident)
	if !ok || l.Name != x.Name || src(as.Rhs[0]) != "context.Background()" {
		return ""
	}
	return x.Name
}

func isPanic(s ast.Stmt) bool {
	es, ok := s.(*ast.ExprStmt)
	if !ok {
		return false
	}
	c, ok := es.X.(*ast.CallExpr)
	if !ok {
		return false
	}
	id, ok := c.Fun.(*ast.Ident)
	return ok && id.Name == "panic"
}

func isReturnEmpty(s ast.Stmt) bool {
	r, ok := s.(*ast.ReturnStmt)
	if !ok || len(r.Results) != 1 {
		return false
	}
	c, ok := r.Results[0].(*ast.CallExpr)
	return ok && calleeName(c) == "Empty" && len(c.Args) == 0
}

// ---------------------------------------------------------------- driver: all files → OpsGen.lean

func opgenFile(path, rel string, ms *[]*machine, sk *[]skipped) error {
	file, err := parser.ParseFile(fset, path, nil, parser.ParseComments)
	if err != nil {
		return err
	}
	for _, d := range file.Decls {
		fd, ok := d.(*ast.FuncDecl)
		if !ok || !isOperatorBody(fd) {
			continue
		}
		m, reason := translateOp(fd, rel)
		if m == nil {
			*sk = append(*sk, skipped{fd.Name.Name, reason})
		} else {
			*ms = append(*ms, m)
		}
	}
	return nil
}

func opgenLean(ms []*machine, sk []skipped) string {
	var sb strings.Builder
	sb.WriteString("-- GENERATED by go/extract (opgen.go) from the Go source of the repository under check. Do not edit.\n")
	sb.WriteString("-- One `Machine` per single-source template operator, translated statement by statement;\n")
	sb.WriteString("-- proved equal to the hand-written machines in RoProps/C04gen.lean. See docs/opgen.md.\n")
	sb.WriteString("import RoModel.Ops.Transform\nset_option linter.unusedVariables false\nnamespace RoGen.Ops\nopen Ro\nvariable {α β κ φ δ τ ι : Type}\n")
	for _, m := range ms {
		sb.WriteString("\n-- @op " + m.goName + "\n")
		sb.WriteString(m.lean())
	}
	sb.WriteString("\n-- @end\n\n/-- the operators translated above (Go function names) -/\ndef translated : List String := [")
	for i, m := range ms {
		if i > 0 {
			sb.WriteString(", ")
		}
		sb.WriteString(leanStr(m.goName))
	}
	sb.WriteString("]\n\n/-- pipeable operator bodies that are outside the translated fragment, with the first reason found -/\ndef skipped : List (String × String) := [\n")
	for i, s := range sk {
		sb.WriteString("  (" + leanStr(s.name) + ", " + leanStr(s.reason) + ")")
		if i+1 < len(sk) {
			sb.WriteString(",")
		}
		sb.WriteString("\n")
	}
	sb.WriteString("]\n\n/-- the parameter guards of the translated operators, as written in the Go source:\n    `panic` = the constructor panics, `empty` = `Empty()` is returned and the source is never subscribed -/\ndef guards : List (String × List (String × String)) := [\n")
	first := true
	for _, m := range ms {
		if len(m.guards) == 0 {
			continue
		}
		if !first {
			sb.WriteString(",\n")
		}
		first = false
		var gs []string
		for _, g := range m.guards {
			gs = append(gs, "("+leanStr(g.kind)+", "+leanStr(g.cond)+")")
		}
		sb.WriteString("  (" + leanStr(m.goName) + ", [" + strings.Join(gs, ", ") + "])")
	}
	sb.WriteString("\n]\n\nend RoGen.Ops\n")
	return sb.String()
}

func (m *machine) lean() string {
	var sb strings.Builder
	var stDesc []string
	for _, c := range m.comps {
		d := c.name + " : " + c.t.lean(false)
		if c.opt {
			d = c.name + "+" + c.flagName + " : " + c.t.lean(false)
		}
		stDesc = append(stDesc, d)
	}
	doc := "`" + m.goName + "` (" + m.file + ")"
	if len(stDesc) > 0 {
		doc += " — state: " + strings.Join(stDesc, ", ")
	}
	for _, n := range m.notes {
		doc += "; " + n
	}
	sb.WriteString("/-- " + doc + " -/\n")
	var sts []*ltype
	for _, c := range m.comps {
		sts = append(sts, c.t)
	}
	sig := "def " + m.name
	binders := ""
	for _, v := range m.decEq {
		binders += " [DecidableEq " + v + "]"
	}
	var inh []string
	for v := range m.inhabited {
		inh = append(inh, v)
	}
	sort.Strings(inh)
	for _, v := range inh {
		binders += " [Inhabited " + v + "]"
	}
	for _, p := range m.params {
		binders += " (" + leanName(p.name) + " : " + p.leanType() + ")"
	}
	for _, p := range m.externs {
		binders += " (" + p.name + " : " + p.leanType() + ")"
	}
	sig += binders + " : Machine " + tProdN(sts).lean(true) + " " + m.sT.lean(true) + " " + m.dT.lean(true) + " where\n"
	sb.WriteString(sig)
	var inits []expr
	for _, c := range m.comps {
		inits = append(inits, c.init)
	}
	switch len(inits) {
	case 0:
		sb.WriteString("  init := ()\n")
	case 1:
		sb.WriteString("  init := " + pp(inits[0], 0) + "\n")
	default:
		sb.WriteString("  init := " + pp(eTuple{inits}, 0) + "\n")
	}
	if m.onSubscribe != "" {
		sb.WriteString("  onSubscribe " + m.onSubscribe + "\n")
	}
	sb.WriteString("  onNext " + m.onNext + "\n")
	sb.WriteString("  onError " + m.onError + "\n")
	sb.WriteString("  onComplete " + m.onComplete + "\n")
	if m.upCtx != "" {
		sb.WriteString("/-- the context `" + m.goName + "` subscribes its source with -/\n")
		sb.WriteString("def " + m.name + "_up" + binders + " (subscriberCtx : Ctx) : Ctx := " + m.upCtx + "\n")
	}
	// the guards as a proposition
	if len(m.guards) > 0 {
		var ps []string
		ok := true
		for _, p := range m.pre {
			if p == "" {
				ok = false
			}
			ps = append(ps, "¬ ("+p+")")
		}
		if ok {
			sig := "def " + m.name + "_pre"
			for _, p := range m.params {
				if p.fn == nil {
					sig += " (" + leanName(p.name) + " : " + p.leanType() + ")"
				}
			}
			sb.WriteString("/-- the parameter values for which `" + m.goName + "` builds this observable (guards: ")
			var gs []string
			for _, g := range m.guards {
				gs = append(gs, g.kind+" if "+g.cond)
			}
			sb.WriteString(strings.Join(gs, "; ") + ") -/\n")
			sb.WriteString(sig + " : Prop := " + strings.Join(ps, " ∧ ") + "\n")
		}
	}
	return sb.String()
}

// runOpgen is called from main(): translate every operator_*.go of the repository
func runOpgen(repo, out string) error {
	files, _ := filepath.Glob(filepath.Join(repo, "operator_*.go"))
	sort.Strings(files)
	var ms []*machine
	var sk []skipped
	for _, p := range files {
		if strings.HasSuffix(p, "_test.go") {
			continue
		}
		if err := opgenFile(p, filepath.Base(p), &ms, &sk); err != nil {
			return err
		}
	}
	txt := opgenLean(ms, sk)
	if out != "" {
		writeIfChanged(filepath.Join(out, "OpsGen.lean"), txt)
	} else {
		fmt.Print(txt)
	}
	return nil
}

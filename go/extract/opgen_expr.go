package main

// opgen_expr.go — the tiny Lean term language the operator translator (opgen.go) prints,
// with its types and a precedence-aware printer.

import (
	"strings"
)

// ---------------------------------------------------------------- Lean types

type ltype struct {
	k    string // Ctx Bool Prop Nat Int IntLit Err Unit var List Set Prod Option Notif
	name string // for var
	a, b *ltype
}

var (
	tCtx    = &ltype{k: "Ctx"}
	tBool   = &ltype{k: "Bool"}
	tProp   = &ltype{k: "Prop"}
	tNat    = &ltype{k: "Nat"}
	tInt    = &ltype{k: "Int"}
	tIntLit = &ltype{k: "IntLit"} // an untyped Go integer constant: Nat or Int, whichever is needed
	tErr    = &ltype{k: "Err"}
	tUnit   = &ltype{k: "Unit"}
)

func tVar(n string) *ltype     { return &ltype{k: "var", name: n} }
func tList(a *ltype) *ltype    { return &ltype{k: "List", a: a} }
func tSet(a *ltype) *ltype     { return &ltype{k: "Set", a: a} }
func tProd(a, b *ltype) *ltype { return &ltype{k: "Prod", a: a, b: b} }
func tOption(a *ltype) *ltype  { return &ltype{k: "Option", a: a} }
func tNotif(a *ltype) *ltype   { return &ltype{k: "Notif", a: a} }
func tMap(k, v *ltype) *ltype  { return &ltype{k: "Map", a: k, b: v} } // association list, `Ro.assocSet`
func tProdN(ts []*ltype) *ltype {
	if len(ts) == 0 {
		return tUnit
	}
	if len(ts) == 1 {
		return ts[0]
	}
	return tProd(ts[0], tProdN(ts[1:]))
}

// Lean text of a type; atom=true parenthesises compound types
func (t *ltype) lean(atom bool) string {
	var s string
	compound := false
	switch t.k {
	case "Ctx", "Bool", "Prop", "Nat", "Int", "Err", "Unit":
		return t.k
	case "IntLit":
		return "Nat"
	case "var":
		return t.name
	case "List", "Set":
		s, compound = "List "+t.a.lean(true), true
	case "Option":
		s, compound = "Option "+t.a.lean(true), true
	case "Notif":
		s, compound = "Notif "+t.a.lean(true), true
	case "Prod":
		s, compound = t.a.lean(true)+" × "+t.b.lean(false), true
	case "Map":
		s, compound = "List ("+t.a.lean(true)+" × "+t.b.lean(false)+")", true
	}
	if compound && atom {
		return "(" + s + ")"
	}
	return s
}

func sameType(a, b *ltype) bool {
	if a.k == "IntLit" && (b.k == "Nat" || b.k == "Int" || b.k == "IntLit") {
		return true
	}
	if b.k == "IntLit" && (a.k == "Nat" || a.k == "Int") {
		return true
	}
	if a.k != b.k && !((a.k == "List" && b.k == "Set") || (a.k == "Set" && b.k == "List")) {
		return false
	}
	switch a.k {
	case "var":
		return a.name == b.name
	case "List", "Set", "Option", "Notif":
		return sameType(a.a, b.a)
	case "Prod", "Map":
		return sameType(a.a, b.a) && sameType(a.b, b.b)
	}
	return true
}

// ---------------------------------------------------------------- Lean terms

type expr interface{}

type eAtom struct{ s string } // identifier or literal
type eApp struct {            // f a b
	f    expr
	args []expr
}
type eProj struct { // x.1, x.2.1 …
	x    expr
	path string
}
type eBin struct { // infix
	op   string
	l, r expr
}
type eNot struct { // !x (Bool) or ¬ x (Prop)
	x    expr
	prop bool
}
type eTuple struct{ xs []expr } // (a, b)
type eList struct{ xs []expr }  // [a, b]
type eCast struct {             // (x : T)
	x  expr
	ty string
}
type eDecide struct{ x expr } // decide (p)
type eField struct {          // x.length
	x expr
	f string
}

func atom(s string) expr { return eAtom{s} }

func isLit(e expr, s string) bool {
	a, ok := e.(eAtom)
	return ok && a.s == s
}

var binPrec = map[string]int{
	"||": 30, "&&": 35, "=": 50, "≠": 50, "<": 50, ">": 50, "≤": 50, "≥": 50, "∈": 50,
	"++": 65, "+": 65, "::": 67, "%": 70,
}

func prec(e expr) int {
	switch x := e.(type) {
	case eAtom:
		if strings.HasPrefix(x.s, "(") {
			return 100
		}
		if strings.ContainsAny(x.s, " ") {
			return 70
		}
		return 100
	case eTuple, eList, eCast:
		return 100
	case eProj, eField:
		return 90
	case eApp, eDecide:
		return 70
	case eNot:
		if x.prop {
			return 40
		}
		return 75
	case eBin:
		return binPrec[x.op]
	}
	return 0
}

// pp prints e; it is parenthesised when its precedence is below `min`
func pp(e expr, min int) string {
	var s string
	switch x := e.(type) {
	case eAtom:
		s = x.s
	case eApp:
		parts := []string{pp(x.f, 90)}
		for _, a := range x.args {
			parts = append(parts, pp(a, 90))
		}
		s = strings.Join(parts, " ")
	case eProj:
		s = pp(x.x, 90) + "." + x.path
	case eField:
		s = pp(x.x, 90) + "." + x.f
	case eBin:
		p := binPrec[x.op]
		s = pp(x.l, p+1) + " " + x.op + " " + pp(x.r, p+1)
	case eNot:
		if x.prop {
			s = "¬ " + pp(x.x, 41)
		} else {
			s = "!" + pp(x.x, 90)
		}
	case eTuple:
		var parts []string
		for _, a := range x.xs {
			parts = append(parts, pp(a, 0))
		}
		s = "(" + strings.Join(parts, ", ") + ")"
	case eList:
		var parts []string
		for _, a := range x.xs {
			parts = append(parts, pp(a, 0))
		}
		s = "[" + strings.Join(parts, ", ") + "]"
	case eCast:
		s = "(" + pp(x.x, 0) + " : " + x.ty + ")"
	case eDecide:
		s = "decide (" + pp(x.x, 0) + ")"
	default:
		s = "?"
	}
	if prec(e) < min {
		return "(" + s + ")"
	}
	return s
}

// mentions reports whether identifier `name` occurs in e
func mentions(e expr, name string) bool {
	switch x := e.(type) {
	case eAtom:
		return x.s == name
	case eApp:
		if mentions(x.f, name) {
			return true
		}
		for _, a := range x.args {
			if mentions(a, name) {
				return true
			}
		}
	case eProj:
		return mentions(x.x, name)
	case eField:
		return mentions(x.x, name)
	case eBin:
		return mentions(x.l, name) || mentions(x.r, name)
	case eNot:
		return mentions(x.x, name)
	case eTuple:
		for _, a := range x.xs {
			if mentions(a, name) {
				return true
			}
		}
	case eList:
		for _, a := range x.xs {
			if mentions(a, name) {
				return true
			}
		}
	case eCast:
		return mentions(x.x, name)
	case eDecide:
		return mentions(x.x, name)
	}
	return false
}

// a typed term
type val struct {
	e expr
	t *ltype
}

// toBool turns a Prop-valued term into a Bool-valued one
func toBool(v val) val {
	if v.t.k == "Prop" {
		return val{eDecide{v.e}, tBool}
	}
	return v
}

// ---------------------------------------------------------------- decision trees

// one segment of an emission list
type seg struct {
	kind string // next | error | complete | map | range
	ctx  expr
	arg  expr   // value / error; for map: the list that is mapped
	n    expr   // range: the bound
	v    string // range: the loop variable
}

type tree interface{}
type tLeaf struct {
	state expr // nil = unchanged
	emits []seg
}
type tIte struct {
	cond      expr
	then, els tree
}
type tMatch struct {
	scrut      expr
	pat        string // pattern of the `some` arm, e.g. "(last_A, last_B)" or "err"
	some, none tree
}

func ppEmits(es []seg) string {
	var parts []string
	var lit []string
	flush := func() {
		if len(lit) > 0 {
			parts = append(parts, "["+strings.Join(lit, ", ")+"]")
			lit = nil
		}
	}
	for _, s := range es {
		switch s.kind {
		case "next":
			lit = append(lit, ".next "+pp(s.ctx, 90)+" "+pp(s.arg, 90))
		case "error":
			lit = append(lit, ".error "+pp(s.ctx, 90)+" "+pp(s.arg, 90))
		case "complete":
			lit = append(lit, ".complete "+pp(s.ctx, 90))
		case "map":
			flush()
			parts = append(parts, pp(s.arg, 90)+".map (Notif.next "+pp(s.ctx, 90)+")")
		case "range":
			flush()
			parts = append(parts, "(List.range "+pp(s.n, 90)+").map (fun "+s.v+" => Notif.next "+pp(s.ctx, 90)+" "+pp(s.arg, 90)+")")
		}
	}
	flush()
	if len(parts) == 0 {
		return "[]"
	}
	return strings.Join(parts, " ++ ")
}

func ppTree(t tree, ind string, stateName string, top bool) string {
	switch x := t.(type) {
	case tLeaf:
		st := stateName
		if x.state != nil {
			st = pp(x.state, 0)
		}
		return "(" + st + ", " + ppEmits(x.emits) + ")"
	case tIte:
		s := "if " + pp(x.cond, 0) + " then"
		if _, ok := x.then.(tLeaf); ok {
			s += " " + ppTree(x.then, ind+"  ", stateName, false)
		} else {
			s += "\n" + ind + "  " + ppTree(x.then, ind+"  ", stateName, false)
		}
		s += "\n" + ind + "else"
		switch x.els.(type) {
		case tLeaf, tIte:
			s += " " + ppTree(x.els, ind, stateName, false)
		default:
			s += "\n" + ind + "  " + ppTree(x.els, ind+"  ", stateName, false)
		}
		return s
	case tMatch:
		arm := func(sub tree) string {
			if _, ok := sub.(tLeaf); ok {
				return ppTree(sub, ind+"    ", stateName, false)
			}
			return "(" + ppTree(sub, ind+"     ", stateName, false) + ")"
		}
		s := "match " + pp(x.scrut, 0) + " with\n" + ind + "| some " + x.pat + " => " + arm(x.some) + "\n" + ind + "| none => " + arm(x.none)
		if !top {
			return "(" + s + ")"
		}
		return s
	}
	return "?"
}

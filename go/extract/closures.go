package main

// closures.go — mutable state captured by closure factories (property C12).
//
// The StatePlacement rows of main.go look at the three scopes of an operator function. Operators also
// obtain per-item functions from package-level helper functions that RETURN a function literal
// (operator_math.go `makeRoundWithFactor`, the precision rounding helpers, …); such a helper is called
// once per operator value, so a variable declared in its body and written by the literal it returns is
// state shared by every subscription of every pipeline built from that operator value.
//
// One row per write — assignment, ++/--, delete/clear/copy, or a method call whose receiver is a
// variable that was created in the helper's body as a fresh mutable object (new(T), &T{…}, T{…},
// make(…), `var x T`) — inside a returned function literal (or a literal nested in it) to a variable
// declared in the helper's body outside that literal. Parameters and variables that are only read are
// not rows. The same kinds of write are also recorded, as extra StateRows, for the operator functions
// themselves (a method call on a captured fresh object is a write the assignment scan does not see).

import (
	"go/ast"
	"go/token"
	"strings"
)

type FactoryRow struct {
	Fn, Var, How string
	Line         int
}

// is the variable created locally as a fresh mutable object; "" if not
func freshInit(o *ast.Object) string {
	switch d := o.Decl.(type) {
	case *ast.AssignStmt:
		for i, l := range d.Lhs {
			if id, ok := l.(*ast.Ident); ok && id.Obj == o && i < len(d.Rhs) && len(d.Lhs) == len(d.Rhs) {
				return initKind(d.Rhs[i])
			}
		}
	case *ast.ValueSpec:
		for i, n := range d.Names {
			if n.Obj == o {
				if i < len(d.Values) {
					return initKind(d.Values[i])
				}
				if d.Type != nil {
					if _, isFn := d.Type.(*ast.FuncType); !isFn {
						return "var"
					}
				}
			}
		}
	}
	return ""
}

func initKind(e ast.Expr) string {
	switch x := e.(type) {
	case *ast.ParenExpr:
		return initKind(x.X)
	case *ast.CallExpr:
		if id, ok := x.Fun.(*ast.Ident); ok && (id.Name == "new" || id.Name == "make") {
			return id.Name
		}
		// new(T).SetPrec(256).SetFloat64(v): a chain of methods on a fresh object returns it
		if se, ok := x.Fun.(*ast.SelectorExpr); ok {
			if k := initKind(se.X); k != "" {
				return k
			}
		}
	case *ast.UnaryExpr:
		if x.Op == token.AND {
			if _, ok := x.X.(*ast.CompositeLit); ok {
				return "&lit"
			}
		}
	case *ast.CompositeLit:
		return "lit"
	}
	return ""
}

// the variable a mutating call writes: `x.M(…)` with x fresh, `delete(x, …)`, `clear(x)`, `copy(x, …)`
func mutatedByCall(c *ast.CallExpr) (*ast.Ident, string) {
	if se, ok := c.Fun.(*ast.SelectorExpr); ok {
		switch se.Sel.Name {
		case "Lock", "Unlock", "TryLock", "RLock", "RUnlock":
			return nil, "" // a shared lock is not state of the stream
		}
		id := rootIdent(se.X)
		if id != nil && id.Obj != nil && id.Obj.Kind == ast.Var && freshInit(id.Obj) != "" {
			return id, "." + se.Sel.Name + "()"
		}
		return nil, ""
	}
	if id, ok := c.Fun.(*ast.Ident); ok && (id.Name == "delete" || id.Name == "clear" || id.Name == "copy") && len(c.Args) > 0 {
		if t := rootIdent(c.Args[0]); t != nil && t.Obj != nil && t.Obj.Kind == ast.Var {
			return t, " " + id.Name + "()"
		}
	}
	return nil, ""
}

func hasCtorCall(fd *ast.FuncDecl) bool {
	found := false
	ast.Inspect(fd, func(n ast.Node) bool {
		if c, ok := n.(*ast.CallExpr); ok {
			if _, ok := isCtorName(calleeName(c)); ok {
				found = true
			}
		}
		return !found
	})
	return found
}

// rows of one non-operator function that returns function literals
func factoryRows(fd *ast.FuncDecl) []FactoryRow {
	var rows []FactoryRow
	var returned []*ast.FuncLit
	ast.Inspect(fd.Body, func(n ast.Node) bool {
		if fl, ok := n.(*ast.FuncLit); ok {
			_ = fl
			return false // returns of nested literals are theirs
		}
		if r, ok := n.(*ast.ReturnStmt); ok {
			for _, e := range r.Results {
				if fl, ok := e.(*ast.FuncLit); ok {
					returned = append(returned, fl)
				}
			}
		}
		return true
	})
	// a function that builds a recipe by composition (its result is an Observable or a pipeable operator and it has no
	// constructor call of its own: RangeWithStepAndInterval = Pipe(Interval, Take, Map(func…))) hands its function literals to
	// the operators it composes: they run once per item of every subscription, so a variable of the body they write is state
	// shared by all subscriptions of the returned value
	if fd.Type.Results != nil && len(fd.Type.Results.List) == 1 && strings.Contains(exprString(fd.Type.Results.List[0].Type), "Observable") {
		ast.Inspect(fd.Body, func(n ast.Node) bool {
			if _, ok := n.(*ast.FuncLit); ok {
				return false
			}
			if c, ok := n.(*ast.CallExpr); ok {
				for _, a := range c.Args {
					if fl, ok := a.(*ast.FuncLit); ok {
						returned = append(returned, fl)
					}
				}
			}
			return true
		})
	}
	params := map[*ast.Object]bool{}
	for _, f := range fd.Type.Params.List {
		for _, n := range f.Names {
			if n.Obj != nil {
				params[n.Obj] = true
			}
		}
	}
	for _, lit := range returned {
		record := func(id *ast.Ident, how string, at ast.Node) {
			if id == nil || id.Obj == nil || id.Obj.Kind != ast.Var || id.Name == "_" || params[id.Obj] {
				return
			}
			p := id.Obj.Pos()
			if p < fd.Pos() || p >= fd.End() || (p >= lit.Pos() && p < lit.End()) {
				return // package level, or declared inside the returned literal: per call
			}
			rows = append(rows, FactoryRow{Fn: fd.Name.Name, Var: id.Name, How: how, Line: line(at.Pos())})
		}
		ast.Inspect(lit, func(n ast.Node) bool {
			switch x := n.(type) {
			case *ast.AssignStmt:
				for _, l := range x.Lhs {
					if x.Tok == token.DEFINE {
						if id, ok := l.(*ast.Ident); ok && id.Obj != nil && id.Obj.Decl != ast.Node(x) {
							record(id, " =", x)
						}
						continue
					}
					record(rootIdent(l), " =", x)
				}
			case *ast.IncDecStmt:
				record(rootIdent(x.X), " ++", x)
			case *ast.CallExpr:
				if id, how := mutatedByCall(x); id != nil {
					record(id, how, x)
				}
			}
			return true
		})
	}
	return rows
}

// ---- which helpers are only ever called per subscription

var factoryFiles []*ast.File

// a helper all of whose call sites (in operator_*.go) lie inside a subscribe function (a function literal with a
// parameter named `destination`) or inside another such helper runs once per subscription: the variables of its
// body are per-subscription state, like the locals of a subscribe function
func perSubscriptionHelpers() map[string]bool {
	type site struct {
		inSubscribe bool
		encl        string // enclosing top-level function
	}
	sites := map[string][]site{}
	for _, f := range factoryFiles {
		for _, d := range f.Decls {
			fd, ok := d.(*ast.FuncDecl)
			if !ok || fd.Body == nil {
				continue
			}
			par := buildParents(fd)
			ast.Inspect(fd, func(n ast.Node) bool {
				c, ok := n.(*ast.CallExpr)
				if !ok {
					return true
				}
				name := ""
				switch x := c.Fun.(type) {
				case *ast.Ident:
					name = x.Name
				case *ast.IndexExpr:
					if id, ok := x.X.(*ast.Ident); ok {
						name = id.Name
					}
				case *ast.SelectorExpr: // method values of helper types: mode.bigRound(…)
					name = x.Sel.Name
				}
				if name == "" {
					return true
				}
				st := site{encl: fd.Name.Name}
				for _, e := range par.enclosingFuncs(c) {
					if fl, ok := e.(*ast.FuncLit); ok {
						for _, fld := range fl.Type.Params.List {
							for _, nm := range fld.Names {
								if nm.Name == "destination" {
									st.inSubscribe = true
								}
							}
						}
					}
				}
				sites[name] = append(sites[name], st)
				return true
			})
		}
	}
	per := map[string]bool{}
	for changed := true; changed; {
		changed = false
		for name, ss := range sites {
			if per[name] || len(ss) == 0 {
				continue
			}
			all := true
			for _, s := range ss {
				if !s.inSubscribe && !per[s.encl] {
					all = false
				}
			}
			if all {
				per[name] = true
				changed = true
			}
		}
	}
	return per
}

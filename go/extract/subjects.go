package main

// Subject lock skeletons (property C10): for SubscribeWithContext / NextWithContext /
// ErrorWithContext / CompleteWithContext of the five subject implementations, the sequence — in
// source order — of what the method does with respect to its mutex:
//
//   lock / unlock          s.mu.Lock() / s.mu.Unlock()          (`defer s.mu.Unlock()` sets deferUnlock)
//   access                 any read or write of a field of the receiver other than mu
//   broadcast              s.broadcastNext / broadcastError / broadcastComplete(...)
//   deliver                <subscriber>.NextWithContext / ErrorWithContext / CompleteWithContext(...)
//   deferDeliver           the same inside a `defer` (runs after the unlock: unicast)
//   teardown               <subscription>.Add(func() { ... })   (the closure body runs later; not descended)
//   drop                   OnDroppedNotification(...)
//   unsubscribeAll         s.unsubscribeAll()
//   other:<what>           anything else that touches the receiver or is a closure / go statement
//
// The Lean predicate `C10.wellLocked` accepts exactly the skeletons in which everything happens
// between lock and unlock (and only `unsubscribeAll` after); unknown tokens are rejected.

import (
	"fmt"
	"go/ast"
	"go/parser"
	"path/filepath"
	"strings"
)

type LockRow struct {
	Subject, Method, File string
	Line                  int
	DeferUnlock           bool
	DeferredDeliver       bool
	Skeleton              []string
}

var subjectMethods = map[string]bool{"SubscribeWithContext": true, "NextWithContext": true, "ErrorWithContext": true, "CompleteWithContext": true}

func init() { extraTables = append(extraTables, extractSubjectLocks) }

func isRecvField(e ast.Expr, recv string) (string, bool) {
	if se, ok := e.(*ast.SelectorExpr); ok {
		if id, ok := se.X.(*ast.Ident); ok && id.Name == recv {
			return se.Sel.Name, true
		}
	}
	return "", false
}

func lockSkeleton(fd *ast.FuncDecl, recv string) LockRow {
	row := LockRow{Method: fd.Name.Name, Line: line(fd.Pos())}
	emit := func(s string) { row.Skeleton = append(row.Skeleton, s) }
	var walk func(n ast.Node)
	walkAll := func(ns []ast.Expr) {
		for _, a := range ns {
			walk(a)
		}
	}
	// classify a call; returns true when fully handled
	call := func(c *ast.CallExpr, deferred bool) bool {
		if se, ok := c.Fun.(*ast.SelectorExpr); ok {
			// s.mu.Lock() / s.mu.Unlock()
			if f, ok := isRecvField(se.X, recv); ok && f == "mu" {
				switch se.Sel.Name {
				case "Lock":
					if deferred {
						emit("other:deferLock")
					} else {
						emit("lock")
					}
				case "Unlock":
					if deferred {
						row.DeferUnlock = true
					} else {
						emit("unlock")
					}
				default:
					emit("other:mu." + se.Sel.Name)
				}
				return true
			}
			// methods of the receiver
			if id, ok := se.X.(*ast.Ident); ok && id.Name == recv {
				switch {
				case strings.HasPrefix(se.Sel.Name, "broadcast"):
					if deferred {
						emit("other:deferBroadcast")
					} else {
						emit("broadcast")
					}
				case se.Sel.Name == "unsubscribeAll":
					if deferred {
						emit("other:deferUnsubscribeAll")
					} else {
						emit("unsubscribeAll")
					}
				default:
					emit("other:" + se.Sel.Name)
				}
				walkAll(c.Args)
				return true
			}
			// deliveries to a subscriber held in a local variable
			switch se.Sel.Name {
			case "NextWithContext", "ErrorWithContext", "CompleteWithContext", "Next", "Error", "Complete":
				if _, isField := isRecvField(se.X, recv); !isField {
					if deferred {
						row.DeferredDeliver = true
						emit("deferDeliver")
					} else {
						emit("deliver")
					}
					walk(se.X)
					walkAll(c.Args)
					return true
				}
			case "Add":
				if len(c.Args) == 1 {
					if _, ok := c.Args[0].(*ast.FuncLit); ok {
						emit("teardown")
						walk(se.X)
						return true
					}
				}
			}
		}
		if id, ok := c.Fun.(*ast.Ident); ok && id.Name == "OnDroppedNotification" {
			emit("drop")
			walkAll(c.Args)
			return true
		}
		return false
	}
	walk = func(n ast.Node) {
		if n == nil {
			return
		}
		ast.Inspect(n, func(m ast.Node) bool {
			switch x := m.(type) {
			case *ast.DeferStmt:
				if !call(x.Call, true) {
					emit("other:defer")
				}
				return false
			case *ast.GoStmt:
				emit("other:go")
				return false
			case *ast.FuncLit:
				emit("other:closure")
				return false
			case *ast.CallExpr:
				if call(x, false) {
					return false
				}
				return true
			case *ast.SelectorExpr:
				if f, ok := isRecvField(x, recv); ok {
					if f == "mu" {
						emit("other:mu")
					} else {
						emit("access")
					}
					return false
				}
			}
			return true
		})
	}
	walk(fd.Body)
	return row
}

func extractSubjectLocks(repo, out string) {
	var rows []LockRow
	for _, sj := range []string{"publish", "behavior", "replay", "async", "unicast"} {
		path := filepath.Join(repo, "subject_"+sj+".go")
		file, err := parser.ParseFile(fset, path, nil, 0)
		if err != nil {
			rows = append(rows, LockRow{Subject: sj, Method: "parse-error", File: filepath.Base(path), Skeleton: []string{"other:parse-error"}})
			continue
		}
		for _, d := range file.Decls {
			fd, ok := d.(*ast.FuncDecl)
			if !ok || fd.Body == nil || fd.Recv == nil || len(fd.Recv.List) != 1 || !subjectMethods[fd.Name.Name] {
				continue
			}
			recv := "_"
			if len(fd.Recv.List[0].Names) == 1 {
				recv = fd.Recv.List[0].Names[0].Name
			}
			row := lockSkeleton(fd, recv)
			row.Subject, row.File = sj, filepath.Base(path)
			rows = append(rows, row)
		}
	}
	var sb strings.Builder
	sb.WriteString("-- GENERATED by go/extract from the repository under check. Do not edit.\nimport RoModel.FactsSubjects\nnamespace RoGen.SubjectLocks\nopen Ro.Facts\n\ndef table : List LockRow := [\n")
	for i, r := range rows {
		toks := make([]string, len(r.Skeleton))
		for j, t := range r.Skeleton {
			toks[j] = leanStr(t)
		}
		sb.WriteString(fmt.Sprintf("  { subject := %s, method := %s, file := %s, line := %d, deferUnlock := %s, deferredDeliver := %s,\n    skeleton := [%s] }",
			leanStr(r.Subject), leanStr(r.Method), leanStr(r.File), r.Line, leanBool(r.DeferUnlock), leanBool(r.DeferredDeliver), strings.Join(toks, ", ")))
		if i+1 < len(rows) {
			sb.WriteString(",\n")
		} else {
			sb.WriteString("\n")
		}
	}
	sb.WriteString("]\n\nend RoGen.SubjectLocks\n")
	if out != "" {
		writeIfChanged(filepath.Join(out, "SubjectLocks.lean"), sb.String())
	} else {
		fmt.Print(sb.String())
	}
}

package main

// gengen — the synchronous creation operators of operator_creation.go translated into Lean script generators
// (property C04; also C09 / C12 for these operators).
//
// On every run the bodies of Of, Start, Range, Repeat, FromSlice, Empty and Throw are translated into `Ro.Gen`
// values built from the statement combinators of lean/RoModel/Ops/CreateGen.lean (lean/RoGen/GenGen.lean, namespace
// RoGen.Gen); lean/RoProps/C04create.lean proves each of them equal to the hand-written generator of
// RoModel/Ops/Create.lean that the C04 creation theorems (generator = documented script) are about — for all
// parameters.
//
// Fragment (anything else makes the operator untranslated: listed in `skipped`, `C04create.nothing_skipped` fails):
//
//   Creation ::= func Op[T any](Params) Observable[T] {
//                    Local*                                   -- x := int64(1)
//                    Guard*                                   -- if a == b { return Empty[T]() } else if a > b { x = -1 }
//                                                             -- if c < 0 { panic(E) } else if c == 0 { return Empty[T]() }
//                    return NewUnsafeObservableWithContext(func(ctx context.Context, destination Observer[T]) Teardown {
//                        Stmt*  return nil })
//                }
//   Stmt     ::= destination.NextWithContext(ctx, Expr) | destination.ErrorWithContext(ctx, Expr) | destination.CompleteWithContext(ctx)
//              | for _, v := range xs { Stmt* }
//              | for i := int64(0); i < n; i++ { Stmt* }
//              | c := e ; for Cond(c) { Stmt* ; c += e' }            -- the cursor loop of Range (fuel parameter)
//   (float64 parameters and `1.0` literals are read as integers: RangeWithStep is tied for integral bounds and steps)
//   Expr     ::= identifier | cb()                                    -- a user callback without arguments: hoisted into `call`
//
// `int64` parameters and locals are `Int` (a counted loop bound is `Nat`: the guard `count < 0 → panic` is required).

import (
	"fmt"
	"go/ast"
	"go/parser"
	"go/token"
	"path/filepath"
	"strings"
)

func init() { extraTables = append(extraTables, extractGenGen) }

type ggFail struct{ why string }

func ggPanic(f string, a ...any) { panic(ggFail{fmt.Sprintf(f, a...)}) }

type ggEnv struct {
	cbs   map[string]bool // callback parameters
	nats  map[string]bool // parameters known non-negative (counted-loop bounds)
	binds map[string]string
	fuel  bool
	nCall int
	pos   []string // parameters guarded by `p <= 0 → panic`
}

var ggOps = []string{"Of", "Start", "Range", "RangeWithStep", "Repeat", "FromSlice", "Empty", "Throw"}

func (e *ggEnv) expr(x ast.Expr) (string, []string) {
	switch v := x.(type) {
	case *ast.ParenExpr:
		return e.expr(v.X)
	case *ast.Ident:
		if b, ok := e.binds[v.Name]; ok {
			return b, nil
		}
		return ggIdent(v.Name), nil
	case *ast.BasicLit:
		if v.Kind == token.INT {
			return v.Value, nil
		}
		if v.Kind == token.FLOAT && strings.HasSuffix(v.Value, ".0") { // 1.0: float64 parameters are read as integers (header)
			return strings.TrimSuffix(v.Value, ".0"), nil
		}
	case *ast.UnaryExpr:
		if v.Op == token.SUB {
			s, c := e.expr(v.X)
			return "(-" + s + ")", c
		}
	case *ast.BinaryExpr:
		l, c1 := e.expr(v.X)
		r, c2 := e.expr(v.Y)
		switch v.Op {
		case token.ADD, token.MUL, token.SUB:
			return "(" + l + " " + v.Op.String() + " " + r + ")", append(c1, c2...)
		case token.LSS, token.GTR, token.LEQ, token.GEQ:
			return "decide (" + l + " " + v.Op.String() + " " + r + ")", append(c1, c2...)
		case token.EQL:
			return "decide (" + l + " = " + r + ")", append(c1, c2...)
		}
	case *ast.CallExpr:
		// int64(1)
		if id, ok := v.Fun.(*ast.Ident); ok && id.Name == "int64" && len(v.Args) == 1 {
			return e.expr(v.Args[0])
		}
		// cb()
		if id, ok := v.Fun.(*ast.Ident); ok && e.cbs[id.Name] && len(v.Args) == 0 {
			name := fmt.Sprintf("r%d", e.nCall)
			e.nCall++
			return name, []string{id.Name + "|" + name}
		}
	}
	ggPanic("expression at line %d", line(x.Pos()))
	return "", nil
}

func ggIdent(n string) string {
	if n == "end" {
		return "end_"
	}
	return n
}

// wrap a statement in the `call`s its argument expressions need
func ggWithCalls(calls []string, body string) string {
	for i := len(calls) - 1; i >= 0; i-- {
		p := strings.SplitN(calls[i], "|", 2)
		body = fmt.Sprintf("(call %s (fun %s => %s))", p[0], p[1], body)
	}
	return body
}

func (e *ggEnv) emitCall(c *ast.CallExpr) (string, bool) {
	se, ok := c.Fun.(*ast.SelectorExpr)
	if !ok {
		return "", false
	}
	if id, ok := se.X.(*ast.Ident); !ok || id.Name != "destination" {
		return "", false
	}
	if len(c.Args) == 0 {
		return "", false
	}
	ctx, _ := e.expr(c.Args[0])
	switch {
	case se.Sel.Name == "NextWithContext" && len(c.Args) == 2:
		v, calls := e.expr(c.Args[1])
		return ggWithCalls(calls, fmt.Sprintf("(emit (.next %s %s))", ctx, v)), true
	case se.Sel.Name == "ErrorWithContext" && len(c.Args) == 2:
		v, calls := e.expr(c.Args[1])
		return ggWithCalls(calls, fmt.Sprintf("(emit (.error %s %s))", ctx, v)), true
	case se.Sel.Name == "CompleteWithContext" && len(c.Args) == 1:
		return fmt.Sprintf("(emit (.complete %s))", ctx), true
	}
	return "", false
}

func ggSeq(parts []string) string {
	if len(parts) == 0 {
		return "skip"
	}
	out := parts[len(parts)-1]
	for i := len(parts) - 2; i >= 0; i-- {
		out = fmt.Sprintf("(seq %s %s)", parts[i], out)
	}
	return out
}

func (e *ggEnv) stmts(l []ast.Stmt) string {
	var parts []string
	for i := 0; i < len(l); i++ {
		switch v := l[i].(type) {
		case *ast.ExprStmt:
			c, ok := v.X.(*ast.CallExpr)
			if !ok {
				ggPanic("statement at line %d", line(v.Pos()))
			}
			s, ok := e.emitCall(c)
			if !ok {
				ggPanic("call at line %d is not an emission", line(v.Pos()))
			}
			parts = append(parts, s)
		case *ast.ReturnStmt:
			if len(v.Results) != 1 || !isIdent(v.Results[0], "nil") || i != len(l)-1 {
				ggPanic("return at line %d", line(v.Pos()))
			}
		case *ast.RangeStmt:
			vid, ok := v.Value.(*ast.Ident)
			if !ok || !isIdent(v.Key, "_") || v.Tok != token.DEFINE {
				ggPanic("range loop at line %d", line(v.Pos()))
			}
			xs, calls := e.expr(v.X)
			if len(calls) > 0 {
				ggPanic("range over a callback result (line %d)", line(v.Pos()))
			}
			parts = append(parts, fmt.Sprintf("(forEach %s (fun %s => %s))", xs, ggIdent(vid.Name), e.stmts(v.Body.List)))
		case *ast.ForStmt:
			// for i := int64(0); i < n; i++ { … }
			if as, ok := v.Init.(*ast.AssignStmt); ok && v.Cond != nil && v.Post != nil {
				id, ok1 := as.Lhs[0].(*ast.Ident)
				zero, _ := e.expr(as.Rhs[0])
				be, ok2 := v.Cond.(*ast.BinaryExpr)
				inc, ok3 := v.Post.(*ast.IncDecStmt)
				if ok1 && ok2 && ok3 && zero == "0" && be.Op == token.LSS && isIdent(be.X, id.Name) && inc.Tok == token.INC && isIdent(inc.X, id.Name) {
					bound, ok := be.Y.(*ast.Ident)
					if !ok || !e.nats[bound.Name] {
						ggPanic("counted loop at line %d: the bound is not a parameter known to be non-negative", line(v.Pos()))
					}
					parts = append(parts, fmt.Sprintf("(forCount %s (fun %s => %s))", ggIdent(bound.Name), ggIdent(id.Name), e.stmts(v.Body.List)))
					continue
				}
			}
			// c := e (previous statement); for Cond(c) { Stmt*; c += e' }
			if v.Init == nil && v.Post == nil && v.Cond != nil && len(parts) >= 0 && i > 0 {
				prev, ok := l[i-1].(*ast.AssignStmt)
				if ok && prev.Tok == token.DEFINE && len(prev.Lhs) == 1 {
					cur := prev.Lhs[0].(*ast.Ident).Name
					body := v.Body.List
					if len(body) >= 1 {
						if up, ok := body[len(body)-1].(*ast.AssignStmt); ok && up.Tok == token.ADD_ASSIGN && isIdent(up.Lhs[0], cur) {
							start, _ := e.expr(prev.Rhs[0])
							e2 := *e
							e2.binds = map[string]string{}
							for k, b := range e.binds {
								e2.binds[k] = b
							}
							delete(e2.binds, cur)
							cond, _ := e2.expr(v.Cond)
							step, _ := e2.expr(up.Rhs[0])
							inner := e2.stmts(body[:len(body)-1])
							e.fuel = true
							parts = append(parts, fmt.Sprintf("(forWhile (fun %s => %s) (fun %s => %s + %s) (fun %s => %s) fuel %s)", cur, cond, cur, cur, step, cur, inner, start))
							continue
						}
					}
				}
			}
			ggPanic("loop at line %d", line(v.Pos()))
		case *ast.AssignStmt:
			// `cursor := start` directly before a cursor loop: consumed by the loop
			if v.Tok == token.DEFINE && i+1 < len(l) {
				if _, ok := l[i+1].(*ast.ForStmt); ok {
					continue
				}
			}
			ggPanic("assignment at line %d", line(v.Pos()))
		default:
			ggPanic("statement at line %d", line(l[i].Pos()))
		}
	}
	return ggSeq(parts)
}

func ggType(e ast.Expr) string {
	switch x := e.(type) {
	case *ast.Ident:
		switch x.Name {
		case "int64", "int", "float64": // float64: integral values only (the harness passes integers; float arithmetic on them is exact)
			return "Int"
		case "error":
			return "Err"
		case "T":
			return "α"
		}
	case *ast.Ellipsis:
		return "List " + ggAtom(ggType(x.Elt))
	case *ast.ArrayType:
		if x.Len == nil {
			return "List " + ggAtom(ggType(x.Elt))
		}
	case *ast.FuncType:
		if (x.Params == nil || len(x.Params.List) == 0) && x.Results != nil && len(x.Results.List) == 1 {
			return "Outcome " + ggAtom(ggType(x.Results.List[0].Type))
		}
	}
	ggPanic("parameter type")
	return ""
}

func ggAtom(t string) string {
	if strings.Contains(t, " ") {
		return "(" + t + ")"
	}
	return t
}

func ggTranslate(fd *ast.FuncDecl) string {
	e := &ggEnv{cbs: map[string]bool{}, nats: map[string]bool{}, binds: map[string]string{}}
	elem := "α"
	if fd.Type.Results != nil && len(fd.Type.Results.List) == 1 {
		if ix, ok := fd.Type.Results.List[0].Type.(*ast.IndexExpr); ok {
			if id, ok := ix.Index.(*ast.Ident); ok && (id.Name == "int64" || id.Name == "float64") {
				elem = "Int"
			}
		}
	}
	type param struct{ name, ty string }
	var params []param
	for _, f := range fd.Type.Params.List {
		ty := ggType(f.Type)
		for _, n := range f.Names {
			params = append(params, param{n.Name, ty})
			if strings.HasPrefix(ty, "Outcome") {
				e.cbs[n.Name] = true
			}
		}
	}
	body := fd.Body.List
	// guards and locals before the constructor
	var pre []string // Lean lines wrapping the generator: "if c then G else", "let x := …"
	i := 0
	for ; i < len(body)-1; i++ {
		switch v := body[i].(type) {
		case *ast.AssignStmt:
			if v.Tok != token.DEFINE || len(v.Lhs) != 1 {
				ggPanic("statement at line %d", line(v.Pos()))
			}
			val, _ := e.expr(v.Rhs[0])
			e.binds[v.Lhs[0].(*ast.Ident).Name] = val
		case *ast.IfStmt:
			// chain: if A { panic | return Empty } else if B { x = e | return Empty | panic }
			for cur := v; cur != nil; {
				cond, _ := e.expr(cur.Cond)
				if len(cur.Body.List) != 1 {
					ggPanic("guard at line %d", line(cur.Pos()))
				}
				switch s := cur.Body.List[0].(type) {
				case *ast.ExprStmt: // panic(E): a parameter precondition
					c, ok := s.X.(*ast.CallExpr)
					if !ok || !isIdent(c.Fun, "panic") {
						ggPanic("guard at line %d", line(cur.Pos()))
					}
					be, ok := cur.Cond.(*ast.BinaryExpr)
					if !ok || (be.Op != token.LSS && be.Op != token.LEQ) {
						ggPanic("panic guard at line %d is not `p < 0` / `p <= 0`", line(cur.Pos()))
					}
					if lit, ok := be.Y.(*ast.BasicLit); !ok || lit.Value != "0" {
						ggPanic("panic guard at line %d is not `p < 0` / `p <= 0`", line(cur.Pos()))
					}
					if be.Op == token.LSS {
						e.nats[be.X.(*ast.Ident).Name] = true
					} else {
						e.pos = append(e.pos, be.X.(*ast.Ident).Name) // a precondition of the equality theorem (0 < p); the parameter stays Int
					}
				case *ast.ReturnStmt: // return Empty[T]()
					ok := false
					if len(s.Results) == 1 {
						if c, isC := s.Results[0].(*ast.CallExpr); isC && len(c.Args) == 0 {
							fn := c.Fun
							if ix, isIx := fn.(*ast.IndexExpr); isIx {
								fn = ix.X
							}
							ok = isIdent(fn, "Empty")
						}
					}
					if !ok {
						ggPanic("guard at line %d returns something else than Empty()", line(cur.Pos()))
					}
					pre = append(pre, "if "+strings.TrimPrefix(cond, "decide ")+" then emptyG else")
				case *ast.AssignStmt: // x = e
					if s.Tok != token.ASSIGN || len(s.Lhs) != 1 {
						ggPanic("guard at line %d", line(cur.Pos()))
					}
					name := s.Lhs[0].(*ast.Ident).Name
					old, ok := e.binds[name]
					if !ok {
						ggPanic("guard at line %d assigns an unknown local", line(cur.Pos()))
					}
					nv, _ := e.expr(s.Rhs[0])
					e.binds[name] = fmt.Sprintf("(if %s then %s else %s)", strings.TrimPrefix(cond, "decide "), nv, old)
				default:
					ggPanic("guard at line %d", line(cur.Pos()))
				}
				if cur.Else == nil {
					break
				}
				next, ok := cur.Else.(*ast.IfStmt)
				if !ok {
					ggPanic("guard with a plain else at line %d", line(cur.Pos()))
				}
				cur = next
			}
		default:
			ggPanic("statement at line %d", line(body[i].Pos()))
		}
	}
	ret, ok := body[len(body)-1].(*ast.ReturnStmt)
	if !ok || len(ret.Results) != 1 {
		ggPanic("last statement is not a return")
	}
	ctor, ok := ret.Results[0].(*ast.CallExpr)
	if !ok || len(ctor.Args) != 1 {
		ggPanic("does not return an observable constructor call")
	}
	if _, ok := isCtorName(calleeName(ctor)); !ok {
		ggPanic("does not return an observable constructor call")
	}
	fl, ok := ctor.Args[0].(*ast.FuncLit)
	if !ok {
		ggPanic("constructor argument is not a function literal")
	}
	var pn []string
	for _, f := range fl.Type.Params.List {
		for _, n := range f.Names {
			pn = append(pn, n.Name)
		}
	}
	if len(pn) != 2 || pn[1] != "destination" {
		ggPanic("subscribe function parameters")
	}
	stmt := e.stmts(fl.Body.List)
	sig := ""
	for _, p := range params {
		ty := p.ty
		if e.nats[p.name] && ty == "Int" {
			ty = "Nat"
		}
		sig += fmt.Sprintf(" (%s : %s)", ggIdent(p.name), ty)
	}
	if e.fuel {
		sig += " (fuel : Nat)"
	}
	name := strings.ToLower(fd.Name.Name[:1]) + fd.Name.Name[1:] + "G"
	var sb strings.Builder
	pre2 := ""
	if len(e.pos) > 0 {
		pre2 = " (the constructor panics unless 0 < " + strings.Join(e.pos, ", 0 < ") + ")"
	}
	sb.WriteString(fmt.Sprintf("/-- operator_creation.go:%d%s -/\ndef %s%s : Gen %s :=\n", line(fd.Pos()), pre2, name, sig, elem))
	for _, p := range pre {
		sb.WriteString("  " + p + "\n")
	}
	sb.WriteString(fmt.Sprintf("  fun %s => run %s\n", pn[0], stmt))
	return sb.String()
}

func extractGenGen(repo, out string) {
	var sb strings.Builder
	sb.WriteString("-- GENERATED by go/extract (gengen.go) from the repository under check. Do not edit.\nimport RoModel.Ops.CreateGen\nnamespace RoGen.Gen\nopen Ro Ro.GenB\nvariable {α : Type}\n\n")
	var skipped [][2]string
	var done []string
	file, err := parser.ParseFile(fset, filepath.Join(repo, "operator_creation.go"), nil, 0)
	byName := map[string]*ast.FuncDecl{}
	if err == nil {
		for _, d := range file.Decls {
			if fd, ok := d.(*ast.FuncDecl); ok && fd.Body != nil && fd.Recv == nil {
				byName[fd.Name.Name] = fd
			}
		}
	}
	// Empty first: the guards of the others refer to it
	order := append([]string{"Empty"}, ggOps...)
	seen := map[string]bool{}
	for _, op := range order {
		if seen[op] {
			continue
		}
		seen[op] = true
		fd := byName[op]
		if fd == nil {
			skipped = append(skipped, [2]string{op, "function not found"})
			continue
		}
		func() {
			defer func() {
				if r := recover(); r != nil {
					if f, ok := r.(ggFail); ok {
						skipped = append(skipped, [2]string{op, f.why})
						return
					}
					panic(r)
				}
			}()
			txt := ggTranslate(fd)
			sb.WriteString("-- @gen " + op + "\n" + txt + "\n")
			done = append(done, op)
		}()
	}
	sb.WriteString("-- @end\n\ndef translated : List String := [" + strings.Join(mapStr(done, leanStr), ", ") + "]\n\ndef skipped : List (String × String) := [")
	for i, s := range skipped {
		if i > 0 {
			sb.WriteString(", ")
		}
		sb.WriteString("(" + leanStr(s[0]) + ", " + leanStr(s[1]) + ")")
	}
	sb.WriteString("]\n\nend RoGen.Gen\n")
	if out != "" {
		writeIfChanged(filepath.Join(out, "GenGen.lean"), sb.String())
	} else {
		fmt.Print(sb.String())
	}
}

func mapStr(l []string, f func(string) string) []string {
	out := make([]string, len(l))
	for i, x := range l {
		out[i] = f(x)
	}
	return out
}

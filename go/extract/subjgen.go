package main

// subjgen — the five subjects' methods translated into Lean step functions (property C10, also the
// subject clauses of C01 / C02 / C07 / C09).
//
// On every run the bodies of SubscribeWithContext / NextWithContext / ErrorWithContext /
// CompleteWithContext, of the broadcast helpers, of unsubscribeAll, of the constructor and of the
// five state queries of subject_{publish,behavior,replay,async,unicast}.go are translated into Lean
// definitions over `Ro.Subj.State` (lean/RoGen/SubjGen.lean, namespace RoGen.Subj).
// lean/RoProps/C10gen.lean proves each of them equal to the corresponding clause of the hand-written
// step functions of RoModel/Subjects.lean (the ones the C10 theorems are about), for every state and
// every argument.  What is translated is the *sequential reading* of a method: `s.mu.Lock()`,
// `s.mu.Unlock()` and `defer s.mu.Unlock()` are erased (where the lock is held is the other
// regenerated table, RoGen.SubjectLocks), a `defer <subscriber>.XxxWithContext(..)` runs at the end of
// the method.
//
// Encoding of the Go fields in `Ro.Subj.State` (fixed; the same reading as the hand-written model):
//
//   status + err                      State.status : Status   (KindNext ↦ .active, KindError with
//                                     err = (c, e) ↦ .errored c e, KindComplete ↦ .completed);
//                                     `s.err = lo.T2(a, b)` must be followed by `s.status = KindError`
//                                     on the same path, `s.err.A/.B` may only be read in the
//                                     `case KindError:` arm of a `switch s.status`
//   observers (sync.Map) + observerIndex
//                                     State.observers : List Nat, the subscriber identities in
//                                     insertion order; the key `index` is the identity `i`
//   observer (unicast)                State.observers (`nil` ↦ [], `subscription` ↦ [i])
//   values                            State.values
//   last (behavior)                   State.values = [last]; reads are `s.values.getD 0 (Ctx.nil, default)`
//   hasValue + value (async)          State.values ([] ↦ hasValue = false, [p] ↦ value = p); `s.hasValue = true`
//                                     must be followed by `s.value = lo.T2(a, b)`; `s.value` may only be
//                                     read under `if s.hasValue`
//   bufferSize                        the parameter `cap : Option Nat` (`none` ↦ the Unlimited constant)
//   subscription := NewSubscriber(destination)
//                                     `fresh s i`; its methods ↦ subNext / subTerminal (RoModel/Subjects.lean,
//                                     themselves the sequential reading of subscriber.go, tied by the kernel slice)
//   subscription.Add(func() { … })    `td := true` on subscriber i; the closure decides `<kind>_td`
//                                     (`s.observers.Delete(index)` ↦ .delete, `s.observer = nil` under the
//                                     mutex ↦ .clear)
//
// Anything outside these forms makes the *method* untranslated: it is listed in `RoGen.Subj.skipped`
// with the first reason found, and `C10gen.nothing_skipped` (decide) fails.

import (
	"fmt"
	"go/ast"
	"go/parser"
	"go/token"
	"path/filepath"
	"strings"
)

func init() { extraTables = append(extraTables, extractSubjGen) }

type sgFail struct{ why string }

func sgPanic(format string, a ...any) { panic(sgFail{fmt.Sprintf(format, a...)}) }

type sgEnv struct {
	kind     string
	recv     string
	sub      string            // Go local holding the subscriber
	binds    map[string]string // Go local -> Lean term
	errBound bool
	obsBound string // Lean name bound to the head of s.observers (unicast, inside `s.observer != nil`)
	obsNil   bool   // `s.observer = nil` already executed on this path (reads of s.observer are nil)
	valBound string // Lean name bound to the head of s.values (async, inside `s.hasValue`)
	capBound string // Lean name of the buffer size (inside `some n`)
	pendErr  *[2]string
	pendHas  bool
	indexVar string
	defers   []string // Lean state transformers `f s`, written with the placeholder «S»
	rangeVar string
	td       *string
	ret      string // "state" or "query"
}

func (e *sgEnv) clone() *sgEnv {
	c := *e
	c.binds = map[string]string{}
	for k, v := range e.binds {
		c.binds[k] = v
	}
	c.defers = append([]string(nil), e.defers...)
	if e.pendErr != nil {
		p := *e.pendErr
		c.pendErr = &p
	}
	return &c
}

func sgSrc(n ast.Node) string {
	var sb strings.Builder
	ast.Fprint(&sb, nil, n, nil)
	return fmt.Sprintf("%T at line %d", n, line(n.Pos()))
}

// recvField: `s.f` or `s.f.g`
func (e *sgEnv) recvPath(x ast.Expr) ([]string, bool) {
	var path []string
	for {
		se, ok := x.(*ast.SelectorExpr)
		if !ok {
			break
		}
		path = append([]string{se.Sel.Name}, path...)
		x = se.X
	}
	if id, ok := x.(*ast.Ident); ok && id.Name == e.recv && len(path) > 0 {
		return path, true
	}
	return nil, false
}

const sgZeroPair = "(Ctx.nil, default)"

func (e *sgEnv) expr(x ast.Expr) string {
	switch v := x.(type) {
	case *ast.ParenExpr:
		return e.expr(v.X)
	case *ast.Ident:
		if t, ok := e.binds[v.Name]; ok {
			return t
		}
		switch v.Name {
		case "ErrUnicastSubjectConcurrent":
			return "(Err.sentinel 6)"
		}
		sgPanic("identifier %s (line %d) is not a parameter or a translated local", v.Name, line(v.Pos()))
	case *ast.CallExpr:
		if se, ok := v.Fun.(*ast.SelectorExpr); ok {
			if id, ok := se.X.(*ast.Ident); ok && id.Name == "context" && (se.Sel.Name == "TODO" || se.Sel.Name == "Background") && len(v.Args) == 0 {
				return "Ctx.bg"
			}
		}
		sgPanic("call in expression position at line %d", line(v.Pos()))
	case *ast.SelectorExpr:
		if path, ok := e.recvPath(v); ok {
			switch strings.Join(path, ".") {
			case "err.A":
				if e.errBound {
					return "errA"
				}
				sgPanic("s.err read outside `case KindError` (line %d)", line(v.Pos()))
			case "err.B":
				if e.errBound {
					return "errB"
				}
				sgPanic("s.err read outside `case KindError` (line %d)", line(v.Pos()))
			case "value.A":
				if e.valBound != "" {
					return e.valBound + ".1"
				}
				sgPanic("s.value read outside `if s.hasValue` (line %d)", line(v.Pos()))
			case "value.B":
				if e.valBound != "" {
					return e.valBound + ".2"
				}
				sgPanic("s.value read outside `if s.hasValue` (line %d)", line(v.Pos()))
			case "last.A":
				return "(s.values.getD 0 " + sgZeroPair + ").1"
			case "last.B":
				return "(s.values.getD 0 " + sgZeroPair + ").2"
			}
			sgPanic("field s.%s in expression position (line %d)", strings.Join(path, "."), line(v.Pos()))
		}
		// v.A / v.B of the range variable, s.values[0].B
		if id, ok := v.X.(*ast.Ident); ok && e.rangeVar != "" && id.Name == e.rangeVar {
			switch v.Sel.Name {
			case "A":
				return id.Name + ".1"
			case "B":
				return id.Name + ".2"
			}
		}
		if ix, ok := v.X.(*ast.IndexExpr); ok {
			if path, ok := e.recvPath(ix.X); ok && len(path) == 1 && path[0] == "values" {
				if lit, ok := ix.Index.(*ast.BasicLit); ok && lit.Kind == token.INT {
					switch v.Sel.Name {
					case "A":
						return "(s.values.getD " + lit.Value + " " + sgZeroPair + ").1"
					case "B":
						return "(s.values.getD " + lit.Value + " " + sgZeroPair + ").2"
					}
				}
			}
		}
		sgPanic("selector expression at line %d", line(v.Pos()))
	}
	sgPanic("expression %s", sgSrc(x))
	return ""
}

// lo.T2(a, b)
func (e *sgEnv) pair(x ast.Expr) (string, string, bool) {
	c, ok := x.(*ast.CallExpr)
	if !ok || len(c.Args) != 2 {
		return "", "", false
	}
	se, ok := c.Fun.(*ast.SelectorExpr)
	if !ok || se.Sel.Name != "T2" {
		return "", "", false
	}
	if id, ok := se.X.(*ast.Ident); !ok || id.Name != "lo" {
		return "", "", false
	}
	return e.expr(c.Args[0]), e.expr(c.Args[1]), true
}

// NewNotificationNext(x) / NewNotificationError[T](err) / NewNotificationComplete[T]()
func (e *sgEnv) notif(ctx string, x ast.Expr) string {
	c, ok := x.(*ast.CallExpr)
	if !ok {
		sgPanic("dropped notification is not a constructor call (line %d)", line(x.Pos()))
	}
	fn := c.Fun
	if ix, ok := fn.(*ast.IndexExpr); ok {
		fn = ix.X
	}
	id, ok := fn.(*ast.Ident)
	if !ok {
		sgPanic("dropped notification is not a constructor call (line %d)", line(x.Pos()))
	}
	switch {
	case id.Name == "NewNotificationNext" && len(c.Args) == 1:
		return fmt.Sprintf("(.next %s %s)", ctx, e.expr(c.Args[0]))
	case id.Name == "NewNotificationError" && len(c.Args) == 1:
		return fmt.Sprintf("(.error %s %s)", ctx, e.expr(c.Args[0]))
	case id.Name == "NewNotificationComplete" && len(c.Args) == 0:
		return fmt.Sprintf("(.complete %s)", ctx)
	}
	sgPanic("notification constructor %s (line %d)", id.Name, line(x.Pos()))
	return ""
}

func (e *sgEnv) tdName() string { return e.kind + "_td" }

// delivery to a subscriber: returns the Lean transformer with placeholder «S» for the state
func (e *sgEnv) deliver(target string, method string, args []ast.Expr, pos token.Pos) string {
	switch method {
	case "NextWithContext":
		if len(args) == 2 {
			return fmt.Sprintf("subNext «S» %s %s %s", target, e.expr(args[0]), e.expr(args[1]))
		}
	case "ErrorWithContext":
		if len(args) == 2 {
			return fmt.Sprintf("subTerminal %s «S» %s (.error %s %s)", e.tdName(), target, e.expr(args[0]), e.expr(args[1]))
		}
	case "CompleteWithContext":
		if len(args) == 1 {
			return fmt.Sprintf("subTerminal %s «S» %s (.complete %s)", e.tdName(), target, e.expr(args[0]))
		}
	}
	sgPanic("call %s with %d arguments on a subscriber (line %d)", method, len(args), line(pos))
	return ""
}

func (e *sgEnv) isMu(x ast.Expr, name string) bool {
	c, ok := x.(*ast.CallExpr)
	if !ok || len(c.Args) != 0 {
		return false
	}
	se, ok := c.Fun.(*ast.SelectorExpr)
	if !ok || se.Sel.Name != name {
		return false
	}
	path, ok := e.recvPath(se.X)
	return ok && len(path) == 1 && path[0] == "mu"
}

// the teardown closure handed to subscription.Add
func (e *sgEnv) teardown(fl *ast.FuncLit) {
	body := fl.Body.List
	mode := ""
	switch {
	case len(body) == 1:
		// s.observers.Delete(index)
		if es, ok := body[0].(*ast.ExprStmt); ok {
			if c, ok := es.X.(*ast.CallExpr); ok && len(c.Args) == 1 {
				if se, ok := c.Fun.(*ast.SelectorExpr); ok && se.Sel.Name == "Delete" {
					if path, ok := e.recvPath(se.X); ok && len(path) == 1 && path[0] == "observers" {
						if id, ok := c.Args[0].(*ast.Ident); ok && id.Name == e.indexVar && e.indexVar != "" {
							mode = ".delete"
						}
					}
				}
			}
		}
	case len(body) == 3:
		// s.mu.Lock(); s.observer = nil; s.mu.Unlock()
		l, ok1 := body[0].(*ast.ExprStmt)
		a, ok2 := body[1].(*ast.AssignStmt)
		u, ok3 := body[2].(*ast.ExprStmt)
		if ok1 && ok2 && ok3 && e.isMu(l.X, "Lock") && e.isMu(u.X, "Unlock") && len(a.Lhs) == 1 && len(a.Rhs) == 1 && a.Tok == token.ASSIGN {
			if path, ok := e.recvPath(a.Lhs[0]); ok && len(path) == 1 && path[0] == "observer" {
				if id, ok := a.Rhs[0].(*ast.Ident); ok && id.Name == "nil" {
					mode = ".clear"
				}
			}
		}
	}
	if mode == "" {
		sgPanic("teardown closure at line %d is neither `s.observers.Delete(index)` nor `s.mu.Lock(); s.observer = nil; s.mu.Unlock()`", line(fl.Pos()))
	}
	if *e.td != "" && *e.td != mode {
		sgPanic("two different teardown closures")
	}
	*e.td = mode
}

type sgOut struct {
	sb  strings.Builder
	ind int
}

func (o *sgOut) line(s string) { o.sb.WriteString(strings.Repeat("  ", o.ind) + s + "\n") }

func (e *sgEnv) let(o *sgOut, tr string) { o.line("let s := " + strings.ReplaceAll(tr, "«S»", "s")) }

func (e *sgEnv) finish(o *sgOut) {
	if e.pendErr != nil {
		sgPanic("s.err is written without `s.status = KindError` on the same path")
	}
	if e.pendHas {
		sgPanic("s.hasValue is set without s.value on the same path")
	}
	for i := len(e.defers) - 1; i >= 0; i-- {
		e.let(o, e.defers[i])
	}
	o.line("s")
}

func endsInReturn(l []ast.Stmt) bool {
	if len(l) == 0 {
		return false
	}
	_, ok := l[len(l)-1].(*ast.ReturnStmt)
	return ok
}

func concatStmts(a, b []ast.Stmt) []ast.Stmt {
	out := make([]ast.Stmt, 0, len(a)+len(b))
	out = append(out, a...)
	return append(out, b...)
}

func isIdent(x ast.Expr, name string) bool {
	id, ok := x.(*ast.Ident)
	return ok && id.Name == name
}

// statements of a state-transforming method
func (e *sgEnv) stmts(o *sgOut, l []ast.Stmt) {
	if len(l) == 0 {
		e.finish(o)
		return
	}
	st, rest := l[0], l[1:]
	switch v := st.(type) {
	case *ast.EmptyStmt:
		e.stmts(o, rest)
		return
	case *ast.ReturnStmt:
		// `return` / `return subscription`
		if len(v.Results) > 1 || (len(v.Results) == 1 && !isIdent(v.Results[0], e.sub)) {
			sgPanic("return of something else than the subscription (line %d)", line(v.Pos()))
		}
		e.finish(o)
		return
	case *ast.DeferStmt:
		if e.isMu(v.Call, "Unlock") {
			e.stmts(o, rest)
			return
		}
		if se, ok := v.Call.Fun.(*ast.SelectorExpr); ok {
			if id, ok := se.X.(*ast.Ident); ok {
				if t, ok := e.binds[id.Name]; ok && strings.HasPrefix(t, "obs:") {
					e.defers = append(e.defers, e.deliver(strings.TrimPrefix(t, "obs:"), se.Sel.Name, v.Call.Args, v.Pos()))
					e.stmts(o, rest)
					return
				}
			}
		}
		sgPanic("defer at line %d is neither `s.mu.Unlock()` nor a delivery to the captured observer", line(v.Pos()))
	case *ast.ExprStmt:
		c, ok := v.X.(*ast.CallExpr)
		if !ok {
			sgPanic("expression statement at line %d", line(v.Pos()))
		}
		if e.isMu(c, "Lock") || e.isMu(c, "Unlock") {
			e.stmts(o, rest)
			return
		}
		if id, ok := c.Fun.(*ast.Ident); ok && id.Name == "OnDroppedNotification" && len(c.Args) == 2 {
			e.let(o, "«S».drop "+e.notif(e.expr(c.Args[0]), c.Args[1]))
			e.stmts(o, rest)
			return
		}
		se, ok := c.Fun.(*ast.SelectorExpr)
		if !ok {
			sgPanic("call at line %d", line(v.Pos()))
		}
		// methods of the receiver
		if id, ok := se.X.(*ast.Ident); ok && id.Name == e.recv {
			switch se.Sel.Name {
			case "broadcastNext":
				if len(c.Args) == 2 {
					e.let(o, fmt.Sprintf("%s_broadcastNext «S» %s %s", e.kind, e.expr(c.Args[0]), e.expr(c.Args[1])))
					e.stmts(o, rest)
					return
				}
			case "broadcastError":
				if len(c.Args) == 2 {
					e.let(o, fmt.Sprintf("%s_broadcastError «S» %s %s", e.kind, e.expr(c.Args[0]), e.expr(c.Args[1])))
					e.stmts(o, rest)
					return
				}
			case "broadcastComplete":
				if len(c.Args) == 1 {
					e.let(o, fmt.Sprintf("%s_broadcastComplete «S» %s", e.kind, e.expr(c.Args[0])))
					e.stmts(o, rest)
					return
				}
			case "unsubscribeAll":
				if len(c.Args) == 0 {
					e.let(o, fmt.Sprintf("%s_unsubscribeAll «S»", e.kind))
					e.stmts(o, rest)
					return
				}
			}
			sgPanic("call of s.%s at line %d", se.Sel.Name, line(v.Pos()))
		}
		// s.observers.Store(index, subscription)
		if path, ok := e.recvPath(se.X); ok && len(path) == 1 && path[0] == "observers" && se.Sel.Name == "Store" && len(c.Args) == 2 {
			if isIdent(c.Args[0], e.indexVar) && e.indexVar != "" && isIdent(c.Args[1], e.sub) {
				e.let(o, "{ «S» with observers := «S».observers ++ [i] }")
				e.stmts(o, rest)
				return
			}
			sgPanic("s.observers.Store at line %d does not store the subscription under the fresh index", line(v.Pos()))
		}
		// methods of the subscriber
		if id, ok := se.X.(*ast.Ident); ok && id.Name == e.sub && e.sub != "" {
			if se.Sel.Name == "Add" && len(c.Args) == 1 {
				if fl, ok := c.Args[0].(*ast.FuncLit); ok {
					e.teardown(fl)
					e.let(o, "«S».modSub i (fun x => { x with td := true })")
					e.stmts(o, rest)
					return
				}
			}
			e.let(o, e.deliver("i", se.Sel.Name, c.Args, v.Pos()))
			e.stmts(o, rest)
			return
		}
		sgPanic("call at line %d", line(v.Pos()))
	case *ast.AssignStmt:
		if len(v.Lhs) != 1 || len(v.Rhs) != 1 {
			sgPanic("assignment at line %d", line(v.Pos()))
		}
		lhs, rhs := v.Lhs[0], v.Rhs[0]
		if v.Tok == token.DEFINE {
			id, ok := lhs.(*ast.Ident)
			if !ok {
				sgPanic("definition at line %d", line(v.Pos()))
			}
			// subscription := NewSubscriber(destination)
			if c, ok := rhs.(*ast.CallExpr); ok {
				if isIdent(c.Fun, "NewSubscriber") && len(c.Args) == 1 && isIdent(c.Args[0], "destination") && e.sub == "" {
					e.sub = id.Name
					e.let(o, "fresh «S» i")
					e.stmts(o, rest)
					return
				}
			}
			// index := atomic.AddUint32(&s.observerIndex, 1) - 1
			if be, ok := rhs.(*ast.BinaryExpr); ok && be.Op == token.SUB {
				if c, ok := be.X.(*ast.CallExpr); ok && len(c.Args) == 2 {
					if se, ok := c.Fun.(*ast.SelectorExpr); ok && isIdent(se.X, "atomic") && se.Sel.Name == "AddUint32" {
						if u, ok := c.Args[0].(*ast.UnaryExpr); ok && u.Op == token.AND {
							if path, ok := e.recvPath(u.X); ok && len(path) == 1 && path[0] == "observerIndex" {
								if l1, ok := c.Args[1].(*ast.BasicLit); ok && l1.Value == "1" {
									if l2, ok := be.Y.(*ast.BasicLit); ok && l2.Value == "1" && e.indexVar == "" {
										e.indexVar = id.Name
										e.stmts(o, rest)
										return
									}
								}
							}
						}
					}
				}
			}
			// tmp := s.observer
			if path, ok := e.recvPath(rhs); ok && len(path) == 1 && path[0] == "observer" {
				if e.obsBound == "" || e.obsNil {
					sgPanic("s.observer captured where it is not known to be non-nil (line %d)", line(v.Pos()))
				}
				e.binds[id.Name] = "obs:" + e.obsBound
				e.stmts(o, rest)
				return
			}
			sgPanic("definition of %s at line %d", id.Name, line(v.Pos()))
		}
		if v.Tok != token.ASSIGN {
			sgPanic("assignment operator at line %d", line(v.Pos()))
		}
		path, ok := e.recvPath(lhs)
		if !ok || len(path) != 1 {
			sgPanic("assignment to something else than a field of the subject (line %d)", line(v.Pos()))
		}
		switch path[0] {
		case "err":
			a, b, ok := e.pair(rhs)
			if !ok || e.pendErr != nil {
				sgPanic("s.err = … at line %d", line(v.Pos()))
			}
			e.pendErr = &[2]string{a, b}
			e.stmts(o, rest)
			return
		case "status":
			switch {
			case isIdent(rhs, "KindError"):
				if e.pendErr == nil {
					sgPanic("s.status = KindError without s.err (line %d)", line(v.Pos()))
				}
				e.let(o, fmt.Sprintf("{ «S» with status := .errored %s %s }", e.pendErr[0], e.pendErr[1]))
				e.pendErr = nil
				e.stmts(o, rest)
				return
			case isIdent(rhs, "KindComplete"):
				e.let(o, "{ «S» with status := .completed }")
				e.stmts(o, rest)
				return
			}
			sgPanic("s.status = … at line %d", line(v.Pos()))
		case "last":
			a, b, ok := e.pair(rhs)
			if !ok {
				sgPanic("s.last = … at line %d", line(v.Pos()))
			}
			e.let(o, fmt.Sprintf("{ «S» with values := [(%s, %s)] }", a, b))
			e.stmts(o, rest)
			return
		case "hasValue":
			if !isIdent(rhs, "true") || e.pendHas {
				sgPanic("s.hasValue = … at line %d", line(v.Pos()))
			}
			e.pendHas = true
			e.stmts(o, rest)
			return
		case "value":
			a, b, ok := e.pair(rhs)
			if !ok || !e.pendHas {
				sgPanic("s.value = … at line %d (without s.hasValue = true before it)", line(v.Pos()))
			}
			e.pendHas = false
			e.valBound = ""
			e.let(o, fmt.Sprintf("{ «S» with values := [(%s, %s)] }", a, b))
			e.stmts(o, rest)
			return
		case "observer":
			switch {
			case isIdent(rhs, "nil"):
				e.obsNil = true
				e.let(o, "{ «S» with observers := [] }")
				e.stmts(o, rest)
				return
			case isIdent(rhs, e.sub) && e.sub != "":
				e.let(o, "{ «S» with observers := [i] }")
				e.stmts(o, rest)
				return
			}
			sgPanic("s.observer = … at line %d", line(v.Pos()))
		case "values":
			// append(s.values, lo.T2(a, b))
			if c, ok := rhs.(*ast.CallExpr); ok && isIdent(c.Fun, "append") && len(c.Args) == 2 {
				if p, ok := e.recvPath(c.Args[0]); ok && len(p) == 1 && p[0] == "values" {
					if a, b, ok := e.pair(c.Args[1]); ok {
						e.let(o, fmt.Sprintf("{ «S» with values := «S».values ++ [(%s, %s)] }", a, b))
						e.stmts(o, rest)
						return
					}
				}
			}
			// s.values[len(s.values)-s.bufferSize:]
			if sl, ok := rhs.(*ast.SliceExpr); ok && sl.High == nil && sl.Max == nil && sl.Low != nil {
				if p, ok := e.recvPath(sl.X); ok && len(p) == 1 && p[0] == "values" {
					if be, ok := sl.Low.(*ast.BinaryExpr); ok && be.Op == token.SUB && e.isLenValues(be.X) && e.isBufferSize(be.Y) {
						if e.capBound == "" {
							sgPanic("s.bufferSize used where it is not known to be limited (line %d)", line(v.Pos()))
						}
						e.let(o, fmt.Sprintf("{ «S» with values := «S».values.drop («S».values.length - %s) }", e.capBound))
						e.stmts(o, rest)
						return
					}
				}
			}
			// []lo.Tuple2[context.Context, T]{}
			if cl, ok := rhs.(*ast.CompositeLit); ok && len(cl.Elts) == 0 {
				if _, ok := cl.Type.(*ast.ArrayType); ok {
					e.let(o, "{ «S» with values := [] }")
					e.stmts(o, rest)
					return
				}
			}
			sgPanic("s.values = … at line %d", line(v.Pos()))
		}
		sgPanic("assignment to s.%s at line %d", path[0], line(v.Pos()))
	case *ast.RangeStmt:
		// for _, v := range s.values { subscription.NextWithContext(v.A, v.B) }
		if p, ok := e.recvPath(v.X); ok && len(p) == 1 && p[0] == "values" && isIdent(v.Key, "_") && v.Tok == token.DEFINE && len(v.Body.List) == 1 {
			if vid, ok := v.Value.(*ast.Ident); ok {
				if es, ok := v.Body.List[0].(*ast.ExprStmt); ok {
					if c, ok := es.X.(*ast.CallExpr); ok {
						if se, ok := c.Fun.(*ast.SelectorExpr); ok && isIdent(se.X, e.sub) && e.sub != "" && se.Sel.Name == "NextWithContext" {
							e2 := e.clone()
							e2.rangeVar = vid.Name
							tr := e2.deliver("i", se.Sel.Name, c.Args, v.Pos())
							e.let(o, fmt.Sprintf("«S».values.foldl (fun s %s => %s) «S»", vid.Name, strings.ReplaceAll(tr, "«S»", "s")))
							e.stmts(o, rest)
							return
						}
					}
				}
			}
		}
		sgPanic("loop at line %d", line(v.Pos()))
	case *ast.IfStmt:
		if v.Init != nil {
			sgPanic("if with an init statement at line %d", line(v.Pos()))
		}
		var els []ast.Stmt
		if v.Else != nil {
			b, ok := v.Else.(*ast.BlockStmt)
			if !ok {
				sgPanic("else-if at line %d", line(v.Pos()))
			}
			els = b.List
		}
		thn := v.Body.List
		contT := thn
		if !endsInReturn(thn) {
			contT = concatStmts(thn, rest)
		}
		contE := els
		if !endsInReturn(els) {
			contE = concatStmts(els, rest)
		}
		e.cond(o, v.Cond, contT, contE)
		return
	case *ast.SwitchStmt:
		if v.Init != nil || v.Tag == nil {
			sgPanic("switch at line %d", line(v.Pos()))
		}
		if p, ok := e.recvPath(v.Tag); !ok || len(p) != 1 || p[0] != "status" {
			sgPanic("switch on something else than s.status (line %d)", line(v.Pos()))
		}
		arms := map[string][]ast.Stmt{}
		for _, cc := range v.Body.List {
			c := cc.(*ast.CaseClause)
			if len(c.List) != 1 {
				sgPanic("case clause at line %d", line(c.Pos()))
			}
			id, ok := c.List[0].(*ast.Ident)
			if !ok || (id.Name != "KindNext" && id.Name != "KindError" && id.Name != "KindComplete") {
				sgPanic("case clause at line %d", line(c.Pos()))
			}
			if _, dup := arms[id.Name]; dup {
				sgPanic("duplicate case at line %d", line(c.Pos()))
			}
			body := c.Body
			if !endsInReturn(body) {
				body = concatStmts(body, rest)
			}
			arms[id.Name] = body
		}
		o.line("match s.status with")
		for _, k := range []string{"KindError", "KindComplete", "KindNext"} {
			body, ok := arms[k]
			if !ok {
				body = rest
			}
			e2 := e.clone()
			switch k {
			case "KindError":
				o.line("| .errored errA errB =>")
				e2.errBound = true
			case "KindComplete":
				o.line("| .completed =>")
			case "KindNext":
				o.line("| .active =>")
			}
			o.ind++
			e2.stmts(o, body)
			o.ind--
		}
		return
	}
	sgPanic("statement %s", sgSrc(st))
}

func (e *sgEnv) isLenValues(x ast.Expr) bool {
	c, ok := x.(*ast.CallExpr)
	if !ok || !isIdent(c.Fun, "len") || len(c.Args) != 1 {
		return false
	}
	p, ok := e.recvPath(c.Args[0])
	return ok && len(p) == 1 && p[0] == "values"
}

func (e *sgEnv) isBufferSize(x ast.Expr) bool {
	p, ok := e.recvPath(x)
	return ok && len(p) == 1 && p[0] == "bufferSize"
}

// a condition with its two continuations
func (e *sgEnv) cond(o *sgOut, c ast.Expr, thn, els []ast.Stmt) {
	branch := func(head string, env *sgEnv, body []ast.Stmt) {
		o.line(head)
		o.ind++
		env.stmts(o, body)
		o.ind--
	}
	if be, ok := c.(*ast.BinaryExpr); ok {
		// s.status == KindNext
		if p, ok := e.recvPath(be.X); ok && len(p) == 1 && p[0] == "status" && be.Op == token.EQL && isIdent(be.Y, "KindNext") {
			o.line("match s.status with")
			branch("| .active =>", e.clone(), thn)
			branch("| _ =>", e.clone(), els)
			return
		}
		// s.observer != nil
		if p, ok := e.recvPath(be.X); ok && len(p) == 1 && p[0] == "observer" && be.Op == token.NEQ && isIdent(be.Y, "nil") {
			if e.obsBound != "" || e.obsNil {
				sgPanic("nested test of s.observer (line %d)", line(c.Pos()))
			}
			o.line("match s.observers with")
			e1 := e.clone()
			e1.obsBound = "o"
			branch("| o :: _ =>", e1, thn)
			e2 := e.clone()
			e2.obsNil = true
			branch("| [] =>", e2, els)
			return
		}
		// s.bufferSize != <Kind>UnlimitedBufferSize && len(s.values) > s.bufferSize
		if be.Op == token.LAND {
			l, ok1 := be.X.(*ast.BinaryExpr)
			r, ok2 := be.Y.(*ast.BinaryExpr)
			if ok1 && ok2 && l.Op == token.NEQ && e.isBufferSize(l.X) && r.Op == token.GTR && e.isLenValues(r.X) && e.isBufferSize(r.Y) {
				if id, ok := l.Y.(*ast.Ident); ok && strings.HasSuffix(id.Name, "UnlimitedBufferSize") && e.capBound == "" {
					o.line("match cap with")
					e1 := e.clone()
					e1.capBound = "n"
					o.line("| some n =>")
					o.ind++
					o.line("if s.values.length > n then")
					o.ind++
					e1.clone().stmts(o, thn)
					o.ind--
					o.line("else")
					o.ind++
					e1.clone().stmts(o, els)
					o.ind -= 2
					branch("| none =>", e.clone(), els)
					return
				}
			}
		}
	}
	// s.hasValue
	if p, ok := e.recvPath(c); ok && len(p) == 1 && p[0] == "hasValue" {
		if e.valBound != "" {
			sgPanic("nested test of s.hasValue (line %d)", line(c.Pos()))
		}
		o.line("match s.values with")
		e1 := e.clone()
		e1.valBound = "p"
		branch("| p :: _ =>", e1, thn)
		branch("| [] =>", e.clone(), els)
		return
	}
	sgPanic("condition at line %d", line(c.Pos()))
}

// ---- helpers: broadcastX / unsubscribeAll bodies -------------------------------------------

// s.observers.Range(func(_, observer any) bool { observer.(Observer[T]).XxxWithContext(args…); return true })
func (e *sgEnv) broadcastBody(fd *ast.FuncDecl) string {
	if len(fd.Body.List) != 1 {
		sgPanic("%s: body is not a single Range call", fd.Name.Name)
	}
	es, ok := fd.Body.List[0].(*ast.ExprStmt)
	if !ok {
		sgPanic("%s: body is not a single Range call", fd.Name.Name)
	}
	c, ok := es.X.(*ast.CallExpr)
	if !ok || len(c.Args) != 1 {
		sgPanic("%s: body is not a single Range call", fd.Name.Name)
	}
	se, ok := c.Fun.(*ast.SelectorExpr)
	if !ok || se.Sel.Name != "Range" {
		sgPanic("%s: body is not a single Range call", fd.Name.Name)
	}
	if p, ok := e.recvPath(se.X); !ok || len(p) != 1 || p[0] != "observers" {
		sgPanic("%s: Range over something else than s.observers", fd.Name.Name)
	}
	fl, ok := c.Args[0].(*ast.FuncLit)
	if !ok || len(fl.Type.Params.List) == 0 {
		sgPanic("%s: Range argument", fd.Name.Name)
	}
	var names []string
	for _, f := range fl.Type.Params.List {
		for _, n := range f.Names {
			names = append(names, n.Name)
		}
	}
	if len(names) != 2 || len(fl.Body.List) != 2 {
		sgPanic("%s: Range callback shape", fd.Name.Name)
	}
	ret, ok := fl.Body.List[1].(*ast.ReturnStmt)
	if !ok || len(ret.Results) != 1 || !isIdent(ret.Results[0], "true") {
		sgPanic("%s: the Range callback does not `return true`", fd.Name.Name)
	}
	call, ok := fl.Body.List[0].(*ast.ExprStmt)
	if !ok {
		sgPanic("%s: Range callback body", fd.Name.Name)
	}
	cc, ok := call.X.(*ast.CallExpr)
	if !ok {
		sgPanic("%s: Range callback body", fd.Name.Name)
	}
	if fd.Name.Name == "unsubscribeAll" {
		// s.observers.Delete(key)
		if ds, ok := cc.Fun.(*ast.SelectorExpr); ok && ds.Sel.Name == "Delete" && len(cc.Args) == 1 && isIdent(cc.Args[0], names[0]) {
			if p, ok := e.recvPath(ds.X); ok && len(p) == 1 && p[0] == "observers" {
				return "s.observers.foldl (fun s " + names[0] + " => { s with observers := s.observers.filter (· != " + names[0] + ") }) s"
			}
		}
		sgPanic("unsubscribeAll: Range callback does not delete its key")
	}
	ms, ok := cc.Fun.(*ast.SelectorExpr)
	if !ok {
		sgPanic("%s: Range callback body", fd.Name.Name)
	}
	ta, ok := ms.X.(*ast.TypeAssertExpr)
	if !ok || !isIdent(ta.X, names[1]) {
		sgPanic("%s: the delivery is not to the ranged observer", fd.Name.Name)
	}
	tr := e.deliver("j", ms.Sel.Name, cc.Args, cc.Pos())
	return "s.observers.foldl (fun s j => " + strings.ReplaceAll(tr, "«S»", "s") + ") s"
}

// ---- queries ---------------------------------------------------------------------------------

func (e *sgEnv) query(fd *ast.FuncDecl) (string, string) {
	body := fd.Body.List
	// strip `s.mu.Lock(); defer s.mu.Unlock()`
	for len(body) > 0 {
		if es, ok := body[0].(*ast.ExprStmt); ok && e.isMu(es.X, "Lock") {
			body = body[1:]
			continue
		}
		if ds, ok := body[0].(*ast.DeferStmt); ok && e.isMu(ds.Call, "Unlock") {
			body = body[1:]
			continue
		}
		break
	}
	statusCmp := func(x ast.Expr) (string, bool) {
		be, ok := x.(*ast.BinaryExpr)
		if !ok {
			return "", false
		}
		p, ok := e.recvPath(be.X)
		if !ok || len(p) != 1 || p[0] != "status" {
			return "", false
		}
		id, ok := be.Y.(*ast.Ident)
		if !ok {
			return "", false
		}
		pat := map[string]string{"KindNext": ".active", "KindError": ".errored _ _", "KindComplete": ".completed"}[id.Name]
		if pat == "" {
			return "", false
		}
		switch be.Op {
		case token.EQL:
			return "match s.status with | " + pat + " => true | _ => false", true
		case token.NEQ:
			return "match s.status with | " + pat + " => false | _ => true", true
		}
		return "", false
	}
	obsNotNil := func(x ast.Expr) bool {
		be, ok := x.(*ast.BinaryExpr)
		if !ok || be.Op != token.NEQ || !isIdent(be.Y, "nil") {
			return false
		}
		p, ok := e.recvPath(be.X)
		return ok && len(p) == 1 && p[0] == "observer"
	}
	if len(body) == 1 {
		if r, ok := body[0].(*ast.ReturnStmt); ok && len(r.Results) == 1 {
			if t, ok := statusCmp(r.Results[0]); ok {
				return "Bool", t
			}
			if obsNotNil(r.Results[0]) {
				return "Bool", "match s.observers with | _ :: _ => true | [] => false"
			}
		}
	}
	// if s.observer != nil { return 1 }; return 0
	if len(body) == 2 {
		if is, ok := body[0].(*ast.IfStmt); ok && is.Else == nil && obsNotNil(is.Cond) && len(is.Body.List) == 1 {
			r1, ok1 := is.Body.List[0].(*ast.ReturnStmt)
			r2, ok2 := body[1].(*ast.ReturnStmt)
			if ok1 && ok2 && len(r1.Results) == 1 && len(r2.Results) == 1 {
				a, oka := r1.Results[0].(*ast.BasicLit)
				b, okb := r2.Results[0].(*ast.BasicLit)
				if oka && okb {
					return "Nat", "match s.observers with | _ :: _ => " + a.Value + " | [] => " + b.Value
				}
			}
		}
	}
	// x := 0 / has := false (or a named result); s.observers.Range(func(..) bool { x++ ; return true } / { has = true; return false }); return x
	var acc string
	var rng *ast.CallExpr
	for _, st := range body {
		switch v := st.(type) {
		case *ast.AssignStmt:
			if len(v.Lhs) == 1 && len(v.Rhs) == 1 {
				if id, ok := v.Lhs[0].(*ast.Ident); ok {
					if l, ok := v.Rhs[0].(*ast.BasicLit); ok && l.Value == "0" {
						acc = id.Name
						continue
					}
					if isIdent(v.Rhs[0], "false") {
						acc = id.Name
						continue
					}
				}
			}
			sgPanic("%s: statement at line %d", fd.Name.Name, line(st.Pos()))
		case *ast.ExprStmt:
			c, ok := v.X.(*ast.CallExpr)
			if ok {
				if se, ok := c.Fun.(*ast.SelectorExpr); ok && se.Sel.Name == "Range" && len(c.Args) == 1 {
					if p, ok := e.recvPath(se.X); ok && len(p) == 1 && p[0] == "observers" {
						rng = c
						continue
					}
				}
			}
			sgPanic("%s: statement at line %d", fd.Name.Name, line(st.Pos()))
		case *ast.ReturnStmt:
			if len(v.Results) == 0 || (len(v.Results) == 1 && isIdent(v.Results[0], acc)) {
				continue
			}
			sgPanic("%s: return at line %d", fd.Name.Name, line(st.Pos()))
		default:
			sgPanic("%s: statement at line %d", fd.Name.Name, line(st.Pos()))
		}
	}
	if rng == nil || acc == "" {
		sgPanic("%s: not a recognised query", fd.Name.Name)
	}
	fl, ok := rng.Args[0].(*ast.FuncLit)
	if !ok || len(fl.Body.List) != 2 {
		sgPanic("%s: Range callback", fd.Name.Name)
	}
	ret, ok := fl.Body.List[1].(*ast.ReturnStmt)
	if !ok || len(ret.Results) != 1 {
		sgPanic("%s: Range callback", fd.Name.Name)
	}
	switch v := fl.Body.List[0].(type) {
	case *ast.IncDecStmt:
		if isIdent(v.X, acc) && v.Tok == token.INC && isIdent(ret.Results[0], "true") {
			return "Nat", "s.observers.length"
		}
	case *ast.AssignStmt:
		if len(v.Lhs) == 1 && isIdent(v.Lhs[0], acc) && len(v.Rhs) == 1 && isIdent(v.Rhs[0], "true") && v.Tok == token.ASSIGN && isIdent(ret.Results[0], "false") {
			return "Bool", "match s.observers with | _ :: _ => true | [] => false"
		}
	}
	sgPanic("%s: Range callback", fd.Name.Name)
	return "", ""
}

// ---- constructor ------------------------------------------------------------------------------

func (e *sgEnv) ctor(fd *ast.FuncDecl) string {
	// return &xSubjectImpl[T]{ field: value, … }
	if len(fd.Body.List) != 1 {
		sgPanic("%s: body is not a single return", fd.Name.Name)
	}
	r, ok := fd.Body.List[0].(*ast.ReturnStmt)
	if !ok || len(r.Results) != 1 {
		sgPanic("%s: body is not a single return", fd.Name.Name)
	}
	u, ok := r.Results[0].(*ast.UnaryExpr)
	if !ok || u.Op != token.AND {
		sgPanic("%s: does not return the address of a literal", fd.Name.Name)
	}
	cl, ok := u.X.(*ast.CompositeLit)
	if !ok {
		sgPanic("%s: does not return the address of a literal", fd.Name.Name)
	}
	values := "[]"
	for _, el := range cl.Elts {
		kv, ok := el.(*ast.KeyValueExpr)
		if !ok {
			sgPanic("%s: positional literal", fd.Name.Name)
		}
		k, _ := kv.Key.(*ast.Ident)
		if k == nil {
			sgPanic("%s: literal key", fd.Name.Name)
		}
		isZeroLit := func(x ast.Expr) bool {
			c, ok := x.(*ast.CompositeLit)
			return ok && len(c.Elts) == 0
		}
		switch k.Name {
		case "mu", "observers":
			if !isZeroLit(kv.Value) {
				sgPanic("%s: %s is not a zero value", fd.Name.Name, k.Name)
			}
		case "err":
			// only read in the `case KindError` arm, i.e. after `s.err = …; s.status = KindError`: the initial value is never observed
		case "status":
			if l, ok := kv.Value.(*ast.BasicLit); ok && l.Value == "0" && sgKindNextIsZero {
				break
			}
			if !isIdent(kv.Value, "KindNext") {
				sgPanic("%s: initial status is not KindNext", fd.Name.Name)
			}
		case "observerIndex":
			if l, ok := kv.Value.(*ast.BasicLit); !ok || l.Value != "0" {
				sgPanic("%s: observerIndex", fd.Name.Name)
			}
		case "observer":
			if !isIdent(kv.Value, "nil") {
				sgPanic("%s: observer", fd.Name.Name)
			}
		case "hasValue":
			if !isIdent(kv.Value, "false") {
				sgPanic("%s: hasValue", fd.Name.Name)
			}
		case "value":
			// only read under `if s.hasValue`, i.e. after `s.hasValue = true; s.value = …`: the initial value is never observed
		case "values":
			if !isZeroLit(kv.Value) {
				sgPanic("%s: values", fd.Name.Name)
			}
		case "bufferSize":
			if !isIdent(kv.Value, "bufferSize") {
				sgPanic("%s: bufferSize", fd.Name.Name)
			}
		case "last":
			a, b, ok := e.pair(kv.Value)
			if !ok {
				sgPanic("%s: last", fd.Name.Name)
			}
			values = fmt.Sprintf("[(%s, %s)]", a, b)
		default:
			sgPanic("%s: field %s", fd.Name.Name, k.Name)
		}
	}
	return "{ values := " + values + " }"
}

// ---- driver -----------------------------------------------------------------------------------

var sgMethodLean = map[string]string{"SubscribeWithContext": "subscribe", "NextWithContext": "next", "ErrorWithContext": "error", "CompleteWithContext": "complete"}
var sgQueries = map[string]string{"HasObserver": "hasObserver", "CountObservers": "countObservers", "IsClosed": "isClosed", "HasThrown": "hasThrown", "IsCompleted": "isCompleted"}
var sgCtors = map[string]string{"publish": "NewPublishSubject", "behavior": "NewBehaviorSubject", "replay": "NewReplaySubject", "async": "NewAsyncSubject", "unicast": "NewUnicastSubject"}

// `KindNext Kind = iota` is the first constant of its block in ro.go (so the literal 0 is KindNext)
var sgKindNextIsZero bool

func sgCheckKindNext(repo string) {
	sgKindNextIsZero = false
	file, err := parser.ParseFile(fset, filepath.Join(repo, "ro.go"), nil, 0)
	if err != nil {
		return
	}
	for _, d := range file.Decls {
		gd, ok := d.(*ast.GenDecl)
		if !ok || gd.Tok != token.CONST || len(gd.Specs) == 0 {
			continue
		}
		vs, ok := gd.Specs[0].(*ast.ValueSpec)
		if ok && len(vs.Names) == 1 && vs.Names[0].Name == "KindNext" && len(vs.Values) == 1 && isIdent(vs.Values[0], "iota") {
			sgKindNextIsZero = true
		}
	}
}

func extractSubjGen(repo, out string) {
	sgCheckKindNext(repo)
	var sb strings.Builder
	sb.WriteString("-- GENERATED by go/extract (subjgen.go) from the repository under check. Do not edit.\n")
	sb.WriteString("-- The subject methods of subject_*.go translated into Lean (sequential reading); see go/extract/subjgen.go for the encoding.\n")
	sb.WriteString("import RoModel.Subjects\nnamespace RoGen.Subj\nopen Ro Ro.Subj\nvariable {α : Type} [Inhabited α]\n\n")
	var skipped [][2]string
	var translated []string
	for _, kind := range []string{"publish", "behavior", "replay", "async", "unicast"} {
		path := filepath.Join(repo, "subject_"+kind+".go")
		file, err := parser.ParseFile(fset, path, nil, 0)
		if err != nil {
			skipped = append(skipped, [2]string{kind, "parse error"})
			continue
		}
		hasCap := kind == "replay" || kind == "unicast"
		capParam := ""
		if hasCap {
			capParam = " (cap : Option Nat)"
		}
		td := ""
		byName := map[string]*ast.FuncDecl{}
		for _, d := range file.Decls {
			if fd, ok := d.(*ast.FuncDecl); ok && fd.Body != nil {
				byName[fd.Name.Name] = fd
			}
		}
		recvOf := func(fd *ast.FuncDecl) string {
			if fd.Recv != nil && len(fd.Recv.List) == 1 && len(fd.Recv.List[0].Names) == 1 {
				return fd.Recv.List[0].Names[0].Name
			}
			return "_"
		}
		attempt := func(name string, f func() string) {
			defer func() {
				if r := recover(); r != nil {
					if sf, ok := r.(sgFail); ok {
						skipped = append(skipped, [2]string{kind + "_" + name, sf.why})
						return
					}
					panic(r)
				}
			}()
			txt := f()
			sb.WriteString("-- @def " + kind + "_" + name + "\n" + txt + "\n")
			translated = append(translated, kind+"_"+name)
		}
		paramNames := func(fd *ast.FuncDecl) []string {
			var ns []string
			for _, f := range fd.Type.Params.List {
				for _, n := range f.Names {
					ns = append(ns, n.Name)
				}
			}
			return ns
		}
		// pass 1: SubscribeWithContext decides `<kind>_td`, which the other definitions mention
		if fd := byName["SubscribeWithContext"]; fd != nil {
			func() {
				defer func() { recover() }()
				e := &sgEnv{kind: kind, recv: recvOf(fd), binds: map[string]string{}, td: &td}
				for _, p := range paramNames(fd) {
					e.binds[p] = p
				}
				e.stmts(&sgOut{}, fd.Body.List)
			}()
		}
		if td == "" {
			skipped = append(skipped, [2]string{kind + "_td", "no teardown closure recognised in SubscribeWithContext"})
			td = ".delete"
		} else {
			translated = append(translated, kind+"_td")
		}
		sb.WriteString(fmt.Sprintf("-- @def %s_td\n/-- what the teardown registered by subject_%s.go SubscribeWithContext does -/\ndef %s_td : TD := %s\n\n", kind, kind, kind, td))
		// helpers (the methods refer to them)
		for _, h := range []string{"broadcastNext", "broadcastError", "broadcastComplete", "unsubscribeAll"} {
			fd := byName[h]
			if fd == nil {
				continue // unicast has none; a method that calls a missing helper fails to build
			}
			attempt(h, func() string {
				e := &sgEnv{kind: kind, recv: recvOf(fd), binds: map[string]string{}, td: &td}
				ps := paramNames(fd)
				sig := ""
				want := map[string][]string{"broadcastNext": {"Ctx", "α"}, "broadcastError": {"Ctx", "Err"}, "broadcastComplete": {"Ctx"}, "unsubscribeAll": {}}[h]
				if len(ps) != len(want) {
					sgPanic("%s: %d parameters", h, len(ps))
				}
				for i, p := range ps {
					e.binds[p] = p
					sig += fmt.Sprintf(" (%s : %s)", p, want[i])
				}
				return fmt.Sprintf("/-- subject_%s.go:%d -/\ndef %s_%s (s : State α)%s : State α :=\n  %s\n", kind, line(fd.Pos()), kind, h, sig, e.broadcastBody(fd))
			})
		}
		// the four operations
		for _, m := range []string{"SubscribeWithContext", "NextWithContext", "ErrorWithContext", "CompleteWithContext"} {
			fd := byName[m]
			lname := sgMethodLean[m]
			if fd == nil {
				skipped = append(skipped, [2]string{kind + "_" + lname, "method " + m + " not found"})
				continue
			}
			attempt(lname, func() string {
				e := &sgEnv{kind: kind, recv: recvOf(fd), binds: map[string]string{}, td: &td}
				ps := paramNames(fd)
				want := map[string][]string{"SubscribeWithContext": {"Ctx", ""}, "NextWithContext": {"Ctx", "α"}, "ErrorWithContext": {"Ctx", "Err"}, "CompleteWithContext": {"Ctx"}}[m]
				if len(ps) != len(want) {
					sgPanic("%s: %d parameters", m, len(ps))
				}
				sig := ""
				if m == "SubscribeWithContext" {
					if ps[1] != "destination" {
						sgPanic("%s: second parameter is not `destination`", m)
					}
					sig = fmt.Sprintf(" (i : Nat) (%s : Ctx)", ps[0])
					e.binds[ps[0]] = ps[0]
				} else {
					for i, p := range ps {
						e.binds[p] = p
						sig += fmt.Sprintf(" (%s : %s)", p, want[i])
					}
				}
				o := &sgOut{ind: 1}
				e.stmts(o, fd.Body.List)
				return fmt.Sprintf("/-- subject_%s.go:%d -/\ndef %s_%s%s (s : State α)%s : State α :=\n%s", kind, line(fd.Pos()), kind, lname, capParam, sig, o.sb.String())
			})
		}
		// constructor
		if fd := byName[sgCtors[kind]]; fd != nil {
			attempt("init", func() string {
				e := &sgEnv{kind: kind, recv: "_", binds: map[string]string{}, td: &td}
				sig := ""
				for _, p := range paramNames(fd) {
					switch p {
					case "initial":
						e.binds[p] = p
						sig += " (initial : α)"
					case "bufferSize":
					default:
						sgPanic("%s: parameter %s", fd.Name.Name, p)
					}
				}
				return fmt.Sprintf("/-- subject_%s.go:%d -/\ndef %s_init%s : State α :=\n  %s\n", kind, line(fd.Pos()), kind, sig, e.ctor(fd))
			})
		} else {
			skipped = append(skipped, [2]string{kind + "_init", "constructor not found"})
		}
		// queries
		for _, q := range []string{"HasObserver", "CountObservers", "IsClosed", "HasThrown", "IsCompleted"} {
			fd := byName[q]
			if fd == nil {
				skipped = append(skipped, [2]string{kind + "_" + sgQueries[q], "method not found"})
				continue
			}
			attempt(sgQueries[q], func() string {
				e := &sgEnv{kind: kind, recv: recvOf(fd), binds: map[string]string{}, td: &td}
				ty, body := e.query(fd)
				return fmt.Sprintf("/-- subject_%s.go:%d -/\ndef %s_%s (s : State α) : %s :=\n  %s\n", kind, line(fd.Pos()), kind, sgQueries[q], ty, body)
			})
		}
	}
	sb.WriteString("-- @end\n\n/-- definitions translated on this run -/\ndef translated : List String := [\n")
	for i, t := range translated {
		sep := ","
		if i+1 == len(translated) {
			sep = ""
		}
		sb.WriteString("  " + leanStr(t) + sep + "\n")
	}
	sb.WriteString("]\n\n/-- methods the translator could not read, with the first reason found -/\ndef skipped : List (String × String) := [\n")
	for i, t := range skipped {
		sep := ","
		if i+1 == len(skipped) {
			sep = ""
		}
		sb.WriteString("  (" + leanStr(t[0]) + ", " + leanStr(t[1]) + ")" + sep + "\n")
	}
	sb.WriteString("]\n\nend RoGen.Subj\n")
	if out != "" {
		writeIfChanged(filepath.Join(out, "SubjGen.lean"), sb.String())
	} else {
		fmt.Print(sb.String())
	}
}

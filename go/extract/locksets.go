package main

// locksets.go — the `Locksets` fact table of property C13 (goroutine-safe parts are free of data
// races): one row per access to a shared location of the library, with the lexically computed
// protection of the access and the emission context it runs in.
//
// Shared locations
//   (a) the fields of every struct type with methods declared in the kernel files (subscriberImpl,
//       subscriptionImpl, observerImpl, observableImpl, the five subjects, connectableObservableImpl,
//       the xsync mutexes, xatomic.Pointer);
//   (b) every local variable / parameter of a function in operator_*.go that is captured by a
//       function literal, re-assigned (or otherwise written) after its declaration, and reachable
//       from at least two emission contexts or from one context that can overlap with itself.
//       Captured variables that are never written after their declaration are immutable after
//       construction (a literal that mentions a variable is created after the declaration ran) and
//       are only counted.
//
// Emission contexts (relative to the function D that declares the variable)
//   body            D's own statements (one goroutine per instance of the variable)
//   teardown        the function literal D returns (D returns a Teardown): runs after D, at most once
//   sourceCb s m    observer callbacks handed to the SubscribeWithContext call at line s; m = the site
//                   can be live several times for one instance (loop, enclosing callback, observer
//                   value subscribed at several sites)
//   goBody / timerCb / finalizer   body of a go statement / time.AfterFunc callback / literal given
//                   to Subscription.Add or returned by an inner function
//   subscribeCall   the subscribe function given to New…Observable… (variable declared outside it)
//   method          a method of a shared struct: any goroutine, any number of times
//   ctor            composite literal that builds the struct
//   escaped         the literal goes somewhere this analysis does not follow
// Local closures (`f := func…`) inherit the contexts and the held locks of each of their call sites;
// package-level helpers that receive `&x`, `&mu` or a local closure (zipInnerSubscription) are
// followed with the parameters bound to the caller's variables.
//
// Protection: atomic (sync/atomic call on &x, method of sync.Map / atomic.Value / xatomic.Pointer /
// sync.Once / channel operation), under L (lexically between L.Lock()/successful TryLock and the
// matching Unlock, or after `defer L.Unlock()`), and for plain accesses the structural class of their
// context: initBeforePublication / subscribeBodyBeforeTeardown / sameSequentialSource, else none.
// Anything not recognised is `unknown` (fails the Lean predicate).

import (
	"encoding/json"
	"fmt"
	"go/ast"
	"go/parser"
	"go/token"
	"os"
	"path/filepath"
	"sort"
	"strings"
)

type LsAccess struct {
	FnLine  int // first line of the enclosing top-level function (race reports attribute inlined atomics to it)
	Line    int
	Write   bool
	Fn      string
	Ctx     string
	Site    int
	Multi   bool
	Prot    string
	Locks   []string
	LockIDs []int
	Note    string `json:",omitempty"`
}

type LsLoc struct {
	Name string
	Kind string // field | local
	File string
	Rows []LsAccess
}

type LsCtor struct {
	Type string
	File string
	Line int // first line of the composite literal
	End  int // last line
}

type LsTable struct {
	Ctors             []LsCtor // composite literals of the shared structs (diagnostics: matching race reports)
	Locs              []LsLoc
	LockNames         map[string]int
	ImmutableCaptured int // captured variables never written after their declaration (not listed)
	SingleContext     int // written captured variables reachable from one sequential context only (not listed)
}

// ---------------------------------------------------------------- types by name

func lsTypeName(e ast.Expr) string {
	switch x := e.(type) {
	case *ast.Ident:
		return x.Name
	case *ast.SelectorExpr:
		if id, ok := x.X.(*ast.Ident); ok {
			return id.Name + "." + x.Sel.Name
		}
	case *ast.StarExpr:
		return "*" + lsTypeName(x.X)
	case *ast.IndexExpr:
		return lsTypeName(x.X)
	case *ast.IndexListExpr:
		return lsTypeName(x.X)
	case *ast.ChanType:
		return "chan"
	case *ast.ParenExpr:
		return lsTypeName(x.X)
	}
	return ""
}

func lsIsLockType(n string) bool {
	n = strings.TrimPrefix(n, "*")
	switch n {
	case "sync.Mutex", "sync.RWMutex", "xsync.Mutex", "xsync.MutexWithSpinlock", "xsync.MutexWithLock", "xsync.MutexWithoutLock", "xsync.RWMutex",
		"MutexWithSpinlock", "MutexWithLock", "MutexWithoutLock":
		return true
	}
	return false
}

func lsIsAtomicObjType(n string) bool {
	switch n {
	case "sync.Map", "sync.Once", "sync.WaitGroup", "atomic.Value", "atomic.Int32", "atomic.Int64", "atomic.Uint32", "atomic.Uint64",
		"atomic.Bool", "atomic.Pointer", "xatomic.Pointer":
		return true // (channels: see lsClassify)
	}
	return false
}

// type name of an initialiser expression, "" when not recognised
func lsInitType(e ast.Expr) string {
	switch x := e.(type) {
	case *ast.CompositeLit:
		if x.Type != nil {
			return lsTypeName(x.Type)
		}
	case *ast.UnaryExpr:
		if x.Op == token.AND {
			return "*" + lsInitType(x.X)
		}
	case *ast.CallExpr:
		switch calleeName(x) {
		case "new":
			if len(x.Args) > 0 {
				return "*" + lsTypeName(x.Args[0])
			}
		case "make":
			if len(x.Args) > 0 {
				return lsTypeName(x.Args[0])
			}
		case "NewMutexWithSpinlock":
			return "xsync.MutexWithSpinlock"
		case "NewMutexWithLock":
			return "xsync.MutexWithLock"
		case "NewMutexWithoutLock":
			return "xsync.MutexWithoutLock"
		}
	}
	return ""
}

func lsObjType(o *ast.Object) string {
	if o == nil {
		return ""
	}
	switch d := o.Decl.(type) {
	case *ast.ValueSpec:
		if d.Type != nil {
			return lsTypeName(d.Type)
		}
		for i, n := range d.Names {
			if n.Obj == o && i < len(d.Values) {
				return lsInitType(d.Values[i])
			}
		}
	case *ast.AssignStmt:
		if len(d.Lhs) == len(d.Rhs) {
			for i, l := range d.Lhs {
				if id, ok := l.(*ast.Ident); ok && id.Obj == o {
					return lsInitType(d.Rhs[i])
				}
			}
		}
	case *ast.Field:
		return lsTypeName(d.Type)
	}
	return ""
}

// ---------------------------------------------------------------- lexical lock regions

type lockState map[string]bool

func (s lockState) clone() lockState {
	o := lockState{}
	for k := range s {
		o[k] = true
	}
	return o
}

func lsIntersect(a, b lockState) lockState {
	o := lockState{}
	for k := range a {
		if b[k] {
			o[k] = true
		}
	}
	return o
}

type lockWalker struct {
	held    map[ast.Node]lockState // state at every node (inside its own innermost function)
	created map[*ast.FuncLit]lockState
	lockKey func(e ast.Expr) string // "" when e is not a recognised lock expression
}

// is `c` the call X.<name>() on a lock; returns the lock key
func (w *lockWalker) lockCall(e ast.Expr, names ...string) string {
	c, ok := e.(*ast.CallExpr)
	if !ok || len(c.Args) != 0 {
		return ""
	}
	s, ok := c.Fun.(*ast.SelectorExpr)
	if !ok {
		return ""
	}
	for _, n := range names {
		if s.Sel.Name == n {
			return w.lockKey(s.X)
		}
	}
	return ""
}

func (w *lockWalker) record(n ast.Node, held lockState) {
	if n == nil {
		return
	}
	snap := held.clone()
	ast.Inspect(n, func(m ast.Node) bool {
		if m == nil {
			return false
		}
		if fl, ok := m.(*ast.FuncLit); ok {
			w.held[fl] = snap
			w.created[fl] = snap
			w.stmts(fl.Body.List, lockState{})
			return false
		}
		w.held[m] = snap
		return true
	})
}

func (w *lockWalker) stmts(list []ast.Stmt, held lockState) (lockState, bool) {
	cur := held.clone()
	for _, s := range list {
		var term bool
		cur, term = w.stmt(s, cur)
		if term {
			return cur, true
		}
	}
	return cur, false
}

func lsIsPanic(s ast.Stmt) bool {
	if e, ok := s.(*ast.ExprStmt); ok {
		if c, ok := e.X.(*ast.CallExpr); ok {
			if id, ok := c.Fun.(*ast.Ident); ok && id.Name == "panic" {
				return true
			}
		}
	}
	return false
}

func (w *lockWalker) stmt(s ast.Stmt, held lockState) (lockState, bool) {
	switch x := s.(type) {
	case *ast.ExprStmt:
		w.record(x, held)
		if k := w.lockCall(x.X, "Lock", "RLock"); k != "" {
			h := held.clone()
			h[k] = true
			return h, false
		}
		if k := w.lockCall(x.X, "Unlock", "RUnlock"); k != "" {
			h := held.clone()
			delete(h, k)
			return h, false
		}
		return held, lsIsPanic(x)
	case *ast.DeferStmt:
		w.record(x, held) // `defer L.Unlock()` keeps L until the function ends
		return held, false
	case *ast.BlockStmt:
		return w.stmts(x.List, held)
	case *ast.LabeledStmt:
		return w.stmt(x.Stmt, held)
	case *ast.IfStmt:
		if x.Init != nil {
			held, _ = w.stmt(x.Init, held)
		}
		w.record(x.Cond, held)
		thenH, elseH := held, held
		if u, ok := x.Cond.(*ast.UnaryExpr); ok && u.Op == token.NOT {
			if k := w.lockCall(u.X, "TryLock"); k != "" {
				elseH = held.clone()
				elseH[k] = true
			}
		} else if k := w.lockCall(x.Cond, "TryLock"); k != "" {
			thenH = held.clone()
			thenH[k] = true
		}
		w.held[x] = held.clone()
		h1, t1 := w.stmts(x.Body.List, thenH)
		h2, t2 := elseH, false
		if x.Else != nil {
			h2, t2 = w.stmt(x.Else, elseH)
		}
		switch {
		case t1 && t2:
			return held, true
		case t1:
			return h2, false
		case t2:
			return h1, false
		}
		return lsIntersect(h1, h2), false
	case *ast.ForStmt:
		w.held[x] = held.clone()
		if x.Init != nil {
			w.stmt(x.Init, held)
		}
		w.record(x.Cond, held)
		if x.Post != nil {
			w.stmt(x.Post, held)
		}
		w.stmts(x.Body.List, held)
		return held, false
	case *ast.RangeStmt:
		w.held[x] = held.clone()
		w.record(x.Key, held)
		w.record(x.Value, held)
		w.record(x.X, held)
		w.stmts(x.Body.List, held)
		return held, false
	case *ast.SwitchStmt, *ast.TypeSwitchStmt, *ast.SelectStmt:
		w.held[x] = held.clone()
		var body *ast.BlockStmt
		switch y := x.(type) {
		case *ast.SwitchStmt:
			if y.Init != nil {
				held, _ = w.stmt(y.Init, held)
			}
			w.record(y.Tag, held)
			body = y.Body
		case *ast.TypeSwitchStmt:
			if y.Init != nil {
				held, _ = w.stmt(y.Init, held)
			}
			w.stmt(y.Assign, held)
			body = y.Body
		case *ast.SelectStmt:
			body = y.Body
		}
		var outs []lockState
		hasDefault := false
		for _, cl := range body.List {
			var list []ast.Stmt
			switch c := cl.(type) {
			case *ast.CaseClause:
				for _, e := range c.List {
					w.record(e, held)
				}
				if c.List == nil {
					hasDefault = true
				}
				list = c.Body
			case *ast.CommClause:
				if c.Comm != nil {
					w.stmt(c.Comm, held)
				} else {
					hasDefault = true
				}
				list = c.Body
			}
			h, t := w.stmts(list, held)
			if !t {
				outs = append(outs, h)
			}
		}
		if !hasDefault {
			outs = append(outs, held)
		}
		if len(outs) == 0 {
			return held, true
		}
		res := outs[0]
		for _, o := range outs[1:] {
			res = lsIntersect(res, o)
		}
		return res, false
	case *ast.ReturnStmt:
		w.record(x, held)
		return held, true
	case *ast.BranchStmt:
		return held, x.Tok != token.FALLTHROUGH
	case nil:
		return held, false
	default: // assignments, declarations, go, send, inc/dec, empty
		w.record(x, held)
		return held, false
	}
}

// ---------------------------------------------------------------- the package under analysis

type lsPkg struct {
	files   map[string]*ast.File // rel path → file
	helpers map[string]*ast.FuncDecl
	helperF map[string]string // helper name → rel file
	lockIDs map[string]int
}

func (p *lsPkg) lockID(name string) int {
	if id, ok := p.lockIDs[name]; ok {
		return id
	}
	id := len(p.lockIDs) + 1
	p.lockIDs[name] = id
	return id
}

// ---------------------------------------------------------------- access classification

type lsClass struct {
	skip  bool // lock operation, not an access
	write bool
	sync  string // plain | atomic | unknown
	alias *lsAlias
	note  string
}

type lsAlias struct {
	call *ast.CallExpr
	arg  int
}

func lsAtomicFuncWrites(name string) bool { return !strings.HasPrefix(name, "Load") }

func lsIsAtomicPkgCall(c *ast.CallExpr) bool {
	if s, ok := c.Fun.(*ast.SelectorExpr); ok {
		if id, ok := s.X.(*ast.Ident); ok && id.Name == "atomic" {
			return true
		}
	}
	return false
}

// classify the use of a location whose base expression is `base` (an identifier, or recv.field)
// and whose static type name is tname.
func lsClassify(par parents, base ast.Node, tname string, helpers map[string]*ast.FuncDecl) lsClass {
	// a channel variable stands for the open/closed state of its channel: a send must not run
	// concurrently with close (send = read of that state, close = write); receives, len, cap and
	// handing the channel value on do not touch it
	isChan := tname == "chan"
	// climb through the access path
	top := base
	direct := true // `top` is still the location itself (no index / field / deref applied)
	deref := false
	for {
		p := par[top]
		switch x := p.(type) {
		case *ast.ParenExpr:
			top = x
			continue
		case *ast.IndexExpr:
			if x.X == top {
				top, direct = x, false
				continue
			}
		case *ast.SliceExpr:
			if x.X == top {
				top, direct = x, false
				continue
			}
		case *ast.StarExpr:
			top, deref = x, true
			continue
		case *ast.SelectorExpr:
			if x.X == top {
				// method call on the location itself?
				if c, ok := par[x].(*ast.CallExpr); ok && c.Fun == ast.Expr(x) {
					if direct && !deref {
						switch x.Sel.Name {
						case "Lock", "Unlock", "TryLock", "RLock", "RUnlock":
							if lsIsLockType(tname) {
								return lsClass{skip: true}
							}
						}
						if lsIsLockType(tname) {
							return lsClass{skip: true}
						}
						if lsIsAtomicObjType(tname) {
							return lsClass{write: true, sync: "atomic"}
						}
					}
					return lsClass{sync: "plain"} // method call through the value: reads it
				}
				top, direct = x, false
				continue
			}
		}
		break
	}
	p := par[top]
	switch x := p.(type) {
	case *ast.AssignStmt:
		for _, l := range x.Lhs {
			if l == top {
				return lsClass{write: true, sync: "plain"}
			}
		}
	case *ast.IncDecStmt:
		return lsClass{write: true, sync: "plain"}
	case *ast.RangeStmt:
		if x.Key == top || x.Value == top {
			return lsClass{write: true, sync: "plain"}
		}
		if isChan && direct {
			return lsClass{skip: true}
		}
	case *ast.SendStmt:
		if x.Chan == top && isChan && direct {
			return lsClass{sync: "plain", note: "send"}
		}
	case *ast.UnaryExpr:
		if x.Op == token.ARROW && isChan && direct {
			return lsClass{skip: true}
		}
		if x.Op == token.AND {
			up := ast.Node(x)
			for {
				if pe, ok := par[up].(*ast.ParenExpr); ok {
					up = pe
					continue
				}
				break
			}
			if c, ok := par[up].(*ast.CallExpr); ok {
				if lsIsAtomicPkgCall(c) && len(c.Args) > 0 && c.Args[0] == up {
					return lsClass{write: lsAtomicFuncWrites(calleeName(c)), sync: "atomic"}
				}
				if id, ok := c.Fun.(*ast.Ident); ok {
					if _, ok := helpers[id.Name]; ok {
						for i, a := range c.Args {
							if a == up {
								return lsClass{alias: &lsAlias{c, i}, sync: "plain"}
							}
						}
					}
				}
			}
			if lsIsLockType(tname) && direct {
				return lsClass{skip: true}
			}
			return lsClass{write: true, sync: "unknown", note: "address taken"}
		}
	case *ast.CallExpr:
		if id, ok := x.Fun.(*ast.Ident); ok && isChan && direct && id.Name == "close" {
			return lsClass{write: true, sync: "plain", note: "close"}
		}
	}
	if isChan && direct {
		return lsClass{skip: true}
	}
	if deref {
		// *p used as a value
		return lsClass{sync: "plain"}
	}
	return lsClass{sync: "plain"}
}

// ---------------------------------------------------------------- contexts

type lsCtx struct {
	kind  string
	site  int
	multi bool
}

type ctxRes struct {
	ctx   lsCtx
	locks lockState
}

// frame: a function body under analysis; helper frames carry the binding of their parameters
type lsFrame struct {
	root   ast.Node // *ast.FuncDecl
	fd     *ast.FuncDecl
	rel    string
	par    parents
	lw     *lockWalker
	uses   map[*ast.Object][]*ast.Ident
	caller *lsFrame
	call   *ast.CallExpr
	bind   map[*ast.Object]ast.Expr // parameter → argument expression (in the caller)
}

type lsAn struct {
	curObj *ast.Object
	pkg    *lsPkg
	top    *lsFrame
	frames map[*ast.CallExpr]*lsFrame
}

func lsRootObj(e ast.Expr) *ast.Object {
	for {
		switch x := e.(type) {
		case *ast.Ident:
			return x.Obj
		case *ast.ParenExpr:
			e = x.X
		case *ast.UnaryExpr:
			if x.Op != token.AND {
				return nil
			}
			e = x.X
		case *ast.IndexExpr:
			e = x.X
		case *ast.StarExpr:
			e = x.X
		default:
			return nil
		}
	}
}

func (a *lsAn) newFrame(fd *ast.FuncDecl, rel string, caller *lsFrame, call *ast.CallExpr) *lsFrame {
	fr := &lsFrame{root: fd, fd: fd, rel: rel, par: buildParents(fd), uses: map[*ast.Object][]*ast.Ident{}, caller: caller, call: call}
	ast.Inspect(fd, func(n ast.Node) bool {
		if id, ok := n.(*ast.Ident); ok && id.Obj != nil && id.Obj.Kind == ast.Var {
			fr.uses[id.Obj] = append(fr.uses[id.Obj], id)
		}
		return true
	})
	if call != nil {
		fr.bind = map[*ast.Object]ast.Expr{}
		i := 0
		for _, f := range fd.Type.Params.List {
			for _, n := range f.Names {
				if i < len(call.Args) && n.Obj != nil {
					fr.bind[n.Obj] = call.Args[i]
				}
				i++
			}
		}
	}
	fr.lw = &lockWalker{held: map[ast.Node]lockState{}, created: map[*ast.FuncLit]lockState{}}
	fr.lw.lockKey = func(e ast.Expr) string { return a.lockKeyOf(e, fr) }
	fr.lw.stmts(fd.Body.List, lockState{})
	return fr
}

// key of a lock expression: "<name>@<line of declaration>" of the caller-side variable
func (a *lsAn) lockKeyOf(e ast.Expr, fr *lsFrame) string {
	switch x := e.(type) {
	case *ast.ParenExpr:
		return a.lockKeyOf(x.X, fr)
	case *ast.StarExpr:
		return a.lockKeyOf(x.X, fr)
	case *ast.Ident:
		if x.Obj == nil || x.Obj.Kind != ast.Var {
			return ""
		}
		if fr.bind != nil {
			if arg, ok := fr.bind[x.Obj]; ok {
				if o := lsRootObj(arg); o != nil && lsIsLockType(lsObjType(o)) {
					return fmt.Sprintf("%s@%d", o.Name, line(o.Pos()))
				}
				return ""
			}
		}
		if lsIsLockType(lsObjType(x.Obj)) {
			return fmt.Sprintf("%s@%d", x.Obj.Name, line(x.Obj.Pos()))
		}
	}
	return ""
}

func (fr *lsFrame) innermostFunc(n ast.Node) ast.Node {
	for cur := fr.par[n]; cur != nil; cur = fr.par[cur] {
		switch cur.(type) {
		case *ast.FuncLit, *ast.FuncDecl:
			return cur
		}
	}
	return fr.root
}

func (fr *lsFrame) heldAt(n ast.Node) lockState {
	for cur := n; cur != nil; cur = fr.par[cur] {
		if h, ok := fr.lw.held[cur]; ok {
			if _, isLit := cur.(*ast.FuncLit); isLit && cur != n {
				break
			}
			return h
		}
	}
	return lockState{}
}

func lsUnion(a, b lockState) lockState {
	o := a.clone()
	for k := range b {
		o[k] = true
	}
	return o
}

var lsObserverCtors = map[string][]string{
	"NewObserverWithContext": {"next", "error", "complete"}, "NewObserver": {"next", "error", "complete"},
	"OnNextWithContext": {"next"}, "OnNext": {"next"}, "OnErrorWithContext": {"error"}, "OnError": {"error"},
	"OnCompleteWithContext": {"complete"}, "OnComplete": {"complete"},
}

func lsIsSubscriberWrapper(n string) bool {
	switch n {
	case "NewSubscriber", "NewSafeSubscriber", "NewUnsafeSubscriber", "NewEventuallySafeSubscriber":
		return true
	}
	return false
}

func lsIsSubscribeCall(c *ast.CallExpr) bool {
	n := calleeName(c)
	if n != "SubscribeWithContext" && n != "Subscribe" {
		return false
	}
	_, ok := c.Fun.(*ast.SelectorExpr)
	return ok
}

// subscribe sites an observer-valued expression `e` flows to; escaped=true when it goes elsewhere
func (a *lsAn) observerSites(e ast.Node, fr *lsFrame, depth int) (sites []*ast.CallExpr, escaped bool) {
	if depth > 4 {
		return nil, true
	}
	switch p := fr.par[e].(type) {
	case *ast.CallExpr:
		if lsIsSubscribeCall(p) && len(p.Args) > 0 && p.Args[len(p.Args)-1] == e {
			return []*ast.CallExpr{p}, false
		}
		if lsIsSubscriberWrapper(calleeName(p)) {
			return a.observerSites(p, fr, depth+1)
		}
		return nil, true
	case *ast.AssignStmt:
		if len(p.Lhs) == 1 && len(p.Rhs) == 1 {
			if id, ok := p.Lhs[0].(*ast.Ident); ok && id.Obj != nil {
				for _, u := range fr.uses[id.Obj] {
					if u == id {
						continue
					}
					s, esc := a.observerSites(u, fr, depth+1)
					sites = append(sites, s...)
					if esc {
						// a use that is not a hand-off (e.g. a method call on the observer) is harmless
						if _, isSel := fr.par[u].(*ast.SelectorExpr); !isSel {
							escaped = true
						}
					}
				}
				return sites, escaped
			}
		}
	case *ast.ParenExpr:
		return a.observerSites(p, fr, depth+1)
	}
	return nil, true
}

type lsHow struct {
	kind string // inline | named | sourceCb | goBody | timerCb | finalizer | teardown | subscribeCall | escaped | helperParam
	site ast.Node
	obj  *ast.Object
	pos  string // next | error | complete (sourceCb)
	more bool   // observer subscribed at several sites
	// helperParam
	callee *ast.FuncDecl
	call   *ast.CallExpr
	arg    int
}

func lsReturnsTeardown(ft *ast.FuncType) bool {
	if ft == nil || ft.Results == nil || len(ft.Results.List) != 1 {
		return false
	}
	return lsTypeName(ft.Results.List[0].Type) == "Teardown"
}

// how is the function-valued expression `v` (a literal or an identifier naming a local closure) used
func (a *lsAn) classifyUse(v ast.Node, fr *lsFrame) lsHow {
	switch p := fr.par[v].(type) {
	case *ast.ParenExpr:
		return a.classifyUse(p, fr)
	case *ast.CallExpr:
		if p.Fun == v { // invoked right here
			switch fr.par[p].(type) {
			case *ast.GoStmt:
				return lsHow{kind: "goBody", site: fr.par[p]}
			}
			return lsHow{kind: "inline", site: p}
		}
		idx := -1
		for i, arg := range p.Args {
			if arg == v {
				idx = i
			}
		}
		if idx < 0 {
			return lsHow{kind: "escaped", site: p}
		}
		name := calleeName(p)
		if name == "AfterFunc" {
			return lsHow{kind: "timerCb", site: p}
		}
		if name == "recoverUnhandledError" {
			if g, ok := fr.par[p].(*ast.GoStmt); ok {
				return lsHow{kind: "goBody", site: g}
			}
			return lsHow{kind: "inline", site: p}
		}
		if pos, ok := lsObserverCtors[name]; ok {
			sites, esc := a.observerSites(p, fr, 0)
			if esc || len(sites) == 0 {
				return lsHow{kind: "escaped", site: p}
			}
			h := lsHow{kind: "sourceCb", site: sites[0], more: len(sites) > 1}
			if idx < len(pos) {
				h.pos = pos[idx]
			}
			return h
		}
		if _, ok := isCtorName(name); ok || name == "NewConnectableObservableWithContext" || name == "NewConnectableObservable" {
			return lsHow{kind: "subscribeCall", site: p}
		}
		if s, ok := p.Fun.(*ast.SelectorExpr); ok {
			switch s.Sel.Name {
			case "Add":
				return lsHow{kind: "finalizer", site: p}
			case "Range", "Do", "TryCatchWithErrorValue", "TryCatch", "Try":
				return lsHow{kind: "inline", site: p}
			}
		}
		if id, ok := p.Fun.(*ast.Ident); ok {
			if h, ok := a.pkg.helpers[id.Name]; ok {
				return lsHow{kind: "helperParam", callee: h, call: p, arg: idx, site: p}
			}
		}
		return lsHow{kind: "escaped", site: p}
	case *ast.AssignStmt:
		if len(p.Lhs) == len(p.Rhs) {
			for i, r := range p.Rhs {
				if r == v {
					if id, ok := p.Lhs[i].(*ast.Ident); ok && id.Obj != nil {
						return lsHow{kind: "named", obj: id.Obj, site: p}
					}
				}
			}
		}
	case *ast.ValueSpec:
		for i, r := range p.Values {
			if r == v && i < len(p.Names) && p.Names[i].Obj != nil {
				return lsHow{kind: "named", obj: p.Names[i].Obj, site: p}
			}
		}
	case *ast.ReturnStmt:
		return lsHow{kind: "returned", site: p}
	case *ast.DeferStmt:
		return lsHow{kind: "inline", site: p}
	}
	return lsHow{kind: "escaped", site: v}
}

func (fr *lsFrame) inLoopBelow(n ast.Node, stop ast.Node) bool {
	for cur := fr.par[n]; cur != nil && cur != stop; cur = fr.par[cur] {
		switch x := cur.(type) {
		case *ast.ForStmt:
			if n.Pos() >= x.Body.Pos() {
				return true
			}
		case *ast.RangeStmt:
			if n.Pos() >= x.Body.Pos() {
				return true
			}
		case *ast.FuncLit, *ast.FuncDecl:
			return false
		}
	}
	return false
}

// does the literal `lit` run at most once per instance of a variable declared in D; if so, the
// nodes from which the question continues outwards (its hand-off / call sites)
func (a *lsAn) runsOnce(lit *ast.FuncLit, fr *lsFrame, D ast.Node, depth int) (bool, []ast.Node) {
	if depth > 6 {
		return false, nil
	}
	h := a.classifyUse(lit, fr)
	switch h.kind {
	case "inline":
		return true, []ast.Node{h.site}
	case "goBody", "timerCb", "finalizer":
		return true, []ast.Node{h.site}
	case "sourceCb":
		if (h.pos == "error" || h.pos == "complete") && !h.more {
			return true, []ast.Node{h.site} // at most one terminal per subscription
		}
		return false, nil
	case "returned":
		if fr.innermostFunc(h.site) == D && lsReturnsTeardown(funcType(D)) {
			return true, []ast.Node{h.site}
		}
		return false, nil
	case "named":
		var sites []ast.Node
		for _, u := range fr.uses[h.obj] {
			if u.Pos() == h.obj.Pos() {
				continue
			}
			c, ok := fr.par[u].(*ast.CallExpr)
			if !ok || c.Fun != ast.Expr(u) {
				return false, nil // used as a value somewhere
			}
			sites = append(sites, c)
		}
		if len(sites) == 1 {
			return true, sites
		}
		if len(sites) == 0 {
			return false, nil
		}
		// several call sites: fine when they sit in different clauses of one switch
		var sw ast.Node
		seen := map[ast.Node]bool{}
		for _, c := range sites {
			var clause, parent ast.Node
			for cur := fr.par[c]; cur != nil; cur = fr.par[cur] {
				if cc, ok := cur.(*ast.CaseClause); ok {
					clause = cc
					if b, ok := fr.par[cc].(*ast.BlockStmt); ok {
						parent = fr.par[b]
					}
					break
				}
			}
			if clause == nil || parent == nil || seen[clause] || (sw != nil && sw != parent) {
				return false, nil
			}
			seen[clause] = true
			sw = parent
		}
		return true, sites
	}
	return false, nil
}

// does the local closure bound to obj run at most once (and from where is it called)
func (a *lsAn) once(obj *ast.Object, fr *lsFrame, D ast.Node, depth int) (bool, ast.Node) {
	var lit *ast.FuncLit
	switch d := obj.Decl.(type) {
	case *ast.AssignStmt:
		for i, l := range d.Lhs {
			if id, ok := l.(*ast.Ident); ok && id.Obj == obj && i < len(d.Rhs) {
				lit, _ = d.Rhs[i].(*ast.FuncLit)
			}
		}
	case *ast.ValueSpec:
		for i, n := range d.Names {
			if n.Obj == obj && i < len(d.Values) {
				lit, _ = d.Values[i].(*ast.FuncLit)
			}
		}
	}
	if lit == nil {
		return false, nil
	}
	ok, sites := a.runsOnce(lit, fr, D, depth)
	if !ok || len(sites) != 1 {
		return false, nil
	}
	if a.isMulti(sites[0], fr, D, depth+1) {
		return false, nil
	}
	return true, sites[0]
}

// can the code at `site` run several times for one instance of a variable declared in D
func (a *lsAn) isMulti(site ast.Node, fr *lsFrame, D ast.Node, depth int) bool {
	if depth > 8 {
		return true
	}
	f := fr.innermostFunc(site)
	if fr.inLoopBelow(site, f) {
		return true
	}
	if f == D {
		return false
	}
	if f == fr.root {
		if fr.caller == nil {
			return false
		}
		return a.isMulti(fr.call, fr.caller, D, depth+1)
	}
	ok, sites := a.runsOnce(f.(*ast.FuncLit), fr, D, depth+1)
	if !ok {
		return true
	}
	for _, s := range sites {
		if a.isMulti(s, fr, D, depth+1) {
			return true
		}
	}
	return false
}

// awaited: the subscribing goroutine (D's own body) waits for the subscription it has just made —
// `src.SubscribeWithContext(…).Wait()` or `sub := src.SubscribeWithContext(…); …; sub.Wait()` in the
// same block — and does not touch the variable under analysis in between. Wait() returns after the
// subscription was torn down, i.e. after its terminal callback returned; the callbacks therefore
// run between two statements of the body.
func (a *lsAn) awaited(site ast.Node, fr *lsFrame, D ast.Node) bool {
	if fr.caller != nil || fr.innermostFunc(site) != D {
		return false
	}
	var from, to token.Pos
	switch p := fr.par[site].(type) {
	case *ast.SelectorExpr:
		if c, ok := fr.par[p].(*ast.CallExpr); ok && p.Sel.Name == "Wait" && c.Fun == ast.Expr(p) {
			return true
		}
		return false
	case *ast.AssignStmt:
		if len(p.Lhs) != 1 || len(p.Rhs) != 1 {
			return false
		}
		id, ok := p.Lhs[0].(*ast.Ident)
		if !ok || id.Obj == nil {
			return false
		}
		blk, ok := fr.par[p].(*ast.BlockStmt)
		if !ok {
			return false
		}
		seen := false
		for _, st := range blk.List {
			if st == ast.Stmt(p) {
				seen = true
				continue
			}
			if !seen {
				continue
			}
			if es, ok := st.(*ast.ExprStmt); ok {
				if c, ok := es.X.(*ast.CallExpr); ok && len(c.Args) == 0 {
					if se, ok := c.Fun.(*ast.SelectorExpr); ok && se.Sel.Name == "Wait" {
						if x, ok := se.X.(*ast.Ident); ok && x.Obj == id.Obj {
							from, to = p.End(), c.Pos()
							break
						}
					}
				}
			}
		}
		if to == token.NoPos {
			return false
		}
	default:
		return false
	}
	if a.curObj != nil {
		for _, u := range fr.uses[a.curObj] {
			if u.Pos() > from && u.Pos() < to {
				return false
			}
		}
	}
	return true
}

func (a *lsAn) helperFrame(call *ast.CallExpr, callee *ast.FuncDecl, caller *lsFrame) *lsFrame {
	if f, ok := a.frames[call]; ok {
		return f
	}
	f := a.newFrame(callee, a.pkg.helperF[callee.Name.Name], caller, call)
	a.frames[call] = f
	return f
}

// contexts in which node n (inside frame fr) runs, relative to the declaring function D
func (a *lsAn) contexts(n ast.Node, fr *lsFrame, D ast.Node, depth int) []ctxRes {
	if depth > 8 {
		return []ctxRes{{lsCtx{kind: "escaped"}, lockState{}}}
	}
	held := fr.heldAt(n)
	f := fr.innermostFunc(n)
	if f == D {
		return []ctxRes{{lsCtx{kind: "body"}, held}}
	}
	if f == fr.root {
		if fr.caller != nil { // helper body: the caller's goroutine
			rs := a.contexts(fr.call, fr.caller, D, depth+1)
			for i := range rs {
				rs[i].locks = lsUnion(rs[i].locks, held)
			}
			return rs
		}
		return []ctxRes{{lsCtx{kind: "body"}, held}}
	}
	lit := f.(*ast.FuncLit)
	return a.useContexts(lit, a.classifyUse(lit, fr), fr, D, held, depth)
}

func (a *lsAn) useContexts(v ast.Node, h lsHow, fr *lsFrame, D ast.Node, held lockState, depth int) []ctxRes {
	add := func(rs []ctxRes) []ctxRes {
		for i := range rs {
			rs[i].locks = lsUnion(rs[i].locks, held)
		}
		return rs
	}
	switch h.kind {
	case "inline":
		return add(a.contexts(h.site, fr, D, depth+1))
	case "named":
		var out []ctxRes
		for _, u := range fr.uses[h.obj] {
			if u.Pos() == h.obj.Pos() {
				continue
			}
			if as, ok := fr.par[u].(*ast.AssignStmt); ok { // the defining assignment `f = func…`
				isLhs := false
				for _, l := range as.Lhs {
					if l == ast.Expr(u) {
						isLhs = true
					}
				}
				if isLhs {
					continue
				}
			}
			out = append(out, a.useContexts(u, a.classifyUse(u, fr), fr, D, lockState{}, depth+1)...)
		}
		if len(out) == 0 {
			return nil // never used
		}
		return add(out)
	case "helperParam":
		hf := a.helperFrame(h.call, h.callee, fr)
		// the parameter the value is bound to
		var pobj *ast.Object
		i := 0
		for _, fld := range h.callee.Type.Params.List {
			for _, nm := range fld.Names {
				if i == h.arg {
					pobj = nm.Obj
				}
				i++
			}
		}
		var out []ctxRes
		if pobj != nil {
			for _, u := range hf.uses[pobj] {
				if u.Pos() == pobj.Pos() {
					continue
				}
				out = append(out, a.useContexts(u, a.classifyUse(u, hf), hf, D, lockState{}, depth+1)...)
			}
		}
		return add(out)
	case "returned":
		rf := fr.innermostFunc(h.site)
		if rf == D && lsReturnsTeardown(funcType(D)) {
			return []ctxRes{{lsCtx{kind: "teardown"}, held}}
		}
		if rf == fr.root && fr.caller != nil {
			// returned by a helper: where does the caller put it?
			hh := a.classifyUse(fr.call, fr.caller)
			return a.useContexts(fr.call, hh, fr.caller, D, held, depth+1)
		}
		if rf == D {
			return []ctxRes{{lsCtx{kind: "application", site: line(h.site.Pos()), multi: true}, held}}
		}
		return []ctxRes{{lsCtx{kind: "finalizer", site: line(h.site.Pos()), multi: a.isMulti(h.site, fr, D, depth+1)}, held}}
	case "sourceCb", "goBody", "timerCb", "finalizer", "subscribeCall":
		if h.kind == "sourceCb" && !h.more && a.awaited(h.site, fr, D) {
			return []ctxRes{{lsCtx{kind: "awaitedCb", site: line(h.site.Pos())}, held}}
		}
		multi := h.more || a.isMulti(h.site, fr, D, depth+1)
		if h.kind == "subscribeCall" {
			multi = true
		}
		site := line(h.site.Pos())
		if fr.caller != nil { // a site inside a helper is identified by the call that leads to it
			site = line(fr.call.Pos())
		}
		return []ctxRes{{lsCtx{kind: h.kind, site: site, multi: multi}, held}}
	}
	return []ctxRes{{lsCtx{kind: "escaped", site: line(v.Pos()), multi: true}, held}}
}

// ---------------------------------------------------------------- closure-captured variables

type lsRaw struct {
	node  ast.Node
	fr    *lsFrame
	cls   lsClass
	decl  bool
	ctxs  []ctxRes
	inFn  ast.Node // innermost function (in its frame)
	fname string
}

func lsDeclFunc(fr *lsFrame, o *ast.Object) ast.Node {
	// innermost function whose extent contains the declaration
	var best ast.Node = fr.root
	ast.Inspect(fr.root, func(n ast.Node) bool {
		if fl, ok := n.(*ast.FuncLit); ok && fl.Pos() <= o.Pos() && o.Pos() < fl.End() {
			if best == fr.root || (fl.Pos() >= best.Pos() && fl.End() <= best.End()) {
				best = fl
			}
		}
		return true
	})
	return best
}

func lsWithin(n, outer ast.Node) bool { return n.Pos() >= outer.Pos() && n.End() <= outer.End() }

func (a *lsAn) collect(o *ast.Object, fr *lsFrame, D ast.Node, depth int, out *[]lsRaw) {
	tname := lsObjType(o)
	if fr.bind != nil {
		tname = "" // through a pointer parameter: the deref decides
	}
	for _, id := range fr.uses[o] {
		if id.Pos() == o.Pos() {
			// the declaration itself: a write before any literal that mentions the variable exists
			*out = append(*out, lsRaw{node: id, fr: fr, decl: true, cls: lsClass{write: true, sync: "plain"}, inFn: fr.innermostFunc(id)})
			continue
		}
		cls := lsClassify(fr.par, id, tname, a.pkg.helpers)
		if cls.skip {
			continue
		}
		if cls.alias != nil && depth < 2 {
			callee := a.pkg.helpers[calleeName(cls.alias.call)]
			hf := a.helperFrame(cls.alias.call, callee, fr)
			var pobj *ast.Object
			i := 0
			for _, fld := range callee.Type.Params.List {
				for _, nm := range fld.Names {
					if i == cls.alias.arg {
						pobj = nm.Obj
					}
					i++
				}
			}
			if pobj != nil {
				a.collectAlias(pobj, hf, D, depth+1, out)
			}
			continue
		}
		*out = append(*out, lsRaw{node: id, fr: fr, cls: cls, inFn: fr.innermostFunc(id)})
	}
}

// uses of a pointer parameter bound to &x: `*p` is x
func (a *lsAn) collectAlias(p *ast.Object, hf *lsFrame, D ast.Node, depth int, out *[]lsRaw) {
	for _, id := range hf.uses[p] {
		if id.Pos() == p.Pos() {
			continue
		}
		// only dereferences are accesses to the caller's variable
		isDeref := false
		var n ast.Node = id
		for {
			switch x := hf.par[n].(type) {
			case *ast.ParenExpr:
				n = x
				continue
			case *ast.StarExpr:
				isDeref = true
			}
			break
		}
		if !isDeref {
			// passing the pointer on, comparing it, … : not followed
			if c, ok := hf.par[id].(*ast.CallExpr); ok && c.Fun != ast.Expr(id) {
				*out = append(*out, lsRaw{node: id, fr: hf, cls: lsClass{write: true, sync: "unknown", note: "pointer passed on"}, inFn: hf.innermostFunc(id)})
			}
			continue
		}
		cls := lsClassify(hf.par, id, "", a.pkg.helpers)
		if cls.skip {
			continue
		}
		*out = append(*out, lsRaw{node: id, fr: hf, cls: cls, inFn: hf.innermostFunc(id)})
	}
}

// positions through which access r can be reached from function G: all must lie after `after`
func (a *lsAn) reachedAfter(n ast.Node, fr *lsFrame, G ast.Node, gfr *lsFrame, after token.Pos, W ast.Node, depth int) bool {
	if depth > 5 {
		return false
	}
	if fr == gfr && lsWithin(n, G) {
		if gfr.innermostFunc(n) == G {
			return true // same goroutine as the write
		}
		if n.Pos() <= after {
			return false
		}
		// not inside a loop that also contains the write
		for cur := gfr.par[n]; cur != nil && cur != G; cur = gfr.par[cur] {
			switch cur.(type) {
			case *ast.ForStmt, *ast.RangeStmt:
				if lsWithin(W, cur) {
					return false
				}
			}
		}
		return true
	}
	f := fr.innermostFunc(n)
	if f == fr.root {
		if fr.caller != nil {
			return a.reachedAfter(fr.call, fr.caller, G, gfr, after, W, depth+1)
		}
		return false
	}
	lit, ok := f.(*ast.FuncLit)
	if !ok {
		return false
	}
	h := a.classifyUse(lit, fr)
	switch h.kind {
	case "named":
		any := false
		for _, u := range fr.uses[h.obj] {
			if u.Pos() == h.obj.Pos() {
				continue
			}
			if as, ok := fr.par[u].(*ast.AssignStmt); ok && len(as.Lhs) > 0 && as.Lhs[0] == ast.Expr(u) {
				continue
			}
			any = true
			if !a.reachedAfter(u, fr, G, gfr, after, W, depth+1) {
				return false
			}
		}
		return any
	case "inline":
		return a.reachedAfter(h.site, fr, G, gfr, after, W, depth+1)
	case "returned":
		if fr.caller != nil && fr.innermostFunc(h.site) == fr.root {
			return a.reachedAfter(fr.call, fr.caller, G, gfr, after, W, depth+1)
		}
	}
	// handed off somewhere outside G (or before the write)
	return false
}

func lsCtxKey(c lsCtx) string { return fmt.Sprintf("%s/%d/%v", c.kind, c.site, c.multi) }

func lsSequential(c lsCtx) bool {
	switch c.kind {
	case "body", "teardown", "ctor", "awaitedCb":
		return true
	case "sourceCb", "goBody", "timerCb", "finalizer":
		return !c.multi
	}
	return false
}

func (a *lsAn) analyzeFunc(fd *ast.FuncDecl, rel string, tbl *LsTable) {
	fr := a.newFrame(fd, rel, nil, nil)
	a.top = fr
	a.frames = map[*ast.CallExpr]*lsFrame{}
	var objs []*ast.Object
	for o := range fr.uses {
		if o.Pos() >= fd.Pos() && o.Pos() < fd.End() && o.Name != "_" {
			objs = append(objs, o)
		}
	}
	sort.Slice(objs, func(i, j int) bool { return objs[i].Pos() < objs[j].Pos() })
	names := map[string]int{}
	for _, o := range objs {
		names[o.Name]++
	}
	for _, o := range objs {
		tname := lsObjType(o)
		if lsIsLockType(tname) {
			continue
		}
		D := lsDeclFunc(fr, o)
		captured := false
		for _, id := range fr.uses[o] {
			if fr.innermostFunc(id) != D {
				captured = true
			}
		}
		if !captured {
			continue
		}
		var raws []lsRaw
		a.curObj = o
		a.collect(o, fr, D, 0, &raws)
		written := false
		for _, r := range raws {
			if !r.decl && (r.cls.write || r.cls.sync == "unknown") {
				written = true
			}
		}
		if !written {
			tbl.ImmutableCaptured++
			continue
		}
		// contexts
		ctxSet := map[string]lsCtx{}
		for i := range raws {
			r := &raws[i]
			if r.decl {
				r.ctxs = []ctxRes{{lsCtx{kind: "body"}, lockState{}}}
			} else {
				r.ctxs = a.contexts(r.node, r.fr, D, 0)
			}
			for _, c := range r.ctxs {
				ctxSet[lsCtxKey(c.ctx)] = c.ctx
			}
		}
		shared := len(ctxSet) >= 2
		for _, c := range ctxSet {
			if !lsSequential(c) {
				shared = true
			}
		}
		if !shared {
			tbl.SingleContext++
			continue
		}
		name := fd.Name.Name + "." + o.Name
		if names[o.Name] > 1 {
			name = fmt.Sprintf("%s.%s@%d", fd.Name.Name, o.Name, line(o.Pos()))
		}
		loc := LsLoc{Name: name, Kind: "local", File: rel}
		for i := range raws {
			r := &raws[i]
			for _, c := range r.ctxs {
				row := LsAccess{FnLine: line(fd.Pos()), Line: line(r.node.Pos()), Write: r.cls.write, Fn: fd.Name.Name, Ctx: c.ctx.kind, Site: c.ctx.site, Multi: c.ctx.multi, Note: r.cls.note}
				if r.fr != fr {
					row.Fn = r.fr.fd.Name.Name
					row.FnLine = line(r.fr.fd.Pos())
				}
				// locks that really are one lock per instance of the variable: declared in D or outside it
				var locks []string
				for k := range c.locks {
					locks = append(locks, k)
				}
				sort.Strings(locks)
				for _, k := range locks {
					var ln int
					fmt.Sscanf(k[strings.LastIndex(k, "@")+1:], "%d", &ln)
					declLine, endLine := line(D.Pos()), line(D.End())
					inside := ln > declLine && ln <= endLine
					perInstance := !inside || a.lockDeclaredIn(k, fr, D)
					if perInstance {
						row.Locks = append(row.Locks, k)
						row.LockIDs = append(row.LockIDs, a.pkg.lockID(fd.Name.Name+"."+k))
					} else {
						row.Note += " lock " + k + " is declared per call of an inner function"
					}
				}
				switch {
				case r.decl:
					row.Prot = "initBeforePublication"
				case r.cls.sync == "atomic":
					row.Prot = "atomic"
				case r.cls.sync == "unknown":
					row.Prot = "unknown"
				case len(row.Locks) > 0:
					row.Prot = "under"
				case len(r.ctxs) == 1 && a.isInit(r, raws, D, fr):
					row.Prot = "initBeforePublication"
				case c.ctx.kind == "body" || c.ctx.kind == "teardown":
					row.Prot = "subscribeBodyBeforeTeardown"
				case c.ctx.kind == "awaitedCb":
					row.Prot = "awaitedSourceBeforeContinuation"
				case c.ctx.kind == "sourceCb" && !c.ctx.multi:
					row.Prot = "sameSequentialSource"
				default:
					row.Prot = "none"
				}
				loc.Rows = append(loc.Rows, row)
			}
		}
		tbl.Locs = append(tbl.Locs, loc)
	}
}

// is lock key k ("name@line") declared directly in D (not in a literal nested in D)
func (a *lsAn) lockDeclaredIn(k string, fr *lsFrame, D ast.Node) bool {
	for o := range fr.uses {
		if fmt.Sprintf("%s@%d", o.Name, line(o.Pos())) == k {
			return lsDeclFunc(fr, o) == D
		}
	}
	return false
}

// initBeforePublication: the write r sits in a function G that runs at most once per instance, and
// every other access is either on G's own goroutine or inside a literal / reached through a call
// that lies after the write in G (and not in a loop around both).
func (a *lsAn) isInit(r *lsRaw, all []lsRaw, D ast.Node, top *lsFrame) bool {
	if r.fr != top {
		return false
	}
	G := r.inFn
	if G != D {
		lit, ok := G.(*ast.FuncLit)
		if !ok {
			return false
		}
		h := a.classifyUse(lit, top)
		if h.kind != "named" {
			return false
		}
		if ok, _ := a.once(h.obj, top, D, 0); !ok {
			return false
		}
	}
	// the statement that contains the access
	var stmt ast.Node = r.node
	for cur := top.par[r.node]; cur != nil; cur = top.par[cur] {
		if _, ok := cur.(ast.Stmt); ok {
			stmt = cur
			break
		}
	}
	for i := range all {
		b := &all[i]
		if b == r || b.decl {
			continue
		}
		if !a.reachedAfter(b.node, b.fr, G, top, stmt.End(), stmt, 0) {
			return false
		}
	}
	return true
}

// ---------------------------------------------------------------- struct fields

type lsStruct struct {
	name   string
	rel    string
	fields map[string]string // field → type name
	order  []string
}

func lsRecvType(fd *ast.FuncDecl) (string, *ast.Object) {
	if fd.Recv == nil || len(fd.Recv.List) != 1 {
		return "", nil
	}
	f := fd.Recv.List[0]
	var o *ast.Object
	if len(f.Names) == 1 {
		o = f.Names[0].Obj
	}
	t := f.Type
	if s, ok := t.(*ast.StarExpr); ok {
		t = s.X
	}
	switch x := t.(type) { // receiver base type
	case *ast.Ident:
		return x.Name, o
	case *ast.IndexExpr:
		if id, ok := x.X.(*ast.Ident); ok {
			return id.Name, o
		}
	case *ast.IndexListExpr:
		if id, ok := x.X.(*ast.Ident); ok {
			return id.Name, o
		}
	}
	return "", o
}

func (p *lsPkg) analyzeStructs(kernel []string, tbl *LsTable) {
	structs := map[string]*lsStruct{}
	var order []string
	for _, rel := range kernel {
		f := p.files[rel]
		for _, d := range f.Decls {
			gd, ok := d.(*ast.GenDecl)
			if !ok || gd.Tok != token.TYPE {
				continue
			}
			for _, sp := range gd.Specs {
				ts := sp.(*ast.TypeSpec)
				st, ok := ts.Type.(*ast.StructType)
				if !ok {
					continue
				}
				s := &lsStruct{name: ts.Name.Name, rel: rel, fields: map[string]string{}}
				for _, fld := range st.Fields.List {
					tn := lsTypeName(fld.Type)
					if len(fld.Names) == 0 { // embedded
						nm := tn
						if i := strings.LastIndex(nm, "."); i >= 0 {
							nm = nm[i+1:]
						}
						s.fields[nm] = tn
						s.order = append(s.order, nm)
					}
					for _, n := range fld.Names {
						if n.Name == "_" {
							continue
						}
						s.fields[n.Name] = tn
						s.order = append(s.order, n.Name)
					}
				}
				structs[s.name] = s
				order = append(order, s.name)
			}
		}
	}
	rows := map[string][]LsAccess{} // "T.f" → rows
	hasMethod := map[string]bool{}
	addRow := func(t, f string, r LsAccess) { rows[t+"."+f] = append(rows[t+"."+f], r) }
	for _, rel := range kernel {
		file := p.files[rel]
		for _, d := range file.Decls {
			fd, ok := d.(*ast.FuncDecl)
			if !ok || fd.Body == nil {
				continue
			}
			par := buildParents(fd)
			// composite literals: the constructor
			ast.Inspect(fd, func(n ast.Node) bool {
				cl, ok := n.(*ast.CompositeLit)
				if !ok || cl.Type == nil {
					return true
				}
				s := structs[strings.TrimPrefix(lsTypeName(cl.Type), "*")]
				if s == nil || strings.Contains(lsTypeName(cl.Type), ".") {
					return true
				}
				tbl.Ctors = append(tbl.Ctors, LsCtor{Type: s.name, File: rel, Line: line(cl.Pos()), End: line(cl.End())})
				for i, e := range cl.Elts {
					fname := ""
					if kv, ok := e.(*ast.KeyValueExpr); ok {
						if id, ok := kv.Key.(*ast.Ident); ok {
							fname = id.Name
						}
					} else if i < len(s.order) {
						fname = s.order[i]
					}
					if _, ok := s.fields[fname]; ok && !lsIsLockType(s.fields[fname]) {
						addRow(s.name, fname, LsAccess{Line: line(e.Pos()), Write: true, Fn: fd.Name.Name, Ctx: "ctor", Prot: "initBeforePublication"})
					}
				}
				return true
			})
			tn, recv := lsRecvType(fd)
			s := structs[tn]
			if s == nil {
				// a variable holding a freshly built struct, used by field in a plain function
				ast.Inspect(fd, func(n ast.Node) bool {
					se, ok := n.(*ast.SelectorExpr)
					if !ok {
						return true
					}
					id, ok := se.X.(*ast.Ident)
					if !ok || id.Obj == nil {
						return true
					}
					vt := structs[strings.TrimPrefix(lsObjType(id.Obj), "*")]
					if vt == nil {
						return true
					}
					if _, ok := vt.fields[se.Sel.Name]; ok && !lsIsLockType(vt.fields[se.Sel.Name]) {
						cls := lsClassify(par, se, vt.fields[se.Sel.Name], p.helpers)
						if !cls.skip {
							prot := "unknown"
							if cls.sync == "atomic" {
								prot = "atomic"
							}
							addRow(vt.name, se.Sel.Name, LsAccess{Line: line(se.Pos()), Write: cls.write, Fn: fd.Name.Name, Ctx: "method", Multi: true, Prot: prot, Note: "field access outside a method"})
						}
					}
					return true
				})
				continue
			}
			hasMethod[tn] = true
			lw := &lockWalker{held: map[ast.Node]lockState{}, created: map[*ast.FuncLit]lockState{}}
			lw.lockKey = func(e ast.Expr) string {
				if se, ok := e.(*ast.SelectorExpr); ok {
					if id, ok := se.X.(*ast.Ident); ok && id.Obj != nil && id.Obj == recv {
						if lsIsLockType(s.fields[se.Sel.Name]) {
							return se.Sel.Name
						}
					}
				}
				return ""
			}
			lw.stmts(fd.Body.List, lockState{})
			heldAt := func(n ast.Node) lockState {
				for cur := n; cur != nil; cur = par[cur] {
					if h, ok := lw.held[cur]; ok {
						if _, isLit := cur.(*ast.FuncLit); isLit && cur != n {
							break
						}
						return h
					}
				}
				return lockState{}
			}
			ast.Inspect(fd.Body, func(n ast.Node) bool {
				se, ok := n.(*ast.SelectorExpr)
				if !ok {
					return true
				}
				id, ok := se.X.(*ast.Ident)
				if !ok || id.Obj == nil || id.Obj != recv {
					return true
				}
				ft, isField := s.fields[se.Sel.Name]
				if !isField {
					return true // a method of the receiver
				}
				if lsIsLockType(ft) {
					return true
				}
				cls := lsClassify(par, se, ft, p.helpers)
				if cls.skip {
					return true
				}
				row := LsAccess{FnLine: line(fd.Pos()), Line: line(se.Pos()), Write: cls.write, Fn: tn + "." + fd.Name.Name, Ctx: "method", Multi: true, Note: cls.note}
				var locks []string
				for k := range heldAt(se) {
					locks = append(locks, k)
				}
				sort.Strings(locks)
				for _, k := range locks {
					row.Locks = append(row.Locks, k)
					row.LockIDs = append(row.LockIDs, p.lockID(tn+"."+k))
				}
				switch {
				case cls.sync == "atomic":
					row.Prot = "atomic"
				case cls.sync == "unknown" || cls.alias != nil:
					row.Prot = "unknown"
				case len(row.Locks) > 0:
					row.Prot = "under"
				default:
					row.Prot = "none"
				}
				addRow(tn, se.Sel.Name, row)
				return true
			})
		}
	}
	for _, tn := range order {
		s := structs[tn]
		if !hasMethod[tn] {
			continue
		}
		for _, f := range s.order {
			if lsIsLockType(s.fields[f]) {
				continue
			}
			rs := rows[tn+"."+f]
			if len(rs) == 0 {
				continue
			}
			tbl.Locs = append(tbl.Locs, LsLoc{Name: tn + "." + f, Kind: "field", File: s.rel, Rows: rs})
		}
	}
}

// ---------------------------------------------------------------- driver + output

func lsCtxLean(r LsAccess) string {
	switch r.Ctx {
	case "ctor", "body", "teardown", "method":
		return "." + r.Ctx
	case "sourceCb", "goBody", "timerCb", "finalizer":
		return fmt.Sprintf(".%s %d %s", r.Ctx, r.Site, leanBool(r.Multi))
	case "subscribeCall", "application", "awaitedCb":
		return fmt.Sprintf(".%s %d", r.Ctx, r.Site)
	}
	return ".escaped"
}

func lsProtLean(r LsAccess) string {
	switch r.Prot {
	case "atomic", "initBeforePublication", "subscribeBodyBeforeTeardown", "sameSequentialSource", "awaitedSourceBeforeContinuation", "none":
		return "." + r.Prot
	case "under":
		var ids []string
		for _, i := range r.LockIDs {
			ids = append(ids, fmt.Sprint(i))
		}
		return ".under [" + strings.Join(ids, ", ") + "]"
	}
	return ".unknown"
}

func extractLocksets(repo, out string) error {
	pkg := &lsPkg{files: map[string]*ast.File{}, helpers: map[string]*ast.FuncDecl{}, helperF: map[string]string{}, lockIDs: map[string]int{}}
	kernel := []string{"subscriber.go", "subscription.go", "observer.go", "observable.go"}
	subj, _ := filepath.Glob(filepath.Join(repo, "subject_*.go"))
	sort.Strings(subj)
	for _, p := range subj {
		if !strings.HasSuffix(p, "_test.go") {
			kernel = append(kernel, filepath.Base(p))
		}
	}
	kernel = append(kernel, "internal/xsync/mutex.go", "internal/xatomic/pointer_go119.go")
	var ops []string
	opf, _ := filepath.Glob(filepath.Join(repo, "operator_*.go"))
	sort.Strings(opf)
	for _, p := range opf {
		if !strings.HasSuffix(p, "_test.go") {
			ops = append(ops, filepath.Base(p))
		}
	}
	for _, rel := range append(append([]string{}, kernel...), ops...) {
		f, err := parser.ParseFile(fset, filepath.Join(repo, rel), nil, parser.ParseComments)
		if err != nil {
			return err
		}
		pkg.files[rel] = f
	}
	// helpers: package-level functions of the operator files that take a pointer or a function
	for _, rel := range ops {
		for _, d := range pkg.files[rel].Decls {
			fd, ok := d.(*ast.FuncDecl)
			if !ok || fd.Recv != nil || fd.Body == nil || ast.IsExported(fd.Name.Name) {
				continue
			}
			takes := false
			for _, fld := range fd.Type.Params.List {
				switch fld.Type.(type) {
				case *ast.StarExpr, *ast.FuncType:
					takes = true
				}
			}
			if takes {
				pkg.helpers[fd.Name.Name] = fd
				pkg.helperF[fd.Name.Name] = rel
			}
		}
	}
	tbl := &LsTable{}
	pkg.analyzeStructs(kernel, tbl)
	etbl := &ELTable{}
	for _, rel := range ops {
		for _, d := range pkg.files[rel].Decls {
			fd, ok := d.(*ast.FuncDecl)
			if !ok || fd.Body == nil || fd.Recv != nil {
				continue
			}
			a := &lsAn{pkg: pkg}
			a.analyzeFunc(fd, rel, tbl)
		}
	}
	// emitlock.go: after the Locksets pass, so that the lock identifiers of Locksets.lean do not move
	for _, rel := range ops {
		for _, d := range pkg.files[rel].Decls {
			fd, ok := d.(*ast.FuncDecl)
			if !ok || fd.Body == nil || fd.Recv != nil {
				continue
			}
			a := &lsAn{pkg: pkg}
			a.emitLocks(fd, rel, etbl)
		}
	}
	for i := range tbl.Locs {
		rs := tbl.Locs[i].Rows
		sort.SliceStable(rs, func(x, y int) bool {
			if rs[x].Line != rs[y].Line {
				return rs[x].Line < rs[y].Line
			}
			return lsCtxLean(rs[x]) < lsCtxLean(rs[y])
		})
		// identical rows (same access reached twice in the same way) once
		var ded []LsAccess
		seen := map[string]bool{}
		for _, r := range rs {
			k := fmt.Sprintf("%d|%v|%s|%s|%s", r.Line, r.Write, r.Fn, lsCtxLean(r), lsProtLean(r))
			if !seen[k] {
				seen[k] = true
				ded = append(ded, r)
			}
		}
		tbl.Locs[i].Rows = ded
	}
	tbl.LockNames = pkg.lockIDs
	writeEmitLocks(out, etbl, pkg.lockIDs)

	var sb strings.Builder
	sb.WriteString("-- GENERATED by go/extract (locksets.go) from the repository under check. Do not edit.\nimport RoModel.LockFacts\nnamespace RoGen.Locksets\nopen Ro.LockFacts\n\n")
	var lk []string
	for k, v := range pkg.lockIDs {
		lk = append(lk, fmt.Sprintf("%4d = %s", v, k))
	}
	sort.Strings(lk)
	sb.WriteString("/- lock identifiers\n" + strings.Join(lk, "\n") + "\n-/\n\n")
	sb.WriteString(fmt.Sprintf("def immutableCaptured : Nat := %d\ndef singleContext : Nat := %d\n\n", tbl.ImmutableCaptured, tbl.SingleContext))
	sb.WriteString("def table : List Loc := [\n")
	for i, l := range tbl.Locs {
		sb.WriteString(fmt.Sprintf("  { name := %s, file := %s, rows := [\n", leanStr(l.Name), leanStr(l.File)))
		for j, r := range l.Rows {
			sep := ","
			if j+1 == len(l.Rows) {
				sep = ""
			}
			sb.WriteString(fmt.Sprintf("      { line := %d, write := %s, fn := %s, ctx := %s, prot := %s }%s\n", r.Line, leanBool(r.Write), leanStr(r.Fn), lsCtxLean(r), lsProtLean(r), sep))
		}
		sb.WriteString("    ] }")
		if i+1 < len(tbl.Locs) {
			sb.WriteString(",")
		}
		sb.WriteString("\n")
	}
	sb.WriteString("]\n\nend RoGen.Locksets\n")
	if out != "" {
		writeIfChanged(filepath.Join(out, "Locksets.lean"), sb.String())
		js, _ := json.MarshalIndent(tbl, "", " ")
		writeIfChanged(filepath.Join(out, "locksets.json"), string(js)+"\n")
	} else {
		js, _ := json.MarshalIndent(tbl, "", " ")
		fmt.Fprintln(os.Stdout, string(js))
	}
	return nil
}

func init() {
	extraTables = append(extraTables, func(repo, out string) {
		if out == "" {
			return
		}
		if err := extractLocksets(repo, out); err != nil {
			fmt.Fprintln(os.Stderr, "locksets:", err)
			os.Exit(1)
		}
	})
}

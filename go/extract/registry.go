package main

// further fact tables, each in its own file, registered from init():
//
//	func init() { extraTables = append(extraTables, extractXxx) }
//
// called by main() after the catalogue has been written, with the repository root and the
// output directory (empty: print to stdout).
var extraTables []func(repo, out string)

package main

// loopgen — the subscribe functions of the re-subscribing operators translated into Lean loop programs (property C15;
// C14 / C07 / C12 project the same runs).
//
// On every run RetryWithConfig, OnErrorResumeNextWith, Catch, DoWhileIWithContext, WhileIWithContext
// (operator_error_handling.go) and RepeatWith (operator_utility.go) are translated, statement by statement, into values
// of `Ro.Resub.Gen.LoopProg` (statement language and meaning: lean/RoModel/ResubGen.lean; output:
// lean/RoGen/LoopGen.lean, namespace RoGen.Loop). lean/RoProps/C15gen.lean proves, for every configuration and every
// list of attempt outcomes, that running the regenerated program gives exactly the `Result` of the hand-written loop of
// lean/RoModel/Resub.lean the C15 theorems are about.
//
// Fragment (anything else leaves the operator untranslated: listed in `skipped`, `C15gen.nothing_skipped` fails):
//
//   Op     ::= func Op[T any](Param) func(Observable[T]) Observable[T] {
//                Guard*                                              -- if cond { panic(..) }
//                return func(source Observable[T]) Observable[T] {
//                  AGuard*                                           -- if cond { return Empty[T]() | return source }
//                  [ xs := append([]Observable[T]{source}, p...) ]   -- the list of sources (its length: parameter `nsources`)
//                  return New[Unsafe]ObservableWithContext(func(subscriberCtx context.Context, destination Observer[T]) Teardown { Stmt* }) } }
//   Param  ::= opts RetryConfig | count int64 | condition func(context.Context, int64) (context.Context, bool)
//            | finally ...Observable[T] | finally func(error) Observable[T]
//   Stmt   ::= S := NewSubscription(nil)                              -- the operator's composite subscription
//            | x := Expr | var x T | var x, y T                       -- a local of the operator (uint64/int64/int, bool, error, context.Context)
//            | x = Expr | x++ | a, b = condition(Ctx, Nat)
//            | destination.NextWithContext(..) | destination.ErrorWithContext(..) | destination.CompleteWithContext(..)
//            | if Cond { Stmt* } [else { Stmt* }] | break | continue | return S.Unsubscribe | return nil
//            | select { case <-subscriberCtx.Done(): Stmt*  default: }
//            | select { case <-time.After(d): Stmt*  case <-subscriberCtx.Done(): Stmt* }
//            | for Cond { Stmt* } | for i := range xs { Stmt* } | for i := int64(0); i < count; i++ { Stmt* }
//            | sub := X.SubscribeWithContext(Ctx, Obs); S.AddUnsubscribable(sub); sub.Wait()    -- an attempt (three consecutive statements)
//            | X.SubscribeWithContext(Ctx, Obs).Wait()                                           -- an attempt that is not registered
//            | S.AddUnsubscribable(X.SubscribeWithContext(Ctx, Obs))       -- an attempt nobody waits for: only as the last statement before the return
//            | S.AddUnsubscribable(f(err).SubscribeWithContext(Ctx, destination))               -- inside a callback: `forward`
//   X      ::= source | xs[i]
//   Obs    ::= NewObserverWithContext(Cb, Cb, Cb)
//   Cb     ::= destination.NextWithContext | destination.ErrorWithContext | destination.CompleteWithContext | func(ctx[, v]) { Stmt* }
//   Cond   ::= S.IsClosed() | !S.IsClosed() | destination.IsClosed() | boolean expression over the locals and parameters
//
// Readings (in the header of ResubGen.lean, tied by kind=resub): `S.IsClosed()` inside the subscribe function is false;
// `time.After(d)` loses against an already cancelled context; `subscriberCtx.Err()` is the cancellation error.

import (
	"fmt"
	"go/ast"
	"go/parser"
	"go/printer"
	"go/token"
	"path/filepath"
	"strings"
)

func init() { extraTables = append(extraTables, extractLoopGen) }

type lgFail struct{ why string }

func lgPanic(f string, a ...any) { panic(lgFail{fmt.Sprintf(f, a...)}) }

var lgOps = []struct{ file, name string }{
	{"operator_error_handling.go", "RetryWithConfig"},
	{"operator_error_handling.go", "OnErrorResumeNextWith"},
	{"operator_error_handling.go", "Catch"},
	{"operator_error_handling.go", "DoWhileIWithContext"},
	{"operator_error_handling.go", "WhileIWithContext"},
	{"operator_utility.go", "RepeatWith"},
}

type lgVar struct {
	name, ty, init string // ty: Nat | Bool | GoErr | Ctx
}

type lgEnv struct {
	op       string
	file     *ast.File
	vars     []lgVar
	idx      map[string]int
	comp     string            // the composite subscription
	params   []string          // Lean binders of the generated definitions, e.g. "(count : Nat)"
	pnames   []string          // their names
	ptypes   map[string]string // Go parameter name -> kind: retrycfg | nat | cond | sources | catchfn
	srcList  string            // name of the slice of sources (OnErrorResumeNextWith)
	cbParams map[string]string // callback parameter -> Lean type (Ctx | Int | Err)
	guards   [][2]string
	attempts []string // source expression of every attempt / forward, as written
	waits    []string // "wait" | "wait-unregistered" | "nowait-last"
	cbs      []string // generated callback definitions
	ncb      int
}

func lgSrc(n ast.Node) string {
	var sb strings.Builder
	printer.Fprint(&sb, fset, n)
	return strings.Join(strings.Fields(sb.String()), " ")
}

func (e *lgEnv) gname() string { return lowerFirstMG(e.op) + "G" }
func (e *lgEnv) st() string    { return e.op + "St" }

func (e *lgEnv) declare(name, ty, init string) {
	if _, dup := e.idx[name]; dup {
		lgPanic("local %s declared twice", name)
	}
	e.idx[name] = len(e.vars)
	e.vars = append(e.vars, lgVar{name, ty, init})
}

func lgZero(ty string) string {
	switch ty {
	case "Nat":
		return "0"
	case "Bool":
		return "false"
	case "GoErr":
		return "none"
	case "Ctx":
		return "Ctx.nil"
	}
	return "?"
}

func lgType(x ast.Expr) string {
	switch lgSrc(x) {
	case "uint64", "int64", "int", "uint32", "int32":
		return "Nat"
	case "bool":
		return "Bool"
	case "error":
		return "GoErr"
	case "context.Context":
		return "Ctx"
	}
	lgPanic("local of type %s outside the fragment", lgSrc(x))
	return ""
}

func (e *lgEnv) field(name string) string { return fmt.Sprintf("v%d", e.idx[name]) }

// the type of an expression, as far as the fragment needs it
func (e *lgEnv) typeOf(x ast.Expr) string {
	switch v := x.(type) {
	case *ast.ParenExpr:
		return e.typeOf(v.X)
	case *ast.BasicLit:
		if v.Kind == token.INT {
			return "Nat"
		}
	case *ast.Ident:
		if i, ok := e.idx[v.Name]; ok {
			return e.vars[i].ty
		}
		if t, ok := e.cbParams[v.Name]; ok {
			return t
		}
		switch v.Name {
		case "true", "false":
			return "Bool"
		case "nil":
			return "GoErr"
		case "subscriberCtx":
			return "Ctx"
		}
		if e.ptypes[v.Name] == "nat" {
			return "Nat"
		}
	case *ast.UnaryExpr:
		if v.Op == token.NOT {
			return "Bool"
		}
	case *ast.BinaryExpr:
		switch v.Op {
		case token.LAND, token.LOR, token.EQL, token.NEQ, token.LSS, token.LEQ, token.GTR, token.GEQ:
			return "Bool"
		case token.ADD:
			return "Nat"
		}
	case *ast.CallExpr:
		if id, ok := v.Fun.(*ast.Ident); ok && len(v.Args) == 1 {
			switch id.Name {
			case "uint64", "int64", "int":
				return "Nat"
			case "len":
				return "Nat"
			}
		}
		if lgSrc(v) == "subscriberCtx.Err()" {
			return "Err"
		}
	case *ast.SelectorExpr:
		if id, ok := v.X.(*ast.Ident); ok && e.ptypes[id.Name] == "retrycfg" {
			switch v.Sel.Name {
			case "MaxRetries":
				return "Nat"
			case "ResetOnSuccess":
				return "Bool"
			}
		}
	}
	lgPanic("expression outside the fragment: %s", lgSrc(x))
	return ""
}

// expression of the wanted Lean type over `s` (the locals), the callback parameters and the operator's parameters
func (e *lgEnv) expr(x ast.Expr, want string) string {
	if p, ok := x.(*ast.ParenExpr); ok {
		return e.expr(p.X, want)
	}
	have := e.typeOf(x)
	conv := func(s string) string {
		switch {
		case have == want:
			return s
		case have == "Err" && want == "GoErr":
			return "(some " + s + ")"
		case have == "GoErr" && want == "Err":
			return "(goErr " + s + ")"
		}
		lgPanic("expression %s has type %s where %s is needed", lgSrc(x), have, want)
		return ""
	}
	switch v := x.(type) {
	case *ast.BasicLit:
		return conv(v.Value)
	case *ast.Ident:
		if _, ok := e.idx[v.Name]; ok {
			return conv("s." + e.field(v.Name))
		}
		if _, ok := e.cbParams[v.Name]; ok {
			return conv(mgIdent(v.Name))
		}
		switch v.Name {
		case "true", "false", "subscriberCtx":
			return conv(v.Name)
		case "nil":
			return conv("none")
		}
		if e.ptypes[v.Name] == "nat" {
			return conv(v.Name)
		}
	case *ast.UnaryExpr:
		return conv("(!" + e.expr(v.X, "Bool") + ")")
	case *ast.BinaryExpr:
		switch v.Op {
		case token.LAND:
			return conv("(" + e.expr(v.X, "Bool") + " && " + e.expr(v.Y, "Bool") + ")")
		case token.LOR:
			return conv("(" + e.expr(v.X, "Bool") + " || " + e.expr(v.Y, "Bool") + ")")
		case token.ADD:
			return conv("(" + e.expr(v.X, "Nat") + " + " + e.expr(v.Y, "Nat") + ")")
		case token.NEQ, token.EQL:
			// comparison with nil
			if id, ok := v.Y.(*ast.Ident); ok && id.Name == "nil" && e.typeOf(v.X) == "GoErr" {
				if v.Op == token.NEQ {
					return conv(e.expr(v.X, "GoErr") + ".isSome")
				}
				return conv("(!" + e.expr(v.X, "GoErr") + ".isSome)")
			}
			if e.typeOf(v.X) == "Nat" && e.typeOf(v.Y) == "Nat" {
				if v.Op == token.EQL {
					return conv("(" + e.expr(v.X, "Nat") + " == " + e.expr(v.Y, "Nat") + ")")
				}
				return conv("(" + e.expr(v.X, "Nat") + " != " + e.expr(v.Y, "Nat") + ")")
			}
		case token.LSS, token.LEQ, token.GTR, token.GEQ:
			// `opts.Delay > 0`: a duration is only ever asked whether it is positive
			if s, ok := v.X.(*ast.SelectorExpr); ok && v.Op == token.GTR && lgSrc(v.Y) == "0" {
				if id, ok := s.X.(*ast.Ident); ok && e.ptypes[id.Name] == "retrycfg" && s.Sel.Name == "Delay" {
					return conv(id.Name + "_Delay_pos")
				}
			}
			op := map[token.Token]string{token.LSS: "<", token.LEQ: "≤", token.GTR: ">", token.GEQ: "≥"}[v.Op]
			return conv("decide (" + e.expr(v.X, "Nat") + " " + op + " " + e.expr(v.Y, "Nat") + ")")
		}
	case *ast.CallExpr:
		if id, ok := v.Fun.(*ast.Ident); ok && len(v.Args) == 1 {
			switch id.Name {
			case "uint64", "int64", "int":
				return conv(e.expr(v.Args[0], "Nat"))
			case "len":
				if a, ok := v.Args[0].(*ast.Ident); ok && a.Name == e.srcList && e.srcList != "" {
					return conv("nsources")
				}
			}
		}
		if lgSrc(v) == "subscriberCtx.Err()" {
			return conv("ctxCanceled")
		}
	case *ast.SelectorExpr:
		if id, ok := v.X.(*ast.Ident); ok && e.ptypes[id.Name] == "retrycfg" && (v.Sel.Name == "MaxRetries" || v.Sel.Name == "ResetOnSuccess") {
			return conv(id.Name + "_" + v.Sel.Name)
		}
	}
	lgPanic("expression outside the fragment: %s", lgSrc(x))
	return ""
}

func lgSeq(parts []string) string {
	if len(parts) == 0 {
		return ".skip"
	}
	if len(parts) == 1 {
		return parts[0]
	}
	return "(.seq " + parts[0] + " " + lgSeq(parts[1:]) + ")"
}

func (e *lgEnv) set(name, rhs string) string {
	return fmt.Sprintf("(.set (fun s => { s with %s := %s }))", e.field(name), rhs)
}

// `destination.KWithContext(args)`
func (e *lgEnv) emit(c *ast.CallExpr) (string, bool) {
	sel, ok := c.Fun.(*ast.SelectorExpr)
	if !ok {
		return "", false
	}
	id, ok := sel.X.(*ast.Ident)
	if !ok || id.Name != "destination" {
		return "", false
	}
	switch sel.Sel.Name {
	case "NextWithContext":
		if len(c.Args) == 2 {
			if a, ok := c.Args[1].(*ast.Ident); ok && e.cbParams[a.Name] == "Int" {
				return fmt.Sprintf("(.emit (fun s => .next %s %s))", e.expr(c.Args[0], "Ctx"), mgIdent(a.Name)), true
			}
		}
	case "ErrorWithContext":
		if len(c.Args) == 2 {
			return fmt.Sprintf("(.emit (fun s => .error %s %s))", e.expr(c.Args[0], "Ctx"), e.expr(c.Args[1], "Err")), true
		}
	case "CompleteWithContext":
		if len(c.Args) == 1 {
			return fmt.Sprintf("(.emit (fun s => .complete %s))", e.expr(c.Args[0], "Ctx")), true
		}
	}
	lgPanic("destination call outside the fragment: %s", lgSrc(c))
	return "", false
}

func (e *lgEnv) isCompCall(x ast.Expr, method string) (*ast.CallExpr, bool) {
	c, ok := x.(*ast.CallExpr)
	if !ok {
		return nil, false
	}
	sel, ok := c.Fun.(*ast.SelectorExpr)
	if !ok || sel.Sel.Name != method {
		return nil, false
	}
	id, ok := sel.X.(*ast.Ident)
	if !ok || id.Name != e.comp || e.comp == "" {
		return nil, false
	}
	return c, true
}

// X.SubscribeWithContext(C, Obs) -> (source text, context expression, observer expression)
func (e *lgEnv) subscribeCall(x ast.Expr) (string, ast.Expr, ast.Expr, bool) {
	c, ok := x.(*ast.CallExpr)
	if !ok || len(c.Args) != 2 {
		return "", nil, nil, false
	}
	sel, ok := c.Fun.(*ast.SelectorExpr)
	if !ok || sel.Sel.Name != "SubscribeWithContext" {
		return "", nil, nil, false
	}
	return lgSrc(sel.X), c.Args[0], c.Args[1], true
}

func (e *lgEnv) checkSource(src string, inCallback bool) {
	switch {
	case src == "source":
	case e.srcList != "" && strings.HasPrefix(src, e.srcList+"[") && strings.HasSuffix(src, "]"):
		i := src[len(e.srcList)+1 : len(src)-1]
		if _, ok := e.idx[i]; !ok {
			lgPanic("source expression outside the fragment: %s", src)
		}
	default:
		ok := false
		for n, k := range e.ptypes {
			if k == "catchfn" && inCallback && strings.HasPrefix(src, n+"(") {
				ok = true
			}
		}
		if !ok {
			lgPanic("source expression outside the fragment: %s", src)
		}
	}
}

// a callback handed to NewObserverWithContext; kind: next | error | complete. Returns the name of the generated definition.
func (e *lgEnv) callback(x ast.Expr, kind string) string {
	binders := map[string]string{"next": "(ctx : Ctx) (value : Int)", "error": "(ctx : Ctx) (err : Err)", "complete": "(ctx : Ctx)"}[kind]
	name := fmt.Sprintf("%s_%s%d", e.gname(), kind, e.ncb)
	var body string
	switch v := x.(type) {
	case *ast.SelectorExpr:
		want := map[string]string{"next": "destination.NextWithContext", "error": "destination.ErrorWithContext", "complete": "destination.CompleteWithContext"}[kind]
		if lgSrc(v) != want {
			lgPanic("%s callback outside the fragment: %s", kind, lgSrc(v))
		}
		body = map[string]string{"next": "(.emit (fun s => .next ctx value))", "error": "(.emit (fun s => .error ctx err))", "complete": "(.emit (fun s => .complete ctx))"}[kind]
	case *ast.FuncLit:
		ps := []string{}
		for _, f := range v.Type.Params.List {
			for _, n := range f.Names {
				ps = append(ps, n.Name)
			}
		}
		wantN := map[string]int{"next": 2, "error": 2, "complete": 1}[kind]
		if len(ps) != wantN {
			lgPanic("%s callback with %d parameters", kind, len(ps))
		}
		saved := e.cbParams
		e.cbParams = map[string]string{ps[0]: "Ctx"}
		lean := []string{mgIdent(ps[0])}
		if kind == "next" {
			e.cbParams[ps[1]] = "Int"
			lean = append(lean, mgIdent(ps[1]))
			binders = fmt.Sprintf("(%s : Ctx) (%s : Int)", lean[0], lean[1])
		} else if kind == "error" {
			e.cbParams[ps[1]] = "Err"
			lean = append(lean, mgIdent(ps[1]))
			binders = fmt.Sprintf("(%s : Ctx) (%s : Err)", lean[0], lean[1])
		} else {
			binders = fmt.Sprintf("(%s : Ctx)", lean[0])
		}
		body = e.block(v.Body.List, true, false)
		e.cbParams = saved
	default:
		lgPanic("%s callback outside the fragment: %s", kind, lgSrc(x))
	}
	e.cbs = append(e.cbs, fmt.Sprintf("def %s%s (subscriberCtx : Ctx) %s : LStm %s :=\n  %s\n", name, e.paramDecl(), binders, e.st(), body))
	return "(" + name + e.paramArgs() + " subscriberCtx)"
}

func (e *lgEnv) observer(x ast.Expr) (string, string, string) {
	c, ok := x.(*ast.CallExpr)
	if !ok || lgSrc(c.Fun) != "NewObserverWithContext" || len(c.Args) != 3 {
		lgPanic("observer outside the fragment: %s", lgSrc(x))
	}
	e.ncb++
	return e.callback(c.Args[0], "next"), e.callback(c.Args[1], "error"), e.callback(c.Args[2], "complete")
}

func (e *lgEnv) attempt(src string, cx, obs ast.Expr, how string, inCallback bool) string {
	e.checkSource(src, inCallback)
	if id, ok := obs.(*ast.Ident); ok && id.Name == "destination" {
		if !inCallback {
			lgPanic("`destination` handed upstream outside a callback")
		}
		e.attempts = append(e.attempts, src)
		e.waits = append(e.waits, "forward")
		return fmt.Sprintf("(.forward (fun s => %s))", e.expr(cx, "Ctx"))
	}
	if inCallback {
		lgPanic("an attempt inside a callback")
	}
	n, er, c := e.observer(obs)
	e.attempts = append(e.attempts, src)
	e.waits = append(e.waits, how)
	return fmt.Sprintf("(.attempt (fun s => %s) %s %s %s)", e.expr(cx, "Ctx"), n, er, c)
}

// the condition of an `if` / `for`: either a question to the world (returns kind "subs" / "dest" and whether negated) or a boolean expression
func (e *lgEnv) worldCond(x ast.Expr) (string, bool) {
	neg := false
	if u, ok := x.(*ast.UnaryExpr); ok && u.Op == token.NOT {
		neg = true
		x = u.X
	}
	if _, ok := e.isCompCall(x, "IsClosed"); ok {
		return "subs", neg
	}
	if lgSrc(x) == "destination.IsClosed()" {
		return "dest", neg
	}
	return "", false
}

func (e *lgEnv) declVar(d *ast.GenDecl) []string {
	var out []string
	for _, sp := range d.Specs {
		vs, ok := sp.(*ast.ValueSpec)
		if !ok || vs.Type == nil || len(vs.Values) != 0 {
			lgPanic("declaration outside the fragment: %s", lgSrc(d))
		}
		ty := lgType(vs.Type)
		for _, n := range vs.Names {
			e.declare(n.Name, ty, lgZero(ty))
			out = append(out, e.set(n.Name, lgZero(ty)))
		}
	}
	return out
}

// statements; inCallback: inside one of the three callbacks; inLoop: inside a `for`
func (e *lgEnv) block(l []ast.Stmt, inCallback, inLoop bool) string {
	var parts []string
	for i := 0; i < len(l); i++ {
		s := l[i]
		switch v := s.(type) {
		case *ast.DeclStmt:
			gd, ok := v.Decl.(*ast.GenDecl)
			if !ok || gd.Tok != token.VAR {
				lgPanic("declaration outside the fragment: %s", lgSrc(s))
			}
			sets := e.declVar(gd)
			if inLoop || inCallback {
				parts = append(parts, sets...)
			}
		case *ast.IncDecStmt:
			id, ok := v.X.(*ast.Ident)
			if !ok || v.Tok != token.INC || e.typeOf(id) != "Nat" {
				lgPanic("statement outside the fragment: %s", lgSrc(s))
			}
			if _, isLocal := e.idx[id.Name]; !isLocal {
				lgPanic("statement outside the fragment: %s", lgSrc(s))
			}
			parts = append(parts, e.set(id.Name, "s."+e.field(id.Name)+" + 1"))
		case *ast.AssignStmt:
			// sub := X.SubscribeWithContext(..); S.AddUnsubscribable(sub); sub.Wait()
			if v.Tok == token.DEFINE && len(v.Lhs) == 1 && len(v.Rhs) == 1 {
				if src, cx, obs, ok := e.subscribeCall(v.Rhs[0]); ok {
					subName := lgSrc(v.Lhs[0])
					if i+2 >= len(l) {
						lgPanic("an attempt must be `sub := X.SubscribeWithContext(..); S.AddUnsubscribable(sub); sub.Wait()`")
					}
					reg, ok1 := l[i+1].(*ast.ExprStmt)
					wait, ok2 := l[i+2].(*ast.ExprStmt)
					if !ok1 || !ok2 {
						lgPanic("an attempt must be followed by S.AddUnsubscribable(sub); sub.Wait()")
					}
					c, ok := e.isCompCall(reg.X, "AddUnsubscribable")
					if !ok || len(c.Args) != 1 || lgSrc(c.Args[0]) != subName {
						lgPanic("the subscription of an attempt is not registered: %s", lgSrc(reg))
					}
					if lgSrc(wait.X) != subName+".Wait()" {
						lgPanic("the attempt is not waited for: %s", lgSrc(wait))
					}
					parts = append(parts, e.attempt(src, cx, obs, "wait", inCallback))
					i += 2
					continue
				}
				if lgSrc(v.Rhs[0]) == "NewSubscription(nil)" {
					if e.comp != "" || inLoop || inCallback {
						lgPanic("second composite subscription: %s", lgSrc(s))
					}
					e.comp = lgSrc(v.Lhs[0])
					continue
				}
				// x := Expr: a new local
				id, ok := v.Lhs[0].(*ast.Ident)
				if !ok {
					lgPanic("statement outside the fragment: %s", lgSrc(s))
				}
				ty := e.typeOf(v.Rhs[0])
				if ty == "Err" {
					ty = "GoErr"
				}
				rhs := e.expr(v.Rhs[0], ty)
				if inLoop || inCallback {
					e.declare(id.Name, ty, lgZero(ty))
					parts = append(parts, e.set(id.Name, rhs))
				} else {
					if strings.Contains(rhs, "s.") {
						lgPanic("initial value of %s reads another local", id.Name)
					}
					e.declare(id.Name, ty, rhs)
				}
				continue
			}
			if v.Tok == token.ASSIGN && len(v.Lhs) == 1 && len(v.Rhs) == 1 {
				id, ok := v.Lhs[0].(*ast.Ident)
				if !ok {
					lgPanic("statement outside the fragment: %s", lgSrc(s))
				}
				if _, isLocal := e.idx[id.Name]; !isLocal {
					lgPanic("assignment to %s, which is not a local of the subscribe function", id.Name)
				}
				parts = append(parts, e.set(id.Name, e.expr(v.Rhs[0], e.vars[e.idx[id.Name]].ty)))
				continue
			}
			// a, b = condition(c, i)
			if len(v.Lhs) == 2 && len(v.Rhs) == 1 {
				c, ok := v.Rhs[0].(*ast.CallExpr)
				if ok {
					if f, ok := c.Fun.(*ast.Ident); ok && e.ptypes[f.Name] == "cond" && len(c.Args) == 2 {
						a, ok1 := v.Lhs[0].(*ast.Ident)
						b, ok2 := v.Lhs[1].(*ast.Ident)
						if !ok1 || !ok2 {
							lgPanic("statement outside the fragment: %s", lgSrc(s))
						}
						if v.Tok == token.DEFINE {
							e.declare(a.Name, "Ctx", "Ctx.nil")
							e.declare(b.Name, "Bool", "false")
						}
						if e.typeOf(a) != "Ctx" || e.typeOf(b) != "Bool" {
							lgPanic("results of the condition assigned to %s, %s", a.Name, b.Name)
						}
						parts = append(parts, fmt.Sprintf("(.cond (fun s => %s) (fun s => %s) (fun s c b => { s with %s := c, %s := b }))",
							e.expr(c.Args[0], "Ctx"), e.expr(c.Args[1], "Nat"), e.field(a.Name), e.field(b.Name)))
						continue
					}
				}
			}
			lgPanic("statement outside the fragment: %s", lgSrc(s))
		case *ast.ExprStmt:
			c, ok := v.X.(*ast.CallExpr)
			if !ok {
				lgPanic("statement outside the fragment: %s", lgSrc(s))
			}
			if t, ok := e.emit(c); ok {
				parts = append(parts, t)
				continue
			}
			// X.SubscribeWithContext(..).Wait()
			if sel, ok := c.Fun.(*ast.SelectorExpr); ok && sel.Sel.Name == "Wait" && len(c.Args) == 0 {
				if src, cx, obs, ok := e.subscribeCall(sel.X); ok {
					parts = append(parts, e.attempt(src, cx, obs, "wait-unregistered", inCallback))
					continue
				}
			}
			// S.AddUnsubscribable(X.SubscribeWithContext(..))
			if a, ok := e.isCompCall(c, "AddUnsubscribable"); ok && len(a.Args) == 1 {
				if src, cx, obs, ok := e.subscribeCall(a.Args[0]); ok {
					if !inCallback {
						// nobody waits: only as the last statement before `return S.Unsubscribe`
						last := i+2 == len(l)
						if last {
							r, ok := l[i+1].(*ast.ReturnStmt)
							last = ok && len(r.Results) == 1 && lgSrc(r.Results[0]) == e.comp+".Unsubscribe"
						}
						if !last || inLoop {
							lgPanic("an attempt that is not waited for, followed by more code: %s", lgSrc(s))
						}
					}
					parts = append(parts, e.attempt(src, cx, obs, "nowait-last", inCallback))
					continue
				}
			}
			lgPanic("statement outside the fragment: %s", lgSrc(s))
		case *ast.IfStmt:
			if v.Init != nil {
				lgPanic("`if` with an init statement: %s", lgSrc(v.Cond))
			}
			t := e.block(v.Body.List, inCallback, inLoop)
			el := ".skip"
			switch x := v.Else.(type) {
			case nil:
			case *ast.BlockStmt:
				el = e.block(x.List, inCallback, inLoop)
			case *ast.IfStmt:
				el = e.block([]ast.Stmt{x}, inCallback, inLoop)
			}
			if k, neg := e.worldCond(v.Cond); k != "" {
				if neg {
					t, el = el, t
				}
				parts = append(parts, fmt.Sprintf("(.%s %s %s)", map[string]string{"subs": "ifSubsClosed", "dest": "ifDestClosed"}[k], t, el))
			} else {
				parts = append(parts, fmt.Sprintf("(.ite (fun s => %s) %s %s)", e.expr(v.Cond, "Bool"), t, el))
			}
		case *ast.BranchStmt:
			if v.Label != nil || inCallback || !inLoop {
				lgPanic("statement outside the fragment: %s", lgSrc(s))
			}
			switch v.Tok {
			case token.BREAK:
				parts = append(parts, ".brk")
			case token.CONTINUE:
				parts = append(parts, ".cont")
			default:
				lgPanic("statement outside the fragment: %s", lgSrc(s))
			}
		case *ast.ReturnStmt:
			if inCallback {
				if len(v.Results) != 0 {
					lgPanic("statement outside the fragment: %s", lgSrc(s))
				}
				parts = append(parts, ".ret")
				continue
			}
			if len(v.Results) != 1 || (lgSrc(v.Results[0]) != e.comp+".Unsubscribe" && lgSrc(v.Results[0]) != "nil") {
				lgPanic("return outside the fragment: %s", lgSrc(s))
			}
			if lgSrc(v.Results[0]) == "nil" && e.comp != "" {
				lgPanic("the composite subscription is not returned as the teardown")
			}
			if i != len(l)-1 {
				lgPanic("code after a return")
			}
			if inLoop || len(l) > 0 {
				parts = append(parts, ".ret")
			}
		case *ast.SelectStmt:
			if inCallback {
				lgPanic("select inside a callback")
			}
			var done, other []ast.Stmt
			seenDone, seenOther := false, false
			for _, cc := range v.Body.List {
				c := cc.(*ast.CommClause)
				switch {
				case c.Comm == nil:
					other, seenOther = c.Body, true
				case lgSrc(c.Comm) == "<-subscriberCtx.Done()":
					done, seenDone = c.Body, true
				case strings.HasPrefix(lgSrc(c.Comm), "<-time.After("):
					other, seenOther = c.Body, true
				default:
					lgPanic("select case outside the fragment: %s", lgSrc(c.Comm))
				}
			}
			if !seenDone || !seenOther || len(v.Body.List) != 2 {
				lgPanic("select outside the fragment")
			}
			parts = append(parts, fmt.Sprintf("(.ifDone %s %s)", e.block(done, false, inLoop), e.block(other, false, inLoop)))
		case *ast.ForStmt:
			if inCallback || inLoop {
				lgPanic("nested loop")
			}
			var pre []string
			cond := "(fun s => true)"
			post := ".skip"
			var head []string
			if v.Init != nil {
				a, ok := v.Init.(*ast.AssignStmt)
				if !ok || a.Tok != token.DEFINE || len(a.Lhs) != 1 || len(a.Rhs) != 1 {
					lgPanic("loop header outside the fragment: %s", lgSrc(v.Init))
				}
				id := a.Lhs[0].(*ast.Ident)
				e.declare(id.Name, "Nat", "0")
				pre = append(pre, e.set(id.Name, e.expr(a.Rhs[0], "Nat")))
			}
			if v.Cond != nil {
				if k, neg := e.worldCond(v.Cond); k != "" {
					br := map[string]string{"subs": "ifSubsClosed", "dest": "ifDestClosed"}[k]
					if neg {
						head = append(head, fmt.Sprintf("(.%s .brk .skip)", br))
					} else {
						head = append(head, fmt.Sprintf("(.%s .skip .brk)", br))
					}
				} else {
					cond = "(fun s => " + e.expr(v.Cond, "Bool") + ")"
				}
			}
			if v.Post != nil {
				post = e.block([]ast.Stmt{v.Post}, false, false)
			}
			body := e.block(v.Body.List, false, true)
			if len(head) > 0 {
				body = lgSeq(append(head, body))
			}
			parts = append(parts, pre...)
			parts = append(parts, e.loopStmt(cond, post, body))
		case *ast.RangeStmt:
			if inCallback || inLoop {
				lgPanic("nested loop")
			}
			k, ok := v.Key.(*ast.Ident)
			if !ok || v.Value != nil || v.Tok != token.DEFINE || lgSrc(v.X) != e.srcList || e.srcList == "" {
				lgPanic("range loop outside the fragment: %s", lgSrc(v.X))
			}
			e.declare(k.Name, "Nat", "0")
			body := e.block(v.Body.List, false, true)
			parts = append(parts, e.set(k.Name, "0"))
			parts = append(parts, e.loopStmt("(fun s => decide (s."+e.field(k.Name)+" < nsources))", e.set(k.Name, "s."+e.field(k.Name)+" + 1"), body))
		default:
			lgPanic("statement outside the fragment: %s", lgSrc(s))
		}
	}
	return lgSeq(parts)
}

// the loop body becomes a definition of its own (the proofs are about it)
func (e *lgEnv) loopStmt(cond, post, body string) string {
	name := e.gname() + "_body"
	e.cbs = append(e.cbs, fmt.Sprintf("def %s%s (subscriberCtx : Ctx) : LStm %s :=\n  %s\n", name, e.paramDecl(), e.st(), body))
	return fmt.Sprintf("(.loop %s %s (%s%s subscriberCtx))", cond, post, name, e.paramArgs())
}

func (e *lgEnv) paramDecl() string {
	if len(e.params) == 0 {
		return ""
	}
	return " " + strings.Join(e.params, " ")
}

func (e *lgEnv) paramArgs() string {
	if len(e.pnames) == 0 {
		return ""
	}
	return " " + strings.Join(e.pnames, " ")
}

func (e *lgEnv) addParam(name, ty string) {
	e.params = append(e.params, "("+name+" : "+ty+")")
	e.pnames = append(e.pnames, name)
}

func lgTranslate(file *ast.File, fd *ast.FuncDecl) (string, *lgEnv) {
	e := &lgEnv{op: fd.Name.Name, file: file, idx: map[string]int{}, ptypes: map[string]string{}, cbParams: map[string]string{}}
	if fd.Type.Params == nil || len(fd.Type.Params.List) != 1 || len(fd.Type.Params.List[0].Names) != 1 {
		lgPanic("operator parameters outside the fragment")
	}
	p := fd.Type.Params.List[0]
	pn := p.Names[0].Name
	switch t := lgSrc(p.Type); {
	case t == "RetryConfig":
		e.ptypes[pn] = "retrycfg"
		// the fields of RetryConfig, in declaration order
		var fields [][2]string
		for _, d := range file.Decls {
			gd, ok := d.(*ast.GenDecl)
			if !ok || gd.Tok != token.TYPE {
				continue
			}
			for _, sp := range gd.Specs {
				ts := sp.(*ast.TypeSpec)
				st, ok := ts.Type.(*ast.StructType)
				if !ok || ts.Name.Name != "RetryConfig" {
					continue
				}
				for _, f := range st.Fields.List {
					for _, n := range f.Names {
						fields = append(fields, [2]string{n.Name, lgSrc(f.Type)})
					}
				}
			}
		}
		for _, f := range fields {
			switch f[1] {
			case "uint64":
				e.addParam(pn+"_"+f[0], "Nat")
			case "bool":
				e.addParam(pn+"_"+f[0], "Bool")
			case "time.Duration":
				e.addParam(pn+"_"+f[0]+"_pos", "Bool")
			default:
				lgPanic("field %s %s of RetryConfig outside the fragment", f[0], f[1])
			}
		}
		if len(fields) == 0 {
			lgPanic("type RetryConfig not found")
		}
	case t == "int64":
		e.ptypes[pn] = "nat"
		e.addParam(pn, "Nat")
	case t == "func(ctx context.Context, index int64) (context.Context, bool)":
		e.ptypes[pn] = "cond"
	case t == "...Observable[T]":
		e.ptypes[pn] = "sources"
		e.addParam("nsources", "Nat")
	case t == "func(err error) Observable[T]":
		e.ptypes[pn] = "catchfn"
	default:
		lgPanic("operator parameter of type %s outside the fragment", t)
	}
	body := fd.Body.List
	// guards of the constructor
	for len(body) > 1 {
		ifs, ok := body[0].(*ast.IfStmt)
		if !ok || ifs.Else != nil || len(ifs.Body.List) != 1 || !strings.HasPrefix(lgSrc(ifs.Body.List[0]), "panic(") {
			lgPanic("constructor statement outside the fragment: %s", lgSrc(body[0]))
		}
		e.guards = append(e.guards, [2]string{"panic", lgSrc(ifs.Cond)})
		body = body[1:]
	}
	ret, ok := body[0].(*ast.ReturnStmt)
	if !ok || len(ret.Results) != 1 {
		lgPanic("constructor does not return the application function")
	}
	app, ok := ret.Results[0].(*ast.FuncLit)
	if !ok {
		lgPanic("constructor does not return a function literal")
	}
	ab := app.Body.List
	for len(ab) > 1 {
		switch v := ab[0].(type) {
		case *ast.IfStmt:
			if v.Else != nil || len(v.Body.List) != 1 {
				lgPanic("application statement outside the fragment: %s", lgSrc(v))
			}
			switch r := lgSrc(v.Body.List[0]); r {
			case "return Empty[T]()":
				e.guards = append(e.guards, [2]string{"empty", lgSrc(v.Cond)})
			case "return source":
				e.guards = append(e.guards, [2]string{"source", lgSrc(v.Cond)})
			default:
				lgPanic("application statement outside the fragment: %s", r)
			}
		case *ast.AssignStmt:
			want := ""
			for n, k := range e.ptypes {
				if k == "sources" {
					want = "append([]Observable[T]{source}, " + n + "...)"
				}
			}
			if v.Tok != token.DEFINE || len(v.Lhs) != 1 || len(v.Rhs) != 1 || want == "" || lgSrc(v.Rhs[0]) != want {
				lgPanic("application statement outside the fragment: %s", lgSrc(v))
			}
			e.srcList = lgSrc(v.Lhs[0])
		default:
			lgPanic("application statement outside the fragment: %s", lgSrc(v))
		}
		ab = ab[1:]
	}
	ret, ok = ab[0].(*ast.ReturnStmt)
	if !ok || len(ret.Results) != 1 {
		lgPanic("application function does not return an observable constructor call")
	}
	cons, ok := ret.Results[0].(*ast.CallExpr)
	if !ok || len(cons.Args) != 1 {
		lgPanic("application function does not return an observable constructor call")
	}
	ctor := lgSrc(cons.Fun)
	if ctor != "NewUnsafeObservableWithContext" && ctor != "NewObservableWithContext" && ctor != "NewSafeObservableWithContext" {
		lgPanic("constructor %s outside the fragment", ctor)
	}
	sf, ok := cons.Args[0].(*ast.FuncLit)
	if !ok || len(sf.Type.Params.List) != 2 || sf.Type.Params.List[0].Names[0].Name != "subscriberCtx" || sf.Type.Params.List[1].Names[0].Name != "destination" {
		lgPanic("subscribe function outside the fragment")
	}
	prog := e.block(sf.Body.List, false, false)

	var sb strings.Builder
	sb.WriteString(fmt.Sprintf("/-- the locals of %s's subscribe function (%s:%d) -/\nstructure %s where\n", e.op, filepath.Base(fset.Position(fd.Pos()).Filename), fset.Position(sf.Pos()).Line, e.st()))
	names := []string{}
	for i, v := range e.vars {
		sb.WriteString(fmt.Sprintf("  v%d : %s\n", i, v.ty))
		names = append(names, fmt.Sprintf("v%d=%s", i, v.name))
	}
	if len(e.vars) == 0 {
		sb.WriteString("  mk ::\n")
	}
	sb.WriteString("-- @names " + strings.Join(names, " ") + " comp=" + e.comp + "\n\n")
	for _, c := range e.cbs {
		sb.WriteString(c + "\n")
	}
	inits := []string{}
	for i, v := range e.vars {
		inits = append(inits, fmt.Sprintf("v%d := %s", i, v.init))
	}
	init := "{ " + strings.Join(inits, ", ") + " }"
	if len(e.vars) == 0 {
		init = "⟨⟩"
	}
	sb.WriteString(fmt.Sprintf("def %s%s : LoopProg %s where\n  init := fun subscriberCtx => %s\n  body := fun subscriberCtx =>\n    %s\n", e.gname(), e.paramDecl(), e.st(), init, prog))
	return sb.String(), e
}

func extractLoopGen(repo, out string) {
	var sb strings.Builder
	sb.WriteString("-- GENERATED by go/extract (loopgen.go) from the repository under check. Do not edit.\nimport RoModel.ResubGen\nset_option linter.unusedVariables false\nnamespace RoGen.Loop\nopen Ro Ro.Resub Ro.Resub.Gen\n\n")
	var skipped [][2]string
	var done []string
	var guards, sources, ctors []string
	files := map[string]*ast.File{}
	for _, op := range lgOps {
		f, seen := files[op.file]
		if !seen {
			var err error
			f, err = parser.ParseFile(fset, filepath.Join(repo, op.file), nil, 0)
			if err != nil {
				f = nil
			}
			files[op.file] = f
		}
		var fd *ast.FuncDecl
		if f != nil {
			for _, d := range f.Decls {
				if x, ok := d.(*ast.FuncDecl); ok && x.Body != nil && x.Recv == nil && x.Name.Name == op.name {
					fd = x
				}
			}
		}
		if fd == nil {
			skipped = append(skipped, [2]string{op.name, "function not found in " + op.file})
			continue
		}
		func() {
			defer func() {
				if r := recover(); r != nil {
					if f, ok := r.(lgFail); ok {
						skipped = append(skipped, [2]string{op.name, f.why})
						return
					}
					if f, ok := r.(mgFail); ok {
						skipped = append(skipped, [2]string{op.name, f.why})
						return
					}
					panic(r)
				}
			}()
			txt, e := lgTranslate(f, fd)
			sb.WriteString("-- @gen " + op.name + "\n" + txt + "\n")
			done = append(done, op.name)
			gs := []string{}
			for _, g := range e.guards {
				gs = append(gs, "("+leanStr(g[0])+", "+leanStr(g[1])+")")
			}
			guards = append(guards, "("+leanStr(op.name)+", ["+strings.Join(gs, ", ")+"])")
			as := []string{}
			for i := range e.attempts {
				as = append(as, "("+leanStr(e.attempts[i])+", "+leanStr(e.waits[i])+")")
			}
			sources = append(sources, "("+leanStr(op.name)+", ["+strings.Join(as, ", ")+"])")
			_ = ctors
		}()
	}
	sb.WriteString("-- @end\n\ndef translated : List String := [" + strings.Join(mapStr(done, leanStr), ", ") + "]\n\ndef skipped : List (String × String) := [")
	for i, s := range skipped {
		if i > 0 {
			sb.WriteString(", ")
		}
		sb.WriteString("(" + leanStr(s[0]) + ", " + leanStr(s[1]) + ")")
	}
	sb.WriteString("]\n\n/-- the parameter guards in front of the subscribe functions, as written in the Go source: `panic` = the constructor panics,\n    `empty` = `Empty()` is returned, `source` = the source itself is returned -/\ndef guards : List (String × List (String × String)) := [\n  " + strings.Join(guards, ",\n  ") + "\n]\n\n")
	sb.WriteString("/-- which observable every attempt subscribes (as written) and how the loop treats the subscription: `wait` = registered in the\n    composite subscription and waited for, `wait-unregistered` = waited for only, `nowait-last` = registered, last statement of the\n    subscribe function, `forward` = subscribed with the destination as its observer from inside a callback -/\ndef attempts : List (String × List (String × String)) := [\n  " + strings.Join(sources, ",\n  ") + "\n]\n\nend RoGen.Loop\n")
	if out != "" {
		writeIfChanged(filepath.Join(out, "LoopGen.lean"), sb.String())
	} else {
		fmt.Print(sb.String())
	}
}
